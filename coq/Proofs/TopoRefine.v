(* Refinement of the abstract scheduler (Spec/Sched.v) by the TopoSort model
   (Model/Topo.v): representation invariant [Rep], its preservation by every
   protocol event, and the C26 theorems.  All statements are over arbitrary
   states / histories (induction; no bound on items or rounds). *)
From Capy Require Import Common.Util Model.Topo Spec.Sched Proofs.TopoMap Proofs.TopoProofs.

(* ---------- counting the open registrations of an item ---------------------- *)
Definition waitsb (dn : list item) (x : item) (w : item * item) : bool :=
  N.eqb (fst w) x && negb (memb (snd w) dn).
Definition cntn (dn : list item) (ws : list (item * item)) (x : item) : nat :=
  length (filter (waitsb dn x) ws).

Lemma memp_In w l : memp w l = true <-> In w l.
Proof.
  unfold memp. rewrite existsb_exists. split.
  - intros [y [Hy E]]. unfold pair_eqb in E. apply andb_true_iff in E. destruct E as [E1 E2].
    apply N.eqb_eq in E1, E2. destruct w, y; cbn in *; subst. exact Hy.
  - intros H. exists w. split; [exact H|]. unfold pair_eqb. rewrite !N.eqb_refl. reflexivity.
Qed.

Lemma memp_nIn w l : memp w l = false <-> ~ In w l.
Proof.
  rewrite <- memp_In. destruct (memp w l); split; intros H;
    try reflexivity; try discriminate; try (intro; discriminate).
  exfalso; apply H; reflexivity.
Qed.

Lemma cntn_app dn ws w x :
  cntn dn (ws ++ [w]) x = cntn dn ws x + (if waitsb dn x w then 1 else 0).
Proof.
  unfold cntn. rewrite filter_app, app_length. cbn [filter].
  destruct (waitsb dn x w); reflexivity.
Qed.

Lemma cntn_pos dn ws x w : In w ws -> waitsb dn x w = true -> cntn dn ws x <> 0.
Proof.
  intros Hin Hw. unfold cntn.
  assert (H : In w (filter (waitsb dn x) ws)) by (apply filter_In; split; assumption).
  destruct (filter (waitsb dn x) ws); [destruct H|cbn; discriminate].
Qed.

Lemma cntn_zero dn ws x : (forall c, ~ In (x, c) ws) -> cntn dn ws x = 0.
Proof.
  intros H. unfold cntn. induction ws as [|w r IH]; [reflexivity|].
  cbn [filter]. destruct (waitsb dn x w) eqn:E.
  - exfalso. unfold waitsb in E. apply andb_true_iff in E. destruct E as [E _].
    apply N.eqb_eq in E. apply (H (snd w)). left. destruct w; cbn in *; subst; reflexivity.
  - apply IH. intros c Hc. apply (H c). right. exact Hc.
Qed.

(* completing x closes exactly the registrations (y, x) *)
Lemma cntn_complete dn ws x y :
  NoDup ws -> ~ In x dn ->
  cntn (x :: dn) ws y + (if memp (y, x) ws then 1 else 0) = cntn dn ws y.
Proof.
  intros ND Hx. unfold cntn. induction ws as [|w r IH]; [reflexivity|].
  inversion ND as [|? ? Hn ND']; subst.
  specialize (IH ND'). destruct w as [a b].
  assert (W1 : waitsb (x :: dn) y (a, b) = (N.eqb a y && negb (N.eqb b x || memb b dn))) by reflexivity.
  assert (W2 : waitsb dn y (a, b) = (N.eqb a y && negb (memb b dn))) by reflexivity.
  assert (M : memp (y, x) ((a, b) :: r) = (N.eqb y a && N.eqb x b) || memp (y, x) r) by reflexivity.
  cbn [filter]. rewrite W1, W2, M. clear W1 W2 M.
  destruct (N.eqb_spec a y) as [Ea|Ea]; cbn [andb].
  - subst a. rewrite N.eqb_refl. cbn [andb].
    destruct (N.eqb_spec b x) as [Eb|Eb].
    + subst b. rewrite N.eqb_refl. cbn [orb negb].
      assert (Hm : memb x dn = false) by (apply memb_nIn; exact Hx). rewrite Hm. cbn [negb].
      assert (Hr : memp (y, x) r = false) by (apply memp_nIn; exact Hn).
      rewrite Hr in IH. cbn [length]. lia.
    + assert (Exb : N.eqb x b = false) by (apply N.eqb_neq; congruence). rewrite Exb.
      cbn [orb]. destruct (negb (memb b dn)); cbn [length]; lia.
  - assert (Eya : N.eqb y a = false) by (apply N.eqb_neq; congruence). rewrite Eya.
    cbn [andb orb]. exact IH.
Qed.

Lemma count_zero_forallb {A} (f : A -> bool) l :
  N.eqb (N.of_nat (length (filter f l))) 0 = forallb (fun w => negb (f w)) l.
Proof.
  induction l as [|a r IH]; [reflexivity|]. cbn [filter forallb].
  destruct (f a); cbn [negb andb length]; [|exact IH].
  destruct (N.of_nat (S (length (filter f r)))) eqn:E; [lia|reflexivity].
Qed.

(* ---------- the representation invariant --------------------------------------- *)
Record Rep (t : topo) (s : sched) : Prop := mkRep {
  R_keys   : keys t = pending s;
  R_nodup  : NoDup (pending s);
  R_disj   : forall x, In x (pending s) -> ~ In x (done s);
  R_wnodup : NoDup (waits s);
  R_wdom   : forall p c, In (p, c) (waits s) ->
               (In p (pending s) \/ In p (done s)) /\ (In c (pending s) \/ In c (done s));
  R_nc     : forall x d, get t x = Some d -> nc d = N.of_nat (cntn (done s) (waits s) x);
  R_par1   : forall c d p, get t c = Some d -> In p (parents d) -> In (p, c) (waits s);
  R_par2   : forall c d p, get t c = Some d -> In (p, c) (waits s) -> In p (pending s) ->
               In p (parents d);
  R_pnodup : forall c d, get t c = Some d -> NoDup (parents d)
}.

Definition oget (t : topo) (x : item) : deps :=
  match get t x with Some d => d | None => new_deps end.

(* characterisation of insert_dep when it does not return early *)
Lemma insert_dep_char t p c dp :
  get t p = Some dp ->
  (match get t c with None => True | Some dc => memb p (parents dc) = false end) ->
  keys (insert_dep t p c) = add_pending (keys t) c /\
  forall x d2, get (insert_dep t p c) x = Some d2 ->
    nc d2 = (nc (oget t x) + (if N.eqb x p then 1 else 0))%N /\
    parents d2 = parents (oget t x) ++ (if N.eqb x c then [p] else []).
Proof.
  intros Gp Hc. unfold insert_dep, add_pending.
  destruct (get t c) as [dc|] eqn:Gc.
  - rewrite Hc. assert (Kc : In c (keys t)) by (eapply get_keys; eauto).
    rewrite (proj2 (memb_In _ _) Kc).
    rewrite get_set. destruct (N.eqb_spec c p) as [E|E].
    + subst p. split.
      * rewrite !keys_set_in; [reflexivity|exact Kc|rewrite keys_set_in; exact Kc].
      * intros x d2. rewrite !get_set. destruct (N.eqb_spec c x) as [E|E].
        -- subst x. intros H; inversion H; subst; clear H. cbn [nc parents].
           unfold oget. rewrite Gc, N.eqb_refl. split; reflexivity.
        -- intros G. unfold oget. rewrite G.
           assert (E1 : N.eqb x c = false) by (apply N.eqb_neq; congruence). rewrite E1.
           rewrite app_nil_r. split; [lia|reflexivity].
    + rewrite Gp. split.
      * rewrite !keys_set_in; [reflexivity|exact Kc|rewrite keys_set_in; [eapply get_keys; eauto|exact Kc]].
      * intros x d2. rewrite !get_set. destruct (N.eqb_spec p x) as [E1|E1].
        -- subst x. intros H; inversion H; subst; clear H. cbn [nc parents].
           unfold oget. rewrite Gp, N.eqb_refl.
           assert (E2 : N.eqb p c = false) by (apply N.eqb_neq; congruence). rewrite E2.
           rewrite app_nil_r. split; reflexivity.
        -- assert (E2 : N.eqb x p = false) by (apply N.eqb_neq; congruence). rewrite E2.
           destruct (N.eqb_spec c x) as [E3|E3].
           ++ subst x. intros H; inversion H; subst; clear H. cbn [nc parents].
              unfold oget. rewrite Gc, N.eqb_refl. split; [lia|reflexivity].
           ++ intros G. unfold oget. rewrite G.
              assert (E4 : N.eqb x c = false) by (apply N.eqb_neq; congruence). rewrite E4.
              rewrite app_nil_r. split; [lia|reflexivity].
  - assert (Kc : ~ In c (keys t)) by (apply get_none; exact Gc).
    rewrite (proj2 (memb_nIn _ _) Kc).
    assert (Epc : c <> p) by (intros E; subst; rewrite Gp in Gc; discriminate).
    rewrite get_set. destruct (N.eqb_spec c p) as [E|_]; [congruence|].
    rewrite Gp. split.
    + rewrite keys_set_in; [apply keys_set_nin; exact Kc|].
      rewrite keys_set_nin by exact Kc. apply in_or_app. left. eapply get_keys; eauto.
    + intros x d2. rewrite !get_set. destruct (N.eqb_spec p x) as [E1|E1].
      * subst x. intros H; inversion H; subst; clear H. cbn [nc parents].
        unfold oget. rewrite Gp, N.eqb_refl.
        assert (E2 : N.eqb p c = false) by (apply N.eqb_neq; congruence). rewrite E2.
        rewrite app_nil_r. split; reflexivity.
      * assert (E2 : N.eqb x p = false) by (apply N.eqb_neq; congruence). rewrite E2.
        destruct (N.eqb_spec c x) as [E3|E3].
        -- subst x. intros H; inversion H; subst; clear H. cbn [nc parents].
           unfold oget. rewrite Gc, N.eqb_refl. split; reflexivity.
        -- intros G. unfold oget. rewrite G.
           assert (E4 : N.eqb x c = false) by (apply N.eqb_neq; congruence). rewrite E4.
           rewrite app_nil_r. split; [lia|reflexivity].
Qed.

Lemma add_pending_in l x : In x l -> add_pending l x = l.
Proof. intros H. unfold add_pending. rewrite (proj2 (memb_In _ _) H). reflexivity. Qed.

Lemma add_pending_nin l x : ~ In x l -> add_pending l x = l ++ [x].
Proof. intros H. unfold add_pending. rewrite (proj2 (memb_nIn _ _) H). reflexivity. Qed.

Lemma in_add_pending l x y : In y (add_pending l x) <-> In y l \/ y = x.
Proof.
  unfold add_pending. destruct (memb x l) eqn:E.
  - apply memb_In in E. split; [tauto|]. intros [H|H]; [exact H|subst; exact E].
  - rewrite in_app_iff. cbn [In]. split; intros [H|H]; auto.
    + destruct H as [H|[]]; auto.
Qed.

Lemma nodup_snoc {A} (l : list A) x : NoDup l -> ~ In x l -> NoDup (l ++ [x]).
Proof.
  induction l as [|a r IH]; cbn [app]; intros ND H.
  - constructor; [intros []|constructor].
  - inversion ND; subst. constructor.
    + rewrite in_app_iff. cbn [In]. intros [H1|[H1|[]]]; [tauto|]. subst. apply H. left. reflexivity.
    + apply IH; [assumption|]. intros H1. apply H. right. exact H1.
Qed.

Lemma nodup_add_pending l x : NoDup l -> NoDup (add_pending l x).
Proof.
  intros ND. unfold add_pending. destruct (memb x l) eqn:E; [exact ND|].
  apply nodup_snoc; [exact ND|apply memb_nIn; exact E].
Qed.

Lemma rep_insert_dep t s p c :
  Rep t s -> In p (pending s) -> ~ In c (done s) ->
  Rep (insert_dep t p c) (a_reg1 s p c).
Proof.
  intros [Rk Rnd Rdj Rwn Rwd Rnc Rp1 Rp2 Rpn] Hp Hc.
  assert (Hpk : In p (keys t)) by (rewrite Rk; exact Hp).
  destruct (keys_get _ _ Hpk) as [dp Gp].
  destruct (match get t c with Some dc => memb p (parents dc) | None => false end) eqn:Early.
  - (* already registered: nothing changes on either side *)
    destruct (get t c) as [dc|] eqn:Gc; [|discriminate].
    assert (Hcp : In c (pending s)) by (rewrite <- Rk; eapply get_keys; eauto).
    assert (Hw : In (p, c) (waits s)) by (eapply Rp1; [exact Gc|apply memb_In; exact Early]).
    unfold insert_dep. rewrite Gc, Early.
    unfold a_reg1. rewrite (add_pending_in _ _ Hcp), (add_pending_in _ _ Hp).
    unfold add_wait. rewrite (proj2 (memp_In _ _) Hw).
    constructor; cbn [pending done waits]; assumption.
  - assert (Hpre : match get t c with None => True | Some dc => memb p (parents dc) = false end)
      by (destruct (get t c); [exact Early|exact I]).
    destruct (insert_dep_char t p c dp Gp Hpre) as [Hk Hg].
    assert (Hnw : ~ In (p, c) (waits s)).
    { intros Hw. destruct (get t c) as [dc|] eqn:Gc.
      - apply memb_nIn in Early. apply Early. eapply Rp2; eauto.
      - apply get_none in Gc. rewrite Rk in Gc. destruct (Rwd _ _ Hw) as [_ [H|H]]; tauto. }
    assert (Hnone : forall x, get t x = None -> In x (add_pending (pending s) c) ->
                    x = c /\ ~ In c (pending s) /\ cntn (done s) (waits s) x = 0).
    { intros x G Hx. apply get_none in G. rewrite Rk in G.
      apply in_add_pending in Hx. destruct Hx as [Hx|Hx]; [tauto|]. subst x.
      split; [reflexivity|]. split; [exact G|]. apply cntn_zero. intros c' Hw.
      destruct (Rwd _ _ Hw) as [[H|H] _]; tauto. }
    unfold a_reg1. unfold add_wait. rewrite (proj2 (memp_nIn _ _) Hnw).
    assert (Hpp : In p (add_pending (pending s) c)) by (apply in_add_pending; left; exact Hp).
    rewrite (add_pending_in _ _ Hpp).
    rewrite Rk in Hk.
    constructor; cbn [pending done waits].
    + exact Hk.
    + apply nodup_add_pending. exact Rnd.
    + intros x Hx. apply in_add_pending in Hx. destruct Hx as [Hx|Hx]; [auto|subst; exact Hc].
    + apply nodup_snoc; assumption.
    + intros p' c' Hw. apply in_app_or in Hw. destruct Hw as [Hw|[Hw|[]]].
      * destruct (Rwd _ _ Hw) as [H1 H2]. rewrite !in_add_pending. tauto.
      * inversion Hw; subst. rewrite !in_add_pending. tauto.
    + intros x d2 G. destruct (Hg _ _ G) as [Hn _]. rewrite Hn. rewrite cntn_app.
      assert (Hx : In x (add_pending (pending s) c)) by (rewrite <- Hk; eapply get_keys; eauto).
      assert (Hold : nc (oget t x) = N.of_nat (cntn (done s) (waits s) x)).
      { unfold oget. destruct (get t x) as [d|] eqn:Gx; [eapply Rnc; eauto|].
        destruct (Hnone _ Gx Hx) as [_ [_ Hz]]. rewrite Hz. reflexivity. }
      rewrite Hold. unfold waitsb. cbn [fst snd].
      rewrite (proj2 (memb_nIn _ _) Hc). cbn [negb]. rewrite andb_true_r.
      rewrite (N.eqb_sym p x). destruct (N.eqb x p); lia.
    + intros x d2 p' G Hin. destruct (Hg _ _ G) as [_ Hpar]. rewrite Hpar in Hin.
      apply in_app_or in Hin. apply in_or_app. destruct Hin as [Hin|Hin].
      * left. unfold oget in Hin. destruct (get t x) as [d|] eqn:Gx; [eapply Rp1; eauto|destruct Hin].
      * right. destruct (N.eqb_spec x c) as [E|E]; [|destruct Hin].
        destruct Hin as [Hin|[]]. subst. left. reflexivity.
    + intros x d2 p' G Hw Hp'. destruct (Hg _ _ G) as [_ Hpar]. rewrite Hpar.
      apply in_or_app. apply in_app_or in Hw. destruct Hw as [Hw|[Hw|[]]].
      * left. destruct (Rwd _ _ Hw) as [Hd1 Hd2].
        assert (Hx : In x (add_pending (pending s) c)) by (rewrite <- Hk; eapply get_keys; eauto).
        unfold oget. destruct (get t x) as [d|] eqn:Gx.
        -- eapply Rp2; [exact Gx|exact Hw|].
           apply in_add_pending in Hp'. destruct Hp' as [Hp'|Hp']; [exact Hp'|].
           subst p'. destruct Hd1 as [Hd1|Hd1]; [exact Hd1|tauto].
        -- destruct (Hnone _ Gx Hx) as [Ex [Hnp _]]. subst x. exfalso. tauto.
      * right. inversion Hw; subst. rewrite N.eqb_refl. left. reflexivity.
    + intros x d2 G. destruct (Hg _ _ G) as [_ Hpar]. rewrite Hpar.
      assert (Hold : NoDup (parents (oget t x))).
      { unfold oget. destruct (get t x) as [d|] eqn:Gx; [eapply Rpn; eauto|constructor]. }
      destruct (N.eqb_spec x c) as [E|E]; [|rewrite app_nil_r; exact Hold].
      subst x. apply nodup_snoc; [exact Hold|].
      unfold oget. destruct (get t c) as [dc|]; [apply memb_nIn; exact Early|intros []].
Qed.

(* ---------- remove ------------------------------------------------------------------ *)
Definition dec_if (b : bool) (d : deps) : deps :=
  if b then mkDeps (nc d - 1) (parents d) else d.

Lemma dec_parents_spec : forall ps t,
  NoDup ps ->
  (forall p d, In p ps -> get t p = Some d -> nc d <> 0%N) ->
  exists t', dec_parents t ps = Ok t' /\ keys t' = keys t /\
    forall y, get t' y = option_map (dec_if (memb y ps)) (get t y).
Proof.
  induction ps as [|s r IH]; intros t ND Hpos.
  - exists t. split; [reflexivity|]. split; [reflexivity|].
    intros y. cbn [memb existsb dec_if]. destruct (get t y); reflexivity.
  - inversion ND as [|? ? Hn ND']; subst. cbn [dec_parents].
    destruct (get t s) as [d|] eqn:Gs.
    + assert (Hd : nc d <> 0%N) by (eapply Hpos; [left; reflexivity|exact Gs]).
      apply N.eqb_neq in Hd. rewrite Hd.
      destruct (IH (set t s (mkDeps (nc d - 1) (parents d))) ND') as [t' [Hr [Hk Hg]]].
      { intros p d' Hp G. rewrite get_set in G.
        destruct (N.eqb_spec s p) as [E|E]; [subst; tauto|].
        eapply Hpos; [right; exact Hp|exact G]. }
      exists t'. split; [exact Hr|]. split.
      * rewrite Hk. apply keys_set_in. eapply get_keys; eauto.
      * intros y. rewrite Hg, get_set, memb_cons.
        destruct (N.eqb_spec s y) as [E|E].
        -- subst y. rewrite N.eqb_refl, Gs. cbn [orb option_map].
           rewrite (proj2 (memb_nIn _ _) Hn). reflexivity.
        -- assert (E2 : N.eqb y s = false) by (apply N.eqb_neq; congruence). rewrite E2. reflexivity.
    + destruct (IH t ND') as [t' [Hr [Hk Hg]]].
      { intros p d' Hp G. eapply Hpos; [right; exact Hp|exact G]. }
      exists t'. split; [exact Hr|]. split; [exact Hk|].
      intros y. rewrite Hg, memb_cons.
      destruct (N.eqb_spec y s) as [E|E]; [|reflexivity].
      subst y. rewrite Gs. reflexivity.
Qed.

Lemma rep_remove t s x :
  Rep t s -> In x (pending s) ->
  exists t', remove t x = Ok (t', true) /\ Rep t' (a_complete s x).
Proof.
  intros [Rk Rnd Rdj Rwn Rwd Rnc Rp1 Rp2 Rpn] Hx.
  assert (Hxk : In x (keys t)) by (rewrite Rk; exact Hx).
  destruct (keys_get _ _ Hxk) as [dx Gx].
  assert (Hxd : ~ In x (done s)) by auto.
  unfold remove. rewrite Gx.
  destruct (dec_parents_spec (parents dx) (del t x)) as [t' [Hr [Hk Hg]]].
  { eapply Rpn; eauto. }
  { intros p d Hp G. rewrite get_del in G.
    destruct (N.eqb_spec x p) as [E|E]; [discriminate|].
    rewrite (Rnc _ _ G).
    assert (Hw : In (p, x) (waits s)) by (eapply Rp1; eauto).
    assert (H0 : cntn (done s) (waits s) p <> 0).
    { eapply cntn_pos; [exact Hw|]. unfold waitsb. cbn [fst snd].
      rewrite N.eqb_refl, (proj2 (memb_nIn _ _) Hxd). reflexivity. }
    lia. }
  rewrite Hr. cbn [bind]. exists t'. split; [reflexivity|].
  assert (Hget : forall y d', get t' y = Some d' ->
            y <> x /\ exists d0, get t y = Some d0 /\ d' = dec_if (memb y (parents dx)) d0).
  { intros y d' G. rewrite Hg, get_del in G.
    destruct (N.eqb_spec x y) as [E|E]; [discriminate|].
    destruct (get t y) as [d0|]; [|discriminate]. inversion G; subst.
    split; [congruence|]. eauto. }
  constructor; cbn [a_complete pending done waits].
  - rewrite Hk, keys_del, Rk. reflexivity.
  - apply NoDup_filter. exact Rnd.
  - intros y Hy. apply filter_In in Hy. destruct Hy as [Hy Hne].
    apply negb_true_iff, N.eqb_neq in Hne.
    intros [H|H]; [congruence|]. exact (Rdj _ Hy H).
  - exact Rwn.
  - intros p c Hw. destruct (Rwd _ _ Hw) as [H1 H2].
    assert (F : forall z, In z (pending s) \/ In z (done s) ->
                In z (filter (fun y => negb (N.eqb y x)) (pending s)) \/ In z (x :: done s)).
    { intros z [H|H]; [|right; right; exact H].
      destruct (N.eqb_spec z x) as [E|E]; [right; left; congruence|].
      left. apply filter_In. split; [exact H|]. apply negb_true_iff, N.eqb_neq. exact E. }
    split; apply F; assumption.
  - intros y d' G. destruct (Hget _ _ G) as [Hne [d0 [G0 Ed]]]. subst d'.
    pose proof (Rnc _ _ G0) as Hn0.
    pose proof (cntn_complete (done s) (waits s) x y Rwn Hxd) as Hc.
    assert (Hy : In y (pending s)) by (rewrite <- Rk; eapply get_keys; eauto).
    destruct (memb y (parents dx)) eqn:M; cbn [dec_if nc].
    + apply memb_In in M. assert (Hw : In (y, x) (waits s)) by (eapply Rp1; eauto).
      rewrite (proj2 (memp_In _ _) Hw) in Hc. rewrite Hn0. lia.
    + apply memb_nIn in M.
      assert (Hw : ~ In (y, x) (waits s)) by (intros Hw; apply M; eapply Rp2; eauto).
      rewrite (proj2 (memp_nIn _ _) Hw) in Hc. rewrite Hn0. f_equal. lia.
  - intros c d' p G Hp. destruct (Hget _ _ G) as [Hne [d0 [G0 Ed]]]. subst d'.
    eapply Rp1; [exact G0|]. destruct (memb c (parents dx)); exact Hp.
  - intros c d' p G Hw Hp. destruct (Hget _ _ G) as [Hne [d0 [G0 Ed]]]. subst d'.
    apply filter_In in Hp. destruct Hp as [Hp _].
    assert (H : In p (parents d0)) by (eapply Rp2; eauto).
    destruct (memb c (parents dx)); exact H.
  - intros c d' G. destruct (Hget _ _ G) as [Hne [d0 [G0 Ed]]]. subst d'.
    assert (H : NoDup (parents d0)) by (eapply Rpn; eauto).
    destruct (memb c (parents dx)); exact H.
Qed.

(* ---------- the seed (`extend` on the empty worklist) ---------------------------------- *)
Definition Fresh (t : topo) : Prop :=
  (forall x d, get t x = Some d -> d = new_deps) /\ NoDup (keys t).

Lemma extend_fresh : forall xs t, Fresh t ->
  Fresh (extend t xs) /\ keys (extend t xs) = fold_left add_pending xs (keys t).
Proof.
  induction xs as [|x r IH]; intros t [F1 F2]; cbn [extend fold_left].
  - split; [split; assumption|reflexivity].
  - assert (Hk : keys (set t x new_deps) = add_pending (keys t) x).
    { destruct (in_dec N.eq_dec x (keys t)) as [H|H].
      - rewrite keys_set_in, add_pending_in; auto.
      - rewrite keys_set_nin, add_pending_nin; auto. }
    assert (F' : Fresh (set t x new_deps)).
    { split.
      - intros y d. rewrite get_set. destruct (N.eqb x y); [congruence|apply F1].
      - rewrite Hk. apply nodup_add_pending. exact F2. }
    destruct (IH _ F') as [H1 H2]. fold (extend (set t x new_deps) r).
    split; [exact H1|]. rewrite H2, Hk. reflexivity.
Qed.

Lemma rep_seed seed : Rep (extend empty seed) (a_seed seed).
Proof.
  assert (F0 : Fresh empty) by (split; [intros x d; discriminate|constructor]).
  destruct (extend_fresh seed empty F0) as [[F1 F2] Hk]. cbn [keys empty map] in Hk.
  unfold a_seed. constructor; cbn [pending done waits].
  - exact Hk.
  - rewrite <- Hk. exact F2.
  - intros x _ [].
  - constructor.
  - intros p c [].
  - intros x d G. rewrite (F1 _ _ G). reflexivity.
  - intros c d p G. rewrite (F1 _ _ G). intros [].
  - intros c d p _ [].
  - intros c d G. rewrite (F1 _ _ G). constructor.
Qed.

(* ---------- events, rounds, histories ------------------------------------------------------ *)
Lemma rep_insert_deps : forall ds t s p,
  Rep t s -> In p (pending s) -> (forall c, In c ds -> ~ In c (done s)) ->
  Rep (insert_deps t p ds) (a_register s p ds).
Proof.
  induction ds as [|c r IH]; intros t s p R Hp Hd; cbn [insert_deps a_register fold_left].
  - exact R.
  - apply IH.
    + apply rep_insert_dep; [exact R|exact Hp|apply Hd; left; reflexivity].
    + cbn [a_reg1 pending]. rewrite !in_add_pending. tauto.
    + intros c' Hc'. cbn [a_reg1 done]. apply Hd. right. exact Hc'.
Qed.

Lemma rep_event t s e :
  Rep t s -> event_okb s e = true ->
  exists t', apply_event t e = Ok t' /\ Rep t' (a_event s e).
Proof.
  intros R H. unfold event_okb in H. apply andb_true_iff in H. destruct H as [Hp Ha].
  apply memb_In in Hp. unfold apply_event, a_event. destruct (snd e) as [|ds].
  - destruct (rep_remove _ _ _ R Hp) as [t' [Hr R']]. rewrite Hr. cbn [bind fst]. eauto.
  - eexists. split; [reflexivity|]. apply rep_insert_deps; [exact R|exact Hp|].
    intros c Hc. rewrite forallb_forall in Ha. specialize (Ha _ Hc).
    apply negb_true_iff, memb_nIn in Ha. exact Ha.
Qed.

Lemma rep_round : forall r t s,
  Rep t s -> round_okb s r = true ->
  exists t', run_round t r = Ok t' /\ Rep t' (a_round s r).
Proof.
  induction r as [|e r IH]; intros t s R H; cbn [run_round a_round fold_left].
  - eauto.
  - cbn [round_okb] in H. apply andb_true_iff in H. destruct H as [H1 H2].
    destruct (rep_event _ _ _ R H1) as [t1 [E1 R1]]. rewrite E1. cbn [bind].
    apply IH; assumption.
Qed.

Lemma rep_run : forall h t s,
  Rep t s -> usage_okb s h = true ->
  exists t', run t h = Ok t' /\ Rep t' (a_run s h).
Proof.
  induction h as [|r h IH]; intros t s R H; cbn [run a_run fold_left].
  - eauto.
  - cbn [usage_okb] in H. apply andb_true_iff in H. destruct H as [H1 H2].
    destruct (rep_round _ _ _ R H1) as [t1 [E1 R1]]. rewrite E1. cbn [bind].
    apply IH; assumption.
Qed.

Lemma protocol_usage : forall h s, protocol_okb s h = true -> usage_okb s h = true.
Proof.
  induction h as [|r h IH]; intros s H; [reflexivity|].
  cbn [protocol_okb usage_okb] in *.
  apply andb_true_iff in H. destruct H as [H H3]. apply andb_true_iff in H. destruct H as [_ H2].
  rewrite H2. cbn [andb]. apply IH. exact H3.
Qed.

(* Refinement: every protocol history runs on the model without a crash (in
   particular `num_children -= 1` never underflows) and ends in a state that
   represents the abstract scheduler's state. *)
Theorem run_refines : forall seed h,
  usage_okb (a_seed seed) h = true ->
  exists t, run (extend empty seed) h = Ok t /\ Rep t (a_run (a_seed seed) h).
Proof. intros seed h H. apply rep_run; [apply rep_seed|exact H]. Qed.

(* ---------- what a represented state offers ------------------------------------------------- *)
Lemma forallb_pointwise {A} (f g : A -> bool) l : (forall a, f a = g a) -> forallb f l = forallb g l.
Proof. intros H. induction l as [|a r IH]; [reflexivity|]. cbn [forallb]. rewrite H, IH. reflexivity. Qed.

Lemma leaves_ready t s : Rep t s -> leaves t = ready s.
Proof.
  intros R. unfold leaves, ready. rewrite <- (R_keys _ _ R). unfold keys.
  apply filter_map_fst. intros [k d] Hin. cbn [fst].
  assert (G : get t k = Some d).
  { apply In_get; [|exact Hin]. rewrite (R_keys _ _ R). exact (R_nodup _ _ R). }
  unfold is_leaf. cbn [snd]. rewrite (R_nc _ _ R _ _ G). unfold cntn.
  rewrite count_zero_forallb. unfold readyb. apply forallb_pointwise.
  intros w. unfold waitsb. destruct (N.eqb (fst w) k), (memb (snd w) (done s)); reflexivity.
Qed.

(* peek_all offers exactly the ready items, in registration order; it reports a
   cycle exactly when something is pending and nothing is ready. *)
Theorem peek_all_exact t s : Rep t s ->
  peek_all t = if negb (is_nil (pending s)) && is_nil (ready s) then PeekCycle
               else PeekOk (ready s).
Proof.
  intros R. unfold peek_all. rewrite (leaves_ready _ _ R), is_empty_keys, (R_keys _ _ R).
  reflexivity.
Qed.

Theorem peek_all_cyclic_exact t s : Rep t s ->
  peek_all_cyclic t = if negb (is_nil (pending s)) && is_nil (ready s) then Some (pending s)
                      else None.
Proof.
  intros R. unfold peek_all_cyclic. rewrite in_cycle_iff_no_leaves.
  rewrite (leaves_ready _ _ R), is_empty_keys, (R_keys _ _ R). reflexivity.
Qed.

Theorem client_offer_exact t s : Rep t s -> pending s <> [] ->
  client_offer t = Ok (offer s).
Proof.
  intros R Hne. unfold client_offer. rewrite (peek_all_exact _ _ R), (peek_all_cyclic_exact _ _ R).
  unfold offer. destruct (pending s) as [|a l]; [congruence|]. cbn [is_nil negb andb].
  destruct (ready s) as [|b r]; reflexivity.
Qed.

Lemma forallb_false_ex {A} (f : A -> bool) l :
  forallb f l = false -> exists a, In a l /\ f a = false.
Proof.
  induction l as [|a r IH]; cbn [forallb]; [discriminate|].
  destruct (f a) eqn:E; cbn [andb]; intros H.
  - destruct (IH H) as [b [Hb Hf]]. exists b. split; [right; exact Hb|exact Hf].
  - exists a. split; [left; reflexivity|exact E].
Qed.

Lemma not_ready_waits_on_pending t s x : Rep t s -> In x (pending s) -> readyb s x = false ->
  exists c, In (x, c) (waits s) /\ In c (pending s).
Proof.
  intros R Hx H. unfold readyb in H. apply forallb_false_ex in H.
  destruct H as [[p c] [Hw Hf]]. cbn [fst snd] in Hf.
  destruct (N.eqb_spec p x) as [E|E]; [|discriminate]. subst p. cbn [implb] in Hf.
  exists c. split; [exact Hw|]. apply memb_nIn in Hf.
  destruct (R_wdom _ _ R _ _ Hw) as [_ [H1|H1]]; [exact H1|tauto].
Qed.

(* A cycle error means: something is pending, and EVERY pending item waits on a
   pending item (so no order of completions without cycle-breaking can proceed). *)
Theorem cycle_only_when_all_blocked t s : Rep t s -> peek_all t = PeekCycle ->
  pending s <> [] /\
  forall x, In x (pending s) -> exists c, In (x, c) (waits s) /\ In c (pending s).
Proof.
  intros R H. rewrite (peek_all_exact _ _ R) in H.
  destruct (is_nil (pending s)) eqn:Pn; cbn [negb andb] in H; [discriminate|].
  destruct (ready s) as [|b r] eqn:Rd; cbn [is_nil] in H; [|discriminate].
  split; [intros E; rewrite E in Pn; discriminate|].
  intros x Hx. apply (not_ready_waits_on_pending t); [exact R|exact Hx|].
  destruct (readyb s x) eqn:E; [|reflexivity]. exfalso.
  assert (Hin : In x (ready s)) by (apply filter_In; split; assumption).
  rewrite Rd in Hin. destruct Hin.
Qed.

(* ... and conversely a cycle is reported whenever nothing is ready *)
Theorem cycle_iff_none_ready t s : Rep t s ->
  (peek_all t = PeekCycle <-> pending s <> [] /\ ready s = []).
Proof.
  intros R. rewrite (peek_all_exact _ _ R).
  destruct (pending s) as [|a l]; cbn [is_nil negb andb].
  - split; [discriminate|intros [H _]; congruence].
  - destruct (ready s) as [|b r]; cbn [is_nil]; split; try discriminate.
    + intros _. split; [discriminate|reflexivity].
    + intros _. reflexivity.
    + intros [_ H]. discriminate.
Qed.

(* ---------- bookkeeping over histories -------------------------------------------------------- *)
Lemma done_register : forall ds s x, done (a_register s x ds) = done s.
Proof. induction ds as [|c r IH]; intros s x; cbn [a_register fold_left]; [reflexivity|]. 
  fold (a_register (a_reg1 s x c) x r). rewrite IH. reflexivity. Qed.

Lemma done_round : forall r s, done (a_round s r) = rev (completed_of_round r) ++ done s.
Proof.
  induction r as [|e r IH]; intros s; [reflexivity|].
  cbn [a_round fold_left]. fold (a_round (a_event s e) r). rewrite IH.
  unfold completed_of_round. cbn [filter]. unfold a_event.
  destruct (snd e) as [|ds]; cbn [map rev].
  - cbn [a_complete done]. rewrite <- app_assoc. reflexivity.
  - rewrite done_register. reflexivity.
Qed.

Lemma done_run : forall h s, done (a_run s h) = rev (completed_of h) ++ done s.
Proof.
  induction h as [|r h IH]; intros s; [reflexivity|].
  cbn [a_run fold_left]. fold (a_run (a_round s r) h). rewrite IH, done_round.
  unfold completed_of. cbn [flat_map]. rewrite rev_app_distr, <- app_assoc. reflexivity.
Qed.

Lemma pending_register : forall ds s p x,
  In x (pending (a_register s p ds)) -> In x (pending s) \/ In x ds \/ x = p.
Proof.
  induction ds as [|c r IH]; intros s p x H; cbn [a_register fold_left] in H; [tauto|].
  fold (a_register (a_reg1 s p c) p r) in H. apply IH in H. cbn [a_reg1 pending] in H.
  rewrite !in_add_pending in H. cbn [In]. intuition.
Qed.

Lemma pending_round : forall r s x, round_okb s r = true ->
  In x (pending (a_round s r)) -> In x (pending s) \/ In x (registered_of_round r).
Proof.
  induction r as [|e r IH]; intros s x Hok H; [left; exact H|].
  cbn [round_okb] in Hok. apply andb_true_iff in Hok. destruct Hok as [He Hr].
  cbn [a_round fold_left] in H. fold (a_round (a_event s e) r) in H.
  apply (IH _ _ Hr) in H. unfold registered_of_round. cbn [flat_map]. rewrite in_app_iff.
  destruct H as [H|H]; [|right; right; exact H].
  unfold event_okb in He. apply andb_true_iff in He. destruct He as [Hp _]. apply memb_In in Hp.
  unfold a_event in H. destruct (snd e) as [|ds].
  - left. cbn [a_complete pending] in H. apply filter_In in H. tauto.
  - apply pending_register in H. destruct H as [H|[H|H]]; [tauto|tauto|subst; tauto].
Qed.

Lemma pending_run : forall h s x, usage_okb s h = true ->
  In x (pending (a_run s h)) -> In x (pending s) \/ In x (registered_of h).
Proof.
  induction h as [|r h IH]; intros s x Hok H; [left; exact H|].
  cbn [usage_okb] in Hok. apply andb_true_iff in Hok. destruct Hok as [Hr Hh].
  cbn [a_run fold_left] in H. fold (a_run (a_round s r) h) in H.
  apply (IH _ _ Hh) in H. unfold registered_of. cbn [flat_map]. rewrite in_app_iff.
  destruct H as [H|H]; [|tauto]. apply (pending_round _ _ _ Hr) in H. tauto.
Qed.

Lemma pending_seed : forall seed x, In x (pending (a_seed seed)) -> In x seed.
Proof.
  intros seed x. cbn [a_seed pending].
  assert (G : forall xs acc, In x (fold_left add_pending xs acc) -> In x acc \/ In x xs).
  { induction xs as [|a r IH]; intros acc H; [left; exact H|].
    cbn [fold_left] in H. apply IH in H. rewrite in_add_pending in H. cbn [In]. intuition. }
  intros H. apply G in H. destruct H as [[]|H]. exact H.
Qed.

Lemma offered_in_keys t l x : client_offer t = Ok l -> In x l -> In x (keys t).
Proof.
  unfold client_offer, peek_all, peek_all_cyclic. intros H Hx.
  assert (Hl : forall y, In y (leaves t) -> In y (keys t)).
  { intros y Hy. unfold leaves in Hy. apply in_map_iff in Hy. destruct Hy as [e [E He]].
    apply filter_In in He. subst y. apply in_map. tauto. }
  destruct (negb (is_empty t) && is_nil (leaves t)).
  - destruct (in_cycle t); cbn [bind] in H; [|discriminate].
    destruct (is_nil (keys t)); [discriminate|]. inversion H; subst. exact Hx.
  - cbn [bind] in H. destruct (is_nil (leaves t)); [discriminate|]. inversion H; subst. auto.
Qed.

(* An item is offered (again) only while it is pending: nothing that completed is ever
   offered after its completion, in any protocol history. *)
Theorem offered_only_while_pending : forall seed h,
  usage_okb (a_seed seed) h = true ->
  exists t, run (extend empty seed) h = Ok t /\
    forall l x, client_offer t = Ok l -> In x l ->
      In x (pending (a_run (a_seed seed) h)) /\ ~ In x (completed_of h).
Proof.
  intros seed h H. destruct (run_refines _ _ H) as [t [Hr R]]. exists t. split; [exact Hr|].
  intros l x Ho Hx. apply (offered_in_keys _ _ _ Ho) in Hx. rewrite (R_keys _ _ R) in Hx.
  split; [exact Hx|]. intros Hc. apply (R_disj _ _ R _ Hx).
  rewrite done_run. apply in_or_app. left. apply -> in_rev. exact Hc.
Qed.

(* The schedule empties once every item that was ever seeded or registered completed. *)
Theorem empties_when_all_complete : forall seed h,
  usage_okb (a_seed seed) h = true ->
  (forall x, In x seed \/ In x (registered_of h) -> In x (completed_of h)) ->
  exists t, run (extend empty seed) h = Ok t /\ is_empty t = true.
Proof.
  intros seed h H Hall. destruct (run_refines _ _ H) as [t [Hr R]]. exists t. split; [exact Hr|].
  rewrite is_empty_keys, (R_keys _ _ R).
  destruct (pending (a_run (a_seed seed) h)) as [|x l] eqn:P; [reflexivity|]. exfalso.
  assert (Hx : In x (pending (a_run (a_seed seed) h))) by (rewrite P; left; reflexivity).
  apply (R_disj _ _ R _ Hx). rewrite done_run. apply in_or_app. left. apply -> in_rev.
  apply Hall. destruct (pending_run _ _ _ H Hx) as [H1|H1]; [left; apply pending_seed; exact H1|tauto].
Qed.

(* ---------- no-progress rounds (the condition under which `finish` would loop) ------------ *)
Definition stalled_event (t : topo) (e : event) : Prop :=
  exists ds, snd e = Register ds /\
    forall c, In c ds -> exists d, get t c = Some d /\ In (fst e) (parents d).

Lemma stalled_round_fixpoint : forall r t,
  (forall e, In e r -> stalled_event t e) -> run_round t r = Ok t.
Proof.
  induction r as [|e r IH]; intros t H; [reflexivity|]. cbn [run_round].
  destruct (H e (or_introl eq_refl)) as [ds [Hs Hd]]. unfold apply_event. rewrite Hs.
  assert (E : insert_deps t (fst e) ds = t).
  { clear Hs. unfold insert_deps. induction ds as [|c ds IHd]; [reflexivity|]. cbn [fold_left].
    destruct (Hd c (or_introl eq_refl)) as [d [G Hp]]. unfold insert_dep at 2. rewrite G.
    rewrite (proj2 (memb_In _ _) Hp). apply IHd. intros c' Hc'. apply Hd. right. exact Hc'. }
  rewrite E. cbn [bind]. apply IH. intros e' He'. apply H. right. exact He'.
Qed.

(* outside the protocol the underflow panic site is reachable *)
Lemma underflow_outside_protocol :
  (do p <- remove (insert_dep empty 1 2) 1; remove (insert_dep (fst p) 3 1) 2)%N = Crash 258.
Proof. vm_compute. reflexivity. Qed.

(* ---------- converse: a round that leaves the worklist unchanged made no progress ---------- *)
Definition psize (t : topo) : nat :=
  length t + list_sum (map (fun e => length (parents (snd e))) t).

Lemma psize_set_present : forall t k d d0, get t k = Some d0 ->
  psize (set t k d) + length (parents d0) = psize t + length (parents d).
Proof.
  unfold psize, list_sum. induction t as [|e r IH]; intros k d d0 G; cbn [get] in G; [discriminate|].
  cbn [set]. destruct (N.eqb_spec (fst e) k) as [E|E].
  - inversion G; subst. cbn [length map fold_right snd fst]. lia.
  - specialize (IH _ d _ G). cbn [length map fold_right]. lia.
Qed.

Lemma psize_set_absent : forall t k d, get t k = None ->
  psize (set t k d) = psize t + 1 + length (parents d).
Proof.
  unfold psize, list_sum. induction t as [|e r IH]; intros k d G; cbn [get] in G.
  - cbn [set length map fold_right snd parents]. lia.
  - cbn [set]. destruct (N.eqb_spec (fst e) k) as [E|E]; [discriminate|].
    specialize (IH _ d G). cbn [length map fold_right]. lia.
Qed.

Lemma insert_dep_cases t p c :
  (exists d, get t c = Some d /\ In p (parents d) /\ insert_dep t p c = t) \/
  psize t < psize (insert_dep t p c).
Proof.
  unfold insert_dep. destruct (get t c) as [dc|] eqn:Gc.
  - destruct (memb p (parents dc)) eqn:M.
    + left. exists dc. split; [reflexivity|]. split; [apply memb_In; exact M|reflexivity].
    + right. set (t1 := set t c (mkDeps (nc dc) (parents dc ++ [p]))).
      assert (H1 : psize t1 = psize t + 1).
      { pose proof (psize_set_present t c (mkDeps (nc dc) (parents dc ++ [p])) dc Gc) as H.
        cbn [parents] in H. rewrite app_length in H. cbn [length] in H. unfold t1. lia. }
      destruct (get t1 p) as [dp|] eqn:Gp.
      * pose proof (psize_set_present t1 p (mkDeps (nc dp + 1) (parents dp)) dp Gp) as H.
        cbn [parents] in H. lia.
      * rewrite (psize_set_absent t1 p _ Gp). lia.
  - right. set (t1 := set t c (mkDeps 0 [p])).
    assert (H1 : psize t1 = psize t + 2).
    { unfold t1. rewrite (psize_set_absent t c _ Gc). cbn [parents length]. lia. }
    destruct (get t1 p) as [dp|] eqn:Gp.
    + pose proof (psize_set_present t1 p (mkDeps (nc dp + 1) (parents dp)) dp Gp) as H.
      cbn [parents] in H. lia.
    + rewrite (psize_set_absent t1 p _ Gp). lia.
Qed.

Lemma insert_deps_cases : forall ds t p,
  (insert_deps t p ds = t /\ forall c, In c ds -> exists d, get t c = Some d /\ In p (parents d)) \/
  psize t < psize (insert_deps t p ds).
Proof.
  induction ds as [|c r IH]; intros t p; cbn [insert_deps fold_left].
  - left. split; [reflexivity|intros c []].
  - fold (insert_deps (insert_dep t p c) p r).
    destruct (insert_dep_cases t p c) as [[d [G [Hp E]]]|Hlt].
    + rewrite E. destruct (IH t p) as [[E2 H2]|H2].
      * left. split; [exact E2|]. intros c' [Hc|Hc]; [subst; eauto|auto].
      * right. exact H2.
    + right. destruct (IH (insert_dep t p c) p) as [[E2 _]|H2]; [rewrite E2; exact Hlt|lia].
Qed.

Lemma register_round_cases : forall r t,
  (forall e, In e r -> exists ds, snd e = Register ds) ->
  exists t', run_round t r = Ok t' /\
    ((t' = t /\ forall e, In e r -> stalled_event t e) \/ psize t < psize t').
Proof.
  induction r as [|e r IH]; intros t Hreg; cbn [run_round].
  - exists t. split; [reflexivity|]. left. split; [reflexivity|intros e []].
  - destruct (Hreg e (or_introl eq_refl)) as [ds Hs]. unfold apply_event. rewrite Hs. cbn [bind].
    destruct (IH (insert_deps t (fst e) ds) (fun e' H => Hreg e' (or_intror H))) as [t' [Hr Hc]].
    exists t'. split; [exact Hr|].
    destruct (insert_deps_cases ds t (fst e)) as [[E Hst]|Hlt].
    + rewrite E in *. destruct Hc as [[Et Hall]|Hc]; [|right; exact Hc].
      left. split; [exact Et|]. intros e' [He'|He']; [|auto].
      subst e'. exists ds. split; [exact Hs|exact Hst].
    + right. destruct Hc as [[Et _]|Hc]; [subst; exact Hlt|lia].
Qed.

(* Under the protocol (actors pending at the start of the round), a round that leaves the
   worklist unchanged consists only of items re-registering dependencies they already
   registered: nothing completed, no new edge, no new item. *)
Theorem unchanged_round_stalled : forall t s r,
  Rep t s -> round_okb s r = true ->
  (forall e, In e r -> In (fst e) (pending s)) ->
  run_round t r = Ok t ->
  forall e, In e r -> stalled_event t e.
Proof.
  intros t s r R Hok Hact Hrun.
  assert (Hreg : forall e, In e r -> exists ds, snd e = Register ds).
  { intros e He. destruct (snd e) as [|ds] eqn:Hs; [|eauto]. exfalso.
    destruct (rep_round _ _ _ R Hok) as [t' [Hr' R']]. rewrite Hrun in Hr'. inversion Hr'; subst t'.
    assert (Hx : In (fst e) (pending (a_round s r))).
    { rewrite <- (R_keys _ _ R'), (R_keys _ _ R). apply Hact. exact He. }
    apply (R_disj _ _ R' _ Hx). rewrite done_round. apply in_or_app. left. apply -> in_rev.
    unfold completed_of_round. apply in_map. apply filter_In. split; [exact He|]. rewrite Hs. reflexivity. }
  destruct (register_round_cases r t Hreg) as [t' [Hr' Hc]]. rewrite Hrun in Hr'. inversion Hr'; subst t'.
  destruct Hc as [[_ H]|H]; [exact H|lia].
Qed.

Theorem round_unchanged_iff_stalled : forall t s r,
  Rep t s -> round_okb s r = true ->
  (forall e, In e r -> In (fst e) (pending s)) ->
  (run_round t r = Ok t <-> forall e, In e r -> stalled_event t e).
Proof.
  intros t s r R Hok Hact. split.
  - apply (unchanged_round_stalled t s r); assumption.
  - apply stalled_round_fixpoint.
Qed.

(* the strong protocol gives the "actors pending" premise *)
Lemma list_eqb_eq : forall a b, list_eqb a b = true -> a = b.
Proof.
  induction a as [|x a IH]; destruct b as [|y b]; cbn [list_eqb]; try discriminate; [reflexivity|].
  intros H. apply andb_true_iff in H. destruct H as [H1 H2]. apply N.eqb_eq in H1. f_equal; auto.
Qed.

Lemma actors_ok_pending s r : actors_okb s r = true -> forall e, In e r -> In (fst e) (pending s).
Proof.
  unfold actors_okb. intros H e He. assert (Hin : In (fst e) (map fst r)) by (apply in_map; exact He).
  destruct (ready s) as [|a l] eqn:Rd.
  - unfold same_setb in H. apply andb_true_iff in H. destruct H as [H _].
    apply andb_true_iff in H. destruct H as [_ H]. rewrite forallb_forall in H.
    apply memb_In. apply H. exact Hin.
  - apply list_eqb_eq in H. rewrite H, <- Rd in Hin. unfold ready in Hin. apply filter_In in Hin. tauto.
Qed.
