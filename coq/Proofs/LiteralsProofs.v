(* C09 proofs.  Pure ZArith/Lia; no axioms. *)
From Capy Require Import Common.Util Common.Bits Model.Literals Spec.LitSpec.
Open Scope Z_scope.

(* ---- digit strings ---------------------------------------------------------------------- *)
Definition digits_ok (ds : list Z) : Prop := Forall (fun d => 0 <= d) ds.

Lemma digits_value_ge base ds : 1 <= base -> digits_ok ds -> forall acc, 0 <= acc -> acc <= digits_value base acc ds.
Proof.
  intros Hb H. induction H as [|d r Hd Hr IH]; intros acc Ha; cbn [digits_value]; [lia|].
  specialize (IH (acc * base + d) ltac:(nia)). nia.
Qed.

(* checked left-to-right parsing succeeds exactly when the positional value fits *)
Lemma parse_acc_spec base max ds : 1 <= base -> digits_ok ds -> forall acc, 0 <= acc <= max ->
  parse_acc base max acc ds =
  if digits_value base acc ds <=? max then Some (digits_value base acc ds) else None.
Proof.
  intros Hb H. induction H as [|d r Hd Hr IH]; intros acc Ha; cbn [parse_acc digits_value].
  - destruct (Z.leb_spec acc max); [reflexivity | lia].
  - destruct (Z.leb_spec (acc * base + d) max) as [L|G].
    + apply IH. nia.
    + pose proof (digits_value_ge base r Hb Hr (acc * base + d) ltac:(nia)).
      destruct (Z.leb_spec (digits_value base (acc * base + d) r) max); [lia | reflexivity].
Qed.

Theorem parse_radix_correct base max ds : 1 <= base -> 0 <= max -> digits_ok ds -> ds <> [] ->
  parse_radix base max ds = if value_of base ds <=? max then Some (value_of base ds) else None.
Proof.
  intros Hb Hm H NE. unfold parse_radix, value_of. destruct ds; [congruence|].
  apply parse_acc_spec; auto; lia.
Qed.

Definition radix_spec (base : Z) (ds : list Z) : option Z :=
  if value_of base ds <=? u64_max then Some (value_of base ds) else None.

Theorem lower_hex_correct ds : digits_ok ds -> ds <> [] ->
  lower_hex ds = if value_of 16 ds <=? u64_max then Some (value_of 16 ds) else None.
Proof. intros. apply parse_radix_correct; auto; unfold u64_max; lia. Qed.

Theorem lower_bin_correct ds : digits_ok ds -> ds <> [] ->
  lower_bin ds = if value_of 2 ds <=? u64_max then Some (value_of 2 ds) else None.
Proof. intros. apply parse_radix_correct; auto; unfold u64_max; lia. Qed.

Lemma value_of_nonneg base ds : 1 <= base -> digits_ok ds -> 0 <= value_of base ds.
Proof. intros. apply (digits_value_ge base ds H H0 0). lia. Qed.

(* ---- decimal literals --------------------------------------------------------------------- *)
Definition dec_wf (mant : list dch) (exp : option (list dch)) : Prop :=
  digits_ok (strip mant) /\ strip mant <> [] /\
  match exp with None => True | Some e => digits_ok (strip e) /\ strip e <> [] end.

Definition dec_spec (mant : list dch) (exp : option (list dch)) : option Z :=
  let v := dec_value (strip mant) (option_map strip exp) in
  if v <=? u64_max then Some v else None.

(* the narrow class the lowering gets wrong: zero mantissa with an exponent of 20 or more
   (value 0, rejected because 10^e alone overflows) *)
Definition dec_known_class (V : variant) (mant : list dch) (exp : option (list dch)) : bool :=
  match exp with
  | Some e => negb (fx_zero V) && (value_of 10 (strip mant) =? 0) && (20 <=? value_of 10 (strip e))
  | None => false
  end.

Lemma pow10_big e : 20 <= e -> u64_max < 10 ^ e.
Proof.
  intros. assert (10 ^ 20 <= 10 ^ e) by (apply Z.pow_le_mono_r; lia).
  assert (u64_max < 10 ^ 20) by (vm_compute; reflexivity). lia.
Qed.

Theorem lower_dec_except_known V mant exp : dec_wf mant exp -> dec_known_class V mant exp = false ->
  lower_dec V mant exp = dec_spec mant exp.
Proof.
  intros (Dm & NEm & He) K. unfold lower_dec, dec_spec, dec_value.
  rewrite (parse_radix_correct 10 u64_max (strip mant)) by (auto; unfold u64_max; lia).
  pose proof (value_of_nonneg 10 (strip mant) ltac:(lia) Dm) as M0.
  set (m := value_of 10 (strip mant)) in *.
  destruct exp as [e|]; cbn [option_map].
  2: { destruct (m <=? u64_max); reflexivity. }
  destruct He as [De NEe].
  pose proof (value_of_nonneg 10 (strip e) ltac:(lia) De) as E0.
  rewrite (parse_radix_correct 10 u32_max (strip e)) by (auto; unfold u32_max; lia).
  set (ev := value_of 10 (strip e)) in *.
  unfold dec_known_class in K. change (value_of 10 (strip mant)) with m in K.
  change (value_of 10 (strip e)) with ev in K.
  assert (P1 : 1 <= 10 ^ ev) by (pose proof (Z.pow_pos_nonneg 10 ev ltac:(lia) E0); lia).
  destruct (Z.leb_spec m u64_max) as [Lm|Gm].
  2: { destruct (Z.leb_spec (m * 10 ^ ev) u64_max); [nia | reflexivity]. }
  destruct (fx_zero V && (m =? 0)) eqn:FZ.
  { apply andb_true_iff in FZ. destruct FZ as [_ FZ]. apply Z.eqb_eq in FZ. rewrite FZ, Z.mul_0_l. reflexivity. }
  assert (Big : 20 <= ev -> u64_max < m * 10 ^ ev).
  { intros B. pose proof (pow10_big ev B).
    destruct (Z.eqb_spec m 0) as [Z0|NZ].
    - destruct (Z.leb_spec 20 ev) as [L20|L20]; [|lia]. exfalso. revert K FZ.
      replace (m =? 0) with true by (symmetry; apply Z.eqb_eq; exact Z0).
      replace (20 <=? ev) with true by (symmetry; apply Z.leb_le; exact L20).
      destruct (fx_zero V); discriminate.
    - nia. }
  destruct (Z.leb_spec ev u32_max) as [Le|Ge].
  - unfold checked_pow10. destruct (Z.leb_spec ev 19).
    + unfold checked_mul64. reflexivity.
    + specialize (Big ltac:(lia)). destruct (Z.leb_spec (m * 10 ^ ev) u64_max); [lia | reflexivity].
  - unfold u32_max in Ge. specialize (Big ltac:(lia)).
    destruct (Z.leb_spec (m * 10 ^ ev) u64_max); [lia | reflexivity].
Qed.

(* executable form of the specification (10^e is never computed for e >= 20) *)
Definition dec_spec_exec (mant : list dch) (exp : option (list dch)) : option Z :=
  match exp with
  | None => dec_spec mant None
  | Some e =>
      let m := value_of 10 (strip mant) in
      let ev := value_of 10 (strip e) in
      if m =? 0 then Some 0
      else if 20 <=? ev then None
      else if m * 10 ^ ev <=? u64_max then Some (m * 10 ^ ev) else None
  end.

Lemma dec_spec_exec_correct mant exp : dec_wf mant exp -> dec_spec_exec mant exp = dec_spec mant exp.
Proof.
  intros (Dm & NEm & He). destruct exp as [e|]; [|reflexivity].
  destruct He as [De NEe]. unfold dec_spec_exec, dec_spec, dec_value. cbn [option_map].
  pose proof (value_of_nonneg 10 (strip mant) ltac:(lia) Dm) as M0.
  pose proof (value_of_nonneg 10 (strip e) ltac:(lia) De) as E0.
  set (m := value_of 10 (strip mant)) in *. set (ev := value_of 10 (strip e)) in *.
  destruct (Z.eqb_spec m 0) as [->|NZ].
  - rewrite Z.mul_0_l. reflexivity.
  - destruct (Z.leb_spec 20 ev); [|reflexivity].
    pose proof (pow10_big ev H). destruct (Z.leb_spec (m * 10 ^ ev) u64_max); [nia | reflexivity].
Qed.

(* the repaired lowering (finding C09-4 fixed): the FULL statement *)
Theorem lower_dec_full_fixed V mant exp : fx_zero V = true -> dec_wf mant exp ->
  lower_dec V mant exp = dec_spec mant exp.
Proof.
  intros FX W. apply lower_dec_except_known; [assumption|].
  unfold dec_known_class. rewrite FX. destruct exp; reflexivity.
Qed.

(* HISTORY (finding C09-4): the full statement about the unrepaired variant is false *)
Definition lower_dec_full : Prop :=
  forall V mant exp, fx_zero V = false -> dec_wf mant exp -> lower_dec V mant exp = dec_spec mant exp.

(* 0e20 spells 0 and is rejected *)
Lemma lower_dec_full_refuted : ~ lower_dec_full.
Proof.
  intros H. specialize (H v_orig [Dg 0] (Some [Dg 2; Dg 0]) eq_refl).
  assert (dec_wf [Dg 0] (Some [Dg 2; Dg 0])) as W.
  { repeat split; cbn; try (repeat constructor; lia); discriminate. }
  specialize (H W). vm_compute in H. discriminate.
Qed.

(* ---- escapes --------------------------------------------------------------------------------- *)
Theorem escape_char_correct c : escape_char c = escape_spec c.
Proof. reflexivity. Qed.

Fixpoint string_spec (l : list comp) : option (list Z) :=
  match l with
  | [] => Some []
  | Esc c :: r =>
      match escape_spec c, string_spec r with Some v, Some t => Some (v :: t) | _, _ => None end
  | Lit cs :: r => match string_spec r with Some t => Some (cs ++ t) | None => None end
  end.

(* a string literal denotes the concatenation of what its components spell; it is
   rejected (at least one InvalidEscape) iff some escape is not in the table *)
Theorem lower_string_correct l :
  match string_spec l with
  | Some t => lower_string l = (t, O)
  | None => snd (lower_string l) <> O
  end.
Proof.
  induction l as [|[c|cs] r IH]; cbn [string_spec lower_string]; [reflexivity| |].
  - rewrite <- escape_char_correct. destruct (lower_string r) as [t n].
    destruct (escape_char c) as [v|]; destruct (string_spec r) as [t'|]; cbn in *.
    + injection IH as -> ->. reflexivity.
    + exact IH.
    + discriminate.
    + discriminate.
  - destruct (lower_string r) as [t n]. destruct (string_spec r) as [t'|]; cbn in *.
    + injection IH as -> ->. reflexivity.
    + exact IH.
Qed.

(* a char literal with exactly one valid component denotes that code point (if it is a byte) *)
Theorem lower_char_escape c v : escape_spec c = Some v -> v <= 255 -> lower_char [Esc c] = (v, []).
Proof.
  intros E Hv. rewrite <- escape_char_correct in E. unfold lower_char. cbn [lower_string total_len].
  rewrite E. cbn. destruct (Z.leb_spec v 255); [reflexivity | lia].
Qed.
Theorem lower_char_plain ch : ch <= 255 -> lower_char [Lit [ch]] = (ch, []).
Proof. intros. unfold lower_char. cbn. destruct (Z.leb_spec ch 255); [reflexivity | lia]. Qed.

(* ---- acceptance ------------------------------------------------------------------------------- *)
Definition ity_wf (t : ity) : Prop :=
  match t with IT _ w => w = 8 \/ w = 16 \/ w = 32 \/ w = 64 \/ w = 128 \/ w = 255 end.
Definition real_width (t : ity) : Z := match t with IT _ w => if w =? 255 then 64 else w end.
Definition fits_ty (t : ity) (n : Z) : bool := match t with IT sg _ => fits_int sg (real_width t) n end.

(* classes: 1 = i128 literal above i64::MAX rejected; 2 = isize literal above i64::MAX accepted *)
Definition accept_known_class (V : variant) (t : ity) (n : Z) : option N :=
  match t with
  | IT true w => if negb (fx_i128 V) && (w =? 128) && (i64_max <? n) then Some 1%N
                 else if negb (fx_isize V) && (w =? 255) && (i64_max <? n) then Some 2%N else None
  | _ => None
  end.

Theorem accept_iff_fits_except_known V t n : ity_wf t -> 0 <= n <= u64_max ->
  accept_known_class V t n = None -> accepted V t n = fits_ty t n.
Proof.
  intros W Hn K. destruct t as [sg w]. cbn in W. destruct V as [fz f2 f3]. destruct f2, f3.
  all: cbn [fx_i128 fx_isize fx_zero negb andb] in *.
  all: unfold accepted, fits_ty, real_width, fits_int, max_int_size, accept_known_class in *;
    unfold u64_max, i64_max, i32_max, u32_max in *;
    destruct W as [-> | [-> | [-> | [-> | [-> | ->]]]]]; destruct sg; cbn in *;
    repeat match goal with
    | |- context [?a <=? ?b] => destruct (Z.leb_spec a b)
    | H : context [?a <? ?b] |- _ => destruct (Z.ltb_spec a b)
    end; cbn in *; try reflexivity; try discriminate; try lia.
Qed.

(* the repaired get_max_int_size (findings C09-2 and C09-3 fixed): the FULL statement *)
Theorem accept_full_fixed V t n : fx_i128 V = true -> fx_isize V = true ->
  ity_wf t -> 0 <= n <= u64_max -> accepted V t n = fits_ty t n.
Proof.
  intros F2 F3 W Hn. apply accept_iff_fits_except_known; try assumption.
  unfold accept_known_class. rewrite F2, F3. destruct t as [[|] w]; reflexivity.
Qed.

(* HISTORY (findings C09-2, C09-3): the full statement about the unrepaired variant is false *)
Definition accept_full : Prop :=
  forall t n, ity_wf t -> 0 <= n <= u64_max -> accepted v_orig t n = fits_ty t n.
Lemma accept_full_refuted : ~ accept_full.
Proof.
  intros H. specialize (H (IT true 128) (2 ^ 63) ltac:(cbn; tauto) ltac:(unfold u64_max; cbn; lia)).
  vm_compute in H. discriminate.
Qed.
Lemma accept_isize_witness : accepted v_orig (IT true 255) u64_max = true /\ fits_ty (IT true 255) u64_max = false.
Proof. split; vm_compute; reflexivity. Qed.

(* ---- an accepted literal keeps its written value ------------------------------------------------ *)
Theorem fits_keeps_value t n : ity_wf t -> fits_ty t n = true -> observed t n = n.
Proof.
  intros W F. destruct t as [sg w]. cbn in W. unfold observed, final_ty, fits_ty, real_width, fits_int in *.
  assert (Hw : w =? 0 = false) by (destruct W as [-> | [-> | [-> | [-> | [-> | ->]]]]]; reflexivity).
  rewrite Hw.
  assert (exists w', (if w =? 255 then 64 else w) = w' /\ 0 < w' /\
          (if w =? 255 then (sg, 64) else (sg, w)) = (sg, w')) as (w' & E & Hp & E2).
  { destruct W as [-> | [-> | [-> | [-> | [-> | ->]]]]]; cbn; eexists; repeat split; lia. }
  rewrite E in F. rewrite E2. destruct sg.
  - apply andb_true_iff in F. destruct F as [A B]. apply Z.leb_le in A, B.
    rewrite signed_wrap by lia. apply signed_small; [lia|]. unfold smin, smax. lia.
  - apply andb_true_iff in F. destruct F as [A B]. apply Z.leb_le in A, B.
    apply wrap_small. unfold in_bits. lia.
Qed.

Theorem accepted_keeps_value_except_known V t n : ity_wf t -> 0 <= n <= u64_max ->
  accept_known_class V t n = None -> accepted V t n = true -> observed t n = n.
Proof.
  intros W Hn K A. apply fits_keeps_value; [assumption|].
  rewrite <- (accept_iff_fits_except_known V t n W Hn K). exact A.
Qed.

(* unannotated literals *)
Definition default_known_class (n : Z) : bool := (i32_max <? n) && (n <=? u32_max).

Theorem default_keeps_value_except_known n : 0 <= n <= u64_max ->
  default_known_class n = false -> observed (default_ity n) n = n.
Proof.
  intros Hn K. unfold default_ity, default_known_class in *. unfold u64_max, u32_max, i32_max in *.
  destruct (Z.ltb_spec 4294967295 n).
  - cbn. apply wrap_small. unfold in_bits. cbn. lia.
  - destruct (Z.ltb_spec 2147483647 n); destruct (Z.leb_spec n 4294967295); cbn in K; try discriminate; try lia.
    cbn. rewrite signed_wrap by lia. apply signed_small; [lia|]. unfold smin, smax. cbn. lia.
Qed.

Definition default_full : Prop := forall n, 0 <= n <= u64_max -> observed (default_ity n) n = n.
(* x := 3000000000 is accepted and becomes -1294967296 *)
Lemma default_full_refuted : ~ default_full.
Proof.
  intros H. specialize (H 3000000000 ltac:(unfold u64_max; lia)). vm_compute in H. discriminate.
Qed.
Lemma default_witness : observed (default_ity 3000000000) 3000000000 = -1294967296.
Proof. vm_compute. reflexivity. Qed.
