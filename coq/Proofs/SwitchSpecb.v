(* C11 — the executable specification [accepted_specb] (used as the oracle of the
   correspondence streams) decides the declarative [accepted_spec]. *)
From Capy Require Import Common.Util Model.Switch Spec.SwitchSpec Proofs.SwitchCheck Proofs.SwitchDispatch.

Lemma nodupb_iff : forall l, nodupb l = true <-> NoDup l.
Proof.
  induction l as [|x r IH]; cbn [nodupb].
  - split; [constructor | reflexivity].
  - rewrite andb_true_iff, negb_true_iff, mem_nat_false, IH. split.
    + intros [H1 H2]. constructor; auto.
    + intros H. inversion H; auto.
Qed.

Lemma named_by_In : forall sh a j, In j (named_by sh a) <-> names sh a j.
Proof.
  intros sh a j. unfold named_by. rewrite filter_In, in_seq, namesb_iff. split; [tauto|].
  intros H. split; auto. destruct H as (vt & Hn & _).
  assert (j < length (variants_of sh)) by (apply nth_error_Some; rewrite Hn; discriminate). lia.
Qed.

Lemma NoDup_all_eq : forall (l : list nat) x, NoDup l -> (forall y, In y l -> y = x) -> l = [] \/ l = [x].
Proof.
  intros [|a [|b r]] x Hn Hall; auto.
  - right. rewrite (Hall a) by (left; reflexivity). reflexivity.
  - exfalso. inversion Hn as [|? ? Hnotin _]; subst. apply Hnotin. left.
    rewrite (Hall a), (Hall b); cbn; auto.
Qed.

Lemma named_by_singleton : forall sh a j, wf_shape sh -> names sh a j -> named_by sh a = [j].
Proof.
  intros sh a j Hwf Hn.
  assert (Hnd : NoDup (named_by sh a)) by (unfold named_by; apply NoDup_filter, seq_NoDup).
  destruct (NoDup_all_eq (named_by sh a) j Hnd) as [E|E]; auto.
  - intros y Hy. apply named_by_In in Hy. eapply names_unique; eauto.
  - exfalso. assert (Hin : In j (named_by sh a)) by (apply named_by_In; exact Hn). rewrite E in Hin. destruct Hin.
Qed.

Theorem accepted_specb_iff : forall sh arms dflt,
  wf_shape sh -> (accepted_specb sh arms dflt = true <-> accepted_spec sh arms dflt).
Proof.
  intros sh arms dflt Hwf. unfold accepted_specb, accepted_spec. rewrite !andb_true_iff. split.
  - intros [[Hall Hnd] Hcov]. exists (flat_map (named_by sh) arms).
    assert (HF : Forall2 (names sh) arms (flat_map (named_by sh) arms)).
    { clear - Hall Hwf. induction arms as [|a r IH]; cbn [flat_map]; [constructor|].
      cbn [forallb] in Hall. apply andb_true_iff in Hall. destruct Hall as [Ha Hr].
      destruct (named_by sh a) as [|j l] eqn:E; [discriminate|].
      assert (Hn : names sh a j) by (apply named_by_In; rewrite E; left; reflexivity).
      rewrite (named_by_singleton sh a j Hwf Hn) in E. inversion E; subst l.
      cbn [app]. constructor; auto. }
    split; [exact HF|]. split; [apply nodupb_iff; exact Hnd|].
    apply orb_true_iff in Hcov. destruct Hcov as [->|Hcov]; [left; reflexivity | right].
    intros j Hj. rewrite forallb_forall in Hcov. specialize (Hcov j ltac:(apply in_seq; lia)).
    apply existsb_exists in Hcov. destruct Hcov as (a & Ha & Hn). apply namesb_iff in Hn.
    apply in_flat_map. exists a. split; auto. apply named_by_In. exact Hn.
  - intros (js & HF & Hnd & Hcov).
    assert (Hjs : flat_map (named_by sh) arms = js).
    { clear - HF Hwf. induction HF as [|a j arms js Hn HF IH]; cbn [flat_map]; auto.
      rewrite (named_by_singleton sh a j Hwf Hn), IH. reflexivity. }
    split; [split|].
    + clear - HF Hwf. induction HF as [|a j arms js Hn HF IH]; cbn [forallb]; auto.
      rewrite (named_by_singleton sh a j Hwf Hn), IH. reflexivity.
    + rewrite Hjs. apply nodupb_iff. exact Hnd.
    + destruct Hcov as [->|Hcov]; [reflexivity|]. apply orb_true_iff. right.
      apply forallb_forall. intros j Hj. apply in_seq in Hj. specialize (Hcov j ltac:(lia)).
      rewrite <- Hjs in Hcov. apply in_flat_map in Hcov. destruct Hcov as (a & Ha & Hin).
      apply existsb_exists. exists a. split; auto. apply namesb_iff. apply named_by_In. exact Hin.
Qed.

(* consequently the model's acceptance equals the executable specification *)
Theorem accepted_eq_specb : forall sh arms dflt,
  wf_shape sh -> accepted (mkScrut [] sh) arms dflt = accepted_specb sh arms dflt.
Proof.
  intros sh arms dflt Hwf. unfold accepted.
  destruct (accepted_specb sh arms dflt) eqn:E.
  - apply (accepted_specb_iff sh arms dflt Hwf) in E. apply (check_accepts_iff sh arms dflt Hwf) in E.
    rewrite E. reflexivity.
  - destruct (check_switch (mkScrut [] sh) arms dflt) as [[|d ds]| |] eqn:Hc; auto.
    apply (check_accepts_iff sh arms dflt Hwf) in Hc. apply (accepted_specb_iff sh arms dflt Hwf) in Hc.
    rewrite Hc in E. discriminate.
Qed.
