(* C21 -- proofs about Model/Numbering.v (and the tracking loop of Model/Gate.v) *)
From Capy Require Import Common.Util Model.Numbering Model.Gate.
From Coq Require Import Permutation.

(* ---- sorting first makes the iteration order of the container irrelevant ------------------- *)
Lemma insert_comm a b l : insert a (insert b l) = insert b (insert a l).
Proof.
  induction l as [|c r IH]; cbn.
  - destruct (N.leb_spec a b), (N.leb_spec b a); try reflexivity; try lia.
    assert (a = b) by lia. subst. reflexivity.
  - destruct (N.leb_spec b c), (N.leb_spec a c); cbn;
      repeat match goal with
             | |- context [N.leb ?x ?y] => destruct (N.leb_spec x y); cbn
             end; try reflexivity; try lia.
    + assert (a = b) by lia. subst. reflexivity.
    + rewrite IH. reflexivity.
Qed.

Theorem isort_perm_invariant : forall l l', Permutation l l' -> isort l = isort l'.
Proof.
  intros l l' H. induction H; cbn.
  - reflexivity.
  - rewrite IHPermutation. reflexivity.
  - apply insert_comm.
  - congruence.
Qed.

(* ---- commutative folds --------------------------------------------------------------------------- *)
Theorem existsb_perm_invariant : forall {A} (f : A -> bool) l l',
  Permutation l l' -> existsb f l = existsb f l'.
Proof.
  intros A f l l' H. induction H; cbn.
  - reflexivity.
  - rewrite IHPermutation. reflexivity.
  - destruct (f x), (f y); reflexivity.
  - congruence.
Qed.

(* the unsafe-tracking loop: whenever it completes, its answer does not depend on the order in
   which the hash set all_finished_locations yields the locations *)
Theorem track_perm_invariant : forall w fuel roots skip locs locs' b,
  Permutation locs locs' ->
  track fuel w roots skip locs = Ok b -> track fuel w roots skip locs' = Ok b.
Proof.
  intros w fuel roots skip locs locs' b H. revert b.
  induction H; intros b Hb.
  - exact Hb.
  - cbn in *. destruct (skip x); [apply IHPermutation; exact Hb|].
    destruct (loc_unsafe fuel w x (roots x)) as [u|s|]; try discriminate.
    destruct (track fuel w roots skip l) as [u'|s'|] eqn:T; try discriminate.
    rewrite (IHPermutation u' eq_refl). exact Hb.
  - cbn in *.
    destruct (skip x), (skip y); try exact Hb;
      destruct (loc_unsafe fuel w x (roots x)) as [ux|sx|]; try discriminate;
      destruct (loc_unsafe fuel w y (roots y)) as [uy|sy|]; try discriminate;
      destruct (track fuel w roots skip l) as [u'|s'|]; try discriminate; try exact Hb.
    inversion Hb; subst. f_equal. destruct ux, uy, u'; reflexivity.
  - auto.
Qed.

Corollary track_perm_crash : forall w fuel roots skip locs locs',
  Permutation locs locs' ->
  (forall b, track fuel w roots skip locs <> Ok b) -> forall b, track fuel w roots skip locs' <> Ok b.
Proof.
  intros w fuel roots skip locs locs' P H b Hb.
  apply (H b). eapply track_perm_invariant; [apply Permutation_sym; exact P | exact Hb].
Qed.

(* exactly one file defines main: the file picked does not depend on the order *)
Lemma filter_perm {A} (f : A -> bool) l l' : Permutation l l' -> Permutation (filter f l) (filter f l').
Proof.
  intro H. induction H; cbn.
  - constructor.
  - destruct (f x); [constructor|]; assumption.
  - destruct (f x), (f y); try apply Permutation_refl; apply perm_swap.
  - eapply Permutation_trans; eauto.
Qed.

Theorem pick_main_unique_perm_invariant : forall files files',
  Permutation files files' -> length (filter snd files) = 1 ->
  pick_main files = pick_main files'.
Proof.
  intros files files' P H1. unfold pick_main.
  pose proof (filter_perm snd files files' P) as PF.
  destruct (filter snd files) as [|[f b] [|]] eqn:E; try discriminate.
  apply Permutation_length_1_inv in PF. rewrite PF. reflexivity.
Qed.

(* ---- where the order DOES reach the output ------------------------------------------------------- *)
Definition print_order_full : Prop :=
  forall (files files' : list (N * list N)), Permutation files files' -> print_all files = print_all files'.

Theorem print_order_full_refuted : ~ print_order_full.
Proof.
  intro H. specialize (H [(1%N, [10%N]); (2%N, [20%N])] [(2%N, [20%N]); (1%N, [10%N])] (perm_swap _ _ _)).
  discriminate.
Qed.

(* what IS invariant: the multiset of printed diagnostics *)
Theorem print_all_perm : forall {D} (files files' : list (N * list D)),
  Permutation files files' -> Permutation (print_all files) (print_all files').
Proof.
  intros D files files' H. unfold print_all. induction H; cbn.
  - constructor.
  - apply Permutation_app_head. assumption.
  - rewrite !app_assoc. apply Permutation_app_tail. apply Permutation_app_comm.
  - eapply Permutation_trans; eauto.
Qed.

(* ---- first-use numbering -------------------------------------------------------------------------------- *)
Lemma lookup_app_some t t' k v : lookup t k = Some v -> lookup (t ++ t') k = Some v.
Proof.
  induction t as [|[k' v'] r IH]; cbn; [discriminate|].
  destruct (N.eqb k k'); auto.
Qed.

Lemma request_keeps t kd k k0 v : lookup t k0 = Some v -> lookup (request t kd k) k0 = Some v.
Proof.
  intro H. unfold request. destruct (lookup t k); [exact H|]. apply lookup_app_some. exact H.
Qed.

(* ids already handed out never change, whatever is requested later *)
Theorem number_from_stable : forall reqs t k v,
  lookup t k = Some v -> lookup (number_from t reqs) k = Some v.
Proof.
  induction reqs as [|[kd k'] r IH]; intros t k v H; cbn; [exact H|].
  apply IH. apply request_keeps. exact H.
Qed.

Lemma number_from_app t a b : number_from t (a ++ b) = number_from (number_from t a) b.
Proof. revert t; induction a as [|[kd k] r IH]; intro t; cbn; [reflexivity | apply IH]. Qed.

Theorem number_prefix_stable : forall reqs later k v,
  lookup (number reqs) k = Some v -> lookup (number (reqs ++ later)) k = Some v.
Proof.
  intros reqs later k v H. unfold number in *. rewrite number_from_app.
  apply number_from_stable. exact H.
Qed.

(* well-formed tables: the list id of an entry is the number of earlier entries of its kind,
   keys are distinct *)
Inductive WfTable : table -> Prop :=
| Wf_nil : WfTable []
| Wf_snoc : forall t k kd, WfTable t -> lookup t k = None ->
            WfTable (t ++ [(k, (kd, count_kind t kd))]).

Lemma request_wf t kd k : WfTable t -> WfTable (request t kd k).
Proof.
  intro H. unfold request. destruct (lookup t k) eqn:E; [exact H|]. constructor; assumption.
Qed.

Lemma number_from_wf reqs : forall t, WfTable t -> WfTable (number_from t reqs).
Proof.
  induction reqs as [|[kd k] r IH]; intros t H; cbn; [exact H|]. apply IH. apply request_wf. exact H.
Qed.

Theorem number_wf : forall reqs, WfTable (number reqs).
Proof. intro reqs. apply number_from_wf. constructor. Qed.

Lemma count_kind_app t t' kd : count_kind (t ++ t') kd = (count_kind t kd + count_kind t' kd)%N.
Proof.
  induction t as [|[k [kd' i]] r IH]; cbn; [reflexivity|]. rewrite IH. lia.
Qed.

Lemma lookup_app_none t t' k : lookup t k = None -> lookup (t ++ t') k = lookup t' k.
Proof.
  induction t as [|[k' v'] r IH]; cbn; [reflexivity|].
  destruct (N.eqb k k'); [discriminate | exact IH].
Qed.

Lemma wf_ids_below : forall t, WfTable t -> forall k kd i, lookup t k = Some (kd, i) -> (i < count_kind t kd)%N.
Proof.
  intros t H. induction H as [|t k0 kd0 Hwf IH Hnone]; intros k kd i L; [discriminate|].
  rewrite count_kind_app. cbn.
  destruct (lookup t k) as [v|] eqn:E.
  - rewrite (lookup_app_some _ _ _ _ E) in L. inversion L; subst v.
    specialize (IH _ _ _ E). lia.
  - rewrite (lookup_app_none _ _ _ E) in L. cbn in L.
    destruct (N.eqb k k0); [|discriminate]. inversion L; subst. rewrite N.eqb_refl. lia.
Qed.

(* distinct types of the same kind get distinct ids (and hence distinct 32-bit type ids) *)
Theorem wf_ids_injective : forall t, WfTable t -> forall k1 k2 kd i,
  lookup t k1 = Some (kd, i) -> lookup t k2 = Some (kd, i) -> k1 = k2.
Proof.
  intros t H. induction H as [|t k0 kd0 Hwf IH Hnone]; intros k1 k2 kd i L1 L2; [discriminate|].
  destruct (lookup t k1) as [v1|] eqn:E1; destruct (lookup t k2) as [v2|] eqn:E2.
  - rewrite (lookup_app_some _ _ _ _ E1) in L1. rewrite (lookup_app_some _ _ _ _ E2) in L2.
    inversion L1; inversion L2; subst. eapply IH; eauto.
  - rewrite (lookup_app_some _ _ _ _ E1) in L1. rewrite (lookup_app_none _ _ _ E2) in L2.
    cbn in L2. destruct (N.eqb k2 k0); [|discriminate]. inversion L1; inversion L2; subst.
    pose proof (wf_ids_below t Hwf _ _ _ E1). lia.
  - rewrite (lookup_app_none _ _ _ E1) in L1. rewrite (lookup_app_some _ _ _ _ E2) in L2.
    cbn in L1. destruct (N.eqb k1 k0); [|discriminate]. inversion L1; inversion L2; subst.
    pose proof (wf_ids_below t Hwf _ _ _ E2). lia.
  - rewrite (lookup_app_none _ _ _ E1) in L1. rewrite (lookup_app_none _ _ _ E2) in L2.
    cbn in L1, L2.
    destruct (N.eqb_spec k1 k0); [|discriminate]. destruct (N.eqb_spec k2 k0); [|discriminate]. congruence.
Qed.

Theorem number_ids_injective : forall reqs k1 k2 kd i,
  lookup (number reqs) k1 = Some (kd, i) -> lookup (number reqs) k2 = Some (kd, i) -> k1 = k2.
Proof. intros reqs. apply wf_ids_injective. apply number_wf. Qed.

(* the numbering depends on the request order: it is NOT invariant under permutation of the
   requests, so the traversal that produces them must itself be deterministic (it walks Vecs /
   arenas in index order, never a hash container) *)
Definition number_order_full : Prop :=
  forall reqs reqs' k, Permutation reqs reqs' -> lookup (number reqs) k = lookup (number reqs') k.

Theorem number_order_full_refuted : ~ number_order_full.
Proof.
  intro H.
  specialize (H [(7%N, 1%N); (7%N, 2%N)] [(7%N, 2%N); (7%N, 1%N)] 1%N (perm_swap _ _ _)).
  vm_compute in H. discriminate.
Qed.
