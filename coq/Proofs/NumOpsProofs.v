(* C08 proofs, integer part: for ANY float semantics [F], the instruction lists
   selected by the model compute the specified results for all operand values.
   Pure ZArith/Lia; no axioms. *)
From Capy Require Import Common.Util Common.Bits Model.NumOps Spec.NumSpec.
Open Scope Z_scope.

(* ---- types ---------------------------------------------------------------------------- *)
Lemma int_width_cases w z : int_width w = Some z ->
  (w = 8%N /\ z = 8) \/ (w = 16%N /\ z = 16) \/ (w = 32%N /\ z = 32) \/
  (w = 64%N /\ z = 64) \/ (w = 128%N /\ z = 128) \/ (w = 255%N /\ z = 64).
Proof.
  unfold int_width.
  destruct (N.eqb_spec w 8); [intros [= <-]; tauto|].
  destruct (N.eqb_spec w 16); [intros [= <-]; tauto|].
  destruct (N.eqb_spec w 32); [intros [= <-]; tauto|].
  destruct (N.eqb_spec w 64); [intros [= <-]; tauto|].
  destruct (N.eqb_spec w 128); [intros [= <-]; tauto|].
  destruct (N.eqb_spec w 255); [intros [= <-]; tauto|]. discriminate.
Qed.

Lemma ty_sem_in_all t s w : ty_sem t = Some (s, w) -> In t all_int_tys.
Proof.
  destruct t as [n|n| |n| ]; cbn [ty_sem]; try discriminate.
  - destruct (int_width n) eqn:E; cbn; [|discriminate]. intros _.
    apply int_width_cases in E. cbn. intuition (subst; auto 20).
  - destruct (int_width n) eqn:E; cbn; [|discriminate]. intros _.
    apply int_width_cases in E. cbn. intuition (subst; auto 20).
  - intros _. cbn. auto 20.
  - intros _. cbn. auto 20.
Qed.

Lemma ty_sem_number_type t s w : ty_sem t = Some (s, w) ->
  exists c, number_type t = Ok (mk_numty c false s) /\ clbits c = w /\ cl_is_int c = true.
Proof.
  destruct t as [n|n|n| | ]; cbn [ty_sem]; try discriminate.
  - destruct (int_width n) eqn:E; cbn; [|discriminate]. intros [= <- <-].
    apply int_width_cases in E. cbn [number_type].
    destruct E as [[-> ->]|[[-> ->]|[[-> ->]|[[-> ->]|[[-> ->]|[-> ->]]]]]]; cbn; eexists; repeat split.
  - destruct (int_width n) eqn:E; cbn; [|discriminate]. intros [= <- <-].
    apply int_width_cases in E. cbn [number_type].
    destruct E as [[-> ->]|[[-> ->]|[[-> ->]|[[-> ->]|[[-> ->]|[-> ->]]]]]]; cbn; eexists; repeat split.
  - intros [= <- <-]. cbn. eexists; repeat split.
  - intros [= <- <-]. cbn. eexists; repeat split.
Qed.

Lemma ty_sem_width_pos t s w : ty_sem t = Some (s, w) -> 8 <= w.
Proof.
  intros H. destruct (ty_sem_number_type _ _ _ H) as (c & _ & <- & Hi). destruct c; cbn in *; try lia; discriminate.
Qed.

Lemma clbits_inj c1 c2 : cl_is_int c1 = true -> cl_is_int c2 = true -> clbits c1 = clbits c2 -> c1 = c2.
Proof. destruct c1, c2; cbn; intros; try reflexivity; try discriminate; lia. Qed.

Lemma clty_eqb_refl c : clty_eqb c c = true.
Proof. destruct c; reflexivity. Qed.

Lemma nty_eqb_refl t : nty_eqb t t = true.
Proof. destruct t; cbn; auto using N.eqb_refl. Qed.

(* ---- decode / encode ------------------------------------------------------------------ *)
Lemma wrap_decode s w a : 0 < w -> wrap w (decode s w a) = wrap w a.
Proof. intros. destruct s; cbn [decode]; [apply wrap_signed; lia | reflexivity]. Qed.

Lemma encode_decode s w a : 0 < w -> in_bits w a -> encode w (decode s w a) = a.
Proof. intros. unfold encode. rewrite wrap_decode by lia. apply wrap_small; assumption. Qed.

Lemma decode_range s w a : 0 < w -> in_bits w a -> tmin s w <= decode s w a <= tmax s w.
Proof.
  intros Hw Ha. destruct s; cbn [decode tmin tmax].
  - apply signed_range; lia.
  - unfold in_bits, umax in *. lia.
Qed.

Lemma decode_inj s w a b : 0 < w -> in_bits w a -> in_bits w b -> decode s w a = decode s w b -> a = b.
Proof. destruct s; cbn [decode]; intros; [eapply signed_inj; eauto | assumption]. Qed.

Lemma decode_zero s w : 0 < w -> decode s w 0 = 0.
Proof.
  intros. destruct s; cbn [decode]; [|reflexivity].
  apply signed_small; [lia|]. unfold smin, smax. pose proof (pow2_pos (w - 1) ltac:(lia)). lia.
Qed.

Lemma encode_b2z b : encode 8 (b2z b) = b2z b.
Proof. destruct b; reflexivity. Qed.

(* a non-negative decoded value is the bit pattern itself *)
Lemma decode_nonneg s w a : 0 < w -> in_bits w a -> 0 <= decode s w a -> decode s w a = a.
Proof.
  intros Hw Ha. destruct s; cbn [decode]; [|reflexivity].
  unfold signed. rewrite wrap_small by assumption. unfold in_bits in Ha.
  destruct (Z.ltb_spec a (2 ^ (w - 1))); lia.
Qed.

(* ---- binary operators, operands already at the common type -------------------------- *)
Definition binop_result (c : clty) (op : binop) (r : Z) : outcome :=
  if is_compare op then Val (I8, encode 8 r) else Val (c, encode (clbits c) r).

Lemma binop_generic F c s op a b r :
  cl_is_int c = true -> op <> OpLAnd -> op <> OpLOr ->
  (clbits c = 128 -> op <> OpDiv /\ op <> OpMod) ->
  in_bits (clbits c) a -> in_bits (clbits c) b ->
  binop_math s (clbits c) op (decode s (clbits c) a) (decode s (clbits c) b) = Some r ->
  (do i <- select_binop (mk_numty c false s) op; exec_b F i (c, a) (c, b)) = Ok (binop_result c op r).
Proof.
  intros Hi NA NO N128 Ha Hb.
  assert (Hw : 0 < clbits c) by (destruct c; cbn; lia).
  assert (H128 : op = OpDiv \/ op = OpMod -> clty_eqb c I128 = false).
  { intros Hop. destruct c; try reflexivity; try discriminate.
    destruct (N128 eq_refl) as [X Y]. destruct Hop; congruence. }
  set (w := clbits c) in *.
  assert (Hneg : negb (cl_is_int c) = false) by (rewrite Hi; reflexivity).
  pose proof (decode_range s w a Hw Ha) as Ra. pose proof (decode_range s w b Hw Hb) as Rb.
  unfold select_binop, binop_result. cbn [nt_float nt_signed].
  destruct op; cbn [binop_math is_compare bind]; try congruence;
    unfold exec_b; rewrite clty_eqb_refl; cbn [negb]; fold w.
  - (* add *) intros [= <-]. rewrite Hneg. unfold iadd, encode.
    rewrite <- (wrap_add w (decode s w a) (decode s w b)), !wrap_decode, wrap_add by lia. reflexivity.
  - (* sub *) intros [= <-]. rewrite Hneg. unfold isub, encode.
    rewrite <- (wrap_sub w (decode s w a) (decode s w b)), !wrap_decode, wrap_sub by lia. reflexivity.
  - (* mul *) intros [= <-]. rewrite Hneg. unfold imul, encode.
    rewrite <- (wrap_mul w (decode s w a) (decode s w b)), !wrap_decode, wrap_mul by lia. reflexivity.
  - (* div *)
    destruct (Z.eqb_spec (decode s w b) 0) as [Z0|NZ]; cbn [orb]; [discriminate|].
    destruct ((decode s w a =? tmin s w) && (decode s w b =? -1)) eqn:OV; [discriminate|].
    intros [= <-].
    assert (b <> 0) by (intros ->; rewrite decode_zero in NZ by lia; lia).
    destruct s; cbn [decode tmin tmax] in *; rewrite Hneg.
    + rewrite H128 by auto. unfold sdiv. destruct (Z.eqb_spec b 0); [lia|]. rewrite OV. reflexivity.
    + rewrite H128 by auto. unfold udiv. destruct (Z.eqb_spec b 0); [lia|]. cbn [of_trap].
      unfold in_bits in *. rewrite Z.quot_div_nonneg by lia. unfold encode.
      rewrite wrap_small; [reflexivity|]. unfold in_bits. split; [apply Z.div_pos; lia|].
      apply Z.div_lt_upper_bound; nia.
  - (* mod *)
    destruct (Z.eqb_spec (decode s w b) 0) as [Z0|NZ]; cbn [orb]; [discriminate|].
    destruct ((decode s w a =? tmin s w) && (decode s w b =? -1)) eqn:OV; [discriminate|].
    intros [= <-].
    assert (b <> 0) by (intros ->; rewrite decode_zero in NZ by lia; lia).
    destruct s; cbn [decode tmin tmax] in *; rewrite Hneg.
    + rewrite H128 by auto. unfold srem. destruct (Z.eqb_spec b 0); [lia|]. reflexivity.
    + rewrite H128 by auto. unfold urem. destruct (Z.eqb_spec b 0); [lia|]. cbn [of_trap].
      unfold in_bits in *. rewrite Z.rem_mod_nonneg by lia. unfold encode.
      rewrite wrap_small; [reflexivity|]. unfold in_bits.
      pose proof (Z.mod_pos_bound a b ltac:(lia)). lia.
  - (* lt *) intros [= <-]. rewrite Hneg, encode_b2z.
    destruct s; cbn [decode]; reflexivity.
  - (* gt *) intros [= <-]. rewrite Hneg, encode_b2z.
    destruct s; cbn [decode]; reflexivity.
  - (* le *) intros [= <-]. rewrite Hneg, encode_b2z.
    destruct s; cbn [decode]; reflexivity.
  - (* ge *) intros [= <-]. rewrite Hneg, encode_b2z.
    destruct s; cbn [decode]; reflexivity.
  - (* eq *) intros [= <-]. rewrite Hneg, encode_b2z. unfold icmp.
    destruct (Z.eqb_spec a b) as [->|N]; [rewrite Z.eqb_refl; reflexivity|].
    replace (decode s w a =? decode s w b) with false; [reflexivity|].
    symmetry. apply Z.eqb_neq. intros E. apply N. eapply decode_inj; eauto.
  - (* ne *) intros [= <-]. rewrite Hneg, encode_b2z. unfold icmp.
    destruct (Z.eqb_spec a b) as [->|N]; [rewrite Z.eqb_refl; reflexivity|].
    replace (decode s w a =? decode s w b) with false; [reflexivity|].
    symmetry. apply Z.eqb_neq. intros E. apply N. eapply decode_inj; eauto.
  - (* and *) intros [= <-]. rewrite Hi. unfold band, encode.
    rewrite wrap_land, !wrap_decode, !wrap_small by (assumption || lia). reflexivity.
  - (* or *) intros [= <-]. rewrite Hi. unfold bor, encode.
    rewrite wrap_lor, !wrap_decode, !wrap_small by (assumption || lia). reflexivity.
  - (* xor *) intros [= <-]. rewrite Hi. unfold bxor, encode.
    rewrite wrap_lxor, !wrap_decode, !wrap_small by (assumption || lia). reflexivity.
  - (* shl *)
    destruct (Z.leb_spec 0 (decode s w b)); cbn [andb]; [|discriminate].
    destruct (Z.ltb_spec (decode s w b) w); [|discriminate].
    intros [= <-]. rewrite Hneg.
    rewrite (decode_nonneg s w b) in * by (assumption || lia).
    unfold ishl, encode. rewrite (Z.mod_small b w) by lia.
    rewrite <- (wrap_mul_l w (decode s w a)), wrap_decode, wrap_mul_l by lia. reflexivity.
  - (* shr *)
    destruct (Z.leb_spec 0 (decode s w b)); cbn [andb]; [|discriminate].
    destruct (Z.ltb_spec (decode s w b) w); [|discriminate].
    intros [= <-]. rewrite Hneg.
    rewrite (decode_nonneg s w b) in * by (assumption || lia).
    destruct s; cbn [decode].
    + unfold sshr, encode. rewrite (Z.mod_small b w) by lia. reflexivity.
    + unfold ushr, encode. rewrite (Z.mod_small b w) by lia.
      rewrite wrap_small; [reflexivity|].
      replace (a / 2 ^ b) with (ushr w a b) by (unfold ushr; rewrite (Z.mod_small b w) by lia; reflexivity).
      apply ushr_in_bits; assumption.
Qed.

(* ---- casts between integer types ------------------------------------------------------- *)
Definition cast_bits (fx s1 s2 : bool) (w1 w2 a : Z) : Z :=
  match w1 ?= w2 with
  | Lt => if (if fx then s1 else s1 && s2) then sextend w1 w2 a else a
  | Eq => a
  | Gt => wrap w2 a
  end.

Lemma cast_num_int_exec F fx c1 c2 s1 s2 a :
  cl_is_int c1 = true -> cl_is_int c2 = true ->
  (do is <- cast_num fx (mk_numty c1 false s1) (mk_numty c2 false s2); exec_list F is (c1, a))
  = Ok (c2, cast_bits fx s1 s2 (clbits c1) (clbits c2) a).
Proof.
  intros H1 H2. unfold cast_num, bit_width, cast_bits. cbn [nt_cl nt_float nt_signed Bool.eqb].
  destruct (Z.eqb_spec (clbits c1) (clbits c2)) as [E|NE]; cbn [andb].
  - rewrite E, Z.compare_refl. cbn. f_equal. f_equal. apply clbits_inj; assumption.
  - destruct (Z.compare_spec (clbits c1) (clbits c2)) as [E|L|G]; [lia| |].
    + destruct (if fx then s1 else s1 && s2); cbn [bind exec_list exec_u]; rewrite H1, H2;
        (destruct (Z.ltb_spec (clbits c1) (clbits c2)); [|lia]); reflexivity.
    + cbn [bind exec_list exec_u]. rewrite H1, H2.
      destruct (Z.ltb_spec (clbits c2) (clbits c1)); [|lia]. reflexivity.
Qed.

(* what the selected cast instructions compute, against the specification *)
Lemma cast_bits_spec fx s1 s2 w1 w2 a : 0 < w1 -> 0 < w2 -> in_bits w1 a ->
  (fx = false -> s1 = true -> s2 = false -> w1 < w2 -> False) ->
  cast_bits fx s1 s2 w1 w2 a = encode w2 (decode s1 w1 a).
Proof.
  intros H1 H2 Ha NK. unfold cast_bits, encode.
  destruct (Z.compare_spec w1 w2) as [E|L|G].
  - subst. rewrite wrap_decode by lia. symmetry. apply wrap_small; assumption.
  - destruct fx, s1, s2; cbn [andb decode]; try reflexivity; try (exfalso; auto; fail);
      symmetry; apply wrap_small; unfold in_bits in *; pose proof (pow2_le_mono w1 w2 ltac:(lia)); lia.
  - rewrite <- (wrap_wrap_le w2 w1 (decode s1 w1 a)) by lia. rewrite wrap_decode by lia.
    rewrite wrap_wrap_le by lia. reflexivity.
Qed.

(* in the known class the selected instruction is uextend: right iff the value is non-negative *)
Lemma cast_bits_known w1 w2 a : 0 < w1 -> w1 < w2 -> in_bits w1 a ->
  cast_bits false true false w1 w2 a = a /\
  (a = encode w2 (decode true w1 a) <-> 0 <= signed w1 a).
Proof.
  intros H1 L Ha. unfold cast_bits. destruct (Z.compare_spec w1 w2); try lia. cbn [andb]. split; [reflexivity|].
  unfold encode, decode. pose proof (pow2_le_mono w1 w2 ltac:(lia)) as P.
  pose proof (pow2_pos w1 ltac:(lia)) as Q. unfold in_bits in Ha.
  destruct (Z_lt_le_dec a (2 ^ (w1 - 1))).
  - rewrite signed_nonneg by (unfold in_bits; lia). rewrite wrap_small by (unfold in_bits; lia). lia.
  - rewrite signed_neg by (unfold in_bits; lia).
    assert (wrap w2 (a - 2 ^ w1) = a - 2 ^ w1 + 2 ^ w2) as ->.
    { apply wrap_unique; [lia | unfold in_bits; lia | exists (-1); lia]. }
    pose proof (pow2_split w1 w2 ltac:(lia)) as S.
    assert (2 <= 2 ^ (w2 - w1)).
    { change 2 with (2 ^ 1) at 1. apply pow2_le_mono. lia. }
    nia.
Qed.

Lemma cast_value_int F from to a s1 w1 s2 w2 :
  ty_sem from = Some (s1, w1) -> ty_sem to = Some (s2, w2) ->
  exists c2, clbits c2 = w2 /\ cl_is_int c2 = true /\
    number_type to = Ok (mk_numty c2 false s2) /\
    cast_value F from to a = Ok (c2, cast_bits (v_cast_by_source F) s1 s2 w1 w2 a).
Proof.
  intros Hf Ht.
  destruct (ty_sem_number_type _ _ _ Hf) as (c1 & N1 & W1 & I1).
  destruct (ty_sem_number_type _ _ _ Ht) as (c2 & N2 & W2 & I2).
  exists c2. repeat split; try assumption.
  unfold cast_value. rewrite N1, N2. cbn [bind nt_cl].
  pose proof (cast_num_int_exec F (v_cast_by_source F) c1 c2 s1 s2 a I1 I2) as H. cbn [nt_cl] in H.
  rewrite W1, W2 in H. exact H.
Qed.

Lemma cast_bits_in_bits fx s1 s2 w1 w2 a : 0 < w1 -> 0 < w2 -> in_bits w1 a -> in_bits w2 (cast_bits fx s1 s2 w1 w2 a).
Proof.
  intros H1 H2 Ha. unfold cast_bits. destruct (Z.compare_spec w1 w2).
  - subst; assumption.
  - destruct (if fx then s1 else s1 && s2).
    + unfold sextend. apply wrap_range. lia.
    + unfold in_bits in *. pose proof (pow2_le_mono w1 w2 ltac:(lia)). lia.
  - apply wrap_range. lia.
Qed.

(* ---- the theorems ------------------------------------------------------------------------ *)
Definition val_of (p : Z * Z) (c : clty) : Prop := clbits c = fst p.

(* result of the model as (width, bits), for comparison with the spec *)
Definition out_bits (o : result outcome) : option (Z * Z) :=
  match o with Ok (Val (c, z)) => Some (clbits c, z) | _ => None end.
Definition val_bits (o : result value) : option (Z * Z) :=
  match o with Ok (c, z) => Some (clbits c, z) | _ => None end.

(* full int x int cast matrix, value universally quantified *)
Theorem cast_int_except_known F from to a s1 w1 :
  ty_sem from = Some (s1, w1) -> in_bits w1 a ->
  known_cast_class from to = None ->
  forall r, spec_cast from to a = Some r -> val_bits (model_cast F from to a) = Some r.
Proof.
  intros Hf Ha NK r. unfold spec_cast. rewrite Hf.
  destruct (ty_sem to) as [[s2 w2]|] eqn:Ht; [|discriminate]. intros [= <-].
  destruct (cast_value_int F from to a _ _ _ _ Hf Ht) as (c2 & W2 & I2 & _ & E).
  unfold model_cast. rewrite E. cbn [val_bits]. rewrite W2. f_equal. f_equal.
  pose proof (ty_sem_width_pos _ _ _ Hf). pose proof (ty_sem_width_pos _ _ _ Ht).
  apply cast_bits_spec; try lia; try assumption.
  intros _ -> -> L. unfold known_cast_class in NK. rewrite Hf, Ht in NK.
  destruct (Z.ltb_spec w1 w2); [discriminate | lia].
Qed.

(* the repaired cast_num (finding C08-1 fixed): the FULL statement, no class excluded *)
Theorem cast_int_full_fixed F from to a s1 w1 :
  v_cast_by_source F = true ->
  ty_sem from = Some (s1, w1) -> in_bits w1 a ->
  forall r, spec_cast from to a = Some r -> val_bits (model_cast F from to a) = Some r.
Proof.
  intros FX Hf Ha r. unfold spec_cast. rewrite Hf.
  destruct (ty_sem to) as [[s2 w2]|] eqn:Ht; [|discriminate]. intros [= <-].
  destruct (cast_value_int F from to a _ _ _ _ Hf Ht) as (c2 & W2 & I2 & _ & E).
  unfold model_cast. rewrite E. cbn [val_bits]. rewrite W2. f_equal. f_equal.
  pose proof (ty_sem_width_pos _ _ _ Hf). pose proof (ty_sem_width_pos _ _ _ Ht).
  apply cast_bits_spec; try lia; try assumption. rewrite FX. discriminate.
Qed.

(* inside the known class the model (and the code) zero-extends: wrong exactly for negative values *)
Theorem cast_int_known_class_exact F from to a s1 w1 :
  v_cast_by_source F = false ->
  ty_sem from = Some (s1, w1) -> in_bits w1 a ->
  known_cast_class from to = Some 1%N ->
  forall r, spec_cast from to a = Some r ->
  exists w2, val_bits (model_cast F from to a) = Some (w2, a) /\
             (Some (w2, a) = Some r <-> 0 <= decode s1 w1 a).
Proof.
  intros FX Hf Ha K r. unfold spec_cast. unfold known_cast_class in K. rewrite Hf in *.
  destruct (ty_sem to) as [[s2 w2]|] eqn:Ht; [|discriminate].
  destruct s1; [|discriminate]. destruct s2; [discriminate|].
  destruct (Z.ltb_spec w1 w2); [|discriminate]. intros [= <-].
  destruct (cast_value_int F from to a _ _ _ _ Hf Ht) as (c2 & W2 & I2 & _ & E).
  pose proof (ty_sem_width_pos _ _ _ Hf).
  destruct (cast_bits_known w1 w2 a ltac:(lia) ltac:(lia) Ha) as [E1 E2].
  exists w2. unfold model_cast. rewrite E, FX, E1. cbn [val_bits]. rewrite W2. split; [reflexivity|].
  cbn [decode]. rewrite <- E2. split; [intros [= Q]; exact Q | intros Q; f_equal; f_equal; exact Q].
Qed.

(* HISTORY (finding C08-1, before the repair): the full statement about the code variant
   [v_cast_by_source F = false] is false *)
Definition cast_int_full : Prop :=
  forall (F : fsem) from to a s1 w1, v_cast_by_source F = false ->
  ty_sem from = Some (s1, w1) -> in_bits w1 a ->
  forall r, spec_cast from to a = Some r -> val_bits (model_cast F from to a) = Some r.

(* u16.(i8 -1): the model (like the compiler) yields 0x00ff, the statement demands 0xffff *)
Lemma cast_int_full_refuted : ~ cast_int_full.
Proof.
  intros H.
  set (F := mk_fsem (fun _ _ z => z) (fun _ _ z => z) (fun _ _ z => z) (fun _ _ z => z)
                    (fun z => z) (fun z => z) (fun _ z => z) (fun _ _ z _ => z) (fun _ _ _ _ => false) false).
  specialize (H F (TIInt 8) (TUInt 16) 255 true 8 eq_refl eq_refl ltac:(unfold in_bits; lia) (16, 65535) eq_refl).
  vm_compute in H. discriminate.
Qed.

(* same-type binary operators *)
Lemma known_binop_none t op s w : ty_sem t = Some (s, w) -> known_binop_class t op = None ->
  w = 128 -> op <> OpDiv /\ op <> OpMod.
Proof.
  intros Ht K ->. unfold known_binop_class in K. rewrite Ht in K.
  destruct op; cbn in K; try discriminate; split; discriminate.
Qed.

Theorem binop_except_known F t op a b s w :
  ty_sem t = Some (s, w) -> in_bits w a -> in_bits w b ->
  (op = OpLAnd \/ op = OpLOr -> a < 2 /\ b < 2) ->
  known_binop_class t op = None ->
  forall r, spec_binop t op a b = Some r -> out_bits (model_binary F t t op a b) = Some r.
Proof.
  intros Ht Ha Hb Hl K r. unfold spec_binop. rewrite Ht.
  destruct (binop_math s w op (decode s w a) (decode s w b)) as [m|] eqn:M; [|discriminate].
  pose proof (ty_sem_width_pos _ _ _ Ht) as Hw.
  destruct (ty_sem_number_type _ _ _ Ht) as (c & N1 & W1 & I1).
  assert (LL : op = OpLAnd \/ op = OpLOr \/ (op <> OpLAnd /\ op <> OpLOr)).
  { destruct op; auto; right; right; split; discriminate. }
  destruct LL as [-> | [-> | [NA NO]]].
  - (* && *) destruct Hl as [La Lb]; [auto|]. unfold in_bits in *. cbn in M. cbn [is_compare]. intros [= <-].
    cbn [model_binary out_bits clbits]. f_equal. f_equal.
    assert (decode s w a = a) by (apply decode_nonneg; unfold in_bits; try lia;
      assert (a = 0 \/ a = 1) as [-> | ->] by lia; [rewrite decode_zero; lia|];
      destruct s; cbn [decode]; [rewrite signed_nonneg|]; unfold in_bits; try lia;
      change 1 with (2 ^ 0); apply Z.pow_lt_mono_r; lia).
    assert (decode s w b = b) by (apply decode_nonneg; unfold in_bits; try lia;
      assert (b = 0 \/ b = 1) as [-> | ->] by lia; [rewrite decode_zero; lia|];
      destruct s; cbn [decode]; [rewrite signed_nonneg|]; unfold in_bits; try lia;
      change 1 with (2 ^ 0); apply Z.pow_lt_mono_r; lia).
    rewrite H, H0 in M. injection M as <-.
    assert (a = 0 \/ a = 1) as [-> | ->] by lia; assert (b = 0 \/ b = 1) as [-> | ->] by lia; reflexivity.
  - (* || *) destruct Hl as [La Lb]; [auto|]. unfold in_bits in *. cbn in M. cbn [is_compare]. intros [= <-].
    cbn [model_binary out_bits clbits]. f_equal. f_equal.
    assert (decode s w a = a) by (apply decode_nonneg; unfold in_bits; try lia;
      assert (a = 0 \/ a = 1) as [-> | ->] by lia; [rewrite decode_zero; lia|];
      destruct s; cbn [decode]; [rewrite signed_nonneg|]; unfold in_bits; try lia;
      change 1 with (2 ^ 0); apply Z.pow_lt_mono_r; lia).
    assert (decode s w b = b) by (apply decode_nonneg; unfold in_bits; try lia;
      assert (b = 0 \/ b = 1) as [-> | ->] by lia; [rewrite decode_zero; lia|];
      destruct s; cbn [decode]; [rewrite signed_nonneg|]; unfold in_bits; try lia;
      change 1 with (2 ^ 0); apply Z.pow_lt_mono_r; lia).
    rewrite H, H0 in M. injection M as <-.
    assert (a = 0 \/ a = 1) as [-> | ->] by lia; assert (b = 0 \/ b = 1) as [-> | ->] by lia; reflexivity.
  - intros E.
    assert (model_binary F t t op a b =
            (do i <- select_binop (mk_numty c false s) op; exec_b F i (c, a) (c, b))) as ->.
    { unfold model_binary, ty_max. rewrite nty_eqb_refl.
      destruct (cast_value_int F t t a _ _ _ _ Ht Ht) as (c2 & W2 & I2 & N2 & E2).
      destruct (cast_value_int F t t b _ _ _ _ Ht Ht) as (c3 & W3 & I3 & N3 & E3).
      assert (c2 = c) by congruence. assert (c3 = c) by congruence. subst c2 c3.
      rewrite N1, E2, E3. unfold cast_bits. rewrite Z.compare_refl. cbn [bind].
      destruct op; try reflexivity; congruence. }
    subst w. rewrite (binop_generic F c s op a b m I1 NA NO (known_binop_none _ _ _ _ Ht K) Ha Hb M).
    unfold binop_result. destruct (is_compare op); cbn [out_bits clbits]; congruence.
Qed.

Definition binop_full : Prop :=
  forall (F : fsem) t op a b s w, ty_sem t = Some (s, w) -> in_bits w a -> in_bits w b ->
  (op = OpLAnd \/ op = OpLOr -> a < 2 /\ b < 2) ->
  forall r, spec_binop t op a b = Some r -> out_bits (model_binary F t t op a b) = Some r.

(* i128 7 / 2: the statement demands 3, the compiler aborts (no lowering for sdiv.i128) *)
Lemma binop_full_refuted : ~ binop_full.
Proof.
  intros H.
  set (F := mk_fsem (fun _ _ z => z) (fun _ _ z => z) (fun _ _ z => z) (fun _ _ z => z)
                    (fun z => z) (fun z => z) (fun _ z => z) (fun _ _ z _ => z) (fun _ _ _ _ => false) false).
  specialize (H F (TIInt 128) OpDiv 7 2 true 128 eq_refl ltac:(unfold in_bits; lia) ltac:(unfold in_bits; lia)
                ltac:(intros [X|X]; discriminate X) (128, 3) eq_refl).
  vm_compute in H. discriminate.
Qed.

(* mixed operand types: both operands are first converted to Ty::max, and that
   conversion is exactly the cast specification (the known class cannot arise) *)
Definition mixed_ok (l r : nty) : bool :=
  match ty_max l r with
  | None => true
  | Some m =>
      match ty_sem m with
      | None => false
      | Some _ => match known_cast_class l m, known_cast_class r m with None, None => true | _, _ => false end
      end
  end.

Lemma mixed_ok_all : forallb (fun l => forallb (fun r => mixed_ok l r) all_int_tys) all_int_tys = true.
Proof. vm_compute. reflexivity. Qed.

Theorem binop_mixed_correct F l r op a b sl wl sr wr m :
  ty_sem l = Some (sl, wl) -> ty_sem r = Some (sr, wr) -> in_bits wl a -> in_bits wr b ->
  op <> OpLAnd -> op <> OpLOr ->
  ty_max l r = Some m -> known_binop_class m op = None ->
  forall a' b' res, spec_cast l m a = Some a' -> spec_cast r m b = Some b' ->
  spec_binop m op (snd a') (snd b') = Some res ->
  out_bits (model_binary F l r op a b) = Some res.
Proof.
  intros Hl Hr Ha Hb NA NO Hm KB a' b' res Sa Sb Sp.
  pose proof (forallb_lift _ _ mixed_ok_all l (ty_sem_in_all _ _ _ Hl)) as Q. cbn beta in Q.
  pose proof (forallb_lift _ _ Q r (ty_sem_in_all _ _ _ Hr)) as Q2. cbn beta in Q2.
  unfold mixed_ok in Q2. rewrite Hm in Q2.
  destruct (ty_sem m) as [[sm wm]|] eqn:Tm; [|discriminate].
  destruct (known_cast_class l m) eqn:K1; [discriminate|].
  destruct (known_cast_class r m) eqn:K2; [discriminate|].
  pose proof (ty_sem_width_pos _ _ _ Hl). pose proof (ty_sem_width_pos _ _ _ Hr).
  pose proof (ty_sem_width_pos _ _ _ Tm).
  destruct (cast_value_int F l m a _ _ _ _ Hl Tm) as (c & W & I & Nm & Ea).
  destruct (cast_value_int F r m b _ _ _ _ Hr Tm) as (c' & W' & I' & Nm' & Eb).
  assert (c' = c) by congruence. subst c'.
  unfold spec_cast in Sa, Sb. rewrite Hl, Tm in Sa. rewrite Hr, Tm in Sb.
  injection Sa as <-. injection Sb as <-. cbn [snd] in Sp.
  assert (Ca : cast_bits (v_cast_by_source F) sl sm wl wm a = encode wm (decode sl wl a)).
  { apply cast_bits_spec; try lia; try assumption. intros _ -> -> L.
    unfold known_cast_class in K1. rewrite Hl, Tm in K1. destruct (Z.ltb_spec wl wm); [discriminate|lia]. }
  assert (Cb : cast_bits (v_cast_by_source F) sr sm wr wm b = encode wm (decode sr wr b)).
  { apply cast_bits_spec; try lia; try assumption. intros _ -> -> L.
    unfold known_cast_class in K2. rewrite Hr, Tm in K2. destruct (Z.ltb_spec wr wm); [discriminate|lia]. }
  assert (model_binary F l r op a b =
          (do i <- select_binop (mk_numty c false sm) op;
           exec_b F i (c, encode wm (decode sl wl a)) (c, encode wm (decode sr wr b)))) as ->.
  { unfold model_binary. rewrite Hm, Nm, Ea, Eb, Ca, Cb. cbn [bind].
    destruct op; try reflexivity; congruence. }
  unfold spec_binop in Sp. rewrite Tm in Sp.
  destruct (binop_math sm wm op _ _) as [mr|] eqn:M; [|discriminate].
  subst wm.
  rewrite (binop_generic F c sm op _ _ mr I NA NO (known_binop_none _ _ _ _ Tm KB)) by
    (try (apply wrap_range; lia); exact M).
  unfold binop_result. destruct (is_compare op); cbn [out_bits clbits]; congruence.
Qed.

(* unary operators *)
Theorem unop_correct F t op a s w :
  ty_sem t = Some (s, w) -> in_bits w a ->
  forall r, spec_unop t op a = Some r -> val_bits (model_unary F t op a) = Some r.
Proof.
  intros Ht Ha r. unfold spec_unop. rewrite Ht.
  pose proof (ty_sem_width_pos _ _ _ Ht) as Hw.
  destruct (ty_sem_number_type _ _ _ Ht) as (c & N1 & W1 & I1).
  unfold model_unary. rewrite N1. cbn [bind nt_cl]. unfold select_unop. cbn [nt_float].
  destruct op; cbn [bind exec_list exec_u unop_math]; rewrite ?I1; cbn [bind exec_list]; intros [= <-]; cbn [val_bits clbits]; rewrite ?W1.
  - rewrite encode_decode by (assumption || lia). reflexivity.
  - unfold ineg, encode. rewrite <- (wrap_opp w (decode s w a)), wrap_decode, wrap_opp by lia. reflexivity.
  - unfold encode. rewrite <- bnot_wrap_lnot by lia. rewrite wrap_decode by lia.
    rewrite wrap_small by assumption. reflexivity.
  - rewrite encode_b2z. unfold icmp, iconst. rewrite (wrap_small w 0) by (unfold in_bits in *; lia).
    destruct (Z.eqb_spec a 0) as [->|N].
    + rewrite decode_zero by lia. reflexivity.
    + replace (decode s w a =? 0) with false; [reflexivity|].
      symmetry. apply Z.eqb_neq. intros E. apply N.
      apply (decode_inj s w a 0); try lia; try assumption.
      * unfold in_bits in *. lia.
      * rewrite decode_zero by lia. exact E.
Qed.

(* values computed inside `comptime` come back unchanged *)
Theorem comptime_remat_int F c a : cl_is_int c = true -> in_bits (clbits c) a ->
  comptime_remat F (c, a) = (c, a).
Proof.
  intros Hi Ha. unfold comptime_remat, iconst, uextend.
  destruct c; try discriminate; try reflexivity; f_equal;
    (rewrite <- (wrap_wrap_le _ 64) by (cbn; lia); rewrite wrap_signed by lia;
     rewrite wrap_wrap_le by (cbn; lia); apply wrap_small; exact Ha).
Qed.

(* bit-level reading of the bitwise operators on the patterns themselves *)
Theorem band_testbit w a b i : Z.testbit (band w a b) i = Z.testbit a i && Z.testbit b i.
Proof. apply Z.land_spec. Qed.
Theorem bor_testbit w a b i : Z.testbit (bor w a b) i = Z.testbit a i || Z.testbit b i.
Proof. apply Z.lor_spec. Qed.
Theorem bxor_testbit w a b i : Z.testbit (bxor w a b) i = xorb (Z.testbit a i) (Z.testbit b i).
Proof. apply Z.lxor_spec. Qed.
