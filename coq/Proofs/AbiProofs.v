(* Proofs about Model/Abi.v against Spec/SysV.v (C19). *)
From Capy Require Import Common.Util Common.CAbiTy Model.Abi Spec.SysV.
Open Scope N_scope.

(* ------------------------------------------------------------------ merge *)
Definition to_sclass (c : class) : option sclass :=
  match c with Int => Some INTEGER | Sse => Some SSE | NoClass => Some NO_CLASS | SseUp => None end.

Lemma merge_smerge : forall a b a' b',
  to_sclass a = Some a' -> to_sclass b = Some b' ->
  to_sclass (merge a b) = Some (smerge a' b').
Proof. intros [] [] a' b' Ha Hb; inversion Ha; inversion Hb; reflexivity. Qed.

(* ------------------------------------------------------------ arithmetic *)
Definition pow2a (a : N) : Prop := a = 1 \/ a = 2 \/ a = 4 \/ a = 8.

Lemma pow2a_pos a : pow2a a -> 0 < a.
Proof. unfold pow2a; lia. Qed.

Lemma stride_of_div a x : pow2a a -> stride_of x a = (x + (a - 1)) / a * a.
Proof.
  unfold stride_of.
  intros [-> | [-> | [-> | ->]]].
  - change (1 - 1) with (N.ones 0). rewrite N.ldiff_ones_r, N.shiftr_div_pow2, N.shiftl_mul_pow2. reflexivity.
  - change (2 - 1) with (N.ones 1). rewrite N.ldiff_ones_r, N.shiftr_div_pow2, N.shiftl_mul_pow2. reflexivity.
  - change (4 - 1) with (N.ones 2). rewrite N.ldiff_ones_r, N.shiftr_div_pow2, N.shiftl_mul_pow2. reflexivity.
  - change (8 - 1) with (N.ones 3). rewrite N.ldiff_ones_r, N.shiftr_div_pow2, N.shiftl_mul_pow2. reflexivity.
Qed.

Lemma align_up_alt a x : 0 < a -> align_up x a = (x + (a - 1)) / a * a.
Proof. intros. unfold align_up. replace (x + a - 1) with (x + (a - 1)) by lia. reflexivity. Qed.

(* characterisation of rounding up *)
Lemma round_up_props a x : 0 < a ->
  let r := (x + (a - 1)) / a * a in x <= r /\ r < x + a /\ r mod a = 0.
Proof.
  intros Ha r. subst r.
  pose proof (N.div_mod (x + (a - 1)) a ltac:(lia)) as E.
  pose proof (N.mod_lt (x + (a - 1)) a ltac:(lia)) as L.
  rewrite N.mod_mul by lia.
  rewrite (N.mul_comm _ a).
  set (q := (x + (a - 1)) / a) in *. set (m := (x + (a - 1)) mod a) in *.
  nia.
Qed.

Lemma round_up_fix a x : 0 < a -> x mod a = 0 -> (x + (a - 1)) / a * a = x.
Proof.
  intros Ha Hx.
  destruct (round_up_props a x Ha) as (H1 & H2 & H3).
  set (r := (x + (a - 1)) / a * a) in *.
  (* r and x are both multiples of a within distance < a *)
  pose proof (N.div_mod x a ltac:(lia)) as Ex. rewrite Hx in Ex.
  pose proof (N.div_mod r a ltac:(lia)) as Er. rewrite H3 in Er.
  assert (r / a = x / a); [| nia].
  assert (x / a <= r / a) by (apply N.div_le_mono; lia).
  destruct (N.lt_ge_cases (x / a) (r / a)); [| lia]. nia.
Qed.

Lemma mod_add_mul a x y k : 0 < a -> x mod a = 0 -> y mod a = 0 -> (x + k * y) mod a = 0.
Proof.
  intros Ha Hx Hy.
  apply N.mod_divide in Hx; [| lia]. apply N.mod_divide in Hy; [| lia].
  apply N.mod_divide; [lia |].
  apply N.divide_add_r; auto. apply N.divide_mul_r; auto.
Qed.

Lemma mod_trans a b x : 0 < a -> 0 < b -> b mod a = 0 -> x mod b = 0 -> x mod a = 0.
Proof.
  intros Ha Hb H1 H2.
  apply N.mod_divide in H1; [| lia]. apply N.mod_divide in H2; [| lia].
  apply N.mod_divide; [lia |]. eapply N.divide_trans; eauto.
Qed.

(* -------------------------------------------------- layout.rs = C layout *)
Lemma salign_pow2 s : pow2a (salign s).
Proof. destruct s; cbv; auto. Qed.

Lemma falign_pow2 t : pow2a (falign t).
Proof. induction t; cbn [falign]; auto using salign_pow2. Qed.

Lemma falign_c t : falign t = c_align_f t.
Proof. induction t; cbn [falign c_align_f]; auto. destruct s; reflexivity. Qed.

Lemma ssize_mod_align s : ssize s mod salign s = 0.
Proof. destruct s; reflexivity. Qed.

Lemma fsize_mod_align t : fsize t mod falign t = 0.
Proof.
  induction t; cbn [fsize falign].
  - apply ssize_mod_align.
  - pose proof (falign_pow2 t) as P. pose proof (pow2a_pos _ P).
    rewrite stride_of_div by auto. rewrite round_up_fix by auto.
    rewrite N.mul_comm.
    replace (n * fsize t) with (0 + n * fsize t) by lia.
    apply mod_add_mul; auto; try (apply N.mod_0_l; lia).
Qed.

Lemma fstride_fsize t : fstride t = fsize t.
Proof.
  unfold fstride. pose proof (falign_pow2 t) as P. pose proof (pow2a_pos _ P).
  rewrite stride_of_div by auto. apply round_up_fix; auto using fsize_mod_align.
Qed.

Lemma fsize_c t : fsize t = c_sizeof_f t.
Proof.
  induction t; cbn [fsize c_sizeof_f].
  - destruct s; reflexivity.
  - fold (fstride t). rewrite fstride_fsize, IHt. lia.
Qed.

Lemma uniq_mult a lo x y : 0 < a -> lo <= x < lo + a -> lo <= y < lo + a ->
  x mod a = 0 -> y mod a = 0 -> x = y.
Proof.
  intros Ha Hx Hy Mx My.
  pose proof (N.div_mod x a ltac:(lia)) as Ex. rewrite Mx in Ex.
  pose proof (N.div_mod y a ltac:(lia)) as Ey. rewrite My in Ey.
  set (qx := x / a) in *. set (qy := y / a) in *.
  assert (qx = qy); [| nia].
  destruct (N.lt_trichotomy qx qy) as [H | [H | H]]; auto; nia.
Qed.

Lemma pad_align_up cur a : 0 < a -> cur + padding_needed_for cur a = align_up cur a.
Proof.
  intros Ha. rewrite align_up_alt by auto.
  destruct (round_up_props a cur Ha) as (H1 & H2 & H3).
  set (r := (cur + (a - 1)) / a * a) in *.
  unfold padding_needed_for.
  pose proof (N.div_mod cur a ltac:(lia)) as Ec.
  pose proof (N.mod_lt cur a ltac:(lia)) as Lc.
  destruct (0 <? cur mod a) eqn:E.
  - apply N.ltb_lt in E.
    apply (uniq_mult a cur); auto; try lia.
    replace (cur + (a - cur mod a)) with ((cur / a + 1) * a).
    + apply N.mod_mul. lia.
    + set (q := cur / a) in *. set (m := cur mod a) in *.
      rewrite N.mul_add_distr_r, N.mul_1_l, (N.mul_comm q a). lia.
  - apply N.ltb_ge in E. apply N.le_0_r in E.
    unfold r. rewrite round_up_fix by auto. lia.
Qed.

(* ------------------------------------- classification = fold over leaves *)
Fixpoint run_leaves (ls : list (N * scalar)) (cls : list class) : result (list class) :=
  match ls with
  | [] => Ok cls
  | (o, s) :: r => do c <- classify_scalar s o cls; run_leaves r c
  end.

Lemma run_leaves_app l1 l2 cls :
  run_leaves (l1 ++ l2) cls = (do c <- run_leaves l1 cls; run_leaves l2 c).
Proof.
  revert cls. induction l1 as [| [o s] r IH]; intros cls; cbn [run_leaves app bind]; auto.
  destruct (classify_scalar s o cls); cbn [bind]; auto.
Qed.

Lemma iter_idx_leaves e off sz (IH : forall off cls, classify_f e off cls = run_leaves (c_leaves_f e off) cls) :
  forall k i cls,
    iter_idx k (N.of_nat i) (fun idx => classify_f e (off + idx * sz)) cls
    = run_leaves (flat_map (fun j => c_leaves_f e (off + N.of_nat j * sz)) (seq i k)) cls.
Proof.
  induction k; intros i cls; cbn [iter_idx seq flat_map run_leaves]; auto.
  rewrite run_leaves_app, IH.
  destruct (run_leaves (c_leaves_f e (off + N.of_nat i * sz)) cls); cbn [bind]; auto.
  replace (N.of_nat i + 1) with (N.of_nat (S i)) by lia. apply IHk.
Qed.

Lemma classify_f_leaves t : forall off cls, classify_f t off cls = run_leaves (c_leaves_f t off) cls.
Proof.
  induction t as [s | n e IH]; intros off cls; cbn [classify_f c_leaves_f run_leaves].
  - destruct (classify_scalar s off cls); reflexivity.
  - destruct (n =? 0) eqn:E.
    + apply N.eqb_eq in E. subst n. reflexivity.
    + rewrite fstride_fsize, fsize_c.
      change 0 with (N.of_nat 0) at 1. apply iter_idx_leaves. exact IH.
Qed.

Lemma classify_fields_leaves fs : forall cur cls,
  classify_fields (fst (struct_offsets_from cur fs)) fs 0 cls
  = run_leaves (fst (c_struct_leaves fs cur)) cls
  /\ snd (struct_offsets_from cur fs) = snd (c_struct_leaves fs cur).
Proof.
  induction fs as [| f r IH]; intros cur cls; cbn [struct_offsets_from c_struct_leaves fst snd classify_fields run_leaves]; auto.
  pose proof (pow2a_pos _ (falign_pow2 f)) as Hp.
  rewrite pad_align_up by auto. rewrite falign_c, fsize_c.
  set (o := align_up cur (c_align_f f)).
  destruct (struct_offsets_from (o + c_sizeof_f f) r) as [os e] eqn:E1.
  destruct (c_struct_leaves r (o + c_sizeof_f f)) as [ls e'] eqn:E2.
  cbn [fst snd classify_fields].
  rewrite run_leaves_app, classify_f_leaves. rewrite N.add_0_l.
  split.
  - destruct (run_leaves (c_leaves_f f o) cls) as [c | |]; cbn [bind]; auto.
    specialize (IH (o + c_sizeof_f f) c). rewrite E1, E2 in IH. apply IH.
  - specialize (IH (o + c_sizeof_f f) cls). rewrite E1, E2 in IH. apply IH.
Qed.

(* ------------------------------------------------ the array of 8 classes *)
Definition view (cls : list class) (i : N) : class := nth (N.to_nat i) cls NoClass.

Lemma upd_spec f : forall l i, (i < length l)%nat ->
  exists l', upd i f l = Some l' /\ length l' = length l /\
    forall j, nth j l' NoClass = if Nat.eqb j i then f (nth j l NoClass) else nth j l NoClass.
Proof.
  induction l as [| x r IH]; intros i Hi; cbn [length] in Hi; [lia |].
  destruct i as [| i]; cbn [upd].
  - eexists; split; [reflexivity |]. split; [reflexivity |]. intros [| j]; reflexivity.
  - destruct (IH i ltac:(lia)) as (r' & E & L & Hn). rewrite E.
    eexists; split; [reflexivity |]. split; [cbn [length]; lia |].
    intros [| j]; cbn [nth Nat.eqb]; auto.
Qed.

Lemma merge_at_spec cls idx c : (N.to_nat idx < length cls)%nat ->
  exists cls', merge_at cls idx c = Ok cls' /\ length cls' = length cls /\
    forall i, view cls' i = if i =? idx then merge (view cls i) c else view cls i.
Proof.
  intros H. unfold merge_at.
  destruct (upd_spec (fun x => merge x c) cls _ H) as (l' & E & L & Hn). rewrite E.
  exists l'. split; auto. split; auto.
  intros i. unfold view. rewrite Hn.
  destruct (i =? idx) eqn:E1.
  - apply N.eqb_eq in E1. subst. rewrite Nat.eqb_refl. reflexivity.
  - apply N.eqb_neq in E1. destruct (Nat.eqb_spec (N.to_nat i) (N.to_nat idx)); auto. lia.
Qed.

Definition mclass (s : scalar) : class := if is_float_scalar s then Sse else Int.

Lemma classify_scalar_merge s o cls : classify_scalar s o cls = merge_at cls (o / 8) (mclass s).
Proof.
  unfold classify_scalar, mclass. destruct (is_float_scalar s) eqn:E; auto.
  assert (8 <? ssize s = false) as -> by (destruct s; reflexivity).
  destruct (merge_at cls (o / 8) Int); reflexivity.
Qed.

Definition leaf_fold (i : N) (ls : list (N * scalar)) (acc : class) : class :=
  fold_left (fun acc '(o, s) => if o / 8 =? i then merge acc (mclass s) else acc) ls acc.

Lemma run_leaves_spec : forall ls cls,
  length cls = 8%nat ->
  (forall o s, In (o, s) ls -> o / 8 < 8) ->
  exists cls', run_leaves ls cls = Ok cls' /\ length cls' = 8%nat /\
    forall i, view cls' i = leaf_fold i ls (view cls i).
Proof.
  induction ls as [| [o s] r IH]; intros cls L B; cbn [run_leaves].
  - exists cls. auto.
  - rewrite classify_scalar_merge.
    destruct (merge_at_spec cls (o / 8) (mclass s)) as (c1 & E & L1 & V1).
    { rewrite L. specialize (B o s (or_introl eq_refl)). lia. }
    rewrite E. cbn [bind].
    destruct (IH c1) as (c2 & E2 & L2 & V2).
    { lia. } { intros; apply (B o0 s0); right; auto. }
    exists c2. split; auto. split; auto.
    intros i. rewrite V2. unfold leaf_fold. cbn [fold_left]. rewrite V1.
    rewrite (N.eqb_sym i). reflexivity.
Qed.

(* ------------------------- leaves of the C layout: aligned and in bounds *)
Lemma c_size_align_f t : c_sizeof_f t mod c_align_f t = 0.
Proof. rewrite <- fsize_c, <- falign_c. apply fsize_mod_align. Qed.

Lemma c_align_f_pos t : 0 < c_align_f t.
Proof. rewrite <- falign_c. apply pow2a_pos, falign_pow2. Qed.

Lemma leaves_f_aligned t : forall off o s,
  off mod c_align_f t = 0 -> In (o, s) (c_leaves_f t off) -> o mod c_align_s s = 0.
Proof.
  induction t as [s0 | n e IH]; intros off o s Ho Hin; cbn [c_leaves_f c_align_f] in *.
  - destruct Hin as [H | []]. inversion H; subst. exact Ho.
  - apply in_flat_map in Hin. destruct Hin as (k & _ & Hin).
    eapply IH; [| exact Hin].
    apply mod_add_mul; auto using c_align_f_pos, c_size_align_f.
Qed.

Lemma leaves_f_bound t : forall off o s,
  In (o, s) (c_leaves_f t off) -> off <= o /\ o + c_size_s s <= off + c_sizeof_f t.
Proof.
  induction t as [s0 | n e IH]; intros off o s Hin; cbn [c_leaves_f c_sizeof_f] in *.
  - destruct Hin as [H | []]. inversion H; subst. lia.
  - apply in_flat_map in Hin. destruct Hin as (k & Hk & Hin).
    apply in_seq in Hk. apply IH in Hin.
    assert (N.of_nat k + 1 <= n) by lia. nia.
Qed.

Lemma struct_leaves_props fs : forall cur o s,
  In (o, s) (fst (c_struct_leaves fs cur)) ->
  o mod c_align_s s = 0 /\ cur <= o /\ o + c_size_s s <= snd (c_struct_leaves fs cur).
Proof.
  induction fs as [| f r IH]; intros cur o s Hin; cbn [c_struct_leaves fst] in *; [destruct Hin |].
  set (a := align_up cur (c_align_f f)) in *.
  assert (cur <= a /\ a mod c_align_f f = 0) as [Ha1 Ha2].
  { unfold a. rewrite align_up_alt by apply c_align_f_pos.
    destruct (round_up_props (c_align_f f) cur (c_align_f_pos f)) as (? & ? & ?). auto. }
  destruct (c_struct_leaves r (a + c_sizeof_f f)) as [ls e] eqn:E. cbn [fst snd] in *.
  assert (a + c_sizeof_f f <= e) as Hmono.
  { clear - E. revert E. generalize (a + c_sizeof_f f). revert ls e.
    induction r as [| g r IHr]; intros ls e n E; cbn [c_struct_leaves] in E.
    - inversion E; lia.
    - destruct (c_struct_leaves r (align_up n (c_align_f g) + c_sizeof_f g)) as [l2 e2] eqn:E2.
      inversion E; subst. apply IHr in E2.
      rewrite align_up_alt in E2 by apply c_align_f_pos.
      destruct (round_up_props (c_align_f g) n (c_align_f_pos g)) as (? & ? & ?). lia. }
  apply in_app_or in Hin. destruct Hin as [Hin | Hin].
  - split; [eapply leaves_f_aligned; eauto |].
    apply leaves_f_bound in Hin. lia.
  - specialize (IH (a + c_sizeof_f f) o s). rewrite E in IH. cbn [fst snd] in IH.
    destruct (IH Hin) as (? & ? & ?). repeat split; auto; lia.
Qed.

(* an aligned scalar lies in exactly one eightbyte *)
Lemma aligned_overlaps o s i : o mod c_align_s s = 0 -> overlaps o (c_size_s s) i = (o / 8 =? i).
Proof.
  intros Ha. unfold overlaps.
  pose proof (N.div_mod o 8 ltac:(lia)) as E8. pose proof (N.mod_lt o 8 ltac:(lia)) as L8.
  set (d := o / 8) in *. set (r := o mod 8) in *.
  assert (exists q, o = c_size_s s * q) as [q Hq].
  { exists (o / c_align_s s). pose proof (N.div_mod o (c_align_s s)) as E. rewrite Ha in E.
    unfold c_align_s in *. rewrite E at 1; [lia | destruct s; cbv; discriminate]. }
  apply Bool.eq_iff_eq_true. rewrite Bool.andb_true_iff, !N.ltb_lt, N.eqb_eq.
  destruct s; cbn [c_size_s] in *; lia.
Qed.

(* -------------------------------------------- model classes = SysV classes *)
Lemma mclass_spec s : to_sclass (mclass s) = Some (class_of_scalar s).
Proof. destruct s; reflexivity. Qed.

Lemma leaf_fold_spec i : forall ls,
  (forall o s, In (o, s) ls -> o mod c_align_s s = 0) ->
  forall acc acc', to_sclass acc = Some acc' ->
  to_sclass (leaf_fold i ls acc) =
  Some (fold_left (fun acc '(o, s) => if overlaps o (c_size_s s) i then smerge acc (class_of_scalar s) else acc) ls acc').
Proof.
  induction ls as [| [o s] r IH]; intros A acc acc' H; cbn [leaf_fold fold_left]; auto.
  unfold leaf_fold in IH. apply IH.
  - intros; apply (A o0 s0); right; auto.
  - rewrite aligned_overlaps by (apply (A o s); left; auto).
    destruct (o / 8 =? i); auto. apply merge_smerge; auto using mclass_spec.
Qed.

Lemma eightbyte_class_none ls i :
  (forall o s, In (o, s) ls -> o + c_size_s s <= 8 * i) -> eightbyte_class ls i = NO_CLASS.
Proof.
  unfold eightbyte_class. intros B.
  enough (forall acc, fold_left (fun acc '(o, s) => if overlaps o (c_size_s s) i then smerge acc (class_of_scalar s) else acc) ls acc = acc) by auto.
  induction ls as [| [o s] r IH]; intros acc; cbn [fold_left]; auto.
  assert (overlaps o (c_size_s s) i = false) as ->.
  { unfold overlaps. specialize (B o s (or_introl eq_refl)).
    apply Bool.andb_false_iff. right. apply N.ltb_ge. lia. }
  apply IH. intros; apply B; right; auto.
Qed.

Lemma view_init i : view init_classes i = NoClass.
Proof.
  unfold view. generalize (N.to_nat i). intro n.
  do 8 (destruct n as [| n]; [reflexivity |]). destruct n; reflexivity.
Qed.

Lemma nth_nseq {A} (f : N -> A) d : forall len start k,
  nth k (map f (nseq start len)) d = if (k <? len)%nat then f (start + N.of_nat k) else d.
Proof.
  induction len; intros start k; cbn [nseq map nth].
  - destruct k; reflexivity.
  - destruct k; cbn [nth].
    + rewrite N.add_0_r. reflexivity.
    + rewrite IHlen. change (S k <? S len)%nat with (k <? len)%nat.
      destruct (k <? len)%nat; auto. f_equal. lia.
Qed.

Lemma ceil8_gt k e : (k <? (e + 7) / 8) = (8 * k <? e).
Proof.
  pose proof (N.div_mod (e + 7) 8 ltac:(lia)) as E. pose proof (N.mod_lt (e + 7) 8 ltac:(lia)) as L.
  set (q := (e + 7) / 8) in *. set (r := (e + 7) mod 8) in *.
  apply Bool.eq_iff_eq_true. rewrite !N.ltb_lt. lia.
Qed.

Lemma align_up_gt A e m : 0 < A -> m mod A = 0 -> (m <? align_up e A) = (m <? e).
Proof.
  intros HA Hm. rewrite align_up_alt by auto.
  destruct (round_up_props A e HA) as (H1 & H2 & H3).
  set (r := (e + (A - 1)) / A * A) in *.
  pose proof (N.div_mod r A ltac:(lia)) as Er. rewrite H3 in Er.
  pose proof (N.div_mod m A ltac:(lia)) as Em. rewrite Hm in Em.
  set (qr := r / A) in *. set (qm := m / A) in *.
  apply Bool.eq_iff_eq_true. rewrite !N.ltb_lt. split; intros H; [| lia].
  destruct (N.lt_ge_cases m e); auto.
  assert (qm < qr) by nia. nia.
Qed.

Lemma c_align_struct_pow2 fs : pow2a (c_align_struct fs).
Proof.
  induction fs as [| f r IH]; cbn [c_align_struct fold_right]; [left; reflexivity |].
  fold (c_align_struct r).
  pose proof (falign_pow2 f) as P. rewrite falign_c in P.
  destruct (N.max_spec (c_align_f f) (c_align_struct r)) as [[_ ->] | [_ ->]]; auto.
Qed.

Lemma fixup_id cls n : n <= 2 -> length cls = 8%nat -> (forall i, view cls i <> SseUp) ->
  fixup 32 0 n cls = Ok cls.
Proof.
  intros Hn L V.
  destruct cls as [| c0 [| c1 r]]; cbn [length] in L; try lia.
  pose proof (V 0) as V0. pose proof (V 1) as V1. unfold view in V0, V1.
  change (N.to_nat 0) with 0%nat in V0. change (N.to_nat 1) with 1%nat in V1. cbn [nth] in V0, V1.
  assert (n = 0 \/ n = 1 \/ n = 2) as [-> | [-> | ->]] by lia;
    destruct c0; try congruence; destruct c1; try congruence; reflexivity.
Qed.

Lemma existsb_false_intro {A} (p : A -> bool) l : (forall x, In x l -> p x = false) -> existsb p l = false.
Proof.
  intros H. destruct (existsb p l) eqn:E; auto.
  apply existsb_exists in E. destruct E as (x & Hx & Px). rewrite (H x Hx) in Px. discriminate.
Qed.

Definition classes_match (cls : list class) (scls : list sclass) : Prop :=
  length cls = 8%nat /\ forall i, to_sclass (view cls i) = Some (nth (N.to_nat i) scls NO_CLASS).

Theorem classify_agrees t : wf_aty t ->
  match sysv_classify t with
  | None => classify_arg t = Ok None
  | Some scls => exists cls, classify_arg t = Ok (Some cls) /\ classes_match cls scls
  end.
Proof.
  destruct t as [s | fs]; intros WF.
  - (* scalars *)
    destruct s; cbn; (eexists; split; [reflexivity |]; split; [reflexivity |]);
      intros i; unfold view; generalize (N.to_nat i); intro n;
      do 8 (destruct n as [| n]; [reflexivity |]); destruct n; reflexivity.
  - (* structs *)
    unfold sysv_classify, classify_arg.
    cbn [c_sizeof c_leaves asize classify_eight_byte].
    unfold struct_size, struct_offsets.
    destruct (classify_fields_leaves fs 0 init_classes) as [Hrun Hsz].
    rewrite Hrun, Hsz. clear Hrun Hsz.
    set (leaves := fst (c_struct_leaves fs 0)).
    set (e := snd (c_struct_leaves fs 0)).
    set (A := c_align_struct fs).
    pose proof (c_align_struct_pow2 fs) as PA. fold A in PA.
    pose proof (pow2a_pos _ PA) as HA.
    assert (forall o s, In (o, s) leaves -> o mod c_align_s s = 0 /\ o + c_size_s s <= e) as LP.
    { intros o s Hin. destruct (struct_leaves_props fs 0 o s Hin) as (? & ? & ?). auto. }
    assert (unaligned leaves = false) as ->.
    { apply existsb_false_intro. intros [o s] Hin. destruct (LP o s Hin) as [-> _]. reflexivity. }
    rewrite Bool.orb_false_r.
    assert (64 mod A = 0 /\ 16 mod A = 0) as [M64 M16] by (destruct PA as [-> | [-> | [-> | ->]]]; split; reflexivity).
    rewrite (align_up_gt A e 64 HA M64).
    rewrite !ceil8_gt. change (8 * 8) with 64. change (8 * 2) with 16.
    rewrite (align_up_gt A e 16 HA M16).
    destruct (64 <? e) eqn:E64; [reflexivity |].
    apply N.ltb_ge in E64.
    destruct (run_leaves_spec leaves init_classes eq_refl) as (cls & Hr & L & V).
    { intros o s Hin. destruct (LP o s Hin) as [_ B].
      apply N.div_lt_upper_bound; [lia |]. assert (1 <= c_size_s s) by (destruct s; cbv; discriminate). lia. }
    rewrite Hr. cbn [bind].
    assert (forall i, to_sclass (view cls i) = Some (eightbyte_class leaves i)) as VC.
    { intros i. rewrite V, view_init. unfold eightbyte_class.
      apply leaf_fold_spec; [intros o s Hin; apply (LP o s Hin) | reflexivity]. }
    assert (forall i, view cls i <> SseUp) as NU.
    { intros i Hc. specialize (VC i). rewrite Hc in VC. discriminate. }
    destruct (16 <? e) eqn:E16.
    + (* more than two eightbytes: MEMORY on both sides *)
      apply N.ltb_lt in E16.
      destruct cls as [| c0 [| c1 r]]; cbn [length] in L; try lia.
      destruct (class_eqb c0 Sse); cbn [negb]; [| reflexivity].
      unfold slice.
      assert (exists k, (N.to_nat ((e + 7) / 8) - 1 = S k)%nat) as [k ->].
      { assert (2 < (e + 7) / 8) by (apply N.ltb_lt; rewrite ceil8_gt; apply N.ltb_lt; lia).
        exists (N.to_nat ((e + 7) / 8) - 2)%nat. lia. }
      cbn [skipn firstn existsb].
      pose proof (NU 1) as N1. unfold view in N1. change (N.to_nat 1) with 1%nat in N1. cbn [nth] in N1.
      destruct c1; try congruence; reflexivity.
    + apply N.ltb_ge in E16.
      rewrite fixup_id; auto.
      2:{ assert ((2 <? (e + 7) / 8) = false) as H by (rewrite ceil8_gt; apply N.ltb_ge; lia).
          apply N.ltb_ge in H. exact H. }
      cbn [bind]. exists cls. split; [reflexivity |]. split; [exact L |].
      intros i. rewrite VC. f_equal.
      rewrite nth_nseq. rewrite N.add_0_l, N2Nat.id.
      destruct (N.to_nat i <? N.to_nat ((align_up e A + 7) / 8))%nat eqn:Ei; auto.
      apply Nat.ltb_ge in Ei.
      apply eightbyte_class_none. intros o s Hin. destruct (LP o s Hin) as [_ B].
      assert ((align_up e A + 7) / 8 <= i) as Hi by lia.
      assert (e <= align_up e A).
      { rewrite align_up_alt by auto. destruct (round_up_props A e HA) as (? & ? & ?). auto. }
      pose proof (N.div_mod (align_up e A + 7) 8 ltac:(lia)) as E8.
      pose proof (N.mod_lt (align_up e A + 7) 8 ltac:(lia)) as L8.
      set (q := (align_up e A + 7) / 8) in *. set (m := (align_up e A + 7) mod 8) in *. lia.
Qed.

(* ------------------------------------- every eightbyte of a small struct carries data *)
Lemma leaves_f_last t : wf_fty t -> forall off,
  exists o s, In (o, s) (c_leaves_f t off) /\ o + c_size_s s = off + c_sizeof_f t.
Proof.
  induction t as [s0 | n e IH]; intros WF off; cbn [c_leaves_f c_sizeof_f wf_fty] in *.
  - exists off, s0. split; [left; reflexivity | reflexivity].
  - destruct WF as [Hn We].
    destruct (IH We (off + N.of_nat (N.to_nat n - 1) * c_sizeof_f e)) as (o & s & Hin & Hend).
    exists o, s. split.
    + apply in_flat_map. exists (N.to_nat n - 1)%nat. split; auto. apply in_seq. lia.
    + rewrite Hend. replace (N.of_nat (N.to_nat n - 1)) with (n - 1) by lia. nia.
Qed.

Lemma struct_leaves_last fs : fs <> [] -> wf_fields fs -> forall cur,
  exists o s, In (o, s) (fst (c_struct_leaves fs cur)) /\ o + c_size_s s = snd (c_struct_leaves fs cur).
Proof.
  induction fs as [| f r IH]; intros NE WF cur; [congruence |].
  cbn [c_struct_leaves wf_fields] in *. destruct WF as [Wf Wr].
  set (a := align_up cur (c_align_f f)).
  destruct (c_struct_leaves r (a + c_sizeof_f f)) as [ls e] eqn:E. cbn [fst snd].
  destruct r as [| g r'].
  - cbn [c_struct_leaves] in E. inversion E; subst.
    destruct (leaves_f_last f Wf a) as (o & s & Hin & Hend).
    exists o, s. split; auto. apply in_or_app. left; auto.
  - destruct (IH ltac:(discriminate) Wr (a + c_sizeof_f f)) as (o & s & Hin & Hend).
    rewrite E in Hin, Hend. cbn [fst snd] in *.
    exists o, s. split; auto. apply in_or_app. right; auto.
Qed.

Lemma struct_leaves_first fs : fs <> [] -> wf_fields fs ->
  exists s, In (0, s) (fst (c_struct_leaves fs 0)).
Proof.
  destruct fs as [| f r]; intros NE WF; [congruence |].
  cbn [c_struct_leaves wf_fields] in *. destruct WF as [Wf _].
  assert (align_up 0 (c_align_f f) = 0) as ->.
  { pose proof (c_align_f_pos f). unfold align_up. rewrite N.add_0_l.
    rewrite N.div_small by lia. reflexivity. }
  destruct (c_struct_leaves r (0 + c_sizeof_f f)) as [ls e]. cbn [fst].
  assert (forall t, wf_fty t -> forall off, exists s, In (off, s) (c_leaves_f t off)) as First.
  { induction t as [s0 | n e0 IH]; intros W off; cbn [c_leaves_f wf_fty] in *.
    - exists s0; left; reflexivity.
    - destruct W as [Hn We]. destruct (IH We off) as (s & Hs). exists s.
      apply in_flat_map. exists 0%nat. split; [apply in_seq; lia |].
      change (N.of_nat 0) with 0. rewrite N.mul_0_l, N.add_0_r. exact Hs. }
  destruct (First f Wf 0) as (s & Hs). exists s. apply in_or_app; left; auto.
Qed.

Lemma eightbyte_class_some ls i o s :
  In (o, s) ls -> overlaps o (c_size_s s) i = true -> eightbyte_class ls i <> NO_CLASS.
Proof.
  unfold eightbyte_class. intros Hin Hov.
  assert (forall l acc, acc <> NO_CLASS ->
    fold_left (fun acc '(o, s) => if overlaps o (c_size_s s) i then smerge acc (class_of_scalar s) else acc) l acc <> NO_CLASS) as Keep.
  { induction l as [| [o1 s1] r IH]; intros acc Ha; cbn [fold_left]; auto.
    apply IH. destruct (overlaps o1 (c_size_s s1) i); auto. destruct acc, s1; cbn; congruence. }
  enough (forall acc, In (o, s) ls ->
    fold_left (fun acc '(o, s) => if overlaps o (c_size_s s) i then smerge acc (class_of_scalar s) else acc) ls acc <> NO_CLASS) by auto.
  clear Hin. intros acc Hin. revert acc Hin.
  induction ls as [| [o1 s1] r IH]; intros acc Hin; [destruct Hin |].
  cbn [fold_left]. destruct Hin as [H | H].
  - inversion H; subst. rewrite Hov. apply Keep. destruct acc, s; cbn; congruence.
  - apply IH; auto.
Qed.

(* the SysV classes of a well-formed struct of at most 16 bytes: one or two
   eightbytes, each INTEGER or SSE *)
Theorem sysv_small_struct_classes fs scls :
  wf_aty (AStruct fs) -> sysv_classify (AStruct fs) = Some scls ->
  (exists c0, scls = [c0] /\ c0 <> NO_CLASS /\ asize (AStruct fs) <= 8 /\ 0 < asize (AStruct fs)) \/
  (exists c0 c1, scls = [c0; c1] /\ c0 <> NO_CLASS /\ c1 <> NO_CLASS /\ 8 < asize (AStruct fs) <= 16).
Proof.
  intros [NE WF]. unfold sysv_classify. cbn [c_sizeof c_leaves asize].
  unfold struct_size. destruct (classify_fields_leaves fs 0 init_classes) as [_ Hsz]. rewrite Hsz.
  set (leaves := fst (c_struct_leaves fs 0)). set (e := snd (c_struct_leaves fs 0)).
  set (A := c_align_struct fs).
  pose proof (c_align_struct_pow2 fs) as PA. fold A in PA. pose proof (pow2a_pos _ PA) as HA.
  destruct (struct_leaves_last fs NE WF 0) as (ol & sl & Hl & Hle). fold leaves in Hl. fold e in Hle.
  destruct (struct_leaves_first fs NE WF) as (sf & Hf). fold leaves in Hf.
  assert (forall o s, In (o, s) leaves -> o + c_size_s s <= e) as LB.
  { intros o s Hin. destruct (struct_leaves_props fs 0 o s Hin) as (? & ? & ?). auto. }
  assert (1 <= c_size_s sl /\ 1 <= c_size_s sf) as [Sl Sf] by (split; [destruct sl | destruct sf]; cbv; discriminate).
  assert (16 mod A = 0 /\ 8 mod A = 0) as [M16 M8] by (destruct PA as [-> | [-> | [-> | ->]]]; split; reflexivity).
  destruct ((64 <? align_up e A) || unaligned leaves); [discriminate |].
  rewrite ceil8_gt. change (8 * 2) with 16. rewrite (align_up_gt A e 16 HA M16).
  destruct (16 <? e) eqn:E16; [discriminate |]. apply N.ltb_ge in E16.
  intros H. inversion H; subst scls; clear H.
  assert (eightbyte_class leaves 0 <> NO_CLASS) as C0.
  { apply (eightbyte_class_some leaves 0 0 sf Hf). unfold overlaps. cbn. apply N.ltb_lt. lia. }
  destruct (8 <? e) eqn:E8.
  - apply N.ltb_lt in E8. right.
    assert ((align_up e A + 7) / 8 = 2) as ->.
    { assert ((1 <? (align_up e A + 7) / 8) = true) as H1
        by (rewrite ceil8_gt; change (8 * 1) with 8; rewrite (align_up_gt A e 8 HA M8); apply N.ltb_lt; lia).
      assert ((2 <? (align_up e A + 7) / 8) = false) as H2
        by (rewrite ceil8_gt; change (8 * 2) with 16; rewrite (align_up_gt A e 16 HA M16); apply N.ltb_ge; lia).
      apply N.ltb_lt in H1. apply N.ltb_ge in H2. lia. }
    cbn [N.to_nat Pos.to_nat Pos.iter_op Nat.add nseq map].
    do 2 eexists. split; [reflexivity |]. split; [exact C0 |]. split; [| lia].
    apply (eightbyte_class_some leaves 1 ol sl Hl). unfold overlaps.
    apply Bool.andb_true_iff. rewrite !N.ltb_lt. lia.
  - apply N.ltb_ge in E8. left.
    assert (0 < e) by lia.
    assert ((align_up e A + 7) / 8 = 1) as ->.
    { assert ((0 <? (align_up e A + 7) / 8) = true) as H1.
      { rewrite ceil8_gt. apply N.ltb_lt.
        assert (e <= align_up e A); [| lia].
        rewrite align_up_alt by auto. destruct (round_up_props A e HA) as (? & ? & ?). auto. }
      assert ((1 <? (align_up e A + 7) / 8) = false) as H2
        by (rewrite ceil8_gt; change (8 * 1) with 8; rewrite (align_up_gt A e 8 HA M8); apply N.ltb_ge; lia).
      apply N.ltb_lt in H1. apply N.ltb_ge in H2. lia. }
    cbn [N.to_nat Pos.to_nat Pos.iter_op nseq map].
    eexists. split; [reflexivity |]. split; [exact C0 |]. lia.
Qed.

(* --------------------------------------------------- the words of a Cast *)
Definition covered (tys : list clty) : N := fold_right (fun t acc => clty_bytes t + acc) 0 tys.

(* bytes by which the last word of a Cast exceeds the data of its eightbyte:
   INTEGER words are rounded to a power of two (3->4, 5/6/7->8); an SSE word is
   f32 only for exactly 4 bytes, otherwise f64 *)
Definition rem_over (r : N) (c : sclass) : N :=
  match c with
  | INTEGER => if r <? 8 then next_power_of_two r - r else 0
  | SSE => if r =? 4 then 0 else 8 - r
  | NO_CLASS => 0
  end.

Definition words_spec (size : N) (scls : list sclass) (tys : list clty) : Prop :=
  map clty_is_float tys = map (sclass_eqb SSE) scls /\
  map fst (word_offsets 0 tys) = firstn (length scls) [0; 8] /\
  covered tys = size + rem_over (size - 8 * N.of_nat (length scls - 1)) (last scls NO_CLASS).

Lemma classes_match_inv cls scls : classes_match cls scls ->
  (forall c0, scls = [c0] -> c0 <> NO_CLASS ->
     exists m0, cls = [m0; NoClass; NoClass; NoClass; NoClass; NoClass; NoClass; NoClass] /\ to_sclass m0 = Some c0) /\
  (forall c0 c1, scls = [c0; c1] ->
     exists m0 m1, cls = [m0; m1; NoClass; NoClass; NoClass; NoClass; NoClass; NoClass]
                   /\ to_sclass m0 = Some c0 /\ to_sclass m1 = Some c1).
Proof.
  intros [L V].
  do 9 (destruct cls as [| ? cls]; cbn [length] in L; try lia).
  pose proof (V 0) as V0. pose proof (V 1) as V1. pose proof (V 2) as V2. pose proof (V 3) as V3.
  pose proof (V 4) as V4. pose proof (V 5) as V5. pose proof (V 6) as V6. pose proof (V 7) as V7.
  unfold view in *.
  change (N.to_nat 0) with 0%nat in *. change (N.to_nat 1) with 1%nat in *.
  change (N.to_nat 2) with 2%nat in *. change (N.to_nat 3) with 3%nat in *.
  change (N.to_nat 4) with 4%nat in *. change (N.to_nat 5) with 5%nat in *.
  change (N.to_nat 6) with 6%nat in *. change (N.to_nat 7) with 7%nat in *.
  cbn [nth] in V0, V1, V2, V3, V4, V5, V6, V7.
  assert (forall c, to_sclass c = Some NO_CLASS -> c = NoClass) as Inj by (intros []; cbn; congruence).
  split.
  - intros k0 -> _. cbn [nth] in *.
    apply Inj in V1, V2, V3, V4, V5, V6, V7. subst. eexists; split; [reflexivity | auto].
  - intros k0 k1 ->. cbn [nth] in *.
    apply Inj in V2, V3, V4, V5, V6, V7. subst. do 2 eexists; split; [reflexivity | auto].
Qed.

Theorem cast_words_cover fs scls :
  wf_aty (AStruct fs) -> sysv_classify (AStruct fs) = Some scls ->
  exists cls tys,
    classify_arg (AStruct fs) = Ok (Some cls) /\ classes_match cls scls /\
    split_aggregate (asize (AStruct fs)) cls = Ok tys /\
    words_spec (asize (AStruct fs)) scls tys.
Proof.
  intros WF HS.
  pose proof (classify_agrees (AStruct fs) WF) as CA. rewrite HS in CA.
  destruct CA as (cls & Hc & CM).
  exists cls.
  destruct (classes_match_inv cls scls CM) as [I1 I2].
  set (size := asize (AStruct fs)) in *.
  destruct (sysv_small_struct_classes fs scls WF HS) as [(c0 & -> & N0 & Hs & Hp) | (c0 & c1 & -> & N0 & N1 & Hs)].
  - destruct (I1 c0 eq_refl N0) as (m0 & -> & T0).
    fold size in Hs, Hp.
    assert (size = 1 \/ size = 2 \/ size = 3 \/ size = 4 \/ size = 5 \/ size = 6 \/ size = 7 \/ size = 8) as S by lia.
    destruct m0; cbn in T0; inversion T0; subst c0; try congruence;
      decompose [or] S; clear S;
      match goal with H : size = _ |- _ => rewrite H end;
      (eexists; split; [exact Hc |]; split; [exact CM |]; split; [vm_compute; reflexivity |];
       repeat split; vm_compute; reflexivity).
  - destruct (I2 c0 c1 eq_refl) as (m0 & m1 & -> & T0 & T1).
    fold size in Hs.
    assert (size = 9 \/ size = 10 \/ size = 11 \/ size = 12 \/ size = 13 \/ size = 14 \/ size = 15 \/ size = 16) as S by lia.
    destruct m0; cbn in T0; inversion T0; subst c0; try congruence;
      destruct m1; cbn in T1; inversion T1; subst c1; try congruence;
      decompose [or] S; clear S;
      match goal with H : size = _ |- _ => rewrite H end;
      (eexists; split; [exact Hc |]; split; [exact CM |]; split; [vm_compute; reflexivity |];
       repeat split; vm_compute; reflexivity).
Qed.

(* "the emitted words cover exactly the object" is false of the code as it is *)
Definition words_exact : Prop :=
  forall fs scls cls tys, wf_aty (AStruct fs) -> sysv_classify (AStruct fs) = Some scls ->
    classify_arg (AStruct fs) = Ok (Some cls) -> split_aggregate (asize (AStruct fs)) cls = Ok tys ->
    covered tys = asize (AStruct fs).

Lemma words_exact_refuted : ~ words_exact.
Proof.
  intros H.
  assert (wf_aty (AStruct [FA 3 (FS I8)])) as W.
  { split; [discriminate |]. cbn. split; [split; [lia | exact I] | exact I]. }
  assert (sysv_classify (AStruct [FA 3 (FS I8)]) = Some [INTEGER]) as E1 by (vm_compute; reflexivity).
  assert (classify_arg (AStruct [FA 3 (FS I8)])
          = Ok (Some [Int; NoClass; NoClass; NoClass; NoClass; NoClass; NoClass; NoClass])) as E2
    by (vm_compute; reflexivity).
  assert (split_aggregate (asize (AStruct [FA 3 (FS I8)]))
            [Int; NoClass; NoClass; NoClass; NoClass; NoClass; NoClass; NoClass] = Ok [CI32]) as E3
    by (vm_compute; reflexivity).
  pose proof (H _ _ _ _ W E1 E2 E3) as K.
  vm_compute in K. discriminate.
Qed.

(* ... and true exactly when the last eightbyte's data size is a power of two
   (INTEGER) resp. 4 or 8 bytes (SSE) *)
Lemma words_exact_except_known fs scls :
  wf_aty (AStruct fs) -> sysv_classify (AStruct fs) = Some scls ->
  rem_over (asize (AStruct fs) - 8 * N.of_nat (length scls - 1)) (last scls NO_CLASS) = 0 ->
  exists cls tys, classify_arg (AStruct fs) = Ok (Some cls) /\
    split_aggregate (asize (AStruct fs)) cls = Ok tys /\ covered tys = asize (AStruct fs).
Proof.
  intros WF HS HR. destruct (cast_words_cover fs scls WF HS) as (cls & tys & H1 & _ & H2 & (_ & _ & H3)).
  exists cls, tys. repeat split; auto. rewrite H3, HR. lia.
Qed.

Lemma layout_matches_c t : falign t = c_align_f t /\ fsize t = c_sizeof_f t /\ fstride t = c_sizeof_f t.
Proof. repeat split; [apply falign_c | apply fsize_c | rewrite fstride_fsize; apply fsize_c]. Qed.

Lemma struct_layout_matches_c fs :
  struct_size fs = snd (c_struct_leaves fs 0) /\
  forall cls, classify_fields (struct_offsets fs) fs 0 cls = run_leaves (fst (c_struct_leaves fs 0)) cls.
Proof.
  unfold struct_size, struct_offsets. split; [apply (classify_fields_leaves fs 0 init_classes) |].
  intros cls. apply (classify_fields_leaves fs 0 cls).
Qed.
