(* C11 — proofs about the switchable repaired model (Model/SwitchFixed.v):
   it equals the faithful model when no repair is present, and for every repair
   that is present the corresponding known class disappears from the theorems. *)
From Capy Require Import Common.Util Model.Switch Model.SwitchFixed Spec.SwitchSpec
  Proofs.SwitchDiscr Proofs.SwitchCheck Proofs.SwitchDispatch.

(* ------------------------------------------------------------ checker: agreement *)
Lemma has_sum_variant_fx_agree : forall f sh t,
  (fx3 f = false \/ nil_like_arm sh (AFull t) = false) ->
  has_sum_variant_fx f sh t = has_sum_variant sh t.
Proof.
  intros f sh t H. destruct sh as [uid vs|sub|e p|]; cbn [has_sum_variant_fx has_sum_variant]; auto.
  destruct (fx3 f) eqn:E; auto. destruct H as [H|H]; [discriminate|]. cbn [nil_like_arm] in H.
  destruct (vty_eqb t sub); cbn [orb]; auto. rewrite andb_true_r in H.
  destruct (vty_eqb t (TA ANil)) eqn:E2.
  - apply vty_eqb_eq in E2. subst t. reflexivity.
  - cbn [negb] in H. rewrite andb_true_r in H. symmetry. exact H.
Qed.

Lemma resolve_fx_agree : forall f s arms i,
  (fx1 f = false \/ wrapped s = false) ->
  (fx3 f = false \/ existsb (nil_like_arm (s_shape s)) arms = false) ->
  resolve_fx f s i arms = resolve s i arms.
Proof.
  intros f s arms. induction arms as [|a r IH]; intros i H1 H3; cbn [resolve_fx resolve]; auto.
  assert (H3r : fx3 f = false \/ existsb (nil_like_arm (s_shape s)) r = false).
  { destruct H3 as [H3|H3]; auto. cbn [existsb] in H3. apply orb_false_iff in H3. tauto. }
  assert (Ha : resolve_arm_fx f s i a = resolve_arm s i a).
  { destruct a as [n|t|]; cbn [resolve_arm_fx resolve_arm]; auto.
    - destruct (s_shape s); auto.
      replace (wrapped s && negb (fx1 f)) with (wrapped s); auto.
      destruct H1 as [-> | ->]; [rewrite andb_true_r | ]; reflexivity.
    - rewrite has_sum_variant_fx_agree; auto.
      destruct H3 as [H3|H3]; auto. cbn [existsb] in H3. apply orb_false_iff in H3. tauto. }
  rewrite Ha, IH; auto.
Qed.

Theorem check_fx_agree : forall f s arms dflt,
  (fx1 f = false \/ wrapped s = false) ->
  (fx3 f = false \/ existsb (nil_like_arm (s_shape s)) arms = false) ->
  check_switch_fx f s arms dflt = check_switch s arms dflt.
Proof.
  intros f s arms dflt H1 H3. unfold check_switch_fx, check_switch.
  rewrite (resolve_fx_agree f s arms 0 H1 H3).
  replace (wrapped s && negb (fx1 f)) with (wrapped s); auto.
  destruct H1 as [-> | ->]; [rewrite andb_true_r | ]; reflexivity.
Qed.

Theorem check_fx_no_fixes : forall s arms dflt,
  check_switch_fx no_fixes s arms dflt = check_switch s arms dflt.
Proof. intros. apply check_fx_agree; left; reflexivity. Qed.

(* K1 repaired: wrappers are looked through *)
Lemma resolve_fx_unwrap : forall f s arms i,
  fx1 f = true -> resolve_fx f s i arms = resolve_fx f (mkScrut [] (s_shape s)) i arms.
Proof.
  intros f s arms. induction arms as [|a r IH]; intros i H1; cbn [resolve_fx]; auto.
  rewrite IH by exact H1.
  replace (resolve_arm_fx f s i a) with (resolve_arm_fx f (mkScrut [] (s_shape s)) i a); auto.
  destruct a as [n|t|]; cbn [resolve_arm_fx s_shape]; auto.
  destruct (s_shape s); auto. rewrite H1. cbn [negb wrapped s_wraps andb]. rewrite !andb_false_r. reflexivity.
Qed.

Lemma check_fx_unwrap : forall f s arms dflt,
  fx1 f = true -> check_switch_fx f s arms dflt = check_switch_fx f (mkScrut [] (s_shape s)) arms dflt.
Proof.
  intros f s arms dflt H1. unfold check_switch_fx. cbn [s_shape].
  rewrite (resolve_fx_unwrap f s arms 0 H1). rewrite H1. cbn [negb wrapped s_wraps andb].
  rewrite !andb_false_r. reflexivity.
Qed.

(* K3 repaired: a nil-like arm is reported, not a panic *)
Lemma resolve_fx_unwrapped_ok : forall f sh arms i,
  exists ds, resolve_fx f (mkScrut [] sh) i arms = Ok ds /\
    (existsb (fun a => match a with AFull t => negb (has_sum_variant_fx f sh t) | _ => false end) arms = true ->
     ds <> []).
Proof.
  intros f sh arms. induction arms as [|a r IH]; intros i; cbn [resolve_fx existsb].
  - exists []. split; [reflexivity | discriminate].
  - destruct (IH (S i)) as (ds & Hds & Hne).
    assert (Ha : exists d, resolve_arm_fx f (mkScrut [] sh) i a = Ok d /\
              (match a with AFull t => negb (has_sum_variant_fx f sh t) | _ => false end = true -> d <> [])).
    { destruct a as [n|t|]; cbn [resolve_arm_fx s_shape wrapped s_wraps andb].
      - destruct sh; eexists; split; try reflexivity; discriminate.
      - destruct (has_sum_variant_fx f sh t); eexists; split; try reflexivity; cbn; discriminate.
      - eexists; split; [reflexivity | discriminate]. }
    destruct Ha as (d & Hd & Hdne). rewrite Hd. cbn [bind]. rewrite Hds. cbn [bind].
    exists (d ++ ds). split; [reflexivity|]. intros H. apply orb_true_iff in H. intros E.
    apply app_eq_nil in E. destruct E as [E1 E2]. destruct H as [H|H]; [apply Hdne in H | apply Hne in H]; contradiction.
Qed.

Lemma nil_like_not_variant_fx : forall f sh a,
  fx3 f = true -> nil_like_arm sh a = true ->
  match a with AFull t => negb (has_sum_variant_fx f sh t) | _ => false end = true.
Proof.
  intros f sh a H3 Hn. destruct sh as [uid vs|sub|e p|]; cbn [nil_like_arm] in Hn; try discriminate.
  destruct a as [n|t|]; try discriminate. cbn [has_sum_variant_fx]. rewrite H3.
  apply andb_true_iff in Hn. destruct Hn as [Hn Hs]. apply andb_true_iff in Hn. destruct Hn as [_ Hnil].
  apply negb_true_iff in Hs. apply negb_true_iff in Hnil. rewrite Hs, Hnil. reflexivity.
Qed.

Lemma check_fx_nil_like : forall f sh arms dflt,
  fx3 f = true -> existsb (nil_like_arm sh) arms = true ->
  exists ds, ds <> [] /\ check_switch_fx f (mkScrut [] sh) arms dflt = Ok ds.
Proof.
  intros f sh arms dflt H3 Hn.
  assert (Hsum : sh <> SNotSum).
  { intros ->. apply existsb_exists in Hn. destruct Hn as (a & _ & Ha). discriminate. }
  destruct (resolve_fx_unwrapped_ok f sh arms 0) as (ds & Hds & Hne).
  assert (Hds' : ds <> []).
  { apply Hne. apply existsb_exists in Hn. destruct Hn as (a & Hin & Ha).
    apply existsb_exists. exists a. split; auto. apply nil_like_not_variant_fx; auto. }
  exists ds. split; auto. unfold check_switch_fx. cbn [s_shape].
  destruct sh; try (exfalso; apply Hsum; reflexivity); rewrite Hds; cbn [bind];
    destruct ds; try contradiction; reflexivity.
Qed.

(* a nil-like arm names no member *)
Lemma nil_like_not_accepted : forall sh arms dflt,
  existsb (nil_like_arm sh) arms = true -> ~ accepted_spec sh arms dflt.
Proof.
  intros sh arms dflt Hn (js & HF & _). apply existsb_exists in Hn. destruct Hn as (a & Hin & Ha).
  assert (Hex : exists j, names sh a j).
  { clear - HF Hin. induction HF as [|a0 j0 arms js H0 HF IH]; [destruct Hin|].
    destruct Hin as [->|Hin]; eauto. }
  destruct Hex as (j & vt & Hnth & Hcase).
  destruct sh as [uid vs|sub|e p|]; cbn [nil_like_arm] in Ha; try discriminate.
  destruct a as [n|t|]; try discriminate.
  destruct Hcase as [E|(He & _)]; [|discriminate]. inversion E; subst vt.
  apply andb_true_iff in Ha. destruct Ha as [Ha Hs]. apply andb_true_iff in Ha. destruct Ha as [_ Hnil].
  apply negb_true_iff in Hs. apply negb_true_iff in Hnil.
  cbn [variants_of] in Hnth. destruct j as [|[|j]]; cbn in Hnth.
  - inversion Hnth; subst. rewrite vty_eqb_refl in Hs. discriminate.
  - inversion Hnth; subst. cbn in Hnil. discriminate.
  - destruct j; discriminate.
Qed.

(* -------------------------------------------------------- checker: theorems *)
Theorem check_fx_total_except_known : forall f s arms dflt,
  known_check_class_fx f s arms = None ->
  exists ds, check_switch_fx f s arms dflt = Ok ds.
Proof.
  intros f [ws sh] arms dflt Hk. unfold known_check_class_fx in Hk. cbn [s_shape] in Hk.
  destruct (wrapped (mkScrut ws sh) && is_sum_shape sh && negb (fx1 f)) eqn:Hw; [discriminate|].
  destruct (existsb (nil_like_arm sh) arms && negb (fx3 f)) eqn:Hn; [discriminate|]. clear Hk.
  destruct (is_sum_shape sh) eqn:Hsum.
  2: { destruct sh; try discriminate. unfold check_switch_fx. cbn [s_shape]. eexists; reflexivity. }
  rewrite andb_true_r in Hw.
  (* reduce to the unwrapped scrutinee *)
  assert (Hred : check_switch_fx f (mkScrut ws sh) arms dflt = check_switch_fx f (mkScrut [] sh) arms dflt).
  { destruct (fx1 f) eqn:H1.
    - apply (check_fx_unwrap f (mkScrut ws sh) arms dflt H1).
    - cbn [negb] in Hw. rewrite andb_true_r in Hw. destruct ws; [reflexivity | discriminate]. }
  rewrite Hred.
  destruct (existsb (nil_like_arm sh) arms) eqn:Hnl.
  - cbn [andb] in Hn. apply negb_false_iff in Hn.
    destruct (check_fx_nil_like f sh arms dflt Hn Hnl) as (ds & _ & E). eauto.
  - rewrite (check_fx_agree f (mkScrut [] sh) arms dflt); [|right; reflexivity | right; exact Hnl].
    apply check_total_except_known. unfold known_check_class. cbn [wrapped s_wraps andb s_shape].
    rewrite Hnl. reflexivity.
Qed.

(* with K1 and K3 repaired the FULL statement holds: the checker never panics *)
Theorem check_no_crash_fx_full : forall f, fx1 f = true -> fx3 f = true ->
  forall s arms dflt, exists ds, check_switch_fx f s arms dflt = Ok ds.
Proof.
  intros f H1 H3 s arms dflt. apply check_fx_total_except_known.
  unfold known_check_class_fx. rewrite H1, H3. cbn [negb]. rewrite !andb_false_r. reflexivity.
Qed.

(* with K1 repaired the acceptance theorem covers wrapped scrutinees as well *)
Theorem check_fx_accepts_iff : forall f s arms dflt,
  (fx1 f = true \/ wrapped s = false) ->
  wf_shape (s_shape s) ->
  (check_switch_fx f s arms dflt = Ok [] <-> accepted_spec (s_shape s) arms dflt).
Proof.
  intros f [ws sh] arms dflt H1 Hwf. cbn [s_shape] in *.
  assert (Hred : check_switch_fx f (mkScrut ws sh) arms dflt = check_switch_fx f (mkScrut [] sh) arms dflt).
  { destruct H1 as [H1|H1].
    - apply (check_fx_unwrap f (mkScrut ws sh) arms dflt H1).
    - destruct ws; [reflexivity | discriminate]. }
  rewrite Hred.
  destruct (fx3 f) eqn:H3; [destruct (existsb (nil_like_arm sh) arms) eqn:Hnl|].
  - destruct (check_fx_nil_like f sh arms dflt H3 Hnl) as (ds & Hne & E). rewrite E. split.
    + intros H. inversion H. contradiction.
    + intros H. exfalso. eapply nil_like_not_accepted; eauto.
  - rewrite (check_fx_agree f (mkScrut [] sh) arms dflt); [|right; reflexivity | right; exact Hnl].
    apply check_accepts_iff. exact Hwf.
  - rewrite (check_fx_agree f (mkScrut [] sh) arms dflt); [|right; reflexivity | left; exact H3].
    apply check_accepts_iff. exact Hwf.
Qed.

(* ------------------------------------------------------------ K2 *)
Lemma too_big_autos_nil : forall ks ds i,
  too_big_autos i ks ds = [] -> length ks = length ds ->
  Forall2 (fun k d => k = None -> (d <= 255)%N) ks ds.
Proof.
  induction ks as [|k kr IH]; intros [|d dr] i H Hl; try discriminate; constructor.
  - intros ->. cbn [too_big_autos] in H. destruct (N.ltb_spec 255 d); [discriminate | exact H0].
  - apply (IH dr (S i)); [|cbn in Hl; lia]. cbn [too_big_autos] in H.
    destruct k; auto. destruct (255 <? d)%N; [discriminate | exact H].
Qed.

Lemma Forall2_len : forall A B (R : A -> B -> Prop) l l', Forall2 R l l' -> length l = length l'.
Proof. induction 1; cbn; auto. Qed.

Lemma pass1_somes_sub : forall ms used ks u x,
  pass1 used ms = (ks, u) -> In x (somes ks) -> In x (somes ms).
Proof.
  induction ms as [|m r IH]; intros used ks u x Hp Hx; cbn [pass1] in Hp.
  - inversion Hp; subst. exact Hx.
  - destruct m as [d|].
    + destruct (memN d used).
      * destruct (pass1 used r) as [k' u'] eqn:E. inversion Hp; subst.
        cbn [somes flat_map app] in *. fold (somes r). fold (somes k') in Hx. right. eapply IH; eauto.
      * destruct (pass1 (d :: used) r) as [k' u'] eqn:E. inversion Hp; subst.
        cbn [somes flat_map app] in *. fold (somes r). fold (somes k') in Hx.
        destruct Hx as [->|Hx]; [left; reflexivity | right; eapply IH; eauto].
    + destruct (pass1 used r) as [k' u'] eqn:E. inversion Hp; subst.
      cbn [somes flat_map app] in *. fold (somes r). fold (somes k') in Hx. eapply IH; eauto.
Qed.

(* with K2 repaired: a declaration without a too-big report (and with u8 manual
   values, which expect_match enforces) has discriminants that all fit the tag *)
Theorem discr_fit_fx : forall f ms ds,
  fx2 f = true ->
  (forall x, In x (somes ms) -> (x < 256)%N) ->
  assign_discriminants_fx f ms = Ok (ds, []) ->
  Forall (fun d => (d < 256)%N) ds.
Proof.
  intros f ms ds H2 Hman H. unfold assign_discriminants_fx in H. rewrite H2 in H.
  destruct (pass1 [] ms) as [ks used] eqn:Hp.
  destruct (pass2 used 0%N ks) as [ds'| |] eqn:Hp2; cbn [bind] in H; try discriminate.
  inversion H as [[E1 E2]]. subst ds'.
  pose proof (pass2_keeps_manual _ _ _ _ Hp2) as Hkeep.
  assert (Hlen : length ks = length ds) by (eapply Forall2_len; eauto).
  pose proof (too_big_autos_nil ks ds 0 E2 Hlen) as Hauto.
  assert (Hks : forall x, In x (somes ks) -> (x < 256)%N).
  { intros x Hx. apply Hman. eapply pass1_somes_sub; eauto. }
  clear - Hkeep Hauto Hks. revert Hks Hauto.
  induction Hkeep as [|k d ks ds Hk HF IH]; intros Hks Hauto; constructor.
  - inversion Hauto; subst. destruct k as [x|].
    + rewrite (Hk x eq_refl). apply Hks. cbn. left. reflexivity.
    + specialize (H2 eq_refl). lia.
  - inversion Hauto; subst. apply IH; auto. intros x Hx. apply Hks.
    destruct k; cbn [somes flat_map app]; fold (somes ks); [right|]; auto.
Qed.

Theorem assign_fx_no_fixes : forall ms,
  assign_discriminants_fx no_fixes ms =
  (do ds <- assign_discriminants ms; Ok (ds, [])).
Proof.
  intros ms. unfold assign_discriminants_fx, assign_discriminants. cbn [fx2 no_fixes].
  destruct (pass1 [] ms). reflexivity.
Qed.

(* ------------------------------------------------------------ dispatch *)
Lemma member_has_sum_variant_fx : forall f sh t j, member sh t j -> has_sum_variant_fx f sh t = true.
Proof.
  intros f sh t j Hm. destruct sh as [uid vs|sub|e p|]; cbn [has_sum_variant_fx];
    try (eapply member_has_sum_variant; eauto).
  unfold member in Hm. cbn [variants_of] in Hm. destruct j as [|[|j]]; cbn in Hm.
  - inversion Hm; subst. rewrite vty_eqb_refl. reflexivity.
  - inversion Hm; subst. destruct (fx3 f); cbn; apply orb_true_r.
  - destruct j; discriminate.
Qed.

Lemma binds_ok_fx : forall f sh with_arg ts js,
  Forall2 (member sh) ts js ->
  (with_arg = true -> is_tagged sh = true -> fx5 f = true \/ Forall (fun t => repr_of t <> RPtr) ts) ->
  (is_tagged sh = false -> exists sub, sh = SOpt sub /\ is_non_zero sub = true /\ sub <> TA ANil) ->
  exists bs, binds_of_fx f sh with_arg ts = Ok bs /\
    forall i j, nth_error js i = Some j -> nth_error bs i = expected_bind sh with_arg j.
Proof.
  intros f sh with_arg ts js HF. induction HF as [|t j ts js Hm HF IH]; intros Hptr Hnull; cbn [binds_of_fx].
  - exists []. split; [reflexivity|]. intros [|i] j H; discriminate.
  - destruct IH as (bs & Hbs & Hnth).
    { intros Hw Ht. destruct (Hptr Hw Ht) as [H5|Hall]; [left; exact H5 | right; inversion Hall; auto]. }
    { exact Hnull. }
    assert (Hb : exists b, (if with_arg then unwrap_sum_ty_fx f sh t else Ok BNoArg) = Ok b /\
                           Some b = expected_bind sh with_arg j).
    { unfold expected_bind. pose proof Hm as Hm'. unfold member in Hm'. rewrite Hm'.
      destruct with_arg; cbn [negb]; [|eexists; split; reflexivity].
      unfold unwrap_sum_ty_fx. rewrite (member_has_sum_variant_fx f _ _ _ Hm). cbn [negb].
      destruct (is_tagged sh) eqn:Htag; cbn [negb].
      - destruct (repr_of t) eqn:Hr; try (eexists; split; reflexivity).
        destruct (Hptr eq_refl eq_refl) as [H5|Hall].
        + rewrite H5. eexists; split; reflexivity.
        + inversion Hall as [|? ? Hnp _]; subst. contradiction.
      - destruct (Hnull eq_refl) as (sub & -> & Hnz & Hsub).
        cbn [variants_of] in Hm'. destruct j as [|[|j]]; cbn in Hm'; inversion Hm'; try subst t.
        + rewrite vty_eqb_false by exact Hsub. rewrite Hnz.
          destruct sub as [[|u|i r]|v]; try (eexists; split; reflexivity). contradiction.
        + cbn. eexists; split; reflexivity.
        + destruct j; discriminate. }
    destruct Hb as (b & Hb & Hexp). rewrite Hb. cbn [bind]. rewrite Hbs. cbn [bind].
    exists (b :: bs). split; [reflexivity|].
    intros [|i] j' Hj'; cbn in Hj' |- *.
    + inversion Hj'; subst. exact Hexp.
    + apply Hnth. exact Hj'.
Qed.

(* the arms of a switch over a two-member sum type *)
Lemma js_cases2 : forall js : list nat,
  NoDup js -> (forall x, In x js -> x = 0 \/ x = 1) ->
  js = [] \/ js = [0] \/ js = [1] \/ js = [0; 1] \/ js = [1; 0].
Proof.
  intros js Hnd Hb.
  destruct js as [|a [|b [|c r]]]; auto.
  - destruct (Hb a (or_introl eq_refl)) as [->| ->]; auto.
  - inversion Hnd as [|? ? Hn1 _]; subst.
    destruct (Hb a (or_introl eq_refl)) as [->| ->];
    destruct (Hb b (or_intror (or_introl eq_refl))) as [->| ->]; auto;
      exfalso; apply Hn1; left; reflexivity.
  - exfalso. inversion Hnd as [|? ? Hn1 Hnd1]; subst. inversion Hnd1 as [|? ? Hn2 Hnd2]; subst.
    destruct (Hb a (or_introl eq_refl)) as [->| ->];
    destruct (Hb b (or_intror (or_introl eq_refl))) as [->| ->];
    destruct (Hb c (or_intror (or_intror (or_introl eq_refl)))) as [->| ->];
      try (apply Hn1; cbn; tauto); try (apply Hn2; cbn; tauto).
Qed.

Lemma members_of_js : forall sub ts js,
  Forall2 (fun t j => nth_error [sub; TA ANil] j = Some t) ts js ->
  ts = map (fun j => match j with 0 => sub | _ => TA ANil end) js /\
  (forall x, In x js -> x = 0 \/ x = 1).
Proof.
  intros sub ts js HF. induction HF as [|t j ts js Hm HF [IH1 IH2]].
  - split; [reflexivity | intros x []].
  - destruct j as [|[|j]]; cbn in Hm; try (destruct j; discriminate); inversion Hm; subst t; subst ts.
    + split; [reflexivity|]. intros x [<-|Hx]; auto.
    + split; [reflexivity|]. intros x [<-|Hx]; auto.
Qed.

Theorem dispatch_fx_exact : forall f sh arms dflt with_arg,
  wf_shape sh -> wf_tags sh ->
  accepted_spec sh arms dflt ->
  known_codegen_class_fx f sh arms dflt with_arg = None ->
  forall j, j < length (variants_of sh) ->
    dispatch_fx f sh arms dflt with_arg j = Ok (spec_outcome sh arms with_arg j).
Proof.
  intros f sh arms dflt with_arg Hwf Htags (js & HF & Hnd & Hcov) Hk j Hj.
  destruct (arm_vtys_ok sh arms js Hwf HF) as (ts & Hts & Hmem).
  destruct (nth_error (variants_of sh) j) as [tj|] eqn:Htj;
    [|apply nth_error_None in Htj; lia].
  assert (Hjs_mem : forall j', In j' js -> exists t', member sh t' j').
  { clear - HF. induction HF as [|a j0 arms js Hn HF IH]; intros j' Hj'; [destruct Hj'|].
    destruct Hj' as [->|Hj']; [eapply names_member; eauto | auto]. }
  unfold known_codegen_class_fx in Hk.
  unfold dispatch_fx, compile_switch_fx, spec_outcome. rewrite Hts. cbn [bind].
  rewrite (arm_for_index sh arms js j Hwf HF 0).
  destruct (is_tagged sh) eqn:Htag.
  - (* tagged union *)
    cbn [negb andb] in Hk. rewrite andb_true_r in Hk.
    assert (Hptr : with_arg = true -> is_tagged sh = true ->
                   fx5 f = true \/ Forall (fun t => repr_of t <> RPtr) ts).
    { intros -> _. cbn [andb] in Hk. destruct (fx5 f); [left; reflexivity | right].
      cbn [negb] in Hk. rewrite andb_true_r in Hk.
      destruct (existsb (ptr_payload_arm sh) arms) eqn:Hex; [discriminate|].
      clear - HF Hmem Hex Hwf. revert ts Hmem.
      induction HF as [|a j0 arms js Hn HF IH]; intros ts Hmem; inversion Hmem; subst; constructor.
      - cbn [existsb] in Hex. apply orb_false_iff in Hex. destruct Hex as [Ha _].
        eapply no_ptr_arm; eauto.
      - cbn [existsb] in Hex. apply orb_false_iff in Hex. destruct Hex as [_ Hr]. apply IH; auto. }
    rewrite (set_entries_ok sh ts js Hwf Htags Htag Hmem Hnd 0 []) by (intros ? ? []).
    cbn [rev app].
    assert (Hlt : Forall (fun e => (fst e < 256)%N) (combine (map (Dj sh) js) (seq 0 (length js)))).
    { apply Forall_forall. intros [d k] Hin. apply in_combine_l in Hin. apply in_map_iff in Hin.
      destruct Hin as (j' & <- & Hj'). destruct (Hjs_mem j' Hj') as [t' Hm'].
      apply (get_discrim_member _ _ _ Hwf Htags Htag Hm'). }
    pose proof (max_entry_le _ Hlt) as Hmax.
    assert (Hlt255 : (255 <? max_entry (combine (map (Dj sh) js) (seq 0 (length js))))%N = false)
      by (apply N.ltb_ge; exact Hmax).
    destruct (binds_ok_fx f sh with_arg ts js Hmem Hptr) as (bs & Hbs & Hnth); [rewrite Htag; discriminate|].
    unfold encode. rewrite Htj, Htag.
    destruct (get_discrim_member sh tj j Hwf Htags Htag Htj) as [G Hd]. rewrite G. cbn [bind].
    rewrite N.mod_small by exact Hd. rewrite Hlt255, Hbs. cbn [bind run_table_fx].
    rewrite (lookup_entry_combine sh js j tj Hwf Htags Htag Htj Hjs_mem 0).
    destruct (find_index (Nat.eqb j) js 0) as [i|] eqn:Hfi.
    + apply find_index_nth in Hfi. destruct Hfi as [_ Hi]. rewrite Nat.sub_0_r in Hi.
      rewrite (Hnth i j Hi). reflexivity.
    + apply find_index_none_notin in Hfi.
      destruct Hcov as [->|Hcov]; [reflexivity | exfalso; apply Hfi, Hcov, Hj].
  - (* nullable pointer *)
    cbn [negb andb] in Hk.
    pose proof Hwf as (Hns & Hndv & _).
    destruct sh as [uid vs|sub|e p|]; try discriminate; [|exfalso; apply Hns; reflexivity].
    cbn [is_tagged] in Htag. apply negb_false_iff in Htag.
    cbn [variants_of length] in Hcov, Hj, Hjs_mem.
    assert (Hsub : sub <> TA ANil).
    { cbn [variants_of] in Hndv. inversion Hndv as [|? ? Hnotin _]; subst. intros ->. apply Hnotin. left. reflexivity. }
    assert (Hnull : is_tagged (SOpt sub) = false -> exists s0, SOpt sub = SOpt s0 /\ is_non_zero s0 = true /\ s0 <> TA ANil).
    { intros _. exists sub. auto. }
    destruct (binds_ok_fx f (SOpt sub) with_arg ts js Hmem) as (bs & Hbs & Hnth);
      [cbn [is_tagged]; rewrite Htag; discriminate | exact Hnull |].
    unfold encode. rewrite Htj. cbn [is_tagged]. rewrite Htag. cbn [negb bind].
    unfold member in Hmem. cbn [variants_of] in Hmem, Htj.
    destruct (members_of_js sub ts js Hmem) as [Ets Hb01].
    destruct (js_cases2 js Hnd Hb01) as [E|[E|[E|[E|E]]]]; subst js; cbn [map] in Ets; subst ts.
    all: assert (Hcovd : dflt = true \/ dflt = false) by (destruct dflt; auto).
    all: rewrite Hbs.
    all: destruct j as [|[|j]]; cbn in Htj; inversion Htj; try subst tj; try (destruct j; discriminate).
    all: try rewrite (vty_eqb_false sub (TA ANil) Hsub).
    all: cbn [vty_eqb aty_eqb find_index Nat.eqb].
    all: destruct (fx4 f) eqn:H4; cbn [negb] in Hk; try rewrite andb_true_r in Hk.
    (* the old code: the default arm is impossible and both arms are present *)
    all: try (destruct dflt; [discriminate|];
              destruct Hcov as [Hc|Hcov]; [discriminate|];
              try (exfalso; assert (Hin0 : In 0 []) by (apply Hcov; lia); destruct Hin0);
              try (exfalso; assert (Hin1 : In 1 [0]) by (apply Hcov; lia); destruct Hin1 as [Hc|[]]; discriminate);
              try (exfalso; assert (Hin1 : In 0 [1]) by (apply Hcov; lia); destruct Hin1 as [Hc|[]]; discriminate)).
    all: destruct sub as [[|u|i0 r0]|v0]; try contradiction; cbn [length Nat.ltb Nat.leb Nat.eqb negb index_of_nil index_of_non_nil bind run_table_fx].
    all: try (destruct dflt; cbn [negb bind run_table_fx];
              [| destruct Hcov as [Hc|Hcov]; [discriminate|];
                 try (exfalso; assert (Hin0 : In 0 []) by (apply Hcov; lia); destruct Hin0);
                 try (exfalso; assert (Hin1 : In 1 [0]) by (apply Hcov; lia); destruct Hin1 as [Hc|[]]; discriminate);
                 try (exfalso; assert (Hin1 : In 0 [1]) by (apply Hcov; lia); destruct Hin1 as [Hc|[]]; discriminate)]).
    all: try reflexivity.
    all: try (rewrite (Hnth 0 0 eq_refl); reflexivity).
    all: try (rewrite (Hnth 0 1 eq_refl); reflexivity).
    all: try (rewrite (Hnth 1 0 eq_refl); reflexivity).
    all: try (rewrite (Hnth 1 1 eq_refl); reflexivity).
Qed.

(* with K4 and K5 repaired the FULL dispatch statement holds *)
Theorem dispatch_fx_full : forall f, fx4 f = true -> fx5 f = true ->
  forall sh arms dflt with_arg,
    wf_shape sh -> wf_tags sh -> accepted_spec sh arms dflt ->
    forall j, j < length (variants_of sh) ->
      dispatch_fx f sh arms dflt with_arg j = Ok (spec_outcome sh arms with_arg j).
Proof.
  intros f H4 H5 sh arms dflt with_arg Hwf Htags Hacc j Hj.
  apply dispatch_fx_exact; auto. unfold known_codegen_class_fx. rewrite H4, H5. cbn [negb].
  rewrite !andb_false_r. reflexivity.
Qed.

(* ------------------------------------------- no repair present: the faithful model *)
Lemma unwrap_fx_no_fixes : forall sh t, unwrap_sum_ty_fx no_fixes sh t = unwrap_sum_ty sh t.
Proof.
  intros sh t. unfold unwrap_sum_ty_fx, unwrap_sum_ty.
  rewrite (has_sum_variant_fx_agree no_fixes sh t) by (left; reflexivity). reflexivity.
Qed.

Lemma binds_fx_no_fixes : forall sh w ts, binds_of_fx no_fixes sh w ts = binds_of sh w ts.
Proof.
  intros sh w ts. induction ts as [|t r IH]; cbn [binds_of_fx binds_of]; auto.
  rewrite unwrap_fx_no_fixes, IH. reflexivity.
Qed.

Definition embed_table (t : table) : table_fx :=
  match t with
  | TTag es d bs => TTagF es d bs
  | TNull ni si bs => TNullF (Some ni) (Some si) bs
  end.

Lemma run_embed : forall t v, run_table_fx (embed_table t) v = run_table t v.
Proof. intros [es d bs|ni si bs] [tag|isnil]; cbn; auto. destruct isnil; reflexivity. Qed.

Lemma compile_fx_no_fixes : forall sh arms dflt w,
  compile_switch_fx no_fixes sh arms dflt w =
  (do t <- compile_switch sh arms dflt w; Ok (embed_table t)).
Proof.
  intros sh arms dflt w. unfold compile_switch_fx, compile_switch.
  destruct (arm_vtys sh arms) as [ts| |]; cbn [bind]; auto.
  rewrite binds_fx_no_fixes.
  destruct (is_tagged sh).
  - destruct (set_entries sh 0 ts []) as [es| |]; cbn [bind]; auto.
    destruct (255 <? max_entry es)%N; auto.
    destruct (binds_of sh w ts); reflexivity.
  - destruct sh; auto. cbn [fx4 no_fixes].
    destruct dflt; auto. destruct (negb (length ts =? 2)); auto.
    destruct (index_of_nil ts 0); auto. destruct (binds_of (SOpt sub) w ts); reflexivity.
Qed.

Theorem dispatch_fx_no_fixes : forall sh arms dflt w j,
  dispatch_fx no_fixes sh arms dflt w j = dispatch sh arms dflt w j.
Proof.
  intros. unfold dispatch_fx, dispatch. rewrite compile_fx_no_fixes.
  destruct (compile_switch sh arms dflt w) as [t| |]; cbn [bind]; auto.
  destruct (encode sh j); cbn [bind]; auto. apply run_embed.
Qed.
