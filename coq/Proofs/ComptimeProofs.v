(* C04 - proofs about Model/Comptime.v. *)
From Capy Require Import Common.Util Model.Comptime Proofs.ComptimeFloat.
Local Open Scope Z_scope.

(* ------------------------------------------------------------------ bytes *)

Lemma le_bytes_length n z : length (le_bytes n z) = n.
Proof. revert z. induction n; intros; cbn [le_bytes length]; [reflexivity|]. now rewrite IHn. Qed.

Lemma from_le_le_bytes n z : from_le (le_bytes n z) = z mod 256 ^ Z.of_nat n.
Proof.
  revert z. induction n as [|n IH]; intros z.
  - cbn [le_bytes from_le]. change (256 ^ Z.of_nat 0) with 1. now rewrite Z.mod_1_r.
  - cbn [le_bytes from_le]. rewrite IH.
    rewrite Nat2Z.inj_succ, Z.pow_succ_r by lia.
    rewrite Z.rem_mul_r; [reflexivity|lia|]. apply Z.pow_pos_nonneg; lia.
Qed.

Lemma firstn_le_bytes n z : firstn n (le_bytes n z) = le_bytes n z.
Proof. rewrite <- (le_bytes_length n z) at 1. apply firstn_all. Qed.

Lemma load_le n z w : 256 ^ Z.of_nat n = 2 ^ w -> 0 <= z < 2 ^ w ->
  from_le (firstn n (le_bytes n z)) = z.
Proof. intros Hp Hz. rewrite firstn_le_bytes, from_le_le_bytes, Hp. now apply Z.mod_small. Qed.

Lemma low_bits z u w : 0 <= z < 2 ^ w -> (z + 2 ^ w * u) mod 2 ^ w = z.
Proof. intros. rewrite Z.mul_comm, Z_mod_plus_full. now apply Z.mod_small. Qed.

(* ------------------------------------------------------------------ type predicates *)

Lemma get_final_ty_zs t : is_zero_sized t = true -> get_final_ty t = Ok FVoid.
Proof. destruct t; cbn [get_final_ty]; intros ->; reflexivity. Qed.

Lemma finalize_int_cases w f : finalize_int w = Ok f -> exists c, f = FNumber c /\ cl_is_float c = false.
Proof.
  unfold finalize_int.
  repeat match goal with |- context [if ?b then _ else _] => destruct b end;
    intros H; inversion H; eauto.
Qed.

Lemma finalize_float_cases w f : finalize_float w = Ok f -> f = FNumber F32 \/ f = FNumber F64.
Proof.
  unfold finalize_float.
  repeat match goal with |- context [if ?b then _ else _] => destruct b end;
    intros H; inversion H; auto.
Qed.

Lemma final_void_zs t : get_final_ty t = Ok FVoid -> is_zero_sized t = true.
Proof.
  induction t; cbn [get_final_ty];
    match goal with |- context [if ?b then _ else _] => destruct b eqn:Hz end;
    try reflexivity; try discriminate; intros H; auto;
    try (apply finalize_int_cases in H; destruct H as (c & H & _); discriminate);
    try (apply finalize_float_cases in H; destruct H; discriminate).
  - cbn [is_zero_sized] in Hz. rewrite IHt in Hz by assumption. discriminate.
  - cbn [is_zero_sized] in Hz. rewrite IHt in Hz by assumption. discriminate.
Qed.

Lemma final_not_void_nzs t f : get_final_ty t = Ok f -> f <> FVoid -> is_zero_sized t = false.
Proof.
  intros H Hf. destruct (is_zero_sized t) eqn:Hz; [|reflexivity].
  rewrite get_final_ty_zs in H by assumption. congruence.
Qed.

Lemma final_number_not_agg t c : get_final_ty t = Ok (FNumber c) -> is_aggregate t = false.
Proof.
  induction t; cbn [get_final_ty];
    match goal with |- context [if ?b then _ else _] => destruct b eqn:Hz end;
    try discriminate; intros H; try reflexivity; try discriminate; auto.
Qed.

Lemma final_number_not_type_or t c : get_final_ty t = Ok (FNumber c) -> True.
Proof. trivial. Qed.

Lemma is_pointer_contains t : is_pointer t = true -> contains_ptr t = true.
Proof.
  unfold is_pointer. induction t; cbn [absolute_ty contains_ptr]; try discriminate; auto.
Qed.

Lemma is_function_contains t : is_function t = true -> contains_ptr t = true.
Proof.
  unfold is_function. induction t; cbn [absolute_ty contains_ptr]; try discriminate; auto.
Qed.

(* a pointer-represented, pointer-free object is an aggregate (returned through memory) *)
Lemma final_pointer_noptr_agg t :
  get_final_ty t = Ok FPointer -> contains_ptr t = false -> is_aggregate t = true.
Proof.
  induction t; cbn [get_final_ty];
    match goal with |- context [if ?b then _ else _] => destruct b eqn:Hz end;
    try discriminate; intros H Hc; try reflexivity; try discriminate; auto;
    try (apply finalize_int_cases in H; destruct H as (c & H & _); discriminate);
    try (apply finalize_float_cases in H; destruct H; discriminate).
  - (* optional *)
    cbn [contains_ptr] in Hc. unfold is_aggregate. cbn [absolute_ty]. unfold is_non_zero.
    destruct (is_pointer t) eqn:Hp; [|reflexivity].
    apply is_pointer_contains in Hp. congruence.
Qed.

Lemma is_type_final t : is_type t = true -> t = TType.
Proof. destruct t; try discriminate; reflexivity. Qed.

(* ------------------------------------------------------------------ scalars *)

Definition float_ok (c : cl_ty) (z : Z) : Prop :=
  match c with F32 => is_nan32 z = false | _ => True end.

Lemma capture_number ids t c jr :
  is_type t = false -> get_final_ty t = Ok (FNumber c) ->
  capture ids t jr =
  Ok match c with
     | F32 => CFloat (promote (r_freg jr mod 2 ^ 32)) 32
     | F64 => CFloat (r_freg jr mod 2 ^ 64) 64
     | I8 => CInteger (r_reg jr mod 2 ^ 8) 8
     | I16 => CInteger (r_reg jr mod 2 ^ 16) 16
     | I32 => CInteger (r_reg jr mod 2 ^ 32) 32
     | I64 => CInteger (r_reg jr mod 2 ^ 64) 64
     | I128 => CData (le_bytes 16 (r_reg jr mod 2 ^ 128))
     end.
Proof.
  intros Ht Hf. unfold capture. rewrite Ht, Hf. cbn [bind]. destruct c; reflexivity.
Qed.

Lemma run_jit_number t c z g :
  get_final_ty t = Ok (FNumber c) ->
  run_jit t (VNum z) g =
  Ok (if cl_is_float c
      then {| r_reg := g_upper g; r_freg := z + 2 ^ cl_bits c * g_fupper g; r_buf := g_uninit g |}
      else {| r_reg := z + 2 ^ cl_bits c * g_upper g; r_freg := g_fupper g; r_buf := g_uninit g |}).
Proof.
  intros Hf. unfold run_jit, ret_passmode.
  rewrite (final_not_void_nzs t _ Hf) by discriminate.
  rewrite (final_number_not_agg t c Hf). rewrite Hf. cbn [bind into_real_type bits_of]. reflexivity.
Qed.

Lemma pow256_16 : 256 ^ Z.of_nat 16 = 2 ^ 128. Proof. reflexivity. Qed.
Lemma pow256_8 : 256 ^ Z.of_nat 8 = 2 ^ 64. Proof. reflexivity. Qed.
Lemma pow256_4 : 256 ^ Z.of_nat 4 = 2 ^ 32. Proof. reflexivity. Qed.
Lemma pow256_2 : 256 ^ Z.of_nat 2 = 2 ^ 16. Proof. reflexivity. Qed.
Lemma pow256_1 : 256 ^ Z.of_nat 1 = 2 ^ 8. Proof. reflexivity. Qed.

Lemma iib8 n : int_into_bytes n 8 = Ok (le_bytes 1 (n mod 2 ^ 8)). Proof. reflexivity. Qed.
Lemma iib16 n : int_into_bytes n 16 = Ok (le_bytes 2 (n mod 2 ^ 16)). Proof. reflexivity. Qed.
Lemma iib32 n : int_into_bytes n 32 = Ok (le_bytes 4 (n mod 2 ^ 32)). Proof. reflexivity. Qed.
Lemma iib64 n : int_into_bytes n 64 = Ok (le_bytes 8 (n mod 2 ^ 64)). Proof. reflexivity. Qed.
Lemma fib32 n : float_into_bytes n 32 = Ok (le_bytes 4 (demote n)). Proof. reflexivity. Qed.
Lemma fib64 n : float_into_bytes n 64 = Ok (le_bytes 8 n). Proof. reflexivity. Qed.

(* every scalar-represented result: both re-materialisation paths reproduce the bit pattern *)
Theorem roundtrip_number ids tid t c z g :
  is_type t = false -> get_final_ty t = Ok (FNumber c) ->
  0 <= z < 2 ^ cl_bits c -> float_ok c z ->
  pipeline_local ids tid t (VNum z) g = Ok (ONum c z) /\
  pipeline_global ids tid t (VNum z) g = Ok (ONum c z).
Proof.
  intros Ht Hf Hz Hfl.
  unfold pipeline_local, pipeline_global.
  rewrite (run_jit_number t c z g Hf). cbn [bind].
  rewrite (capture_number ids t c _ Ht Hf). cbn [bind].
  unfold materialise_local, materialise_global.
  rewrite (final_not_void_nzs t _ Hf) by discriminate. rewrite Hf. cbn [bind].
  destruct c; cbn [cl_is_float cl_bits r_reg r_freg into_real_type into_number_type is_pointer_type
                   orb into_bytes bind cl_bytes float_ok] in *;
    rewrite low_bits by assumption.
  - (* I8 *) rewrite iib8. cbn [bind]. rewrite Z.mod_small by assumption.
    rewrite (load_le 1 z 8 pow256_1) by assumption. auto.
  - (* I16 *) rewrite iib16. cbn [bind]. rewrite Z.mod_small by assumption.
    rewrite (load_le 2 z 16 pow256_2) by assumption. auto.
  - (* I32 *) rewrite iib32. cbn [bind]. rewrite Z.mod_small by assumption.
    rewrite (load_le 4 z 32 pow256_4) by assumption. auto.
  - (* I64 *) rewrite iib64. cbn [bind]. rewrite Z.mod_small by assumption.
    rewrite (load_le 8 z 64 pow256_8) by assumption. auto.
  - (* I128: Data *)
    rewrite (load_le 16 z 128 pow256_16) by assumption. auto.
  - (* F32 via f64 *) rewrite fib32. change (32 =? 32) with true. cbv iota. cbn [bind].
    rewrite demote_promote by assumption.
    rewrite (load_le 4 z 32 pow256_4) by assumption. auto.
  - (* F64 *) rewrite fib64. change (64 =? 32) with false. change (64 =? 64) with true. cbv iota. cbn [bind].
    rewrite (load_le 8 z 64 pow256_8) by assumption. auto.
Qed.

(* the scalar source types *)
Definition scalar_kind (t : ty) : option cl_ty :=
  match absolute_ty t with
  | TInt _ w => match finalize_int w with Ok (FNumber c) => Some c | _ => None end
  | TFloat w => match finalize_float w with Ok (FNumber c) => Some c | _ => None end
  | TBool | TChar => Some I8
  | _ => None
  end.

Lemma scalar_kind_final t c : scalar_kind t = Some c ->
  get_final_ty t = Ok (FNumber c) /\ is_type t = false.
Proof.
  unfold scalar_kind. induction t; cbn [absolute_ty]; try discriminate.
  - cbn [get_final_ty is_zero_sized is_type]. destruct (finalize_int w) as [[c'| |]| |]; try discriminate.
    intros H; inversion H; subst; auto.
  - cbn [get_final_ty is_zero_sized is_type]. destruct (finalize_float w) as [[c'| |]| |]; try discriminate.
    intros H; inversion H; subst; auto.
  - intros H; inversion H; subst; auto.
  - intros H; inversion H; subst; auto.
  - intros H. destruct (IHt H) as (Hf & _). split; [|reflexivity].
    cbn [get_final_ty is_zero_sized]. rewrite (final_not_void_nzs t _ Hf) by discriminate. exact Hf.
  - intros H. destruct (IHt H) as (Hf & _). split; [|reflexivity].
    cbn [get_final_ty is_zero_sized]. rewrite (final_not_void_nzs t _ Hf) by discriminate. exact Hf.
Qed.

Theorem roundtrip_scalar ids tid t c z g :
  scalar_kind t = Some c -> 0 <= z < 2 ^ cl_bits c -> float_ok c z ->
  pipeline_local ids tid t (VNum z) g = Ok (ONum c z) /\
  pipeline_global ids tid t (VNum z) g = Ok (ONum c z).
Proof.
  intros Hk Hz Hfl. destruct (scalar_kind_final t c Hk) as (Hf & Ht).
  now apply roundtrip_number.
Qed.

(* signed reading of a pattern is preserved as well (corollary for signed integer types) *)
Definition to_signed (w z : Z) : Z := if z <? 2 ^ (w - 1) then z else z - 2 ^ w.

Corollary roundtrip_scalar_signed ids tid t c z g o :
  scalar_kind t = Some c -> 0 <= z < 2 ^ cl_bits c -> float_ok c z ->
  pipeline_local ids tid t (VNum z) g = Ok o ->
  exists z', o = ONum c z' /\ to_signed (cl_bits c) z' = to_signed (cl_bits c) z.
Proof.
  intros Hk Hz Hfl Hp. destruct (roundtrip_scalar ids tid t c z g Hk Hz Hfl) as (H1 & _).
  rewrite H1 in Hp. inversion Hp; subst. eauto.
Qed.

(* ------------------------------------------------------------------ type values *)

Theorem roundtrip_type ids tid id t' g :
  0 <= id < 2 ^ 32 -> lookup_id id ids = Some t' ->
  pipeline_local ids tid TType (VNum id) g = Ok (ONum I32 (tid t' mod 2 ^ 32)).
Proof.
  intros Hid Hl. unfold pipeline_local.
  rewrite (run_jit_number TType I32 id g eq_refl). cbn [bind cl_is_float].
  unfold capture. cbn [is_type r_reg cl_bits]. rewrite low_bits by assumption. rewrite Hl.
  cbn [bind]. reflexivity.
Qed.

Theorem type_unknown_id_crashes ids tid id g :
  0 <= id < 2 ^ 32 -> lookup_id id ids = None ->
  pipeline_local ids tid TType (VNum id) g = Crash site_meta_tys_index.
Proof.
  intros Hid Hl. unfold pipeline_local.
  rewrite (run_jit_number TType I32 id g eq_refl). cbn [bind cl_is_float].
  unfold capture. cbn [is_type r_reg cl_bits]. rewrite low_bits by assumption. rewrite Hl.
  reflexivity.
Qed.

(* ------------------------------------------------------------------ data objects *)

Definition layout_ok (t : ty) : Prop := is_pow2 (align_of t) = true.

Theorem roundtrip_data ids tid t b g :
  get_final_ty t = Ok FPointer -> contains_ptr t = false -> layout_ok t ->
  length b = N.to_nat (size_of t) ->
  pipeline_local ids tid t (VAgg b) g = Ok (OAddr b) /\
  pipeline_global ids tid t (VAgg b) g = Ok (OAddr b) /\
  observe_runtime t (VAgg b) = Ok (OAddr b).
Proof.
  intros Hf Hc Hl Hb.
  pose proof (final_pointer_noptr_agg t Hf Hc) as Hagg.
  pose proof (final_not_void_nzs t _ Hf ltac:(discriminate)) as Hz.
  assert (Hty : is_type t = false) by (destruct t; try reflexivity; discriminate Hf).
  unfold pipeline_local, pipeline_global, run_jit, ret_passmode, observe_runtime.
  rewrite Hz, Hagg, Hf. cbn [bind bytes_of].
  unfold capture. rewrite Hty, Hf. cbn [bind r_buf]. unfold layout_ok in Hl. rewrite Hl. cbn [bind].
  unfold materialise_local, materialise_global. rewrite Hz, Hf.
  cbn [bind is_pointer_type orb into_bytes]. auto.
Qed.

(* zero-sized results *)
Theorem roundtrip_void ids tid t v g :
  is_zero_sized t = true ->
  pipeline_local ids tid t v g = Ok ONone /\ pipeline_global ids tid t v g = Ok ONone /\
  observe_runtime t v = Ok ONone.
Proof.
  intros Hz. pose proof (get_final_ty_zs t Hz) as Hf.
  assert (Hty : is_type t = false) by (destruct t; try reflexivity; discriminate Hz).
  unfold pipeline_local, pipeline_global, run_jit, ret_passmode, observe_runtime.
  rewrite Hz, Hf. cbn [bind]. unfold capture. rewrite Hty, Hf. cbn [bind].
  unfold materialise_local, materialise_global. rewrite Hz, Hf. cbn [bind]. auto.
Qed.

(* everything that holds no address: the built program observes what run-time code observes *)
Definition value_float_ok (t : ty) (v : value) : Prop :=
  match get_final_ty t, v with
  | Ok (FNumber F32), VNum z => is_nan32 z = false
  | _, _ => True
  end.

Theorem roundtrip_no_ptr ids tid t v g :
  contains_ptr t = false -> is_type t = false -> layout_ok t ->
  value_ok t v -> value_float_ok t v ->
  pipeline_local ids tid t v g = observe_runtime t v /\
  pipeline_global ids tid t v g = observe_runtime t v.
Proof.
  intros Hc Hty Hl Hv Hfl. unfold value_ok in Hv. unfold value_float_ok in Hfl.
  destruct (get_final_ty t) as [f| |] eqn:Hf; try contradiction.
  destruct f as [c| |].
  - destruct Hv as (z & -> & Hz).
    assert (Hfo : float_ok c z) by (destruct c; cbn [float_ok]; auto).
    destruct (roundtrip_number ids tid t c z g Hty Hf Hz Hfo) as (H1 & H2).
    unfold observe_runtime. rewrite Hf. cbn [bind bits_of]. rewrite H1, H2. auto.
  - rewrite (final_pointer_noptr_agg t Hf Hc) in Hv. destruct Hv as (b & -> & Hb).
    destruct (roundtrip_data ids tid t b g Hf Hc Hl Hb) as (H1 & H2 & H3).
    rewrite H1, H2, H3. auto.
  - destruct (roundtrip_void ids tid t v g (final_void_zs t Hf)) as (H1 & H2 & H3).
    rewrite H1, H2, H3. auto.
Qed.

(* ------------------------------------------------------------------ the checker's guard *)

Definition guard_complete_full : Prop := forall t, guard t = true -> contains_ptr t = false.

Theorem guard_complete_full_refuted : ~ guard_complete_full.
Proof. intros H. specialize (H TStr eq_refl). discriminate H. Qed.

Lemma guard_distinct t : guard (TDistinct t) = guard t. Proof. reflexivity. Qed.
Lemma guard_variant t : guard (TVariant t) = guard t. Proof. reflexivity. Qed.
Lemma known_class_distinct t : known_class (TDistinct t) = known_class t. Proof. reflexivity. Qed.
Lemma known_class_variant t : known_class (TVariant t) = known_class t. Proof. reflexivity. Qed.

Theorem guard_complete_except_known t :
  guard t = true -> known_class t = None -> contains_ptr t = false.
Proof.
  induction t; intros Hg Hk; try reflexivity; try discriminate;
    unfold known_class in Hk; cbn [absolute_ty contains_ptr] in *.
  - destruct (negb (n =? 0)%N && contains_ptr t); [discriminate|reflexivity].
  - destruct (existsb contains_ptr ms); [discriminate|reflexivity].
  - destruct (existsb contains_ptr vs); [discriminate|reflexivity].
  - apply IHt; assumption.
  - destruct (contains_ptr t); [|reflexivity].
    destruct (is_pointer t || is_function t); discriminate.
  - destruct (contains_ptr t1 || contains_ptr t2); [discriminate|reflexivity].
  - apply IHt; assumption.
Qed.

(* the classifier is narrow: it only fires on types that do hold an address *)
Theorem known_class_sound t k : known_class t = Some k -> contains_ptr t = true.
Proof.
  induction t; unfold known_class; cbn [absolute_ty contains_ptr]; try discriminate; auto.
  - destruct (negb (n =? 0)%N && contains_ptr t); [reflexivity|discriminate].
  - destruct (existsb contains_ptr ms); [reflexivity|discriminate].
  - destruct (existsb contains_ptr vs); [reflexivity|discriminate].
  - destruct (contains_ptr t); [reflexivity|discriminate].
  - destruct (contains_ptr t1 || contains_ptr t2); [reflexivity|discriminate].
Qed.

(* full-strength round trip over everything the checker accepts, and its refutation *)
Definition roundtrip_accepted_full : Prop :=
  forall ids tid t v g, guard t = true -> is_type t = false -> layout_ok t ->
    value_ok t v -> value_float_ok t v ->
    pipeline_local ids tid t v g = observe_runtime t v.

Definition witness_garbage : garbage :=
  {| g_upper := 0; g_fupper := 0; g_uninit := [102; 28; 225; 143; 253; 85; 0; 0] |}.

Theorem roundtrip_accepted_full_refuted : ~ roundtrip_accepted_full.
Proof.
  intros H.
  specialize (H [] (fun _ => 0) TStr (VNum 4198400) witness_garbage eq_refl eq_refl eq_refl).
  assert (Hv : value_ok TStr (VNum 4198400)).
  { unfold value_ok. cbn. exists 4198400. split; [reflexivity|]. split; [lia|reflexivity]. }
  specialize (H Hv I). vm_compute in H. discriminate H.
Qed.

Theorem roundtrip_accepted_except_known ids tid t v g :
  guard t = true -> known_class t = None -> is_type t = false -> layout_ok t ->
  value_ok t v -> value_float_ok t v ->
  pipeline_local ids tid t v g = observe_runtime t v /\
  pipeline_global ids tid t v g = observe_runtime t v.
Proof.
  intros Hg Hk. apply roundtrip_no_ptr. now apply guard_complete_except_known.
Qed.

(* what happens to an accepted `str` (class KStr): the program gets the address of the
   uninitialised scratch buffer instead of the string's address *)
Theorem str_result_is_scratch_buffer ids tid addr g :
  pipeline_local ids tid TStr (VNum addr) g = Ok (OAddr (g_uninit g)).
Proof. reflexivity. Qed.

(* ------------------------------------------------------------------ side effects *)

Theorem lower_recorded_is_constant {B} tid results ctc t nl (body : B) r l :
  lookup_result ctc results = Some r ->
  lower_comptime tid results ctc t nl body = Ok l -> runs_body l = false.
Proof.
  intros Hl. unfold lower_comptime. rewrite Hl.
  destruct (materialise_local tid t nl r); cbn [bind]; intros H; inversion H. reflexivity.
Qed.

Lemma to_run_spec results l c :
  In c (to_run results l) <-> In c l /\ lookup_result c results = None.
Proof.
  unfold to_run. rewrite filter_In. split; intros (H1 & H2); split; auto;
    destruct (lookup_result c results); auto; discriminate.
Qed.

Lemma lookup_result_cons c k r m :
  lookup_result c ((k, r) :: m) = if (k =? c)%N then Some r else lookup_result c m.
Proof. reflexivity. Qed.

Lemma insert_all_keeps results new res' c r :
  insert_all results new = Ok res' -> lookup_result c results = Some r ->
  lookup_result c res' = Some r.
Proof.
  revert results. induction new as [|[k x] new IH]; intros results H Hl.
  - inversion H; subst. assumption.
  - cbn [insert_all] in H. destruct (lookup_result k results) eqn:Hk; [discriminate|].
    apply (IH _ H). rewrite lookup_result_cons.
    destruct (N.eqb_spec k c); [subst; congruence|assumption].
Qed.

Lemma insert_all_records results new res' c :
  insert_all results new = Ok res' -> In c (map fst new) -> lookup_result c res' <> None.
Proof.
  revert results. induction new as [|[k x] new IH]; intros results H Hin.
  - contradiction.
  - cbn [insert_all] in H. destruct (lookup_result k results) eqn:Hk; [discriminate|].
    cbn [map fst In] in Hin. destruct Hin as [->|Hin].
    + assert (Hh : lookup_result c ((c, x) :: results) = Some x)
        by (rewrite lookup_result_cons, N.eqb_refl; reflexivity).
      rewrite (insert_all_keeps _ _ _ _ _ H Hh). discriminate.
    + apply (IH _ H Hin).
Qed.

(* One evaluation round: the blocks that are run are exactly the requested blocks without a
   recorded result; afterwards every requested block has a result, so (a) a later round runs
   none of them again and (b) each of them lowers to a constant that contains no body code. *)
Theorem side_effects_once {B} tid results to_eval new res' :
  map fst new = to_run results to_eval ->
  insert_all results new = Ok res' ->
  to_run res' to_eval = [] /\
  (forall c, In c to_eval -> lookup_result c results <> None -> ~ In c (map fst new)) /\
  (forall c t nl (body : B) l, In c to_eval ->
     lower_comptime tid res' c t nl body = Ok l -> runs_body l = false).
Proof.
  intros Hn Hi.
  assert (Hall : forall c, In c to_eval -> lookup_result c res' <> None).
  { intros c Hc. destruct (lookup_result c results) eqn:Hl.
    - rewrite (insert_all_keeps _ _ _ _ _ Hi Hl). discriminate.
    - apply (insert_all_records _ _ _ _ Hi). rewrite Hn. apply to_run_spec. auto. }
  split; [|split].
  - destruct (to_run res' to_eval) as [|c rest] eqn:Hr; [reflexivity|].
    assert (Hin : In c (to_run res' to_eval)) by (rewrite Hr; left; reflexivity).
    apply to_run_spec in Hin. destruct Hin as (Hin & Hnone). exfalso. exact (Hall c Hin Hnone).
  - intros c Hc Hrec Hin. rewrite Hn in Hin. apply to_run_spec in Hin. tauto.
  - intros c t nl body l Hc Hlow.
    destruct (lookup_result c res') eqn:Hl; [|exfalso; exact (Hall c Hc Hl)].
    eapply lower_recorded_is_constant; eauto.
Qed.

(* a block that is requested twice in one round would be inserted twice: the Rust assert fires *)
Theorem duplicate_request_crashes results c r1 r2 rest :
  lookup_result c results = None ->
  insert_all results ((c, r1) :: (c, r2) :: rest) = Crash site_insert_twice.
Proof.
  intros H. cbn [insert_all]. rewrite H. rewrite lookup_result_cons, N.eqb_refl. reflexivity.
Qed.

(* ------------------------------------------------------------------ layout_ok is not vacuous *)

Fixpoint wf_ty (t : ty) : bool :=
  match t with
  | TInt _ w => existsb (N.eqb w) [0; 8; 16; 32; 64; 128; 255]%N
  | TFloat w => existsb (N.eqb w) [0; 32; 64]%N
  | TArray _ _ e => wf_ty e
  | TStruct ms => forallb wf_ty ms
  | TEnum vs => forallb wf_ty vs
  | TVariant s | TOptional s | TDistinct s | TPtr s | TSlice s => wf_ty s
  | TErrUnion e p => wf_ty e && wf_ty p
  | _ => true
  end.

Definition small_pow2 (n : N) : Prop := (n = 1 \/ n = 2 \/ n = 4 \/ n = 8)%N.

Lemma small_pow2_max a b : small_pow2 a -> small_pow2 b -> small_pow2 (N.max a b).
Proof. intros Ha Hb. destruct (N.max_dec a b) as [-> | ->]; assumption. Qed.

Lemma small_pow2_is a : small_pow2 a -> is_pow2 a = true.
Proof. intros [ -> | [ -> | [ -> | -> ] ] ]; reflexivity. Qed.

Lemma fold_max_small (f : ty -> N) (l : list ty) :
  Forall (fun m => small_pow2 (f m)) l -> forall acc, small_pow2 acc ->
  small_pow2 (fold_left (fun a m => N.max a (f m)) l acc).
Proof.
  induction 1 as [|m l Hm _ IH]; intros acc Ha; cbn [fold_left]; [assumption|].
  apply IH. now apply small_pow2_max.
Qed.

Lemma align_small : forall t, wf_ty t = true -> small_pow2 (align_of t).
Proof.
  fix IH 1. intros t Hw. destruct t; cbn [align_of wf_ty] in *;
    try (unfold small_pow2; tauto); try (apply IH; assumption).
  - (* TInt *)
    cbn [existsb] in Hw.
    repeat (apply orb_true_iff in Hw; destruct Hw as [Hw|Hw]); try discriminate;
      apply N.eqb_eq in Hw; subst; vm_compute; tauto.
  - (* TFloat *)
    cbn [existsb] in Hw.
    repeat (apply orb_true_iff in Hw; destruct Hw as [Hw|Hw]); try discriminate;
      apply N.eqb_eq in Hw; subst; vm_compute; tauto.
  - (* TStruct *)
    apply fold_max_small; [|unfold small_pow2; tauto].
    induction ms as [|m ms IHms]; constructor.
    + apply IH. cbn [forallb] in Hw. apply andb_true_iff in Hw. tauto.
    + apply IHms. cbn [forallb] in Hw. apply andb_true_iff in Hw. tauto.
  - (* TEnum *)
    apply fold_max_small; [|unfold small_pow2; tauto].
    induction vs as [|m vs IHvs]; constructor.
    + apply IH. cbn [forallb] in Hw. apply andb_true_iff in Hw. tauto.
    + apply IHvs. cbn [forallb] in Hw. apply andb_true_iff in Hw. tauto.
  - (* TErrUnion *)
    apply andb_true_iff in Hw. apply small_pow2_max; apply IH; tauto.
Qed.

(* types whose number widths are the ones the language has never hit the Invalid-layout panic *)
Theorem wf_layout_ok t : wf_ty t = true -> layout_ok t.
Proof. intros H. apply small_pow2_is, align_small, H. Qed.
