(* C12: Ty::max does not depend on the order of its operands, for ALL types outside
   [known_order] (placeholder pair Unknown/AlwaysJumps, reused distinct uid). *)
From Capy Require Import Common.Util Common.Ty.
From Capy Require Import Model.TyRel Model.ExpectMatch Spec.TyLaws Proofs.TyRelBasics.
Local Arguments N.eqb : simpl never.
Local Arguments N.leb : simpl never.
Local Arguments N.ltb : simpl never.
Local Arguments N.max : simpl never.
Local Arguments N.mul : simpl never.

Section WithFixes.
Variable fx : fixes.
Notation fit := (TyRel.fit fx).
Notation weak := (TyRel.weak fx).
Notation feq := (TyRel.feq fx).
Notation cast := (TyRel.cast fx).
Notation has_semantics_of := (TyRel.has_semantics_of fx).
Notation tmax := (TyRel.tmax fx).
Notation accepts := (TyLaws.accepts fx).
Notation known_weak_fit := (TyLaws.known_weak_fit fx).
Notation known_max := (TyLaws.known_max fx).
Notation max_accepts := (TyLaws.max_accepts fx).
Notation ntarget := (TyLaws.ntarget fx).

Lemma hs_distinct_neq u1 s1 u2 s2 : N.eqb u1 u2 = false ->
  has_semantics_of (Distinct u1 s1) (Distinct u2 s2) = false.
Proof.
  intros H. cbn [TyRel.has_semantics_of]. rewrite H. cbn [TyRel.fit ty_eqb]. rewrite H. reflexivity.
Qed.

Local Arguments ty_eqb : simpl never.
Local Arguments TyRel.fit : simpl never.
Local Arguments TyRel.has_semantics_of : simpl never.
Local Arguments is_zero_sized : simpl never.

Lemma max_order_lem : forall m a b, known_order a b = false -> tmax m a b = tmax m b a.
Proof.
  intros m. induction a using ty_ind'; intros b Hk;
    (match goal with |- tmax _ ?A _ = _ => destruct (ty_eqb A b) eqn:E end;
     [ apply ty_eqb_eq in E; subst b; reflexivity | ]);
    pose proof E as E'; rewrite ty_eqb_sym in E';
    destruct b; try (rewrite ty_eqb_refl in E; discriminate E); cbn [TyLaws.known_order] in Hk; rewrite E in Hk; try discriminate Hk;
    cbn [TyRel.tmax]; rewrite E, E'; cbn -[TyRel.tmax]; try reflexivity.
  all: repeat (first
     [ reflexivity
     | match goal with
       | |- context [match ?w with N0 => _ | Npos _ => _ end] => destruct w
       | |- context [match ?w with xH => _ | xO _ => _ | xI _ => _ end] => destruct w
       | |- context [N.eqb ?x ?y] => destruct (N.eqb_spec x y); subst; try congruence
       | |- context [N.ltb ?x ?y] => destruct (N.ltb_spec x y)
       | |- context [is_zero_sized ?x] => destruct (is_zero_sized x)
       | |- context [has_semantics_of ?x ?y] => destruct (has_semantics_of x y) eqn:?
       | |- context [fit ?x ?y] => destruct (fit x y)
       | |- context [match get_enum ?m ?e with Some _ => _ | None => _ end] => destruct (get_enum m e)
       end ]; cbn -[TyRel.tmax]).
  all: try solve [repeat f_equal; lia].
  all: try solve [rewrite N.max_comm; reflexivity].
  all: try solve [exfalso;
    match goal with H : has_semantics_of (Distinct _ _) (Distinct _ _) = true |- _ =>
      rewrite hs_distinct_neq in H; [discriminate H | first [exact Hk | rewrite N.eqb_sym; exact Hk]] end].
  - rewrite (IHa b Hk). reflexivity.
  - apply orb_false_iff in Hk as [K1 K2]. rewrite (IHa1 b1 K1), (IHa2 b2 K2). reflexivity.
Qed.

End WithFixes.
