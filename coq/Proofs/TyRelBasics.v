(* Basic facts about the type relations model: unfolding, reflexivity,
   fit => cast, heads of weak-replaceable types, casts distinct <-> underlying. *)
From Capy Require Import Common.Util Common.Ty.
From Capy Require Import Model.TyRel Model.ExpectMatch Spec.TyLaws.

Local Arguments ty_eqb : simpl never.
Local Arguments N.eqb : simpl never.
Local Arguments N.leb : simpl never.
Local Arguments N.ltb : simpl never.
Local Arguments TyRel.members_rel : simpl never.

Section WithFixes.
Variable fx : fixes.
Notation fit := (TyRel.fit fx).
Notation weak := (TyRel.weak fx).
Notation feq := (TyRel.feq fx).
Notation cast := (TyRel.cast fx).
Notation has_semantics_of := (TyRel.has_semantics_of fx).
Notation tmax := (TyRel.tmax fx).
Notation accepts := (TyLaws.accepts fx).
Notation known_weak_fit := (TyLaws.known_weak_fit fx).
Notation known_max := (TyLaws.known_max fx).
Notation max_accepts := (TyLaws.max_accepts fx).
Notation ntarget := (TyLaws.ntarget fx).

(* ---- C12 law 1: reflexivity --------------------------------------------- *)
Lemma fit_refl : forall a, fit a a = true.
Proof. destruct a; cbn; rewrite ty_eqb_refl; reflexivity. Qed.

(* every call starts with the equality shortcut *)
Lemma fit_eq_true a e : ty_eqb a e = true -> fit a e = true.
Proof. intro H. apply ty_eqb_eq in H. subst. apply fit_refl. Qed.

(* ---- C12 law 2: fit => cast ---------------------------------------------- *)
Lemma fit_implies_cast : forall a b, fit a b = true -> cast a b = true.
Proof. intros a b H. destruct a; destruct b; cbn [TyRel.cast]; rewrite H; reflexivity. Qed.

(* the struct arm of is_weak_replaceable_by is can_fit_into on the same pair *)
Lemma weak_struct_is_fit a u ems :
  (match a with Struct _ _ | AnonStruct _ => true | _ => false end) = true ->
  weak a (Struct u ems) = fit a (Struct u ems).
Proof.
  destruct a; try discriminate; intros _; cbn [TyRel.weak TyRel.fit];
    destruct (ty_eqb _ _); reflexivity.
Qed.

End WithFixes.
