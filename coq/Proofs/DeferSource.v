(* C03 — source-level statements: lowering + code generation + execution versus
   the name-based specification. *)
From Capy Require Import Common.Util Model.Defer Model.DeferFixed Spec.DeferSpec
  Proofs.DeferSim Proofs.DeferFixedProofs Proofs.DeferProofs Proofs.DeferResolve.

Fixpoint labels_ok (h : hstmt) : bool :=
  match h with
  | HPrint _ | HDefer _ => true
  | HBreak l | HContinue l | HTry _ l => is_some l
  | HBlock _ b => forallb labels_ok b
  | HLoop _ _ b => forallb labels_ok b
  | HIf a b => forallb labels_ok a && forallb labels_ok b
  end.

Lemma resolve_first_some E : E <> [] -> exists id, resolve_first E = Some id.
Proof.
  destruct E as [|k E']; [congruence|]. intros _. revert k.
  induction E' as [|k' r IH]; intros k; cbn; eauto.
Qed.

Definition LO (s : stmt) : Prop :=
  forall E h, E <> [] -> lower E s = (h, false) -> labels_ok h = true.

Lemma lower_list_ok ss : Forall LO ss -> forall E hs, E <> [] ->
  lower_list (lower E) ss = (hs, false) -> forallb labels_ok hs = true.
Proof.
  induction 1 as [|s r Hs Hr IH]; intros E hs HE Hc.
  - cbn in Hc. inversion Hc. reflexivity.
  - rewrite lower_list_cons in Hc. inversion Hc as [[Hh He]]. apply orb_false_iff in He. destruct He as [He1 He2].
    cbn [forallb]. apply andb_true_iff. split.
    + eapply Hs; eauto. destruct (lower E s); cbn in *; subst; reflexivity.
    + eapply IH; eauto. destruct (lower_list (lower E) r); cbn in *; subst; reflexivity.
Qed.

Lemma lower_labels_ok : forall s, LO s.
Proof.
  induction s using stmt_ind2; unfold LO; intros E h HE Hc; cbn [lower] in Hc.
  - inversion Hc; reflexivity.
  - inversion Hc; reflexivity.
  - destruct (resolve_last E l false true) as [t e] eqn:R. inversion Hc; subst.
    unfold resolve_last in R. destruct l as [n|].
    + destruct (find_named n E) as [[i b]|]; inversion R; reflexivity.
    + destruct (find_unnamed false E) as [i|]; inversion R; try reflexivity.
      destruct (resolve_first_some E HE) as [id ->]. reflexivity.
  - destruct (resolve_last E l true false) as [t e] eqn:R. inversion Hc; subst.
    unfold resolve_last in R. destruct l as [n|].
    + destruct (find_named n E) as [[i b]|]; inversion R; reflexivity.
    + destruct (find_unnamed true E) as [i|]; inversion R; reflexivity.
  - inversion Hc; subst. destruct (resolve_first_some E HE) as [id ->]. reflexivity.
  - inversion Hc; subst. destruct (resolve_first_some E HE) as [id ->]. reflexivity.
  - destruct (lower_list _ b) as [hb e] eqn:Lb. inversion Hc; subst. cbn.
    eapply (lower_list_ok b H (KBlock l (N.of_nat (length E)) :: E)); [discriminate|exact Lb].
  - destruct (lower_list _ b) as [hb e] eqn:Lb. inversion Hc; subst. cbn.
    eapply (lower_list_ok b H (KLoop l (N.of_nat (length E)) :: E)); [discriminate|exact Lb].
  - destruct (lower_list (lower E) a) as [ha e1] eqn:La.
    destruct (lower_list _ b) as [hb e2] eqn:Lb.
    inversion Hc as [[Hh He]]. apply orb_false_iff in He. destruct He; subst. cbn.
    apply andb_true_iff. split.
    + eapply (lower_list_ok a H E); [exact HE|exact La].
    + eapply (lower_list_ok b H0 (KBlock None (N.of_nat (length E)) :: E)); [discriminate|exact Lb].
Qed.

(* no panic site of either code generator is reachable on lowered programs *)
Section NoCrash.
  Variable comp : dstack -> hstmt -> result (list tstmt).
  Definition NC (h : hstmt) : Prop :=
    labels_ok h = true -> not_defer h -> forall st, exists code, comp st h = Ok code.

  Lemma compile_list_nc hs : Forall NC hs -> forallb labels_ok hs = true ->
    forall sid st pend, exists code df ne, compile_list comp sid st pend hs = Ok (code, df, ne).
  Proof.
    induction 1 as [|h r Hh Hr IH]; intros Hl sid st pend.
    - cbn. eauto.
    - cbn [forallb] in Hl. apply andb_true_iff in Hl. destruct Hl as [Hl1 Hl2].
      destruct (not_defer_dec h) as [[c ->]|Hnd].
      + rewrite compile_list_defer. apply IH; auto.
      + rewrite compile_list_cons by assumption.
        destruct (Hh Hl1 Hnd (mkFrame sid pend :: st)) as [c ->]. cbn [bind].
        destruct (is_jump_stmt h); eauto.
        destruct (IH Hl2 sid st pend) as (cr & df & ne & ->). cbn. eauto.
  Qed.
End NoCrash.

Lemma compile_nc : forall h, NC (fun s x => compile_stmt s x) h.
Proof.
  induction h using hstmt_ind2; unfold NC; intros Hl Hnd st; cbn [labels_ok] in Hl.
  - cbn. eauto.
  - exfalso. eapply Hnd. reflexivity.
  - destruct l; [cbn; eauto|discriminate].
  - destruct l; [cbn; eauto|discriminate].
  - destruct l; [destruct k; cbn; eauto|discriminate].
  - cbn [compile_stmt].
    destruct (compile_list_nc _ b H Hl sid st []) as (cd & df & ne & ->). cbn. eauto.
  - cbn [compile_stmt].
    destruct (compile_list_nc _ b H Hl None st []) as (cd & df & ne & ->). cbn. eauto.
  - apply andb_true_iff in Hl. destruct Hl as [Hl1 Hl2]. cbn [compile_stmt].
    destruct (compile_list_nc _ a H Hl1 None st []) as (cd & df & ne & ->). cbn [bind].
    destruct (compile_list_nc _ b H0 Hl2 None st []) as (cd' & df' & ne' & ->). cbn. eauto.
Qed.

Lemma compile_fx_nc : forall h, NC (fun s x => compile_stmt_fx s x) h.
Proof.
  induction h using hstmt_ind2; unfold NC; intros Hl Hnd st; cbn [labels_ok] in Hl.
  - cbn. eauto.
  - exfalso. eapply Hnd. reflexivity.
  - destruct l; [cbn; eauto|discriminate].
  - destruct l; [cbn; eauto|discriminate].
  - destruct l; [destruct k; cbn; eauto|discriminate].
  - cbn [compile_stmt_fx].
    destruct (compile_list_nc _ b H Hl sid st []) as (cd & df & ne & ->). cbn. eauto.
  - cbn [compile_stmt_fx].
    destruct (compile_list_nc _ b H Hl None (mkFrame sid [] :: st) []) as (cd & df & ne & ->). cbn. eauto.
  - apply andb_true_iff in Hl. destruct Hl as [Hl1 Hl2]. cbn [compile_stmt_fx].
    destruct (compile_list_nc _ a H Hl1 None st []) as (cd & df & ne & ->). cbn [bind].
    destruct (compile_list_nc _ b H0 Hl2 None st []) as (cd' & df' & ne' & ->). cbn. eauto.
Qed.

Lemma lower_fn_shape body : exists sid hb, fst (lower_fn body) = HBlock sid hb.
Proof.
  unfold lower_fn. cbn [lower]. destruct (lower_list _ body). cbn. eauto.
Qed.

Lemma lowered_compiles body : snd (lower_fn body) = false ->
  (exists code, compile_fn (fst (lower_fn body)) = Ok code) /\
  (exists code, compile_fn_fx (fst (lower_fn body)) = Ok code).
Proof.
  intros He.
  assert (Hl : labels_ok (fst (lower_fn body)) = true).
  { unfold lower_fn in *. cbn [lower] in *. destruct (lower_list _ body) as [hb e] eqn:Lb. cbn in *. subst e.
    apply (lower_list_ok body (proj2 (Forall_forall _ _) (fun s _ => lower_labels_ok s)) [KBlock None 0%N] hb);
      [discriminate|exact Lb]. }
  destruct (lower_fn_shape body) as (sid & hb & Es). rewrite Es in *.
  assert (Hnd : not_defer (HBlock sid hb)) by (intros c E; discriminate).
  split.
  - apply (compile_nc _ Hl Hnd []).
  - apply (compile_fx_nc _ Hl Hnd []).
Qed.

(* ---- the source-level theorems *)
Theorem source_fixed_full : forall body fuel o,
  snd (lower_fn body) = false -> model_fn_fx fuel body o = exec_fn fuel body o.
Proof.
  intros body fuel o He. unfold model_fn_fx.
  destruct (lowered_compiles body He) as [_ [code Hc]].
  pose proof (lower_fn_correct body fuel o He) as Hr.
  destruct (lower_fn body) as [h err]. cbn [fst snd] in *. subst err.
  rewrite Hc. cbn [bind]. rewrite <- Hr. apply compile_fn_fx_correct. exact Hc.
Qed.

Theorem source_except_known : forall body fuel o,
  snd (lower_fn body) = false -> known_class_free (fst (lower_fn body)) = true ->
  model_fn fuel body o = exec_fn fuel body o.
Proof.
  intros body fuel o He Hk. unfold model_fn.
  destruct (lowered_compiles body He) as [[code Hc] _].
  pose proof (lower_fn_correct body fuel o He) as Hr.
  destruct (lower_fn body) as [h err]. cbn [fst snd] in *. subst err.
  rewrite Hc. cbn [bind]. rewrite <- Hr. apply compile_fn_except_known; assumption.
Qed.

Definition source_full : Prop :=
  forall body fuel o, snd (lower_fn body) = false -> model_fn fuel body o = exec_fn fuel body o.

Theorem source_full_refuted : ~ source_full.
Proof.
  intros H. destruct w_k3_fails as (E & S & _ & M & _).
  specialize (H w_k3 5 [true] E). rewrite S, M in H. discriminate.
Qed.
