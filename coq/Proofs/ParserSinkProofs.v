(* C23 proofs, part 2: Sink::finish is lossless. *)
From Coq Require Import List Arith Bool Lia.
Import ListNotations.
From Capy Require Import Common.Util Model.ParserCore Model.Sink Spec.ParseSpec.

Definition frame_leaves (f : N * list stree) : list nat := flat_map leaves (rev (snd f)).
Definition stack_leaves (st : list (N * list stree)) : list nat := flat_map frame_leaves (rev st).
Definition all_leaves (s : sink) : list nat :=
  match s_done s with Some t => leaves t | None => stack_leaves (s_stack s) end.

(* invariant: the tokens placed so far are exactly tokens 0 .. idx-1, in order,
   and the remaining-token list is in step with idx *)
Definition SInv (kinds : list tk) (s : sink) : Prop :=
  all_leaves s = seq 0 (s_idx s) /\ s_rem s = skipn (s_idx s) kinds /\ s_idx s <= length kinds.

Lemma skipn_cons_S : forall {A} (l : list A) i x r, skipn i l = x :: r -> skipn (S i) l = r /\ i < length l.
Proof.
  induction l as [|a l IH]; intros i x r H.
  - destruct i; discriminate.
  - destruct i; simpl in *.
    + inversion H; subst. split; [reflexivity | lia].
    + destruct (IH i x r H). split; [assumption | lia].
Qed.

Lemma start_node_inv : forall kinds s k s', SInv kinds s -> start_node s k = Ok s' -> SInv kinds s'.
Proof.
  unfold SInv, start_node, all_leaves. intros kinds s k s' (A & B & C) H.
  destruct (s_done s); [discriminate|]. inversion H; subst; clear H. simpl.
  split; [|auto]. unfold stack_leaves in *. simpl. rewrite flat_map_app. simpl. rewrite app_nil_r. assumption.
Qed.

Lemma add_token_inv : forall kinds s s', SInv kinds s -> add_token s = Ok s' ->
  SInv kinds s' /\ s_idx s' = S (s_idx s) /\ exists k, s_rem s = k :: s_rem s'.
Proof.
  unfold SInv, add_token, all_leaves. intros kinds s s' (A & B & C) H.
  destruct (s_rem s) as [|k r] eqn:R; [discriminate|]. destruct (s_done s); [discriminate|].
  destruct (s_stack s) as [|[kd kids] st] eqn:ST; [discriminate|]. inversion H; subst; clear H. simpl.
  symmetry in B. destruct (skipn_cons_S _ _ _ _ B) as [R2 Hl].
  split; [|split; [reflexivity | exists k; reflexivity]].
  split; [|split; [auto | lia]].
  unfold stack_leaves in *. simpl in *. rewrite flat_map_app in *. simpl in *. rewrite app_nil_r in *.
  unfold frame_leaves in *. simpl in *. rewrite flat_map_app. simpl.
  change (0 :: seq 1 (s_idx s)) with (seq 0 (S (s_idx s))). rewrite seq_S. cbn [plus]. rewrite <- A.
  rewrite app_assoc. reflexivity.
Qed.

Lemma finish_node_inv : forall kinds s s', SInv kinds s -> finish_node s = Ok s' ->
  SInv kinds s' /\ s_rem s' = s_rem s.
Proof.
  unfold SInv, finish_node, all_leaves. intros kinds s s' (A & B & C) H.
  destruct (s_done s); [discriminate|].
  destruct (s_stack s) as [|[k kids] [|[k2 kids2] r]] eqn:ST; try discriminate; inversion H; subst; clear H; simpl.
  - split; [|reflexivity]. split; [|auto]. unfold stack_leaves, frame_leaves in A. simpl in A. rewrite app_nil_r in A. assumption.
  - split; [|reflexivity]. split; [|auto]. unfold stack_leaves in *. simpl in *.
    rewrite !flat_map_app in *. simpl in *. rewrite !app_nil_r in *.
    unfold frame_leaves in *. simpl in *. rewrite flat_map_app. simpl. rewrite app_nil_r.
    rewrite <- A. rewrite <- !app_assoc. reflexivity.
Qed.

Definition no_lead_trivia (l : list tk) : Prop := match l with k :: _ => trivia k = false | [] => True end.

(* what a trivia-skipping phase does: keeps the invariant, consumes only trivia *)
Definition skips (kinds : list tk) (s s' : sink) : Prop :=
  SInv kinds s' /\ count_nt (s_rem s') = count_nt (s_rem s).

Lemma count_nt_cons : forall k l, count_nt (k :: l) = (if trivia k then 0 else 1) + count_nt l.
Proof. intros. unfold count_nt. simpl. destruct (trivia k); reflexivity. Qed.

Lemma sk_loop_inv : forall kinds fuel s s', SInv kinds s -> sk_loop fuel s = Ok s' -> skips kinds s s'.
Proof.
  induction fuel as [|f IH]; intros s s' I H; [discriminate|]. cbn [sk_loop] in H.
  destruct (s_rem s) as [|k r] eqn:R.
  - inversion H; subst. split; [assumption | reflexivity].
  - destruct k.
    + destruct (add_token s) as [s1| |] eqn:A; cbn [bind] in H; try discriminate.
      destruct (add_token_inv _ _ _ I A) as (I1 & _ & k & Rk). rewrite R in Rk. inversion Rk; subst.
      destruct (IH _ _ I1 H) as [I2 C2]. split; [assumption|]. rewrite C2, R, count_nt_cons. reflexivity.
    + destruct (start_node s NODE_COMMENT) as [s1| |] eqn:A; cbn [bind] in H; try discriminate.
      pose proof (start_node_inv _ _ _ _ I A) as I1.
      assert (R1 : s_rem s1 = s_rem s).
      { unfold start_node in A. destruct (s_done s); [discriminate|]. inversion A; reflexivity. }
      destruct (add_token s1) as [s2| |] eqn:A2; cbn [bind] in H; try discriminate.
      destruct (add_token_inv _ _ _ I1 A2) as (I2 & _ & k & Rk). rewrite R1, R in Rk. inversion Rk; subst.
      assert (C2 : count_nt (s_rem s2) = count_nt (s_rem s)) by (rewrite R, count_nt_cons; reflexivity).
      destruct (s_rem s2) as [|[] ?] eqn:R2;
        try (destruct (finish_node s2) as [s3| |] eqn:A3; cbn [bind] in H; try discriminate;
             destruct (finish_node_inv _ _ _ I2 A3) as [I3 R3];
             destruct (IH _ _ I3 H) as [I4 C4]; split; [assumption|]; rewrite C4, R3, R2; assumption).
      destruct (IH _ _ I2 H) as [I4 C4]. split; [assumption|]. rewrite C4, R2. assumption.
    + destruct (add_token s) as [s1| |] eqn:A; cbn [bind] in H; try discriminate.
      destruct (add_token_inv _ _ _ I A) as (I1 & _ & k & Rk). rewrite R in Rk. inversion Rk; subst.
      destruct (finish_node s1) as [s2| |] eqn:A2; cbn [bind] in H; try discriminate.
      destruct (finish_node_inv _ _ _ I1 A2) as [I2 R2].
      destruct (IH _ _ I2 H) as [I3 C3]. split; [assumption|]. rewrite C3, R2, R, count_nt_cons. reflexivity.
    + inversion H; subst. split; [assumption | reflexivity].
Qed.

Lemma sk_rest_inv : forall kinds fuel s s', SInv kinds s -> sk_rest fuel s = Ok s' ->
  skips kinds s s' /\ no_lead_trivia (s_rem s').
Proof.
  induction fuel as [|f IH]; intros s s' I H; [discriminate|]. cbn [sk_rest] in H.
  destruct (s_rem s) as [|k r] eqn:R.
  - inversion H; subst. split; [split; [assumption | reflexivity]|]. rewrite R. exact Logic.I.
  - destruct (trivia k) eqn:T.
    + destruct (add_token s) as [s1| |] eqn:A; cbn [bind] in H; try discriminate.
      destruct (add_token_inv _ _ _ I A) as (I1 & _ & k' & Rk). rewrite R in Rk. inversion Rk; subst.
      destruct (IH _ _ I1 H) as [[I2 C2] N]. split; [|assumption]. split; [assumption|].
      rewrite C2, R, count_nt_cons, T. reflexivity.
    + inversion H; subst. split; [split; [assumption | reflexivity]|]. rewrite R. simpl. assumption.
Qed.

Lemma sk_inv : forall kinds s s', SInv kinds s -> sk s = Ok s' -> skips kinds s s' /\ no_lead_trivia (s_rem s').
Proof.
  unfold sk. intros kinds s s' I H.
  destruct (sk_loop (S (length (s_rem s))) s) as [s1| |] eqn:A; cbn [bind] in H; try discriminate.
  destruct (sk_loop_inv _ _ _ _ I A) as [I1 C1].
  destruct (sk_rest_inv _ _ _ _ I1 H) as [[I2 C2] N]. split; [|assumption]. split; [assumption | congruence].
Qed.

Definition is_add (e : event) : bool := match e with EAdd => true | _ => false end.

Lemma process_inv : forall kinds s e s', SInv kinds s -> process s e = Ok s' ->
  (is_add e = true -> no_lead_trivia (s_rem s)) ->
  SInv kinds s' /\ count_nt (s_rem s) = (if is_add e then 1 else 0) + count_nt (s_rem s') /\
  (is_add e = false -> s_rem s' = s_rem s).
Proof.
  intros kinds s e s' I H N. destruct e; cbn [process is_add] in *.
  - pose proof (start_node_inv _ _ _ _ I H).
    assert (R1 : s_rem s' = s_rem s).
    { unfold start_node in H. destruct (s_done s); [discriminate|]. inversion H; reflexivity. }
    rewrite R1. auto.
  - destruct (finish_node_inv _ _ _ I H) as [I1 R1]. rewrite R1. auto.
  - destruct (add_token_inv _ _ _ I H) as (I1 & _ & k & Rk). split; [assumption|]. split; [|discriminate].
    specialize (N eq_refl). rewrite Rk in *. simpl in N. rewrite count_nt_cons, N. reflexivity.
Qed.

Lemma count_add_cons : forall e l, count_add (e :: l) = (if is_add e then 1 else 0) + count_add l.
Proof. intros. unfold count_add. destruct e; reflexivity. Qed.

Lemma run_inv : forall kinds evs s s', SInv kinds s -> run evs s = Ok s' ->
  (match evs with e :: _ => is_add e = true -> no_lead_trivia (s_rem s) | [] => True end) ->
  last evs EAdd = EFinish ->
  SInv kinds s' /\ count_nt (s_rem s) = count_add evs + count_nt (s_rem s') /\ no_lead_trivia (s_rem s').
Proof.
  induction evs as [|cur rest IH]; intros s s' I H N L.
  - discriminate L.
  - cbn [run] in H. destruct rest as [|next rest'].
    + (* last event *) cbn [last] in L. subst cur.
      destruct (sk s) as [s1| |] eqn:A; cbn [bind] in H; try discriminate.
      destruct (sk_inv _ _ _ I A) as [[I1 C1] N1].
      destruct (process_inv _ _ _ _ I1 H ltac:(discriminate)) as (I2 & C2 & R2).
      specialize (R2 eq_refl). rewrite R2. rewrite count_add_cons. cbn [is_add count_add filter length].
      split; [assumption|]. split; [|assumption]. unfold count_add. simpl. lia.
    + destruct (process s cur) as [s1| |] eqn:A; cbn [bind] in H; try discriminate.
      destruct (process_inv _ _ _ _ I A N) as (I1 & C1 & R1).
      assert (L' : last (next :: rest') EAdd = EFinish) by exact L.
      destruct (is_finish next) eqn:F.
      * cbn [bind] in H.
        destruct (IH _ _ I1 H) as (I2 & C2 & N2);
          [destruct next; try discriminate F; intro X; discriminate X | exact L' |].
        split; [assumption|]. split; [|assumption]. rewrite count_add_cons. lia.
      * destruct (sk s1) as [s2| |] eqn:A2; cbn [bind] in H; try discriminate.
        destruct (sk_inv _ _ _ I1 A2) as [[I2 C2] N2].
        destruct (IH _ _ I2 H) as (I3 & C3 & N3); [intros _; exact N2 | exact L' |].
        split; [assumption|]. split; [|assumption]. rewrite count_add_cons. lia.
Qed.

(* sink_lossless: whenever Sink::finish returns, the tokens of the tree are
   tokens 0 .. j-1 in order for some j <= number of tokens (the tree text is a
   prefix of the input made of whole tokens), and j is the number of tokens --
   the tree text is exactly the input -- iff the event list carries one AddToken
   per non-trivia token. *)
Theorem sink_lossless : forall evs ts t, finish evs ts = Ok t ->
  exists j, leaves t = seq 0 j /\ j <= length ts /\
            (count_add evs = count_nt (map fst ts) -> j = length ts).
Proof.
  unfold finish. intros evs ts t H.
  destruct evs as [|[k| |] evs']; try discriminate.
  destruct (last (EStart k :: evs') EAdd) eqn:L; try discriminate.
  set (s0 := mkS (map fst ts) 0 [] None) in *.
  assert (I0 : SInv (map fst ts) s0). { unfold SInv, all_leaves, s0. simpl. split; [reflexivity|]. split; [reflexivity | lia]. }
  destruct (run (EStart k :: evs') s0) as [s| |] eqn:R; cbn [bind] in H; try discriminate.
  destruct (run_inv _ _ _ _ I0 R ltac:(discriminate) L) as ((A & B & C) & Cn & Nl).
  destruct (s_done s) as [t'|] eqn:D; [|discriminate]. destruct (s_stack s); [|discriminate]. inversion H; subst t'.
  unfold all_leaves in A. rewrite D in A.
  exists (s_idx s). rewrite map_length in C. split; [assumption|]. split; [assumption|].
  intro E. unfold s0 in Cn. cbn [s_rem] in Cn. rewrite <- E in Cn.
  assert (Z : count_nt (s_rem s) = 0).
  { revert Cn. generalize (count_add (EStart k :: evs')). generalize (count_nt (s_rem s)). intros; lia. }
  destruct (s_rem s) as [|k0 r] eqn:RR.
  - assert (LL : length (skipn (s_idx s) (map fst ts)) = 0) by (rewrite <- B; reflexivity).
    rewrite skipn_length, map_length in LL. clear -C LL. unfold token in *. lia.
  - simpl in Nl. rewrite count_nt_cons, Nl in Z. discriminate.
Qed.

(* a crash of add_token (site 6) is the only way the token cursor can be wrong:
   stated as the contrapositive used by the oracle: with MORE AddTokens than
   non-trivia tokens, finish cannot succeed. *)
Theorem sink_needs_enough_tokens : forall evs ts t, finish evs ts = Ok t ->
  count_add evs <= count_nt (map fst ts).
Proof.
  unfold finish. intros evs ts t H.
  destruct evs as [|[k| |] evs']; try discriminate.
  destruct (last (EStart k :: evs') EAdd) eqn:L; try discriminate.
  set (s0 := mkS (map fst ts) 0 [] None) in *.
  assert (I0 : SInv (map fst ts) s0). { unfold SInv, all_leaves, s0. simpl. split; [reflexivity|]. split; [reflexivity | lia]. }
  destruct (run (EStart k :: evs') s0) as [s| |] eqn:R; cbn [bind] in H; try discriminate.
  destruct (run_inv _ _ _ _ I0 R ltac:(discriminate) L) as (_ & Cn & _).
  unfold s0 in Cn. cbn [s_rem] in Cn. lia.
Qed.
