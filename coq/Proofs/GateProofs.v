(* C07 -- proofs about Model/Gate.v and Spec/GateSpec.v *)
From Capy Require Import Common.Util Model.Gate Spec.GateSpec.

(* ---------------------------------------------------------------------------------- *)
(* the checker decides the specification                                              *)
(* ---------------------------------------------------------------------------------- *)

Lemma cg_is_eq a b : cg_is a b = true <-> a = b.
Proof. destruct a, b; cbn; split; intro H; try reflexivity; try discriminate. Qed.

Theorem gate_ok_correct : forall o, obs_wf o -> (gate_ok o = true <-> GateOk o).
Proof.
  intros [e x u c ob] Hwf. unfold obs_wf in Hwf. cbn in Hwf.
  unfold gate_ok, gate_verdict, GateOk, built_iff_no_error, clean_is_safe_and_compiles,
    error_flags_unsafe_nothing_generated, errors_never_generate. cbn.
  destruct (N.eqb_spec e 0) as [He|He].
  - (* no errors *)
    subst e. assert (x = 0%N) by lia. subst x. cbn.
    destruct ob, u, c; cbn; split; intro H;
      try discriminate; try reflexivity;
      try (repeat split; intros; try reflexivity; try lia; try discriminate; fail);
      try (destruct H as (H1 & H2 & _); exfalso;
           first [ destruct (H2 eq_refl) as [? ?]; discriminate
                 | destruct H1 as [_ H1]; specialize (H1 eq_refl); discriminate ]).
  - (* errors *)
    assert (Hpos : (0 < e)%N) by lia.
    destruct (N.eqb_spec x 0) as [Hx|Hx].
    + subst x. destruct ob, u, c; cbn; split; intro H;
        try discriminate; try reflexivity;
        try (repeat split; intros; try reflexivity; try lia; try discriminate; fail);
        try (destruct H as (H1 & H2 & H3 & H4); exfalso;
             first [ specialize (H4 Hpos); discriminate
                   | destruct H1 as [H1 _]; specialize (H1 eq_refl); lia ]).
    + assert (Hxp : (0 < x)%N) by lia.
      destruct ob, u, c; cbn; split; intro H;
        try discriminate; try reflexivity;
        try (repeat split; intros; try reflexivity; try lia; try discriminate; fail);
        try (destruct H as (H1 & H2 & H3 & H4); exfalso;
             first [ specialize (H4 Hpos); discriminate
                   | destruct (H3 Hxp) as (? & ? & ?); discriminate
                   | destruct H1 as [H1 _]; specialize (H1 eq_refl); lia ]).
Qed.

(* ---------------------------------------------------------------------------------- *)
(* the gate as a decision table                                                       *)
(* ---------------------------------------------------------------------------------- *)

Theorem gate_object_iff : forall i,
  gate i = Ok Object <->
  g_errors i = false /\ any_unsafe i = false /\ g_mains i = 1%N /\ g_cg i = CgOk.
Proof.
  intros i. unfold gate.
  destruct (g_errors i), (any_unsafe i); cbn;
    try (split; [discriminate | intros (A & B & _); discriminate]).
  destruct (N.eqb_spec (g_mains i) 1) as [E|E]; cbn.
  - destruct (g_cg i); split; intro H; try discriminate; try (repeat split; auto; fail);
      destruct H as (_ & _ & _ & H); discriminate.
  - split; [discriminate | intros (_ & _ & A & _); contradiction].
Qed.

Theorem gate_errors_never_compile : forall i, g_errors i = true -> gate i = Ok NotCompiled.
Proof. intros i H. unfold gate. rewrite H. reflexivity. Qed.

Theorem gate_assert_iff : forall i,
  gate i = Crash site_assert <-> g_errors i = false /\ g_track i = true /\ g_found_unsafe i = true.
Proof.
  intros i. unfold gate, any_unsafe.
  destruct (g_errors i), (g_track i), (g_found_unsafe i); cbn;
    try (split; [discriminate | intros (A & B & C); discriminate]);
    try (split; [reflexivity | intros; reflexivity]); try (split; [|intros; reflexivity]; auto);
    destruct (negb (g_mains i =? 1)%N); try (split; [discriminate | intros (A & B & C); discriminate]);
    destruct (g_cg i); split; try discriminate; try (intros (A & B & C); discriminate);
    unfold site_cg_panic, site_assert; intro H; inversion H.
Qed.

Theorem gate_assert_dead_without_tracking : forall i,
  g_track i = false -> gate i <> Crash site_assert.
Proof.
  intros i H C. apply gate_assert_iff in C. destruct C as (_ & T & _). congruence.
Qed.

Definition out_cg (r : result outcome) : cg_obs :=
  match r with
  | Ok Object => CgProduced
  | Ok CodegenFailed => CgFailed
  | Crash s => if N.eqb s site_cg_panic then CgFailed else CgSkipped
  | _ => CgSkipped
  end.
Definition out_object (r : result outcome) : bool :=
  match r with Ok Object => true | _ => false end.

(* The model of the gate meets the specification PROVIDED the three facts about the rest of the
   compiler hold: (H1) an attributed error makes the tracking loop answer "unsafe" (this is
   [error_in_body_flags_unsafe] below when the traversal reaches the expression), (H2) without
   errors nothing is unsafe, (H3) without errors there is one main and code generation succeeds.
   H2 and H3 are invariants of the type checker and of Cranelift lowering that are NOT proved
   here; the check tests them on every input through the extracted [gate_ok]. *)
Theorem gate_meets_spec : forall i errs xerrs,
  (g_errors i = true <-> (0 < errs)%N) -> (xerrs <= errs)%N -> g_track i = true ->
  ((0 < xerrs)%N -> g_found_unsafe i = true) ->
  (errs = 0%N -> g_found_unsafe i = false) ->
  (errs = 0%N -> g_mains i = 1%N /\ g_cg i = CgOk) ->
  GateOk {| o_errors := errs; o_expr_errors := xerrs; o_unsafe := any_unsafe i;
            o_cg := out_cg (gate i); o_object := out_object (gate i) |}.
Proof.
  intros i errs xerrs He Hx Ht H1 H2 H3.
  unfold GateOk, built_iff_no_error, clean_is_safe_and_compiles,
    error_flags_unsafe_nothing_generated, errors_never_generate. cbn.
  destruct (N.eq_dec errs 0) as [E|E].
  - subst errs. destruct (H3 eq_refl) as [Hm Hc]. specialize (H2 eq_refl).
    assert (Hg : g_errors i = false).
    { destruct (g_errors i); auto. destruct He as [He _]. specialize (He eq_refl). lia. }
    assert (Hobj : gate i = Ok Object).
    { apply gate_object_iff. unfold any_unsafe. rewrite H2, Bool.andb_false_r. auto. }
    rewrite Hobj. cbn. unfold any_unsafe. rewrite H2, Bool.andb_false_r.
    repeat split; intros; auto; lia.
  - assert (Hg : g_errors i = true) by (apply He; lia).
    rewrite (gate_errors_never_compile i Hg). cbn.
    repeat split; intros; auto; try discriminate; try lia.
    unfold any_unsafe. rewrite Ht, (H1 H). reflexivity.
Qed.

(* ---------------------------------------------------------------------------------- *)
(* the traversal                                                                      *)
(* ---------------------------------------------------------------------------------- *)

(* sub-expression relation of the descent tree *)
Inductive Sub : node -> node -> Prop :=
| Sub_refl : forall n, Sub n n
| Sub_child : forall e c n, In c (nchildren n) -> Sub e c -> Sub e n.

Definition desc_list := fix go (l : list node) : list node :=
  match l with [] => [] | c :: r => desc c ++ go r end.

Lemma desc_unfold : forall i k t cs, desc (Node i k t cs) = Node i k t cs :: desc_list cs.
Proof. reflexivity. Qed.

Lemma desc_list_in : forall cs c e, In c cs -> In e (desc c) -> In e (desc_list cs).
Proof.
  induction cs as [|a r IH]; intros c e Hc He; cbn in *; [contradiction|].
  apply in_or_app. destruct Hc as [->|Hc]; [left; exact He | right; eapply IH; eauto].
Qed.

(* by induction over the tree (through the derivation of Sub): no size bound *)
Lemma sub_in_desc : forall e n, Sub e n -> In e (desc n).
Proof.
  intros e n H. induction H as [n | e c n Hc Hs IH].
  - destruct n. rewrite desc_unfold. left. reflexivity.
  - destruct n as [i k t cs]. rewrite desc_unfold. right. cbn in Hc.
    eapply desc_list_in; eauto.
Qed.

Definition is_err_node (w : world) (n : node) : Prop := is_expr n = true /\ err w (nid n) = true.

Definition HasErr (w : world) (st : stack) : Prop :=
  Exists (fun fr => Exists (is_err_node w) (snd fr)) st.

Lemma visit_err : forall w n ck, is_err_node w n -> visit w n ck = VStop (Ok Unsafe).
Proof.
  intros w n ck [He Hr]. unfold visit. unfold is_expr in He.
  destruct (nkind n); try discriminate; rewrite Hr; reflexivity.
Qed.

Lemma visit_stop_not_safe : forall w n ck r, visit w n ck = VStop r -> r <> Ok Safe.
Proof.
  intros w n ck r H. unfold visit in H.
  repeat match type of H with
         | (match ?x with _ => _ end) = _ => destruct x eqn:?
         | (if ?x then _ else _) = _ => destruct x eqn:?
         end; inversion H; subst; discriminate.
Qed.

Theorem run_with_error_not_safe : forall w fuel st ck,
  HasErr w st -> run fuel w st ck <> Ok Safe.
Proof.
  intros w fuel. induction fuel as [|f IH]; intros st ck H; cbn; [discriminate|].
  destruct st as [|[l items] rest].
  - inversion H.
  - destruct items as [|n ns].
    + apply IH. inversion H; subst; [cbn in *; inversion H1 | assumption].
    + destruct (visit w n ck) eqn:V.
      * eapply visit_stop_not_safe; eauto.
      * apply IH. unfold HasErr in *. inversion H as [? ? H1|? ? H1]; subst.
        -- cbn in H1. inversion H1 as [? ? Hn|? ? Hn]; subst.
           ++ rewrite (visit_err w n ck Hn) in V. discriminate.
           ++ apply Exists_cons_hd. exact Hn.
        -- apply Exists_cons_tl. exact H1.
      * apply IH. unfold HasErr in *. apply Exists_cons_tl.
        inversion H as [? ? H1|? ? H1]; subst.
        -- cbn in H1. inversion H1 as [? ? Hn|? ? Hn]; subst.
           ++ rewrite (visit_err w n ck Hn) in V. discriminate.
           ++ apply Exists_cons_hd. exact Hn.
        -- apply Exists_cons_tl. exact H1.
Qed.

(* An error attributed to ANY sub-expression of the tree handed to is_safe_to_compile
   makes the answer different from "safe" -- for every fuel, every world, every tree. *)
Theorem error_in_body_flags_unsafe : forall w fuel l root e,
  Sub e root -> is_expr e = true -> err w (nid e) = true ->
  is_safe fuel w l root <> Ok Safe.
Proof.
  intros w fuel l root e Hs He Hr. unfold is_safe. apply run_with_error_not_safe.
  apply Exists_cons_hd. cbn. apply Exists_exists. exists e. split.
  - unfold frame_items. rewrite <- in_rev. apply sub_in_desc. exact Hs.
  - split; assumption.
Qed.

Lemma loc_unsafe_with_error : forall w fuel l roots r e,
  In r roots -> Sub e r -> is_expr e = true -> err w (nid e) = true ->
  loc_unsafe fuel w l roots <> Ok false.
Proof.
  intros w fuel l roots. induction roots as [|a rest IH]; intros r e Hin Hs He Hr; [inversion Hin|].
  cbn. destruct (is_safe fuel w l a) as [[ | |d]|s|] eqn:S; try discriminate.
  destruct Hin as [->|Hin].
  - exfalso. eapply error_in_body_flags_unsafe; eauto.
  - eapply IH; eauto.
Qed.

(* the tracking loop: an error below a root of a finished, non-extern location makes
   any_were_unsafe_to_compile true (or the loop panics) -- it never yields false *)
Theorem track_flags_error : forall w fuel roots skip locs l r e,
  In l locs -> skip l = false -> In r (roots l) -> Sub e r ->
  is_expr e = true -> err w (nid e) = true ->
  track fuel w roots skip locs <> Ok false.
Proof.
  intros w fuel roots skip locs. induction locs as [|a rest IH]; intros l r e Hl Hs Hr Hsub He Herr;
    [inversion Hl|].
  cbn. destruct Hl as [->|Hl].
  - rewrite Hs.
    pose proof (loc_unsafe_with_error w fuel l (roots l) r e Hr Hsub He Herr) as N.
    destruct (loc_unsafe fuel w l (roots l)) as [u|s|]; try discriminate.
    destruct u; [|congruence].
    destruct (track fuel w roots skip rest) as [u'|s'|]; try discriminate.
  - specialize (IH l r e Hl Hs Hr Hsub He Herr).
    destruct (skip a); [exact IH|].
    destruct (loc_unsafe fuel w a (roots a)) as [u|s|]; try discriminate.
    destruct (track fuel w roots skip rest) as [u'|s'|]; try discriminate.
    destruct u'; [|congruence]. rewrite Bool.orb_true_r. discriminate.
Qed.

(* ---------------------------------------------------------------------------------- *)
(* "unsafe" is only ever answered at a marked node                                    *)
(* ---------------------------------------------------------------------------------- *)

Definition InWorld (w : world) (m : node) : Prop :=
  exists g b, (glob_body w g = Some b \/
               exists li, lam_of w g = Some li /\ l_body li = LBlock b) /\ In m (desc b).

Definition InStack (st : stack) (m : node) : Prop :=
  exists fr, In fr st /\ In m (snd fr).

Lemma visit_unsafe_marked : forall w n ck, visit w n ck = VStop (Ok Unsafe) -> marked w n = true.
Proof.
  intros w n ck H. unfold visit in H. unfold marked.
  destruct (nkind n) eqn:K.
  - destruct jump_without_label; [reflexivity | discriminate].
  - destruct (err w (nid n)); [reflexivity|]. cbn.
    destruct (nty n); try reflexivity; try discriminate.
    + destruct (lam_of w fn) as [li|]; [|discriminate].
      destruct (mem fn ck); [discriminate|]. destruct (negb (finished w fn)); [discriminate|].
      destruct (l_body li); try discriminate. destruct (l_has_ret li); [discriminate | reflexivity].
  - destruct (err w (nid n)); [reflexivity|]. cbn.
    destruct (nty n); try reflexivity; try discriminate.
    destruct (lam_of w fn) as [li|]; [|discriminate].
    destruct (mem fn ck); [discriminate|]. destruct (negb (finished w fn)); [discriminate|].
    destruct (l_body li); try discriminate. destruct (l_has_ret li); [discriminate | reflexivity].
  - destruct (err w (nid n)); [reflexivity|]. cbn.
    destruct (nty n); try reflexivity; try discriminate.
    + destruct (lam_of w fn) as [li|]; [|discriminate].
      destruct (mem fn ck); [discriminate|]. destruct (negb (finished w fn)); [discriminate|].
      destruct (l_body li); try discriminate. destruct (l_has_ret li); [discriminate | reflexivity].
    + destruct poly; [discriminate|]. destruct (mem g ck); [discriminate|].
      destruct (is_extern w g); [discriminate|]. destruct (naive_found w g); [|discriminate].
      destruct (glob_body w g); discriminate.
  - destruct (err w (nid n)); [reflexivity|]. cbn.
    destruct (nty n); try reflexivity; try discriminate.
    + destruct (lam_of w fn) as [li|]; [|discriminate].
      destruct (mem fn ck); [discriminate|]. destruct (negb (finished w fn)); [discriminate|].
      destruct (l_body li); try discriminate. destruct (l_has_ret li); [discriminate | reflexivity].
    + destruct poly; [discriminate|]. destruct (mem g ck); [discriminate|].
      destruct (is_extern w g); [discriminate|].
      destruct (defined w g); [|reflexivity].
      destruct (negb (finished w g)); [discriminate|]. destruct (glob_body w g); discriminate.
  - destruct (err w (nid n)); [reflexivity|]. cbn.
    destruct (nty n); try reflexivity; try discriminate.
    + destruct (lam_of w fn) as [li|]; [|discriminate].
      destruct (mem fn ck); [discriminate|]. destruct (negb (finished w fn)); [discriminate|].
      destruct (l_body li); try discriminate. destruct (l_has_ret li); [discriminate | reflexivity].
    + destruct callee_poly; discriminate.
  - destruct (err w (nid n)); [reflexivity|]. cbn.
    destruct (nty n); try reflexivity; try discriminate.
    destruct (lam_of w fn) as [li|]; [|discriminate].
    destruct (mem fn ck); [discriminate|]. destruct (negb (finished w fn)); [discriminate|].
    destruct (l_body li); try discriminate. destruct (l_has_ret li); [discriminate | reflexivity].
Qed.

Lemma visit_push_world : forall w n ck l items ck',
  visit w n ck = VPush l items ck' -> forall m, In m items -> InWorld w m.
Proof.
  intros w n ck l items ck' H m Hm. unfold visit in H.
  repeat match type of H with
         | (match ?x with _ => _ end) = _ => destruct x eqn:?
         | (if ?x then _ else _) = _ => destruct x eqn:?
         end; inversion H; subst; clear H;
    unfold frame_items in Hm; rewrite <- in_rev in Hm;
    unfold InWorld; do 2 eexists; (split; [| exact Hm]);
    first [ left; eassumption | right; eexists; split; eassumption ].
Qed.

Theorem run_unsafe_only_if_marked : forall w fuel st ck,
  run fuel w st ck = Ok Unsafe ->
  exists m, (InStack st m \/ InWorld w m) /\ marked w m = true.
Proof.
  intros w fuel. induction fuel as [|f IH]; intros st ck H; cbn in H; [discriminate|].
  destruct st as [|[l items] rest]; [discriminate|].
  destruct items as [|n ns].
  - destruct (IH _ _ H) as (m & [Hs|Hw] & Hm); exists m; split; auto.
    left. destruct Hs as (fr & Hf & Hi). exists fr. split; [right; exact Hf | exact Hi].
  - destruct (visit w n ck) eqn:V.
    + subst r. exists n. split; [|eapply visit_unsafe_marked; eauto].
      left. exists (l, n :: ns). split; [left; reflexivity | left; reflexivity].
    + destruct (IH _ _ H) as (m & [Hs|Hw] & Hm); exists m; split; auto.
      left. destruct Hs as (fr & [<-|Hf] & Hi).
      * exists (l, n :: ns). split; [left; reflexivity | right; exact Hi].
      * exists fr. split; [right; exact Hf | exact Hi].
    + destruct (IH _ _ H) as (m & [Hs|Hw] & Hm); exists m; split; auto.
      destruct Hs as (fr & [<-|[<-|Hf]] & Hi).
      * right. eapply visit_push_world; eauto.
      * left. exists (l, n :: ns). split; [left; reflexivity | right; exact Hi].
      * left. exists fr. split; [right; exact Hf | exact Hi].
Qed.

Theorem unsafe_only_if_marked : forall w fuel l root,
  is_safe fuel w l root = Ok Unsafe ->
  exists m, (In m (desc root) \/ InWorld w m) /\ marked w m = true.
Proof.
  intros w fuel l root H. unfold is_safe in H.
  destruct (run_unsafe_only_if_marked _ _ _ _ H) as (m & [Hs|Hw] & Hm); exists m; split; auto.
  left. destruct Hs as (fr & [<-|[]] & Hi). cbn in Hi. unfold frame_items in Hi.
  rewrite <- in_rev in Hi. exact Hi.
Qed.

Lemma loc_unsafe_true_marked : forall w fuel l roots,
  loc_unsafe fuel w l roots = Ok true ->
  exists m, ((exists r, In r roots /\ In m (desc r)) \/ InWorld w m) /\ marked w m = true.
Proof.
  intros w fuel l roots. induction roots as [|a rest IH]; intro H; cbn in H; [discriminate|].
  destruct (is_safe fuel w l a) as [[ | |d]|s|] eqn:S; try discriminate.
  - destruct (IH H) as (m & [(r & Hr & Hm)|Hw] & Hk); exists m; split; auto.
    left. exists r. split; [right; exact Hr | exact Hm].
  - destruct (unsafe_only_if_marked _ _ _ _ S) as (m & [Hd|Hw] & Hk); exists m; split; auto.
    left. exists a. split; [left; reflexivity | exact Hd].
Qed.

(* any_were_unsafe_to_compile = true only if some node below a root of a finished location,
   or in the body of some global / lambda, is marked *)
Theorem track_unsafe_only_if_marked : forall w fuel roots skip locs,
  track fuel w roots skip locs = Ok true ->
  exists m, ((exists l r, In l locs /\ In r (roots l) /\ In m (desc r)) \/ InWorld w m)
            /\ marked w m = true.
Proof.
  intros w fuel roots skip locs. induction locs as [|a rest IH]; intro H; cbn in H; [discriminate|].
  destruct (skip a).
  - destruct (IH H) as (m & [(l & r & Hl & Hr & Hm)|Hw] & Hk); exists m; split; auto.
    left. exists l, r. split; [right; exact Hl | auto].
  - destruct (loc_unsafe fuel w a (roots a)) as [u|s|] eqn:L; try discriminate.
    destruct (track fuel w roots skip rest) as [u'|s'|] eqn:T; try discriminate.
    destruct u.
    + destruct (loc_unsafe_true_marked _ _ _ _ L) as (m & [(r & Hr & Hm)|Hw] & Hk);
        exists m; split; auto.
      left. exists a, r. split; [left; reflexivity | auto].
    + cbn in H. inversion H; subst u'.
      destruct (IH eq_refl) as (m & [(l & r & Hl & Hr & Hm)|Hw] & Hk); exists m; split; auto.
      left. exists l, r. split; [right; exact Hl | auto].
Qed.

(* fuel only matters for termination: more fuel never changes a verdict *)
Lemma run_fuel_mono : forall w fuel st ck r,
  run fuel w st ck = r -> r <> OutOfFuel -> run (S fuel) w st ck = r.
Proof.
  intros w fuel. induction fuel as [|f IH]; intros st ck r H Hr; [cbn in H; congruence|].
  cbn in H. change (run (S (S f)) w st ck) with
    (match st with
     | [] => Ok Safe
     | (l, []) :: rest => run (S f) w rest ck
     | (l, n :: ns) :: rest =>
         match visit w n ck with
         | VStop r => r
         | VCont c => run (S f) w ((l, ns) :: rest) c
         | VPush l' items c => run (S f) w ((l', items) :: (l, ns) :: rest) c
         end
     end).
  destruct st as [|[l items] rest]; [exact H|].
  destruct items as [|n ns]; [apply IH; assumption|].
  destruct (visit w n ck); [exact H | apply IH; assumption | apply IH; assumption].
Qed.
