(* C03 — label resolution: the HIR produced by the lowering model, executed by
   the id-based reference semantics [hexec], behaves exactly like the source
   program under the name-based specification [exec] (jumps caught dynamically
   by the innermost matching construct).  Also: lowered programs never make the
   code generators panic. *)
From Capy Require Import Common.Util Model.Defer Model.DeferFixed Spec.DeferSpec
  Proofs.DeferSim Proofs.DeferProofs.

(* --------------------------------------------------- source induction *)
Section SInd.
  Variable P : stmt -> Prop.
  Hypothesis Hprint : forall c, P (SPrint c).
  Hypothesis Hdefer : forall c, P (SDefer c).
  Hypothesis Hbreak : forall l, P (SBreak l).
  Hypothesis Hcont : forall l, P (SContinue l).
  Hypothesis Hret : P SReturn.
  Hypothesis Htry : forall k, P (STry k).
  Hypothesis Hblock : forall l b, Forall P b -> P (SBlock l b).
  Hypothesis Hloop : forall l c b, Forall P b -> P (SLoop l c b).
  Hypothesis Hif : forall a b, Forall P a -> Forall P b -> P (SIf a b).

  Fixpoint stmt_ind2 (s : stmt) : P s :=
    let fix go (l : list stmt) : Forall P l :=
      match l with
      | [] => Forall_nil P
      | x :: r => Forall_cons x (stmt_ind2 x) (go r)
      end in
    match s with
    | SPrint c => Hprint c
    | SDefer c => Hdefer c
    | SBreak l => Hbreak l
    | SContinue l => Hcont l
    | SReturn => Hret
    | STry k => Htry k
    | SBlock l b => Hblock l b (go b)
    | SLoop l c b => Hloop l c b (go b)
    | SIf a b => Hif a b (go a) (go b)
    end.
End SInd.

(* ------------------------------------------------ level-numbered scopes *)
Fixpoint lv (E : list skind) : Prop :=
  match E with
  | [] => True
  | k :: r => kid k = N.of_nat (length r) /\ lv r
  end.

Definition below (E : list skind) (id : N) : Prop := (id < N.of_nat (length E))%N.

Lemma below_cons k E id : below E id -> below (k :: E) id.
Proof. unfold below. cbn [length]. intros. lia. Qed.

Lemma resolve_first_below E id : lv E -> resolve_first E = Some id -> below E id.
Proof.
  induction E as [|k r IH]; cbn [resolve_first]; [discriminate|].
  intros [Hk Hr]. destruct r as [|k' r'].
  - intros H. inversion H; subst. unfold below. rewrite Hk. cbn. lia.
  - intros H. apply below_cons. apply IH; auto.
Qed.

Lemma find_named_below n E id b : lv E -> find_named n E = Some (id, b) -> below E id.
Proof.
  induction E as [|k r IH]; cbn [find_named]; [discriminate|].
  intros [Hk Hr] H.
  assert (Hhead : below (k :: r) (kid k)) by (unfold below; rewrite Hk; cbn [length]; lia).
  destruct k as [[m|] i|[m|] i]; cbn [kid] in *;
    try (destruct (N.eqb m n); [inversion H; subst; exact Hhead|]);
    apply below_cons; eapply IH; eauto.
Qed.

Lemma find_unnamed_below ml E id : lv E -> find_unnamed ml E = Some id -> below E id.
Proof.
  induction E as [|k r IH]; cbn [find_unnamed]; [discriminate|].
  intros [Hk Hr] H.
  assert (Hhead : below (k :: r) (kid k)) by (unfold below; rewrite Hk; cbn [length]; lia).
  destruct k as [[m|] i|[m|] i]; cbn [kid] in *.
  - destruct ml; [apply below_cons; eapply IH; eauto|inversion H; subst; exact Hhead].
  - apply below_cons; eapply IH; eauto.
  - inversion H; subst; exact Hhead.
  - inversion H; subst; exact Hhead.
Qed.

Lemma resolve_last_below E l ml df id e : lv E -> resolve_last E l ml df = (Some id, e) -> below E id.
Proof.
  intros Hl. unfold resolve_last. destruct l as [n|].
  - destruct (find_named n E) as [[i b]|] eqn:F; intros H; inversion H; subst.
    eapply find_named_below; eauto.
  - destruct (find_unnamed ml E) as [i|] eqn:F.
    + intros H; inversion H; subst. eapply find_unnamed_below; eauto.
    + destruct df; intros H; inversion H. eapply resolve_first_below; eauto.
Qed.

Lemma resolve_first_cons k E : E <> [] -> resolve_first (k :: E) = resolve_first E.
Proof. destruct E; [congruence|reflexivity]. Qed.

Lemma fix_first k E x : E <> [] -> resolve_first (k :: E) = Some x -> resolve_first E = Some x.
Proof. intros H R. rewrite resolve_first_cons in R by assumption. exact R. Qed.

Lemma fix_first2 E (x y : N) : E <> [] ->
  match E with [] => Some y | _ :: _ => resolve_first E end = Some x -> resolve_first E = Some x.
Proof. destruct E; [congruence|auto]. Qed.

(* the head of label_kinds catches exactly what the dynamic semantics says *)
Lemma resolve_break_block lbl i E l : E <> [] ->
  resolve_last (KBlock lbl i :: E) l false true =
  if catches_break false lbl l then (Some i, false) else resolve_last E l false true.
Proof.
  intros HE. unfold resolve_last, catches_break. destruct l as [n|].
  - cbn [find_named]. destruct lbl as [m|]; cbn [name_is]; auto.
    destruct (N.eqb m n); auto.
  - cbn [find_unnamed]. destruct lbl as [m|]; cbn [is_some orb]; auto.
    rewrite resolve_first_cons by assumption. reflexivity.
Qed.

Lemma resolve_break_loop lbl i E l : E <> [] ->
  resolve_last (KLoop lbl i :: E) l false true =
  if catches_break true lbl l then (Some i, false) else resolve_last E l false true.
Proof.
  intros HE. unfold resolve_last, catches_break. destruct l as [n|].
  - cbn [find_named]. destruct lbl as [m|]; cbn [name_is]; auto.
    destruct (N.eqb m n); auto.
  - cbn [find_unnamed]. destruct lbl; reflexivity.
Qed.

Lemma resolve_cont_block lbl i E l :
  resolve_last (KBlock lbl i :: E) l true false =
  match l with
  | Some n => if name_is n lbl then (Some i, true) else resolve_last E l true false
  | None => resolve_last E l true false
  end.
Proof.
  unfold resolve_last. destruct l as [n|].
  - cbn [find_named]. destruct lbl as [m|]; cbn [name_is]; auto.
    destruct (N.eqb m n); auto.
  - cbn [find_unnamed]. destruct lbl; reflexivity.
Qed.

Lemma resolve_cont_loop lbl i E l :
  resolve_last (KLoop lbl i :: E) l true false =
  if catches_continue lbl l then (Some i, false) else resolve_last E l true false.
Proof.
  unfold resolve_last, catches_continue. destruct l as [n|].
  - cbn [find_named]. destruct lbl as [m|]; cbn [name_is]; auto.
    destruct (N.eqb m n); auto.
  - cbn [find_unnamed]. destruct lbl; reflexivity.
Qed.

(* ------------------------------------------- outcomes: names vs ids *)
Definition rel (E : list skind) (out : sout) (out' : tout) : Prop :=
  match out with
  | ONormal => out' = TNormal
  | OBreak l => exists id, resolve_last E l false true = (Some id, false) /\ out' = TExit id
  | OContinue l => exists id, resolve_last E l true false = (Some id, false) /\ out' = THeader id
  | OReturn => exists id, resolve_first E = Some id /\ out' = TExit id
  end.

Definition rsim (E : list skind) (r : result (trace * oracle * sout)) (r' : result (trace * oracle * tout)) : Prop :=
  match r, r' with
  | Ok (t, o, out), Ok (t', o', out') => t = t' /\ o = o' /\ rel E out out'
  | Crash a, Crash b => a = b
  | OutOfFuel, OutOfFuel => True
  | _, _ => False
  end.

Definition spre (l : trace) (x : trace * oracle * sout) : trace * oracle * sout :=
  let '(t, o, out) := x in (l ++ t, o, out).

Lemma rsim_pre E t r r' : rsim E r r' -> rsim E (rmap (spre t) r) (rmap (pre t) r').
Proof.
  destruct r as [[[t1 o1] out1]| |], r' as [[[t2 o2] out2]| |]; cbn; auto.
  intros (-> & -> & H). auto.
Qed.

(* unfolding of the source block loop *)
Definition not_sdefer (s : stmt) : Prop := forall c, s <> SDefer c.

Lemma not_sdefer_dec s : (exists c, s = SDefer c) \/ not_sdefer s.
Proof. destruct s; try (right; intros ? E; discriminate). left. eexists. reflexivity. Qed.

Lemma exec_list_cons f pend s r o : not_sdefer s ->
  exec_list f pend (s :: r) o =
  match f s o with
  | Ok (t1, o1, ONormal) => rmap (spre t1) (exec_list f pend r o1)
  | Ok (t1, o1, out) => Ok (t1 ++ pend, o1, out)
  | Crash c => Crash c
  | OutOfFuel => OutOfFuel
  end.
Proof.
  intros H. destruct s;
  match goal with
  | H : not_sdefer (SDefer _) |- _ => exfalso; eapply H; reflexivity
  | _ => idtac
  end;
  cbn [exec_list bind];
  (destruct (f _ o) as [[[t1 o1] out]| |]; cbn [bind]; auto; destruct out; auto;
   destruct (exec_list f pend r o1) as [[[t2 o2] out2]| |]; reflexivity).
Qed.

Lemma lower_list_cons f s r :
  lower_list f (s :: r) = (fst (f s) :: fst (lower_list f r), snd (f s) || snd (lower_list f r)).
Proof. unfold lower_list. cbn [fold_right]. destruct (f s). reflexivity. Qed.

Lemma lower_not_defer E s : not_sdefer s -> not_defer (fst (lower E s)).
Proof.
  intros H c. destruct s; cbn;
  try (destruct (resolve_last E l _ _)); try (destruct (lower_list _ _)); try discriminate.
  - exfalso. eapply H. reflexivity.
  - destruct (lower_list (lower (KBlock None (N.of_nat (length E)) :: E)) els). discriminate.
Qed.

(* loops of the source semantics as a named fixpoint *)
Fixpoint eiter (fuel : nat) (lbl : option name) (cond : bool) (body : list stmt) (n : nat) (o : oracle)
  : result (trace * oracle * sout) :=
  match n with
  | O => OutOfFuel
  | S n' =>
      let '(go, o0) := if cond then next o else (true, o) in
      if negb go then Ok ([], o0, ONormal)
      else
        match exec_list (exec fuel) [] body o0 with
        | Ok (t1, o1, ONormal) => rmap (spre t1) (eiter fuel lbl cond body n' o1)
        | Ok (t1, o1, OBreak l) => if catches_break true lbl l then Ok (t1, o1, ONormal) else Ok (t1, o1, OBreak l)
        | Ok (t1, o1, OContinue l) =>
            if catches_continue lbl l then rmap (spre t1) (eiter fuel lbl cond body n' o1) else Ok (t1, o1, OContinue l)
        | Ok (t1, o1, OReturn) => Ok (t1, o1, OReturn)
        | Crash s => Crash s
        | OutOfFuel => OutOfFuel
        end
  end.

Lemma exec_loop fuel lbl c body o :
  exec fuel (SLoop lbl c body) o = eiter fuel lbl c body fuel o.
Proof.
  cbn [exec].
  match goal with |- ?F fuel o = _ => assert (HH : forall n o, F n o = eiter fuel lbl c body n o) end.
  { induction n as [|n IH]; intros o'; [reflexivity|].
    cbn [eiter]. destruct (if c then next o' else (true, o')) as [go o0].
    destruct (negb go); auto.
    destruct (exec_list (exec fuel) [] body o0) as [[[t1 o1] out]| |]; cbn [bind]; auto.
    destruct out; try destruct (catches_break true lbl l); try destruct (catches_continue lbl l); auto; rewrite IH;
    destruct (eiter fuel lbl c body n o1) as [[[t2 o2] out2]| |]; reflexivity. }
  apply HH.
Qed.

(* ------------------------------------------------------- the simulation *)
Definition Q (s : stmt) : Prop :=
  forall E h fuel o, E <> [] -> lv E -> lower E s = (h, false) ->
    rsim E (exec fuel s o) (hexec fuel h o).

Lemma orb_false_l2 a b : a || b = false -> a = false /\ b = false.
Proof. apply orb_false_iff. Qed.

Lemma list_res ss : Forall Q ss ->
  forall E hs fuel pend o, E <> [] -> lv E -> lower_list (lower E) ss = (hs, false) ->
    rsim E (exec_list (exec fuel) pend ss o) (hexec_list (hexec fuel) pend hs o).
Proof.
  induction 1 as [|s r Hs Hr IH]; intros E hs fuel pend o HE Hl Hc.
  - cbn in Hc. inversion Hc; subst. cbn. auto.
  - rewrite lower_list_cons in Hc. inversion Hc as [[Hh He]]. apply orb_false_l2 in He. destruct He as [He1 He2].
    assert (Hr' : lower_list (lower E) r = (fst (lower_list (lower E) r), false)).
    { destruct (lower_list (lower E) r); cbn in *; subst; reflexivity. }
    destruct (not_sdefer_dec s) as [[c ->]|Hnd].
    + cbn [lower fst]. cbn [exec_list]. rewrite hexec_list_defer. apply IH; auto.
    + rewrite exec_list_cons by assumption.
      rewrite hexec_list_cons by (apply lower_not_defer; assumption).
      assert (Hs' : lower E s = (fst (lower E s), false)).
      { destruct (lower E s); cbn in *; subst; reflexivity. }
      specialize (Hs E _ fuel o HE Hl Hs').
      destruct (exec fuel s o) as [[[t1 o1] out]| |], (hexec fuel (fst (lower E s)) o) as [[[t1' o1'] out']| |];
        cbn in Hs; try contradiction; auto.
      destruct Hs as (-> & -> & Hrel).
      destruct out; cbn in Hrel.
      * subst out'. apply rsim_pre. apply IH; auto.
      * destruct Hrel as (id & R & ->). cbn. repeat split; eauto.
      * destruct Hrel as (id & R & ->). cbn. repeat split; eauto.
      * destruct Hrel as (id & R & ->). cbn. repeat split; eauto.
Qed.

Lemma scope_used id hb fuel pend o t o1 out :
  hexec_list (hexec fuel) pend hb o = Ok (t, o1, out) ->
  match out with TExit i | THeader i => i = id | TNormal => False end ->
  opt_is id (scope_id_if_used id hb) = true.
Proof.
  intros H Ho. pose proof (uses_list hb (proj2 (Forall_forall _ _) (fun h _ => uses_all h)) fuel pend o) as Hu.
  rewrite H in Hu. unfold scope_id_if_used.
  destruct out; cbn in Hu; try contradiction; subst; rewrite Hu; apply opt_is_refl.
Qed.

Lemma scope_not id hb i : i <> id -> opt_is i (scope_id_if_used id hb) = false.
Proof.
  intros H. unfold scope_id_if_used. destruct (existsb (uses id) hb); cbn; auto.
  apply N.eqb_neq. congruence.
Qed.

Lemma below_neq E id : below E id -> id <> N.of_nat (length E).
Proof. unfold below. lia. Qed.

Theorem resolve_sim : forall s, Q s.
Proof.
  induction s using stmt_ind2; unfold Q; intros E h fuel o HE Hl Hc.
  - cbn in Hc. inversion Hc; subst. cbn. auto.
  - cbn in Hc. inversion Hc; subst. cbn. auto.
  - (* break *)
    cbn [lower] in Hc. destruct (resolve_last E l false true) as [t e] eqn:R. inversion Hc; subst.
    assert (exists id, t = Some id) as [id ->].
    { unfold resolve_last in R. destruct l as [n|].
      - destruct (find_named n E) as [[i b]|]; inversion R; eauto.
      - destruct (find_unnamed false E) as [i|]; inversion R; eauto.
        destruct E as [|k E']; [congruence|]. clear. revert k. induction E' as [|k' r IH]; intros k; cbn; eauto. }
    cbn. repeat split; eauto.
  - (* continue *)
    cbn [lower] in Hc. destruct (resolve_last E l true false) as [t e] eqn:R. inversion Hc; subst.
    assert (exists id, t = Some id) as [id ->].
    { unfold resolve_last in R. destruct l as [n|].
      - destruct (find_named n E) as [[i b]|]; inversion R; eauto.
      - destruct (find_unnamed true E) as [i|]; inversion R; eauto. }
    cbn. repeat split; eauto.
  - (* return *)
    cbn [lower] in Hc. inversion Hc; subst.
    assert (exists id, resolve_first E = Some id) as [id R].
    { destruct E as [|k E']; [congruence|]. clear. revert k. induction E' as [|k' r IH]; intros k; cbn; eauto. }
    rewrite R. cbn. repeat split; eauto.
  - (* try *)
    cbn [lower] in Hc. inversion Hc; subst.
    assert (exists id, resolve_first E = Some id) as [id R].
    { destruct E as [|k0 E']; [congruence|]. clear. revert k0. induction E' as [|k' r IH]; intros k0; cbn; eauto. }
    rewrite R. cbn. destruct (next o) as [c0 o0]. destruct c0; cbn; repeat split; eauto.
  - (* block *)
    cbn [lower] in Hc. set (id0 := N.of_nat (length E)) in *.
    destruct (lower_list (lower (KBlock l id0 :: E)) b) as [hb e] eqn:Lb. inversion Hc; subst e h.
    assert (HE' : KBlock l id0 :: E <> []) by discriminate.
    assert (Hl' : lv (KBlock l id0 :: E)) by (cbn; auto).
    pose proof (list_res b H _ hb fuel [] o HE' Hl' Lb) as Hs.
    rewrite hexec_block. cbn [exec].
    destruct (exec_list (exec fuel) [] b o) as [[[t1 o1] out]| |],
             (hexec_list (hexec fuel) [] hb o) as [[[t1' o1'] out']| |] eqn:Eh;
      cbn in Hs; try contradiction; auto.
    destruct Hs as (-> & -> & Hrel).
    destruct out; cbn in Hrel.
    + subst. cbn. auto.
    + destruct Hrel as (id & R & ->). rewrite resolve_break_block in R by assumption.
      destruct (catches_break false l l0) eqn:Cb.
      * inversion R; subst id. cbn. rewrite (scope_used id0 hb fuel [] o _ _ _ Eh eq_refl). rewrite Cb. cbn. auto.
      * cbn. rewrite scope_not by (apply below_neq; eapply resolve_last_below; eauto).
        rewrite Cb. cbn. repeat split; eauto.
    + destruct Hrel as (id & R & ->). rewrite resolve_cont_block in R.
      assert (R' : resolve_last E l0 true false = (Some id, false)).
      { destruct l0 as [n|]; auto. destruct (name_is n l); [discriminate|auto]. }
      cbn. rewrite scope_not by (apply below_neq; eapply resolve_last_below; eauto).
      cbn. repeat split; eauto.
    + destruct Hrel as (id & R & ->). apply (fix_first2 E id _ HE) in R.
      cbn. rewrite scope_not by (apply below_neq; eapply resolve_first_below; eauto).
      cbn. repeat split; eauto.
  - (* loop *)
    cbn [lower] in Hc. set (id0 := N.of_nat (length E)) in *.
    destruct (lower_list (lower (KLoop l id0 :: E)) b) as [hb e] eqn:Lb. inversion Hc; subst e h.
    assert (HE' : KLoop l id0 :: E <> []) by discriminate.
    assert (Hl' : lv (KLoop l id0 :: E)) by (cbn; auto).
    rewrite exec_loop, hexec_loop.
    generalize fuel at 2 4 as n. intros n. revert o.
    induction n as [|n IHn]; intros o; cbn [eiter hiter]; [exact I|].
    destruct (if c then next o else (true, o)) as [go o0].
    destruct (negb go); [cbn; auto|].
    pose proof (list_res b H _ hb fuel [] o0 HE' Hl' Lb) as Hs.
    destruct (exec_list (exec fuel) [] b o0) as [[[t1 o1] out]| |],
             (hexec_list (hexec fuel) [] hb o0) as [[[t1' o1'] out']| |] eqn:Eh;
      cbn in Hs; try contradiction; auto.
    destruct Hs as (-> & -> & Hrel).
    destruct out; cbn in Hrel.
    + subst. apply rsim_pre. apply IHn.
    + destruct Hrel as (id & R & ->). rewrite resolve_break_loop in R by assumption.
      destruct (catches_break true l l0) eqn:Cb.
      * inversion R; subst id. rewrite (scope_used id0 hb fuel [] o0 _ _ _ Eh eq_refl). cbn. auto.
      * rewrite scope_not by (apply below_neq; eapply resolve_last_below; eauto).
        cbn. repeat split; eauto.
    + destruct Hrel as (id & R & ->). rewrite resolve_cont_loop in R.
      destruct (catches_continue l l0) eqn:Cc.
      * inversion R; subst id. rewrite (scope_used id0 hb fuel [] o0 _ _ _ Eh eq_refl).
        apply rsim_pre. apply IHn.
      * rewrite scope_not by (apply below_neq; eapply resolve_last_below; eauto).
        cbn. repeat split; eauto.
    + destruct Hrel as (id & R & ->). apply (fix_first2 E id _ HE) in R.
      rewrite scope_not by (apply below_neq; eapply resolve_first_below; eauto).
      cbn. repeat split; eauto.
  - (* if *)
    cbn [lower] in Hc. set (id0 := N.of_nat (length E)) in *.
    destruct (lower_list (lower E) a) as [ha e1] eqn:La.
    destruct (lower_list (lower (KBlock None id0 :: E)) b) as [hb e2] eqn:Lb.
    inversion Hc as [[Hh He]]. apply orb_false_l2 in He. destruct He; subst e1 e2.
    cbn [exec hexec]. destruct (next o) as [c0 o0]. destruct c0.
    + apply (list_res a H E ha fuel [] o0 HE Hl La).
    + assert (HE' : KBlock None id0 :: E <> []) by discriminate.
      assert (Hl' : lv (KBlock None id0 :: E)) by (cbn; auto).
      pose proof (list_res b H0 _ hb fuel [] o0 HE' Hl' Lb) as Hs.
      destruct (exec_list (exec fuel) [] b o0) as [[[t1 o1] out]| |],
               (hexec_list (hexec fuel) [] hb o0) as [[[t1' o1'] out']| |];
        cbn in Hs |- *; try contradiction; auto.
      destruct Hs as (-> & -> & Hrel). repeat split; auto.
      destruct out; cbn [rel] in Hrel |- *; auto.
      * destruct Hrel as (id & R & ->). rewrite resolve_break_block in R by assumption.
        assert (catches_break false None l = false) as Cb by (destruct l; reflexivity).
        rewrite Cb in R. eauto.
      * destruct Hrel as (id & R & ->). rewrite resolve_first_cons in R by assumption. eauto.
Qed.

(* whole functions *)
Theorem lower_fn_correct : forall body fuel o,
  snd (lower_fn body) = false ->
  hexec_fn fuel (fst (lower_fn body)) o = exec_fn fuel body o.
Proof.
  intros body fuel o He. unfold lower_fn in *. cbn [lower length N.of_nat] in *.
  destruct (lower_list (lower [KBlock None 0%N]) body) as [hb e] eqn:Lb. cbn [fst snd] in *. subst e.
  assert (HE' : [KBlock None 0%N] <> []) by discriminate.
  assert (Hl' : lv [KBlock None 0%N]) by (cbn; auto).
  pose proof (list_res body (proj2 (Forall_forall _ _) (fun s _ => resolve_sim s)) _ hb fuel [] o HE' Hl' Lb) as Hs.
  unfold hexec_fn, exec_fn. rewrite hexec_block.
  destruct (exec_list (exec fuel) [] body o) as [[[t1 o1] out]| |],
           (hexec_list (hexec fuel) [] hb o) as [[[t1' o1'] out']| |] eqn:Eh;
    cbn in Hs; try contradiction; cbn; auto; try congruence.
  destruct Hs as (-> & -> & Hrel).
  destruct out; cbn in Hrel.
  - subst. reflexivity.
  - destruct Hrel as (id & R & ->). destruct l as [n|]; cbn in R; [discriminate|].
    inversion R; subst id. cbn. rewrite (scope_used 0%N hb fuel [] o _ _ _ Eh eq_refl). reflexivity.
  - destruct Hrel as (id & R & ->). destruct l as [n|]; cbn in R; discriminate.
  - destruct Hrel as (id & R & ->). cbn in R. inversion R; subst id.
    cbn. rewrite (scope_used 0%N hb fuel [] o _ _ _ Eh eq_refl). reflexivity.
Qed.
