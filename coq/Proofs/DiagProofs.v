(* C06 -- proofs about Model/Diag.v: when rendering a diagnostic cannot panic, and when it does. *)
From Capy Require Import Common.Util Model.LineIndex Spec.LineSpec Proofs.LineIndexProofs Model.Diag.

(* ---------------------------------------------------------------------------------- *)
(* list facts                                                                         *)
(* ---------------------------------------------------------------------------------- *)

Lemma nth_error_skipn {A} (l : list A) s k : nth_error (skipn s l) k = nth_error l (s + k).
Proof.
  revert l; induction s as [|s IH]; intro l; [reflexivity|].
  destruct l as [|x l]; cbn; [destruct k; reflexivity | apply IH].
Qed.

Lemma takeWhile_length_le {A} (p : A -> bool) l : length (takeWhile p l) <= length l.
Proof. induction l as [|x l IH]; cbn; [lia|]. destruct (p x); cbn; lia. Qed.

Lemma takeWhile_nth_lt {A} (p : A -> bool) l i :
  i < length (takeWhile p l) -> nth_error (takeWhile p l) i = nth_error l i.
Proof.
  revert i; induction l as [|x l IH]; intros i H; cbn in *; [lia|].
  destruct (p x); cbn in *; [|lia]. destruct i; [reflexivity|]. cbn. apply IH. lia.
Qed.

Lemma takeWhile_reaches {A} (p : A -> bool) l n :
  (forall k, k <= n -> exists b, nth_error l k = Some b /\ p b = true) ->
  n < length (takeWhile p l).
Proof.
  revert n; induction l as [|x l IH]; intros n H.
  - destruct (H 0 (Nat.le_0_l _)) as (b & Hb & _). discriminate.
  - cbn. destruct (H 0 (Nat.le_0_l _)) as (b & Hb & Hp). cbn in Hb. inversion Hb; subst b.
    rewrite Hp. cbn. destruct n; [lia|].
    apply -> Nat.succ_lt_mono. apply IH. intros k Hk. apply (H (S k)). lia.
Qed.

Lemma count_nl_firstn_mono l a b : a <= b -> count_nl (firstn a l) <= count_nl (firstn b l).
Proof.
  revert a b; induction l as [|x l IH]; intros a b H.
  - destruct a, b; cbn; lia.
  - destruct a; [cbn; lia|]. destruct b; [lia|]. cbn. specialize (IH a b ltac:(lia)). lia.
Qed.

Lemma line_spec_mono txt a b : a <= b -> line_spec txt a <= line_spec txt b.
Proof. apply count_nl_firstn_mono. Qed.

(* ---------------------------------------------------------------------------------- *)
(* connecting line_col with the line table and the lines                              *)
(* ---------------------------------------------------------------------------------- *)

Lemma line_start_nth txt off :
  off <= length txt ->
  nth_error (line_starts txt) (line_spec txt off) = Some (line_start_spec txt off).
Proof.
  intro Hoff. pose proof (line_col_correct txt off) as H.
  destruct (line_start_spec_declarative txt off Hoff) as (Hle & _ & _).
  unfold position, line_col in H.
  revert H.
  destruct (partition_point (fun it => it <=? off) (line_starts txt)) as [|line]; [discriminate|].
  destruct (nth_error (line_starts txt) line) as [start|] eqn:E; [|discriminate].
  destruct (Nat.ltb_spec off start) as [Hlt|Hge]; [discriminate|].
  intro H. inversion H as [[H1 H2]]. unfold col_spec in H2. subst line. rewrite E. f_equal. lia.
Qed.

Definition content (txt : list byte) (off : nat) : Prop :=
  exists b, nth_error txt off = Some b /\ b <> LineIndex.NL.

Definition tboundary (txt : list byte) (off : nat) : Prop :=
  off = 0 \/ off = length txt \/ exists b, nth_error txt off = Some b /\ is_cont b = false.

Definition NoCR (txt : list byte) : Prop := ~ In CR txt.

Lemma seg_at_fits txt s : s + length (seg_at txt s) <= Nat.max s (length txt).
Proof.
  unfold seg_at. pose proof (takeWhile_length_le not_nl (skipn s txt)) as H.
  rewrite skipn_length in H. lia.
Qed.

Lemma seg_at_nth txt s c :
  c < length (seg_at txt s) -> nth_error (seg_at txt s) c = nth_error txt (s + c).
Proof.
  intro H. unfold seg_at in *. rewrite takeWhile_nth_lt by exact H. apply nth_error_skipn.
Qed.

(* a content byte on the line starting at s = line_start_spec off lies inside that line's run *)
Lemma content_in_seg txt off :
  off < length txt -> content txt off ->
  off - line_start_spec txt off < length (seg_at txt (line_start_spec txt off)).
Proof.
  intros Hlt (b & Hb & Hne).
  assert (Hle0 : off <= length txt) by lia.
  destruct (line_start_spec_declarative txt off Hle0) as (Hle & _ & Hno).
  set (s := line_start_spec txt off) in *.
  unfold seg_at. apply takeWhile_reaches. intros k Hk.
  rewrite nth_error_skipn.
  destruct (nth_error txt (s + k)) as [x|] eqn:E.
  - exists x. split; [reflexivity|]. unfold not_nl.
    destruct (N.eqb_spec x LineIndex.NL) as [->|]; [|reflexivity]. exfalso.
    destruct (Nat.eq_dec (s + k) off) as [Heq|Hneq].
    + rewrite Heq in E. rewrite E in Hb. congruence.
    + apply (Hno (s + k)); [lia | lia | exact E].
  - apply nth_error_None in E. lia.
Qed.

Lemma strip_cr_nocr t seg : ~ In CR seg -> strip_cr t seg = seg.
Proof.
  intro H. unfold strip_cr. destruct t; [|reflexivity].
  match goal with |- context [match ?r with _ => _ end] => destruct r as [|b r'] eqn:E end; [reflexivity|].
  destruct (N.eqb_spec b CR) as [->|]; [|reflexivity].
  exfalso. apply H. apply in_rev.
  match type of E with ?x = _ => change (In CR x) end. rewrite E. left. reflexivity.
Qed.

Lemma seg_at_incl txt s x : In x (seg_at txt s) -> In x txt.
Proof.
  unfold seg_at. intro H.
  assert (forall l, In x (takeWhile not_nl l) -> In x l) as T.
  { induction l as [|y l IH]; cbn; [tauto|]. destruct (not_nl y); cbn; [|tauto]. intros [->|]; auto. }
  apply T in H. revert H. generalize txt. induction s as [|s IH]; intros l H; [exact H|].
  destruct l; cbn in H; [contradiction|]. right. apply IH. exact H.
Qed.

Lemma file_line_of_offset txt off :
  NoCR txt -> off < length txt ->
  file_line txt (line_spec txt off) = Some (seg_at txt (line_start_spec txt off)).
Proof.
  intros Hcr Hlt. unfold file_line. rewrite line_start_nth by lia.
  assert (Hle0 : off <= length txt) by lia.
  destruct (line_start_spec_declarative txt off Hle0) as (Hle & _ & _).
  destruct (Nat.eqb_spec (line_start_spec txt off) (length txt)) as [E|_]; [lia|].
  rewrite strip_cr_nocr; [reflexivity|]. intro H. apply Hcr. eapply seg_at_incl; eauto.
Qed.

Lemma boundary_0 l : boundary l 0 = true.
Proof. reflexivity. Qed.
Lemma boundary_len l : boundary l (length l) = true.
Proof. unfold boundary. rewrite Nat.eqb_refl, Bool.orb_true_r. reflexivity. Qed.

Lemma boundary_seg txt s c :
  s + c <= length txt -> c <= length (seg_at txt s) -> tboundary txt (s + c) ->
  boundary (seg_at txt s) c = true.
Proof.
  intros Hlen Hc Hb. unfold boundary.
  destruct (Nat.eqb_spec c 0); [reflexivity|].
  destruct (Nat.eqb_spec c (length (seg_at txt s))); [rewrite Bool.orb_true_r; reflexivity|].
  cbn. rewrite seg_at_nth by lia.
  destruct Hb as [H0|[Hl|(b & Hb & Hcont)]].
  - lia.
  - pose proof (seg_at_fits txt s). lia.
  - rewrite Hb, Hcont. reflexivity.
Qed.

Lemma slice_ok site l a b :
  a <= b -> b <= length l -> boundary l a = true -> boundary l b = true ->
  exists r, slice site l a b = Ok r.
Proof.
  intros H1 H2 H3 H4. unfold slice.
  destruct (Nat.leb_spec a b); [|lia]. destruct (Nat.leb_spec b (length l)); [|lia].
  rewrite H3, H4. cbn. eexists; reflexivity.
Qed.

(* ---------------------------------------------------------------------------------- *)
(* the no-crash theorem                                                               *)
(* ---------------------------------------------------------------------------------- *)

Section NoCrash.
  Variable txt : list byte.
  Variables start end_ : nat.
  Hypothesis Hcr : NoCR txt.
  Hypothesis Hne : start < end_.
  Hypothesis Hend : end_ <= length txt.
  Hypothesis Hcs : content txt start.
  Hypothesis Hce : content txt (end_ - 1).
  Hypothesis Hbs : tboundary txt start.
  Hypothesis Hbe : tboundary txt end_.

  Let sl := line_spec txt start.
  Let sc := col_spec txt start.
  Let el := line_spec txt (end_ - 1).
  Let ec := col_spec txt (end_ - 1).
  Let s1 := line_start_spec txt start.
  Let s2 := line_start_spec txt (end_ - 1).

  Lemma sl_le_el : sl <= el.
  Proof. apply line_spec_mono. lia. Qed.

  Lemma s1_le : s1 <= start.
  Proof.
    assert (H0 : start <= length txt) by lia.
    destruct (line_start_spec_declarative txt start H0) as (H & _). exact H.
  Qed.
  Lemma s2_le : s2 <= end_ - 1.
  Proof.
    assert (H0 : end_ - 1 <= length txt) by lia.
    destruct (line_start_spec_declarative txt (end_ - 1) H0) as (H & _). exact H.
  Qed.

  Lemma line_sl : file_line txt sl = Some (seg_at txt s1).
  Proof. apply file_line_of_offset; [exact Hcr | lia]. Qed.
  Lemma line_el : file_line txt el = Some (seg_at txt s2).
  Proof. apply file_line_of_offset; [exact Hcr | lia]. Qed.

  Lemma sc_lt : sc < length (seg_at txt s1).
  Proof. apply content_in_seg; [lia | exact Hcs]. Qed.
  Lemma ec_lt : ec < length (seg_at txt s2).
  Proof. apply content_in_seg; [lia | exact Hce]. Qed.

  Lemma cut_sc : boundary (seg_at txt s1) sc = true.
  Proof.
    pose proof s1_le as A. pose proof sc_lt as B.
    assert (E : sc = start - s1) by reflexivity. rewrite E in *.
    apply boundary_seg; [lia | lia |]. replace (s1 + (start - s1)) with start by lia. exact Hbs.
  Qed.
  Lemma cut_ec : boundary (seg_at txt s2) (ec + 1) = true.
  Proof.
    pose proof s2_le as A. pose proof ec_lt as B.
    assert (E : ec = end_ - 1 - s2) by reflexivity. rewrite E in *.
    apply boundary_seg; [lia | lia |]. replace (s2 + (end_ - 1 - s2 + 1)) with end_ by lia. exact Hbe.
  Qed.

  Lemma same_line_same_start : sl = el -> s1 = s2.
  Proof.
    intro E. assert (H0 : start <= length txt) by lia. assert (H1 : end_ - 1 <= length txt) by lia.
    pose proof (line_start_nth txt start H0) as A.
    pose proof (line_start_nth txt (end_ - 1) H1) as B.
    fold sl s1 in A. fold el s2 in B. rewrite E in A. rewrite A in B. inversion B. reflexivity.
  Qed.

  Lemma render_ok : forall num line arrow,
    file_line txt num = Some line -> exists r, render_line line num sl sc el ec arrow = Ok r.
  Proof.
    intros num line arrow Hl. unfold render_line.
    destruct (Nat.eqb_spec num sl) as [E1|N1]; destruct (Nat.eqb_spec num el) as [E2|N2].
    - (* single line *)
      destruct ((sl <=? num) && (num <=? el) && arrow); [eexists; reflexivity|].
      assert (Hs : s1 = s2) by (apply same_line_same_start; congruence).
      assert (line = seg_at txt s1) by (rewrite E1, line_sl in Hl; congruence). subst line.
      pose proof sc_lt as A1. pose proof ec_lt as A2. pose proof cut_sc as A3. pose proof cut_ec as A4.
      pose proof s1_le as A5. pose proof s2_le as A6.
      assert (Esc : sc = start - s1) by reflexivity. assert (Eec : ec = end_ - 1 - s2) by reflexivity.
      rewrite <- Hs in A2, A4.
      assert (sc <= ec + 1) by lia.
      destruct (slice_ok 333 (seg_at txt s1) 0 sc) as (r1 & ->); auto using boundary_0; try lia.
      destruct (slice_ok 335 (seg_at txt s1) sc (ec + 1)) as (r2 & ->); auto; try lia.
      destruct (slice_ok 337 (seg_at txt s1) (ec + 1) (length (seg_at txt s1))) as (r3 & ->);
        auto using boundary_len; try lia.
      cbn. eexists; reflexivity.
    - assert (line = seg_at txt s1) by (rewrite E1, line_sl in Hl; congruence). subst line.
      pose proof sc_lt. pose proof cut_sc.
      destruct (slice_ok 345 (seg_at txt s1) 0 sc) as (r1 & ->); auto using boundary_0; try lia.
      destruct (slice_ok 347 (seg_at txt s1) sc (length (seg_at txt s1))) as (r2 & ->);
        auto using boundary_len; try lia.
      cbn. eexists; reflexivity.
    - assert (line = seg_at txt s2) by (rewrite E2, line_el in Hl; congruence). subst line.
      pose proof ec_lt. pose proof cut_ec.
      destruct (slice_ok 354 (seg_at txt s2) 0 (ec + 1)) as (r1 & ->); auto using boundary_0; try lia.
      destruct (slice_ok 356 (seg_at txt s2) (ec + 1) (length (seg_at txt s2))) as (r2 & ->);
        auto using boundary_len; try lia.
      cbn. eexists; reflexivity.
    - eexists; reflexivity.
  Qed.

  Lemma rows_ok : forall k num ls le md arrow,
    ls <= num -> (OMIT_POINT * 2 < le - ls -> 3 <= md) ->
    exists r, rows_from txt k num ls le md sl sc el ec arrow = Ok r.
  Proof.
    induction k as [|k IH]; intros num ls le md arrow Hn Hmd; cbn [rows_from]; [eexists; reflexivity|].
    destruct (file_line txt num) as [line|] eqn:Hl; [|eexists; reflexivity].
    assert (Hn' : ls <= S num) by lia.
    destruct (IH (S num) ls le md arrow Hn' Hmd) as (rest & Hrest).
    destruct ((OMIT_POINT <=? num - ls) && (OMIT_POINT <? le - num)) eqn:Om.
    - apply Bool.andb_true_iff in Om. destruct Om as [O1 O2].
      apply Nat.leb_le in O1. apply Nat.ltb_lt in O2.
      destruct (Nat.eqb_spec (num - ls) OMIT_POINT).
      + destruct (Nat.ltb_spec md 3) as [Hlt|Hge].
        * exfalso. unfold OMIT_POINT in *. assert (3 <= md) by (apply Hmd; lia). lia.
        * rewrite Hrest. cbn. eexists; reflexivity.
      + exists rest. exact Hrest.
    - destruct (render_ok num line arrow Hl) as (r & ->). cbn. rewrite Hrest. cbn. eexists; reflexivity.
  Qed.

  Theorem display_no_crash_sec : forall missing, exists r, display txt start end_ missing = Ok r.
  Proof.
    intro missing. unfold display.
    rewrite (line_col_correct txt start). cbn [bind].
    destruct (Nat.eqb_spec end_ 0) as [E|_]; [lia|].
    rewrite (line_col_correct txt (end_ - 1)). cbn [bind fst snd].
    fold sl sc el ec. unfold input_snippet.
    pose proof sl_le_el as Hle. clearbody sl sc el ec.
    generalize (count_digits (el + 3)). intro cd.
    destruct (Nat.ltb_spec (el + 3) (sl - 2)) as [Hlt|_]; [lia|].
    match goal with |- context [rows_from txt ?k ?n ?a ?b ?md _ _ _ _ ?ar] =>
      destruct (rows_ok k n a b md ar) as (rows & ->) end.
    - apply le_n.
    - intro H. destruct (Nat.ltb_spec (OMIT_POINT * 2) (el + 3 - (sl - 2))) as [_|Hge].
      + apply Nat.le_max_r.
      + exfalso. apply (Nat.lt_irrefl (OMIT_POINT * 2)). eapply Nat.lt_le_trans; eauto.
    - cbn. eexists; reflexivity.
  Qed.
End NoCrash.

(* Rendering a diagnostic never panics when its range is non-empty, lies within the text, starts
   and ends on char boundaries, and its first and last byte are not line terminators (texts
   without '\r'; CRLF handling is covered by the correspondence stream only). *)
Theorem display_no_crash : forall txt start end_ missing,
  NoCR txt -> start < end_ -> end_ <= length txt ->
  content txt start -> content txt (end_ - 1) ->
  tboundary txt start -> tboundary txt end_ ->
  exists r, display txt start end_ missing = Ok r.
Proof. intros. eapply display_no_crash_sec; eauto. Qed.

(* ---------------------------------------------------------------------------------- *)
(* when it does crash                                                                 *)
(* ---------------------------------------------------------------------------------- *)

(* an empty range at offset 0 (any text): `range.end() - 1` underflows *)
Theorem display_crash_end_zero : forall txt start missing, display txt start 0 missing = Crash 76.
Proof.
  intros. unfold display. rewrite (line_col_correct txt start). reflexivity.
Qed.

(* the full statement "within the text => no crash" is false: witnesses *)
Definition diag_full : Prop :=
  forall txt start end_ missing, start <= end_ -> end_ <= length txt ->
    is_ok (display txt start end_ missing) = true.

Theorem diag_full_refuted : ~ diag_full.
Proof.
  intro H. specialize (H [97%N; 98%N] 0 0 false (le_n 0) (Nat.le_0_l _)).
  rewrite display_crash_end_zero in H. discriminate.
Qed.

(* a range whose last byte is the newline:  "ab\ncd", 0..3 *)
Theorem display_crash_range_ends_with_newline :
  display [97; 98; 10; 99; 100]%N 0 3 false = Crash 335.
Proof. vm_compute. reflexivity. Qed.

(* a range ending inside a multi-byte character:  "aé" = 61 c3 a9, 0..2 *)
Theorem display_crash_range_ends_inside_char :
  display [97; 195; 169]%N 0 2 false = Crash 335.
Proof. vm_compute. reflexivity. Qed.

(* a multi-line range starting at the '\n' of a "\r\n" line: "a\r\nb", 2..4 -- the column of
   the '\n' is one past the end of the line as `lines()` yields it *)
Theorem display_crash_start_on_crlf_newline :
  display [97; 13; 10; 98]%N 2 4 false = Crash 345.
Proof. vm_compute. reflexivity. Qed.
