(* C23 proofs, part 1: the parser machine.  Well-bracketing of every marker
   trace, error positions within the input, previous_token_range. *)
From Coq Require Import List Arith Bool Lia.
Import ListNotations.
From Capy Require Import Common.Util Model.ParserCore Model.Sink Spec.ParseSpec.

(* ---- classes of events with placeholders ------------------------------------ *)
Definition ocls (e : option event) : cls := match e with None => CO | Some e => ecls e end.
Definition pend (l : list (option event)) : nat :=
  length (filter (fun e => match e with None => true | _ => false end) l).

Lemma walk_app : forall a b d, walk d (a ++ b) = match walk d a with Some d' => walk d' b | None => None end.
Proof. induction a as [|c a IH]; intros; simpl; auto. destruct c; auto. destruct d; auto. Qed.

Lemma walk_mono : forall l d e k, walk d l = Some e -> walk (d + k) l = Some (e + k).
Proof.
  induction l as [|c l IH]; simpl; intros d e k H.
  - inversion H. reflexivity.
  - destruct c.
    + apply (IH (S d) e k H).
    + destruct d; [discriminate|]. simpl. apply IH. assumption.
    + apply IH. assumption.
Qed.

Lemma pend_app : forall a b, pend (a ++ b) = pend a + pend b.
Proof. intros. unfold pend. rewrite filter_app, app_length. reflexivity. Qed.

Definition Inv (l : list (option event)) : Prop := walk 0 (map ocls l) = Some (pend l).

Lemma nth_error_split' : forall {A} (l : list A) n x, nth_error l n = Some x ->
  exists a b, l = a ++ x :: b /\ length a = n.
Proof. intros. apply nth_error_split. assumption. Qed.

Lemma set_nth_split : forall {A} (a b : list A) x y, set_nth (a ++ x :: b) (length a) y = a ++ y :: b.
Proof. induction a; simpl; intros; auto. rewrite IHa. reflexivity. Qed.

Lemma pend_cons : forall e l, pend (e :: l) = (match e with None => 1 | Some _ => 0 end) + pend l.
Proof. intros. unfold pend. destruct e; reflexivity. Qed.

Lemma step_inv : forall s o s', Inv (evs s) -> step s o = Ok s' -> Inv (evs s').
Proof.
  intros s o s' I H. unfold Inv in *. destruct o; cbn [step] in H.
  - (* start *) inversion H; subst; clear H. cbn [start fst evs]. rewrite map_app, walk_app, I.
    rewrite pend_app, pend_cons. cbn [map ocls walk pend filter length]. f_equal. change (pend []) with 0. lia.
  - (* complete *) unfold complete in H. destruct (nth_error (evs s) pos) as [[e|]|] eqn:E; try discriminate.
    inversion H; subst; clear H. cbn [evs].
    destruct (nth_error_split' _ _ _ E) as (a & b & L & Ln). rewrite L in *. subst pos.
    rewrite set_nth_split. rewrite map_app, walk_app.
    assert (M : map ocls (a ++ Some (EStart kind) :: b) = map ocls (a ++ None :: b)).
    { rewrite !map_app. reflexivity. }
    rewrite M, I. rewrite !pend_app, !pend_cons. change (pend []) with 0.
    replace (pend a + (1 + pend b)) with (S (pend a + pend b)) by lia.
    cbn [map ocls ecls walk]. f_equal. lia.
  - (* precede *) unfold precede in H. destruct (pos <=? length (evs s)); [|discriminate].
    inversion H; subst; clear H. cbn [fst evs]. unfold insert_at.
    rewrite <- (firstn_skipn pos (evs s)) in I.
    rewrite map_app, walk_app in I. rewrite map_app, walk_app.
    destruct (walk 0 (map ocls (firstn pos (evs s)))) as [d1|]; [|discriminate].
    cbn [map ocls walk]. rewrite pend_app in *. rewrite pend_cons.
    replace (S d1) with (d1 + 1) by lia. rewrite (walk_mono _ _ _ 1 I). f_equal. lia.
  - (* bump *) inversion H; subst; clear H. cbn [bump evs]. rewrite map_app, walk_app, I.
    rewrite pend_app, pend_cons. change (pend []) with 0. cbn [map ocls ecls walk]. f_equal. lia.
Qed.

Lemma run_ops_inv : forall ops s s', Inv (evs s) -> run_ops s ops = Ok s' -> Inv (evs s').
Proof.
  induction ops as [|o ops IH]; simpl; intros s s' I H.
  - inversion H; subst; assumption.
  - destruct (step s o) as [s1| |] eqn:E; simpl in H; try discriminate.
    eapply IH; [|eassumption]. eapply step_inv; eassumption.
Qed.

Lemma all_some_map : forall l l', all_some l = Some l' -> l = map Some l'.
Proof.
  induction l as [|[e|] l IH]; simpl; intros l' H.
  - inversion H. reflexivity.
  - destruct (all_some l) eqn:E; simpl in H; [|discriminate]. inversion H; subst. simpl. f_equal. auto.
  - discriminate.
Qed.

Lemma pend_map_some : forall l, pend (map Some l) = 0.
Proof. induction l; simpl; auto. Qed.

(* core_well_bracketed: ANY sequence of start / complete / precede / bump that
   does not hit a panic site, started from an empty event list, in which every
   placeholder has been completed (Parser::parse's assert), is a well-bracketed
   event list. *)
Theorem core_well_bracketed : forall ts ops s l,
  run_ops (mkP ts 0 [] []) ops = Ok s -> all_some (evs s) = Some l -> balanced l = true.
Proof.
  intros ts ops s l H A.
  assert (I : Inv (evs s)). { eapply run_ops_inv; [|eassumption]. reflexivity. }
  apply all_some_map in A. unfold Inv in I. rewrite A in I. rewrite map_map, pend_map_some in I.
  unfold balanced. change (fun x => ocls (Some x)) with ecls in I. rewrite I. reflexivity.
Qed.

(* the number of AddToken events is the number of bumps: the cursor advanced by
   bump exactly once per AddToken *)
Definition count_bumps (ops : list mop) : nat := length (filter (fun o => match o with OBump => true | _ => false end) ops).
Definition count_oadd (l : list (option event)) : nat :=
  length (filter (fun e => match e with Some EAdd => true | _ => false end) l).

Lemma count_oadd_app : forall a b, count_oadd (a ++ b) = count_oadd a + count_oadd b.
Proof. intros. unfold count_oadd. rewrite filter_app, app_length. reflexivity. Qed.

Lemma count_oadd_cons : forall e l,
  count_oadd (e :: l) = (match e with Some EAdd => 1 | _ => 0 end) + count_oadd l.
Proof. intros. unfold count_oadd. destruct e as [[]|]; reflexivity. Qed.

Lemma step_adds : forall s o s', step s o = Ok s' ->
  count_oadd (evs s') = count_oadd (evs s) + match o with OBump => 1 | _ => 0 end /\
  idx s' = idx s + match o with OBump => 1 | _ => 0 end.
Proof.
  intros s o s' H. destruct o; cbn [step] in H.
  - inversion H; subst. cbn [start fst evs idx]. rewrite count_oadd_app, count_oadd_cons.
    change (count_oadd []) with 0. lia.
  - unfold complete in H. destruct (nth_error (evs s) pos) as [[e|]|] eqn:E; try discriminate.
    inversion H; subst; clear H. cbn [evs idx].
    destruct (nth_error_split' _ _ _ E) as (a & b & L & Ln). rewrite L. subst pos. rewrite set_nth_split.
    rewrite !count_oadd_app, !count_oadd_cons. change (count_oadd []) with 0. lia.
  - unfold precede in H. destruct (pos <=? length (evs s)); [|discriminate]. inversion H; subst; clear H.
    cbn [fst evs idx]. unfold insert_at. rewrite <- (firstn_skipn pos (evs s)) at 3.
    rewrite !count_oadd_app, count_oadd_cons. lia.
  - inversion H; subst. cbn [bump evs idx]. rewrite count_oadd_app, count_oadd_cons.
    change (count_oadd []) with 0. lia.
Qed.

Theorem bumps_are_addtokens : forall ops s s', run_ops s ops = Ok s' ->
  count_oadd (evs s') = count_oadd (evs s) + count_bumps ops /\ idx s' = idx s + count_bumps ops.
Proof.
  induction ops as [|o ops IH]; simpl; intros s s' H.
  - inversion H; subst. unfold count_bumps. simpl. lia.
  - destruct (step s o) as [s1| |] eqn:E; simpl in H; try discriminate.
    destruct (step_adds _ _ _ E) as [A B]. destruct (IH _ _ H) as [C D].
    unfold count_bumps in *. destruct o; simpl in *; lia.
Qed.

(* ---- bump does not skip trivia (the root cause of finding C23-1) -------------- *)
Definition bump_lands_on_token_full : Prop :=
  forall s k, snd (at_kind s k) = true ->
    (* after looking at a token with at(), two bumps consume two non-trivia tokens *)
    forall k2, at_ahead (fst (at_kind s k)) 1 (tk_eqb k2) = true ->
      snd (at_eof (bump (bump (fst (at_kind s k))))) = true \/
      get_kind (toks s) (S (idx (fst (at_kind s k)))) = Some k2.

Lemma bump_lands_on_token_refuted : ~ bump_lands_on_token_full.
Proof.
  intro H.
  (* `.` ` ` `try` `;` : the second bump consumes the whitespace, `try` is still ahead *)
  specialize (H (mkP [(KTok 1, 1); (KWs, 1); (KTok 2, 3); (KTok 3, 1)] 0 [] []) (KTok 1) eq_refl (KTok 2) eq_refl).
  destruct H as [H | H]; vm_compute in H; discriminate.
Qed.

(* ---- ranges -------------------------------------------------------------------- *)
Lemma start_of_step : forall l i, i < length l -> start_of l i <= start_of l (S i).
Proof.
  induction l as [|t l IH]; simpl; intros i H; [lia|].
  destruct i; simpl; [lia|]. assert (i < length l) by lia. specialize (IH i H0). simpl in IH. lia.
Qed.
Lemma start_of_total : forall l i, i <= length l -> start_of l i <= total l.
Proof.
  unfold total. induction l as [|t l IH]; simpl; intros i H.
  - destruct i; simpl; lia.
  - destruct i; simpl; [lia|]. assert (i <= length l) by lia. specialize (IH i H0). lia.
Qed.

Lemma range_ok : forall l i a b, range l i = Ok (a, b) -> a <= b /\ b <= total l.
Proof.
  unfold range. intros l i a b H. destruct (i <? length l) eqn:E; [|discriminate].
  apply Nat.ltb_lt in E. inversion H; subst. split; [apply start_of_step; assumption | apply start_of_total; lia].
Qed.

Lemma previous_token_range_ok : forall s a b, previous_token_range s = Ok (a, b) -> a <= b /\ b <= total (toks s).
Proof.
  unfold previous_token_range. intros s a b H. destruct (idx s) as [|j].
  - eapply range_ok; eauto.
  - destruct (prev_nontrivia (toks s) j (S (S j))) as [[i|]| |]; try discriminate; eapply range_ok; eauto.
Qed.

Definition errs_in (s : pstate) : Prop := errs_ok (total (toks s)) (errs s) = true.

Lemma errs_ok_app : forall t a b, errs_ok t (a ++ b) = errs_ok t a && errs_ok t b.
Proof. intros. unfold errs_ok. apply forallb_app. Qed.

Lemma complete_keeps : forall s pos k s', complete s pos k = Ok s' -> toks s' = toks s /\ errs s' = errs s.
Proof.
  unfold complete. intros. destruct (nth_error (evs s) pos) as [[e|]|]; try discriminate. inversion H; subst. auto.
Qed.

Lemma at_eof_same : forall s, toks (fst (at_eof s)) = toks s /\ errs (fst (at_eof s)) = errs s.
Proof. intros. split; reflexivity. Qed.
Lemma at_set_same : forall s f, toks (fst (at_set s f)) = toks s /\ errs (fst (at_set s f)) = errs s.
Proof. intros. split; reflexivity. Qed.
Lemma at_kind_same : forall s k, toks (fst (at_kind s k)) = toks s /\ errs (fst (at_kind s k)) = errs s.
Proof. intros. split; reflexivity. Qed.

(* errors_in_range: every error recorded by the machine lies within the input *)
Theorem error_in_range : forall s rs s' m, errs_in s -> error_no_default s rs = Ok (s', m) ->
  errs_in s' /\ toks s' = toks s.
Proof.
  unfold errs_in, error_no_default. intros s rs s' m I H.
  destruct (at_eof_same s) as [T1 E1]. destruct (at_eof s) as [s1 eof]. cbn [fst] in T1, E1.
  destruct (at_set_same s1 rs) as [T2 E2]. destruct (at_set s1 rs) as [s2 inrs]. cbn [fst] in T2, E2.
  destruct (eof || inrs).
  - destruct (previous_token_range s2) as [[a b]| |] eqn:P; cbn [bind] in H; try discriminate.
    inversion H; subst; clear H. cbn [toks errs snd]. split; [|congruence].
    rewrite T2, T1, E2, E1. rewrite errs_ok_app, I. cbn [errs_ok forallb err_ok].
    destruct (previous_token_range_ok _ _ _ P) as [_ Hb]. rewrite T2, T1 in Hb.
    rewrite andb_true_r. apply Nat.leb_le. assumption.
  - destruct (range (toks s2) (idx s2)) as [[a b]| |] eqn:P; cbn [bind] in H; try discriminate.
    unfold start, bump in H. cbn [fst snd toks idx evs errs] in H.
    match type of H with (do s6 <- ?c; _) = _ => destruct c as [s6| |] eqn:C end; cbn [bind] in H; try discriminate.
    inversion H; subst; clear H. destruct (complete_keeps _ _ _ _ C) as [T6 E6]. cbn [toks errs] in T6, E6.
    rewrite T6, E6. split; [|congruence]. rewrite T2, T1, E2, E1. rewrite errs_ok_app, I.
    cbn [errs_ok forallb err_ok fst snd].
    destruct (range_ok _ _ _ _ P) as [Ha Hb]. rewrite T2, T1 in Hb.
    assert ((a <=? b) = true) as -> by (apply Nat.leb_le; lia).
    assert ((b <=? total (toks s)) = true) as -> by (apply Nat.leb_le; lia). reflexivity.
Qed.

Theorem expect_in_range : forall s k rs s', errs_in s -> expect s k rs = Ok s' -> errs_in s' /\ toks s' = toks s.
Proof.
  unfold expect. intros s k rs s' I H.
  destruct (at_kind_same s k) as [T1 E1]. destruct (at_kind s k) as [s1 b]. cbn [fst] in T1, E1.
  destruct b.
  - inversion H; subst. unfold errs_in in *. cbn [bump toks errs]. rewrite T1, E1. auto.
  - destruct (error_no_default s1 rs) as [[s2 m]| |] eqn:C; cbn [bind] in H; try discriminate.
    inversion H; subst. cbn [fst].
    assert (I1 : errs_in s1). { unfold errs_in in *. rewrite T1, E1. assumption. }
    destruct (error_in_range s1 rs s' m I1 C) as [A B]. split; [assumption | congruence].
Qed.

Theorem mark_old_in_range : forall s a b s',
  errs_in s -> (mark_old_missing s a = Ok s' \/ mark_old_unexpected s a b = Ok s') -> errs_in s' /\ toks s' = toks s.
Proof.
  unfold errs_in, mark_old_missing, mark_old_unexpected. intros s a b s' I [H | H].
  - destruct (range (toks s) a) as [[x y]| |] eqn:P; simpl in H; try discriminate. inversion H; subst. simpl.
    split; auto. rewrite errs_ok_app, I. simpl. destruct (range_ok _ _ _ _ P). rewrite andb_true_r. apply Nat.leb_le. lia.
  - destruct (range (toks s) a) as [[x y]| |] eqn:P; simpl in H; try discriminate.
    destruct (range (toks s) b) as [[x2 y2]| |] eqn:P2; simpl in H; try discriminate. inversion H; subst. simpl.
    split; auto. rewrite errs_ok_app, I. simpl. destruct (range_ok _ _ _ _ P). destruct (range_ok _ _ _ _ P2).
    rewrite andb_true_r. apply andb_true_iff. split; apply Nat.leb_le; lia.
Qed.

(* ---- previous_token_range_safe --------------------------------------------------- *)
Definition all_trivia (l : list token) : bool := forallb (fun t => trivia (fst t)) l.

Lemma firstn_snoc : forall {A} (l : list A) n x, nth_error l n = Some x -> firstn (S n) l = firstn n l ++ [x].
Proof.
  induction l as [|a l IH]; intros n x E; destruct n; try discriminate.
  - simpl in E. inversion E; subst. reflexivity.
  - simpl in E. change (firstn (S (S n)) (a :: l)) with (a :: firstn (S n) l).
    change (firstn (S n) (a :: l)) with (a :: firstn n l). rewrite (IH n x E). reflexivity.
Qed.

(* the backwards walk finds a non-trivia token iff there is one *)
Lemma prev_nontrivia_spec : forall l j fuel, j < length l -> j < fuel ->
  (exists i, prev_nontrivia l j fuel = Ok (Some i) /\ i <= j /\ all_trivia (firstn (S j) l) = false) \/
  (prev_nontrivia l j fuel = Ok None /\ all_trivia (firstn (S j) l) = true).
Proof.
  induction j as [|j IH]; intros fuel Hl Hf; (destruct fuel as [|f]; [lia|]); cbn [prev_nontrivia];
    unfold kind_at; destruct (nth_error l _) as [t|] eqn:E; try (apply nth_error_None in E; lia);
    rewrite (firstn_snoc _ _ _ E); unfold all_trivia; rewrite forallb_app; cbn [forallb];
    destruct (trivia (fst t)) eqn:T.
  - right. split; reflexivity.
  - left. exists 0. rewrite andb_false_r. auto.
  - destruct (IH f ltac:(lia) ltac:(lia)) as [(i & P & Hi & A) | (P & A)]; unfold all_trivia in A.
    + left. exists i. split; [exact P|]. split; [lia|]. apply andb_false_iff. left. exact A.
    + right. split; [exact P|]. apply andb_true_iff. split; [exact A | reflexivity].
  - left. exists (S j). rewrite !andb_false_r. auto.
Qed.

(* It panics exactly when the cursor is at the end of the token list and no
   non-trivia token precedes it (an error raised at EOF of an input consisting
   of trivia only). *)
Theorem previous_token_range_safe : forall s, idx s <= length (toks s) ->
  (is_ok (previous_token_range s) = false <->
   idx s = length (toks s) /\ all_trivia (firstn (idx s) (toks s)) = true).
Proof.
  intros s H. unfold previous_token_range. destruct (idx s) as [|j] eqn:EI.
  - unfold range. destruct (0 <? length (toks s)) eqn:E; simpl.
    + apply Nat.ltb_lt in E. split; [discriminate | intros [A _]; lia].
    + apply Nat.ltb_ge in E. split; auto. intros _. split; [lia | reflexivity].
  - destruct (prev_nontrivia_spec (toks s) j (S (S j)) ltac:(lia) ltac:(lia)) as [(i & P & Hi & A) | (P & A)];
      rewrite P.
    + unfold range. assert (i <? length (toks s) = true) as -> by (apply Nat.ltb_lt; lia). simpl.
      split; [discriminate|]. intros [_ B]. change (all_trivia (firstn (S j) (toks s)) = true) in B.
      rewrite A in B. discriminate B.
    + unfold range. destruct (S j <? length (toks s)) eqn:E; simpl.
      * apply Nat.ltb_lt in E. split; [discriminate | intros [B _]; lia].
      * split; auto. intros _. apply Nat.ltb_ge in E. split; [lia | assumption].
Qed.
