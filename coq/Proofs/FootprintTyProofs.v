(* C02, typed layer: the layout numbers that the store-emitting operations obtain
   from TYPES through the model of layout.rs (Model/FootprintTy.v) satisfy the
   layout invariants [wf_op] that Proofs/FootprintProofs.v assumes abstractly; typed
   corollaries of [except_known] / [known_are_violations]. *)
From Capy Require Import Common.Util Common.LTy Common.Layout Spec.CLayout
  Proofs.LayoutSpecProofs Proofs.LayoutProofs Proofs.LayoutRules
  Model.Footprint Spec.FootprintSpec Proofs.FootprintProofs Model.FootprintTy.
Open Scope N_scope.

(* NB: [known_class] is FootprintProofs.known_class (classes of over-wide operations);
   the layout one (array length above u32::MAX) is written [CLayout.known_class]. *)

(* ------------------------------------------------------------------ typed ops *)
Definition op_copy (pw : N) (t : lty) (on_stack : bool) : result op :=
  do v <- vlay_of pw t; Ok (OpCopy (v_size v) v on_stack).

Definition op_variant_to_enum (pw : N) (enum_ty : lty) (idx : nat) (on_stack : bool) : result op :=
  do a <- variant_to_enum_args pw enum_ty idx;
  Ok (OpVariantToEnum (sa_size a) (sa_discr a) (sa_payload a) on_stack).

Definition op_payload_to_optional (pw : N) (sub : lty) (on_stack : bool) : result op :=
  if is_non_zero sub then
    do sz <- size_of pw (LOptional sub);
    do v <- vlay_of pw sub;
    Ok (OpCopy sz v on_stack)
  else
    do a <- payload_to_optional_args pw sub;
    Ok (OpPayloadToUnion (sa_size a) (sa_discr a) (sa_payload a) on_stack).

Definition op_payload_to_error_union (pw : N) (e p : lty) (which on_stack : bool) : result op :=
  do a <- payload_to_error_union_args pw e p which;
  Ok (OpPayloadToUnion (sa_size a) (sa_discr a) (sa_payload a) on_stack).

(* nullable pointer: the store of the pointer-typed zero has the footprint of the
   copy of a (non-aggregate) [sub] value; at pw = 64 this is [OpNil _ _ true], whose
   width is hard-wired to ptr_bytes = 8 in Model/Footprint.v (lemma nil_pointer_64) *)
Definition op_nil (pw : N) (sub : lty) : result op :=
  do sz <- size_of pw (LOptional sub);
  if is_non_zero sub then
    do v <- vlay_of pw sub; Ok (OpCopy sz v false)
  else
    do d <- tag_offset pw (LOptional sub); Ok (OpNil sz d false).

Definition op_memset (pw : N) (t : lty) (on_stack : bool) : result op :=
  do v <- vlay_of pw t; Ok (OpMemset v on_stack).

Definition top_op (pw : N) (c : top) (on_stack : bool) : result op :=
  match c with
  | TCopy t => op_copy pw t on_stack
  | TVariantToEnum e idx => op_variant_to_enum pw e idx on_stack
  | TPayloadToOptional sub => op_payload_to_optional pw sub on_stack
  | TPayloadToErrorUnion e p w => op_payload_to_error_union pw e p w on_stack
  | TNil sub => op_nil pw sub
  | TMemset t => op_memset pw t on_stack
  end.

(* ------------------------------------------------------------------ helpers *)
Lemma non_zero_not_aggregate sub : is_non_zero sub = true -> is_aggregate sub = false.
Proof.
  unfold is_non_zero, is_pointer, is_aggregate.
  destruct (absolute_ty sub); intros H; try discriminate; reflexivity.
Qed.

(* the model's typed footprints are the footprints of the typed [op]s *)
Lemma top_op_fp tw pw c s o : top_op pw c s = Ok o ->
  top_fp tw pw c s = Ok (dest_size o, footprint tw o).
Proof.
  destruct c as [t | e idx | sub | e p w | sub | t]; cbn [top_op top_fp]; intros H.
  - unfold op_copy in H. unfold fp_copy. binds H. inversion H; subst; clear H. rewrite E. reflexivity.
  - unfold op_variant_to_enum in H. unfold fp_variant_to_enum. binds H. inversion H; subst; clear H.
    rewrite E. reflexivity.
  - unfold op_payload_to_optional in H. unfold fp_payload_to_optional.
    destruct (is_non_zero sub).
    + binds H. inversion H; subst; clear H. rewrite E, E0. reflexivity.
    + binds H. inversion H; subst; clear H. rewrite E. reflexivity.
  - unfold op_payload_to_error_union in H. unfold fp_payload_to_error_union.
    binds H. inversion H; subst; clear H. rewrite E. reflexivity.
  - unfold op_nil in H. unfold fp_nil. binds H. rewrite E. cbn [bind].
    destruct (is_non_zero sub) eqn:NZ.
    + binds H. inversion H; subst; clear H. rewrite E0. cbn [bind dest_size footprint].
      unfold write_all.
      assert (v_agg v0 = false) as ->; [| reflexivity].
      unfold vlay_of in E0. binds E0. inversion E0. cbn. apply non_zero_not_aggregate; auto.
    + binds H. inversion H; subst; clear H. rewrite E0. cbn [bind dest_size footprint nil_value].
      reflexivity.
  - unfold op_memset in H. unfold fp_memset. binds H. inversion H; subst; clear H. rewrite E. reflexivity.
Qed.

Lemma top_fp_op tw pw c s x : top_fp tw pw c s = Ok x -> exists o, top_op pw c s = Ok o.
Proof.
  destruct c as [t | e idx | sub | e p w | sub | t]; cbn [top_op top_fp]; intros H.
  - unfold fp_copy in H. unfold op_copy. binds H. rewrite E. cbn [bind]. eauto.
  - unfold fp_variant_to_enum in H. unfold op_variant_to_enum. binds H. rewrite E. cbn [bind]. eauto.
  - unfold fp_payload_to_optional in H. unfold op_payload_to_optional.
    destruct (is_non_zero sub); binds H.
    + rewrite E, E0. cbn [bind]. eauto.
    + rewrite E. cbn [bind]. eauto.
  - unfold fp_payload_to_error_union in H. unfold op_payload_to_error_union.
    binds H. rewrite E. cbn [bind]. eauto.
  - unfold fp_nil in H. unfold op_nil. binds H. rewrite E. cbn [bind].
    destruct (is_non_zero sub); binds H; rewrite E0; cbn [bind]; eauto.
  - unfold fp_memset in H. unfold op_memset. binds H. rewrite E. cbn [bind]. eauto.
Qed.

(* ---- numbers of a value ---------------------------------------------------- *)
Lemma vlay_of_inv pw t v : vlay_of pw t = Ok v ->
  exists r, lay pw t = Ok r /\ stride_of (fst r) (snd r) = Ok (v_stride v) /\
    v_size v = fst r /\ v_bytes v = fst r /\ v_agg v = is_aggregate t.
Proof.
  unfold vlay_of, size_of, stride. intros H.
  destruct (lay pw t) as [r| |] eqn:E; cbn [bind] in H; try discriminate.
  destruct (stride_of (fst r) (snd r)) as [st| |] eqn:S; cbn [bind] in H; try discriminate.
  inversion H; subst; clear H. exists r. cbn. auto.
Qed.

Lemma vlay_of_spec pw t v : ptr_width pw -> wf t -> lens32 t = true -> vlay_of pw t = Ok v ->
  lay pw t = Ok (ideal pw t) /\ v_size v = isize pw t /\ v_stride v = istride pw t /\
  v_bytes v = v_size v /\ v_agg v = is_aggregate t.
Proof.
  intros Hpw W L H. destruct (vlay_of_inv _ _ _ H) as (r & Hl & Hs & A & B & C).
  pose proof (lay_refines pw Hpw t W L r Hl) as R. subst r.
  apply stride_ok in Hs; [| apply (ialign_pow2_le8 pw Hpw t W)]. destruct Hs as [Hs _].
  repeat split; auto. congruence.
Qed.

Lemma vlay_of_layout_info pw t i : layout_info pw t = Ok i ->
  vlay_of pw t = Ok {| v_size := i_size i; v_stride := i_stride i;
                       v_agg := is_aggregate t; v_bytes := i_size i |}.
Proof.
  intros H. destruct (layout_info_inv _ _ _ H) as (Hl & Hs & _).
  unfold vlay_of, size_of, stride. rewrite Hl. cbn [bind fst snd]. rewrite Hs. reflexivity.
Qed.

(* ---- the stride of a part is at most the stride of the whole ------------------ *)
Lemma round_up_least s a m : a <> 0 -> (a | m) -> s <= m -> round_up s a <= m.
Proof.
  intros Ha [k K] L. destruct (round_up_spec s a Ha) as (A & B & (j & J)).
  rewrite J in *. subst m.
  destruct (N.le_gt_cases j k) as [C | C]; [apply N.mul_le_mono_r; exact C |].
  assert ((k + 1) * a <= j * a) by (apply N.mul_le_mono_r; lia). nia.
Qed.

Lemma pow2_8_divide a b : pow2_8 a -> pow2_8 b -> a <= b -> (a | b).
Proof.
  unfold pow2_8. intros [-> | [-> | [-> | ->]]] [-> | [-> | [-> | ->]]] H; try (exfalso; lia);
    first [exists 1; reflexivity | exists 2; reflexivity | exists 4; reflexivity | exists 8; reflexivity].
Qed.

Lemma istride_mono pw a b : ptr_width pw -> wf a -> wf b ->
  isize pw a <= isize pw b -> ialign pw a <= ialign pw b -> istride pw a <= istride pw b.
Proof.
  intros Hpw Wa Wb Hs Ha. unfold istride.
  pose proof (ialign_pow2_le8 pw Hpw a Wa) as Pa. pose proof (ialign_pow2_le8 pw Hpw b Wb) as Pb.
  destruct (round_up_spec (isize pw b) (ialign pw b) (pow2_8_pos _ Pb)) as (A & _ & D).
  apply round_up_least; [apply pow2_8_pos; auto | | lia].
  eapply N.divide_trans; [apply pow2_8_divide; eauto | exact D].
Qed.

Lemma max_align_ge fl f : In f fl -> snd f <= max_align fl.
Proof.
  induction fl as [|g r IH]; cbn [In max_align fold_right]; [tauto |]. fold (max_align r).
  intros [-> | H]; [lia |]. apply IH in H. lia.
Qed.

(* ---- sum types: tag right after the largest payload -------------------------- *)
(* [sub] is a payload type of the tagged union [T] *)
Definition sum_part (pw : N) (T sub : lty) : Prop :=
  wf sub /\ lens32 sub = true /\
  exists d, idiscr pw T = Some d /\ isize pw T = d + 1 /\ isize pw sub <= d /\
            istride pw sub <= istride pw T.

Lemma enum_variant_payload_inv T idx sub : enum_variant_payload T idx = Ok sub ->
  exists u vs e n u' d, absolute_ty T = LEnum u vs /\ nth_error vs idx = Some (LVariant e n u' d sub).
Proof.
  unfold enum_variant_payload. destruct (absolute_ty T); try discriminate.
  destruct (nth_error variants idx) as [v |] eqn:E; try discriminate.
  destruct v; try discriminate. intros H. inversion H; subst. eauto 10.
Qed.

Lemma enum_sum_part pw T u vs idx e n u' d sub : ptr_width pw -> wf T -> lens32 T = true ->
  absolute_ty T = LEnum u vs -> nth_error vs idx = Some (LVariant e n u' d sub) ->
  sum_part pw T sub.
Proof.
  intros Hpw W L A Hn. pose proof (wfb_absolute T W) as WA. pose proof (lens32_absolute T L) as LA.
  rewrite A in WA, LA. cbn [wfb lens32] in WA, LA.
  apply nth_error_In in Hn.
  assert (Wv : wfb (LVariant e n u' d sub) = true) by (rewrite forallb_forall in WA; auto).
  assert (Lv : lens32 (LVariant e n u' d sub) = true) by (rewrite forallb_forall in LA; auto).
  cbn [wfb lens32] in Wv, Lv.
  assert (Hs : isize pw T = max_size (map (ideal pw) vs) + 1).
  { unfold isize. rewrite <- ideal_absolute, A. reflexivity. }
  assert (Ha : ialign pw T = max_align (map (ideal pw) vs)).
  { unfold ialign. rewrite <- ideal_absolute, A. reflexivity. }
  assert (Hin : In (ideal pw sub) (map (ideal pw) vs)).
  { change (ideal pw sub) with (ideal pw (LVariant e n u' d sub)). apply in_map. exact Hn. }
  split; [exact Wv |]. split; [exact Lv |].
  exists (max_size (map (ideal pw) vs)). repeat split.
  - unfold idiscr. rewrite A. reflexivity.
  - exact Hs.
  - apply (max_size_ge _ _ Hin).
  - apply istride_mono; auto.
    + rewrite Hs. pose proof (max_size_ge _ _ Hin). unfold isize. lia.
    + rewrite Ha. apply (max_align_ge _ _ Hin).
Qed.

Lemma optional_sum_part pw sub : ptr_width pw -> wf sub -> lens32 sub = true ->
  is_non_zero sub = false -> sum_part pw (LOptional sub) sub.
Proof.
  intros Hpw W L NZ. split; [exact W |]. split; [exact L |].
  exists (isize pw sub). unfold idiscr, isize, ialign. cbn [absolute_ty ideal]. rewrite NZ. cbn [fst snd].
  repeat split; try lia.
  apply istride_mono; auto; unfold isize, ialign; cbn [ideal]; rewrite NZ; cbn [fst snd]; lia.
Qed.

Lemma eu_sum_part pw e p (which : bool) : ptr_width pw -> wf (LErrorUnion e p) ->
  lens32 (LErrorUnion e p) = true -> sum_part pw (LErrorUnion e p) (if which then p else e).
Proof.
  intros Hpw W L. pose proof W as W0. unfold wf in W. cbn [wfb lens32] in W, L.
  apply andb_true_iff in W. destruct W as [We Wp]. apply andb_true_iff in L. destruct L as [Le Lp].
  assert (forall x, (x = e \/ x = p) -> wf x -> isize pw x <= N.max (isize pw e) (isize pw p) /\
            istride pw x <= istride pw (LErrorUnion e p)) as K.
  { intros x Hx Wx.
    assert (isize pw x <= N.max (isize pw e) (isize pw p)) by (destruct Hx; subst; lia).
    split; auto. apply istride_mono; auto; unfold isize, ialign in *; cbn [ideal fst snd].
    - lia.
    - destruct Hx; subst; lia. }
  destruct which.
  - split; [exact Wp |]. split; [exact Lp |].
    exists (N.max (isize pw e) (isize pw p)). destruct (K p (or_intror eq_refl) Wp). repeat split; auto.
  - split; [exact We |]. split; [exact Le |].
    exists (N.max (isize pw e) (isize pw p)). destruct (K e (or_introl eq_refl) We). repeat split; auto.
Qed.

(* what the accessors return, in terms of layout_info *)
Lemma size_of_layout_info pw T i sz : layout_info pw T = Ok i -> size_of pw T = Ok sz -> sz = i_size i.
Proof.
  intros H S. destruct (layout_info_inv _ _ _ H) as (Hl & _). unfold size_of in S. rewrite Hl in S.
  cbn in S. inversion S. reflexivity.
Qed.

Lemma tag_offset_layout_info pw T i d : layout_info pw T = Ok i -> tag_offset pw T = Ok d ->
  i_discr i = Some d.
Proof.
  intros H S. destruct (layout_info_inv _ _ _ H) as (_ & _ & _ & Hd). unfold tag_offset in S.
  rewrite Hd in S. cbn [bind] in S. destruct (i_discr i); inversion S. reflexivity.
Qed.

Lemma payload_wf pw T sub i p d : ptr_width pw -> wf T -> lens32 T = true ->
  layout_info pw T = Ok i -> i_stride i <= LIMIT ->
  sum_part pw T sub -> idiscr pw T = Some d -> payload_of pw sub = Ok p -> wf_payload p d.
Proof.
  intros Hpw W L HI HL (Ws & Ls & d' & Hd & Hsz & Hle & Hst) Hd2 HP.
  rewrite Hd in Hd2. inversion Hd2; subst d'; clear Hd2.
  destruct (layout_info_refines pw Hpw T W L i HI) as (_ & _ & Hstr & _).
  unfold payload_of in HP. destruct (is_zero_sized sub); [inversion HP; exact I |].
  binds HP. inversion HP; subst; clear HP. cbn [wf_payload].
  destruct (vlay_of_spec pw sub v Hpw Ws Ls E) as (_ & S1 & S2 & S3 & _).
  unfold wf_vlay. rewrite S1, S2. repeat split; auto.
  - apply istride_spec; auto.
  - lia.
  - intros _. congruence.
Qed.

(* ---- the typed operations satisfy the layout invariants -------------------- *)
Section Typed.
  Variable pw : N.
  Hypothesis Hpw : ptr_width pw.

  Lemma sum_args_wf T sub i sz d p : wf T -> lens32 T = true ->
    layout_info pw T = Ok i -> i_stride i <= LIMIT -> sum_part pw T sub ->
    size_of pw T = Ok sz -> tag_offset pw T = Ok d -> payload_of pw sub = Ok p ->
    (d + 1 = sz /\ wf_payload p d) /\ sz = i_size i.
  Proof.
    intros W L HI HL SP HS HT HP.
    pose proof (size_of_layout_info _ _ _ _ HI HS) as ->.
    pose proof (tag_offset_layout_info _ _ _ _ HI HT) as HD.
    destruct (layout_info_refines pw Hpw T W L i HI) as (Hsz & _ & _ & _ & Hdi).
    rewrite Hdi in HD.
    split; [| reflexivity]. split.
    - destruct SP as (_ & _ & d' & Hd' & Hs' & _). rewrite Hd' in HD. inversion HD; subst. lia.
    - eapply payload_wf; eauto.
  Qed.

  Lemma copy_wf t i : wf t -> lens32 t = true -> layout_info pw t = Ok i -> i_stride i <= LIMIT ->
    wf_vlay {| v_size := i_size i; v_stride := i_stride i; v_agg := is_aggregate t; v_bytes := i_size i |}.
  Proof.
    intros W L HI HL. destruct (model_stride pw Hpw t i W L HI) as (_ & S & _).
    unfold wf_vlay. cbn. auto.
  Qed.

  (* a nullable-pointer optional is laid out exactly like its payload *)
  Lemma nullable_copy_wf sub i sz v : wf sub -> lens32 sub = true -> is_non_zero sub = true ->
    layout_info pw (LOptional sub) = Ok i -> i_stride i <= LIMIT ->
    size_of pw (LOptional sub) = Ok sz -> vlay_of pw sub = Ok v ->
    (wf_vlay v /\ sz = v_size v) /\ sz = i_size i.
  Proof.
    intros W L NZ HI HL HS HV.
    pose proof (size_of_layout_info _ _ _ _ HI HS) as ->.
    destruct (layout_info_refines pw Hpw (LOptional sub) W L i HI) as (Hsz & _ & Hst & _).
    destruct (vlay_of_spec pw sub v Hpw W L HV) as (_ & S1 & S2 & S3 & _).
    assert (ideal pw (LOptional sub) = ideal pw sub) as EQ by (cbn [ideal]; rewrite NZ; reflexivity).
    assert (isize pw (LOptional sub) = isize pw sub) as E1 by (unfold isize; rewrite EQ; reflexivity).
    assert (istride pw (LOptional sub) = istride pw sub) as E2
      by (unfold istride, isize, ialign; rewrite EQ; reflexivity).
    split; [| reflexivity]. split; [| congruence].
    unfold wf_vlay. rewrite S1, S2. repeat split; auto.
    - apply istride_spec; auto.
    - rewrite <- E2, <- Hst. exact HL.
    - intros _. congruence.
  Qed.

  Theorem typed_wf_op c s i o :
    wf (top_dest c) -> CLayout.known_class (top_dest c) = None ->
    layout_info pw (top_dest c) = Ok i -> i_stride i <= LIMIT ->
    top_op pw c s = Ok o -> wf_op o /\ dest_size o = i_size i.
  Proof.
    intros W K HI HL H. apply known_class_lens in K.
    destruct c as [t | T idx | sub | e p w | sub | t]; cbn [top_dest top_op] in *.
    - unfold op_copy in H. rewrite (vlay_of_layout_info _ _ _ HI) in H. cbn [bind] in H.
      inversion H; subst; clear H. cbn [wf_op dest_size v_size].
      split; [split; [apply copy_wf; auto | reflexivity] | reflexivity].
    - unfold op_variant_to_enum in H. binds H. inversion H; subst; clear H.
      unfold variant_to_enum_args in E. binds E. inversion E; subst; clear E.
      cbn [wf_op dest_size sa_size sa_discr sa_payload].
      destruct (enum_variant_payload_inv _ _ _ E0) as (u & vs & e & n & u' & d & A & Hn).
      eapply sum_args_wf; eauto. eapply enum_sum_part; eauto.
    - unfold op_payload_to_optional in H. destruct (is_non_zero sub) eqn:NZ.
      + binds H. inversion H; subst; clear H. cbn [wf_op dest_size].
        eapply (nullable_copy_wf sub); eauto.
      + binds H. inversion H; subst; clear H.
        unfold payload_to_optional_args in E. binds E. inversion E; subst; clear E.
        cbn [wf_op dest_size sa_size sa_discr sa_payload].
        eapply sum_args_wf; eauto. apply optional_sum_part; auto.
    - unfold op_payload_to_error_union in H. binds H. inversion H; subst; clear H.
      unfold payload_to_error_union_args in E. binds E. inversion E; subst; clear E.
      cbn [wf_op dest_size sa_size sa_discr sa_payload].
      eapply sum_args_wf; eauto. apply eu_sum_part; auto.
    - unfold op_nil in H. binds H. destruct (is_non_zero sub) eqn:NZ.
      + binds H. inversion H; subst; clear H. cbn [wf_op dest_size].
        eapply (nullable_copy_wf sub); eauto.
      + binds H. inversion H; subst; clear H. cbn [wf_op dest_size].
        pose proof (size_of_layout_info _ _ _ _ HI E) as ->.
        pose proof (tag_offset_layout_info _ _ _ _ HI E0) as HD.
        destruct (C17_tag_optional_lemma pw Hpw sub i W ltac:(unfold CLayout.known_class; cbn [lens32] in K; rewrite K; reflexivity) NZ HI)
          as (d & Hd & Hs & _).
        rewrite Hd in HD. inversion HD; subst. split; [lia | reflexivity].
    - unfold op_memset in H. rewrite (vlay_of_layout_info _ _ _ HI) in H. cbn [bind] in H.
      inversion H; subst; clear H. cbn [wf_op dest_size v_size]. split; [| reflexivity]. apply copy_wf; auto.
  Qed.

  (* outside the known classes every typed operation stays inside its destination *)
  Theorem typed_except_known tw c s i o :
    wf (top_dest c) -> CLayout.known_class (top_dest c) = None ->
    layout_info pw (top_dest c) = Ok i -> i_stride i <= LIMIT ->
    top_op pw c s = Ok o -> known_class tw o = None ->
    within (i_size i) (footprint tw o) = true.
  Proof.
    intros W K HI HL H KC. destruct (typed_wf_op c s i o W K HI HL H) as [WO <-].
    apply except_known; auto.
  Qed.

  (* ... and inside the classes 1-4 it does not *)
  Theorem typed_known_are_violations tw c s i o k :
    wf (top_dest c) -> CLayout.known_class (top_dest c) = None ->
    layout_info pw (top_dest c) = Ok i -> i_stride i <= LIMIT ->
    top_op pw c s = Ok o -> known_class tw o = Some k -> tw <= 8 ->
    within (i_size i) (footprint tw o) = false.
  Proof.
    intros W K HI HL H KC TW. destruct (typed_wf_op c s i o W K HI HL H) as [WO <-].
    apply (known_are_violations tw o k); auto.
    intros ->. destruct c as [t | T idx | sub | e p w | sub | t]; cbn [top_op] in H.
    - unfold op_copy in H. binds H. inversion H; subst. cbn in KC. destruct (_ && _); discriminate.
    - unfold op_variant_to_enum in H. binds H. inversion H; subst. cbn in KC.
      destruct (1 <? tw); [discriminate |]. destruct (payload_over _ _); discriminate.
    - unfold op_payload_to_optional in H. destruct (is_non_zero sub); binds H; inversion H; subst; cbn in KC.
      + destruct (_ && _); discriminate.
      + destruct (payload_over _ _); discriminate.
    - unfold op_payload_to_error_union in H. binds H. inversion H; subst. cbn in KC.
      destruct (payload_over _ _); discriminate.
    - unfold op_nil in H. binds H. destruct (is_non_zero sub); binds H; inversion H; subst; cbn in KC.
      + destruct (_ && _); discriminate.
      + discriminate.
    - unfold op_memset in H. binds H. inversion H; subst. cbn [known_class] in KC.
      destruct s; [| discriminate]. destruct (_ || _); discriminate.
  Qed.

  (* write_all of a value of type t into an object of type t stays inside the object
     exactly when t is not an aggregate or its stride equals its size *)
  Theorem copy_within_iff tw t s i o :
    wf t -> CLayout.known_class t = None -> layout_info pw t = Ok i -> i_stride i <= LIMIT ->
    op_copy pw t s = Ok o ->
    (within (i_size i) (footprint tw o) = true <-> (is_aggregate t = false \/ i_stride i = i_size i)).
  Proof.
    intros W K HI HL H. pose proof (known_class_lens _ K) as L.
    unfold op_copy in H. rewrite (vlay_of_layout_info _ _ _ HI) in H. cbn [bind] in H.
    inversion H; subst o; clear H. cbn [footprint v_size].
    rewrite within_hi, (hi_write_all _ s (copy_wf t i W L HI HL)). cbn [v_agg v_stride v_bytes].
    destruct (model_stride pw Hpw t i W L HI) as (_ & S & _).
    rewrite N.leb_le. destruct (is_aggregate t); split; intros A.
    - right; lia.
    - destruct A; [discriminate | lia].
    - left; reflexivity.
    - lia.
  Qed.
End Typed.

(* at pw = 64 the nil store of a nullable pointer is Footprint.v's [OpNil _ _ true]
   (whose width is ptr_bytes = 8): same footprint, and its invariant holds
   (C17: a nullable-pointer optional is exactly pointer sized) *)
Lemma nil_pointer_64 tw sub i o : is_non_zero sub = true ->
  layout_info 64 (LOptional sub) = Ok i -> op_nil 64 sub = Ok o ->
  wf_op (OpNil (i_size i) 0 true) /\ dest_size o = i_size i /\
  footprint tw o = footprint tw (OpNil (i_size i) 0 true).
Proof.
  intros NZ HI H. destruct (model_optional_pointer 64 sub i NZ HI) as [Hs _].
  unfold op_nil in H. binds H. rewrite NZ in H. binds H. inversion H; subst; clear H.
  pose proof (size_of_layout_info _ _ _ _ HI E) as ->.
  destruct (vlay_of_inv _ _ _ E0) as (r & Hl & _ & _ & Hb & Ha).
  pose proof (non_zero_lay 64 sub r NZ Hl) as Hr.
  cbn [wf_op dest_size footprint nil_value]. split; [rewrite Hs; reflexivity |]. split; [reflexivity |].
  unfold write_all. rewrite Ha, (non_zero_not_aggregate sub NZ), Hb, Hr. reflexivity.
Qed.

(* ================================================================ literals *)
Section LitInd.
  Variable P : lit -> Prop.
  Hypothesis HVal : P LitVal.
  Hypothesis HStruct : forall fs, Forall (fun f => P (snd f)) fs -> P (LitStruct fs).
  Hypothesis HArray : forall its, Forall P its -> P (LitArray its).

  Fixpoint lit_ind' (l : lit) : P l :=
    match l with
    | LitVal => HVal
    | LitStruct fs =>
        HStruct fs ((fix go (fs : list (N * lit)) : Forall (fun f => P (snd f)) fs :=
                       match fs with
                       | [] => Forall_nil _
                       | (n, x) :: r => Forall_cons (n, x) (lit_ind' x) (go r)
                       end) fs)
    | LitArray its =>
        HArray its ((fix go (its : list lit) : Forall P its :=
                       match its with
                       | [] => Forall_nil _
                       | x :: r => Forall_cons x (lit_ind' x) (go r)
                       end) its)
    end.
End LitInd.

(* two byte ranges have no byte in common *)
Definition ranges_disjoint (a b : range) : Prop :=
  fst a + snd a <= fst b \/ fst b + snd b <= fst a.

(* ---- list helpers ------------------------------------------------------------ *)
Lemma Forall2_nth_l {A B} (R : A -> B -> Prop) l1 l2 : Forall2 R l1 l2 ->
  forall k a, nth_error l1 k = Some a -> exists b, nth_error l2 k = Some b /\ R a b.
Proof.
  induction 1 as [| x y r1 r2 Hxy Hr IH]; intros k a Hk; [destruct k; discriminate |].
  destruct k as [| k]; cbn in Hk |- *; [inversion Hk; subst; eauto | eauto].
Qed.

Lemma Forall2_In_r {A B} (R : A -> B -> Prop) l1 l2 : Forall2 R l1 l2 ->
  forall b, In b l2 -> exists a, In a l1 /\ R a b.
Proof.
  induction 1 as [| x y r1 r2 Hxy Hr IH]; intros b Hb; [destruct Hb |].
  destruct Hb as [-> | Hb]; [exists x; split; [left; reflexivity | exact Hxy] |].
  destruct (IH b Hb) as (a & Ha & Rab). exists a. split; [right; exact Ha | exact Rab].
Qed.

Lemma find_member_nth name ms : forall k idx ty, find_member name ms k = Some (idx, ty) ->
  (k <= idx)%nat /\ nth_error ms (idx - k) = Some (name, ty).
Proof.
  induction ms as [| m r IH]; intros k idx ty H; cbn [find_member] in H; [discriminate |].
  destruct (fst m =? name) eqn:E.
  - inversion H; subst. apply N.eqb_eq in E. split; [lia |]. rewrite Nat.sub_diag. cbn.
    destruct m; cbn in *; subst; reflexivity.
  - apply IH in H. destruct H as [L H]. split; [lia |].
    replace (idx - k)%nat with (S (idx - S k)) by lia. exact H.
Qed.

Lemma find_member_diff n1 n2 ms i1 i2 t1 t2 : n1 <> n2 ->
  find_member n1 ms 0 = Some (i1, t1) -> find_member n2 ms 0 = Some (i2, t2) -> i1 <> i2.
Proof.
  intros D H1 H2 ->. apply find_member_nth in H1, H2. destruct H1 as [_ H1]. destruct H2 as [_ H2].
  rewrite H1 in H2. inversion H2. contradiction.
Qed.

(* ---- footprints inside a slot ---------------------------------------------- *)
Lemma within_shift size sz off fp : within sz fp = true -> off + sz <= size ->
  within size (shift off fp) = true.
Proof.
  intros H L. unfold within, shift in *. rewrite forallb_forall in *. intros [o w] Hin.
  apply in_map_iff in Hin. destruct Hin as ([o' w'] & Heq & Hin). inversion Heq; subst; clear Heq.
  specialize (H _ Hin). cbn in H. apply N.leb_le in H. apply N.leb_le. lia.
Qed.

Lemma within_store_parts size parts :
  Forall (fun p => within size (shift (fst p) (snd p)) = true) parts ->
  within size (store_parts parts) = true.
Proof.
  induction 1 as [| [off fp] r H Hr IH]; [reflexivity |].
  cbn [store_parts]. rewrite within_app. cbn [fst snd] in H. rewrite H, IH. reflexivity.
Qed.

Lemma in_shift_slot r off sz fp : within sz fp = true -> In r (shift off fp) ->
  off <= fst r /\ fst r + snd r <= off + sz.
Proof.
  intros H Hin. unfold shift in Hin. apply in_map_iff in Hin.
  destruct Hin as ([o w] & Heq & Hin). subst r. cbn [fst snd].
  unfold within in H. rewrite forallb_forall in H. specialize (H _ Hin). cbn in H.
  apply N.leb_le in H. lia.
Qed.

Lemma hi_write_all_weak t s : (v_agg t = true -> v_stride t <= LIMIT) ->
  hi (write_all t s) = if v_agg t then v_stride t else v_bytes t.
Proof.
  intros H. unfold write_all. destruct (v_agg t); [| cbn; lia].
  destruct s; [apply narrow_loops_hi; auto |].
  destruct (v_stride t =? 0) eqn:E; [apply N.eqb_eq in E; rewrite E; reflexivity | cbn; lia].
Qed.

(* ---- inversion of the part loops ---------------------------------------------- *)
Lemma struct_parts_inv F ms offs fs : forall parts, struct_parts F ms offs fs = Ok parts ->
  Forall2 (fun f p => exists idx ty, find_member (fst f) ms 0 = Some (idx, ty) /\
                        nth_error offs idx = Some (fst p) /\ F (snd f) ty = Ok (snd p)) fs parts.
Proof.
  induction fs as [| f r IH]; intros parts H; cbn [struct_parts] in H.
  - inversion H. constructor.
  - destruct (find_member (fst f) ms 0) as [[idx ty] |] eqn:FM; try discriminate.
    destruct (nth_error offs idx) as [off |] eqn:NO; try discriminate.
    binds H. inversion H; subst; clear H. constructor; [| apply IH; auto].
    exists idx, ty. cbn [fst snd]. auto.
Qed.

Lemma array_parts_inv F sub st items : forall k parts, array_parts F sub st k items = Ok parts ->
  length parts = length items /\
  forall j p, nth_error parts j = Some p ->
    exists v, nth_error items j = Some v /\ fst p = (k + N.of_nat j) * st /\ F v sub = Ok (snd p).
Proof.
  induction items as [| v r IH]; intros k parts H; cbn [array_parts] in H.
  - inversion H. split; [reflexivity |]. intros j p Hj. destruct j; discriminate.
  - binds H. inversion H; subst; clear H. apply mul32_ok in E. destruct E as [-> _].
    destruct (IH _ _ E1) as [Hlen Hnth]. split; [cbn [length]; congruence |].
    intros j p Hj. destruct j as [| j]; cbn [nth_error] in Hj |- *.
    + inversion Hj; subst. exists v. cbn [fst snd]. repeat split; auto. f_equal. lia.
    + destruct (Hnth j p Hj) as (x & Hx & Hp & HF). exists x. repeat split; auto.
      rewrite Hp. f_equal. lia.
Qed.

(* ---- what the layout says about the parts, in terms of the specification ------- *)
Section Slots.
  Variable pw : N.
  Hypothesis Hpw : ptr_width pw.

  Lemma as_struct_cases t ms : as_struct t = Some ms ->
    absolute_ty t = LAnonStruct ms \/ exists u, absolute_ty t = LStruct u ms.
  Proof.
    unfold as_struct. destruct (absolute_ty t); intros H; inversion H; subst; eauto.
  Qed.

  Lemma as_array_cases t n sub : as_array t = Some (n, sub) ->
    absolute_ty t = LAnonArray n sub \/ absolute_ty t = LArray n sub.
  Proof.
    unfold as_array. destruct (absolute_ty t); intros H; inversion H; subst; eauto.
  Qed.

  Lemma struct_members_wf t ms : wf t -> lens32 t = true -> as_struct t = Some ms ->
    forallb (fun m => wfb (snd m)) ms = true /\ forallb (fun m => lens32 (snd m)) ms = true /\
    isize pw t = snd (c_offsets (ideal_fields pw ms) 0).
  Proof.
    intros W L A. pose proof (wfb_absolute t W) as WA. pose proof (lens32_absolute t L) as LA.
    unfold isize. rewrite <- ideal_absolute.
    destruct (as_struct_cases _ _ A) as [E | [u E]]; rewrite E in *; cbn [wfb lens32] in WA, LA; auto.
  Qed.

  Lemma struct_slots t ms offs : wf t -> lens32 t = true -> as_struct t = Some ms ->
    struct_offsets pw t = Ok (Some offs) ->
    chain 0 (ideal_fields pw ms) offs (isize pw t) /\ length offs = length ms.
  Proof.
    intros W L A H. destruct (struct_members_wf t ms W L A) as (WM & LM & Hsz).
    pose proof (struct_offsets_refines pw Hpw t W L _ H) as Ho. unfold ioffsets in Ho.
    destruct (struct_fields_spec pw ms Hpw WM) as (_ & S2 & S3).
    assert (offs = c_offsetof (ideal_fields pw ms)) as ->.
    { destruct (as_struct_cases _ _ A) as [E | [u E]]; rewrite E in Ho; inversion Ho; reflexivity. }
    rewrite Hsz. split; assumption.
  Qed.

  (* the slot of the member found under a name *)
  Lemma member_slot t ms offs name idx ty off : wf t -> lens32 t = true -> as_struct t = Some ms ->
    struct_offsets pw t = Ok (Some offs) ->
    find_member name ms 0 = Some (idx, ty) -> nth_error offs idx = Some off ->
    wf ty /\ lens32 ty = true /\ off + isize pw ty <= isize pw t /\
    nth_error (ideal_fields pw ms) idx = Some (ideal pw ty).
  Proof.
    intros W L A H FM NO. destruct (struct_members_wf t ms W L A) as (WM & LM & _).
    destruct (struct_slots t ms offs W L A H) as [C _].
    apply find_member_nth in FM. destruct FM as [_ FM]. rewrite Nat.sub_0_r in FM.
    assert (nth_error (ideal_fields pw ms) idx = Some (ideal pw ty)) as NI.
    { unfold ideal_fields. rewrite (map_nth_error _ _ _ FM). reflexivity. }
    pose proof (nth_error_In _ _ FM) as Hin.
    rewrite forallb_forall in WM, LM. specialize (WM _ Hin). specialize (LM _ Hin). cbn [snd] in WM, LM.
    destruct (chain_nth _ _ _ _ C idx _ _ NI NO) as [_ C2].
    repeat split; auto.
  Qed.

  Lemma stride_spec sub st : wf sub -> lens32 sub = true -> stride pw sub = Ok st ->
    st = istride pw sub /\ lay pw sub = Ok (ideal pw sub).
  Proof.
    intros W L H. unfold stride in H. binds H.
    pose proof (lay_refines pw Hpw sub W L _ E) as ->.
    apply stride_ok in H; [| apply (ialign_pow2_le8 pw Hpw sub W)]. destruct H as [-> _]. auto.
  Qed.

  Lemma array_elem_wf t n sub : wf t -> lens32 t = true -> as_array t = Some (n, sub) ->
    wf sub /\ lens32 sub = true /\ isize pw t = n * istride pw sub.
  Proof.
    intros W L A. pose proof (wfb_absolute t W) as WA. pose proof (lens32_absolute t L) as LA.
    unfold isize at 1. rewrite <- ideal_absolute.
    destruct (as_array_cases _ _ _ A) as [E | E]; rewrite E in *; cbn [wfb lens32] in WA, LA;
      apply andb_true_iff in LA; destruct LA as [_ LA]; cbn [ideal fst]; auto.
  Qed.

  (* ---- B2: a literal whose computed leaves are copied narrowly stays inside ------ *)
  Variable s : bool.

  Definition lit_within_at (l : lit) : Prop := forall t fp,
    wf t -> lens32 t = true -> isize pw t <= LIMIT ->
    lit_wt l t = true -> lit_leaves_narrow pw l t = true ->
    lit_footprint pw s l t = Ok fp -> within (isize pw t) fp = true.

  Lemma lit_within_val : lit_within_at LitVal.
  Proof.
    intros t fp W L HL _ HN H. cbn [lit_footprint lit_leaves_narrow] in *. unfold narrow_ty in HN.
    binds H. inversion H; subst; clear H. rewrite E in HN.
    destruct (vlay_of_spec pw t v Hpw W L E) as (_ & S1 & S2 & S3 & _).
    rewrite within_hi. apply N.leb_le.
    apply orb_true_iff in HN. rewrite negb_true_iff, N.eqb_eq in HN.
    rewrite hi_write_all_weak.
    - destruct (v_agg v); [destruct HN; [discriminate | lia] | lia].
    - intros A. destruct HN as [HN | HN]; [congruence | lia].
  Qed.

  Lemma lit_within_gen : forall l, lit_within_at l.
  Proof.
    induction l using lit_ind'.
    - apply lit_within_val.
    - (* struct literal *)
      intros t fp W L HL HW HN HF. cbn [lit_footprint lit_wt lit_leaves_narrow] in *.
      destruct (as_struct t) as [ms |] eqn:A; try discriminate.
      binds HF. destruct v as [offs |]; try discriminate. binds HF. inversion HF; subst; clear HF.
      apply within_store_parts. apply struct_parts_inv in E0.
      rewrite Forall_forall. intros p Hp.
      destruct (Forall2_In_r _ _ _ E0 p Hp) as (f & Hf & idx & ty & FM & NO & HFp).
      rewrite Forall_forall in H. specialize (H f Hf).
      rewrite forallb_forall in HW, HN. specialize (HW f Hf). specialize (HN f Hf).
      rewrite FM in HW, HN.
      destruct (member_slot t ms offs _ idx ty (fst p) W L A E FM NO) as (Wt & Lt & Slot & _).
      apply (within_shift _ (isize pw ty)); [| exact Slot].
      apply H; auto. lia.
    - (* array literal *)
      intros t fp W L HL HW HN HF. cbn [lit_footprint lit_wt lit_leaves_narrow] in *.
      destruct (as_array t) as [[n sub] |] eqn:A; try discriminate.
      destruct (array_elem_wf t n sub W L A) as (Ws & Ls & Hsz).
      binds HF. inversion HF; subst; clear HF.
      destruct (stride_spec sub v Ws Ls E) as [-> _].
      apply andb_true_iff in HW. destruct HW as [Hlen HW]. apply N.eqb_eq in Hlen.
      apply within_store_parts. destruct (array_parts_inv _ _ _ _ _ _ E0) as [Hl Hnth].
      rewrite Forall_forall. intros p Hp. apply In_nth_error in Hp. destruct Hp as [j Hj].
      destruct (Hnth j p Hj) as (x & Hx & Hoff & HFx).
      pose proof (nth_error_In _ _ Hx) as Hin.
      rewrite Forall_forall in H. specialize (H x Hin).
      rewrite forallb_forall in HW, HN. specialize (HW x Hin). specialize (HN x Hin).
      assert (N.of_nat j < n) as Hjn.
      { rewrite <- Hlen. assert (j < length its)%nat by (apply nth_error_Some; congruence). lia. }
      destruct (istride_spec pw Hpw sub Ws) as (_ & S1 & _).
      assert ((N.of_nat j + 1) * istride pw sub <= n * istride pw sub) as M
        by (apply N.mul_le_mono_r; lia).
      apply (within_shift _ (isize pw sub)).
      + apply H; auto. nia.
      + rewrite Hoff, Hsz. nia.
  Qed.
End Slots.

(* ---- B2, on what the model of layout.rs returns ---------------------------------- *)
Theorem lit_within pw : ptr_width pw -> forall s l t i fp,
  wf t -> CLayout.known_class t = None -> layout_info pw t = Ok i -> i_size i <= LIMIT ->
  lit_wt l t = true -> lit_leaves_narrow pw l t = true ->
  lit_footprint pw s l t = Ok fp -> within (i_size i) fp = true.
Proof.
  intros Hpw s l t i fp W K HI HL HW HN HF. pose proof (known_class_lens _ K) as L.
  destruct (layout_info_refines pw Hpw t W L i HI) as (Hsz & _).
  rewrite Hsz in *. apply (lit_within_gen pw Hpw s l t fp); auto.
Qed.

(* the footprint of a struct / array literal is the concatenation of its parts' *)
Lemma lit_struct_footprint pw s fs t fp : lit_footprint pw s (LitStruct fs) t = Ok fp ->
  exists ms offs parts, as_struct t = Some ms /\ struct_offsets pw t = Ok (Some offs) /\
    fp = store_parts parts /\
    Forall2 (fun f p => exists idx ty, find_member (fst f) ms 0 = Some (idx, ty) /\
               nth_error offs idx = Some (fst p) /\
               lit_footprint pw s (snd f) ty = Ok (snd p)) fs parts.
Proof.
  intros H. cbn [lit_footprint] in H. destruct (as_struct t) as [ms |]; try discriminate.
  binds H. destruct v as [offs |]; try discriminate. binds H. inversion H; subst; clear H.
  exists ms, offs, v. repeat split; auto. apply struct_parts_inv. exact E0.
Qed.

Lemma lit_array_footprint pw s items t fp : lit_footprint pw s (LitArray items) t = Ok fp ->
  exists n sub st parts, as_array t = Some (n, sub) /\ stride pw sub = Ok st /\
    fp = store_parts parts /\ length parts = length items /\
    forall j p, nth_error parts j = Some p ->
      exists v, nth_error items j = Some v /\ fst p = N.of_nat j * st /\
                lit_footprint pw s v sub = Ok (snd p).
Proof.
  intros H. cbn [lit_footprint] in H. destruct (as_array t) as [[n sub] |]; try discriminate.
  binds H. inversion H; subst; clear H.
  destruct (array_parts_inv _ _ _ _ _ _ E0) as [Hl Hn].
  exists n, sub, v, v0. repeat split; auto.
Qed.

(* ---- B1: the parts' slots lie inside the object and are pairwise disjoint -------- *)
Lemma fields_nth pw ms : forall fl, fields pw ms = Ok fl ->
  forall k m, nth_error ms k = Some m -> exists f, nth_error fl k = Some f /\ lay pw (snd m) = Ok f.
Proof.
  induction ms as [| m0 r IH]; intros fl H k m Hk; [destruct k; discriminate |].
  cbn [fields] in H. binds H. inversion H; subst; clear H.
  destruct k as [| k]; cbn [nth_error] in Hk |- *; [inversion Hk; subst; eauto | eauto].
Qed.

Theorem lit_struct_parts_in_place pw : ptr_width pw -> forall t ms i,
  wf t -> CLayout.known_class t = None -> as_struct t = Some ms -> layout_info pw t = Ok i ->
  exists offs, i_offsets i = Some offs /\ length offs = length ms /\
    (forall name idx ty, find_member name ms 0 = Some (idx, ty) ->
       exists off sz, nth_error offs idx = Some off /\ size_of pw ty = Ok sz /\
                      off + sz <= i_size i) /\
    (forall n1 n2 i1 i2 t1 t2 o1 o2 s1 s2, n1 <> n2 ->
       find_member n1 ms 0 = Some (i1, t1) -> find_member n2 ms 0 = Some (i2, t2) ->
       nth_error offs i1 = Some o1 -> nth_error offs i2 = Some o2 ->
       size_of pw t1 = Ok s1 -> size_of pw t2 = Ok s2 ->
       o1 + s1 <= o2 \/ o2 + s2 <= o1).
Proof.
  intros Hpw t ms i W K A HI.
  destruct (C17_struct_lemma pw Hpw t ms i W K (as_struct_cases _ _ A) HI)
    as (fl & offs & HF & HO & HLen & _ & C).
  exists offs. split; [exact HO |]. split; [exact HLen |].
  assert (forall name idx ty sz, find_member name ms 0 = Some (idx, ty) -> size_of pw ty = Ok sz ->
            exists f, nth_error fl idx = Some f /\ fst f = sz) as SZ.
  { intros name idx ty sz FM HS. apply find_member_nth in FM. destruct FM as [_ FM].
    rewrite Nat.sub_0_r in FM. destruct (fields_nth pw ms fl HF idx _ FM) as (f & Hf & Hl).
    cbn [snd] in Hl. unfold size_of in HS. rewrite Hl in HS. cbn in HS. inversion HS. eauto. }
  split.
  - intros name idx ty FM. pose proof FM as FM0.
    apply find_member_nth in FM. destruct FM as [_ FM]. rewrite Nat.sub_0_r in FM.
    destruct (fields_nth pw ms fl HF idx _ FM) as (f & Hf & Hl). cbn [snd] in Hl.
    destruct (nth_error offs idx) as [off |] eqn:NO.
    + exists off, (fst f). split; [reflexivity |]. split; [unfold size_of; rewrite Hl; reflexivity |].
      apply (chain_nth _ _ _ _ C idx f off Hf NO).
    + exfalso. apply nth_error_None in NO.
      assert (idx < length ms)%nat by (apply nth_error_Some; congruence). lia.
  - intros n1 n2 i1 i2 t1 t2 o1 o2 s1 s2 D F1 F2 O1 O2 S1 S2.
    pose proof (find_member_diff _ _ _ _ _ _ _ D F1 F2) as NE.
    destruct (SZ _ _ _ _ F1 S1) as (f1 & Hf1 & <-). destruct (SZ _ _ _ _ F2 S2) as (f2 & Hf2 & <-).
    destruct (Nat.lt_total i1 i2) as [Lt | [Eq | Gt]]; [| contradiction |].
    + left. apply (chain_disjoint _ _ _ _ C i1 i2 f1 o1 o2 Lt Hf1 O1 O2).
    + right. apply (chain_disjoint _ _ _ _ C i2 i1 f2 o2 o1 Gt Hf2 O2 O1).
Qed.

Lemma lay_absolute pw t : forall r, lay pw t = Ok r -> lay pw (absolute_ty t) = Ok r.
Proof.
  induction t using lty_ind'; intros r Hr; cbn [absolute_ty]; auto.
  - apply IHt. eapply lay_wrap_inv; eauto.
  - apply IHt. eapply lay_wrap_inv; eauto 10.
Qed.

Theorem lit_array_parts_in_place pw : ptr_width pw -> forall t n sub i,
  wf t -> CLayout.known_class t = None -> as_array t = Some (n, sub) -> layout_info pw t = Ok i ->
  exists st sz, stride pw sub = Ok st /\ size_of pw sub = Ok sz /\
    i_size i = n * st /\ sz <= st /\
    (forall k, k < n -> k * st + sz <= i_size i) /\
    (forall k1 k2, k1 < k2 -> k1 * st + sz <= k2 * st).
Proof.
  intros Hpw t n sub i W K A HI. pose proof (known_class_lens _ K) as L.
  destruct (array_elem_wf pw t n sub W L A) as (Ws & Ls & Hsz).
  destruct (layout_info_refines pw Hpw t W L i HI) as (Hs & _).
  destruct (layout_info_inv _ _ _ HI) as (Hl & _). apply lay_absolute in Hl.
  assert (exists e st, lay pw sub = Ok e /\ stride_of (fst e) (snd e) = Ok st) as (e & st & He & Hst).
  { destruct (as_array_cases _ _ _ A) as [E | E]; rewrite E in Hl;
      [destruct (lay_array_inv pw n sub _ (or_intror Hl)) as (e & st & He & Hst & _)
      | destruct (lay_array_inv pw n sub _ (or_introl Hl)) as (e & st & He & Hst & _)]; eauto. }
  assert (stride pw sub = Ok st) as HS by (unfold stride; rewrite He; exact Hst).
  destruct (stride_spec pw Hpw sub st Ws Ls HS) as [-> Hid].
  rewrite He in Hid. inversion Hid; subst e; clear Hid.
  destruct (istride_spec pw Hpw sub Ws) as (_ & S1 & _).
  exists (istride pw sub), (isize pw sub). split; [exact HS |].
  split; [unfold size_of; rewrite He; reflexivity |].
  split; [congruence |]. split; [lia |]. split.
  - intros k Hk. rewrite Hs, Hsz.
    assert ((k + 1) * istride pw sub <= n * istride pw sub) by (apply N.mul_le_mono_r; lia). nia.
  - intros k1 k2 Hk.
    assert ((k1 + 1) * istride pw sub <= k2 * istride pw sub) by (apply N.mul_le_mono_r; lia). nia.
Qed.

(* ---- B3: the writes of different members do not touch each other ------------------ *)
Theorem lit_fields_disjoint pw : ptr_width pw -> forall s t ms i offs fs,
  wf t -> CLayout.known_class t = None -> layout_info pw t = Ok i -> i_size i <= LIMIT ->
  as_struct t = Some ms -> i_offsets i = Some offs ->
  lit_wt (LitStruct fs) t = true -> lit_leaves_narrow pw (LitStruct fs) t = true ->
  forall f1 f2, In f1 fs -> In f2 fs -> fst f1 <> fst f2 ->
  forall i1 t1 o1 fp1 i2 t2 o2 fp2,
    find_member (fst f1) ms 0 = Some (i1, t1) -> nth_error offs i1 = Some o1 ->
    lit_footprint pw s (snd f1) t1 = Ok fp1 ->
    find_member (fst f2) ms 0 = Some (i2, t2) -> nth_error offs i2 = Some o2 ->
    lit_footprint pw s (snd f2) t2 = Ok fp2 ->
    forall r1 r2, In r1 (shift o1 fp1) -> In r2 (shift o2 fp2) -> ranges_disjoint r1 r2.
Proof.
  intros Hpw s t ms i offs fs W K HI HL A HO HW HN f1 f2 In1 In2 D
         i1 t1 o1 fp1 i2 t2 o2 fp2 F1 O1 P1 F2 O2 P2 r1 r2 R1 R2.
  pose proof (known_class_lens _ K) as L.
  destruct (layout_info_refines pw Hpw t W L i HI) as (Hsz & _).
  destruct (layout_info_inv _ _ _ HI) as (_ & _ & HSO & _). rewrite HO in HSO.
  cbn [lit_wt lit_leaves_narrow] in HW, HN. rewrite A in HW, HN.
  rewrite forallb_forall in HW, HN.
  pose proof (HW _ In1) as W1. pose proof (HN _ In1) as N1. rewrite F1 in W1, N1.
  pose proof (HW _ In2) as W2. pose proof (HN _ In2) as N2. rewrite F2 in W2, N2.
  destruct (member_slot pw Hpw t ms offs _ i1 t1 o1 W L A HSO F1 O1) as (Wt1 & Lt1 & Sl1 & I1).
  destruct (member_slot pw Hpw t ms offs _ i2 t2 o2 W L A HSO F2 O2) as (Wt2 & Lt2 & Sl2 & I2).
  assert (within (isize pw t1) fp1 = true) as B1
    by (apply (lit_within_gen pw Hpw s (snd f1) t1 fp1); auto; lia).
  assert (within (isize pw t2) fp2 = true) as B2
    by (apply (lit_within_gen pw Hpw s (snd f2) t2 fp2); auto; lia).
  destruct (in_shift_slot _ _ _ _ B1 R1) as [A1 A2]. destruct (in_shift_slot _ _ _ _ B2 R2) as [C1 C2].
  destruct (struct_slots pw Hpw t ms offs W L A HSO) as [C _].
  pose proof (find_member_diff _ _ _ _ _ _ _ D F1 F2) as NE.
  unfold ranges_disjoint.
  destruct (Nat.lt_total i1 i2) as [Lt | [Eq | Gt]]; [| contradiction |].
  - pose proof (chain_disjoint _ _ _ _ C i1 i2 _ o1 o2 Lt I1 O1 O2) as Q. unfold isize in *. left. lia.
  - pose proof (chain_disjoint _ _ _ _ C i2 i1 _ o2 o1 Gt I2 O2 O1) as Q. unfold isize in *. right. lia.
Qed.

(* ---- B4: without the leaf condition the statement is false of the code ------------ *)
Definition lit_full : Prop := forall pw s l t i fp, ptr_width pw ->
  wf t -> CLayout.known_class t = None -> layout_info pw t = Ok i -> i_size i <= LIMIT ->
  lit_wt l t = true -> lit_footprint pw s l t = Ok fp -> within (i_size i) fp = true.

(* struct { p: struct { a: i64, b: i8 }, g: u8 }: p has size 9 and stride 16, g sits at 9 *)
Definition wit_inner : lty := LStruct 2 [(0, LIInt 64); (1, LIInt 8)].
Definition wit_outer : lty := LStruct 1 [(0, wit_inner); (1, LUInt 8)].
Definition wit_lit : lit := LitStruct [(0, LitVal); (1, LitVal)].

Lemma wit_layout : layout_info 64 wit_outer =
  Ok {| i_size := 10; i_align := 8; i_stride := 16; i_offsets := Some [0; 9]; i_discr := None |}.
Proof. vm_compute. reflexivity. Qed.

Lemma wit_footprint : lit_footprint 64 false wit_lit wit_outer = Ok [(0, 16); (9, 1)].
Proof. vm_compute. reflexivity. Qed.

Lemma lit_parts_full_refuted : ~ lit_full.
Proof.
  intros F.
  assert (wf wit_outer) as W by (vm_compute; reflexivity).
  assert (CLayout.known_class wit_outer = None) as K by (vm_compute; reflexivity).
  assert (lit_wt wit_lit wit_outer = true) as T by (vm_compute; reflexivity).
  assert (10 <= LIMIT) as HL by (unfold LIMIT; lia).
  pose proof (F 64 false wit_lit wit_outer _ _ (or_intror eq_refl) W K wit_layout HL T wit_footprint) as X.
  vm_compute in X. discriminate.
Qed.

(* ... and the copy of p does overwrite the slot of g *)
Lemma wit_overlap : ~ ranges_disjoint (0, 16) (9, 1).
Proof. unfold ranges_disjoint. cbn [fst snd]. lia. Qed.

(* ---- the writes of different array items do not touch each other ------------------ *)
Theorem lit_items_disjoint pw : ptr_width pw -> forall s t n sub i st items,
  wf t -> CLayout.known_class t = None -> layout_info pw t = Ok i -> i_size i <= LIMIT ->
  as_array t = Some (n, sub) -> stride pw sub = Ok st ->
  lit_wt (LitArray items) t = true -> lit_leaves_narrow pw (LitArray items) t = true ->
  forall j1 j2 v1 v2 fp1 fp2, j1 <> j2 ->
    nth_error items j1 = Some v1 -> nth_error items j2 = Some v2 ->
    lit_footprint pw s v1 sub = Ok fp1 -> lit_footprint pw s v2 sub = Ok fp2 ->
    forall r1 r2, In r1 (shift (N.of_nat j1 * st) fp1) -> In r2 (shift (N.of_nat j2 * st) fp2) ->
      ranges_disjoint r1 r2.
Proof.
  intros Hpw s t n sub i st items W K HI HL A HS HW HN j1 j2 v1 v2 fp1 fp2 D X1 X2 P1 P2 r1 r2 R1 R2.
  pose proof (known_class_lens _ K) as L.
  destruct (layout_info_refines pw Hpw t W L i HI) as (Hsz & _).
  destruct (array_elem_wf pw t n sub W L A) as (Ws & Ls & Hn).
  destruct (stride_spec pw Hpw sub st Ws Ls HS) as [-> _].
  destruct (istride_spec pw Hpw sub Ws) as (_ & S1 & _).
  cbn [lit_wt lit_leaves_narrow] in HW, HN. rewrite A in HW, HN.
  apply andb_true_iff in HW. destruct HW as [Hlen HW]. apply N.eqb_eq in Hlen.
  rewrite forallb_forall in HW, HN.
  pose proof (nth_error_In _ _ X1) as In1. pose proof (nth_error_In _ _ X2) as In2.
  assert (j1 < length items)%nat as B1 by (apply nth_error_Some; congruence).
  assert (1 * istride pw sub <= n * istride pw sub) as M by (apply N.mul_le_mono_r; lia).
  assert (isize pw sub <= LIMIT) as HLs by lia.
  assert (within (isize pw sub) fp1 = true) as C1
    by (apply (lit_within_gen pw Hpw s v1 sub fp1); auto).
  assert (within (isize pw sub) fp2 = true) as C2
    by (apply (lit_within_gen pw Hpw s v2 sub fp2); auto).
  destruct (in_shift_slot _ _ _ _ C1 R1) as [A1 A2]. destruct (in_shift_slot _ _ _ _ C2 R2) as [E1 E2].
  unfold ranges_disjoint.
  destruct (Nat.lt_total j1 j2) as [Lt | [Eq | Gt]]; [| contradiction |].
  - assert ((N.of_nat j1 + 1) * istride pw sub <= N.of_nat j2 * istride pw sub)
      by (apply N.mul_le_mono_r; lia). left. nia.
  - assert ((N.of_nat j2 + 1) * istride pw sub <= N.of_nat j1 * istride pw sub)
      by (apply N.mul_le_mono_r; lia). right. nia.
Qed.

(* ---- no panic: a well-typed literal of a type whose layout is computed is stored
        without hitting an unwrap / index / overflow site ------------------------------ *)
Lemma struct_offsets_ok pw t ms r : lay pw t = Ok r -> as_struct t = Some ms ->
  exists fl offs, fields pw ms = Ok fl /\ struct_offsets pw t = Ok (Some offs).
Proof.
  intros Hl A. pose proof (lay_absolute _ _ _ Hl) as Ha. unfold struct_offsets. rewrite Hl. cbn [bind].
  destruct (as_struct_cases _ _ A) as [E | [u E]]; rewrite E in *;
    [rewrite lay_astruct in Ha | rewrite lay_struct in Ha]; binds Ha; binds E0;
    rewrite E1; cbn [bind]; rewrite E2; cbn [bind]; eauto.
Qed.

Section Total.
  Variable pw : N.
  Hypothesis Hpw : ptr_width pw.
  Variable s : bool.

  Lemma vlay_of_ok t : wf t -> lay pw t = Ok (ideal pw t) -> isize pw t <= LIMIT ->
    exists v, vlay_of pw t = Ok v.
  Proof.
    intros W Hl HL. unfold vlay_of, size_of, stride. rewrite Hl. cbn [bind].
    pose proof (ialign_pow2_le8 pw Hpw t W) as P.
    rewrite stride_fits; [cbn [bind]; eauto | exact P |].
    destruct (round_up_spec (fst (ideal pw t)) (snd (ideal pw t)) (pow2_8_pos _ P)) as (_ & B & _).
    unfold isize, LIMIT in HL. unfold pow2_8, ialign in P. unfold U32MAX.
    set (x := round_up _ _) in *. set (a := snd (ideal pw t)) in *. set (b := fst (ideal pw t)) in *. lia.
  Qed.

  Definition lit_ok_at (l : lit) : Prop := forall t,
    wf t -> lens32 t = true -> lay pw t = Ok (ideal pw t) -> isize pw t <= LIMIT ->
    lit_wt l t = true -> exists fp, lit_footprint pw s l t = Ok fp.

  Lemma lit_ok_gen : forall l, lit_ok_at l.
  Proof.
    induction l using lit_ind'; intros t W L Hl HL HW; cbn [lit_footprint lit_wt] in *.
    - destruct (vlay_of_ok t W Hl HL) as [v ->]. cbn [bind]. eauto.
    - destruct (as_struct t) as [ms |] eqn:A; try discriminate.
      destruct (struct_offsets_ok pw t ms _ Hl A) as (fl & offs & HF & HO). rewrite HO. cbn [bind].
      destruct (struct_slots pw Hpw t ms offs W L A HO) as [_ HLen].
      assert (exists parts, struct_parts (lit_footprint pw s) ms offs fs = Ok parts) as [parts ->];
        [| cbn [bind]; eauto].
      induction H as [| f r Hf Hr IH]; [cbn [struct_parts]; eauto |].
      cbn [forallb] in HW. apply andb_true_iff in HW. destruct HW as [HW1 HW2].
      cbn [struct_parts].
      destruct (find_member (fst f) ms 0) as [[idx ty] |] eqn:FM; try discriminate.
      pose proof FM as FM0. apply find_member_nth in FM0. destruct FM0 as [_ FM0].
      rewrite Nat.sub_0_r in FM0.
      destruct (nth_error offs idx) as [off |] eqn:NO.
      2:{ exfalso. apply nth_error_None in NO.
          assert (idx < length ms)%nat by (apply nth_error_Some; congruence). lia. }
      destruct (member_slot pw Hpw t ms offs _ idx ty off W L A HO FM NO) as (Wt & Lt & Sl & _).
      destruct (fields_nth pw ms fl HF idx _ FM0) as (f0 & _ & Hl0). cbn [snd] in Hl0.
      pose proof (lay_refines pw Hpw ty Wt Lt _ Hl0) as ->.
      destruct (Hf ty Wt Lt Hl0 ltac:(lia) HW1) as [fp ->]. cbn [bind].
      destruct (IH HW2) as [rest ->]. cbn [bind]. eauto.
    - destruct (as_array t) as [[n sub] |] eqn:A; try discriminate.
      destruct (array_elem_wf pw t n sub W L A) as (Ws & Ls & Hn).
      pose proof (lay_absolute _ _ _ Hl) as Ha.
      assert (exists e st, lay pw sub = Ok e /\ stride_of (fst e) (snd e) = Ok st) as (e & st & He & Hst).
      { destruct (as_array_cases _ _ _ A) as [E | E]; rewrite E in Ha;
          [destruct (lay_array_inv pw n sub _ (or_intror Ha)) as (e & st & He & Hst & _)
          | destruct (lay_array_inv pw n sub _ (or_introl Ha)) as (e & st & He & Hst & _)]; eauto. }
      assert (stride pw sub = Ok st) as HS by (unfold stride; rewrite He; exact Hst).
      rewrite HS. cbn [bind]. destruct (stride_spec pw Hpw sub st Ws Ls HS) as [-> Hls].
      apply andb_true_iff in HW. destruct HW as [Hlen HW]. apply N.eqb_eq in Hlen.
      destruct (istride_spec pw Hpw sub Ws) as (_ & S1 & _).
      assert (forall k, k + N.of_nat (length its) <= n ->
                exists parts, array_parts (lit_footprint pw s) sub (istride pw sub) k its = Ok parts)
        as Q.
      { clear Hlen. induction H as [| v r Hv Hr IH]; intros k Hk; [cbn [array_parts]; eauto |].
        cbn [forallb] in HW. apply andb_true_iff in HW. destruct HW as [HW1 HW2].
        cbn [length] in Hk. cbn [array_parts].
        assert ((k + 1) * istride pw sub <= n * istride pw sub) as M by (apply N.mul_le_mono_r; lia).
        rewrite mul32_fits by (unfold U32MAX; unfold LIMIT in HL; nia). cbn [bind].
        destruct (Hv sub Ws Ls Hls ltac:(nia) HW1) as [fp ->]. cbn [bind].
        destruct (IH HW2 (k + 1) ltac:(lia)) as [rest ->]. cbn [bind]. eauto. }
      destruct (Q 0 ltac:(lia)) as [parts ->]. cbn [bind]. eauto.
  Qed.
End Total.

Theorem lit_footprint_ok pw : ptr_width pw -> forall s l t i,
  wf t -> CLayout.known_class t = None -> layout_info pw t = Ok i -> i_size i <= LIMIT ->
  lit_wt l t = true -> exists fp, lit_footprint pw s l t = Ok fp.
Proof.
  intros Hpw s l t i W K HI HL HW. pose proof (known_class_lens _ K) as L.
  destruct (layout_info_refines pw Hpw t W L i HI) as (Hsz & _).
  destruct (layout_info_inv _ _ _ HI) as (Hl & _).
  pose proof (lay_refines pw Hpw t W L _ Hl) as R. rewrite R in Hl.
  apply (lit_ok_gen pw Hpw s l t); auto. rewrite <- Hsz. exact HL.
Qed.
