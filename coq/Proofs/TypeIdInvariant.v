(* The table invariant of the modelled `to_type_id` walk (Model/TypeId.v), for
   ANY sequence of requests on one MetaTyData:
   (a) once a type has an id, every later request for it returns that id;
   (b) two different compound types never share an id (the per-kind counters
       stay ahead of every index already handed out), hence, together with the
       injectivity of bit-packed ids outside the known class, equality of ids
       coincides with equality of types.
   The only hypothesis about sizes is that the final per-kind counters are
   <= 2^26 (the code does not check this; beyond it the index runs into the
   discriminant bits). *)
From Capy Require Import Common.Util Common.LTy Common.Layout Spec.CLayout Model.TypeId
  Proofs.LayoutSpecProofs Proofs.TypeIdProofs.
Local Open Scope N_scope.

(* ---- lty_eqb is structural equality ------------------------------------------- *)
Fixpoint list_eqb' (l1 l2 : list lty) : bool :=
  match l1, l2 with
  | [], [] => true
  | x :: r1, y :: r2 => lty_eqb x y && list_eqb' r1 r2
  | _, _ => false
  end.
Fixpoint mem_eqb' (l1 l2 : list (N * lty)) : bool :=
  match l1, l2 with
  | [], [] => true
  | (n1, x) :: r1, (n2, y) :: r2 => (n1 =? n2) && lty_eqb x y && mem_eqb' r1 r2
  | _, _ => false
  end.

Lemma eqb_fn p1 r1 l1 p2 r2 l2 :
  lty_eqb (LFn p1 r1 l1) (LFn p2 r2 l2) = list_eqb' p1 p2 && lty_eqb r1 r2 && (l1 =? l2).
Proof.
  cbn [lty_eqb]. match goal with |- ?F p1 p2 && _ && _ = _ => assert (forall a b, F a b = list_eqb' a b) as ->
      by (induction a as [|x a IHa]; intros b; destruct b; try reflexivity;
          cbn [list_eqb']; rewrite <- IHa; reflexivity) end. reflexivity.
Qed.
Lemma eqb_fnptr p1 r1 p2 r2 :
  lty_eqb (LFnPtr p1 r1) (LFnPtr p2 r2) = list_eqb' p1 p2 && lty_eqb r1 r2.
Proof.
  cbn [lty_eqb]. match goal with |- ?F p1 p2 && _ = _ => assert (forall a b, F a b = list_eqb' a b) as ->
      by (induction a as [|x a IHa]; intros b; destruct b; try reflexivity;
          cbn [list_eqb']; rewrite <- IHa; reflexivity) end. reflexivity.
Qed.
Lemma eqb_astruct m1 m2 : lty_eqb (LAnonStruct m1) (LAnonStruct m2) = mem_eqb' m1 m2.
Proof.
  cbn [lty_eqb]. match goal with |- ?F m1 m2 = _ => assert (forall a b, F a b = mem_eqb' a b) as ->
      by (induction a as [|[n x] a IHa]; intros b; destruct b as [|[n' y] b]; try reflexivity;
          cbn [mem_eqb']; rewrite <- IHa; reflexivity) end. reflexivity.
Qed.
Lemma eqb_struct u1 m1 u2 m2 : lty_eqb (LStruct u1 m1) (LStruct u2 m2) = (u1 =? u2) && mem_eqb' m1 m2.
Proof.
  cbn [lty_eqb]. match goal with |- _ && ?F m1 m2 = _ => assert (forall a b, F a b = mem_eqb' a b) as ->
      by (induction a as [|[n x] a IHa]; intros b; destruct b as [|[n' y] b]; try reflexivity;
          cbn [mem_eqb']; rewrite <- IHa; reflexivity) end. reflexivity.
Qed.
Lemma eqb_enum u1 v1 u2 v2 : lty_eqb (LEnum u1 v1) (LEnum u2 v2) = (u1 =? u2) && list_eqb' v1 v2.
Proof.
  cbn [lty_eqb]. match goal with |- _ && ?F v1 v2 = _ => assert (forall a b, F a b = list_eqb' a b) as ->
      by (induction a as [|x a IHa]; intros b; destruct b; try reflexivity;
          cbn [list_eqb']; rewrite <- IHa; reflexivity) end. reflexivity.
Qed.

Lemma list_eqb'_refl l : Forall (fun x => lty_eqb x x = true) l -> list_eqb' l l = true.
Proof. induction 1; cbn [list_eqb']; [reflexivity|]. rewrite H, IHForall. reflexivity. Qed.
Lemma mem_eqb'_refl l : Forall (fun m => lty_eqb (snd m) (snd m) = true) l -> mem_eqb' l l = true.
Proof.
  induction 1 as [|[n x] l H Hl IH]; cbn [mem_eqb']; [reflexivity|].
  cbn [snd] in H. rewrite N.eqb_refl, H, IH. reflexivity.
Qed.

Lemma lty_eqb_refl a : lty_eqb a a = true.
Proof.
  induction a using lty_ind';
    try rewrite eqb_fn; try rewrite eqb_fnptr; try rewrite eqb_astruct; try rewrite eqb_struct;
    try rewrite eqb_enum; cbn [lty_eqb];
    rewrite ?N.eqb_refl, ?Bool.eqb_reflx, ?list_eqb'_refl, ?mem_eqb'_refl by assumption;
    rewrite ?IHa, ?IHa1, ?IHa2; reflexivity.
Qed.

Lemma list_eqb'_sound l1 : Forall (fun x => forall y, lty_eqb x y = true -> x = y) l1 ->
  forall l2, list_eqb' l1 l2 = true -> l1 = l2.
Proof.
  induction 1 as [|x l H Hl IH]; intros [|y l2] E; cbn [list_eqb'] in E; try discriminate; [reflexivity|].
  apply andb_true_iff in E. destruct E as [E1 E2]. f_equal; auto.
Qed.
Lemma mem_eqb'_sound l1 : Forall (fun m => forall y, lty_eqb (snd m) y = true -> snd m = y) l1 ->
  forall l2, mem_eqb' l1 l2 = true -> l1 = l2.
Proof.
  induction 1 as [|[n x] l H Hl IH]; intros [|[n' y] l2] E; cbn [mem_eqb'] in E; try discriminate; [reflexivity|].
  apply andb_true_iff in E. destruct E as [E E2]. apply andb_true_iff in E. destruct E as [E0 E1].
  apply N.eqb_eq in E0. cbn [snd] in H. apply H in E1. subst. f_equal. auto.
Qed.

Ltac andbs E :=
  repeat match type of E with
  | _ && _ = true => let E' := fresh "E" in apply andb_true_iff in E; destruct E as [E E']
  end.

Lemma lty_eqb_sound a : forall b, lty_eqb a b = true -> a = b.
Proof.
  induction a using lty_ind'; intros b E; destruct b; try (cbn [lty_eqb] in E; discriminate E);
    try rewrite eqb_fn in E; try rewrite eqb_fnptr in E; try rewrite eqb_astruct in E;
    try rewrite eqb_struct in E; try rewrite eqb_enum in E; cbn [lty_eqb] in E;
    try reflexivity.
  all: andbs E.
  all: repeat match goal with
       | H : (_ =? _) = true |- _ => apply N.eqb_eq in H
       | H : Bool.eqb _ _ = true |- _ => apply Bool.eqb_prop in H
       | H : list_eqb' _ _ = true |- _ => apply list_eqb'_sound in H; [|assumption]
       | H : mem_eqb' _ _ = true |- _ => apply mem_eqb'_sound in H; [|assumption]
       | IH : forall b, lty_eqb ?x b = true -> ?x = b, H : lty_eqb ?x _ = true |- _ => apply IH in H
       end.
  all: subst; reflexivity.
Qed.

(* ---- find_id ---------------------------------------------------------------------- *)
Lemma find_id_In t l id : find_id t l = Some id -> In (t, id) l.
Proof.
  induction l as [|[u i] l IH]; cbn [find_id]; [discriminate|].
  destruct (lty_eqb u t) eqn:E.
  - intros H. inversion H; subst. apply lty_eqb_sound in E. subst. left; reflexivity.
  - intros H. right; auto.
Qed.
Lemma find_id_app_old t l1 l2 id : find_id t l1 = Some id -> find_id t (l1 ++ l2) = Some id.
Proof.
  induction l1 as [|[u i] l IH]; cbn [find_id app]; [discriminate|].
  destruct (lty_eqb u t); auto.
Qed.
Lemma find_id_app_none t l1 l2 : find_id t l1 = None -> find_id t (l1 ++ l2) = find_id t l2.
Proof.
  induction l1 as [|[u i] l IH]; cbn [find_id app]; [reflexivity|].
  destruct (lty_eqb u t); [discriminate|auto].
Qed.
Lemma find_id_none_keys t l : (forall u, In u (map fst l) -> u <> t) -> find_id t l = None.
Proof.
  induction l as [|[u i] l IH]; intros H; cbn [find_id]; [reflexivity|].
  destruct (lty_eqb u t) eqn:E.
  - apply lty_eqb_sound in E. exfalso. apply (H u); [left; reflexivity|exact E].
  - apply IH. intros v Hv. apply H. right; exact Hv.
Qed.
Lemma find_id_new t id : find_id t [(t, id)] = Some id.
Proof. cbn [find_id]. rewrite lty_eqb_refl. reflexivity. Qed.

(* ---- sizes, children ------------------------------------------------------------------ *)
Fixpoint lsize (t : lty) : nat :=
  match t with
  | LAnonArray _ s | LArray _ s | LSlice s | LPointer _ s | LDistinct _ s
  | LVariant _ _ _ _ s | LOptional s => S (lsize s)
  | LErrorUnion e p => S (lsize e + lsize p)
  | LAnonStruct ms | LStruct _ ms => S (list_sum (map (fun m => lsize (snd m)) ms))
  | LEnum _ vs => S (list_sum (map lsize vs))
  | _ => 1%nat
  end.

(* the sub types that to_type_id visits before numbering a compound type *)
Definition tchildren (t : lty) : list lty :=
  match t with
  | LAnonArray _ s | LArray _ s | LSlice s | LPointer _ s | LDistinct _ s
  | LVariant _ _ _ _ s | LOptional s => [s]
  | LErrorUnion e p => [e; p]
  | LAnonStruct ms | LStruct _ ms => map snd ms
  | LEnum _ vs => vs
  | _ => []
  end.

Lemma list_sum_in (l : list nat) x : In x l -> (x <= list_sum l)%nat.
Proof.
  unfold list_sum. induction l as [|a l IH]; cbn [fold_right In]; intros H; [destruct H|].
  destruct H as [->|H]; [lia|]. apply IH in H. lia.
Qed.

Lemma child_size t v : In v (tchildren t) -> (lsize v < lsize t)%nat.
Proof.
  destruct t; cbn [tchildren lsize In]; try tauto;
    try (intros [<-|[]]; lia); try (intros [<-|[<-|[]]]; lia).
  - intros H. apply in_map_iff in H. destruct H as (m & <- & Hm).
    assert (In (lsize (snd m)) (map (fun m => lsize (snd m)) members)) as I
      by (apply in_map_iff; eauto).
    apply list_sum_in in I. lia.
  - intros H. apply in_map_iff in H. destruct H as (m & <- & Hm).
    assert (In (lsize (snd m)) (map (fun m => lsize (snd m)) members)) as I
      by (apply in_map_iff; eauto).
    apply list_sum_in in I. lia.
  - intros H. assert (In (lsize v) (map lsize variants)) as I by (apply in_map; exact H).
    apply list_sum_in in I. lia.
Qed.

Lemma lsize_pos t : (1 <= lsize t)%nat.
Proof. destruct t; cbn [lsize]; lia. Qed.

(* ---- the walk as a top-level function, and the unfolding of tid -------------------------- *)
Fixpoint walk (pw : N) (ts : list lty) (st : meta) : result meta :=
  match ts with
  | [] => Ok st
  | v :: r => do x <- tid pw v st; walk pw r (snd x)
  end.

Lemma simple_kind pw t : (simple_type_id pw t = None <-> kind_of t <> None).
Proof. destruct t; cbn [simple_type_id kind_of]; split; intros H; try congruence; try discriminate. Qed.

Lemma tid_unfold pw t st :
  tid pw t st =
  match find_id t (ids st) with
  | Some id => Ok (id, st)
  | None =>
      match simple_type_id pw t with
      | Some r => do id <- r; Ok (id, push_simple t id st)
      | None =>
          do st' <- walk pw (tchildren t) st;
          match kind_of t with
          | Some k => Ok (alloc k t st')
          | None => Crash 4
          end
      end
  end.
Proof.
  destruct t; cbn [tid]; destruct (find_id _ (ids st)); try reflexivity;
    cbn [simple_type_id tchildren walk kind_of];
    try (destruct (tid pw _ st) as [[i s]| |]; reflexivity).
  - (* anon struct *)
    match goal with |- bind (?F members st) _ = _ =>
      assert (forall l s, F l s = walk pw (map snd l) s) as ->
        by (induction l as [|m l IH]; intros s; [reflexivity|];
            cbn [map walk]; destruct (tid pw (snd m) s) as [[i s']| |]; cbn [bind snd]; auto) end.
    reflexivity.
  - (* struct *)
    match goal with |- bind (?F members st) _ = _ =>
      assert (forall l s, F l s = walk pw (map snd l) s) as ->
        by (induction l as [|m l IH]; intros s; [reflexivity|];
            cbn [map walk]; destruct (tid pw (snd m) s) as [[i s']| |]; cbn [bind snd]; auto) end.
    reflexivity.
  - (* enum *)
    match goal with |- bind (?F variants st) _ = _ =>
      assert (forall l s, F l s = walk pw l s) as ->
        by (induction l as [|m l IH]; intros s; [reflexivity|];
            cbn [walk]; destruct (tid pw m s) as [[i s']| |]; cbn [bind snd]; auto) end.
    reflexivity.
Qed.

(* ---- the invariant ------------------------------------------------------------------------ *)
Definition bounded (st : meta) : Prop := forall k, counter st k <= 2 ^ 26.

Record Inv (pw : N) (st : meta) : Prop := {
  inv_entries : forall t id, In (t, id) (ids st) ->
    match kind_of t with
    | None => simple_type_id pw t = Some (Ok id)
    | Some k => exists c, c < counter st k /\ id = compound_id k c
    end;
  inv_distinct : forall t1 t2 id, In (t1, id) (ids st) -> In (t2, id) (ids st) ->
    kind_of t1 <> None -> kind_of t2 <> None -> t1 = t2 }.

Lemma Inv_meta0 pw : Inv pw meta0.
Proof. split; cbn; tauto. Qed.

Lemma kind_eqb_eq a b : kind_eqb a b = true <-> a = b.
Proof. destruct a, b; cbn; split; intros H; try reflexivity; discriminate H. Qed.

Lemma Inv_push_simple pw t id st : simple_type_id pw t = Some (Ok id) -> Inv pw st ->
  Inv pw (push_simple t id st).
Proof.
  intros S [I1 I2]. assert (kind_of t = None) as K.
  { destruct (kind_of t) eqn:E; [|reflexivity]. exfalso.
    assert (kind_of t <> None) as NE by congruence. apply (simple_kind pw) in NE. congruence. }
  split; cbn [push_simple ids counter].
  - intros u i H. apply in_app_or in H. destruct H as [H|[H|[]]]; [apply I1; exact H|].
    inversion H; subst. rewrite K. exact S.
  - intros t1 t2 i H1 H2 K1 K2.
    apply in_app_or in H1. apply in_app_or in H2.
    destruct H1 as [H1|[H1|[]]]; [|inversion H1; subst; congruence].
    destruct H2 as [H2|[H2|[]]]; [|inversion H2; subst; congruence].
    eapply I2; eauto.
Qed.

Lemma Inv_alloc pw k t st : kind_of t = Some k -> Inv pw st -> bounded (snd (alloc k t st)) ->
  Inv pw (snd (alloc k t st)).
Proof.
  intros K [I1 I2] B. unfold alloc in *. cbn [snd ids counter] in *.
  assert (Bk : counter st k + 1 <= 2 ^ 26).
  { specialize (B k). cbn in B. rewrite (proj2 (kind_eqb_eq k k) eq_refl) in B. exact B. }
  assert (Bo : forall k', counter st k' <= 2 ^ 26).
  { intros k'. specialize (B k'). cbn in B. destruct (kind_eqb k' k) eqn:E; [|exact B].
    apply kind_eqb_eq in E. subst. lia. }
  split; cbn [ids counter].
  - intros u i H. apply in_app_or in H. destruct H as [H|[H|[]]].
    + specialize (I1 u i H). destruct (kind_of u) as [k'|]; [|exact I1].
      destruct I1 as (c & Hc & Hi). exists c. split; [|exact Hi].
      destruct (kind_eqb k' k) eqn:E; [apply kind_eqb_eq in E; subst; lia | exact Hc].
    + inversion H; subst. rewrite K. exists (counter st k). split.
      * rewrite (proj2 (kind_eqb_eq k k) eq_refl). lia.
      * reflexivity.
  - intros t1 t2 i H1 H2 K1 K2.
    apply in_app_or in H1. apply in_app_or in H2.
    assert (Old : forall u, In (u, N.lor (N.shiftl (kind_discr k) 26) (counter st k)) (ids st) ->
                  kind_of u <> None -> False).
    { intros u Hu Ku. specialize (I1 u _ Hu). destruct (kind_of u) as [k'|]; [|congruence].
      destruct I1 as (c & Hc & Hi). change (N.lor (N.shiftl (kind_discr k) 26) (counter st k))
        with (compound_id k (counter st k)) in Hi.
      apply compound_id_injective in Hi; [|lia|specialize (Bo k'); lia].
      destruct Hi as [E1 E2]. subst k'. lia. }
    destruct H1 as [H1|[H1|[]]]; destruct H2 as [H2|[H2|[]]].
    + eapply I2; eauto.
    + inversion H2; subst. exfalso. eapply Old; eauto.
    + inversion H1; subst. exfalso. eapply Old; eauto.
    + inversion H1; inversion H2; subst. reflexivity.
Qed.

(* ---- what one request does -------------------------------------------------------------------- *)
Definition extends (st st' : meta) (bound : nat) : Prop :=
  exists l, ids st' = ids st ++ l /\ forall u, In u (map fst l) -> (lsize u <= bound)%nat.
Definition mono (st st' : meta) : Prop := forall k, counter st k <= counter st' k.

Definition Ptid (pw : N) (t : lty) : Prop := forall st id st', tid pw t st = Ok (id, st') ->
  extends st st' (lsize t) /\ mono st st' /\ find_id t (ids st') = Some id /\
  (Inv pw st -> bounded st' -> Inv pw st').

Definition Pwalk (pw : N) (ts : list lty) (b : nat) : Prop := forall st st', walk pw ts st = Ok st' ->
  extends st st' b /\ mono st st' /\ (Inv pw st -> bounded st' -> Inv pw st').

Lemma extends_refl st b : extends st st b.
Proof. exists []. rewrite app_nil_r. split; [reflexivity|]. intros u []. Qed.
Lemma extends_trans st1 st2 st3 b : extends st1 st2 b -> extends st2 st3 b -> extends st1 st3 b.
Proof.
  intros (l1 & E1 & H1) (l2 & E2 & H2). exists (l1 ++ l2). split.
  - rewrite E2, E1, app_assoc. reflexivity.
  - intros u Hu. rewrite map_app in Hu. apply in_app_or in Hu. destruct Hu; auto.
Qed.
Lemma extends_weaken st st' b b' : (b <= b')%nat -> extends st st' b -> extends st st' b'.
Proof. intros L (l & E & H). exists l. split; auto. intros u Hu. specialize (H u Hu). lia. Qed.
Lemma bounded_mono st st' : mono st st' -> bounded st' -> bounded st.
Proof. intros M B k. specialize (M k). specialize (B k). lia. Qed.

Ltac split3 := split; [|split].
Ltac split4 := split; [|split; [|split]].

Lemma walk_P pw ts b : (forall v, In v ts -> Ptid pw v /\ (lsize v <= b)%nat) -> Pwalk pw ts b.
Proof.
  induction ts as [|v r IH]; intros HP st st' H; cbn [walk] in H.
  - inversion H; subst. split3; [apply extends_refl | intros k; lia | auto].
  - destruct (tid pw v st) as [[i s1]| |] eqn:E; cbn [bind snd] in H; try discriminate.
    destruct (HP v (or_introl eq_refl)) as [Pv Lv].
    destruct (Pv _ _ _ E) as (X1 & M1 & _ & I1).
    destruct (IH (fun u Hu => HP u (or_intror Hu)) _ _ H) as (X2 & M2 & I2).
    split3.
    + eapply extends_trans; [eapply extends_weaken; [exact Lv|exact X1]|exact X2].
    + intros k. specialize (M1 k). specialize (M2 k). lia.
    + intros Hi B. apply I2; auto. apply I1; auto. eapply bounded_mono; eauto.
Qed.

Lemma tid_P pw : forall n t, (lsize t <= n)%nat -> Ptid pw t.
Proof.
  induction n as [|n IHn]; intros t Hn; [pose proof (lsize_pos t); lia|].
  intros st id st' H. rewrite tid_unfold in H.
  destruct (find_id t (ids st)) as [i|] eqn:F.
  - (* already in the table *)
    inversion H; subst. split4; [apply extends_refl | intros k; lia | exact F | auto].
  - destruct (simple_type_id pw t) as [r|] eqn:S.
    + (* bit-packed id *)
      destruct r as [i| |]; cbn [bind] in H; try discriminate. inversion H; subst; clear H.
      cbn [push_simple ids counter]. split4.
      * exists [(t, id)]. split; [reflexivity|]. intros u [<-|[]]. cbn. lia.
      * intros k. cbn. lia.
      * rewrite find_id_app_none by exact F. apply find_id_new.
      * intros Hi _. apply Inv_push_simple; auto.
    + (* compound: children first, then a fresh index of the kind *)
      destruct (walk pw (tchildren t) st) as [s1| |] eqn:W; cbn [bind] in H; try discriminate.
      destruct (kind_of t) as [k|] eqn:K; [|discriminate]. inversion H; subst; clear H.
      assert (PW : Pwalk pw (tchildren t) (lsize t - 1)).
      { apply walk_P. intros v Hv. pose proof (child_size t v Hv). split; [apply IHn|]; lia. }
      destruct (PW _ _ W) as ((l & El & Hl) & M1 & I1).
      assert (Fs1 : find_id t (ids s1) = None).
      { rewrite El, find_id_app_none by exact F. apply find_id_none_keys.
        intros u Hu E. subst u. specialize (Hl t Hu). pose proof (lsize_pos t). lia. }
      cbn [alloc ids counter]. split4.
      * exists (l ++ [(t, N.lor (N.shiftl (kind_discr k) 26) (counter s1 k))]). split.
        -- rewrite El, app_assoc. reflexivity.
        -- intros u Hu. rewrite map_app in Hu. apply in_app_or in Hu. destruct Hu as [Hu|[<-|[]]].
           ++ specialize (Hl u Hu). lia.
           ++ cbn. lia.
      * intros k'. specialize (M1 k'). cbn. destruct (kind_eqb k' k) eqn:E; [|exact M1].
        apply kind_eqb_eq in E. subst. lia.
      * rewrite find_id_app_none by exact Fs1. apply find_id_new.
      * intros Hi B.
        change {| ids := ids s1 ++ [(t, N.lor (N.shiftl (kind_discr k) 26) (counter s1 k))];
                  counter := fun k' => if kind_eqb k' k then counter s1 k + 1 else counter s1 k' |}
          with (snd (alloc k t s1)) in *.
        apply Inv_alloc; auto. apply I1; auto.
        intros k'. specialize (B k'). unfold alloc in B. cbn [snd counter] in B.
        destruct (kind_eqb k' k) eqn:E; [apply kind_eqb_eq in E; subst; lia | exact B].
Qed.

Theorem tid_invariant pw t : Ptid pw t.
Proof. apply (tid_P pw (lsize t)). lia. Qed.

(* ---- any sequence of requests -------------------------------------------------------------------- *)
Lemma tid_seq_P pw ts : forall st rs st', tid_seq pw ts st = (rs, st') ->
  (exists l, ids st' = ids st ++ l) /\ mono st st' /\
  (Inv pw st -> bounded st' -> Inv pw st') /\
  (forall i t id, nth_error ts i = Some t -> nth_error rs i = Some (Ok id) ->
     find_id t (ids st') = Some id).
Proof.
  induction ts as [|t r IH]; intros st rs st' H; cbn [tid_seq] in H.
  - inversion H; subst. split4.
    + exists []. rewrite app_nil_r. reflexivity.
    + intros k. lia.
    + auto.
    + intros [|i] u id Hu; discriminate.
  - destruct (tid pw t st) as [[id0 s1]| |] eqn:E.
    + destruct (tid_seq pw r s1) as [rs1 sf] eqn:R. inversion H; subst; clear H.
      destruct (tid_invariant pw t _ _ _ E) as ((l1 & E1 & _) & M1 & F1 & I1).
      destruct (IH _ _ _ R) as ((l2 & E2) & M2 & I2 & N2).
      split4.
      * exists (l1 ++ l2). rewrite E2, E1, app_assoc. reflexivity.
      * intros k. specialize (M1 k). specialize (M2 k). lia.
      * intros Hi B. apply I2; auto. apply I1; auto. eapply bounded_mono; eauto.
      * intros [|i] u id Hu Hr; cbn [nth_error] in Hu, Hr.
        -- inversion Hu; inversion Hr; subst. rewrite E2. apply find_id_app_old. exact F1.
        -- eapply N2; eauto.
    + destruct (tid_seq pw r st) as [rs1 sf] eqn:R. inversion H; subst; clear H.
      destruct (IH _ _ _ R) as (X & M & I & N2). split4; auto.
      intros [|i] u id Hu Hr; cbn [nth_error] in Hu, Hr; [discriminate|]. eapply N2; eauto.
    + destruct (tid_seq pw r st) as [rs1 sf] eqn:R. inversion H; subst; clear H.
      destruct (IH _ _ _ R) as (X & M & I & N2). split4; auto.
      intros [|i] u id Hu Hr; cbn [nth_error] in Hu, Hr; [discriminate|]. eapply N2; eauto.
Qed.

(* (a) the id of a type is a function of the type, for any request sequence on any table *)
Theorem same_type_same_id pw ts st rs st' i j t id1 id2 :
  tid_seq pw ts st = (rs, st') ->
  nth_error ts i = Some t -> nth_error rs i = Some (Ok id1) ->
  nth_error ts j = Some t -> nth_error rs j = Some (Ok id2) ->
  id1 = id2.
Proof.
  intros H Ti Ri Tj Rj. destruct (tid_seq_P pw ts _ _ _ H) as (_ & _ & _ & N).
  pose proof (N _ _ _ Ti Ri) as A. pose proof (N _ _ _ Tj Rj) as B. congruence.
Qed.

(* (b) equal ids mean equal types, outside the known class *)
Definition runtime_ok (t : lty) : Prop :=
  kind_of t = None -> wf t /\ runtime_simple t = true.

Theorem same_id_same_type pw ts rs st' i j t1 t2 id : ptr_width pw ->
  tid_seq pw ts meta0 = (rs, st') -> bounded st' ->
  nth_error ts i = Some t1 -> nth_error rs i = Some (Ok id) ->
  nth_error ts j = Some t2 -> nth_error rs j = Some (Ok id) ->
  runtime_ok t1 -> runtime_ok t2 ->
  t1 = t2 \/ known_pair pw t1 t2 = true \/ file_pair t1 t2 = true.
Proof.
  intros Hpw H B T1 R1 T2 R2 O1 O2.
  destruct (tid_seq_P pw ts _ _ _ H) as (_ & _ & I & N).
  specialize (I (Inv_meta0 pw) B). destruct I as [I1 I2].
  pose proof (find_id_In _ _ _ (N _ _ _ T1 R1)) as In1.
  pose proof (find_id_In _ _ _ (N _ _ _ T2 R2)) as In2.
  pose proof (I1 _ _ In1) as E1. pose proof (I1 _ _ In2) as E2.
  destruct (kind_of t1) as [k1|] eqn:K1; destruct (kind_of t2) as [k2|] eqn:K2.
  - left. eapply I2; eauto; congruence.
  - exfalso. destruct E1 as (c & Hc & ->). destruct (O2 K2) as [W2 RT2].
    refine (compound_id_not_simple k1 c pw t2 _ _ _ Hpw W2 _ E2 eq_refl eq_refl).
    + specialize (B k1). lia.
    + destruct t2; try reflexivity; discriminate RT2.
  - exfalso. destruct E2 as (c & Hc & ->). destruct (O1 K1) as [W1 RT1].
    refine (compound_id_not_simple k2 c pw t1 _ _ _ Hpw W1 _ E1 eq_refl eq_refl).
    + specialize (B k2). lia.
    + destruct t1; try reflexivity; discriminate RT1.
  - destruct (O1 K1) as [W1 RT1]. destruct (O2 K2) as [W2 RT2].
    apply (simple_ids_injective_except_known pw t1 t2 id); auto; unfold simple_ok_id.
    + rewrite E1. reflexivity.
    + rewrite E2. reflexivity.
Qed.
