(* Algebra of the IndexMap primitives of Model/Topo.v (get / set / del / keys). *)
From Capy Require Import Common.Util Model.Topo.

Lemma memb_In x l : memb x l = true <-> In x l.
Proof.
  unfold memb. rewrite existsb_exists. split.
  - intros [y [Hy E]]. apply N.eqb_eq in E. subst. exact Hy.
  - intros H. exists x. split; [exact H|apply N.eqb_refl].
Qed.

Lemma memb_nIn x l : memb x l = false <-> ~ In x l.
Proof.
  rewrite <- memb_In. destruct (memb x l); split; intros H;
    try reflexivity; try discriminate; try (intro; discriminate).
  exfalso; apply H; reflexivity.
Qed.

Lemma memb_cons x y l : memb x (y :: l) = N.eqb x y || memb x l.
Proof. reflexivity. Qed.

Lemma get_set t k d x : get (set t k d) x = if N.eqb k x then Some d else get t x.
Proof.
  induction t as [|e r IH]; cbn [set get fst snd].
  - destruct (N.eqb k x); reflexivity.
  - destruct (N.eqb_spec (fst e) k) as [E|E]; cbn [get fst snd].
    + subst k. destruct (N.eqb (fst e) x); reflexivity.
    + rewrite IH. destruct (N.eqb_spec (fst e) x) as [E2|E2]; [|reflexivity].
      subst x. destruct (N.eqb_spec k (fst e)); [congruence|reflexivity].
Qed.

Lemma get_keys t k d : get t k = Some d -> In k (keys t).
Proof.
  induction t as [|e r IH]; cbn [get keys map]; [discriminate|].
  destruct (N.eqb_spec (fst e) k); intros H; [left; assumption|right; apply IH; exact H].
Qed.

Lemma get_none t k : get t k = None <-> ~ In k (keys t).
Proof.
  induction t as [|e r IH]; cbn [get keys map In]; [tauto|].
  destruct (N.eqb_spec (fst e) k) as [E|E].
  - split; [discriminate|tauto].
  - rewrite IH. unfold keys. tauto.
Qed.

Lemma keys_get t k : In k (keys t) -> exists d, get t k = Some d.
Proof.
  intros H. destruct (get t k) eqn:G; [eauto|]. apply get_none in G. tauto.
Qed.

Lemma get_In t k d : get t k = Some d -> In (k, d) t.
Proof.
  induction t as [|e r IH]; cbn [get]; [discriminate|].
  destruct (N.eqb_spec (fst e) k) as [E|E]; intros H.
  - left. inversion H. subst. destruct e; reflexivity.
  - right. auto.
Qed.

Lemma In_get t k d : NoDup (keys t) -> In (k, d) t -> get t k = Some d.
Proof.
  induction t as [|e r IH]; cbn [get keys map In]; [tauto|].
  intros ND [H|H].
  - subst e. cbn [fst snd]. rewrite N.eqb_refl. reflexivity.
  - inversion ND as [|? ? Hn ND']; subst.
    destruct (N.eqb_spec (fst e) k) as [E|E].
    + exfalso. apply Hn. subst k.
      apply (in_map fst) in H. exact H.
    + apply IH; assumption.
Qed.

Lemma keys_set_in t k d : In k (keys t) -> keys (set t k d) = keys t.
Proof.
  induction t as [|e r IH]; cbn [keys map set In]; [tauto|].
  destruct (N.eqb_spec (fst e) k) as [E|E]; cbn [map fst]; intros H.
  - reflexivity.
  - f_equal. apply IH. destruct H; [congruence|assumption].
Qed.

Lemma keys_set_nin t k d : ~ In k (keys t) -> keys (set t k d) = keys t ++ [k].
Proof.
  induction t as [|e r IH]; cbn [keys map set In app]; [reflexivity|].
  destruct (N.eqb_spec (fst e) k) as [E|E]; cbn [map fst]; intros H.
  - tauto.
  - f_equal. apply IH. tauto.
Qed.

Lemma filter_map_fst {B} (f : item * B -> bool) (g : item -> bool) (t : list (item * B)) :
  (forall e, In e t -> f e = g (fst e)) ->
  map fst (filter f t) = filter g (map fst t).
Proof.
  induction t as [|e r IH]; cbn [filter map]; [reflexivity|]. intros H.
  rewrite <- (H e (or_introl eq_refl)).
  destruct (f e); cbn [map]; [f_equal|]; apply IH; intros; apply H; right; assumption.
Qed.

Lemma keys_del t k : keys (del t k) = filter (fun y => negb (N.eqb y k)) (keys t).
Proof.
  unfold del, keys. apply filter_map_fst. intros; reflexivity.
Qed.

Lemma get_del t k x : get (del t k) x = if N.eqb k x then None else get t x.
Proof.
  unfold del. induction t as [|e r IH].
  - cbn. destruct (N.eqb k x); reflexivity.
  - cbn [filter]. destruct (N.eqb_spec (fst e) k) as [E|E]; cbn [negb get].
    + rewrite IH. subst k. destruct (N.eqb (fst e) x); reflexivity.
    + rewrite IH. destruct (N.eqb_spec (fst e) x) as [E2|E2]; [|reflexivity].
      subst x. destruct (N.eqb_spec k (fst e)); [congruence|reflexivity].
Qed.

Lemma is_empty_keys t : is_empty t = is_nil (keys t).
Proof. destruct t; reflexivity. Qed.
