(* C24 proofs, part 3: the round-trip theorem parse (print e) = e for every
   correctly parenthesised tree, by strong induction on the size of the tree. *)
From Coq Require Import List Arith Bool Lia.
Import ListNotations.
From Capy Require Import Model.ExprGrammar Spec.Precedence Proofs.PrattBasics Proofs.PrattLoops.

Definition Bst (a : expr) : Prop :=
  forall m R F, wf (CB m) a = true -> bfollow m R = true -> pfollow (redge a) R = true -> bound a <= F ->
    parse_bp F m false (print a ++ R) = POk a R.

Definition Lst (e : expr) : Prop :=
  forall dd ddi R F, is_base e = true -> wf (CC dd ddi) e = true -> pfollow e R = true -> bound e - 2 <= F ->
    parse_lhs F false (print e ++ R) = POk e R.

Definition Cst (e : expr) : Prop :=
  forall dd ddi R F, wf (CC dd ddi) e = true -> cfollow dd ddi R = true -> pfollow e R = true -> bound e - 2 <= F ->
    parse_lhs F false (print e ++ R) = POk (cbase e) (pflat (cops e) ++ R) /\
    parse_post F false (cbase e) dd ddi (pflat (cops e) ++ R) = POk e R.

(* ---- sizes --------------------------------------------------------------- *)
Lemma size_cbase : forall e, size (cbase e) <= size e.
Proof. induction e; simpl; lia. Qed.

Lemma cops_nil_base : forall e, cops e = [] -> cbase e = e.
Proof. destruct e; simpl; auto; intro H; destruct (cops _); discriminate. Qed.

Lemma aneed_le : forall args, aneed args <= 6 * fold_right (fun a n => S (size a) + n) 0 args.
Proof. induction args; cbn [aneed fold_right]; unfold bound in *; lia. Qed.

Lemma pneed_snoc : forall ps p, pneed (ps ++ [p]) = pneed ps + pn p.
Proof. induction ps; simpl; intros; [lia | rewrite IHps; lia]. Qed.

Lemma pneed_bound : forall e, pneed (cops e) + 6 * size (cbase e) <= 6 * size e.
Proof.
  induction e; cbn [cops cbase pneed]; try lia; rewrite pneed_snoc; cbn [pn size]; unfold bound.
  - pose proof (aneed_le args). lia.
  - lia.
  - lia.
  - lia.
  - destruct v; lia.
  - lia.
Qed.

Lemma bneed_snoc : forall ps p, bneed (ps ++ [p]) = bneed ps + bound (snd p) + 2.
Proof. induction ps; simpl; intros; [lia | rewrite IHps; lia]. Qed.

Lemma bneed_bound : forall e, bneed (bops e) + 6 * size (bbase e) + 4 * length (bops e) = 6 * size e.
Proof.
  induction e; cbn [bops bbase bneed length]; try lia.
  rewrite bneed_snoc, app_length. cbn [snd length size]. unfold bound. lia.
Qed.

Lemma bops_nil : forall e, bops e = [] -> bbase e = e /\ redge e = e.
Proof. destruct e; simpl; auto. intro H. destruct (bops e1); discriminate. Qed.

Lemma edge_ok_snoc : forall ps p R, edge_ok (ps ++ [p]) R <-> pfollow (redge (snd p)) R = true.
Proof.
  induction ps as [|q ps IH]; intros; simpl; [tauto|].
  destruct (ps ++ [p]) eqn:E; [destruct ps; discriminate|]. rewrite <- E. apply IH.
Qed.

Lemma edge_ok_spine : forall e R, pfollow (redge e) R = true -> edge_ok (bops e) R.
Proof. destruct e; simpl; auto. intros. apply edge_ok_snoc. assumption. Qed.

Lemma in_args_size : forall (a : expr) args, In a args -> size a < fold_right (fun a n => S (size a) + n) 0 args.
Proof. induction args; cbn [In fold_right]; intros; [contradiction|]. destruct H; [subst; lia | specialize (IHargs H); lia]. Qed.

(* ---- facts about the parts, from the induction hypothesis ------------------ *)
Lemma afact_of : forall a, Bst a -> wf (CB 0) a = true -> afact a.
Proof.
  intros a B W g t R Hg Ht. apply B; auto.
  - apply bfollow_stop3; assumption.
  - apply pfollow_stop3; assumption.
Qed.

Lemma chain_facts : forall e dd ddi, (forall a, size a < size e -> Bst a) ->
  wf (CC dd ddi) e = true -> Forall (pfact dd ddi) (cops e).
Proof.
  induction e; intros dd ddi IHs W; cbn [cops]; try constructor; cbn [wf chain dd_of ddi_of] in W.
  - (* call *)
    apply andb_true_iff in W. destruct W as [W W3]. apply andb_true_iff in W. destruct W as [W1 W2].
    apply Forall_app. split.
    + apply IHe; auto. intros. apply IHs. cbn [size]. lia.
    + constructor; [|constructor]. cbn [pfact]. rewrite forallb_forall in W3. apply Forall_forall. intros a Ha.
      apply afact_of; auto. apply IHs. pose proof (in_args_size a args Ha). cbn [size]. lia.
  - apply andb_true_iff in W. destruct W as [W W3]. apply andb_true_iff in W. destruct W as [W1 W2].
    apply Forall_app. split.
    + apply IHe1; auto. intros. apply IHs. cbn [size]. lia.
    + constructor; [|constructor]. cbn [pfact]. apply afact_of; auto. apply IHs. cbn [size]. lia.
  - apply andb_true_iff in W. destruct W as [W1 W2]. apply Forall_app. split.
    + apply IHe; auto. intros. apply IHs. cbn [size]. lia.
    + constructor; [exact I | constructor].
  - apply andb_true_iff in W. destruct W as [W1 W2]. apply Forall_app. split.
    + apply IHe; auto. intros. apply IHs. cbn [size]. lia.
    + constructor; [exact I | constructor].
  - apply andb_true_iff in W. destruct W as [W W4]. apply andb_true_iff in W. destruct W as [W W3].
    apply andb_true_iff in W. destruct W as [W1 W2]. apply negb_true_iff in W1. apply Forall_app. split.
    + apply IHe; auto. intros. apply IHs. cbn [size]. lia.
    + constructor; [|constructor]. cbn [pfact]. split; auto. intros w ->. apply afact_of; auto.
      apply IHs. cbn [size]. lia.
  - apply andb_true_iff in W. destruct W as [W W3]. apply andb_true_iff in W. destruct W as [W1 W2].
    apply negb_true_iff in W1. apply Forall_app. split.
    + apply IHe; auto. intros. apply IHs. cbn [size]. lia.
    + constructor; [assumption | constructor].
Qed.

Lemma sp_ok_weaken : forall ps m m', m <= m' -> sp_ok m' ps -> sp_ok m ps.
Proof.
  induction ps; simpl; intros; auto. destruct H0 as (A & B & C & D). repeat split; auto; try lia. eapply IHps; eauto.
Qed.

Lemma sp_ok_snoc : forall ps o r m, sp_ok (lbp o) ps -> m <= lbp o -> bfact (o, r) -> sp_ok m (ps ++ [(o, r)]).
Proof.
  induction ps as [|q ps IH]; intros o r m H Hm Hb.
  - simpl. auto.
  - cbn [sp_ok] in H. destruct H as (A & B & C & D). cbn [app sp_ok].
    split; [lia|]. split; [assumption|]. split; [destruct ps; cbn [app fst]; auto | apply IH; auto].
Qed.

Lemma wf_cb_chain : forall e m, is_bin e = false -> wf (CB m) e = wf (CC false false) e.
Proof. destruct e; simpl; intros; try reflexivity. discriminate. Qed.

Lemma spine_facts : forall e m, (forall a, size a < size e -> Bst a) -> wf (CB m) e = true ->
  sp_ok m (bops e) /\ wf (CC false false) (bbase e) = true.
Proof.
  induction e; intros m0 IHs W;
    try (split; [exact I | rewrite <- (wf_cb_chain _ m0) by reflexivity; exact W]).
  cbn [wf] in W. apply andb_true_iff in W. destruct W as [W W3]. apply andb_true_iff in W. destruct W as [W1 W2].
  apply Nat.leb_le in W1. cbn [bops bbase].
  destruct (IHe1 (lbp o)) as (S1 & B1); auto. { intros. apply IHs. cbn [size]. lia. }
  split; auto. apply sp_ok_snoc; auto.
  intros g R Hg HB HP. cbn [fst snd] in *. apply IHs; auto. cbn [size]. lia.
Qed.

Lemma at_lbrace_chain : forall dd ddi ps R, cfollow dd ddi R = true -> at_lbrace (pflat ps ++ R) = false.
Proof.
  intros. destruct ps as [|p ps]; simpl.
  - eapply cfollow_not_lbrace; eauto.
  - rewrite <- app_assoc. apply ptoks_not_lbrace.
Qed.

(* ---- the three steps --------------------------------------------------------- *)
Lemma Lstep : forall e, (forall a, size a < size e -> Cst a /\ Bst a) -> Lst e.
Proof.
  intros e IH dd ddi R F HB W PF HF. unfold bound in HF.
  destruct e; try discriminate HB; cbn [wf] in W; try discriminate W.
  - (* atom *) destruct F; [simpl in HF; lia|]. destruct a; reflexivity.
  - (* paren *) cbn [size] in HF. destruct F as [|f]; [lia|].
    cbn [print]. rewrite <- app_comm_cons, <- app_assoc. cbn [app].
    assert (P : parse_bp f 0 false (print e ++ TRParen :: R) = POk e (TRParen :: R)).
    { apply (proj2 (IH e ltac:(cbn [size]; lia)));
        [assumption | apply bfollow_stop3; left; reflexivity | apply pfollow_stop3; left; reflexivity
        | unfold bound; lia]. }
    cbn [parse_lhs]. rewrite scan_paren.
    destruct (print_head e) as (t & r0 & E & St). rewrite E in *. cbn [app] in *.
    destruct t; simpl in St; try discriminate; try (destruct o; try discriminate); rewrite P; reflexivity.
  - (* unary *) cbn [size] in HF. destruct F as [|f]; [lia|]. destruct f as [|f']; [lia|].
    cbn [pfollow] in PF. apply andb_true_iff in PF. destruct PF as [PF1 PF2].
    destruct (proj1 (IH e ltac:(cbn [size]; lia)) true false R f' W PF1 PF2) as [C1 C2]. { unfold bound. lia. }
    cbn [print app]. destruct o; cbn [unop_tok parse_lhs prefix_op lhs_post]; rewrite C1, C2; reflexivity.
  - (* ref *) cbn [size] in HF. destruct F as [|f]; [lia|]. destruct f as [|f']; [lia|].
    cbn [pfollow] in PF. apply andb_true_iff in PF. destruct PF as [PF1 PF2].
    destruct (proj1 (IH e ltac:(cbn [size]; lia)) true true R f' W PF1 PF2) as [C1 C2]. { unfold bound. lia. }
    cbn [print]. destruct m; cbn [app].
    + cbn [parse_lhs lhs_post]. rewrite C1, C2. reflexivity.
    + destruct (print_head e) as (t & r0 & E & St). cbn [parse_lhs]. rewrite E in *. cbn [app] in *.
      destruct t; simpl in St; try discriminate; try (destruct o; try discriminate);
        cbn [lhs_post]; rewrite C1, C2; reflexivity.
Qed.

Lemma Cstep : forall e, Lst (cbase e) -> (forall a, size a < size e -> Bst a) -> Cst e.
Proof.
  intros e HL IH dd ddi R F W HR PF HF.
  destruct (wf_chain e dd ddi W) as (Wb & _ & Pf).
  pose proof (chain_facts e dd ddi IH W) as Facts.
  pose proof (pneed_bound e) as PB. pose proof (size_cbase e) as SC. pose proof (size_pos (cbase e)) as SP.
  unfold bound in HF. split.
  - rewrite print_chain, <- app_assoc. apply (HL dd ddi); auto.
    + apply cbase_base.
    + destruct (cops e) eqn:E.
      * simpl. rewrite (cops_nil_base e E). assumption.
      * apply Pf. congruence.
    + unfold bound. lia.
  - destruct F as [|f]; [lia|]. cbn [parse_post].
    rewrite (at_lbrace_chain dd ddi _ _ HR). rewrite !andb_false_r.
    rewrite post_loop_ok by (auto; lia). rewrite fold_chain.
    rewrite (cfollow_not_lbrace _ _ _ HR). rewrite !andb_false_r. reflexivity.
Qed.

Lemma Bstep : forall e, Cst (bbase e) -> (forall a, size a < size e -> Bst a) -> Bst e.
Proof.
  intros e HC IH m R F W HR PF HF.
  destruct (spine_facts e m IH W) as (SP & Wb).
  pose proof (bneed_bound e) as BB. pose proof (size_pos (bbase e)) as SPos.
  unfold bound in HF.
  assert (FR : cfollow false false (bflat (bops e) ++ R) = true /\ pfollow (bbase e) (bflat (bops e) ++ R) = true).
  { destruct (bops e) as [|[o r] ps] eqn:E.
    - simpl. destruct (bops_nil e E) as [-> E2]. rewrite E2 in PF. split; auto. eapply bfollow_cfollow; eauto.
    - cbn [bflat flat_map btoks fst snd app]. split; [reflexivity | apply pfollow_op]. }
  destruct FR as [F1 F2].
  rewrite print_spine, <- app_assoc.
  destruct F as [|f1]; [pose proof (size_pos e); lia|]. destruct f1 as [|f2]; [pose proof (size_pos e); lia|].
  assert (SB : size (bbase e) <= size e).
  { clear -BB. lia. }
  destruct (HC false false (bflat (bops e) ++ R) (S f2) Wb F1 F2) as [C1 _]. { unfold bound. lia. }
  destruct (HC false false (bflat (bops e) ++ R) f2 Wb F1 F2) as [_ C2]. { unfold bound. lia. }
  cbn [parse_bp]. rewrite C1. rewrite bp_loop_unfold. rewrite C2.
  rewrite bp_tail_ok; auto.
  - rewrite fold_spine. reflexivity.
  - apply edge_ok_spine. assumption.
  - destruct (bops e); simpl in *; lia.
Qed.

Theorem main_all : forall n e, size e <= n -> Lst e /\ Cst e /\ Bst e.
Proof.
  induction n as [|n IH]; intros e Hs.
  - pose proof (size_pos e). lia.
  - assert (IHs : forall a, size a < size e -> Lst a /\ Cst a /\ Bst a).
    { intros a Ha. apply IH. lia. }
    assert (L : Lst e). { apply Lstep. intros a Ha. destruct (IHs a Ha) as (_ & C & B). auto. }
    assert (C : Cst e).
    { apply Cstep.
      - destruct (cops e) eqn:E.
        + rewrite (cops_nil_base e E). exact L.
        + assert (size (cbase e) < size e).
          { pose proof (pneed_bound e). rewrite E in H. destruct p as [| | | |[]|]; simpl in H; lia. }
          apply IHs; assumption.
      - intros a Ha. apply IHs; assumption. }
    split; [exact L|]. split; [exact C|].
    apply Bstep.
    + destruct (bops e) eqn:E.
      * destruct (bops_nil e E) as [-> _]. exact C.
      * assert (size (bbase e) < size e).
        { pose proof (bneed_bound e). rewrite E in H. simpl in H. lia. }
        apply IHs; assumption.
    + intros a Ha. apply IHs; assumption.
Qed.

Theorem parse_bp_print : forall e m R F, wf (CB m) e = true -> bfollow m R = true ->
  pfollow (redge e) R = true -> 6 * size e <= F -> parse_bp F m false (print e ++ R) = POk e R.
Proof. intros. destruct (main_all (size e) e (le_n _)) as (_ & _ & B). apply B; auto. Qed.
