(* C08 proofs, float facets (casts int <-> float) for the Flocq instance of the
   float semantics.  Inherits Flocq's classical axioms through Common/Floats.v. *)
From Capy Require Import Common.Util Common.Bits Common.Floats Model.NumOps Model.NumOpsF
  Spec.NumSpec Spec.NumSpecF Proofs.NumOpsProofs.
Open Scope Z_scope.

Lemma smin_mono w1 w2 : 0 < w1 <= w2 -> smin w2 <= smin w1.
Proof. intros. unfold smin. pose proof (pow2_le_mono (w1 - 1) (w2 - 1) ltac:(lia)). lia. Qed.
Lemma smax_mono w1 w2 : 0 < w1 <= w2 -> smax w1 <= smax w2.
Proof. intros. unfold smax. pose proof (pow2_le_mono (w1 - 1) (w2 - 1) ltac:(lia)). lia. Qed.
Lemma umax_mono w1 w2 : 0 <= w1 <= w2 -> umax w1 <= umax w2.
Proof. intros. unfold umax. pose proof (pow2_le_mono w1 w2 ltac:(lia)). lia. Qed.

Lemma signed_sextend w1 w2 a : 0 < w1 <= w2 -> signed w2 (sextend w1 w2 a) = signed w1 a.
Proof.
  intros. unfold sextend. rewrite signed_wrap by lia. apply signed_small; [lia|].
  pose proof (signed_range w1 a ltac:(lia)). pose proof (smin_mono w1 w2 H). pose proof (smax_mono w1 w2 H). lia.
Qed.

Lemma fits_signed w wf v : 0 < w <= wf -> fits true w v = true -> smin wf <= v <= smax wf.
Proof.
  unfold fits. cbn [tmin tmax]. rewrite andb_true_iff, !Z.leb_le. intros H [A B].
  pose proof (smin_mono w wf H). pose proof (smax_mono w wf H). lia.
Qed.
Lemma fits_unsigned w wf v : 0 < w <= wf -> fits false w v = true -> 0 <= v <= umax wf.
Proof.
  unfold fits. cbn [tmin tmax]. rewrite andb_true_iff, !Z.leb_le. intros H [A B].
  pose proof (umax_mono w wf ltac:(lia)). lia.
Qed.
Lemma sat_s_exact wf v : smin wf <= v <= smax wf -> to_sint_sat_of (Some v) wf = wrap wf v.
Proof.
  intros. unfold to_sint_sat_of, clamp.
  destruct (Z.ltb_spec v (smin wf)); [lia|]. destruct (Z.ltb_spec (smax wf) v); [lia|]. reflexivity.
Qed.
Lemma sat_u_exact wf v : 0 <= v <= umax wf -> to_uint_sat_of (Some v) wf = wrap wf v.
Proof.
  intros. unfold to_uint_sat_of, clamp.
  destruct (Z.ltb_spec v 0); [lia|]. destruct (Z.ltb_spec (umax wf) v); [lia|]. reflexivity.
Qed.

Lemma float_width_cases t wf : float_width t = Some wf ->
  (t = TFloat 32 /\ wf = 32) \/ (t = TFloat 64 /\ wf = 64).
Proof.
  destruct t as [n|n|n| | ]; cbn; try discriminate.
  destruct (N.eqb_spec n 32) as [->|]; [intros [= <-]; auto|].
  destruct (N.eqb_spec n 64) as [->|]; [intros [= <-]; auto|]. discriminate.
Qed.

Local Opaque fb_of_int32 fb_of_int64 canon32 canon64 fb_trunc32 fb_trunc64
  signed wrap sextend smin smax umax to_sint_sat_of to_uint_sat_of fits Z.pow.

(* int -> float: the nearest float (Floats.of_int32/64) of the source VALUE,
   whenever the integer is not wider than the float (class 2 excluded) *)
Theorem int_to_float_except_known fx from to a s w :
  ty_sem from = Some (s, w) -> in_bits w a -> known_class_any from to = None ->
  forall r, spec_int_to_float from to a = Some r -> val_bits (m_cast_v fx from to a) = Some r.
Proof.
  intros Hf Ha K r S.
  pose proof (ty_sem_in_all _ _ _ Hf) as I.
  unfold spec_int_to_float in S. rewrite Hf in S.
  destruct (float_width to) as [wf|] eqn:FW; [|discriminate].
  destruct (float_width_cases _ _ FW) as [[-> ->]|[-> ->]];
  cbn in I; repeat (destruct I as [<-|I]); try contradiction;
  cbn in Hf; injection Hf as <- <-; cbn in K; try discriminate K;
  cbn in S; injection S as <-; cbn;
  unfold fb_from_sint32, fb_from_uint32, fb_from_sint64, fb_from_uint64, uextend;
  rewrite ?signed_sextend by lia; reflexivity.
Qed.

(* float -> int: truncation toward zero whenever the truncated value fits the target,
   provided the target is not wider than the float (class 3 excluded) *)
Theorem float_to_int_except_known fx from to x :
  known_class_any from to = None ->
  forall r, spec_float_to_int from to x = Some r -> val_bits (m_cast_v fx from to x) = Some r.
Proof.
  intros K r S. unfold spec_float_to_int in S.
  destruct (float_width from) as [wf|] eqn:FW; [|discriminate].
  destruct (ty_sem to) as [[s w]|] eqn:Ht; [|discriminate].
  pose proof (ty_sem_in_all _ _ _ Ht) as I.
  destruct (if wf =? 32 then fb_trunc32 x else fb_trunc64 x) as [v|] eqn:T; [|discriminate].
  destruct (fits s w v) eqn:FT; [|discriminate]. injection S as <-.
  destruct (float_width_cases _ _ FW) as [[-> ->]|[-> ->]];
  cbn in I; repeat (destruct I as [<-|I]); try contradiction;
  cbn in Ht; injection Ht as <- <-; cbn in K; try discriminate K;
  cbn in T; cbn; rewrite ?T; cbn;
  first [ rewrite (sat_s_exact _ v) by (eapply fits_signed; [|exact FT]; lia)
        | rewrite (sat_u_exact _ v) by (eapply fits_unsigned; [|exact FT]; lia) ];
  unfold ireduce, encode; rewrite ?wrap_wrap_le by lia; reflexivity.
Qed.

Definition cast_float_full : Prop :=
  forall from to a r, spec_cast_any from to a = Some r ->
  (forall s w, ty_sem from = Some (s, w) -> in_bits w a) ->
  val_bits (m_cast from to a) = Some r.

(* f32.(i64 2^32) = 0.0 (ireduce to i32 before the conversion); the statement demands 4294967296.0 *)
Lemma cast_float_full_refuted : ~ cast_float_full.
Proof.
  intros H.
  specialize (H (TIInt 64) (TFloat 32) (2 ^ 32) (32, 0x4f800000) ltac:(vm_compute; reflexivity)).
  assert (forall s w, ty_sem (TIInt 64) = Some (s, w) -> in_bits w (2 ^ 32)) as Q.
  { intros s w [= <- <-]. vm_compute. split; [discriminate | reflexivity]. }
  specialize (H Q). vm_compute in H. discriminate.
Qed.

(* i64.(f32 3e9) = 2147483647 (saturation at i32); the statement demands 3000000000 *)
Lemma cast_float_to_int_witness :
  spec_cast_any (TFloat 32) (TIInt 64) 0x4f32d05e = Some (64, 3000000000) /\
  val_bits (m_cast (TFloat 32) (TIInt 64) 0x4f32d05e) = Some (64, 2147483647).
Proof. split; vm_compute; reflexivity. Qed.

(* the strongest true statement about all casts that involve a float *)
Theorem cast_float_except_known fx from to a :
  known_class_any from to = None ->
  (forall s w, ty_sem from = Some (s, w) -> in_bits w a) ->
  (ty_sem from = None \/ ty_sem to = None) ->
  (float_width from <> None \/ ty_sem from <> None) ->
  forall r, match ty_sem from, ty_sem to with
            | Some _, None => spec_int_to_float from to a
            | None, Some _ => spec_float_to_int from to a
            | _, _ => None
            end = Some r ->
  val_bits (m_cast_v fx from to a) = Some r.
Proof.
  intros K Ha _ _ r. destruct (ty_sem from) as [[s w]|] eqn:Hf; destruct (ty_sem to) as [[s2 w2]|] eqn:Ht;
    try discriminate.
  - intros S. eapply int_to_float_except_known; eauto.
  - intros S. eapply float_to_int_except_known; eauto.
Qed.
