(* The accessors (stride, struct offsets, tag offset) of the model agree with
   the specification, and the documented rules stated directly on what the
   model of layout.rs returns. *)
From Capy Require Import Common.Util Common.LTy Common.Layout Spec.CLayout
  Proofs.LayoutSpecProofs Proofs.LayoutProofs.
Local Open Scope N_scope.

Lemma wfb_absolute t : wfb t = true -> wfb (absolute_ty t) = true.
Proof. induction t using lty_ind'; cbn [absolute_ty wfb]; auto. Qed.
Lemma lens32_absolute t : lens32 t = true -> lens32 (absolute_ty t) = true.
Proof. induction t using lty_ind'; cbn [absolute_ty lens32]; auto. Qed.
Lemma ideal_absolute pw t : ideal pw (absolute_ty t) = ideal pw t.
Proof. induction t using lty_ind'; cbn [absolute_ty ideal]; auto. Qed.

Lemma members_refine pw (ms : list (N * lty)) : ptr_width pw ->
  forallb (fun m => wfb (snd m)) ms = true -> forallb (fun m => lens32 (snd m)) ms = true ->
  Forall (fun m => forall r, lay pw (snd m) = Ok r -> r = ideal pw (snd m)) ms.
Proof.
  intros Hpw W L. apply forallb_Forall_snd in W. apply forallb_Forall_snd in L.
  rewrite Forall_forall in *. intros m Hm r Hr. apply (lay_refines pw Hpw); auto. apply W; auto.
Qed.

Lemma variants_refine pw vs : ptr_width pw ->
  forallb wfb vs = true -> forallb lens32 vs = true ->
  Forall (fun v => forall r, lay pw v = Ok r -> r = ideal pw v) vs.
Proof.
  intros Hpw W L. rewrite forallb_forall in W, L.
  rewrite Forall_forall. intros m Hm r Hr. apply (lay_refines pw Hpw); auto. apply W; auto.
Qed.

Lemma struct_offsets_refines pw : ptr_width pw -> forall t, wf t -> lens32 t = true ->
  forall o, struct_offsets pw t = Ok o -> o = ioffsets pw t.
Proof.
  intros Hpw t W L o H. unfold struct_offsets in H. binds H. unfold ioffsets.
  pose proof (wfb_absolute t W) as WA. pose proof (lens32_absolute t L) as LA.
  destruct (absolute_ty t); try (inversion H; reflexivity); cbn [wfb lens32] in WA, LA.
  - binds H. inversion H; subst; clear H.
    apply fields_ok in E0; [|apply members_refine; auto]. subst.
    destruct v1 as [[sz al] offs]. unfold struct_new in E1.
    apply struct_go_ok in E1; [|apply ideal_fields_align_pos; auto].
    destruct E1 as (-> & _ & _). reflexivity.
  - binds H. inversion H; subst; clear H.
    apply fields_ok in E0; [|apply members_refine; auto]. subst.
    destruct v1 as [[sz al] offs]. unfold struct_new in E1.
    apply struct_go_ok in E1; [|apply ideal_fields_align_pos; auto].
    destruct E1 as (-> & _ & _). reflexivity.
Qed.

Lemma discr_offset_refines pw : ptr_width pw -> forall t, wf t -> lens32 t = true ->
  forall d, discr_offset pw t = Ok d -> d = idiscr pw t.
Proof.
  intros Hpw t W L d H. unfold discr_offset in H. binds H. unfold idiscr.
  pose proof (wfb_absolute t W) as WA. pose proof (lens32_absolute t L) as LA.
  destruct (absolute_ty t); try (inversion H; reflexivity); cbn [wfb lens32] in WA, LA.
  - binds H. inversion H; subst; clear H.
    apply variants_ok in E0; [|apply variants_refine; auto]. destruct E0 as [-> _].
    f_equal. lia.
  - destruct (is_non_zero l); [inversion H; reflexivity|].
    binds H. inversion H; subst; clear H.
    apply (lay_refines pw Hpw) in E0; auto. subst. reflexivity.
  - apply andb_true_iff in WA. destruct WA. apply andb_true_iff in LA. destruct LA.
    binds H. inversion H; subst; clear H.
    apply (lay_refines pw Hpw) in E0; auto. apply (lay_refines pw Hpw) in E1; auto. subst. reflexivity.
Qed.

(* Everything the hook returns for a type is what the specification says. *)
Theorem layout_info_refines pw : ptr_width pw -> forall t, wf t -> lens32 t = true ->
  forall i, layout_info pw t = Ok i ->
    i_size i = isize pw t /\ i_align i = ialign pw t /\ i_stride i = istride pw t /\
    i_offsets i = ioffsets pw t /\ i_discr i = idiscr pw t.
Proof.
  intros Hpw t W L i H. unfold layout_info in H. binds H. inversion H; subst; clear H. cbn.
  apply (lay_refines pw Hpw) in E; auto. subst.
  apply stride_ok in E0; [|apply (ialign_pow2_le8 pw Hpw); auto]. destruct E0 as [-> _].
  apply (struct_offsets_refines pw Hpw) in E1; auto.
  apply (discr_offset_refines pw Hpw) in E2; auto.
Qed.

(* ---- inversion lemmas ------------------------------------------------------------------ *)
Lemma layout_info_inv pw t i : layout_info pw t = Ok i ->
  lay pw t = Ok (i_size i, i_align i) /\ stride_of (i_size i) (i_align i) = Ok (i_stride i) /\
  struct_offsets pw t = Ok (i_offsets i) /\ discr_offset pw t = Ok (i_discr i).
Proof.
  unfold layout_info. destruct (lay pw t) as [[s a]| |] eqn:EL; cbn [bind fst snd]; try discriminate.
  destruct (stride_of s a) eqn:ES; cbn [bind]; try discriminate.
  destruct (struct_offsets pw t) eqn:EO; cbn [bind]; try discriminate.
  destruct (discr_offset pw t) eqn:ED; cbn [bind]; try discriminate.
  intros H. inversion H; subst; clear H. cbn [i_size i_align i_stride i_offsets i_discr]. auto.
Qed.

Lemma assert_align_id r r' : assert_align r = Ok r' -> r = r'.
Proof. intros H. apply assert_align_ok in H. destruct H; auto. Qed.

Lemma lay_array_inv pw n sub r :
  (lay pw (LArray n sub) = Ok r \/ lay pw (LAnonArray n sub) = Ok r) ->
  exists e st, lay pw sub = Ok e /\ stride_of (fst e) (snd e) = Ok st /\
    mul32 4 st (trunc32 n) = Ok (fst r) /\ snd r = snd e.
Proof.
  intros [H|H]; cbn [lay] in H;
    (destruct (lay pw sub) as [e| |] eqn:EL; cbn [bind] in H; try discriminate;
     destruct (stride_of (fst e) (snd e)) as [st| |] eqn:ES; cbn [bind] in H; try discriminate;
     destruct (mul32 4 st (trunc32 n)) as [m| |] eqn:M; cbn [bind] in H; try discriminate;
     apply assert_align_id in H; subst r; exists e, st; cbn [fst snd]; repeat split; auto).
Qed.

Lemma lay_wrap_inv pw t sub r :
  ((exists u, t = LDistinct u sub) \/ (exists e n u d, t = LVariant e n u d sub)) ->
  lay pw t = Ok r -> lay pw sub = Ok r.
Proof.
  intros [[u ->]|(e & n & u & d & ->)] H; cbn [lay] in H;
    (destruct (lay pw sub); cbn [bind] in H; try discriminate; apply assert_align_id in H; subst; reflexivity).
Qed.

Lemma lay_optional_inv pw sub r : lay pw (LOptional sub) = Ok r ->
  exists p, lay pw sub = Ok p /\
    (if is_non_zero sub then r = p else add32 8 (fst p) 1 = Ok (fst r) /\ snd r = snd p).
Proof.
  intros H. cbn [lay] in H. destruct (lay pw sub) as [p| |]; cbn [bind] in H; try discriminate.
  exists p. split; auto. destruct (is_non_zero sub); cbn [bind] in H.
  - apply assert_align_id in H. auto.
  - destruct (add32 8 (fst p) 1) eqn:A; cbn [bind] in H; try discriminate.
    apply assert_align_id in H. subst r. auto.
Qed.

Lemma lay_eu_inv pw e p r : lay pw (LErrorUnion e p) = Ok r ->
  exists le lp, lay pw e = Ok le /\ lay pw p = Ok lp.
Proof.
  intros H. cbn [lay] in H. destruct (lay pw e) as [le| |]; cbn [bind] in H; try discriminate.
  destruct (lay pw p) as [lp| |]; cbn [bind] in H; try discriminate. eauto.
Qed.

Lemma variants_all_ok pw vs : forall a b r, variants pw vs a b = Ok r ->
  forall v, In v vs -> exists rv, lay pw v = Ok rv.
Proof.
  induction vs as [|w vs IH]; intros a b r H v Hin; [destruct Hin|].
  cbn [variants] in H. destruct (lay pw w) as [rw| |] eqn:E; cbn [bind] in H; try discriminate.
  destruct Hin as [->|Hin]; eauto.
Qed.

(* ---- the rules on the model's own outputs ------------------------------------------ *)
Section Rules.
  Variable pw : N.
  Hypothesis Hpw : ptr_width pw.

  Theorem model_align_pow2_le8 t i : wf t -> lens32 t = true -> layout_info pw t = Ok i ->
    pow2_8 (i_align i).
  Proof.
    intros W L H. destruct (layout_info_refines pw Hpw t W L i H) as (_ & -> & _).
    apply ialign_pow2_le8; auto.
  Qed.

  Theorem model_stride t i : wf t -> lens32 t = true -> layout_info pw t = Ok i ->
    (i_align i | i_stride i) /\ i_size i <= i_stride i < i_size i + i_align i.
  Proof.
    intros W L H. destruct (layout_info_refines pw Hpw t W L i H) as (-> & -> & -> & _).
    apply istride_spec; auto.
  Qed.

  (* struct: offsets against the model's own (size, align) of the members *)
  Theorem model_struct_fields t ms i : wf t -> lens32 t = true ->
    (absolute_ty t = LAnonStruct ms \/ exists u, absolute_ty t = LStruct u ms) ->
    layout_info pw t = Ok i ->
    exists fl offs, fields pw ms = Ok fl /\ i_offsets i = Some offs /\
      length offs = length ms /\ aligned_all fl offs /\ chain 0 fl offs (i_size i).
  Proof.
    intros W L A H. pose proof (layout_info_refines pw Hpw t W L i H) as (Hs & _ & _ & Ho & _).
    pose proof (wfb_absolute t W) as WA. pose proof (lens32_absolute t L) as LA.
    assert (WM : forallb (fun m => wfb (snd m)) ms = true)
      by (destruct A as [A|[u A]]; rewrite A in WA; exact WA).
    assert (LM : forallb (fun m => lens32 (snd m)) ms = true)
      by (destruct A as [A|[u A]]; rewrite A in LA; exact LA).
    assert (Hfl : fields pw ms = Ok (ideal_fields pw ms)).
    { destruct (layout_info_inv pw t i H) as (Hl & _ & Hso & _).
      unfold struct_offsets in Hso. rewrite Hl in Hso. cbn [bind] in Hso.
      destruct A as [A|[u A]]; rewrite A in Hso;
        (destruct (fields pw ms) as [fl| |] eqn:F; cbn [bind] in Hso; try discriminate;
         rewrite (fields_ok pw ms (members_refine pw ms Hpw WM LM) _ F); reflexivity). }
    exists (ideal_fields pw ms), (c_offsetof (ideal_fields pw ms)).
    destruct (struct_fields_spec pw ms Hpw WM) as (S1 & S2 & S3).
    assert (isize pw t = snd (c_offsets (ideal_fields pw ms) 0)) as Hsz.
    { unfold isize. rewrite <- ideal_absolute. destruct A as [A|[u A]]; rewrite A; reflexivity. }
    repeat split; auto.
    - rewrite Ho. unfold ioffsets. destruct A as [A|[u A]]; rewrite A; reflexivity.
    - rewrite Hs, Hsz. exact S2.
  Qed.

  Theorem model_array_size n sub i : wf sub -> (n <? 4294967296) && lens32 sub = true ->
    (layout_info pw (LArray n sub) = Ok i \/ layout_info pw (LAnonArray n sub) = Ok i) ->
    exists st, stride pw sub = Ok st /\ i_size i = n * st /\ align_of pw sub = Ok (i_align i).
  Proof.
    intros W L H.
    assert (lay pw (LArray n sub) = Ok (i_size i, i_align i) \/
            lay pw (LAnonArray n sub) = Ok (i_size i, i_align i)) as HL.
    { destruct H as [H|H]; apply layout_info_inv in H; tauto. }
    apply lay_array_inv in HL. destruct HL as (e & st & He & Hst & Hm & Ha). cbn [fst snd] in *.
    apply andb_true_iff in L. destruct L as [Hn L].
    exists st. unfold stride, align_of. rewrite He. cbn [bind]. repeat split; auto.
    - apply mul32_ok in Hm. destruct Hm as [-> _]. rewrite trunc32_small by exact Hn. lia.
    - rewrite Ha. reflexivity.
  Qed.

  Theorem model_transparent t sub i :
    ((exists u, t = LDistinct u sub) \/ (exists e n u d, t = LVariant e n u d sub)) ->
    layout_info pw t = Ok i -> lay pw sub = Ok (i_size i, i_align i).
  Proof.
    intros A H. apply layout_info_inv in H. destruct H as (H & _). eapply lay_wrap_inv; eauto.
  Qed.

  Lemma non_zero_lay sub r : is_non_zero sub = true -> lay pw sub = Ok r -> fst r = pw / 8.
  Proof.
    unfold is_non_zero, is_pointer. revert r.
    induction sub using lty_ind'; cbn [absolute_ty]; intros r NZ HL; try discriminate.
    - cbn [lay] in HL. cbn [bind] in HL. apply assert_align_id in HL. subst r. reflexivity.
    - apply IHsub; auto. eapply lay_wrap_inv; eauto.
    - cbn [lay] in HL. cbn [bind] in HL. apply assert_align_id in HL. subst r. reflexivity.
    - apply IHsub; auto. eapply lay_wrap_inv; eauto 10.
  Qed.

  Theorem model_optional_pointer sub i : is_non_zero sub = true ->
    layout_info pw (LOptional sub) = Ok i -> i_size i = pw / 8 /\ i_discr i = None.
  Proof.
    intros NZ H. apply layout_info_inv in H. destruct H as (Hl & _ & _ & Hd).
    split.
    - apply lay_optional_inv in Hl. destruct Hl as (p & Hp & Hr). rewrite NZ in Hr. subst p.
      apply (non_zero_lay sub _ NZ Hp).
    - unfold discr_offset in Hd. rewrite Hl in Hd. cbn [bind absolute_ty] in Hd. rewrite NZ in Hd.
      inversion Hd. reflexivity.
  Qed.

  (* tagged unions: the tag is one byte, placed at the largest payload size *)
  Theorem model_tag_enum u vs i : wf (LEnum u vs) -> lens32 (LEnum u vs) = true ->
    layout_info pw (LEnum u vs) = Ok i ->
    exists d, i_discr i = Some d /\ i_size i = d + 1 /\
      (forall v r, In v vs -> lay pw v = Ok r -> fst r <= d) /\
      (vs <> [] -> exists v r, In v vs /\ lay pw v = Ok r /\ fst r = d) /\
      (vs = [] -> d = 0).
  Proof.
    intros W L H. pose proof (layout_info_refines pw Hpw _ W L i H) as (Hs & _ & _ & _ & Hd).
    unfold wf in W. cbn [wfb lens32] in W, L.
    pose proof (variants_refine pw vs Hpw W L) as R. rewrite Forall_forall in R.
    exists (max_size (map (ideal pw) vs)). repeat split; auto.
    - intros v r Hin Hr. apply R in Hr; auto. subst.
      apply (max_size_ge (map (ideal pw) vs) (ideal pw v)). apply in_map; auto.
    - intros NE. destruct (max_size_in (map (ideal pw) vs)) as (f & Hin & Hf).
      { destruct vs; [congruence | discriminate]. }
      apply in_map_iff in Hin. destruct Hin as (v & <- & Hin).
      apply layout_info_inv in H. destruct H as (Hl & _). rewrite lay_enum in Hl.
      destruct (variants pw vs 0 1) as [m| |] eqn:V; cbn [bind] in Hl; try discriminate.
      destruct (variants_all_ok pw vs _ _ _ V v Hin) as (rv & Hrv).
      exists v, rv. repeat split; auto. rewrite (R v Hin _ Hrv). exact Hf.
    - intros ->. reflexivity.
  Qed.

  Theorem model_tag_optional sub i : wf sub -> lens32 sub = true -> is_non_zero sub = false ->
    layout_info pw (LOptional sub) = Ok i ->
    exists d, i_discr i = Some d /\ i_size i = d + 1 /\ size_of pw sub = Ok d.
  Proof.
    intros W L NZ H. pose proof (layout_info_refines pw Hpw (LOptional sub) W L i H) as (Hs & _ & _ & _ & Hd).
    exists (isize pw sub). unfold isize, idiscr in *. cbn [ideal absolute_ty] in *. rewrite NZ in *.
    repeat split; auto.
    apply layout_info_inv in H. destruct H as (Hl & _). apply lay_optional_inv in Hl.
    destruct Hl as (p & Hp & _). unfold size_of. rewrite Hp. cbn [bind].
    rewrite (lay_refines pw Hpw sub W L _ Hp). reflexivity.
  Qed.

  Theorem model_tag_error_union e p i : wf (LErrorUnion e p) -> lens32 (LErrorUnion e p) = true ->
    layout_info pw (LErrorUnion e p) = Ok i ->
    exists d se sp, i_discr i = Some d /\ i_size i = d + 1 /\
      size_of pw e = Ok se /\ size_of pw p = Ok sp /\ d = N.max se sp.
  Proof.
    intros W L H. pose proof (layout_info_refines pw Hpw _ W L i H) as (Hs & _ & _ & _ & Hd).
    unfold wf in W. cbn [wfb lens32] in W, L.
    apply andb_true_iff in W. destruct W as [W1 W2]. apply andb_true_iff in L. destruct L as [L1 L2].
    apply layout_info_inv in H. destruct H as (Hl & _). apply lay_eu_inv in Hl.
    destruct Hl as (le & lp & Hle & Hlp).
    exists (N.max (isize pw e) (isize pw p)), (isize pw e), (isize pw p).
    unfold size_of. rewrite Hle, Hlp. cbn [bind].
    rewrite (lay_refines pw Hpw e W1 L1 _ Hle), (lay_refines pw Hpw p W2 L2 _ Hlp).
    repeat split; auto.
  Qed.
End Rules.

(* statements in the shape used by Properties/C17.v *)
Lemma known_class_lens t : known_class t = None -> lens32 t = true.
Proof. unfold known_class. destruct (lens32 t); [reflexivity|discriminate]. Qed.

Lemma C17_align_lemma : forall pw, ptr_width pw -> forall t i,
  wf t -> known_class t = None -> layout_info pw t = Ok i ->
  i_align i = 1 \/ i_align i = 2 \/ i_align i = 4 \/ i_align i = 8.
Proof. intros pw Hpw t i W K H. apply (model_align_pow2_le8 pw Hpw t i W (known_class_lens t K) H). Qed.

Lemma C17_struct_lemma : forall pw, ptr_width pw -> forall t ms i,
  wf t -> known_class t = None ->
  (absolute_ty t = LAnonStruct ms \/ exists u, absolute_ty t = LStruct u ms) ->
  layout_info pw t = Ok i ->
  exists fl offs, fields pw ms = Ok fl /\ i_offsets i = Some offs /\
    length offs = length ms /\
    Forall2 (fun f o => (snd f | o)) fl offs /\
    chain 0 fl offs (i_size i).
Proof. intros pw Hpw t ms i W K. apply (model_struct_fields pw Hpw t ms i W (known_class_lens t K)). Qed.

Lemma C17_array_lemma : forall pw, ptr_width pw -> forall n sub i,
  wf sub -> known_class (LArray n sub) = None ->
  (layout_info pw (LArray n sub) = Ok i \/ layout_info pw (LAnonArray n sub) = Ok i) ->
  exists st, stride pw sub = Ok st /\ i_size i = n * st /\ align_of pw sub = Ok (i_align i).
Proof.
  intros pw Hpw n sub i W K. apply (model_array_size pw n sub i W).
  apply known_class_lens in K. exact K.
Qed.

Lemma C17_transparent_lemma : forall pw, ptr_width pw -> forall t sub i,
  wf t -> known_class t = None ->
  ((exists u, t = LDistinct u sub) \/ (exists e n u d, t = LVariant e n u d sub)) ->
  layout_info pw t = Ok i -> lay pw sub = Ok (i_size i, i_align i).
Proof. intros pw _ t sub i _ _. apply model_transparent. Qed.

Lemma C17_tag_enum_lemma : forall pw, ptr_width pw -> forall u vs i,
  wf (LEnum u vs) -> known_class (LEnum u vs) = None ->
  layout_info pw (LEnum u vs) = Ok i ->
  exists d, i_discr i = Some d /\ i_size i = d + 1 /\
    (forall v r, In v vs -> lay pw v = Ok r -> fst r <= d) /\
    (vs <> [] -> exists v r, In v vs /\ lay pw v = Ok r /\ fst r = d) /\
    (vs = [] -> d = 0).
Proof. intros pw Hpw u vs i W K. apply (model_tag_enum pw Hpw u vs i W (known_class_lens _ K)). Qed.

Lemma C17_tag_optional_lemma : forall pw, ptr_width pw -> forall sub i,
  wf sub -> known_class sub = None -> is_non_zero sub = false ->
  layout_info pw (LOptional sub) = Ok i ->
  exists d, i_discr i = Some d /\ i_size i = d + 1 /\ size_of pw sub = Ok d.
Proof. intros pw Hpw sub i W K. apply (model_tag_optional pw Hpw sub i W (known_class_lens _ K)). Qed.

Lemma C17_tag_eu_lemma : forall pw, ptr_width pw -> forall e p i,
  wf (LErrorUnion e p) -> known_class (LErrorUnion e p) = None ->
  layout_info pw (LErrorUnion e p) = Ok i ->
  exists d se sp, i_discr i = Some d /\ i_size i = d + 1 /\
    size_of pw e = Ok se /\ size_of pw p = Ok sp /\ d = N.max se sp.
Proof. intros pw Hpw e p i W K. apply (model_tag_error_union pw Hpw e p i W (known_class_lens _ K)). Qed.

Lemma C17_stride_lemma : forall pw, ptr_width pw -> forall t i,
  wf t -> known_class t = None -> layout_info pw t = Ok i ->
  (i_align i | i_stride i) /\ i_size i <= i_stride i < i_size i + i_align i.
Proof. intros pw Hpw t i W K. apply (model_stride pw Hpw t i W (known_class_lens _ K)). Qed.

Lemma C17_refines_lemma : forall pw, ptr_width pw -> forall t, wf t -> known_class t = None ->
  forall i, layout_info pw t = Ok i ->
    i_size i = isize pw t /\ i_align i = ialign pw t /\ i_stride i = istride pw t /\
    i_offsets i = ioffsets pw t /\ i_discr i = idiscr pw t.
Proof. intros pw Hpw t W K. apply (layout_info_refines pw Hpw t W (known_class_lens _ K)). Qed.

(* ---- the full statement is false of the code: array lengths are cut to u32 ---- *)
Definition array_rule_full : Prop :=
  forall pw n sub i, ptr_width pw -> wf sub ->
    layout_info pw (LArray n sub) = Ok i ->
    exists st, stride pw sub = Ok st /\ i_size i = n * st.

Lemma array_rule_full_refuted : ~ array_rule_full.
Proof.
  intros F.
  destruct (F 64 4294967296 (LUInt 8)
              {| i_size := 0; i_align := 1; i_stride := 0; i_offsets := None; i_discr := None |})
    as (st & Hst & Hsz).
  - right; reflexivity.
  - reflexivity.
  - vm_compute. reflexivity.
  - vm_compute in Hst. inversion Hst; subst. vm_compute in Hsz. discriminate.
Qed.
