(* Concrete witnesses refuting the full-strength laws on the faithful model
   (each is replayed against the real compiler by the checks). *)
From Capy Require Import Common.Util Common.Ty Model.TyRel Model.ExpectMatch Spec.TyLaws.

Definition s_i32 (u : N) : ty := Struct u [(0%N, IInt 32)].

(* C12-1: is_weak_replaceable_by is not a subset of can_fit_into *)
Lemma weak_implies_fit_refuted :
  ~ (forall a e, WfTy a -> WfTy e -> nodup_names a = true -> nodup_names e = true ->
                 weak a e = true -> fit a e = true).
Proof.
  intros H.
  specialize (H (AnonArray 1 (s_i32 1)) (Array 1 (s_i32 2)) eq_refl eq_refl eq_refl eq_refl eq_refl).
  vm_compute in H. discriminate H.
Qed.

(* C12-2: the common type does not accept both operands *)
Lemma max_accepts_both_refuted :
  ~ (forall m a b c, WfTy a -> WfTy b -> value_ty a = true -> value_ty b = true ->
                     tmax m a b = Ok (Some c) -> accepts a c && accepts b c = true).
Proof.
  intros H.
  specialize (H [] (Optional (Distinct 1 (IInt 32))) (Distinct 1 (IInt 32)) (Distinct 1 (IInt 32))
                eq_refl eq_refl eq_refl eq_refl eq_refl).
  vm_compute in H. discriminate H.
Qed.

(* order dependence of max exists only on the placeholder types *)
Lemma max_order_refuted : ~ (forall m a b, tmax m a b = tmax m b a).
Proof.
  intros H. specialize (H [] Unknown AlwaysJumps). vm_compute in H. discriminate H.
Qed.

(* C13-1 / C13-2 *)
Definition strictly_nominal (a e : ty) : bool :=
  match ntarget a e with NT_same | NT_own_enum | NT_structural => true | _ => false end.

Lemma nominal_full_refuted_wrapper :
  ~ (forall a e, WfTy a -> WfTy e -> is_nominal a = true -> fit a e = true -> strictly_nominal a e = true).
Proof.
  intros H. specialize (H (s_i32 1) (Distinct 5 (s_i32 1)) eq_refl eq_refl eq_refl eq_refl).
  vm_compute in H. discriminate H.
Qed.

Lemma nominal_full_refuted_payload :
  ~ (forall a e, WfTy a -> WfTy e -> is_nominal a = true -> fit a e = true ->
                 match ntarget a e with NT_payload => false | _ => true end = true).
Proof.
  intros H. specialize (H (s_i32 1) (Variant 7 0 8 (s_i32 2) 0) eq_refl eq_refl eq_refl eq_refl).
  vm_compute in H. discriminate H.
Qed.
