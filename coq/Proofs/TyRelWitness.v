(* Concrete witnesses refuting the full-strength laws.  Those about [no_fixes] are the
   history of the pinned commit (each was replayed against the real compiler); those about
   [all_fixes] show what stays open after the three fix candidates. *)
From Capy Require Import Common.Util Common.Ty.
From Capy Require Import Model.TyRel Model.ExpectMatch Spec.TyLaws.

Definition s_i32 (u : N) : ty := Struct u [(0%N, IInt 32)].

(* C12-1 (pinned code): is_weak_replaceable_by is not a subset of can_fit_into *)
Lemma weak_implies_fit_refuted :
  ~ (forall a e, nodup_names e = true -> weak no_fixes a e = true -> fit no_fixes a e = true).
Proof.
  intros H. specialize (H (AnonArray 1 (s_i32 1)) (Array 1 (s_i32 2)) eq_refl eq_refl).
  vm_compute in H. discriminate H.
Qed.

(* C12-2 (pinned code): the common type does not accept both operands *)
Lemma max_accepts_both_refuted :
  ~ (forall m a b c, wf_enum_map m -> tmax no_fixes m a b = Ok (Some c) ->
                     max_accepts no_fixes false a b c = true).
Proof.
  intros H.
  assert (W : wf_enum_map []) by (intros u t E; discriminate E).
  specialize (H [] (Optional (Distinct 1 (IInt 32))) (Distinct 1 (IInt 32)) (Distinct 1 (IInt 32)) W eq_refl).
  vm_compute in H. discriminate H.
Qed.

(* C12-3 (still open with every fix): below a sum, zero-sized variants of different enums
   become `type` *)
Lemma max_accepts_both_refuted_all_fixes :
  ~ (forall m a b c, wf_enum_map m -> tmax all_fixes m a b = Ok (Some c) ->
                     max_accepts all_fixes false a b c = true).
Proof.
  intros H.
  assert (W : wf_enum_map []) by (intros u t E; discriminate E).
  specialize (H [] (Optional (Variant 1 1 11 Void 1)) (Optional (Variant 3 1 31 Void 1))
                (Optional TType) W eq_refl).
  vm_compute in H. discriminate H.
Qed.

(* order dependence of max exists only on the placeholder types (any variant) *)
Lemma max_order_refuted : forall fx, ~ (forall m a b, tmax fx m a b = tmax fx m b a).
Proof.
  intros fx H. specialize (H [] Unknown AlwaysJumps). vm_compute in H. discriminate H.
Qed.

(* C13-1 (open, not touched by the fixes) / C13-2 (pinned code) *)
Definition strictly_nominal (fx : fixes) (a e : ty) : bool :=
  match ntarget fx a e with NT_same | NT_own_enum | NT_structural => true | _ => false end.

Lemma nominal_full_refuted_wrapper : forall fx,
  ~ (forall a e, is_nominal a = true -> fit fx a e = true -> strictly_nominal fx a e = true).
Proof.
  intros fx H. specialize (H (s_i32 1) (Distinct 5 (s_i32 1))).
  assert (F : fit fx (s_i32 1) (Distinct 5 (s_i32 1)) = true).
  { destruct fx as [[] [] []]; vm_compute; reflexivity. }
  specialize (H eq_refl F). destruct fx as [[] [] []]; vm_compute in H; discriminate H.
Qed.

Lemma nominal_full_refuted_payload :
  ~ (forall a e, is_nominal a = true -> fit no_fixes a e = true ->
                 match ntarget no_fixes a e with NT_payload => false | _ => true end = true).
Proof.
  intros H. specialize (H (s_i32 1) (Variant 7 0 8 (s_i32 2) 0) eq_refl eq_refl).
  vm_compute in H. discriminate H.
Qed.

(* C13-4 (open, every variant): the plain-assignment path accepts a distinct value at its own
   underlying named struct, through the is_weak_replaceable_by shortcut *)
Lemma assignment_law_refuted : forall fx,
  ~ (forall value dest, is_nominal value = true -> assign_outcome fx value dest = Ok Accept ->
                        ntarget fx value dest <> NT_cross).
Proof.
  intros fx H. specialize (H (Distinct 5 (s_i32 1)) (s_i32 1) eq_refl).
  destruct fx as [[] [] []]; vm_compute in H; apply H; reflexivity.
Qed.
