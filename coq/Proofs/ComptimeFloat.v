(* C04 - f32 results travel through an f64 (ComptimeResult::Float { num: f64 }):
   demote (promote b) = b for every f32 bit pattern that is not a NaN. *)
From Capy Require Import Common.Util Model.Comptime.
Local Open Scope Z_scope.

Lemma fields32 b : 0 <= b < 2 ^ 32 ->
  b = (b / 2 ^ 31) * 2 ^ 31 + ((b / 2 ^ 23) mod 2 ^ 8) * 2 ^ 23 + b mod 2 ^ 23 /\
  0 <= b / 2 ^ 31 <= 1 /\ 0 <= (b / 2 ^ 23) mod 2 ^ 8 < 256 /\ 0 <= b mod 2 ^ 23 < 2 ^ 23.
Proof. intros. Z.div_mod_to_equations. lia. Qed.

Lemma fields64 s E M : 0 <= s <= 1 -> 0 <= E < 2048 -> 0 <= M < 2 ^ 52 ->
  (s * 2 ^ 63 + E * 2 ^ 52 + M) / 2 ^ 63 = s /\
  ((s * 2 ^ 63 + E * 2 ^ 52 + M) / 2 ^ 52) mod 2 ^ 11 = E /\
  (s * 2 ^ 63 + E * 2 ^ 52 + M) mod 2 ^ 52 = M.
Proof. intros. Z.div_mod_to_equations. lia. Qed.

Lemma demote_of_fields s E M : 0 <= s <= 1 -> 0 <= E < 2048 -> 0 <= M < 2 ^ 52 ->
  demote (s * 2 ^ 63 + E * 2 ^ 52 + M) = demote_fields s E M.
Proof.
  intros Hs HE HM. unfold demote.
  destruct (fields64 s E M Hs HE HM) as (-> & -> & ->). reflexivity.
Qed.

(* infinities *)
Lemma demote_inf s : 0 <= s <= 1 -> demote_fields s 2047 0 = s * 2 ^ 31 + 255 * 2 ^ 23.
Proof. intros. unfold demote_fields. reflexivity. Qed.

(* zeros *)
Lemma demote_zero s : 0 <= s <= 1 -> demote_fields s 0 0 = s * 2 ^ 31 + 0.
Proof. intros. unfold demote_fields. reflexivity. Qed.

(* the rounding step when the discarded part is zero *)
Lemma round_exact sh q :
  1 <= sh -> (if (2 ^ (sh - 1) <? 0) || ((0 =? 2 ^ (sh - 1)) && Z.odd q) then q + 1 else q) = q.
Proof.
  intros H. assert (0 < 2 ^ (sh - 1)) by (apply Z.pow_pos_nonneg; lia).
  destruct (Z.ltb_spec (2 ^ (sh - 1)) 0); [lia|].
  destruct (Z.eqb_spec 0 (2 ^ (sh - 1))); [lia|]. reflexivity.
Qed.

(* normal numbers: exponent 1..254 *)
Lemma demote_normal s e m : 0 <= s <= 1 -> 1 <= e <= 254 -> 0 <= m < 2 ^ 23 ->
  demote_fields s (e + 896) (m * 2 ^ 29) = s * 2 ^ 31 + (e * 2 ^ 23 + m).
Proof.
  intros Hs He Hm. unfold demote_fields.
  destruct (Z.eqb_spec (e + 896) 2047); [lia|].
  destruct (Z.eqb_spec (e + 896) 0); [lia|].
  replace (e + 896 - 896) with e by lia.
  destruct (Z.leb_spec 1 e); [|lia].
  assert (Hq : (2 ^ 52 + m * 2 ^ 29) / 2 ^ 29 = 2 ^ 23 + m) by (Z.div_mod_to_equations; lia).
  assert (Hr : (2 ^ 52 + m * 2 ^ 29) mod 2 ^ 29 = 0) by (Z.div_mod_to_equations; lia).
  cbv zeta. rewrite Hq, Hr. rewrite round_exact by lia.
  destruct (Z.leb_spec (255 * 2 ^ 23) ((e - 1) * 2 ^ 23 + (2 ^ 23 + m))); [lia|].
  f_equal. lia.
Qed.

(* subnormal f32 numbers become normal f64 numbers *)
Lemma demote_subnormal s m : 0 <= s <= 1 -> 0 < m < 2 ^ 23 ->
  demote_fields s (Z.log2 m + 874) ((m - 2 ^ Z.log2 m) * 2 ^ (52 - Z.log2 m)) = s * 2 ^ 31 + m.
Proof.
  intros Hs Hm.
  pose proof (Z.log2_spec m ltac:(lia)) as Hk.
  pose proof (Z.log2_nonneg m) as Hk0.
  remember (Z.log2 m) as k eqn:Ek. clear Ek.
  assert (Hk22 : k <= 22).
  { destruct (Z.le_gt_cases k 22) as [|Hgt]; [assumption|].
    assert (2 ^ 23 <= 2 ^ k) by (apply Z.pow_le_mono_r; lia). lia. }
  set (P := 2 ^ (52 - k)).
  assert (HP : 0 < P) by (apply Z.pow_pos_nonneg; lia).
  assert (H52 : 2 ^ 52 = 2 ^ k * P).
  { unfold P. rewrite <- Z.pow_add_r by lia. f_equal. lia. }
  assert (Hsig : 2 ^ 52 + (m - 2 ^ k) * P = m * P) by (rewrite H52; ring).
  unfold demote_fields.
  destruct (Z.eqb_spec (k + 874) 2047); [lia|].
  destruct (Z.eqb_spec (k + 874) 0); [lia|].
  destruct (Z.leb_spec 1 (k + 874 - 896)); [lia|].
  replace (Z.min (29 + (1 - (k + 874 - 896))) 64) with (52 - k) by lia.
  cbv zeta. fold P. rewrite Hsig.
  rewrite Z.div_mul by lia. rewrite Z.mod_mul by lia.
  rewrite round_exact by lia.
  destruct (Z.leb_spec (255 * 2 ^ 23) m); [lia|]. reflexivity.
Qed.

Lemma subnormal_mant_range m : 0 < m < 2 ^ 23 ->
  0 <= (m - 2 ^ Z.log2 m) * 2 ^ (52 - Z.log2 m) < 2 ^ 52 /\ 0 <= Z.log2 m + 874 < 2048.
Proof.
  intros Hm.
  pose proof (Z.log2_spec m ltac:(lia)) as Hk.
  pose proof (Z.log2_nonneg m) as Hk0.
  remember (Z.log2 m) as k eqn:Ek. clear Ek.
  assert (Hk22 : k <= 22).
  { destruct (Z.le_gt_cases k 22) as [|Hgt]; [assumption|].
    assert (2 ^ 23 <= 2 ^ k) by (apply Z.pow_le_mono_r; lia). lia. }
  set (P := 2 ^ (52 - k)).
  assert (HP : 0 < P) by (apply Z.pow_pos_nonneg; lia).
  assert (H52 : 2 ^ 52 = 2 ^ k * P).
  { unfold P. rewrite <- Z.pow_add_r by lia. f_equal. lia. }
  rewrite Z.pow_succ_r in Hk by lia.
  split; [|lia]. split.
  - apply Z.mul_nonneg_nonneg; lia.
  - rewrite H52. apply Z.mul_lt_mono_pos_r; lia.
Qed.

Theorem demote_promote b :
  0 <= b < 2 ^ 32 -> is_nan32 b = false -> demote (promote b) = b.
Proof.
  intros Hb Hnan.
  destruct (fields32 b Hb) as (Hdec & Hs & He & Hm).
  unfold is_nan32 in Hnan. unfold promote.
  set (s := b / 2 ^ 31) in *. set (e := (b / 2 ^ 23) mod 2 ^ 8) in *. set (m := b mod 2 ^ 23) in *.
  clearbody s e m. unfold promote_fields.
  destruct (Z.eqb_spec e 255) as [E255|E255].
  - (* infinity (NaN excluded) *)
    destruct (Z.eqb_spec m 0) as [M0|M0]; [|discriminate Hnan].
    rewrite demote_of_fields by lia. rewrite demote_inf by lia. lia.
  - destruct (Z.eqb_spec e 0) as [E0|E0].
    + destruct (Z.eqb_spec m 0) as [M0|M0].
      * rewrite demote_of_fields by lia. rewrite demote_zero by lia. lia.
      * cbv zeta. destruct (subnormal_mant_range m ltac:(lia)) as (HM & HE).
        rewrite demote_of_fields by lia. rewrite demote_subnormal by lia. lia.
    + rewrite demote_of_fields by lia. rewrite demote_normal by lia. lia.
Qed.

(* what the excluded patterns do: a signalling NaN does not survive (x86 quietens it) *)
Example snan_not_preserved : demote (promote 2139095041) <> 2139095041.
Proof. vm_compute. discriminate. Qed.
Example qnan_preserved : demote (promote 2143289345) = 2143289345.
Proof. vm_compute. reflexivity. Qed.
