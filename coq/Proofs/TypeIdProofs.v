(* Proofs about the type-id model (Model/TypeId.v). *)
From Capy Require Import Common.Util Common.LTy Common.Layout Spec.CLayout Model.TypeId
  Proofs.LayoutSpecProofs Proofs.LayoutProofs.
Local Open Scope N_scope.

(* ---- finite ranges ----------------------------------------------------------------- *)
Definition nrange (n : nat) : list N := map N.of_nat (seq 0 n).
Lemma In_nrange x n : x < N.of_nat n -> In x (nrange n).
Proof.
  intros H. unfold nrange. apply in_map_iff. exists (N.to_nat x). split.
  - apply N2Nat.id.
  - apply in_seq. lia.
Qed.

(* ---- bit packing of simple ids ------------------------------------------------------ *)
Definition pack (d s a f : N) : N :=
  N.lor (N.lor (N.lor (N.shiftl d 26) (N.shiftl f 9)) (N.shiftl a 5)) s.

Definition decode_ok (d s a f : N) : bool :=
  let id := pack d s a f in
  (id_discr id =? d) && (id_size id =? s) && (id_align id =? a) && (id_flag id =? f) &&
  (id <? 4294967296).

Definition decode_all : bool :=
  forallb (fun d => forallb (fun s => forallb (fun a => forallb (fun f => decode_ok d s a f)
    (nrange 2)) (nrange 15)) (nrange 31)) (nrange 63).

Lemma decode_all_true : decode_all = true.
Proof. vm_compute. reflexivity. Qed.

(* The readers of meta.capy recover every field of a simple id whose fields pass
   the three asserts of simple_id_with_align (finite domain: 63 * 31 * 15 * 2). *)
Lemma pack_decode d s a f : d < 63 -> s < 31 -> a < 15 -> f < 2 ->
  let id := pack d s a f in
  id_discr id = d /\ id_size id = s /\ id_align id = a /\ id_flag id = f /\ id < 4294967296.
Proof.
  intros Hd Hs Ha Hf.
  pose proof decode_all_true as H. unfold decode_all in H.
  pose proof (forallb_lift _ _ H d (In_nrange d 63 Hd)) as H1. cbv beta in H1.
  pose proof (forallb_lift _ _ H1 s (In_nrange s 31 Hs)) as H2. cbv beta in H2.
  pose proof (forallb_lift _ _ H2 a (In_nrange a 15 Ha)) as H3. cbv beta in H3.
  pose proof (forallb_lift _ _ H3 f (In_nrange f 2 Hf)) as H4. cbv beta in H4.
  unfold decode_ok in H4.
  repeat (apply andb_true_iff in H4; destruct H4 as [H4 ?]).
  repeat split; try (apply N.eqb_eq; assumption). apply N.ltb_lt; assumption.
Qed.

Theorem simple_id_decode d s a sg id : simple_id_with_align d s a sg = Ok id ->
  id_discr id = d /\ id_size id = s /\ id_align id = a /\ id_flag id = b2n sg /\ id < 4294967296.
Proof.
  unfold simple_id_with_align.
  destruct (N.ltb_spec d 63); cbn [negb]; try discriminate.
  destruct (N.ltb_spec s 31); cbn [negb]; try discriminate.
  destruct (N.ltb_spec a 15); cbn [negb]; try discriminate.
  intros E. inversion E. apply pack_decode; auto. destruct sg; cbn; lia.
Qed.

(* ---- simple types: the asserts never fire, and the id carries the layout -------------- *)
Lemma wf_int_cases w : wf_int w = true ->
  w = 0 \/ w = 8 \/ w = 16 \/ w = 32 \/ w = 64 \/ w = 128 \/ w = 255.
Proof.
  unfold wf_int. intros H.
  repeat (apply orb_true_iff in H; destruct H as [H|H]); apply N.eqb_eq in H; tauto.
Qed.
Lemma wf_float_cases w : wf_float w = true -> w = 0 \/ w = 32 \/ w = 64.
Proof.
  unfold wf_float. intros H.
  repeat (apply orb_true_iff in H; destruct H as [H|H]); apply N.eqb_eq in H; tauto.
Qed.

Definition is_polyfn (t : lty) : bool := match t with LPolyFn _ => true | _ => false end.

Ltac split_int W :=
  let H := fresh in pose proof (wf_int_cases _ W) as H;
  destruct H as [->|[->|[->|[->|[->|[->| ->]]]]]].
Ltac split_float W :=
  let H := fresh in pose proof (wf_float_cases _ W) as H;
  destruct H as [->|[->| ->]].
Ltac split_params :=
  try match goal with W : wf_int ?w = true |- _ => split_int W end;
  try match goal with W : wf_float ?w = true |- _ => split_float W end;
  try match goal with m : bool |- _ => destruct m end.

Theorem simple_ids_reflect_layout pw t r : ptr_width pw -> wf t -> is_polyfn t = false ->
  simple_type_id pw t = Some r ->
  exists id, r = Ok id /\ id_size id = isize pw t /\ id_align id = ialign pw t /\
             id_discr id < 16 /\ id < 4294967296.
Proof.
  intros Hpw W NP H. unfold wf in W.
  destruct t; cbn [simple_type_id is_polyfn wfb] in *; try discriminate; inversion H; subst r; clear H;
    split_params; destruct Hpw as [-> | ->];
    (eexists; split; [vm_compute; reflexivity|]; vm_compute; repeat split; reflexivity).
Qed.

(* get_type_info's Int arm reports the width and signedness of the type *)
Theorem int_info_reflects pw w (sg : bool) : ptr_width pw -> wf_int w = true -> w <> 0 ->
  forall r, simple_type_id pw (if sg then LIInt w else LUInt w) = Some r ->
  exists id, r = Ok id /\ id_discr id = INT_D /\
             info_int_bits id = int_bits pw w /\ info_int_signed id = sg.
Proof.
  intros Hpw W NZ r H.
  destruct (wf_int_cases w W) as [->|[->|[->|[->|[->|[->| ->]]]]]]; try congruence;
    destruct sg; destruct Hpw as [-> | ->]; cbn [simple_type_id] in H; inversion H;
    (eexists; split; [vm_compute; reflexivity|]; vm_compute; repeat split; reflexivity).
Qed.

(* raw pointers: the flag bit is the mutability *)
Theorem rawptr_info_reflects pw m : ptr_width pw ->
  exists id, simple_type_id pw (LRawPtr m) = Some (Ok id) /\ id_discr id = RAW_PTR_D /\
             (id_flag id =? 1) = m.
Proof.
  intros [-> | ->]; destruct m; (eexists; split; [vm_compute; reflexivity|]; vm_compute; split; reflexivity).
Qed.

(* ---- injectivity of simple ids ------------------------------------------------------------ *)
Definition simple_ok_id (pw : N) (t : lty) : option N :=
  match simple_type_id pw t with Some (Ok id) => Some id | _ => None end.

Theorem simple_ids_injective_except_known pw a b id : ptr_width pw -> wf a -> wf b ->
  runtime_simple a = true -> runtime_simple b = true ->
  simple_ok_id pw a = Some id -> simple_ok_id pw b = Some id ->
  a = b \/ known_pair pw a b = true \/ file_pair a b = true.
Proof.
  intros Hpw Wa Wb Ra Rb Ha Hb. unfold wf in *.
  assert (Hab : simple_ok_id pw a = simple_ok_id pw b) by congruence.
  assert (Hne : simple_ok_id pw a <> None) by congruence.
  clear Ha Hb id. unfold simple_ok_id in *.
  destruct a; cbn [wfb simple_type_id] in Wa, Hne, Hab; try (exfalso; apply Hne; reflexivity);
    try discriminate Ra; clear Hne;
    try match goal with W : wf_int ?w = true |- _ => split_int W; try discriminate Ra; clear W end;
    try match goal with W : wf_float ?w = true |- _ => split_float W; try discriminate Ra; clear W end;
    try match goal with m : bool |- _ => destruct m end;
    (destruct b; cbn [wfb simple_type_id] in Wb, Hab; try discriminate Rb;
     try match goal with W : wf_int ?w = true |- _ => split_int W; try discriminate Rb; clear W end;
     try match goal with W : wf_float ?w = true |- _ => split_float W; try discriminate Rb; clear W end;
     try match goal with m : bool |- _ => destruct m end;
     destruct Hpw as [-> | ->];
     first [ left; reflexivity
           | vm_compute in Hab; discriminate Hab
           | right; left; reflexivity
           | right; right; reflexivity ]).
Qed.

(* the full statement is false: isize and i64 are different run-time types with one id *)
Definition type_id_injective_full : Prop :=
  forall pw a b id, ptr_width pw -> wf a -> wf b ->
    runtime_simple a = true -> runtime_simple b = true ->
    simple_ok_id pw a = Some id -> simple_ok_id pw b = Some id -> a = b.

Lemma type_id_injective_full_refuted : ~ type_id_injective_full.
Proof.
  intros F.
  assert (LIInt 255 = LIInt 64) as E.
  { apply (F 64 (LIInt 255) (LIInt 64) 134218504); try reflexivity. right; reflexivity. }
  discriminate E.
Qed.

(* ---- compound ids ------------------------------------------------------------------------------- *)
Lemma lor_shiftl_add D c : c < 2 ^ 26 -> N.lor (N.shiftl D 26) c = D * 2 ^ 26 + c.
Proof.
  intros Hc. rewrite N.shiftl_mul_pow2.
  rewrite <- N.lxor_lor, <- N.add_nocarry_lxor; auto.
  - apply N.bits_inj. intros n. rewrite N.land_spec, N.bits_0.
    destruct (N.lt_ge_cases n 26) as [L|G].
    + rewrite N.mul_pow2_bits_low by exact L. reflexivity.
    + destruct (N.eq_dec c 0) as [->|NZ]; [rewrite N.bits_0; apply andb_false_r|].
      rewrite (N.bits_above_log2 c n); [apply andb_false_r|].
      apply N.log2_lt_pow2 in Hc; lia.
  - apply N.bits_inj. intros n. rewrite N.land_spec, N.bits_0.
    destruct (N.lt_ge_cases n 26) as [L|G].
    + rewrite N.mul_pow2_bits_low by exact L. reflexivity.
    + destruct (N.eq_dec c 0) as [->|NZ]; [rewrite N.bits_0; apply andb_false_r|].
      rewrite (N.bits_above_log2 c n); [apply andb_false_r|].
      apply N.log2_lt_pow2 in Hc; lia.
Qed.

Definition compound_id (k : kind) (c : N) : N := N.lor (N.shiftl (kind_discr k) 26) c.

Lemma kind_discr_inj k1 k2 : kind_discr k1 = kind_discr k2 -> k1 = k2.
Proof. destruct k1, k2; vm_compute; intros H; try reflexivity; discriminate H. Qed.
Lemma kind_discr_range k : 16 <= kind_discr k < 26.
Proof. destruct k; vm_compute; split; congruence. Qed.

(* meta.capy recovers the kind from a compound id; ids of different (kind, index)
   differ from each other and from every simple id, as long as the per-kind
   counter stays below 2^26 (the code does not check this) *)
Theorem compound_id_decode k c : c < 2 ^ 26 ->
  id_discr (compound_id k c) = kind_discr k /\ kind_of_discr (id_discr (compound_id k c)) = Some k /\
  compound_id k c < 4294967296.
Proof.
  intros Hc. unfold compound_id, id_discr. rewrite lor_shiftl_add by exact Hc.
  rewrite N.shiftr_div_pow2.
  assert (E : (kind_discr k * 2 ^ 26 + c) / 2 ^ 26 = kind_discr k).
  { rewrite N.div_add_l by (vm_compute; discriminate). rewrite N.div_small by exact Hc. lia. }
  rewrite E. repeat split.
  - destruct k; reflexivity.
  - pose proof (kind_discr_range k). change 4294967296 with (64 * 2 ^ 26). nia.
Qed.

Theorem compound_id_injective k1 c1 k2 c2 : c1 < 2 ^ 26 -> c2 < 2 ^ 26 ->
  compound_id k1 c1 = compound_id k2 c2 -> k1 = k2 /\ c1 = c2.
Proof.
  intros H1 H2 E. unfold compound_id in E. rewrite !lor_shiftl_add in E by assumption.
  assert (kind_discr k1 = kind_discr k2 /\ c1 = c2) as [A B].
  { assert (kind_discr k1 = (kind_discr k1 * 2 ^ 26 + c1) / 2 ^ 26) as D1.
    { rewrite N.div_add_l by (vm_compute; discriminate). rewrite N.div_small by exact H1. lia. }
    assert (kind_discr k2 = (kind_discr k2 * 2 ^ 26 + c2) / 2 ^ 26) as D2.
    { rewrite N.div_add_l by (vm_compute; discriminate). rewrite N.div_small by exact H2. lia. }
    rewrite E in D1. split; [congruence|]. assert (kind_discr k1 = kind_discr k2) as K by congruence.
    rewrite K in E. lia. }
  split; auto. apply kind_discr_inj; auto.
Qed.

Theorem compound_id_not_simple k c pw t r id : c < 2 ^ 26 -> ptr_width pw -> wf t -> is_polyfn t = false ->
  simple_type_id pw t = Some r -> r = Ok id -> id <> compound_id k c.
Proof.
  intros Hc Hpw W NP H -> E.
  destruct (simple_ids_reflect_layout pw t _ Hpw W NP H) as (id' & E' & _ & _ & D & _).
  inversion E'; subst id'. rewrite E in D.
  destruct (compound_id_decode k c Hc) as (D' & _). rewrite D' in D.
  pose proof (kind_discr_range k). lia.
Qed.
