(* C24 proofs, part 2: decomposition of trees into postfix chains and binary
   spines, and the loop lemmas for post_loop / parse_args / the binary loop. *)
From Coq Require Import List Arith Bool Lia.
Import ListNotations.
From Capy Require Import Model.ExprGrammar Spec.Precedence Proofs.PrattBasics.

Definition bound (e : expr) : nat := 6 * size e.

Lemma size_pos : forall e, 1 <= size e.
Proof. destruct e; simpl; lia. Qed.

(* ---- follow sets ------------------------------------------------------- *)
Definition stop3 (t : tok) : Prop := t = TRParen \/ t = TRBrack \/ t = TComma.

Lemma cfollow_stop3 : forall dd ddi t R, stop3 t -> cfollow dd ddi (t :: R) = true.
Proof. intros dd ddi t R [-> | [-> | ->]]; reflexivity. Qed.
Lemma cfollow_op : forall dd ddi o R, cfollow dd ddi (TOp o :: R) = true.
Proof. reflexivity. Qed.

Lemma pfollow_all : forall x R, (forall dd ddi, cfollow dd ddi R = true) -> pfollow x R = true.
Proof. induction x; simpl; intros; auto; rewrite H; simpl; auto. Qed.
Lemma pfollow_stop3 : forall x t R, stop3 t -> pfollow x (t :: R) = true.
Proof. intros. apply pfollow_all. intros. apply cfollow_stop3; auto. Qed.
Lemma pfollow_op : forall x o R, pfollow x (TOp o :: R) = true.
Proof. intros. apply pfollow_all. reflexivity. Qed.

Lemma cfollow_not_lbrace : forall dd ddi R, cfollow dd ddi R = true -> at_lbrace R = false.
Proof. intros. destruct R as [|[] ?]; simpl in *; congruence. Qed.

Lemma bfollow_cfollow : forall m R, bfollow m R = true -> cfollow false false R = true.
Proof. unfold bfollow. intros. apply andb_true_iff in H. tauto. Qed.

Lemma lbp_lt_rbp : forall o, lbp o < rbp o.
Proof. destruct o; cbv; lia. Qed.

Lemma bfollow_mono : forall m m' R, m <= m' -> bfollow m R = true -> bfollow m' R = true.
Proof.
  unfold bfollow. intros. apply andb_true_iff in H0. destruct H0 as [A B]. rewrite A. simpl.
  destruct R as [|[] ?]; auto. apply Nat.ltb_lt in B. apply Nat.ltb_lt. lia.
Qed.

Lemma bfollow_stop3 : forall m t R, stop3 t -> bfollow m (t :: R) = true.
Proof. intros m t R [-> | [-> | ->]]; reflexivity. Qed.

(* ---- post_loop stops --------------------------------------------------- *)
Lemma post_loop_stop : forall f cm dd ddi R, cfollow dd ddi R = true ->
  post_loop (S f) false cm dd ddi R = POk cm R.
Proof.
  intros. destruct R as [|t R]; [reflexivity|].
  destruct t; simpl in H; try discriminate; try reflexivity.
  - (* TCaret *) simpl. rewrite H. reflexivity.
  - (* TDot *) destruct R as [|t2 R]; [discriminate|].
    destruct t2; simpl in H; try discriminate; simpl; rewrite H; reflexivity.
  - (* TAs *) simpl. rewrite H. reflexivity.
Qed.

Lemma parse_post_stop : forall f cm dd ddi R, cfollow dd ddi R = true ->
  parse_post (S (S f)) false cm dd ddi R = POk cm R.
Proof.
  intros. cbn [parse_post]. rewrite (cfollow_not_lbrace _ _ _ H). rewrite !andb_false_r.
  rewrite post_loop_stop by assumption. rewrite (cfollow_not_lbrace _ _ _ H). rewrite !andb_false_r. reflexivity.
Qed.

(* ---- postfix chains ------------------------------------------------------ *)
Inductive postop :=
| PCall (args : list expr) | PIndex (i : expr) | PField | PTry | PCast (v : option expr) | PDeref.

Definition papply (x : expr) (p : postop) : expr :=
  match p with
  | PCall a => ECall x a | PIndex i => EIndex x i | PField => EField x | PTry => ETry x
  | PCast v => ECast x v | PDeref => EDeref x
  end.

Definition ptoks (p : postop) : list tok :=
  match p with
  | PCall args => TLParen :: join (map print args) ++ [TRParen]
  | PIndex i => TLBrack :: print i ++ [TRBrack]
  | PField => [TDot; TIdent]
  | PTry => [TDot; TTry]
  | PCast v => TDot :: TLParen :: match v with Some v => print v | None => [] end ++ [TRParen]
  | PDeref => [TCaret]
  end.

Fixpoint cbase (e : expr) : expr :=
  match e with
  | ECall f _ => cbase f | EIndex a _ => cbase a | EField x | ETry x | EDeref x => cbase x
  | ECast t _ => cbase t
  | _ => e
  end.

Fixpoint cops (e : expr) : list postop :=
  match e with
  | ECall f a => cops f ++ [PCall a]
  | EIndex a i => cops a ++ [PIndex i]
  | EField x => cops x ++ [PField]
  | ETry x => cops x ++ [PTry]
  | ECast t v => cops t ++ [PCast v]
  | EDeref x => cops x ++ [PDeref]
  | _ => []
  end.

Definition pflat (ps : list postop) : list tok := flat_map ptoks ps.

Lemma pflat_snoc : forall ps p, pflat (ps ++ [p]) = pflat ps ++ ptoks p.
Proof. intros. unfold pflat. rewrite flat_map_app. simpl. rewrite app_nil_r. reflexivity. Qed.

Lemma print_chain : forall e, print e = print (cbase e) ++ pflat (cops e).
Proof.
  induction e; cbn [print cbase cops];
    try (change (pflat []) with (@nil tok); rewrite app_nil_r; reflexivity);
    rewrite pflat_snoc; (rewrite IHe at 1 || rewrite IHe1 at 1); rewrite <- app_assoc; reflexivity.
Qed.

Lemma fold_chain : forall e, fold_left papply (cops e) (cbase e) = e.
Proof.
  induction e; simpl; try reflexivity; rewrite fold_left_app; simpl; congruence.
Qed.

Definition is_base (e : expr) : bool :=
  match e with
  | EAtom _ | EParen _ | EEmptyParen | EUnary _ _ | ERef _ _ | EBin _ _ _ => true
  | _ => false
  end.

Lemma cbase_base : forall e, is_base (cbase e) = true.
Proof. induction e; simpl; auto. Qed.
Lemma cops_base : forall e, is_base e = true -> cops e = [] /\ cbase e = e.
Proof. destruct e; simpl; intros; try discriminate; auto. Qed.

(* the first tokens of a postfix operator decide every follow test *)
Lemma cfollow_ptoks : forall dd ddi p R R', cfollow dd ddi (ptoks p ++ R) = cfollow dd ddi (ptoks p ++ R').
Proof. intros. destruct p; reflexivity. Qed.
Lemma pfollow_ptoks : forall x p R R', pfollow x (ptoks p ++ R) = pfollow x (ptoks p ++ R').
Proof.
  induction x; simpl; intros; auto; rewrite (cfollow_ptoks _ _ p R R'), (IHx p R R'); reflexivity.
Qed.
Lemma ptoks_not_lbrace : forall p R, at_lbrace (ptoks p ++ R) = false.
Proof. destruct p; reflexivity. Qed.

Definition phead (p : postop) : list tok :=
  match p with
  | PCall _ => [TLParen] | PIndex _ => [TLBrack] | PField => [TDot; TIdent] | PTry => [TDot; TTry]
  | PCast _ => [TDot; TLParen] | PDeref => [TCaret]
  end.
Lemma cfollow_phead : forall dd ddi p R, cfollow dd ddi (ptoks p ++ R) = cfollow dd ddi (phead p).
Proof. intros. destruct p; reflexivity. Qed.
Lemma pfollow_phead : forall x p R, pfollow x (ptoks p ++ R) = pfollow x (phead p).
Proof. induction x; simpl; intros; auto; rewrite cfollow_phead, IHx; reflexivity. Qed.

(* what wf says about a chain *)
Definition pok (dd ddi : bool) (p : postop) : Prop :=
  match p with
  | PCall args => forallb (wf (CB 0)) args = true
  | PIndex i => wf (CB 0) i = true
  | PCast v => ddi = false /\ match v with Some w => wf (CB 0) w = true | None => True end
  | PDeref => dd = false
  | _ => True
  end.

Lemma wf_chain : forall e dd ddi, wf (CC dd ddi) e = true ->
  wf (CC dd ddi) (cbase e) = true /\ Forall (pok dd ddi) (cops e) /\
  (forall R, cops e <> [] -> pfollow (cbase e) (pflat (cops e) ++ R) = true).
Proof.
  assert (K : forall x p dd ddi,
    (wf (CC dd ddi) x = true ->
      wf (CC dd ddi) (cbase x) = true /\ Forall (pok dd ddi) (cops x) /\
      (forall R, cops x <> [] -> pfollow (cbase x) (pflat (cops x) ++ R) = true)) ->
    wf (CC dd ddi) x = true -> pfollow x (phead p) = true -> pok dd ddi p ->
      wf (CC dd ddi) (cbase x) = true /\ Forall (pok dd ddi) (cops x ++ [p]) /\
      (forall R, cops x ++ [p] <> [] -> pfollow (cbase x) (pflat (cops x ++ [p]) ++ R) = true)).
  { intros x p dd ddi IH W PF OK. destruct (IH W) as (A & B & C). split; [assumption|]. split.
    - apply Forall_app. split; auto.
    - intros R _. rewrite pflat_snoc, <- app_assoc. destruct (cops x) eqn:E.
      + simpl. assert (is_base x = true \/ cops x <> []) as [Hb | Hn].
        { destruct x; simpl; auto; right; simpl in E; destruct (cops _); discriminate. }
        * destruct (cops_base x Hb) as [_ ->]. rewrite pfollow_phead. assumption.
        * congruence.
      + apply C. congruence. }
  induction e; intros dd ddi W; simpl in W |- *;
    try (split; [assumption|]; split; [constructor|]; intros; congruence).
  - (* ECall *) apply andb_true_iff in W. destruct W as [W W3]. apply andb_true_iff in W. destruct W as [W1 W2].
    apply (K e (PCall args)); auto.
  - apply andb_true_iff in W. destruct W as [W W3]. apply andb_true_iff in W. destruct W as [W1 W2].
    apply (K e1 (PIndex e2)); auto.
  - apply andb_true_iff in W. destruct W as [W1 W2]. apply (K e PField); simpl; auto.
  - apply andb_true_iff in W. destruct W as [W1 W2]. apply (K e PTry); simpl; auto.
  - apply andb_true_iff in W. destruct W as [W W4]. apply andb_true_iff in W. destruct W as [W W3].
    apply andb_true_iff in W. destruct W as [W1 W2]. apply negb_true_iff in W1.
    apply (K e (PCast v)); simpl; auto. split; auto. destruct v; auto.
  - apply andb_true_iff in W. destruct W as [W W3]. apply andb_true_iff in W. destruct W as [W1 W2].
    apply negb_true_iff in W1. apply (K e PDeref); simpl; auto.
Qed.

(* ---- argument facts and the argument loop ------------------------------- *)
Definition afact (a : expr) : Prop :=
  forall g t R, bound a <= g -> stop3 t -> parse_bp g 0 false (print a ++ t :: R) = POk a (t :: R).

Fixpoint aneed (args : list expr) : nat :=
  match args with [] => 0 | a :: r => bound a + 1 + aneed r end.

Lemma parse_args_ok : forall args acc f R, Forall afact args -> aneed args + 1 <= f ->
  parse_args f acc (join (map print args) ++ TRParen :: R) = Some (inl (rev acc ++ args, R)).
Proof.
  induction args as [|a rest IH]; intros acc f R HF Hf.
  - destruct f; [lia|]. simpl. rewrite app_nil_r. reflexivity.
  - inversion HF as [|? ? Ha Hrest]; subst. destruct f as [|f]; [simpl in Hf; lia|].
    cbn [aneed] in Hf. cbn [map join].
    destruct (print_head a) as (t & r0 & E & St).
    destruct rest as [|b rest'].
    + cbn [map]. assert (P : parse_bp f 0 false (print a ++ TRParen :: R) = POk a (TRParen :: R)).
      { apply Ha; [lia | left; reflexivity]. }
      cbn [parse_args]. rewrite E in *. cbn [app] in *.
      destruct t; simpl in St; try discriminate; try (destruct o; try discriminate);
        rewrite P; cbn [rev]; reflexivity.
    + set (tail := join (map print (b :: rest'))) in *.
      assert (J : join (print a :: map print (b :: rest')) = print a ++ TComma :: tail) by reflexivity.
      change (match map print (b :: rest') with [] => print a | _ :: _ => print a ++ TComma :: tail end)
        with (print a ++ TComma :: tail).
      rewrite <- app_assoc. cbn [app].
      assert (P : parse_bp f 0 false (print a ++ TComma :: tail ++ TRParen :: R) = POk a (TComma :: tail ++ TRParen :: R)).
      { apply Ha; [lia | right; right; reflexivity]. }
      cbn [parse_args]. rewrite E in *. cbn [app] in *.
      destruct t; simpl in St; try discriminate; try (destruct o; try discriminate);
        rewrite P; unfold tail; rewrite IH by (auto; lia);
        cbn [rev]; rewrite <- app_assoc; reflexivity.
Qed.

(* ---- the postfix loop ------------------------------------------------------ *)
Definition pfact (dd ddi : bool) (p : postop) : Prop :=
  match p with
  | PCall args => Forall afact args
  | PIndex i => afact i
  | PCast v => ddi = false /\ forall w, v = Some w -> afact w
  | PDeref => dd = false
  | _ => True
  end.

Definition pn (p : postop) : nat :=
  match p with
  | PCall args => 2 + aneed args
  | PIndex i => bound i + 1
  | PCast (Some w) => bound w + 1
  | _ => 1
  end.
Fixpoint pneed (ps : list postop) : nat := match ps with [] => 0 | p :: r => pn p + pneed r end.

Lemma post_loop_ok : forall ps acc dd ddi f R, Forall (pfact dd ddi) ps -> cfollow dd ddi R = true ->
  pneed ps + 1 <= f ->
  post_loop f false acc dd ddi (pflat ps ++ R) = POk (fold_left papply ps acc) R.
Proof.
  induction ps as [|p ps IH]; intros acc dd ddi f R HF HR Hf.
  - destruct f; [lia|]. simpl. apply post_loop_stop. assumption.
  - inversion HF as [|? ? Hp Hps]; subst. destruct f as [|f]; [simpl in Hf; lia|].
    cbn [pneed] in Hf. cbn [pflat flat_map]. fold (pflat ps). rewrite <- app_assoc. cbn [fold_left].
    destruct p as [args | i | | | v | ]; cbn [ptoks papply pn pfact] in *.
    + (* call *) cbn [app]. rewrite <- app_assoc. cbn [app].
      cbn [post_loop]. rewrite (parse_args_ok args [] f (pflat ps ++ R)) by (auto; lia).
      cbn [rev app]. apply IH; auto. lia.
    + (* index *) cbn [app]. rewrite <- app_assoc. cbn [app].
      cbn [post_loop]. rewrite ahead2_comma_print by discriminate.
      rewrite Hp by (try lia; right; left; reflexivity). apply IH; auto. lia.
    + (* field *) cbn [app post_loop]. apply IH; auto. lia.
    + (* try *) cbn [app post_loop]. apply IH; auto. lia.
    + (* cast *) destruct Hp as [-> Hv]. destruct v as [w|].
      * cbn [app]. rewrite <- app_assoc. cbn [app]. specialize (Hv w eq_refl).
        assert (P : parse_bp f 0 false (print w ++ TRParen :: pflat ps ++ R) = POk w (TRParen :: pflat ps ++ R)).
        { apply Hv; [lia | left; reflexivity]. }
        destruct (print_head w) as (t & r0 & E & St). cbn [post_loop]. rewrite E in *. cbn [app] in *.
        destruct t; simpl in St; try discriminate; try (destruct o; try discriminate);
          rewrite P; apply IH; auto; lia.
      * cbn [app post_loop]. apply IH; auto. lia.
    + (* deref *) subst dd. cbn [app post_loop]. apply IH; auto. lia.
Qed.

(* ---- binary spines ----------------------------------------------------------- *)
Fixpoint bbase (e : expr) : expr := match e with EBin _ l _ => bbase l | _ => e end.
Fixpoint bops (e : expr) : list (binop * expr) :=
  match e with EBin o l r => bops l ++ [(o, r)] | _ => [] end.
Definition bapply (acc : expr) (p : binop * expr) : expr := EBin (fst p) acc (snd p).
Definition btoks (p : binop * expr) : list tok := TOp (fst p) :: print (snd p).
Definition bflat (ps : list (binop * expr)) : list tok := flat_map btoks ps.
Fixpoint redge (e : expr) : expr := match e with EBin _ _ r => redge r | _ => e end.

Lemma print_spine : forall e, print e = print (bbase e) ++ bflat (bops e).
Proof.
  induction e; cbn [print bbase bops]; try (change (bflat []) with (@nil tok); rewrite app_nil_r; reflexivity).
  unfold bflat. rewrite flat_map_app. cbn [flat_map btoks fst snd]. rewrite app_nil_r. rewrite IHe1 at 1.
  rewrite <- app_assoc. reflexivity.
Qed.
Lemma fold_spine : forall e, fold_left bapply (bops e) (bbase e) = e.
Proof. induction e; simpl; try reflexivity. rewrite fold_left_app. simpl. unfold bapply at 1. simpl. congruence. Qed.

Definition is_bin (e : expr) : bool := match e with EBin _ _ _ => true | _ => false end.
Lemma bbase_not_bin : forall e, is_bin (bbase e) = false.
Proof. induction e; simpl; auto. Qed.

Definition bfact (p : binop * expr) : Prop :=
  forall g R, bound (snd p) <= g -> bfollow (rbp (fst p)) R = true -> pfollow (redge (snd p)) R = true ->
    parse_bp g (rbp (fst p)) false (print (snd p) ++ R) = POk (snd p) R.

Fixpoint sp_ok (m : nat) (ps : list (binop * expr)) : Prop :=
  match ps with
  | [] => True
  | p :: ps' => m <= lbp (fst p) /\ bfact p /\
                match ps' with q :: _ => lbp (fst q) <= lbp (fst p) | [] => True end /\ sp_ok m ps'
  end.

Fixpoint edge_ok (ps : list (binop * expr)) (R : list tok) : Prop :=
  match ps with
  | [] => True
  | p :: ps' => match ps' with [] => pfollow (redge (snd p)) R = true | _ => edge_ok ps' R end
  end.

Fixpoint bneed (ps : list (binop * expr)) : nat :=
  match ps with [] => 0 | p :: r => bound (snd p) + 2 + bneed r end.

(* the body of bp_loop after parse_post_operators has returned *)
Definition bp_tail (f m : nat) (lhs1 : expr) (ts1 : list tok) : pres :=
  if quick_assign ts1 then POk lhs1 ts1
  else match ts1 with
       | TOp o :: ts2 =>
           if lbp o <? m then POk lhs1 ts1
           else match parse_bp f (rbp o) false ts2 with
                | POk rhs ts3 => bp_loop f m false (EBin o lhs1 rhs) ts3
                | r => r
                end
       | _ => POk lhs1 ts1
       end.

Lemma bp_loop_unfold : forall f m lhs ts,
  bp_loop (S f) m false lhs ts =
  match parse_post f false lhs false false ts with
  | POk l1 t1 => bp_tail f m l1 t1
  | r => r
  end.
Proof. intros. cbn [bp_loop]. unfold bp_tail. destruct (parse_post f false lhs false false ts); reflexivity. Qed.

Lemma bp_tail_stop : forall f m lhs R, bfollow m R = true -> bp_tail f m lhs R = POk lhs R.
Proof.
  intros. unfold bp_tail. destruct (quick_assign R); [reflexivity|].
  unfold bfollow in H. apply andb_true_iff in H. destruct H as [_ H].
  destruct R as [|[] ?]; try reflexivity. rewrite H. reflexivity.
Qed.

Lemma bp_tail_ok : forall ps acc m f R, sp_ok m ps -> edge_ok ps R -> bfollow m R = true ->
  bneed ps + 2 <= f ->
  bp_tail f m acc (bflat ps ++ R) = POk (fold_left bapply ps acc) R.
Proof.
  induction ps as [|[o r] ps IH]; intros acc m f R HS HE HR Hf.
  - simpl. apply bp_tail_stop. assumption.
  - cbn [sp_ok fst snd] in HS. destruct HS as (Hm & Hb & Hadj & Hrest).
    cbn [bneed snd] in Hf. cbn [bflat flat_map btoks fst snd]. fold (bflat ps). rewrite <- app_assoc.
    unfold btoks. cbn [fst snd app fold_left]. unfold bp_tail at 1.
    rewrite quick_assign_print.
    assert (L : lbp o <? m = false) by (apply Nat.ltb_ge; assumption). rewrite L.
    assert (FR : bfollow (rbp o) (bflat ps ++ R) = true /\ pfollow (redge r) (bflat ps ++ R) = true
                 /\ cfollow false false (bflat ps ++ R) = true).
    { destruct ps as [|[o' r'] ps'].
      - simpl. cbn [edge_ok snd] in HE. split; [|split]; auto.
        + eapply bfollow_mono; [|eassumption]. pose proof (lbp_lt_rbp o). lia.
        + eapply bfollow_cfollow; eassumption.
      - cbn [bflat flat_map btoks fst snd app]. split; [|split].
        + unfold bfollow. simpl cfollow. cbn [andb]. apply Nat.ltb_lt. cbn [fst] in Hadj.
          pose proof (lbp_lt_rbp o). lia.
        + apply pfollow_op.
        + reflexivity. }
    destruct FR as (F1 & F2 & F3).
    pose proof (Hb f (bflat ps ++ R)) as Hb'. cbn [fst snd] in Hb'.
    rewrite Hb' by (auto; lia).
    destruct f as [|f]; [lia|]. rewrite bp_loop_unfold.
    destruct f as [|f]; [lia|]. destruct f as [|f]; [pose proof (size_pos r); unfold bound in Hf; lia|].
    rewrite parse_post_stop by assumption.
    unfold bapply at 2. cbn [fst snd].
    apply IH; auto.
    + destruct ps as [|q ps']; [exact I|]. cbn [edge_ok] in HE. exact HE.
    + lia.
Qed.
