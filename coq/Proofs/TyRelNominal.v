(* C13: nominal values are only accepted at the allowed targets (ntarget <> NT_cross),
   explicit casts distinct <-> underlying type are accepted. *)
From Capy Require Import Common.Util Common.Ty Model.TyRel Model.ExpectMatch Spec.TyLaws Proofs.TyRelBasics.
Local Arguments ty_eqb : simpl never.
Local Arguments N.eqb : simpl never.
Local Arguments N.leb : simpl never.
Local Arguments N.ltb : simpl never.
Local Arguments members_rel : simpl never.
Local Arguments params_eqb : simpl never.
Local Arguments same_nominal : simpl never.

Lemma nominal_never_crosses_lem : forall e a,
  is_nominal a = true -> fit a e = true -> ntarget a e <> NT_cross.
Proof.
  induction e using ty_ind'; intros a Hn Hf; destruct a; try discriminate Hn;
    cbn [ntarget];
    (destruct (ty_eqb _ _ || same_nominal _ _) eqn:E; [discriminate|]);
    apply orb_false_iff in E as [E1 E2];
    cbn [fit] in Hf; rewrite E1 in Hf;
    try discriminate;
    cbn [feq] in Hf; try (rewrite E1 in Hf); try discriminate.
  all: try (unfold same_nominal in E2; congruence).
  all: try (rewrite Hf; discriminate).
  all: try (apply IHe; assumption).
  all: try (specialize (IHe _ Hn Hf); destruct (ntarget _ e); congruence).
  all: try discriminate.
  all: try (destruct (fit _ e1) eqn:F1; [apply IHe1; assumption | apply IHe2; assumption]).
Qed.

(* ---- explicit casts between a distinct type and its underlying type ------- *)
Lemma cast_refl t : cast t t = true.
Proof. apply fit_implies_cast, fit_refl. Qed.

Lemma cast_distinct_unfold u f b :
  cast (Distinct u f) b =
  if fit (Distinct u f) b then true
  else match b with Distinct _ t' => cast f t' | _ => cast f b end.
Proof. destruct b; reflexivity. Qed.

Lemma cast_from_distinct : forall t u, cast (Distinct u t) t = true.
Proof.
  induction t using ty_ind'; intros u0; rewrite cast_distinct_unfold;
    (destruct (fit (Distinct _ _) _); [reflexivity|]); cbv beta iota;
    first [ apply IHt | apply cast_refl ].
Qed.

Lemma fit_into_distinct_of : forall a u s,
  is_distinct a = false -> fit a s = true -> fit a (Distinct u s) = true.
Proof.
  intros a u s Hd Hs. destruct a; try discriminate Hd; cbn [fit];
    (destruct (ty_eqb _ _); [reflexivity|]); first [ reflexivity | exact Hs ].
Qed.

Lemma cast_to_distinct : forall t u, cast t (Distinct u t) = true.
Proof.
  induction t using ty_ind'; intros u0;
    try solve [apply fit_implies_cast, fit_into_distinct_of; [reflexivity | apply fit_refl]].
  rewrite cast_distinct_unfold. destruct (fit _ _); [reflexivity|]. cbv beta iota. apply IHt.
Qed.

(* a distinct / variant value never fits its own underlying type, unless that type
   accepts everything (any, unknown, or a sum over those) *)
Lemma distinct_not_into_underlying : forall u t,
  is_nominal t = false ->
  (match t with TAny | Unknown | Optional _ | ErrorUnion _ _ => false | _ => true end) = true ->
  fit (Distinct u t) t = false.
Proof.
  intros u t Hn Hp. destruct (fit (Distinct u t) t) eqn:F; [|reflexivity]. exfalso.
  apply (nominal_never_crosses_lem t (Distinct u t) eq_refl F).
  destruct t; try discriminate Hn; try discriminate Hp; cbn [ntarget];
    (destruct (ty_eqb _ _ || same_nominal _ _) eqn:E; [|reflexivity]);
    (apply orb_true_iff in E as [E|E]; [|unfold same_nominal in E; discriminate E]);
    apply ty_eqb_eq in E; apply (f_equal size) in E; cbn [size] in E; lia.
Qed.

Lemma variant_not_into_payload : forall eu nm u t d,
  is_nominal t = false ->
  (match t with TAny | Unknown | Optional _ | ErrorUnion _ _ | Enum _ _ => false | _ => true end) = true ->
  fit (Variant eu nm u t d) t = false.
Proof.
  intros eu nm u t d Hn Hp. destruct (fit (Variant eu nm u t d) t) eqn:F; [|reflexivity]. exfalso.
  apply (nominal_never_crosses_lem t (Variant eu nm u t d) eq_refl F).
  destruct t; try discriminate Hn; try discriminate Hp; cbn [ntarget];
    (destruct (ty_eqb _ _ || same_nominal _ _) eqn:E; [|reflexivity]);
    (apply orb_true_iff in E as [E|E]; [|unfold same_nominal in E; discriminate E]);
    apply ty_eqb_eq in E; apply (f_equal size) in E; cbn [size] in E; lia.
Qed.
