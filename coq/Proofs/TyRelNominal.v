(* C13: nominal values are only accepted at the allowed targets (ntarget <> NT_cross),
   explicit casts distinct <-> underlying type are accepted. *)
From Capy Require Import Common.Util Common.Ty.
From Capy Require Import Model.TyRel Model.ExpectMatch Spec.TyLaws Proofs.TyRelBasics.
From Coq Require Import Sumbool.
Local Arguments ty_eqb : simpl never.
Local Arguments N.eqb : simpl never.
Local Arguments N.leb : simpl never.
Local Arguments N.ltb : simpl never.
Local Arguments TyRel.members_rel : simpl never.
Local Arguments params_eqb : simpl never.
Local Arguments TyLaws.same_nominal : simpl never.

Section WithFixes.
Variable fx : fixes.
Notation fit := (TyRel.fit fx).
Notation weak := (TyRel.weak fx).
Notation feq := (TyRel.feq fx).
Notation cast := (TyRel.cast fx).
Notation has_semantics_of := (TyRel.has_semantics_of fx).
Notation tmax := (TyRel.tmax fx).
Notation accepts := (TyLaws.accepts fx).
Notation known_weak_fit := (TyLaws.known_weak_fit fx).
Notation known_max := (TyLaws.known_max fx).
Notation max_accepts := (TyLaws.max_accepts fx).
Notation ntarget := (TyLaws.ntarget fx).

Lemma feq_struct_target : fx_feq_uid fx = true -> forall u ms s,
  feq false (Struct u ms) s = true -> ntarget (Struct u ms) s <> NT_cross.
Proof.
  intros Fx u ms. induction s using ty_ind'; intros Hq; cbn [TyRel.feq] in Hq; cbn [TyLaws.ntarget];
    try (rewrite Hq; cbn [orb]; discriminate).
  - (* Distinct *)
    destruct (ty_eqb _ _ || same_nominal _ _); [discriminate|].
    specialize (IHs Hq). destruct (ntarget _ s); congruence.
  - (* AnonStruct *)
    destruct (ty_eqb _ _ || same_nominal _ _); discriminate.
  - (* Struct *)
    rewrite Fx in Hq. cbn [andb] in Hq.
    destruct (N.eqb u u0) eqn:U; [|discriminate Hq].
    unfold TyLaws.same_nominal. rewrite U, orb_true_r. discriminate.
  - (* Variant *)
    destruct (ty_eqb _ _ || same_nominal _ _); [discriminate|]. rewrite Fx.
    specialize (IHs Hq). destruct (ntarget _ s); congruence.
Qed.

Lemma nominal_never_crosses_lem : forall e a,
  is_nominal a = true -> fit a e = true -> ntarget a e <> NT_cross.
Proof.
  induction e using ty_ind'; intros a Hn Hf; destruct a; try discriminate Hn;
    cbn [TyLaws.ntarget];
    (destruct (ty_eqb _ _ || same_nominal _ _) eqn:E; [discriminate|]);
    apply orb_false_iff in E as [E1 E2];
    cbn [TyRel.fit] in Hf; rewrite E1 in Hf;
    try discriminate;
    cbn [TyRel.feq] in Hf; try (rewrite E1 in Hf); try discriminate.
  all: try (unfold TyLaws.same_nominal in E2; congruence).
  all: try (rewrite Hf; discriminate).
  all: try (apply IHe; assumption).
  all: try (specialize (IHe _ Hn Hf); destruct (ntarget _ e); congruence).
  all: try discriminate.
  all: try (destruct (fit _ e1) eqn:F1; [apply IHe1; assumption | apply IHe2; assumption]).
  (* Struct into Variant: with the C13-2 fix the payload must be the same struct or anonymous *)
  destruct (Sumbool.sumbool_of_bool (fx_feq_uid fx)) as [Fx|Fx]; rewrite Fx; [|discriminate].
  pose proof (feq_struct_target Fx _ _ _ Hf) as T. destruct (ntarget _ e); congruence.
Qed.

(* ---- explicit casts between a distinct type and its underlying type ------- *)
Lemma cast_refl t : cast t t = true.
Proof. apply fit_implies_cast, fit_refl. Qed.

Lemma cast_distinct_unfold u f b :
  cast (Distinct u f) b =
  if fit (Distinct u f) b then true
  else match b with Distinct _ t' => cast f t' | _ => cast f b end.
Proof. destruct b; reflexivity. Qed.

Lemma cast_from_distinct : forall t u, cast (Distinct u t) t = true.
Proof.
  induction t using ty_ind'; intros u0; rewrite cast_distinct_unfold;
    (destruct (fit (Distinct _ _) _); [reflexivity|]); cbv beta iota;
    first [ apply IHt | apply cast_refl ].
Qed.

Lemma fit_into_distinct_of : forall a u s,
  is_distinct a = false -> fit a s = true -> fit a (Distinct u s) = true.
Proof.
  intros a u s Hd Hs. destruct a; try discriminate Hd; cbn [TyRel.fit];
    (destruct (ty_eqb _ _); [reflexivity|]); first [ reflexivity | exact Hs ].
Qed.

Lemma cast_to_distinct : forall t u, cast t (Distinct u t) = true.
Proof.
  induction t using ty_ind'; intros u0;
    try solve [apply fit_implies_cast, fit_into_distinct_of; [reflexivity | apply fit_refl]].
  rewrite cast_distinct_unfold. destruct (fit _ _); [reflexivity|]. cbv beta iota. apply IHt.
Qed.

(* a distinct / variant value never fits its own underlying type, unless that type
   accepts everything (any, unknown, or a sum over those) *)
Lemma distinct_not_into_underlying : forall u t,
  is_nominal t = false ->
  (match t with TAny | Unknown | Optional _ | ErrorUnion _ _ => false | _ => true end) = true ->
  fit (Distinct u t) t = false.
Proof.
  intros u t Hn Hp. destruct (fit (Distinct u t) t) eqn:F; [|reflexivity]. exfalso.
  apply (nominal_never_crosses_lem t (Distinct u t) eq_refl F).
  destruct t; try discriminate Hn; try discriminate Hp; cbn [TyLaws.ntarget];
    (destruct (ty_eqb _ _ || same_nominal _ _) eqn:E; [|reflexivity]);
    (apply orb_true_iff in E as [E|E]; [|unfold TyLaws.same_nominal in E; discriminate E]);
    apply ty_eqb_eq in E; apply (f_equal size) in E; cbn [size] in E; lia.
Qed.

Lemma variant_not_into_payload : forall eu nm u t d,
  is_nominal t = false ->
  (match t with TAny | Unknown | Optional _ | ErrorUnion _ _ | Enum _ _ => false | _ => true end) = true ->
  fit (Variant eu nm u t d) t = false.
Proof.
  intros eu nm u t d Hn Hp. destruct (fit (Variant eu nm u t d) t) eqn:F; [|reflexivity]. exfalso.
  apply (nominal_never_crosses_lem t (Variant eu nm u t d) eq_refl F).
  destruct t; try discriminate Hn; try discriminate Hp; cbn [TyLaws.ntarget];
    (destruct (ty_eqb _ _ || same_nominal _ _) eqn:E; [|reflexivity]);
    (apply orb_true_iff in E as [E|E]; [|unfold TyLaws.same_nominal in E; discriminate E]);
    apply ty_eqb_eq in E; apply (f_equal size) in E; cbn [size] in E; lia.
Qed.

(* with the C13-2 fix in force the payload class is empty *)
Lemma ntarget_no_payload_fixed : fx_feq_uid fx = true -> forall e a, ntarget a e <> NT_payload.
Proof.
  intros Fx. induction e using ty_ind'; intros a; cbn [TyLaws.ntarget];
    (destruct (ty_eqb _ _ || same_nominal _ _); [discriminate|]); try discriminate;
    try apply IHe.
  - (* Distinct *) pose proof (IHe a) as I; destruct a; try discriminate; destruct (ntarget _ e); congruence.
  - (* AnonStruct *) destruct a; discriminate.
  - (* Enum *) destruct a; try discriminate. destruct (N.eqb _ _); discriminate.
  - (* Variant *) pose proof (IHe a) as I; destruct a; try discriminate; rewrite ?Fx;
      destruct (ntarget _ e); congruence.
  - (* ErrorUnion *) destruct (fit a e1); [apply IHe1 | apply IHe2].
Qed.

End WithFixes.
