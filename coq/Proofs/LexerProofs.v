(* Proofs for C22: the model lexer is total and every token sequence it produces
   satisfies the specification LexSpec.lex_ok. *)
From Capy Require Import Common.Util Model.UnicodeNd Model.Lexer Spec.LexSpec.
Open Scope N_scope.

(* ---- basic facts ------------------------------------------------------------- *)
Lemma utf8_len_pos c : 1 <= utf8_len c.
Proof. unfold utf8_len. destruct (N.ltb c 128), (N.ltb c 2048), (N.ltb c 65536); lia. Qed.

Lemma byte_len_app a b : byte_len (a ++ b) = byte_len a + byte_len b.
Proof. induction a as [|c a IH]; cbn [byte_len app]; [reflexivity|]. rewrite IH. lia. Qed.

Lemma list_eqb_refl t : list_eqb t t = true.
Proof. induction t as [|c t IH]; cbn; [reflexivity|]. rewrite N.eqb_refl, IH. reflexivity. Qed.

Lemma list_eqb_eq a b : list_eqb a b = true -> a = b.
Proof.
  revert b; induction a as [|x a IH]; intros [|y b] H; cbn in H; try discriminate; [reflexivity|].
  apply andb_true_iff in H as [H1 H2]. apply N.eqb_eq in H1. subst. f_equal. auto.
Qed.

Lemma span_forallb p l : forallb p (firstn (span p l) l) = true.
Proof.
  induction l as [|c r IH]; cbn; [reflexivity|].
  destruct (p c) eqn:Hp; cbn; [rewrite Hp, IH|]; reflexivity.
Qed.

Lemma is_prefix_firstn p l : is_prefix p l = true -> firstn (length p) l = p.
Proof.
  revert l; induction p as [|x p IH]; intros l H; [reflexivity|].
  destruct l as [|y l]; cbn in H; [discriminate|].
  apply andb_true_iff in H as [H1 H2]. apply N.eqb_eq in H1. subst. cbn. f_equal. auto.
Qed.

(* ---- Cover: a compositional form of toks_ok ------------------------------------- *)
Inductive Cover : N -> list cp -> list (kind * N) -> N -> Prop :=
| cover_nil pos : Cover pos [] [] pos
| cover_cons pos text k rest ems stop :
    kind_ok k text = true ->
    Cover (pos + byte_len text) rest ems stop ->
    Cover pos (text ++ rest) ((k, pos) :: ems) stop.

Lemma cover_app p l1 t1 q l2 t2 r :
  Cover p l1 t1 q -> Cover q l2 t2 r -> Cover p (l1 ++ l2) (t1 ++ t2) r.
Proof.
  induction 1 as [pos|pos text k rest ems stop Hk Hc IH]; intros H2; [exact H2|].
  rewrite <- app_assoc. cbn [app]. constructor; auto.
Qed.

Lemma cover_stop p l t q : Cover p l t q -> q = p + byte_len l.
Proof.
  induction 1 as [pos|pos text k rest ems stop Hk Hc IH]; cbn; [lia|].
  rewrite byte_len_app. lia.
Qed.

Lemma cover_head_start p l k s t q : Cover p l ((k, s) :: t) q -> s = p.
Proof. inversion 1; reflexivity. Qed.

Lemma cut_exact pos text rest :
  (text <> [] \/ True) ->
  cut pos (pos + byte_len text) (text ++ rest) = Some (text, rest) \/
  (text <> [] /\ False).
Proof.
  intros _. left. revert pos; induction text as [|c text IH]; intros pos.
  - cbn [byte_len app]. rewrite N.add_0_r. destruct rest; cbn; rewrite N.eqb_refl; reflexivity.
  - cbn [byte_len app cut]. pose proof (utf8_len_pos c).
    destruct (N.eqb_spec pos (pos + (utf8_len c + byte_len text))) as [E|_]; [lia|].
    destruct (N.ltb_spec (pos + (utf8_len c + byte_len text)) pos) as [E|_]; [lia|].
    replace (pos + (utf8_len c + byte_len text)) with ((pos + utf8_len c) + byte_len text) by lia.
    rewrite IH. reflexivity.
Qed.

Lemma cover_toks_ok p l t q : Cover p l t q -> toks_ok p l t q = true.
Proof.
  induction 1 as [pos|pos text k rest ems stop Hk Hc IH].
  - cbn. rewrite N.eqb_refl. reflexivity.
  - cbn [toks_ok]. rewrite N.eqb_refl. cbn [andb].
    assert (Hstop : match ems with (_, s') :: _ => s' | [] => stop end = pos + byte_len text).
    { destruct ems as [|[k' s'] ems'].
      - inversion Hc; subst. reflexivity.
      - apply cover_head_start in Hc. exact Hc. }
    rewrite Hstop.
    destruct (cut_exact pos text rest (or_intror I)) as [E|[_ []]]. rewrite E, Hk, IH. reflexivity.
Qed.

(* ---- soundness of the matchers: a non-zero match has the shape of its kind -------- *)
Lemma ws_sound l : m_ws l <> 0%nat -> kind_ok KWhitespace (firstn (m_ws l) l) = true.
Proof.
  unfold m_ws. intros H. cbn [kind_ok]. pose proof (span_forallb is_ws l) as Hf.
  destruct (firstn (span is_ws l) l) eqn:E; [|exact Hf].
  destruct l as [|c r]; cbn in *; [contradiction|]. destruct (is_ws c); [discriminate|contradiction].
Qed.

Lemma nbsp_sound l : m_nbsp l <> 0%nat -> kind_ok KNbsp (firstn (m_nbsp l) l) = true.
Proof.
  destruct l as [|c r]; cbn; [contradiction|]. destruct (N.eqb_spec c 160) as [->|]; [|contradiction].
  intros _. reflexivity.
Qed.

Lemma word_sound l : m_word l <> 0%nat ->
  kind_ok (word_kind (firstn (m_word l) l)) (firstn (m_word l) l) = true.
Proof.
  destruct l as [|c r]; cbn [m_word]; [contradiction|].
  destruct (is_alpha_ c) eqn:Ha; [|contradiction]. intros _.
  cbn [firstn]. set (t := c :: firstn (span is_ident_cont r) r).
  unfold word_kind. destruct (mem_list t keywords) eqn:Hk.
  - cbn [kind_ok]. rewrite list_eqb_refl, Hk. reflexivity.
  - destruct (mem_list t bools) eqn:Hb.
    + cbn [kind_ok]. exact Hb.
    + cbn [kind_ok]. unfold t at 1. rewrite Ha, span_forallb, Hk, Hb. reflexivity.
Qed.

Lemma punct_inv l :
  m_punct l = 0%nat \/ exists p, In p puncts /\ is_prefix p l = true /\ length p = m_punct l.
Proof.
  unfold m_punct.
  assert (G : forall tbl best,
    (best = 0%nat \/ exists p, In p puncts /\ is_prefix p l = true /\ length p = best) ->
    (forall p, In p tbl -> In p puncts) ->
    let r := fold_left (fun best p => if andb (is_prefix p l) (Nat.ltb best (length p)) then length p else best) tbl best in
    r = 0%nat \/ exists p, In p puncts /\ is_prefix p l = true /\ length p = r).
  { induction tbl as [|p tbl IH]; intros best Hb Hin; cbn [fold_left]; [exact Hb|].
    apply IH; [|intros q Hq; apply Hin; right; exact Hq].
    destruct (is_prefix p l) eqn:Hp; cbn [andb]; [|exact Hb].
    destruct (Nat.ltb best (length p)); [|exact Hb].
    right. exists p. repeat split; auto. apply Hin. left. reflexivity. }
  apply G; [left; reflexivity|auto].
Qed.

Lemma mem_list_in t tbl : In t tbl -> mem_list t tbl = true.
Proof.
  unfold mem_list. intros H. apply existsb_exists. exists t. split; [exact H|apply list_eqb_refl].
Qed.

Lemma punct_sound l : m_punct l <> 0%nat ->
  kind_ok (KPunct (firstn (m_punct l) l)) (firstn (m_punct l) l) = true.
Proof.
  intros H. destruct (punct_inv l) as [E|(p & Hin & Hp & Hl)]; [contradiction|].
  rewrite <- Hl, (is_prefix_firstn _ _ Hp). cbn [kind_ok]. rewrite list_eqb_refl, (mem_list_in _ _ Hin). reflexivity.
Qed.

(* digits / exponents *)
Lemma firstn_S_cons {A} n (c : A) r : firstn (S n) (c :: r) = c :: firstn n r.
Proof. reflexivity. Qed.

Lemma digits_sound l : m_digits l <> 0%nat -> digits_run (firstn (m_digits l) l) = true.
Proof.
  destruct l as [|c r]; cbn [m_digits]; [contradiction|].
  destruct (is_digit c) eqn:Hd; [|contradiction]. intros _.
  cbn [firstn digits_run]. rewrite Hd, span_forallb. reflexivity.
Qed.

Lemma is_du_not (c x : cp) : is_du x = false -> is_du c = true -> N.eqb x c = false.
Proof. intros Hx Hc. destruct (N.eqb_spec x c) as [->|]; [congruence|reflexivity]. Qed.

Lemma du_46 : is_du 46 = false. Proof. vm_compute. reflexivity. Qed.
Lemma du_e c : is_e c = true -> is_du c = false.
Proof.
  unfold is_e. intros H. apply orb_true_iff in H as [H|H]; apply N.eqb_eq in H; subst; vm_compute; reflexivity.
Qed.
Lemma digit_du c : is_digit c = true -> is_du c = true.
Proof. unfold is_du. intros ->. reflexivity. Qed.

(* break_at on a run in which no element satisfies p, followed by an element that does *)
Lemma break_at_run p (a : list cp) c r :
  forallb (fun x => negb (p x)) a = true -> p c = true ->
  break_at p (a ++ c :: r) = (a, Some r).
Proof.
  induction a as [|x a IH]; intros Ha Hc; cbn [app break_at].
  - rewrite Hc. reflexivity.
  - cbn in Ha. apply andb_true_iff in Ha as [Hx Ha]. apply negb_true_iff in Hx. rewrite Hx, (IH Ha Hc). reflexivity.
Qed.

Lemma break_at_none p (a : list cp) :
  forallb (fun x => negb (p x)) a = true -> break_at p a = (a, None).
Proof.
  induction a as [|x a IH]; intros Ha; cbn [break_at]; [reflexivity|].
  cbn in Ha. apply andb_true_iff in Ha as [Hx Ha]. apply negb_true_iff in Hx. rewrite Hx, (IH Ha). reflexivity.
Qed.

Lemma forallb_impl {A} (p q : A -> bool) l :
  (forall x, p x = true -> q x = true) -> forallb p l = true -> forallb q l = true.
Proof.
  intros H. induction l as [|x l IH]; cbn; [reflexivity|]. intros Hl.
  apply andb_true_iff in Hl as [Hx Hl]. rewrite (H _ Hx), (IH Hl). reflexivity.
Qed.

Lemma digits_run_no p t :
  (forall x, is_du x = true -> p x = false) -> digits_run t = true ->
  forallb (fun x => negb (p x)) t = true.
Proof.
  intros Hp. destruct t as [|c r]; cbn [digits_run]; [discriminate|]. intros H.
  apply andb_true_iff in H as [Hc Hr]. cbn [forallb].
  rewrite (Hp c (digit_du c Hc)). cbn [negb andb].
  eapply forallb_impl; [|exact Hr]. intros x Hx. rewrite (Hp x Hx). reflexivity.
Qed.

Lemma du_not_e x : is_du x = true -> is_e x = false.
Proof. intros H. destruct (is_e x) eqn:E; [|reflexivity]. apply du_e in E. congruence. Qed.
Lemma du_not_dot x : is_du x = true -> N.eqb 46 x = false.
Proof. intros H. destruct (N.eqb_spec 46 x) as [<-|]; [rewrite du_46 in H; discriminate|reflexivity]. Qed.

Lemma firstn_app_skipn {A} n m (l : list A) :
  firstn (n + m) l = firstn n l ++ firstn m (skipn n l).
Proof.
  revert l; induction n as [|n IH]; intros l; [reflexivity|].
  destruct l as [|c l]; cbn [plus firstn skipn app]; [destruct m; reflexivity|]. rewrite IH. reflexivity.
Qed.

(* shape of an exponent match *)
Lemma exp_shape sg l : m_exp sg l <> 0%nat ->
  exists e x, firstn (m_exp sg l) l = e :: x /\ is_e e = true /\
    ((digits_run x = true /\ (sg = false \/ forall s y, x = s :: y -> is_sign s = false)) \/
     (sg = true /\ exists s y, x = s :: y /\ is_sign s = true /\ digits_run y = true)).
Proof.
  destruct l as [|e r]; cbn [m_exp]; [contradiction|].
  destruct (is_e e) eqn:He; [|contradiction].
  destruct r as [|c r'].
  - cbn. contradiction.
  - destruct (andb sg (is_sign c)) eqn:Hs.
    + apply andb_true_iff in Hs as [-> Hs]. cbn [skipn].
      destruct (m_digits r') eqn:Hd; [contradiction|]. intros _.
      exists e, (c :: firstn (S n) r'). split.
      { cbn [plus firstn]. reflexivity. }
      split; [exact He|]. right. split; [reflexivity|]. exists c, (firstn (S n) r'). repeat split; auto.
      rewrite <- Hd. apply digits_sound. rewrite Hd. discriminate.
    + cbn [skipn]. destruct (m_digits (c :: r')) eqn:Hd; [contradiction|]. intros _.
      exists e, (firstn (S n) (c :: r')). split; [reflexivity|]. split; [exact He|]. left. split.
      * rewrite <- Hd. apply digits_sound. rewrite Hd. discriminate.
      * destruct sg; [right|left; reflexivity]. cbn [andb] in Hs. intros s y Hx. cbn in Hx. inversion Hx; subst. exact Hs.
Qed.

Lemma int_sound l : m_int l <> 0%nat -> kind_ok KInt (firstn (m_int l) l) = true.
Proof.
  unfold m_int. destruct (m_digits l) eqn:Hd; [contradiction|]. intros _.
  set (n0 := S n) in *. rewrite firstn_app_skipn.
  assert (Hrun : digits_run (firstn n0 l) = true) by (rewrite <- Hd; apply digits_sound; rewrite Hd; discriminate).
  cbn [kind_ok]. unfold int_ok.
  destruct (Nat.eq_dec (m_exp false (skipn n0 l)) 0) as [E0|E0].
  - rewrite E0. cbn [firstn]. rewrite app_nil_r.
    rewrite (break_at_none is_e); [exact Hrun|]. apply digits_run_no; [apply du_not_e|exact Hrun].
  - destruct (exp_shape false _ E0) as (e & x & Hx & He & [[Hr _]|[Hf _]]); [|discriminate].
    rewrite Hx, (break_at_run is_e _ e x); [rewrite Hrun, Hr; reflexivity| |exact He].
    apply digits_run_no; [apply du_not_e|exact Hrun].
Qed.

Lemma float_sound l : m_float l <> 0%nat -> kind_ok KFloat (firstn (m_float l) l) = true.
Proof.
  unfold m_float. set (n0 := m_digits l).
  destruct (skipn n0 l) as [|dot r] eqn:Hsk; [contradiction|].
  destruct (N.eqb_spec dot 46) as [->|]; [|contradiction].
  destruct (m_digits r) eqn:Hd; [contradiction|]. intros _.
  set (n1 := S n) in *.
  assert (Hb : digits_run (firstn n1 r) = true) by (rewrite <- Hd; apply digits_sound; rewrite Hd; discriminate).
  assert (Ha : firstn n0 l = [] \/ digits_run (firstn n0 l) = true).
  { destruct (Nat.eq_dec n0 0) as [E|E]; [left; rewrite E; reflexivity|right; apply digits_sound; exact E]. }
  rewrite firstn_app_skipn.
  replace (n0 + 1 + n1)%nat with (n0 + S n1)%nat by lia.
  rewrite (firstn_app_skipn n0 (S n1) l), Hsk. cbn [firstn].
  set (a := firstn n0 l) in *. set (b := firstn n1 r) in *.
  set (x := firstn (m_exp true (skipn (n0 + S n1) l)) (skipn (n0 + S n1) l)).
  cbn [kind_ok]. unfold float_ok. rewrite <- app_assoc. cbn [app].
  assert (Hnd : forallb (fun c => negb (N.eqb 46 c)) a = true).
  { destruct Ha as [->|Ha]; [reflexivity|]. apply digits_run_no; [apply du_not_dot|exact Ha]. }
  rewrite (break_at_run (N.eqb 46) a 46 (b ++ x) Hnd (N.eqb_refl 46)).
  assert (Ha' : match a with [] => true | _ :: _ => digits_run a end = true).
  { destruct Ha as [->|Ha]; [reflexivity|]. destruct a; [reflexivity|exact Ha]. }
  rewrite Ha'. cbn [andb].
  assert (Hne : forallb (fun c => negb (is_e c)) b = true) by (apply digits_run_no; [apply du_not_e|exact Hb]).
  destruct (Nat.eq_dec (m_exp true (skipn (n0 + S n1) l)) 0) as [E0|E0].
  - unfold x. rewrite E0. cbn [firstn]. rewrite app_nil_r, (break_at_none is_e b Hne). exact Hb.
  - destruct (exp_shape true _ E0) as (e & y & Hx & He & Hcase). fold x in Hx. rewrite Hx.
    rewrite (break_at_run is_e b e y Hne He), Hb. cbn [andb].
    destruct Hcase as [[Hr [Hf|Hs]]|[_ (s & z & -> & Hs & Hz)]].
    + discriminate.
    + destruct y as [|s z]; [discriminate|]. rewrite (Hs s z eq_refl). exact Hr.
    + rewrite Hs. exact Hz.
Qed.

Lemma prefixed_sound mk p l : m_prefixed mk p l <> 0%nat ->
  prefixed_ok mk p (firstn (m_prefixed mk p l) l) = true.
Proof.
  unfold m_prefixed. destruct l as [|z [|x r]]; try contradiction.
  destruct (andb (N.eqb z 48) (N.eqb x mk)) eqn:Hzx; [|contradiction].
  destruct r as [|d r']; [cbn; contradiction|].
  cbn [span]. destruct (p d) eqn:Hd; [|contradiction]. intros _.
  cbn [plus firstn]. unfold prefixed_ok. rewrite Hzx. cbn [forallb andb]. rewrite Hd, span_forallb. reflexivity.
Qed.

Lemma hex_sound l : m_hex l <> 0%nat -> kind_ok KHex (firstn (m_hex l) l) = true.
Proof. apply prefixed_sound. Qed.
Lemma bin_sound l : m_bin l <> 0%nat -> kind_ok KBin (firstn (m_bin l) l) = true.
Proof. apply prefixed_sound. Qed.

(* ---- quoted literals: shape of the Logos match and soundness of the sub-lexer -------- *)
Fixpoint wf_body (esc : bool) (s : list cp) : bool :=
  match s with
  | [] => negb esc
  | c :: r => if esc then andb (negb (N.eqb c 10)) (wf_body false r)
              else if N.eqb c 92 then wf_body true r
              else andb (negb (N.eqb c 10)) (wf_body false r)
  end.

Lemma str_body_wf q : q <> 10 -> q <> 92 -> forall r, wf_body false (firstn (str_body q r) r) = true.
Proof.
  intros Hq10 Hq92.
  assert (G : forall n r, (length r <= n)%nat -> wf_body false (firstn (str_body q r) r) = true).
  { induction n as [|n IH]; intros r Hl.
    - destruct r; [reflexivity|cbn in Hl; lia].
    - destruct r as [|c r']; [reflexivity|]. cbn [str_body].
      destruct (N.eqb_spec c q) as [->|Hcq].
      + cbn [firstn wf_body]. destruct (N.eqb_spec q 92); [contradiction|].
        destruct (N.eqb_spec q 10); [contradiction|]. reflexivity.
      + destruct (N.eqb_spec c 92) as [->|Hc92].
        * destruct r' as [|d r'']; [reflexivity|].
          destruct (N.eqb_spec d 10) as [->|Hd]; [reflexivity|].
          cbn [firstn wf_body]. rewrite N.eqb_refl.
          destruct (N.eqb_spec d 10); [contradiction|]. cbn [negb andb].
          apply IH. cbn in Hl. lia.
        * destruct (N.eqb_spec c 10) as [->|Hc10]; [reflexivity|].
          cbn [firstn wf_body]. destruct (N.eqb_spec c 92); [contradiction|].
          destruct (N.eqb_spec c 10); [contradiction|]. cbn [negb andb].
          apply IH. cbn in Hl. lia. }
  intros r. apply (G (length r)). lia.
Qed.

Definition contents_char (c : cp) : bool := andb (negb (N.eqb c 92)) (negb (N.eqb c 10)).

Lemma kind_ok_contents cur : cur <> [] -> forallb contents_char cur = true -> kind_ok KStringContents cur = true.
Proof. intros Hne Hf. cbn [kind_ok]. destruct cur; [contradiction|exact Hf]. Qed.

Lemma sub_cover q qk : kind_ok qk [q] = true -> q <> 92 ->
  forall s,
  (forall pos, wf_body false s = true ->
     Cover pos s (sub_quoted q qk StartContents pos s) (pos + byte_len s)) /\
  (forall pos p0 cur, cur <> [] -> forallb contents_char cur = true -> p0 + byte_len cur = pos ->
     wf_body false s = true ->
     Cover p0 (cur ++ s) ((KStringContents, p0) :: sub_quoted q qk InContents pos s) (pos + byte_len s)) /\
  (forall pos p0, p0 + 1 = pos -> wf_body true s = true ->
     Cover p0 (92 :: s) ((KEscape, p0) :: sub_quoted q qk EscapeM pos s) (pos + byte_len s)).
Proof.
  intros Hqk Hq92. induction s as [|c r IH].
  - repeat split.
    + intros pos _. cbn. rewrite N.add_0_r. constructor.
    + intros pos p0 cur Hne Hf Hp _. cbn [sub_quoted byte_len]. rewrite N.add_0_r, <- Hp.
      constructor; [apply kind_ok_contents; assumption|constructor].
    + intros pos p0 _ Hwf. discriminate.
  - destruct IH as (IHs & IHi & IHe).
    assert (Step : forall pos, wf_body false (c :: r) = true ->
              Cover pos (c :: r)
                (if N.eqb c q then (qk, pos) :: sub_quoted q qk StartContents (pos + utf8_len c) r
                 else if N.eqb c 92 then (KEscape, pos) :: sub_quoted q qk EscapeM (pos + utf8_len c) r
                 else (KStringContents, pos) :: sub_quoted q qk InContents (pos + utf8_len c) r)
                (pos + byte_len (c :: r))).
    { intros pos Hwf. cbn [byte_len]. rewrite N.add_assoc.
      destruct (N.eqb_spec c q) as [->|Hcq].
      - change (q :: r) with ([q] ++ r). constructor; [exact Hqk|].
        cbn [byte_len]. rewrite N.add_0_r. apply IHs.
        cbn [wf_body] in Hwf. destruct (N.eqb_spec q 92); [contradiction|].
        apply andb_true_iff in Hwf. tauto.
      - destruct (N.eqb_spec c 92) as [->|Hc92].
        + cbn [wf_body] in Hwf. rewrite N.eqb_refl in Hwf.
          replace (utf8_len 92) with 1 by reflexivity. apply IHe; [reflexivity|exact Hwf].
        + cbn [wf_body] in Hwf. destruct (N.eqb_spec c 92); [contradiction|].
          apply andb_true_iff in Hwf as [Hc10 Hwf].
          change (c :: r) with ([c] ++ r). apply IHi; auto; [discriminate| |cbn [byte_len]; lia].
          cbn [forallb]. unfold contents_char. destruct (N.eqb_spec c 92); [contradiction|]. rewrite Hc10. reflexivity. }
    repeat split.
    + intros pos Hwf. specialize (Step pos Hwf). cbn [sub_quoted].
      destruct (N.eqb c q); [exact Step|]. destruct (N.eqb c 92); exact Step.
    + intros pos p0 cur Hne Hf Hp Hwf. cbn [sub_quoted].
      destruct (N.eqb_spec c q) as [Hcq|Hcq]; [|destruct (N.eqb_spec c 92) as [Hc92|Hc92]].
      * constructor; [apply kind_ok_contents; assumption|]. rewrite Hp.
        specialize (Step pos Hwf). destruct (N.eqb_spec c q); [exact Step|contradiction].
      * constructor; [apply kind_ok_contents; assumption|]. rewrite Hp.
        specialize (Step pos Hwf). destruct (N.eqb_spec c q); [contradiction|].
        destruct (N.eqb_spec c 92); [exact Step|contradiction].
      * cbn [wf_body] in Hwf. destruct (N.eqb_spec c 92); [contradiction|].
        apply andb_true_iff in Hwf as [Hc10 Hwf].
        replace (cur ++ c :: r) with ((cur ++ [c]) ++ r) by (rewrite <- app_assoc; reflexivity).
        cbn [byte_len]. rewrite N.add_assoc. apply IHi; auto.
        -- destruct cur; discriminate.
        -- rewrite forallb_app, Hf. cbn. unfold contents_char. destruct (N.eqb_spec c 92); [contradiction|].
           rewrite Hc10. reflexivity.
        -- rewrite byte_len_app. cbn [byte_len]. lia.
    + intros pos p0 Hp Hwf. cbn [sub_quoted wf_body] in *. apply andb_true_iff in Hwf as [Hc10 Hwf].
      change (92 :: c :: r) with ([92; c] ++ r). constructor.
      * cbn [kind_ok]. rewrite N.eqb_refl, Hc10. reflexivity.
      * cbn [byte_len]. replace (utf8_len 92) with 1 by reflexivity.
        replace (p0 + (1 + (utf8_len c + 0))) with (pos + utf8_len c) by lia.
        rewrite N.add_assoc. apply IHs. exact Hwf.
Qed.

(* ---- what each raw token emits covers its text -------------------------------------- *)
Lemma plain_cover k pos text : kind_ok k text = true ->
  Cover pos text (emit (RPlain k) pos text) (pos + byte_len text).
Proof.
  intros H. cbn [emit]. rewrite <- (app_nil_r text) at 1. constructor; [exact H|constructor].
Qed.

Lemma quoted_cover q qk l pos : kind_ok qk [q] = true -> q <> 10 -> q <> 92 -> m_quoted q l <> 0%nat ->
  Cover pos (firstn (m_quoted q l) l) (sub_quoted q qk InContents pos (firstn (m_quoted q l) l))
        (pos + byte_len (firstn (m_quoted q l) l)).
Proof.
  intros Hqk H10 H92. destruct l as [|c r]; cbn [m_quoted]; [contradiction|].
  destruct (N.eqb_spec c q) as [->|]; [|contradiction]. intros _.
  cbn [firstn sub_quoted]. rewrite N.eqb_refl. cbn [byte_len]. rewrite N.add_assoc.
  change (q :: firstn (str_body q r) r) with ([q] ++ firstn (str_body q r) r).
  constructor; [exact Hqk|]. cbn [byte_len]. rewrite N.add_0_r.
  apply (sub_cover q qk Hqk H92). apply str_body_wf; assumption.
Qed.

Lemma comment_cover l pos : m_comment l <> 0%nat ->
  Cover pos (firstn (m_comment l) l) (sub_comment pos (byte_len (firstn (m_comment l) l)))
        (pos + byte_len (firstn (m_comment l) l)).
Proof.
  destruct l as [|a [|b r]]; cbn [m_comment]; try contradiction.
  destruct (andb (N.eqb a 47) (N.eqb b 47)) eqn:Hab; [|contradiction]. intros _.
  apply andb_true_iff in Hab as [Ha Hb]. apply N.eqb_eq in Ha, Hb. subst.
  cbn [firstn]. set (rest := firstn (span not_nl r) r).
  unfold sub_comment. cbn [byte_len]. replace (utf8_len 47) with 1 by reflexivity.
  destruct (N.ltb_spec 1 (1 + (1 + byte_len rest))) as [_|H]; [|lia].
  change (47 :: 47 :: rest) with ([47; 47] ++ rest). constructor; [reflexivity|].
  cbn [byte_len]. replace (utf8_len 47) with 1 by reflexivity.
  replace (pos + (1 + (1 + 0))) with (pos + 2) by lia.
  replace (pos + (1 + (1 + byte_len rest))) with (pos + 2 + byte_len rest) by lia.
  rewrite <- (app_nil_r rest) at 1. constructor; [|constructor].
  cbn [kind_ok]. apply span_forallb.
Qed.

