(* Proofs for C15: get_const (worklist) against the documented const rule; consumers. *)
From Capy Require Import Common.Util Model.Constness Spec.ConstSpec.

(* ---- induction principle covering the nested list / option ------------------------- *)
Section CexprInd.
Variable P : cexpr -> Prop.
Hypothesis HLit : forall k, P (CLit k).
Hypothesis HTypeLit : P CTypeLit.
Hypothesis HLambda : P CLambda.
Hypothesis HImport : P CImport.
Hypothesis HMissing : P CMissing.
Hypothesis HComptime : forall s r, P (CComptime s r).
Hypothesis HArray : forall b items, (forall x, In x items -> P x) -> P (CArrayLit b items).
Hypothesis HGlobal : forall e f b, P b -> P (CGlobal e f b).
Hypothesis HLocalS : forall mu v, P v -> P (CLocal mu (Some v)).
Hypothesis HLocalN : forall mu, P (CLocal mu None).
Hypothesis HMember : P CMemberOther.
Hypothesis HParam : forall d, P (CComptimeParam d).
Hypothesis HOther : forall t, P (COther t).
Fixpoint cexpr_ind2 (e : cexpr) : P e :=
  match e with
  | CLit k => HLit k
  | CTypeLit => HTypeLit
  | CLambda => HLambda
  | CImport => HImport
  | CMissing => HMissing
  | CComptime s r => HComptime s r
  | CArrayLit b items =>
      HArray b items
        ((fix go (l : list cexpr) : forall x, In x l -> P x :=
            match l with
            | [] => fun x H => match H with end
            | y :: r => fun x H => match H with
                                   | or_introl E => eq_ind y P (cexpr_ind2 y) x E
                                   | or_intror H' => go r x H'
                                   end
            end) items)
  | CGlobal e f b => HGlobal e f b (cexpr_ind2 b)
  | CLocal mu (Some v) => HLocalS mu v (cexpr_ind2 v)
  | CLocal mu None => HLocalN mu
  | CMemberOther => HMember
  | CComptimeParam d => HParam d
  | COther t => HOther t
  end.
End CexprInd.

(* ---- the recursive reading of the loop ---------------------------------------------- *)
Definition is_const_v (v : verdict) : bool := match v with Const => true | _ => false end.

Fixpoint all_const (e : cexpr) : bool :=
  match e with
  | CArrayLit true items => forallb all_const items
  | CGlobal ext fin b => negb ext && fin && all_const b
  | CLocal mu (Some v) => negb mu && all_const v
  | CLocal _ None => false
  | _ => is_const_v (fst (visit e))
  end.

Definition total (l : list cexpr) : nat := fold_right (fun e n => size e + n) 0 l.

Lemma size_array b items : size (CArrayLit b items) = S (total items).
Proof.
  cbn [size]. f_equal.
Qed.

Lemma total_app a b : total (a ++ b) = total a + total b.
Proof.
  unfold total. induction a as [|x r IH]; cbn [fold_right app]; [reflexivity|]. rewrite IH. lia.
Qed.

Lemma all_const_visit e :
  all_const e = is_const_v (fst (visit e)) && forallb all_const (snd (visit e)).
Proof.
  destruct e as [k| | | | |s r|b items|ext fin body|mu [v|]| |d|t].
  - destruct k; reflexivity.
  - reflexivity.
  - reflexivity.
  - reflexivity.
  - reflexivity.
  - reflexivity.
  - destruct b; cbn [all_const visit fst snd is_const_v forallb andb]; reflexivity.
  - cbn [all_const visit].
    destruct ext; cbn [negb andb fst snd is_const_v forallb]; [reflexivity|].
    destruct fin; cbn [negb andb fst snd is_const_v forallb]; [rewrite andb_true_r|]; reflexivity.
  - cbn [all_const visit].
    destruct mu; cbn [negb andb fst snd is_const_v forallb]; [reflexivity|rewrite andb_true_r; reflexivity].
  - destruct mu; reflexivity.
  - reflexivity.
  - reflexivity.
  - destruct t; reflexivity.
Qed.

Lemma visit_size e : total (snd (visit e)) < size e.
Proof.
  destruct e as [k| | | | |s r|b items|ext fin body|mu [v|]| |d|t].
  - destruct k; cbn; lia.
  - cbn; lia.
  - cbn; lia.
  - cbn; lia.
  - cbn; lia.
  - cbn; lia.
  - rewrite size_array. destruct b; cbn [visit snd]; [lia|unfold total at 1; cbn [fold_right]; lia].
  - change (size (CGlobal ext fin body)) with (S (size body)).
    cbn [visit]. destruct ext; [cbn [snd total fold_right]; lia|].
    destruct fin; cbn [negb snd total fold_right]; lia.
  - change (size (CLocal mu (Some v))) with (S (size v)).
    cbn [visit]. destruct mu; cbn [snd total fold_right]; lia.
  - cbn [visit]. destruct mu; cbn; lia.
  - cbn; lia.
  - cbn; lia.
  - destruct t; cbn; lia.
Qed.

Lemma size_pos e : 0 < size e.
Proof. pose proof (visit_size e). lia. Qed.

Lemma loop_characterised : forall fuel q,
  total q <= fuel ->
  exists v, get_const_loop fuel q = Ok v /\ (v = Const <-> forallb all_const q = true).
Proof.
  induction fuel as [|f IH]; intros q Hq.
  - destruct q as [|e rest].
    + exists Const. split; [reflexivity|]. cbn. tauto.
    + exfalso. unfold total in Hq. cbn [fold_right] in Hq. pose proof (size_pos e). lia.
  - destruct q as [|e rest].
    + exists Const. split; [reflexivity|]. cbn. tauto.
    + cbn [get_const_loop forallb]. rewrite (all_const_visit e).
      pose proof (visit_size e) as Hs.
      destruct (visit e) as [v kids] eqn:Ev. cbn [fst snd] in *.
      destruct v.
      * assert (Hle : total (rest ++ kids) <= f).
        { rewrite total_app. cbn [total fold_right] in Hq. unfold total in *. lia. }
        destruct (IH (rest ++ kids) Hle) as [v' [E Hiff]].
        exists v'. split; [exact E|].
        rewrite Hiff, forallb_app. cbn [is_const_v andb].
        rewrite andb_comm. reflexivity.
      * exists Runtime. split; [reflexivity|]. cbn. split; discriminate.
      * exists Unknown. split; [reflexivity|]. cbn. split; discriminate.
Qed.

Lemma get_const_characterised e :
  exists v, get_const e = Ok v /\ (v = Const <-> all_const e = true).
Proof.
  unfold get_const.
  destruct (loop_characterised (size e) [e]) as [v [E H]].
  { cbn [total fold_right]. lia. }
  exists v. split; [exact E|]. rewrite H. cbn [forallb]. rewrite andb_true_r. tauto.
Qed.

(* ---- all_const is the documented rule ------------------------------------------------- *)
Lemma all_const_IsConst : forall e, wf e = true -> all_const e = true -> IsConst e.
Proof.
  induction e as [k| | | | |s r|b items IH|ext fin body IH|mu v IH|mu| |d|t] using cexpr_ind2;
    intros Hwf H; try discriminate; try (constructor; fail).
  - destruct b; [|discriminate]. cbn [all_const] in H. constructor.
    intros x Hx. apply IH; [exact Hx| |].
    + cbn [wf] in Hwf. revert Hwf Hx. clear. induction items as [|y r IHr]; intros Hwf Hx; [destruct Hx|].
      apply andb_prop in Hwf. destruct Hwf as [Hy Hr]. destruct Hx as [E|Hx]; [subst; exact Hy|auto].
    + rewrite forallb_forall in H. auto.
  - cbn [all_const] in H. apply andb_prop in H. destruct H as [H Hb]. apply andb_prop in H. destruct H as [He Hf].
    destruct ext; [discriminate|]. destruct fin; [|discriminate].
    cbn [wf] in Hwf. apply andb_prop in Hwf. constructor. apply IH; tauto.
  - cbn [all_const] in H. apply andb_prop in H. destruct H as [Hm Hv].
    destruct mu; [discriminate|]. constructor. apply IH; auto.
  - destruct t; [constructor|discriminate].
Qed.

Lemma IsConst_all_const : forall e, has_char e = false -> IsConst e -> all_const e = true.
Proof.
  induction e as [k| | | | |s r|b items IH|ext fin body IH|mu v IH|mu| |d|t] using cexpr_ind2;
    intros Hc H; inversion H; subst; try reflexivity.
  - destruct k; try reflexivity. discriminate.
  - cbn [all_const]. apply forallb_forall. intros x Hx. apply IH; auto.
    cbn [has_char] in Hc. revert Hc Hx. clear. induction items as [|y r IHr]; intros Hc Hx; [destruct Hx|].
    apply orb_false_iff in Hc. destruct Hc as [Hy Hr]. destruct Hx as [E|Hx]; [subst; exact Hy|auto].
  - cbn [all_const negb andb]. apply IH; auto.
  - cbn [all_const negb andb]. apply IH; auto.
Qed.

Theorem get_const_iff_IsConst e :
  wf e = true -> has_char e = false ->
  exists v, get_const e = Ok v /\ (v = Const <-> IsConst e).
Proof.
  intros Hwf Hc. destruct (get_const_characterised e) as [v [E H]].
  exists v. split; [exact E|]. rewrite H. split.
  - apply all_const_IsConst; exact Hwf.
  - apply IsConst_all_const; exact Hc.
Qed.

(* soundness needs no exclusion: whatever get_const calls Const is const by the rule *)
Theorem get_const_sound e :
  wf e = true -> get_const e = Ok Const -> IsConst e.
Proof.
  intros Hwf E. destruct (get_const_characterised e) as [v [E' H]].
  rewrite E in E'. inversion E'; subst. apply all_const_IsConst; [exact Hwf|]. apply H. reflexivity.
Qed.

Theorem get_const_total e : exists v, get_const e = Ok v.
Proof. destruct (get_const_characterised e) as [v [E _]]. eauto. Qed.

(* ---- values ------------------------------------------------------------------------- *)
Lemma const_data_denotes : forall e n, const_data e = Ok (Some (DInt n)) -> denotes e n.
Proof.
  induction e as [k| | | | |s r|b items IH|ext fin body IH|mu v IH|mu| |d|t] using cexpr_ind2;
    intros n H; cbn [const_data] in H; try discriminate.
  - destruct k; inversion H; subst. constructor.
  - destruct s; inversion H; subst. constructor.
  - constructor. auto.
  - constructor. auto.
  - inversion H; subst. constructor.
  - destruct t; discriminate.
Qed.

Lemma consume_accepted_int site w e n :
  consume site w e = Ok (Accepted (DInt n)) -> denotes e n /\ get_const e = Ok Const.
Proof.
  unfold consume. destruct (get_const e) as [v| |]; cbn [bind]; try discriminate.
  destruct v; try discriminate.
  destruct (const_data e) as [[d|]| |] eqn:Ed; cbn [bind]; try discriminate.
  destruct d; [intros H; inversion H; subst; split; [apply const_data_denotes; exact Ed|reflexivity]
              | | | ]; destruct w; discriminate.
Qed.

Theorem accepted_array_len_denotes e n :
  wf e = true -> array_len e = Ok (Accepted (DInt n)) -> denotes e n /\ IsConst e.
Proof.
  intros Hwf H. apply consume_accepted_int in H. destruct H as [Hd Hc].
  split; [exact Hd|]. apply get_const_sound; assumption.
Qed.

Theorem accepted_discriminant_denotes e n :
  wf e = true -> discriminant e = Ok (Accepted (DInt n)) -> denotes e n /\ IsConst e.
Proof.
  intros Hwf H. apply consume_accepted_int in H. destruct H as [Hd Hc].
  split; [exact Hd|]. apply get_const_sound; assumption.
Qed.

Theorem not_const_is_reported e site w :
  wf e = true -> has_char e = false -> ~ IsConst e ->
  consume site w e = Ok NotConst \/ consume site w e = Ok Silent.
Proof.
  intros Hwf Hc Hn. destruct (get_const_iff_IsConst e Hwf Hc) as [v [E H]].
  unfold consume. rewrite E. cbn [bind]. destruct v; [exfalso; apply Hn, H; reflexivity|left|right]; reflexivity.
Qed.

(* ---- crash freedom of the consumers --------------------------------------------------- *)
Fixpoint int_valued (e : cexpr) : bool :=
  match e with
  | CLit (LInt _) | CComptime true (DInt _) | CComptimeParam (DInt _) => true
  | CLocal _ (Some v) => int_valued v
  | CGlobal _ _ b => int_valued b
  | _ => false
  end.

Lemma int_valued_data : forall e, int_valued e = true -> exists n, const_data e = Ok (Some (DInt n)).
Proof.
  induction e as [k| | | | |s r|b items IH|ext fin body IH|mu v IH|mu| |d|t] using cexpr_ind2;
    intros H; cbn [int_valued] in H; try discriminate; cbn [const_data]; auto.
  - destruct k; try discriminate. eauto.
  - destruct s; [|discriminate]. destruct r; try discriminate. eauto.
  - destruct d; try discriminate. eauto.
Qed.

Lemma has_data_data : forall e, has_data e = true -> exists d, const_data e = Ok (Some d).
Proof.
  induction e as [k| | | | |s r|b items IH|ext fin body IH|mu v IH|mu| |d|t] using cexpr_ind2;
    intros H; cbn [has_data] in H; try discriminate; cbn [const_data]; eauto.
  - destruct k; try discriminate; eauto.
  - destruct s; [eauto|discriminate].
  - destruct t; [eauto|discriminate].
Qed.

(* an integer-typed size / discriminant expression made of the const_data-supported kinds *)
Theorem int_consumer_no_crash site e :
  int_valued e = true -> exists o, consume site true e = Ok o.
Proof.
  intros H. unfold consume. destruct (get_const_total e) as [v E]. rewrite E. cbn [bind].
  destruct v; eauto.
  destruct (int_valued_data e H) as [n Ed]. rewrite Ed. cbn [bind]. eauto.
Qed.

Theorem comptime_arg_no_crash e :
  has_data e = true -> exists o, comptime_arg e = Ok o.
Proof.
  intros H. unfold comptime_arg, consume. destruct (get_const_total e) as [v E]. rewrite E. cbn [bind].
  destruct v; eauto.
  destruct (has_data_data e H) as [d Ed]. rewrite Ed. cbn [bind]. destruct d; eauto.
Qed.

Theorem global_body_no_crash e : exists o, global_body e = Ok o.
Proof. unfold global_body. destruct (get_const_total e) as [v E]. rewrite E. cbn [bind]. eauto. Qed.

(* ---- full statements and their refutation ------------------------------------------- *)
Definition full_iff : Prop := forall e, wf e = true ->
  exists v, get_const e = Ok v /\ (v = Const <-> IsConst e).
Definition full_no_crash : Prop := forall e, wf e = true -> exists o, comptime_arg e = Ok o.

Lemma full_iff_refuted : ~ full_iff.
Proof.
  intros H. destruct (H (CLit LChar) eq_refl) as [v [E Hv]].
  vm_compute in E. inversion E; subst. destruct Hv as [_ Hv].
  specialize (Hv (IC_lit LChar)). discriminate.
Qed.

Lemma full_no_crash_refuted : ~ full_no_crash.
Proof.
  intros H. destruct (H (CArrayLit true [CLit (LInt 1); CLit (LInt 2)]) eq_refl) as [o E].
  vm_compute in E. discriminate.
Qed.

Lemma crash_witnesses :
  comptime_arg (CArrayLit true [CLit (LInt 1); CLit (LInt 2)]) = Crash SITE_COMPTIME_ARG
  /\ comptime_arg (CLit LBool) = Crash SITE_COMPTIME_ARG
  /\ comptime_arg (CLit LString) = Crash SITE_COMPTIME_ARG
  /\ comptime_arg (CLocal false (Some (CLit LBool))) = Crash SITE_COMPTIME_ARG
  /\ comptime_arg CLambda = Crash SITE_COMPTIME_ARG.
Proof. repeat split; vm_compute; reflexivity. Qed.

Lemma example_ok :
  let e := CLocal false (Some (CGlobal false true (CLocal false (Some (CLit (LInt 3)))))) in
  wf e = true /\ has_char e = false /\ array_len e = Ok (Accepted (DInt 3))
  /\ array_len (CLocal true (Some (CLit (LInt 3)))) = Ok NotConst
  /\ array_len (CLocal false (Some (COther false))) = Ok NotConst
  /\ comptime_arg (CGlobal true true (CLit (LInt 3))) = Ok NotConst.
Proof. repeat split; vm_compute; reflexivity. Qed.

(* ---- multi-file worlds ----------------------------------------------------------------- *)
Lemma const_data_w_denotes w : forall fuel cur e n,
  const_data_w w fuel cur e = Ok (Some (DInt n)) -> denotes_w w cur e n.
Proof.
  induction fuel as [|f IH]; intros cur e n H; [discriminate|].
  destruct e as [k|g|fl g|mu [v|]|s r|d|t]; cbn [const_data_w] in H.
  - inversion H; subst. constructor.
  - destruct (w cur g) as [gd|] eqn:E; [|discriminate].
    destruct (wg_extern gd); [discriminate|]. econstructor; [exact E|]. apply IH. exact H.
  - destruct (w fl g) as [gd|] eqn:E; [|discriminate].
    destruct (wg_extern gd); [discriminate|]. econstructor; [exact E|]. apply IH. exact H.
  - constructor. apply IH. exact H.
  - discriminate.
  - destruct s; inversion H; subst. constructor.
  - inversion H; subst. constructor.
  - destruct t; discriminate.
Qed.

Lemma consume_w_accepted_int w site wi fuel cur e n :
  consume_w w site wi fuel cur e = Ok (Accepted (DInt n)) -> denotes_w w cur e n.
Proof.
  unfold consume_w. destruct (get_const_w w fuel [(cur, e)]) as [v| |]; cbn [bind]; try discriminate.
  destruct v; try discriminate.
  destruct (const_data_w w fuel cur e) as [[d|]| |] eqn:Ed; cbn [bind]; try discriminate.
  destruct d; [intros H; inversion H; subst; apply (const_data_w_denotes w fuel); exact Ed
              | | | ]; destruct wi; discriminate.
Qed.

Theorem world_accepted_array_len_denotes w fuel cur e n :
  array_len_w w fuel cur e = Ok (Accepted (DInt n)) -> denotes_w w cur e n.
Proof. apply consume_w_accepted_int. Qed.
Theorem world_accepted_discriminant_denotes w fuel cur e n :
  discriminant_w w fuel cur e = Ok (Accepted (DInt n)) -> denotes_w w cur e n.
Proof. apply consume_w_accepted_int. Qed.
Theorem world_accepted_comptime_arg_denotes w fuel cur e n :
  comptime_arg_w w fuel cur e = Ok (Accepted (DInt n)) -> denotes_w w cur e n.
Proof. apply consume_w_accepted_int. Qed.

(* denotes_w is a function: the value is unique *)
Lemma denotes_w_fun w : forall cur e n, denotes_w w cur e n -> forall m, denotes_w w cur e m -> n = m.
Proof.
  induction 1; intros m Hm; inversion Hm; subst; auto.
  - rewrite H in *. match goal with X : Some _ = Some _ |- _ => inversion X; subst end. auto.
  - rewrite H in *. match goal with X : Some _ = Some _ |- _ => inversion X; subst end. auto.
Qed.

(* Non-vacuity, and why the file matters: main (file 0) has size = 3; other (file 1) has size = 5
   and buf_len :: size.  `other.buf_len` in main is 5; looking `size` up in main would give 3. *)
Definition demo_world : world := fun f g =>
  match f, g with
  | 0%N, 7%N => Some (mkwg false true (WInt 3))          (* main.size *)
  | 1%N, 7%N => Some (mkwg false true (WInt 5))          (* other.size *)
  | 1%N, 8%N => Some (mkwg false true (WGlobal 7))       (* other.buf_len :: size *)
  | _, _ => None
  end.
Lemma demo_world_ok :
  array_len_w demo_world 10 0 (WMember 1 8) = Ok (Accepted (DInt 5))
  /\ denotes_w demo_world 0 (WMember 1 8) 5
  /\ ~ denotes_w demo_world 0 (WMember 1 8) 3.
Proof.
  split; [vm_compute; reflexivity|].
  assert (D : denotes_w demo_world 0 (WMember 1 8) 5).
  { eapply DW_member; [reflexivity|]. eapply DW_global; [reflexivity|]. constructor. }
  split; [exact D|]. intros H. pose proof (denotes_w_fun _ _ _ _ D _ H). discriminate.
Qed.

(* Sensitivity: a const_data that resolves a plain global name in the file being INFERRED
   ([self_file]) instead of the file the body lives in returns a value the expression does not
   denote (the seeded change `file: self.loc.file()` in the LocalGlobal arm). *)
Fixpoint const_data_w_selfish (w : world) (self_file : N) (fuel : nat) (cur : N) (e : wexpr)
  : result (option cdata) :=
  match fuel with
  | O => OutOfFuel
  | S f =>
    match e with
    | WGlobal g =>
        match w self_file g with
        | Some gd => const_data_w_selfish w self_file f self_file (wg_body gd)
        | None => Crash SITE_NO_GLOBAL
        end
    | WMember file g =>
        match w file g with
        | Some gd => const_data_w_selfish w self_file f file (wg_body gd)
        | None => Crash SITE_NO_GLOBAL
        end
    | WLocal _ (Some v) => const_data_w_selfish w self_file f cur v
    | _ => const_data_w w (S f) cur e
    end
  end.

Lemma selfish_lookup_is_wrong :
  const_data_w_selfish demo_world 0 10 0 (WMember 1 8) = Ok (Some (DInt 3))
  /\ const_data_w demo_world 10 0 (WMember 1 8) = Ok (Some (DInt 5))
  /\ ~ denotes_w demo_world 0 (WMember 1 8) 3.
Proof.
  split; [vm_compute; reflexivity|]. split; [vm_compute; reflexivity|].
  exact (proj2 (proj2 demo_world_ok)).
Qed.
