(* The documented representation rules, proved about the specification
   Spec/CLayout.v for all well-formed types and both pointer widths. *)
From Capy Require Import Common.Util Common.LTy Spec.CLayout.
Local Open Scope N_scope.

Definition pow2_8 (a : N) : Prop := a = 1 \/ a = 2 \/ a = 4 \/ a = 8.

Lemma pow2_8_pos a : pow2_8 a -> a <> 0.
Proof. unfold pow2_8; lia. Qed.

Lemma pow2_8_max a b : pow2_8 a -> pow2_8 b -> pow2_8 (N.max a b).
Proof. intros Ha Hb. destruct (N.max_spec a b) as [[_ ->]|[_ ->]]; auto. Qed.

(* ---- round_up ---------------------------------------------------------- *)
Lemma round_up_spec o a : a <> 0 ->
  o <= round_up o a /\ round_up o a < o + a /\ (a | round_up o a).
Proof.
  intros Ha. unfold round_up.
  pose proof (N.div_mod (o + (a - 1)) a Ha) as D.
  pose proof (N.mod_lt (o + (a - 1)) a Ha) as M.
  set (q := (o + (a - 1)) / a) in *. set (m := (o + (a - 1)) mod a) in *.
  rewrite (N.mul_comm a q) in D.
  repeat split; try lia.
  exists q. reflexivity.
Qed.

Lemma round_up_aligned o a : a <> 0 -> (a | o) -> round_up o a = o.
Proof.
  intros Ha [k ->]. unfold round_up.
  replace (k * a + (a - 1)) with (a - 1 + k * a) by lia.
  rewrite N.div_add by exact Ha. rewrite N.div_small by lia. lia.
Qed.

Lemma round_up_one o : round_up o 1 = o.
Proof. unfold round_up. rewrite N.sub_diag, N.add_0_r, N.div_1_r. lia. Qed.

(* ---- struct fields ------------------------------------------------------- *)
(* [chain cur fl offs fin]: the fields lie in declaration order, each one
   starting at or after the end of the previous one (from [cur]), the last one
   ending at or before [fin]. *)
Fixpoint chain (cur : N) (fl : list (N * N)) (offs : list N) (fin : N) : Prop :=
  match fl, offs with
  | [], [] => cur <= fin
  | f :: r, o :: os => cur <= o /\ chain (o + fst f) r os fin
  | _, _ => False
  end.

Definition aligned_all (fl : list (N * N)) (offs : list N) : Prop :=
  Forall2 (fun f o => (snd f | o)) fl offs.

Lemma c_offsets_chain fl : Forall (fun f => snd f <> 0) fl -> forall cur,
  chain cur fl (fst (c_offsets fl cur)) (snd (c_offsets fl cur)).
Proof.
  induction 1 as [|f r Hf Hr IH]; intros cur; cbn [c_offsets chain fst snd].
  - lia.
  - split. apply round_up_spec; exact Hf. apply IH.
Qed.

Lemma c_offsets_aligned fl : Forall (fun f => snd f <> 0) fl -> forall cur,
  aligned_all fl (fst (c_offsets fl cur)).
Proof.
  induction 1 as [|f r Hf Hr IH]; intros cur; cbn [c_offsets fst snd]; constructor.
  - apply round_up_spec; exact Hf.
  - apply IH.
Qed.

Lemma c_offsets_length fl : forall cur, length (fst (c_offsets fl cur)) = length fl.
Proof. induction fl; intros; cbn [c_offsets fst length]; auto. Qed.

(* the first field is at offset 0 when the start is 0 *)
Lemma c_offsets_first f r : snd f <> 0 -> hd_error (fst (c_offsets (f :: r) 0)) = Some 0.
Proof.
  intros H. cbn [c_offsets fst hd_error]. f_equal.
  apply round_up_aligned; auto. exists 0. lia.
Qed.

(* pointwise reading of [chain]: field i ends before field j > i starts, and
   every field ends within [fin] *)
Lemma chain_le cur fl offs fin : chain cur fl offs fin -> cur <= fin.
Proof.
  revert cur offs. induction fl as [|f r IH]; intros cur [|o os] H; cbn in H; try tauto.
  destruct H as [H1 H2]. apply IH in H2. lia.
Qed.

Lemma chain_nth cur fl offs fin : chain cur fl offs fin ->
  forall i f o, nth_error fl i = Some f -> nth_error offs i = Some o ->
    cur <= o /\ o + fst f <= fin.
Proof.
  revert cur offs. induction fl as [|g r IH]; intros cur [|p os] H i f o Hf Ho; cbn in H; try tauto.
  - destruct i; discriminate.
  - destruct H as [H1 H2]. destruct i as [|i]; cbn in Hf, Ho.
    + inversion Hf; inversion Ho; subst. split; [lia|]. eapply chain_le; eauto.
    + destruct (IH _ _ H2 i f o Hf Ho). lia.
Qed.

Lemma chain_length cur fl offs fin : chain cur fl offs fin -> length fl = length offs.
Proof.
  revert cur offs. induction fl as [|f r IH]; intros cur [|o os] H; cbn in H; try tauto.
  destruct H as [_ H]. cbn [length]. f_equal. eapply IH; eauto.
Qed.

Lemma chain_disjoint cur fl offs fin : chain cur fl offs fin ->
  forall i j fi oi oj, (i < j)%nat ->
    nth_error fl i = Some fi -> nth_error offs i = Some oi -> nth_error offs j = Some oj ->
    oi + fst fi <= oj.
Proof.
  revert cur offs. induction fl as [|g r IH]; intros cur [|p os] H i j fi oi oj Hij Hf Hoi Hoj;
    cbn in H; try tauto.
  - destruct i; discriminate.
  - destruct H as [H1 H2]. destruct j as [|j]; [lia|]. destruct i as [|i]; cbn in Hf, Hoi, Hoj.
    + inversion Hf; inversion Hoi; subst.
      destruct (nth_error r j) as [fj|] eqn:E.
      * destruct (chain_nth _ _ _ _ H2 j fj oj E Hoj). lia.
      * exfalso. apply chain_length in H2. apply nth_error_None in E.
        assert (nth_error os j <> None) as N by congruence. apply nth_error_Some in N. lia.
    + apply (IH _ _ H2 i j fi oi oj); auto. lia.
Qed.

(* ---- alignment ------------------------------------------------------------ *)
Lemma max_align_pow2 fl : Forall (fun f => pow2_8 (snd f)) fl -> pow2_8 (max_align fl).
Proof.
  induction 1; cbn [max_align fold_right]. left; reflexivity.
  apply pow2_8_max; auto.
Qed.

Lemma max_align_ge1 fl : 1 <= max_align fl.
Proof. induction fl; cbn [max_align fold_right]; [lia|]. fold (max_align fl). lia. Qed.

Lemma prim_int_cases pw w : ptr_width pw -> wf_int w = true ->
  let s := prim_int pw w in (s = 1 \/ s = 2 \/ s = 4 \/ s = 8 \/ s = 16).
Proof.
  intros [-> | ->] H; unfold wf_int in H;
  repeat (apply orb_true_iff in H; destruct H as [H|H]); apply N.eqb_eq in H; subst w;
  vm_compute; tauto.
Qed.

Lemma prim_float_cases pw w : ptr_width pw -> wf_float w = true ->
  let s := prim_int pw w in (s = 4 \/ s = 8).
Proof.
  intros [-> | ->] H; unfold wf_float in H;
  repeat (apply orb_true_iff in H; destruct H as [H|H]); apply N.eqb_eq in H; subst w;
  vm_compute; tauto.
Qed.

Lemma min8_pow2 s : (s = 1 \/ s = 2 \/ s = 4 \/ s = 8 \/ s = 16) -> pow2_8 (N.min s 8).
Proof. unfold pow2_8. intros [->|[->|[->|[->| ->]]]]; vm_compute; tauto. Qed.

Lemma forallb_Forall_snd {A} (p : A -> bool) (ms : list (N * A)) :
  forallb (fun m => p (snd m)) ms = true -> Forall (fun m => p (snd m) = true) ms.
Proof. rewrite forallb_forall, Forall_forall. auto. Qed.

Lemma Forall_impl2 {A} (P Q R : A -> Prop) l :
  Forall P l -> Forall Q l -> (forall x, P x -> Q x -> R x) -> Forall R l.
Proof. intros HP HQ H. induction HP; inversion HQ; subst; constructor; auto. Qed.

Theorem ialign_pow2_le8 pw : ptr_width pw -> forall t, wf t -> pow2_8 (ialign pw t).
Proof.
  intros Hpw. unfold wf, ialign.
  assert (Hp : pow2_8 (N.min (pw / 8) 8)) by (destruct Hpw as [-> | ->]; vm_compute; tauto).
  assert (Hany : pow2_8 (N.max 4 (N.min (pw / 8) 8))) by (destruct Hpw as [-> | ->]; vm_compute; tauto).
  induction t using lty_ind'; intros Hwf; cbn [ideal snd wfb] in *;
    try (left; reflexivity); try exact Hp; auto.
  - apply min8_pow2. apply prim_int_cases; auto.
  - apply min8_pow2. apply prim_int_cases; auto.
  - apply min8_pow2. destruct (prim_float_cases pw w Hpw Hwf) as [-> | ->]; tauto.
  - right; right; left; reflexivity.
  - apply max_align_pow2. apply forallb_Forall_snd in Hwf.
    rewrite Forall_map. eapply Forall_impl2; [exact H | exact Hwf | auto].
  - apply max_align_pow2. apply forallb_Forall_snd in Hwf.
    rewrite Forall_map. eapply Forall_impl2; [exact H | exact Hwf | auto].
  - apply max_align_pow2. rewrite forallb_forall in Hwf. rewrite Forall_map.
    rewrite Forall_forall in *. auto.
  - destruct (is_non_zero t); cbn [snd]; auto.
  - apply andb_true_iff in Hwf. destruct Hwf. apply pow2_8_max; auto.
Qed.

Lemma ideal_fields_align_pos pw ms : ptr_width pw ->
  forallb (fun m => wfb (snd m)) ms = true ->
  Forall (fun f => snd f <> 0) (ideal_fields pw ms).
Proof.
  intros Hpw H. unfold ideal_fields. rewrite Forall_map. apply forallb_Forall_snd in H.
  eapply Forall_impl; [|exact H]. intros m Hm. apply pow2_8_pos.
  apply (ialign_pow2_le8 pw Hpw). exact Hm.
Qed.

(* ---- stride ------------------------------------------------------------------ *)
Theorem istride_spec pw : ptr_width pw -> forall t, wf t ->
  (ialign pw t | istride pw t) /\ isize pw t <= istride pw t < isize pw t + ialign pw t.
Proof.
  intros Hpw t Hwf. unfold istride.
  destruct (round_up_spec (isize pw t) (ialign pw t)) as (A & B & D).
  - apply pow2_8_pos, ialign_pow2_le8; auto.
  - auto.
Qed.

(* ---- pointers ---------------------------------------------------------------- *)
Lemma non_zero_ideal pw t : is_non_zero t = true -> ideal pw t = (pw / 8, N.min (pw / 8) 8).
Proof.
  unfold is_non_zero, is_pointer.
  induction t using lty_ind'; cbn [absolute_ty ideal]; intros Hnz; try discriminate; auto.
Qed.

Theorem optional_pointer_sized pw t : is_non_zero t = true ->
  isize pw (LOptional t) = pw / 8 /\ idiscr pw (LOptional t) = None.
Proof.
  intros H. unfold isize, idiscr. cbn [ideal absolute_ty]. rewrite H.
  rewrite non_zero_ideal by exact H. split; reflexivity.
Qed.

(* ---- structs -------------------------------------------------------------------- *)
Theorem struct_fields_spec pw ms : ptr_width pw ->
  forallb (fun m => wfb (snd m)) ms = true ->
  let fl := ideal_fields pw ms in
  let offs := c_offsetof fl in
  aligned_all fl offs /\ chain 0 fl offs (snd (c_offsets fl 0)) /\ length offs = length ms.
Proof.
  intros Hpw Hwf fl offs. pose proof (ideal_fields_align_pos pw ms Hpw Hwf) as Hpos.
  repeat split.
  - apply c_offsets_aligned; auto.
  - apply c_offsets_chain; auto.
  - unfold offs, c_offsetof. rewrite c_offsets_length. unfold fl, ideal_fields. apply map_length.
Qed.

(* C's sizeof is our stride, C's offsetof our offsets, C's alignof our align *)
Theorem c_layout_agrees pw u ms :
  c_offsetof (ideal_fields pw ms) = match ioffsets pw (LStruct u ms) with Some o => o | None => [] end /\
  c_sizeof (ideal_fields pw ms) = istride pw (LStruct u ms) /\
  c_alignof (ideal_fields pw ms) = ialign pw (LStruct u ms).
Proof. repeat split. Qed.

(* ---- tagged unions ----------------------------------------------------------------- *)
Lemma max_size_ge fl f : In f fl -> fst f <= max_size fl.
Proof.
  induction fl as [|g r IH]; cbn [In max_size fold_right]; [tauto|]. fold (max_size r).
  intros [->|H]; [lia|]. apply IH in H. lia.
Qed.

Lemma max_size_in fl : fl <> [] -> exists f, In f fl /\ fst f = max_size fl.
Proof.
  induction fl as [|g r IH]; [congruence|]. intros _. cbn [max_size fold_right]. fold (max_size r).
  destruct r as [|h r'].
  - exists g. cbn. split; auto. lia.
  - destruct IH as (f & Hin & Hf); [congruence|].
    destruct (N.max_spec (fst g) (max_size (h :: r'))) as [[_ E]|[_ E]]; rewrite E.
    + exists f. split; [right; exact Hin | exact Hf].
    + exists g. split; [left|]; reflexivity.
Qed.
