(* C10 — proofs about Model/IndexCheckFixed.v (the lowering with the fix candidates applied) *)
From Capy Require Import Common.Util Model.IndexCheck Model.IndexCheckFixed Spec.IndexCheckSpec
  Proofs.IndexCheckProofs.
Open Scope Z_scope.

(* ------------------------------------------------------------------ conservativity *)
Theorem compf_ff : forall rd e nl, compf false false rd e nl = comp rd e nl.
Proof.
  intros rd e. induction e as [t v|s IH it mk iv]; intros nl; [reflexivity|].
  cbn [compf comp]. destruct (type_of (EIndex s it mk iv)) as [et|]; [|reflexivity].
  destruct (type_of s) as [st|]; [|reflexivity].
  cbn [negb andb]. destruct (is_zero_sized et) eqn:Hz; [reflexivity|].
  rewrite IH. destruct (comp rd s false) as [[t1 o]| |]; cbn [bind]; try reflexivity.
  destruct o as [[v0|]|]; cbn [src_val]; try reflexivity.
Qed.

Theorem stmt_runf_ff : forall rd rd8 s, stmt_runf false false rd rd8 s = stmt_run rd rd8 s.
Proof.
  intros rd rd8 s. destruct s; cbn [stmt_runf stmt_run]; rewrite ?compf_ff; reflexivity.
Qed.

Theorem execf_ff : forall rd rd8 p, execf false false rd rd8 p = exec rd rd8 p.
Proof.
  intros rd rd8 p. induction p as [|s r IH]; [reflexivity|].
  cbn [execf exec]. rewrite stmt_runf_ff, IH. reflexivity.
Qed.

Lemma known_class_f_ff : forall it et, known_class_f false false it et = known_class it et.
Proof. reflexivity. Qed.

Lemma known_class_f_tt : forall it et, known_class_f true true it et = None.
Proof. reflexivity. Qed.

(* ------------------------------------------------------------------ one index step *)
Lemma compf_index_eq : forall fw fz rd s it mk iv nl st t1 ov v0 td th len base m et,
  type_of s = Some st ->
  compf fw fz rd s false = Ok (t1, Val ov) ->
  src_val fz ov = Some v0 ->
  arr_view rd st v0 = Some (td, th, len, base, m, et) ->
  negb fz && is_zero_sized et = false ->
  compf fw fz rd (EIndex s it mk iv) nl =
    (let naive := cast_to_usize it iv in
     let good := if fw && (64 <? ibits it) then iv <? len else naive <? len in
     let pre := t1 ++ td ++ marker mk ++ th in
     if good then
       (if is_zero_sized et then Ok (pre, Val None)
        else if nl || is_aggregate et
        then Ok (pre, Val (Some (elem_addr base naive et)))
        else Ok (pre ++ [Load (elem_addr base naive et) (stride et)],
                 Val (Some (rd (elem_addr base naive et)))))
     else Ok (pre ++ fail_block m, Aborted)).
Proof.
  intros fw fz rd s it mk iv nl st t1 ov v0 td th len base m et Hs Hc Hsv Hv Hz.
  pose proof (arr_view_elem_of _ _ _ _ _ _ _ _ _ Hv) as He.
  cbn [compf type_of]. rewrite Hs, He, Hz, Hc. cbn [bind]. rewrite Hsv, Hv. reflexivity.
Qed.

(* the full out-of-range statement, for whatever classes the applied fixes leave *)
Theorem oob_no_access_f : forall fw fz rd s it mk iv nl st t1 ov v0 td th len base m et,
  type_of s = Some st ->
  compf fw fz rd s false = Ok (t1, Val ov) ->
  src_val fz ov = Some v0 ->
  arr_view rd st v0 = Some (td, th, len, base, m, et) ->
  idx_ty_accepted it = true -> 0 <= iv < 2 ^ ibits it ->
  known_class_f fw fz it et = None ->
  len <= ival it iv ->
  compf fw fz rd (EIndex s it mk iv) nl = Ok (t1 ++ td ++ marker mk ++ th ++ fail_block m, Aborted).
Proof.
  intros fw fz rd s it mk iv nl st t1 ov v0 td th len base m et Hs Hc Hsv Hv Ha Hiv Hk Hoob.
  unfold known_class_f in Hk.
  destruct (negb fz && is_zero_sized et) eqn:Hz; [discriminate|].
  destruct (negb fw && (64 <? ibits it)) eqn:Hw; [discriminate|].
  unfold idx_ty_accepted in Ha. apply negb_true_iff in Ha.
  rewrite (compf_index_eq _ _ _ _ _ _ _ _ _ _ _ _ _ _ _ _ _ _ Hs Hc Hsv Hv Hz). cbv zeta.
  rewrite ival_unsigned in Hoob by exact Ha.
  assert ((if fw && (64 <? ibits it) then iv <? len else cast_to_usize it iv <? len) = false) as ->.
  { destruct (64 <? ibits it) eqn:Hb.
    - destruct fw; [|discriminate Hw]. cbn [andb]. apply Z.ltb_ge. lia.
    - rewrite andb_false_r. apply Z.ltb_ge in Hb.
      pose proof (pow_le_two64 _ Hb). rewrite cast_small by lia. apply Z.ltb_ge. lia. }
  rewrite <- !app_assoc. reflexivity.
Qed.

(* with both fixes: no exception at all *)
Theorem oob_no_access_fixed_full : forall rd s it mk iv nl st t1 ov v0 td th len base m et,
  type_of s = Some st ->
  compf true true rd s false = Ok (t1, Val ov) ->
  src_val true ov = Some v0 ->
  arr_view rd st v0 = Some (td, th, len, base, m, et) ->
  idx_ty_accepted it = true -> 0 <= iv < 2 ^ ibits it ->
  len <= ival it iv ->
  compf true true rd (EIndex s it mk iv) nl =
    Ok (t1 ++ td ++ marker mk ++ th ++ fail_block m, Aborted).
Proof.
  intros. eapply oob_no_access_f; eauto.
Qed.

Lemma good_inrange : forall fw it iv len,
  0 <= iv < len -> len <= two64 ->
  (if fw && (64 <? ibits it) then iv <? len else cast_to_usize it iv <? len) = true.
Proof.
  intros fw it iv len Hi Hl.
  destruct (fw && (64 <? ibits it)); [apply Z.ltb_lt; lia|].
  rewrite cast_small by lia. apply Z.ltb_lt; lia.
Qed.

Theorem inbounds_exact_elem_f : forall fw fz rd s it mk iv nl st t1 ov v0 td th len base m et,
  type_of s = Some st ->
  compf fw fz rd s false = Ok (t1, Val ov) ->
  src_val fz ov = Some v0 ->
  arr_view rd st v0 = Some (td, th, len, base, m, et) ->
  is_zero_sized et = false ->
  0 <= iv < 2 ^ ibits it ->
  0 <= ival it iv < len ->
  0 <= base -> 0 < stride et -> base + len * stride et <= two64 ->
  let addr := base + ival it iv * stride et in
  base <= addr /\ addr + stride et <= base + len * stride et /\
  compf fw fz rd (EIndex s it mk iv) nl =
    (if nl || is_aggregate et
     then Ok (t1 ++ td ++ marker mk ++ th, Val (Some addr))
     else Ok (t1 ++ td ++ marker mk ++ th ++ [Load addr (stride et)], Val (Some (rd addr)))).
Proof.
  intros fw fz rd s it mk iv nl st t1 ov v0 td th len base m et Hs Hc Hsv Hv Hz Hiv Hin Hb Hst Hfit addr.
  assert (ival it iv = iv) as Hi by (apply ival_nonneg_eq; lia).
  subst addr. rewrite Hi in *.
  destruct (elem_addr_exact base iv len et Hin Hb Hst Hfit) as [Ha [Hlo Hhi]].
  split; [exact Hlo|]. split; [exact Hhi|].
  assert (negb fz && is_zero_sized et = false) as Hz' by (rewrite Hz; apply andb_false_r).
  rewrite (compf_index_eq _ _ _ _ _ _ _ _ _ _ _ _ _ _ _ _ _ _ Hs Hc Hsv Hv Hz'). cbv zeta.
  assert (len <= two64) by nia.
  rewrite good_inrange by lia. rewrite Hz.
  rewrite cast_small by lia. rewrite Ha. rewrite <- !app_assoc. reflexivity.
Qed.

(* fz: an in-range index into zero-sized elements is evaluated and checked, touches nothing *)
Theorem inbounds_zero_sized_f : forall fw rd s it mk iv nl st t1 ov v0 td th len base m et,
  type_of s = Some st ->
  compf fw true rd s false = Ok (t1, Val ov) ->
  src_val true ov = Some v0 ->
  arr_view rd st v0 = Some (td, th, len, base, m, et) ->
  is_zero_sized et = true ->
  0 <= iv < len -> len <= two64 ->
  compf fw true rd (EIndex s it mk iv) nl = Ok (t1 ++ td ++ marker mk ++ th, Val None).
Proof.
  intros fw rd s it mk iv nl st t1 ov v0 td th len base m et Hs Hc Hsv Hv Hz Hin Hl.
  rewrite (compf_index_eq _ _ _ _ _ _ _ _ _ _ _ _ _ _ _ _ _ _ Hs Hc Hsv Hv eq_refl). cbv zeta.
  rewrite good_inrange by lia. rewrite Hz. reflexivity.
Qed.

(* ------------------------------------------------------------------ writes *)
Theorem write_oob_no_store_f : forall fw fz rd rd8 s it mk iv vm st t1 ov v0 td th len base m et,
  type_of s = Some st ->
  compf fw fz rd s false = Ok (t1, Val ov) ->
  src_val fz ov = Some v0 ->
  arr_view rd st v0 = Some (td, th, len, base, m, et) ->
  idx_ty_accepted it = true -> 0 <= iv < 2 ^ ibits it ->
  known_class_f fw fz it et = None ->
  len <= ival it iv ->
  stmt_runf fw fz rd rd8 (SWrite (EIndex s it mk iv) vm) =
    Ok (t1 ++ td ++ marker mk ++ th ++ fail_block m, true).
Proof.
  intros fw fz rd rd8 s it mk iv vm st t1 ov v0 td th len base m et Hs Hc Hsv Hv Ha Hiv Hk Hoob.
  pose proof (arr_view_elem_of _ _ _ _ _ _ _ _ _ Hv) as He.
  cbn [stmt_runf].
  rewrite (oob_no_access_f _ _ _ _ _ _ _ true _ _ _ _ _ _ _ _ _ _ Hs Hc Hsv Hv Ha Hiv Hk Hoob).
  cbn [type_of]. rewrite Hs, He. reflexivity.
Qed.

Theorem write_exact_elem_f : forall fw fz rd rd8 s it mk iv vm st t1 ov v0 td th len base m et,
  type_of s = Some st ->
  compf fw fz rd s false = Ok (t1, Val ov) ->
  src_val fz ov = Some v0 ->
  arr_view rd st v0 = Some (td, th, len, base, m, et) ->
  is_zero_sized et = false ->
  0 <= iv < 2 ^ ibits it ->
  0 <= ival it iv < len ->
  0 <= base -> 0 < stride et -> base + len * stride et <= two64 ->
  stmt_runf fw fz rd rd8 (SWrite (EIndex s it mk iv) vm) =
    Ok (t1 ++ td ++ marker mk ++ th ++ marker vm ++
        [Store (base + ival it iv * stride et) (stride et)], false).
Proof.
  intros fw fz rd rd8 s it mk iv vm st t1 ov v0 td th len base m et Hs Hc Hsv Hv Hz Hiv Hin Hb Hst Hfit.
  pose proof (arr_view_elem_of _ _ _ _ _ _ _ _ _ Hv) as He.
  destruct (inbounds_exact_elem_f fw fz rd s it mk iv true st t1 ov v0 td th len base m et
              Hs Hc Hsv Hv Hz Hiv Hin Hb Hst Hfit) as [_ [_ Hcomp]].
  cbn [stmt_runf]. rewrite Hcomp. cbn [orb type_of]. rewrite Hs, He. cbn [bind].
  rewrite <- !app_assoc. reflexivity.
Qed.

Theorem execf_abort_stops : forall fw fz rd rd8 p1 s p2 t1 t,
  execf fw fz rd rd8 p1 = Ok (t1, false) ->
  stmt_runf fw fz rd rd8 s = Ok (t, true) ->
  execf fw fz rd rd8 (p1 ++ s :: p2) = Ok (t1 ++ t, true).
Proof.
  intros fw fz rd rd8 p1. induction p1 as [|a p1 IH]; intros s p2 t1 t H1 Hs.
  - cbn [execf] in H1. inversion H1; subst. cbn [app execf]. rewrite Hs. reflexivity.
  - cbn [app execf] in *.
    destruct (stmt_runf fw fz rd rd8 a) as [[ta ba]| |]; cbn [bind] in *; try discriminate.
    cbn [fst snd] in *. destruct ba; [inversion H1|].
    destruct (execf fw fz rd rd8 p1) as [[tb bb]| |] eqn:E; cbn [bind] in *; try discriminate.
    cbn [fst snd] in *. inversion H1; subst.
    rewrite (IH s p2 tb t eq_refl Hs). cbn [bind fst snd]. rewrite app_assoc. reflexivity.
Qed.

(* ------------------------------------------------------------------ nested fixed arrays *)
Lemma compf_index_aborted : forall fw fz rd s it mk iv nl t u tr,
  type_of s = Some t -> elem_of t = Some u -> is_zero_sized u = false ->
  compf fw fz rd s false = Ok (tr, Aborted) ->
  compf fw fz rd (EIndex s it mk iv) nl = Ok (tr, Aborted).
Proof.
  intros fw fz rd s it mk iv nl t u tr Hs He Hz Hc.
  cbn [compf type_of]. rewrite Hs, He, Hz, andb_false_r, Hc. reflexivity.
Qed.

Lemma chain_aborted_f : forall fw fz rd r s it mk iv tr t nl,
  type_of s = Some t -> compf fw fz rd s false = Ok (tr, Aborted) ->
  is_zero_sized t = false -> shape_ok t ((it, mk, iv) :: r) ->
  compf fw fz rd (chain (EIndex s it mk iv) r) nl = Ok (tr, Aborted).
Proof.
  intros fw fz rd r. induction r as [|[[it2 mk2] iv2] r IH]; intros s it mk iv tr t nl Hs Hc Hz Hsh;
    cbn [shape_ok] in Hsh; destruct t as [| |n u| |]; try contradiction;
    destruct Hsh as [_ [_ [_ [_ Hr]]]];
    cbn [is_zero_sized] in Hz; apply orb_false_iff in Hz; destruct Hz as [_ Hzu].
  - cbn [chain]. exact (compf_index_aborted fw fz rd s it mk iv nl _ u tr Hs eq_refl Hzu Hc).
  - cbn [chain]. eapply (IH (EIndex s it mk iv) it2 mk2 iv2 tr u nl).
    + cbn [type_of]. rewrite Hs. reflexivity.
    + exact (compf_index_aborted fw fz rd s it mk iv false _ u tr Hs eq_refl Hzu Hc).
    + exact Hzu.
    + exact Hr.
Qed.

Lemma known_none_narrow : forall fw fz it et,
  is_zero_sized et = false -> ibits it <= 64 -> known_class_f fw fz it et = None.
Proof.
  intros fw fz it et Hz Hb. unfold known_class_f. rewrite Hz, andb_false_r.
  assert (64 <? ibits it = false) as -> by (apply Z.ltb_ge; exact Hb).
  rewrite andb_false_r. reflexivity.
Qed.

Lemma chain_gen_f : forall fw fz rd r s it mk iv t1 a t nl,
  type_of s = Some t -> compf fw fz rd s false = Ok (t1, Val (Some a)) ->
  is_zero_sized t = false -> shape_ok t ((it, mk, iv) :: r) ->
  0 <= a -> a + stride t <= two64 ->
  compf fw fz rd (chain (EIndex s it mk iv) r) nl =
    Ok (pre_tr t1 (walk_result rd nl (walk t a ((it, mk, iv) :: r)))).
Proof.
  intros fw fz rd r. induction r as [|[[it2 mk2] iv2] r IH]; intros s it mk iv t1 a t nl Hs Hc Hz Hsh Ha Hfit.
  - pose proof Hsh as Hsh0.
    cbn [shape_ok] in Hsh. destruct t as [| |n u| |]; try contradiction.
    destruct Hsh as [Hu [Hb [Hiv [Hn Hleaf]]]].
    cbn [is_zero_sized] in Hz. apply orb_false_iff in Hz. destruct Hz as [_ Hzu].
    cbn [shape_ok] in Hleaf. cbn [stride] in Hfit.
    pose proof (arr_view_fixed rd n u a Hn) as Hv.
    assert (idx_ty_accepted it = true) as Hacc by (unfold idx_ty_accepted; rewrite Hu; reflexivity).
    cbn [chain walk]. rewrite (ival_unsigned it iv Hu).
    destruct (iv <? n) eqn:E.
    + apply Z.ltb_lt in E.
      assert (0 <= ival it iv < n) as Hin by (rewrite ival_unsigned by exact Hu; lia).
      destruct (inbounds_exact_elem_f fw fz rd s it mk iv nl _ t1 (Some a) a [] [] n a MArrayOob u
                  Hs Hc eq_refl Hv Hzu Hiv Hin Ha Hleaf Hfit) as [_ [_ Hcomp]].
      rewrite Hcomp. rewrite (ival_unsigned it iv Hu).
      cbn [walk_result app]. unfold pre_tr.
      destruct (nl || is_aggregate u); cbn [fst snd app]; rewrite ?app_nil_r; try reflexivity.
    + apply Z.ltb_ge in E.
      assert (n <= ival it iv) as Ho by (rewrite ival_unsigned by exact Hu; lia).
      rewrite (oob_no_access_f fw fz rd s it mk iv nl _ t1 (Some a) a [] [] n a MArrayOob u
                 Hs Hc eq_refl Hv Hacc Hiv (known_none_narrow fw fz it u Hzu Hb) Ho).
      cbn [walk_result app]. unfold pre_tr. cbn [fst snd]. reflexivity.
  - pose proof Hsh as Hsh0.
    cbn [shape_ok] in Hsh. destruct t as [| |n u| |]; try contradiction.
    destruct Hsh as [Hu [Hb [Hiv [Hn Hrest]]]].
    change (shape_ok u ((it2, mk2, iv2) :: r)) in Hrest.
    cbn [is_zero_sized] in Hz. apply orb_false_iff in Hz. destruct Hz as [_ Hzu].
    pose proof (shape_stride_pos _ _ Hrest Hzu) as Hsu.
    cbn [stride] in Hfit.
    pose proof (arr_view_fixed rd n u a Hn) as Hv.
    assert (idx_ty_accepted it = true) as Hacc by (unfold idx_ty_accepted; rewrite Hu; reflexivity).
    assert (type_of (EIndex s it mk iv) = Some u) as Hty.
    { cbn [type_of]. rewrite Hs. reflexivity. }
    assert (is_aggregate u = true) as Hagg.
    { cbn [shape_ok] in Hrest. destruct u; try contradiction; reflexivity. }
    cbn [chain].
    rewrite walk_cons. rewrite (ival_unsigned it iv Hu).
    destruct (iv <? n) eqn:E.
    + apply Z.ltb_lt in E.
      assert (0 <= ival it iv < n) as Hin by (rewrite ival_unsigned by exact Hu; lia).
      destruct (inbounds_exact_elem_f fw fz rd s it mk iv false _ t1 (Some a) a [] [] n a MArrayOob u
                  Hs Hc eq_refl Hv Hzu Hiv Hin Ha Hsu Hfit) as [Hlo [Hhi Hcomp]].
      rewrite (ival_unsigned it iv Hu) in *.
      rewrite Hagg in Hcomp. cbn [orb app] in Hcomp. rewrite app_nil_r in Hcomp.
      assert (a + iv * stride u + stride u <= two64) as Hfit' by lia.
      rewrite (IH (EIndex s it mk iv) it2 mk2 iv2 (t1 ++ marker mk) (a + iv * stride u) u nl
                 Hty Hcomp Hzu Hrest ltac:(lia) Hfit').
      destruct (walk u (a + iv * stride u) ((it2, mk2, iv2) :: r)) as [tr o].
      unfold pre_tr. destruct o as [[a' et]|]; cbn [walk_result].
      * destruct (nl || is_aggregate et); cbn [fst snd]; rewrite <- !app_assoc; reflexivity.
      * cbn [fst snd]. rewrite <- !app_assoc. reflexivity.
    + apply Z.ltb_ge in E.
      assert (n <= ival it iv) as Ho by (rewrite ival_unsigned by exact Hu; lia).
      pose proof (oob_no_access_f fw fz rd s it mk iv false _ t1 (Some a) a [] [] n a MArrayOob u
                    Hs Hc eq_refl Hv Hacc Hiv (known_none_narrow fw fz it u Hzu Hb) Ho) as Hab.
      rewrite (chain_aborted_f fw fz rd r (EIndex s it mk iv) it2 mk2 iv2 _ u nl Hty Hab Hzu Hrest).
      cbn [walk_result app]. unfold pre_tr. cbn [fst snd]. reflexivity.
Qed.

Theorem nested_levels_f : forall fw fz rd ix t a nl,
  ix <> [] -> is_zero_sized t = false -> shape_ok t ix ->
  0 <= a -> a + stride t <= two64 ->
  compf fw fz rd (chain (ERoot t a) ix) nl = Ok (walk_result rd nl (walk t a ix)).
Proof.
  intros fw fz rd ix t a nl Hne Hz Hsh Ha Hfit.
  destruct ix as [|[[it mk] iv] r]; [congruence|].
  cbn [chain].
  rewrite (chain_gen_f fw fz rd r (ERoot t a) it mk iv [] a t nl eq_refl eq_refl Hz Hsh Ha Hfit).
  unfold pre_tr. cbn [app]. destruct (walk_result rd nl _); reflexivity.
Qed.

(* ------------------------------------------------------------------ the old witnesses are repaired *)
Example wide_witness_fixed :
  compf true false (fun _ => 0) (EIndex (ERoot (TArr 4 (TInt 4)) 4096) u128 None (two64 + 1)) false
  = Ok ([Print MArrayOob; Exit 1], Aborted).
Proof. vm_compute. reflexivity. Qed.

Example zst_witness_fixed :
  compf false true (fun _ => 0) (EIndex (ERoot (TArr 2 TZst) 4096) usize (Some 5%N) 7) false
  = Ok ([Print (MMarker 5); Print MArrayOob; Exit 1], Aborted).
Proof. vm_compute. reflexivity. Qed.

(* finding C10-4: a[1][0] with a : [][0]i32 -- the inner value is None, the outer check still fails *)
Example zero_len_inner_fixed :
  compf false true (fun a => if a =? 8192 then 2 else if a =? 8200 then 12288 else 0)
        (EIndex (EIndex (ERoot (TSlice (TArr 0 (TInt 4))) 8192) usize None 1) usize None 0) false
  = Ok ([Load 8192 8; Load 8200 8; Print MArrayOob; Exit 1], Aborted).
Proof. vm_compute. reflexivity. Qed.

(* ------------------------------------------------------------------ the wide compare branch *)
(* An index type wider than usize takes the branch `icmp ult index, uextend(len)`: the compare is made in
   the index's own width on the untruncated value.  In particular an index EQUAL to the length aborts
   (an off-by-one `ule` in that branch would let it through), for every such type and every length. *)
Theorem wide_index_eq_len_aborts : forall rd s it mk nl st t1 ov v0 td th len base m et,
  type_of s = Some st ->
  compf true true rd s false = Ok (t1, Val ov) ->
  src_val true ov = Some v0 ->
  arr_view rd st v0 = Some (td, th, len, base, m, et) ->
  isigned it = false -> 64 < ibits it -> 0 <= len < 2 ^ ibits it ->
  compf true true rd (EIndex s it mk len) nl =
    Ok (t1 ++ td ++ marker mk ++ th ++ fail_block m, Aborted).
Proof.
  intros rd s it mk nl st t1 ov v0 td th len base m et Hs Hc Hsv Hv Hu Hw Hl.
  eapply oob_no_access_fixed_full; eauto.
  - unfold idx_ty_accepted. rewrite Hu. reflexivity.
  - rewrite ival_unsigned by exact Hu. lia.
Qed.

(* the compare really is the one of the wide branch: for a wide index the verdict is [iv <? len] on the
   full-width value, for a narrow one [cast_to_usize it iv <? len] *)
Lemma compf_branches : forall fz rd s it mk iv nl st t1 ov v0 td th len base m et,
  type_of s = Some st ->
  compf true fz rd s false = Ok (t1, Val ov) ->
  src_val fz ov = Some v0 ->
  arr_view rd st v0 = Some (td, th, len, base, m, et) ->
  negb fz && is_zero_sized et = false ->
  (if 64 <? ibits it then iv <? len else cast_to_usize it iv <? len) = false ->
  compf true fz rd (EIndex s it mk iv) nl = Ok (t1 ++ td ++ marker mk ++ th ++ fail_block m, Aborted).
Proof.
  intros fz rd s it mk iv nl st t1 ov v0 td th len base m et Hs Hc Hsv Hv Hz Hg.
  rewrite (compf_index_eq _ _ _ _ _ _ _ _ _ _ _ _ _ _ _ _ _ _ Hs Hc Hsv Hv Hz). cbv zeta.
  cbn [andb]. rewrite Hg. rewrite <- !app_assoc. reflexivity.
Qed.
