(* C12 law 3 (weak-replaceable => fits) for ALL types outside the known class
   [known_weak_fit]; the supporting fact that is_functionally_equivalent_to
   implies can_fit_into for nominal-free found types. *)
From Capy Require Import Common.Util Common.Ty.
From Capy Require Import Model.TyRel Model.ExpectMatch Spec.TyLaws Proofs.TyRelBasics.
From Coq Require Import Sumbool.
Local Arguments ty_eqb : simpl never.
Local Arguments N.eqb : simpl never.
Local Arguments N.leb : simpl never.
Local Arguments N.ltb : simpl never.
Local Arguments TyRel.members_rel : simpl never.
Local Arguments params_eqb : simpl never.

Section WithFixes.
Variable fx : fixes.
Notation fit := (TyRel.fit fx).
Notation weak := (TyRel.weak fx).
Notation feq := (TyRel.feq fx).
Notation cast := (TyRel.cast fx).
Notation has_semantics_of := (TyRel.has_semantics_of fx).
Notation tmax := (TyRel.tmax fx).
Notation accepts := (TyLaws.accepts fx).
Notation known_weak_fit := (TyLaws.known_weak_fit fx).
Notation known_max := (TyLaws.known_max fx).
Notation max_accepts := (TyLaws.max_accepts fx).
Notation ntarget := (TyLaws.ntarget fx).

Definition weak_head (a : ty) : bool :=
  match a with
  | IInt 0 | UInt 0 | TFloat 0 | AnonArray _ _ | Slice _ | Ptr _ _ | Struct _ _ | AnonStruct _
  | Optional _ | PolyFn _ => true
  | _ => false
  end.

Lemma weak_head_of : forall e a, weak a e = true -> weak_head a = true.
Proof.
  induction e using ty_ind'; intros a Hw; destruct a; try reflexivity;
    try (match goal with
         | |- weak_head (IInt ?w) = _ => destruct w as [|?]
         | |- weak_head (UInt ?w) = _ => destruct w as [|?]
         | |- weak_head (TFloat ?w) = _ => destruct w as [|?]
         end; try reflexivity);
    cbn [TyRel.weak] in Hw; try discriminate; eauto.
Qed.


(* ---- list facts ---------------------------------------------------------- *)
Lemma existsb_map_fst {V} n (r : list (N * V)) :
  existsb (N.eqb n) (map fst r) = has_key n r.
Proof. unfold has_key. induction r as [|[a b] r IH]; cbn; [reflexivity|]. rewrite IH. reflexivity. Qed.

Lemma lookup_last_in {V R} (k : V -> R) n v ms :
  nodupb (map fst ms) = true -> In (n, v) ms -> lookup_last k n ms = Some (k v).
Proof.
  induction ms as [|[n' v'] r IH]; cbn [lookup_last map fst nodupb In]; [tauto|].
  intros Hd [E|Hin]; apply andb_true_iff in Hd as [Hn Hd].
  - inversion E; subst.
    assert (Hnone : lookup_last k n r = None).
    { apply lookup_last_none. rewrite <- existsb_map_fst. apply negb_true_iff. exact Hn. }
    rewrite Hnone, N.eqb_refl. reflexivity.
  - rewrite (IH Hd Hin). reflexivity.
Qed.

Lemma all2_length {A B} (R : A -> B -> bool) l1 : forall l2,
  all2 R l1 l2 = true -> length l1 = length l2.
Proof.
  induction l1 as [|x r IH]; intros [|y r2]; cbn; try discriminate; auto.
  intros H. apply andb_true_iff in H as [_ H]. f_equal. auto.
Qed.

Lemma all2_in_l {A B} (R : A -> B -> bool) l1 : forall l2,
  all2 R l1 l2 = true -> forall p, In p l1 -> exists q, In q l2 /\ R p q = true.
Proof.
  induction l1 as [|x r IH]; intros [|y r2]; cbn; try discriminate; try tauto.
  intros H p [<-|Hin]; apply andb_true_iff in H as [H1 H2].
  - exists y. auto.
  - destruct (IH _ H2 _ Hin) as [q [Hq HR]]. exists q. auto.
Qed.

Lemma all2_in_r {A B} (R : A -> B -> bool) l1 : forall l2,
  all2 R l1 l2 = true -> forall q, In q l2 -> exists p, In p l1 /\ R p q = true.
Proof.
  induction l1 as [|x r IH]; intros [|y r2]; cbn; try discriminate; try tauto.
  intros H q [<-|Hin]; apply andb_true_iff in H as [H1 H2].
  - exists x. auto.
  - destruct (IH _ H2 _ Hin) as [p [Hp HR]]. exists p. auto.
Qed.

Lemma has_key_in {V} n (ms : list (N * V)) v : In (n, v) ms -> has_key n ms = true.
Proof.
  unfold has_key. intros H. apply existsb_exists. exists (n, v). split; [exact H|]. apply N.eqb_refl.
Qed.

(* zip-equal names + pointwise relation implies the HashMap based member loop *)
Lemma zip_members_rel (R rel : ty -> ty -> bool) fms ems :
  nodupb (map fst ems) = true ->
  all2 (fun p q => N.eqb (fst p) (fst q) && R (snd p) (snd q)) fms ems = true ->
  (forall p q, In p fms -> In q ems -> R (snd p) (snd q) = true -> rel (snd p) (snd q) = true) ->
  members_rel rel fms ems = true.
Proof.
  intros Hd Hall Himp. unfold TyRel.members_rel.
  rewrite (all2_length _ _ _ Hall), Nat.eqb_refl. cbn [andb].
  apply andb_true_iff. split.
  - apply forallb_forall. intros [n t] Hin.
    destruct (all2_in_l _ _ _ Hall _ Hin) as [[n' t'] [Hq HR]]. cbn [fst snd] in *.
    apply andb_true_iff in HR as [Hn HR]. apply N.eqb_eq in Hn. subst n'.
    rewrite (lookup_last_in (rel t) n t' ems Hd Hq).
    exact (Himp (n, t) (n, t') Hin Hq HR).
  - apply forallb_forall. intros [n' t'] Hin.
    destruct (all2_in_r _ _ _ Hall _ Hin) as [[n t] [Hp HR]]. cbn [fst snd] in *.
    apply andb_true_iff in HR as [Hn _]. apply N.eqb_eq in Hn. subst n'.
    exact (has_key_in n fms t Hp).
Qed.

Lemma feq_fit : forall f, has_nominal f = false ->
  forall x, nodup_names x = true -> feq false f x = true -> fit f x = true.
Proof.
  induction f using ty_ind'; intros Hn; try discriminate Hn;
    induction x using ty_ind'; intros Hd Hq;
    cbn [TyRel.fit]; (destruct (ty_eqb _ _) eqn:E; [reflexivity|]);
    try reflexivity; try exact Hq;
    cbn [TyRel.feq] in Hq; try exact Hq; try congruence; try (apply IHx; assumption).
  - (* AnonArray, Array *)
    apply andb_true_iff in Hq as [-> Hq]. cbn [andb]. apply IHf; assumption.
  - apply andb_true_iff in Hq as [-> Hq]. cbn [andb]. apply IHf; assumption.
  - (* Ptr, Ptr *)
    apply andb_true_iff in Hq as [Hm Hq]. apply eqb_prop in Hm. subst m0.
    rewrite Hq, orb_true_r, andb_true_r. unfold mut_ok. destruct m; reflexivity.
  - (* AnonStruct, Struct *)
    apply andb_true_iff in Hq as [_ Hq].
    cbn [nodup_names] in Hd. apply andb_true_iff in Hd as [Hd1 Hd2].
    cbn [has_nominal] in Hn.
    eapply zip_members_rel; [exact Hd1 | exact Hq |].
    intros p q Hp Hin HR.
    rewrite Forall_forall in H. apply (H p Hp); [| | exact HR].
    + destruct (has_nominal (snd p)) eqn:Ep; [|reflexivity].
      assert (existsb (fun p => has_nominal (snd p)) ms = true) by (apply existsb_exists; eauto).
      congruence.
    + rewrite forallb_forall in Hd2. exact (Hd2 q Hin).
  - (* Optional, Optional *) apply IHf; assumption.
  - (* ErrorUnion *)
    cbn [has_nominal] in Hn. apply orb_false_iff in Hn as [Hn1 Hn2].
    cbn [nodup_names] in Hd. apply andb_true_iff in Hd as [Hd1 Hd2].
    apply andb_true_iff in Hq as [Hq1 Hq2].
    rewrite (IHf1 Hn1 _ Hd1 Hq1), (IHf2 Hn2 _ Hd2 Hq2). reflexivity.
Qed.

Lemma has_nominal_known_weak0 f : has_nominal f = false -> known_weak_fit0 f = false.
Proof. induction f using ty_ind'; cbn; auto; discriminate. Qed.

Lemma known_weak_sub n f :
  known_weak_fit (AnonArray n f) = false -> known_weak_fit f = false.
Proof.
  unfold TyLaws.known_weak_fit. cbn [known_weak_fit0]. destruct (fx_weak_nominal fx); cbn [negb andb]; auto.
  apply has_nominal_known_weak0.
Qed.

Lemma weak_implies_fit_except_lem : forall e a,
  known_weak_fit a = false -> nodup_names e = true -> weak a e = true -> fit a e = true.
Proof.
  induction e using ty_ind'; intros a Hk Hd Hw;
    pose proof (weak_head_of _ _ Hw) as Hh;
    destruct a; try discriminate Hh;
    try (match type of Hh with
         | weak_head (IInt ?w) = _ => destruct w as [|?]; try discriminate Hh
         | weak_head (UInt ?w) = _ => destruct w as [|?]; try discriminate Hh
         | weak_head (TFloat ?w) = _ => destruct w as [|?]; try discriminate Hh
         end);
    cbn [TyRel.weak] in Hw; try discriminate Hw;
    cbn [TyRel.fit]; (destruct (ty_eqb _ _) eqn:E; [reflexivity|]);
    try reflexivity; try exact Hw;
    try (cbn [nodup_names] in Hd; apply IHe; assumption).
  - destruct w; reflexivity.
  - destruct w; reflexivity.
  - destruct w; reflexivity.
  - destruct w; reflexivity.
  - (* AnonArray, Array *)
    cbn [nodup_names] in Hd.
    apply andb_true_iff in Hw as [-> Hw]. cbn [andb].
    apply orb_true_iff in Hw as [Hw|Hw].
    + apply IHe; eauto using known_weak_sub.
    + apply andb_true_iff in Hw as [Hq Hf].
      unfold TyLaws.known_weak_fit in Hk. cbn [known_weak_fit0] in Hk.
      destruct (Sumbool.sumbool_of_bool (fx_weak_nominal fx)) as [Fx|Fx]; rewrite Fx in Hk; cbn [negb andb] in Hk.
      * apply orb_true_iff in Hf as [Hf|Hf]; [rewrite Fx in Hf; discriminate Hf | exact Hf].
      * apply feq_fit; assumption.
  - (* AnonArray, Slice *)
    cbn [nodup_names] in Hd.
    apply orb_true_iff in Hw as [Hw|Hw].
    + apply IHe; eauto using known_weak_sub.
    + apply andb_true_iff in Hw as [Hq Hf].
      unfold TyLaws.known_weak_fit in Hk. cbn [known_weak_fit0] in Hk.
      destruct (Sumbool.sumbool_of_bool (fx_weak_nominal fx)) as [Fx|Fx]; rewrite Fx in Hk; cbn [negb andb] in Hk.
      * apply orb_true_iff in Hf as [Hf|Hf]; [rewrite Fx in Hf; discriminate Hf | exact Hf].
      * apply feq_fit; assumption.
  - (* Ptr, Ptr *)
    apply andb_true_iff in Hw as [Hw Hw3]. apply andb_true_iff in Hw as [Hw1 Hw2].
    rewrite Hw1, Hw2. cbn [andb]. apply orb_true_iff. left. exact Hw3.
Qed.

(* with the C12-1 fix in force the law holds in full *)
Lemma weak_implies_fit_fixed : fx_weak_nominal fx = true ->
  forall a e, nodup_names e = true -> weak a e = true -> fit a e = true.
Proof.
  intros Fx a e Hd Hw. apply (weak_implies_fit_except_lem e a); auto.
  unfold TyLaws.known_weak_fit. rewrite Fx. reflexivity.
Qed.

End WithFixes.
