(* C24 proofs, part 1: induction principle, shapes of printed token lists,
   the lambda/paren detection scan on printed expressions. *)
From Coq Require Import List Arith Bool Lia.
Import ListNotations.
From Capy Require Import Model.ExprGrammar Spec.Precedence.

Section ExprInd.
  Variable P : expr -> Prop.
  Hypothesis Hatom : forall a, P (EAtom a).
  Hypothesis Hparen : forall x, P x -> P (EParen x).
  Hypothesis Hempty : P EEmptyParen.
  Hypothesis Hun : forall o x, P x -> P (EUnary o x).
  Hypothesis Href : forall m x, P x -> P (ERef m x).
  Hypothesis Hbin : forall o l r, P l -> P r -> P (EBin o l r).
  Hypothesis Hcall : forall f args, P f -> Forall P args -> P (ECall f args).
  Hypothesis Hindex : forall a i, P a -> P i -> P (EIndex a i).
  Hypothesis Hfield : forall x, P x -> P (EField x).
  Hypothesis Htry : forall x, P x -> P (ETry x).
  Hypothesis Hcast : forall t v, P t -> (forall w, v = Some w -> P w) -> P (ECast t v).
  Hypothesis Hderef : forall x, P x -> P (EDeref x).

  Fixpoint expr_ind2 (e : expr) : P e :=
    match e with
    | EAtom a => Hatom a
    | EParen x => Hparen x (expr_ind2 x)
    | EEmptyParen => Hempty
    | EUnary o x => Hun o x (expr_ind2 x)
    | ERef m x => Href m x (expr_ind2 x)
    | EBin o l r => Hbin o l r (expr_ind2 l) (expr_ind2 r)
    | ECall f args =>
        Hcall f args (expr_ind2 f)
          ((fix go (l : list expr) : Forall P l :=
              match l with
              | [] => Forall_nil P
              | x :: r => Forall_cons x (expr_ind2 x) (go r)
              end) args)
    | EIndex a i => Hindex a i (expr_ind2 a) (expr_ind2 i)
    | EField x => Hfield x (expr_ind2 x)
    | ETry x => Htry x (expr_ind2 x)
    | ECast t v =>
        Hcast t v (expr_ind2 t)
          (match v as v0 return forall w, v0 = Some w -> P w with
           | Some w0 => fun w H => match H in _ = s return match s with Some w' => P w' | None => True end with eq_refl => expr_ind2 w0 end
           | None => fun w H => match H in _ = s return match s with Some w' => P w' | None => True end with eq_refl => I end
           end)
    | EDeref x => Hderef x (expr_ind2 x)
    end.
End ExprInd.

(* ---- first / second token of a printed expression ---------------------- *)
Definition starter (t : tok) : bool :=
  match t with
  | TInt | TFloat | TBool | TIdent | TCaret | TLParen | TBang
  | TOp OSub | TOp OAdd | TOp OXor => true
  | _ => false
  end.

Definition not_comma_head (r : list tok) : Prop := match r with TComma :: _ => False | _ => True end.

Lemma print_shape : forall e, exists t r, print e = t :: r /\ starter t = true /\ not_comma_head r.
Proof.
  induction e using expr_ind2; simpl.
  - exists (atom_tok a), []. destruct a; simpl; auto.
  - destruct IHe as (t & r & E & S & N). exists TLParen, (print e ++ [TRParen]). rewrite E. simpl.
    destruct t; simpl in *; auto; discriminate.
  - exists TLParen, [TRParen]. simpl; auto.
  - destruct IHe as (t & r & E & S & N). exists (unop_tok o), (print e). rewrite E.
    split; [reflexivity|]. split; [destruct o; reflexivity|]. destruct t; simpl in *; auto; discriminate.
  - destruct IHe as (t & r & E & S & N). exists TCaret, ((if m then [TMut] else []) ++ print e). rewrite E.
    split; [reflexivity|]. split; [reflexivity|]. destruct m; simpl; auto. destruct t; simpl in *; auto; discriminate.
  - destruct IHe1 as (t & r & E & S & N). rewrite E. exists t, (r ++ TOp o :: print e2).
    split; [reflexivity|]. split; auto. destruct r; simpl; auto.
  - destruct IHe as (t & r & E & S & N). rewrite E. exists t, (r ++ TLParen :: join (map print args) ++ [TRParen]).
    split; [reflexivity|]. split; auto. destruct r; simpl; auto.
  - destruct IHe1 as (t & r & E & S & N). rewrite E. exists t, (r ++ TLBrack :: print e2 ++ [TRBrack]).
    split; [reflexivity|]. split; auto. destruct r; simpl; auto.
  - destruct IHe as (t & r & E & S & N). rewrite E. exists t, (r ++ [TDot; TIdent]).
    split; [reflexivity|]. split; auto. destruct r; simpl; auto.
  - destruct IHe as (t & r & E & S & N). rewrite E. exists t, (r ++ [TDot; TTry]).
    split; [reflexivity|]. split; auto. destruct r; simpl; auto.
  - destruct IHe as (t & r & E & S & N). rewrite E.
    exists t, (r ++ TDot :: TLParen :: match v with Some v0 => print v0 | None => [] end ++ [TRParen]).
    split; [reflexivity|]. split; auto. destruct r; simpl; auto.
  - destruct IHe as (t & r & E & S & N). rewrite E. exists t, (r ++ [TCaret]).
    split; [reflexivity|]. split; auto. destruct r; simpl; auto.
Qed.

Lemma print_head : forall e, exists t r, print e = t :: r /\ starter t = true.
Proof. intro e. destruct (print_shape e) as (t & r & E & S & _). eauto. Qed.

Lemma ahead2_comma_print : forall e t R, t <> TComma -> ahead2_comma (print e ++ t :: R) = false.
Proof.
  intros e t R Ht. destruct (print_shape e) as (t0 & r & E & S & N). rewrite E. simpl.
  destruct r as [|t1 r]; simpl.
  - destruct t; try reflexivity. congruence.
  - destruct t1; try reflexivity. simpl in N. contradiction.
Qed.

Lemma quick_assign_print : forall o e R, quick_assign (TOp o :: print e ++ R) = false.
Proof.
  intros. destruct (print_head e) as (t & r & E & S). rewrite E. simpl.
  destruct t; try reflexivity. discriminate.
Qed.

(* ---- the paren/lambda scan passes over a printed expression -------------- *)
Definition plain (t : tok) : bool :=
  match t with
  | TLParen | TRParen | TLBrack | TRBrack | TLBrace | TRBrace | TColon | TComma | TEllipsis => false
  | _ => true
  end.

Definition mark (d : nat) (hnp : bool) : bool := hnp || Nat.eqb d 0.

Lemma mark_idem : forall d h, mark d (mark d h) = mark d h.
Proof. intros. unfold mark. destruct h, (Nat.eqb d 0); reflexivity. Qed.

Lemma scan_plain : forall t d hp hnp R, plain t = true ->
  lambda_scan (S d) hp hnp (t :: R) = lambda_scan (S d) hp (mark d hnp) R.
Proof.
  intros. unfold mark. destruct d; destruct t; try discriminate; simpl; destruct hnp; reflexivity.
Qed.

Lemma scan_open : forall t d hp hnp R, (t = TLParen \/ t = TLBrack) ->
  lambda_scan (S d) hp hnp (t :: R) = lambda_scan (S (S d)) hp (mark d hnp) R.
Proof.
  intros t d hp hnp R [-> | ->]; unfold mark; destruct d; simpl; destruct hnp; reflexivity.
Qed.

Lemma scan_close : forall t d hp hnp R, (t = TRParen \/ t = TRBrack) ->
  lambda_scan (S (S d)) hp hnp (t :: R) = lambda_scan (S d) hp hnp R.
Proof. intros t d hp hnp R [-> | ->]; reflexivity. Qed.

Lemma scan_comma_deep : forall d hp hnp R,
  lambda_scan (S (S d)) hp hnp (TComma :: R) = lambda_scan (S (S d)) hp hnp R.
Proof. reflexivity. Qed.

Lemma mark_deep : forall d h, mark (S d) h = h.
Proof. intros. unfold mark. simpl. destruct h; reflexivity. Qed.

Definition scans (e : expr) : Prop :=
  forall d hp hnp R, lambda_scan (S d) hp hnp (print e ++ R) = lambda_scan (S d) hp (mark d hnp) R.

Lemma scan_join : forall args, Forall scans args -> forall d hp hnp R,
  lambda_scan (S (S d)) hp hnp (join (map print args) ++ R) = lambda_scan (S (S d)) hp hnp R.
Proof.
  induction 1 as [|a args Ha Hargs IH]; intros; simpl; [reflexivity|].
  destruct (map print args) eqn:E.
  - rewrite Ha, mark_deep. reflexivity.
  - rewrite <- app_assoc. rewrite Ha, mark_deep. rewrite <- app_comm_cons. rewrite scan_comma_deep.
    apply IH.
Qed.

Lemma scan_print : forall e, scans e.
Proof.
  induction e using expr_ind2; unfold scans in *; intros; cbn [print app].
  - rewrite scan_plain; [reflexivity | destruct a; reflexivity].
  - rewrite scan_open by auto. rewrite <- app_assoc. rewrite IHe. rewrite mark_deep. cbn [app].
    rewrite scan_close by auto. reflexivity.
  - rewrite scan_open by auto. rewrite scan_close by auto. reflexivity.
  - rewrite scan_plain by (destruct o; reflexivity). rewrite IHe, mark_idem. reflexivity.
  - rewrite scan_plain by reflexivity. destruct m; cbn [app].
    + rewrite scan_plain by reflexivity. rewrite IHe. rewrite !mark_idem. reflexivity.
    + rewrite IHe, mark_idem. reflexivity.
  - rewrite <- app_assoc. rewrite IHe1. cbn [app]. rewrite scan_plain by reflexivity. rewrite IHe2.
    rewrite !mark_idem. reflexivity.
  - rewrite <- app_assoc. rewrite IHe. cbn [app]. rewrite scan_open by auto. rewrite <- app_assoc.
    rewrite scan_join by assumption. cbn [app]. rewrite scan_close by auto. rewrite mark_idem. reflexivity.
  - rewrite <- app_assoc. rewrite IHe1. cbn [app]. rewrite scan_open by auto. rewrite <- app_assoc.
    rewrite IHe2. rewrite mark_deep. cbn [app]. rewrite scan_close by auto. rewrite mark_idem. reflexivity.
  - rewrite <- app_assoc. rewrite IHe. cbn [app]. rewrite !scan_plain by reflexivity. rewrite !mark_idem. reflexivity.
  - rewrite <- app_assoc. rewrite IHe. cbn [app]. rewrite !scan_plain by reflexivity. rewrite !mark_idem. reflexivity.
  - rewrite <- app_assoc. rewrite IHe. cbn [app]. rewrite scan_plain by reflexivity. rewrite scan_open by auto.
    rewrite <- app_assoc. destruct v as [w|]; cbn [app].
    + rewrite (H w eq_refl). rewrite mark_deep. cbn [app]. rewrite scan_close by auto. rewrite !mark_idem. reflexivity.
    + rewrite scan_close by auto. rewrite !mark_idem. reflexivity.
  - rewrite <- app_assoc. rewrite IHe. cbn [app]. rewrite scan_plain by reflexivity. rewrite mark_idem. reflexivity.
Qed.

(* `( e )` is recognised as a parenthesised expression, never as a lambda *)
Lemma scan_paren : forall e R, lambda_scan 1 false false (print e ++ TRParen :: R) = true.
Proof. intros. rewrite scan_print. destruct R; reflexivity. Qed.
