(* C03 — proofs about the model of the UNCHANGED compiler (Model/Defer.v):
   refutation witnesses of the full property, and the strongest true statement:
   on every HIR function body free of the three known defect classes the
   generated code implements the reference semantics (structural induction). *)
From Capy Require Import Common.Util Model.Defer Model.DeferFixed Spec.DeferSpec Proofs.DeferSim.

(* ========================================================== refutation *)
(* K1: defer A; while c { if c { break; } }            oracle 1,1 *)
Definition w_k1 : list stmt := [SDefer (DAtom 65); SLoop None true [SIf [SBreak None] []]].
(* K2: while c { defer L; if c { continue; } }         oracle 1,1,0 *)
Definition w_k2 : list stmt := [SLoop None true [SDefer (DAtom 76); SIf [SContinue None] []]].
(* K3: defer A; if c { return; } defer B;              oracle 1 *)
Definition w_k3 : list stmt := [SDefer (DAtom 65); SIf [SReturn] []; SDefer (DAtom 66)].

Lemma w_k1_fails :
  snd (lower_fn w_k1) = false /\ exec_fn 5 w_k1 [true; true] = Ok [65%N] /\
  hexec_fn 5 (fst (lower_fn w_k1)) [true; true] = Ok [65%N] /\
  model_fn 5 w_k1 [true; true] = Ok [65; 65]%N /\
  model_fn_fx 5 w_k1 [true; true] = Ok [65%N] /\
  known_classes (fst (lower_fn w_k1)) = (true, false, false).
Proof. vm_compute. repeat split. Qed.

Lemma w_k2_fails :
  snd (lower_fn w_k2) = false /\ exec_fn 5 w_k2 [true; true; false] = Ok [76%N] /\
  hexec_fn 5 (fst (lower_fn w_k2)) [true; true; false] = Ok [76%N] /\
  model_fn 5 w_k2 [true; true; false] = Ok [] /\
  model_fn_fx 5 w_k2 [true; true; false] = Ok [76%N] /\
  known_classes (fst (lower_fn w_k2)) = (false, true, false).
Proof. vm_compute. repeat split. Qed.

Lemma w_k3_fails :
  snd (lower_fn w_k3) = false /\ exec_fn 5 w_k3 [true] = Ok [65%N] /\
  hexec_fn 5 (fst (lower_fn w_k3)) [true] = Ok [65%N] /\
  model_fn 5 w_k3 [true] = Ok [66; 65]%N /\
  model_fn_fx 5 w_k3 [true] = Ok [65%N] /\
  known_classes (fst (lower_fn w_k3)) = (false, false, true).
Proof. vm_compute. repeat split. Qed.

(* the full property, parameterised by the compiler *)
Definition defer_full (comp : hstmt -> result (list tstmt)) : Prop :=
  forall h code fuel o, comp h = Ok code -> trun_fn fuel code o = hexec_fn fuel h o.

Lemma defer_full_refuted : ~ defer_full compile_fn.
Proof.
  intros H.
  destruct (compile_fn (fst (lower_fn w_k3))) as [code| |] eqn:E; try (vm_compute in E; discriminate).
  specialize (H _ code 5 [true] E).
  assert (M : trun_fn 5 code [true] = Ok [66; 65]%N).
  { vm_compute in E. inversion E; subst. vm_compute. reflexivity. }
  rewrite M in H. vm_compute in H. discriminate.
Qed.

(* ===================================================== except-known theorem *)
Inductive gentry : Type :=
| GFrame (sid : option N) (pend : list N)
| GLoop (sid : option N).

Fixpoint frames (G : list gentry) : dstack :=
  match G with
  | [] => []
  | GFrame sid p :: r => mkFrame sid p :: frames r
  | GLoop _ :: r => frames r
  end.

Definition is_nil {A} (l : list A) : bool := match l with [] => true | _ => false end.

Definition abs1 (g : gentry) : centry :=
  match g with GFrame sid p => CFrame sid (negb (is_nil p)) | GLoop sid => CLoop sid end.
Definition abs (G : list gentry) : list centry := map abs1 G.

Fixpoint unwind_ex_tr (st : dstack) (id : N) : trace :=
  match st with
  | [] => []
  | f :: r => if opt_is id (fid f) then [] else rev (fdefers f) ++ unwind_ex_tr r id
  end.

Lemma unwind_code_tr st id : unwind_code st id = map TEmit (unwind_ex_tr st id).
Proof.
  induction st as [|f r IH]; cbn [unwind_code unwind_ex_tr]; auto.
  destruct (opt_is id (fid f)); auto. rewrite map_app, IH. reflexivity.
Qed.

Definition extra_f (G : list gentry) (out : tout) : trace :=
  match out with TExit id => unwind_ex_tr (frames G) id | _ => [] end.
Definition post (l : tout -> trace) (x : trace * oracle * tout) : trace * oracle * tout :=
  let '(t, o, out) := x in (t ++ l out, o, out).
Definition lift_f (G : list gentry) := rmap (post (extra_f G)).

Definition out_ok (cx : list centry) (r : result (trace * oracle * tout)) : Prop :=
  match r with
  | Ok (_, _, TExit id) => k1_at cx id = false
  | Ok (_, _, THeader id) => k2_at cx id = false
  | _ => True
  end.

Definition fff := (false, false, false).

Lemma or3_fff a b : or3 a b = fff -> a = fff /\ b = fff.
Proof.
  destruct a as [[a1 a2] a3], b as [[b1 b2] b3]. unfold or3, fff. intros E.
  destruct a1, a2, a3, b1, b2, b3; cbn in E; try discriminate; auto.
Qed.

(* catching of outcomes by an Expr::Block *)
Definition catch (sid : option N) (r : result (trace * oracle * tout)) : result (trace * oracle * tout) :=
  match r with
  | Ok (t, o1, TExit id) => Ok (t, o1, if opt_is id sid then TNormal else TExit id)
  | Ok (t, o1, THeader id) => if opt_is id sid then Crash 12 else Ok (t, o1, THeader id)
  | r => r
  end.

Lemma hexec_block fuel sid b o : hexec fuel (HBlock sid b) o = catch sid (hexec_list (hexec fuel) [] b o).
Proof.
  cbn [hexec]. destruct (hexec_list (hexec fuel) [] b o) as [[[t o1] out]| |]; cbn; auto.
  destruct out; auto.
Qed.

Lemma catch_none r : catch None r = r.
Proof. destruct r as [[[t o] out]| |]; auto. destruct out; auto. Qed.

Lemma catch_pre sid t r : catch sid (rmap (pre t) r) = rmap (pre t) (catch sid r).
Proof.
  destruct r as [[[t1 o] out]| |]; auto. destruct out; cbn; auto.
  destruct (opt_is id sid); auto.
Qed.

Lemma lift_f_pre G t r : lift_f G (rmap (pre t) r) = rmap (pre t) (lift_f G r).
Proof. destruct r as [[[t1 o] out]| |]; cbn; auto. rewrite app_assoc. reflexivity. Qed.

Lemma out_ok_pre cx t r : out_ok cx (rmap (pre t) r) <-> out_ok cx r.
Proof. destruct r as [[[t1 o] out]| |]; cbn; tauto. Qed.

(* one step of a TBlock whose body is split *)
Lemma tblock_step fuel sid c cr ex o :
  trun fuel (TBlock sid (c ++ cr) ex) o =
  match trun_list (trun fuel) c o with
  | Ok (t1, o1, TNormal) => rmap (pre t1) (trun fuel (TBlock sid cr ex) o1)
  | Ok (t1, o1, TExit id) =>
      if opt_is id sid then rmap (pre t1) (trun_list (trun fuel) ex o1) else Ok (t1, o1, TExit id)
  | Ok (t1, o1, THeader id) => if opt_is id sid then Crash 12 else Ok (t1, o1, THeader id)
  | Crash s => Crash s
  | OutOfFuel => OutOfFuel
  end.
Proof.
  cbn [trun]. rewrite trun_list_app.
  destruct (trun_list (trun fuel) c o) as [[[t1 o1] out]| |]; cbn [bind]; auto.
  destruct out.
  - destruct (trun_list (trun fuel) cr o1) as [[[t2 o2] out2]| |]; cbn; auto.
    destruct out2; cbn.
    + destruct (trun_list (trun fuel) ex o2) as [[[t3 o3] out3]| |]; cbn; auto.
      rewrite app_assoc. reflexivity.
    + cbn. destruct (opt_is id sid); cbn; auto.
      destruct (trun_list (trun fuel) ex o2) as [[[t3 o3] out3]| |]; cbn; auto.
      rewrite app_assoc. reflexivity.
    + cbn. destruct (opt_is id sid); cbn; auto.
  - cbn. destruct (opt_is id sid); cbn; auto.
    destruct (trun_list (trun fuel) ex o1) as [[[t3 o3] out3]| |]; cbn; auto.
  - cbn. destruct (opt_is id sid); cbn; auto.
Qed.

(* unfolding of the classifier's block loop *)
Lemma kc_list_defer f sid cx p c r :
  kc_list f sid cx p (HDefer c :: r) = kc_list f sid cx (p || negb (is_nil c)) r.
Proof. reflexivity. Qed.

Lemma kc_list_cons f sid cx p h r : not_defer h ->
  kc_list f sid cx p (h :: r) =
  (let x := f (CFrame sid p :: cx) h in if is_jump_stmt h then x else or3 x (kc_list f sid cx p r)).
Proof. intros H. destruct h; try reflexivity. exfalso. eapply H. reflexivity. Qed.

Lemma late_defer_cons id seen h r : not_defer h ->
  late_defer id seen (h :: r) = if is_jump_stmt h then false else late_defer id (seen || uses id h) r.
Proof. intros H. destruct h; try reflexivity. exfalso. eapply H. reflexivity. Qed.

Lemma compile_list_no_defer f sid st id : forall r pend code p ne,
  late_defer id true r = false ->
  compile_list f sid st pend r = Ok (code, p, ne) -> p = pend.
Proof.
  induction r as [|h r IH]; intros pend code p ne Hl Hc.
  - cbn in Hc. inversion Hc. reflexivity.
  - destruct (not_defer_dec h) as [[c ->]|Hnd].
    + cbn in Hl. discriminate.
    + rewrite late_defer_cons in Hl by assumption.
      rewrite compile_list_cons in Hc by assumption.
      destruct (f (mkFrame sid pend :: st) h) as [c| |]; cbn [bind] in Hc; try discriminate.
      destruct (is_jump_stmt h).
      * inversion Hc. reflexivity.
      * destruct (compile_list f sid st pend r) as [[[cr p'] ne']| |] eqn:Er; cbn [bind] in Hc; try discriminate.
        inversion Hc; subst. eapply IH; eauto.
Qed.

Lemma late_defer_seen_mono id r : late_defer id false r = false \/ True.
Proof. auto. Qed.

Lemma late_defer_true_of id : forall r seen, late_defer id seen r = false -> seen = true -> late_defer id true r = false.
Proof. intros r seen H ->. exact H. Qed.

(* ---- a jump that comes out of a statement occurs in it *)
Definition out_uses (used : N -> bool) (r : result (trace * oracle * tout)) : Prop :=
  match r with
  | Ok (_, _, TExit id) | Ok (_, _, THeader id) => used id = true
  | _ => True
  end.

Definition U_h (h : hstmt) : Prop := forall fuel o, out_uses (fun id => uses id h) (hexec fuel h o).

Lemma opt_is_refl l : opt_is l (Some l) = true.
Proof. cbn. apply N.eqb_refl. Qed.

Lemma uses_list hs : Forall U_h hs -> forall fuel pend o,
  out_uses (fun id => existsb (uses id) hs) (hexec_list (hexec fuel) pend hs o).
Proof.
  induction 1 as [|h r Hh Hr IH]; intros fuel pend o.
  - cbn. exact I.
  - destruct (not_defer_dec h) as [[c ->]|Hnd].
    + rewrite hexec_list_defer. specialize (IH fuel (c ++ pend) o).
      destruct (hexec_list (hexec fuel) (c ++ pend) r o) as [[[t o1] out]| |]; cbn in *; auto.
    + rewrite hexec_list_cons by assumption. specialize (Hh fuel o).
      destruct (hexec fuel h o) as [[[t1 o1] out]| |]; cbn in *; auto.
      destruct out; cbn.
      * specialize (IH fuel pend o1).
        destruct (hexec_list (hexec fuel) pend r o1) as [[[t2 o2] out2]| |]; cbn in *; auto.
        destruct out2; auto; rewrite IH; apply orb_true_r.
      * rewrite Hh. reflexivity.
      * rewrite Hh. reflexivity.
Qed.

Lemma uses_all : forall h, U_h h.
Proof.
  induction h using hstmt_ind2; unfold U_h; intros fuel o.
  - cbn. exact I.
  - cbn. exact I.
  - destruct l; cbn; auto. apply N.eqb_refl.
  - destruct l; cbn; auto. apply N.eqb_refl.
  - destruct l; cbn; auto. destruct (next o) as [c0 o0]. destruct c0; cbn; auto. apply N.eqb_refl.
  - rewrite hexec_block. pose proof (uses_list b H fuel [] o) as Hb.
    destruct (hexec_list (hexec fuel) [] b o) as [[[t o1] out]| |]; cbn in *; auto.
    destruct out; cbn; auto; destruct (opt_is id sid); cbn; auto.
  - rewrite hexec_loop. generalize fuel at 2 as n. intros n. revert o.
    induction n as [|n IHn]; intros o; cbn [hiter]; [exact I|].
    destruct (if c then next o else (true, o)) as [go o0].
    destruct (negb go); [exact I|].
    pose proof (uses_list b H fuel [] o0) as Hb.
    destruct (hexec_list (hexec fuel) [] b o0) as [[[t1 o1] out]| |]; cbn in *; auto.
    destruct out.
    + specialize (IHn o1). destruct (hiter fuel sid c b n o1) as [[[t2 o2] out2]| |]; cbn in *; auto.
    + destruct (opt_is id sid); cbn; auto.
    + destruct (opt_is id sid); cbn; auto.
      specialize (IHn o1). destruct (hiter fuel sid c b n o1) as [[[t2 o2] out2]| |]; cbn in *; auto.
  - cbn [hexec]. destruct (next o) as [c0 o0]. destruct c0.
    + pose proof (uses_list a H fuel [] o0) as Hb.
      destruct (hexec_list (hexec fuel) [] a o0) as [[[t o1] out]| |]; cbn in *; auto.
      destruct out; auto; rewrite Hb; reflexivity.
    + pose proof (uses_list b H0 fuel [] o0) as Hb.
      destruct (hexec_list (hexec fuel) [] b o0) as [[[t o1] out]| |]; cbn in *; auto.
      destruct out; auto; rewrite Hb; apply orb_true_r.
Qed.

(* ---- the simulation *)
Definition P_f (h : hstmt) : Prop :=
  forall fuel G code o,
    kc (abs G) h = fff -> compile_stmt (frames G) h = Ok code ->
    trun_list (trun fuel) code o = lift_f G (hexec fuel h o) /\ out_ok (abs G) (hexec fuel h o).

Definition k3_ok (sid : option N) (seen : bool) (hs : list hstmt) : Prop :=
  match sid with Some id => late_defer id seen hs = false | None => True end.

Definition exit_code (ne : bool) (sid : option N) (df : list N) : list tstmt :=
  if ne && is_none sid then [] else run_defers df.

Lemma is_nil_snoc {A} (l : list A) x : is_nil (l ++ [x]) = false.
Proof. destruct l; reflexivity. Qed.

Lemma pending_push (pend c : list N) :
  negb (is_nil (pend ++ rev c)) = negb (is_nil pend) || negb (is_nil c).
Proof.
  destruct pend; cbn; auto. destruct c; cbn; auto. rewrite is_nil_snoc. reflexivity.
Qed.

Lemma unwind_no_pending G id : existsb centry_pending (abs G) = false -> unwind_ex_tr (frames G) id = [].
Proof.
  induction G as [|g G IH]; cbn; auto.
  destruct g as [sid p|sid]; cbn.
  - intros H. apply orb_false_iff in H. destruct H as [Hp HG].
    destruct p; cbn in Hp; try discriminate.
    destruct (opt_is id sid); [reflexivity|]. cbn. apply IH. exact HG.
  - intros H. apply IH. exact H.
Qed.

Lemma block_f hs : Forall P_f hs ->
  forall fuel sid G pend seen code df ne o,
    kc_list (fun c x => kc c x) sid (abs G) (negb (is_nil pend)) hs = fff ->
    k3_ok sid seen hs ->
    compile_list (fun s x => compile_stmt s x) sid (frames G) pend hs = Ok (code, df, ne) ->
    trun fuel (TBlock sid code (exit_code ne sid df)) o
      = lift_f G (catch sid (hexec_list (hexec fuel) (rev pend) hs o))
    /\ out_ok (abs G) (catch sid (hexec_list (hexec fuel) (rev pend) hs o)).
Proof.
  induction 1 as [|h r Hh Hr IH]; intros fuel sid G pend seen code df ne o Hk H3 Hc.
  - cbn in Hc. inversion Hc; subst. cbn [hexec_list catch exit_code andb].
    split; [|exact I].
    cbn [trun trun_list bind]. unfold run_defers. rewrite trun_emits_only. cbn. rewrite app_nil_r. reflexivity.
  - destruct (not_defer_dec h) as [[c ->]|Hnd].
    + rewrite compile_list_defer in Hc. rewrite hexec_list_defer. rewrite kc_list_defer in Hk.
      assert (H3' : k3_ok sid false r).
      { destruct sid; cbn in *; auto. apply orb_false_iff in H3. destruct H3 as [-> H3]. exact H3. }
      specialize (IH fuel sid G (pend ++ rev c) false code df ne o).
      rewrite pending_push in IH. rewrite rev_app_distr, rev_involutive in IH.
      apply IH; auto.
    + rewrite compile_list_cons in Hc by assumption.
      rewrite hexec_list_cons by assumption.
      rewrite kc_list_cons in Hk by assumption. cbn zeta in Hk.
      destruct (compile_stmt (mkFrame sid pend :: frames G) h) as [c| |] eqn:Ec; cbn [bind] in Hc; try discriminate.
      assert (Hkh : kc (abs (GFrame sid pend :: G)) h = fff /\
                    (is_jump_stmt h = false -> kc_list (fun c x => kc c x) sid (abs G) (negb (is_nil pend)) r = fff)).
      { cbn [abs map abs1]. destruct (is_jump_stmt h); [split; [exact Hk|discriminate]|].
        apply or3_fff in Hk. tauto. }
      destruct Hkh as [Hkh Hkr].
      destruct (Hh fuel (GFrame sid pend :: G) c o Hkh Ec) as [Hs Ho].
      pose proof (uses_all h fuel o) as Hu.
      cbn [abs map abs1] in Ho.
      (* facts about an outcome of h that passes this frame *)
      assert (Hpeel1 : forall id, k1_at (CFrame sid (negb (is_nil pend)) :: abs G) id = false ->
                                  opt_is id sid = false -> k1_at (abs G) id = false).
      { intros id H1 H2. cbn in H1. rewrite H2 in H1. exact H1. }
      assert (Hpeel2 : forall id, k2_at (CFrame sid (negb (is_nil pend)) :: abs G) id = false ->
                                  opt_is id sid = false /\ pend = [] /\ k2_at (abs G) id = false).
      { intros id H1. cbn in H1. destruct (opt_is id sid); try discriminate.
        apply orb_false_iff in H1. destruct H1 as [Hp Hk2]. destruct pend; cbn in Hp; try discriminate. auto. }
      destruct (is_jump_stmt h) eqn:Ej.
      * (* direct break / continue: the rest of the block is not compiled *)
        injection Hc as <- <- <-. cbn [exit_code andb].
        rewrite <- (app_nil_r c). rewrite tblock_step. rewrite Hs.
        destruct (hexec fuel h o) as [[[t1 o1] out]| |] eqn:Eh; cbn -[trun]; auto.
        destruct out; cbn -[trun] in *.
        -- exfalso. destruct h; try discriminate; destruct l; cbn in Eh; discriminate.
        -- destruct (opt_is id sid) eqn:Eo; cbn -[trun].
           ++ split; [|exact I]. destruct sid; [|discriminate]. unfold exit_code. cbn [is_none andb].
              unfold run_defers. rewrite trun_emits_only. cbn. rewrite !app_nil_r. reflexivity.
           ++ split; [|eauto]. rewrite <- !app_assoc. reflexivity.
        -- destruct (Hpeel2 id Ho) as (Eo & -> & Hk2). rewrite Eo. cbn.
           split; auto. rewrite !app_nil_r. reflexivity.
      * destruct (compile_list _ sid (frames G) pend r) as [[[cr p] ne']| |] eqn:Er; cbn [bind] in Hc; try discriminate.
        injection Hc as <- <- <-.
        rewrite tblock_step. rewrite Hs.
        destruct (hexec fuel h o) as [[[t1 o1] out]| |]; cbn -[trun]; auto.
        destruct out; cbn -[trun] in *.
        -- assert (H3' : k3_ok sid (seen || match sid with Some i => uses i h | None => false end) r).
           { destruct sid as [i|]; [|exact I]. unfold k3_ok in *.
             rewrite late_defer_cons in H3 by assumption. rewrite Ej in H3. exact H3. }
           destruct (IH fuel sid G pend _ cr p ne' o1 (Hkr eq_refl) H3' Er) as [IH1 IH2].
           rewrite app_nil_r. rewrite IH1. rewrite catch_pre, lift_f_pre. split; auto.
           apply out_ok_pre. exact IH2.
        -- destruct (opt_is id sid) eqn:Eo; cbn -[trun].
           ++ split; [|exact I]. destruct sid as [i|]; [|discriminate]. unfold exit_code. cbn [is_none]. rewrite andb_false_r.
              cbn in Eo. apply N.eqb_eq in Eo. subst i.
              assert (p = pend).
              { eapply compile_list_no_defer; [|exact Er].
                unfold k3_ok in H3. rewrite late_defer_cons in H3 by assumption. rewrite Ej in H3.
                rewrite Hu in H3. rewrite orb_true_r in H3. exact H3. }
              subst p. unfold run_defers. rewrite trun_emits_only. cbn. rewrite !app_nil_r. reflexivity.
           ++ split; [|eauto]. rewrite <- !app_assoc. reflexivity.
        -- destruct (Hpeel2 id Ho) as (Eo & -> & Hk2). rewrite Eo. cbn.
           split; auto. rewrite !app_nil_r. reflexivity.
Qed.

Theorem compile_f_sim : forall h, P_f h.
Proof.
  induction h using hstmt_ind2; unfold P_f; intros fuel G code o Hk Hc.
  - cbn in Hc. inversion Hc; subst. split; [reflexivity|exact I].
  - cbn in Hc. discriminate.
  - destruct l; cbn in Hc; inversion Hc; subst. cbn in Hk. inversion Hk.
    split; [|assumption].
    rewrite unwind_code_tr, trun_emits. cbn. rewrite app_nil_r. reflexivity.
  - destruct l; cbn in Hc; inversion Hc; subst. cbn in Hk. inversion Hk.
    split; [|assumption]. reflexivity.
  - destruct l; [|cbn in Hc; discriminate].
    cbn in Hk. inversion Hk.
    destruct k; cbn in Hc; inversion Hc; subst;
    (rewrite trun_list_single; cbn [trun hexec]; destruct (next o) as [c0 o0];
     destruct c0; cbn; [|split; [reflexivity|exact I]];
     split; [|assumption];
     rewrite unwind_code_tr, trun_emits; cbn; rewrite app_nil_r; reflexivity).
  - (* block *)
    cbn [compile_stmt] in Hc. cbn [kc] in Hk. apply or3_fff in Hk. destruct Hk as [Hk3 Hk].
    inversion Hk3 as [Hk3'].
    destruct (compile_list _ sid (frames G) [] b) as [[[cd df] ne]| |] eqn:Ec; cbn [bind] in Hc; try discriminate.
    inversion Hc; subst. rewrite trun_list_single. rewrite hexec_block.
    apply (block_f b H fuel sid G [] false cd df ne o); auto.
    destruct sid; cbn in *; auto.
  - (* loop *)
    cbn [compile_stmt] in Hc. cbn [kc] in Hk.
    destruct (compile_list _ None (frames G) [] b) as [[[cd df] ne]| |] eqn:Ec; cbn [bind] in Hc; try discriminate.
    inversion Hc; subst. rewrite trun_list_single.
    rewrite trun_loop, hexec_loop.
    assert (Hb : forall o', trun fuel (TBlock None cd (if ne then [] else run_defers df)) o'
                 = lift_f (GLoop sid :: G) (hexec_list (hexec fuel) [] b o')
                 /\ out_ok (CLoop sid :: abs G) (hexec_list (hexec fuel) [] b o')).
    { intros o'.
      pose proof (block_f b H fuel None (GLoop sid :: G) [] false cd df ne o' Hk I Ec) as Hb.
      rewrite catch_none in Hb. unfold exit_code in Hb. cbn [is_none] in Hb. rewrite andb_true_r in Hb.
      exact Hb. }
    generalize fuel at 2 4 6 as n. intros n. revert o.
    induction n as [|n IHn]; intros o; cbn [titer hiter]; [split; [reflexivity|exact I]|].
    destruct (if c then next o else (true, o)) as [go o0].
    destruct go; cbn [negb]; [|split; [reflexivity|exact I]].
    rewrite trun_list_single. destruct (Hb o0) as [Hb1 Hb2]. rewrite Hb1.
    destruct (hexec_list (hexec fuel) [] b o0) as [[[t1 o1] out]| |]; cbn in *; auto.
    destruct out; cbn in *.
    + rewrite app_nil_r. destruct (IHn o1) as [I1 I2]. rewrite I1. rewrite lift_f_pre.
      split; auto. apply out_ok_pre. exact I2.
    + destruct (opt_is id sid) eqn:Eo.
      * rewrite (unwind_no_pending G id Hb2). rewrite app_nil_r. cbn. rewrite app_nil_r. split; auto.
      * cbn. split; auto.
    + destruct (opt_is id sid) eqn:Eo.
      * rewrite app_nil_r. destruct (IHn o1) as [I1 I2]. rewrite I1. rewrite lift_f_pre.
        split; auto. apply out_ok_pre. exact I2.
      * cbn. split; auto.
  - (* if *)
    cbn [compile_stmt] in Hc. cbn [kc] in Hk. apply or3_fff in Hk. destruct Hk as [Hka Hkb].
    destruct (compile_list _ None (frames G) [] a) as [[[ca da] na]| |] eqn:Ea; cbn [bind] in Hc; try discriminate.
    destruct (compile_list _ None (frames G) [] b) as [[[cb db] nb]| |] eqn:Eb; cbn [bind] in Hc; try discriminate.
    inversion Hc; subst. rewrite trun_list_single. cbn [trun hexec].
    destruct (next o) as [c0 o0]. destruct c0; rewrite trun_list_single.
    + pose proof (block_f a H fuel None G [] false ca da na o0 Hka I Ea) as Hb.
      rewrite catch_none in Hb. unfold exit_code in Hb. cbn [is_none] in Hb. rewrite andb_true_r in Hb.
      exact Hb.
    + pose proof (block_f b H0 fuel None G [] false cb db nb o0 Hkb I Eb) as Hb.
      rewrite catch_none in Hb. unfold exit_code in Hb. cbn [is_none] in Hb. rewrite andb_true_r in Hb.
      exact Hb.
Qed.

(* whole functions: the strongest true statement about the unchanged compiler *)
Theorem compile_fn_except_known : forall h code fuel o,
  known_class_free h = true -> compile_fn h = Ok code ->
  trun_fn fuel code o = hexec_fn fuel h o.
Proof.
  intros h code fuel o Hk Hc. unfold trun_fn, hexec_fn.
  assert (Hk' : kc (abs []) h = fff).
  { unfold known_class_free, known_classes in Hk. cbn [abs map].
    destruct (kc [] h) as [[k1 k2] k3]. apply negb_true_iff in Hk.
    apply orb_false_iff in Hk. destruct Hk as [Hk Hk3]. apply orb_false_iff in Hk. destruct Hk. subst. reflexivity. }
  destruct (compile_f_sim h fuel [] code o Hk' Hc) as [Hs _]. rewrite Hs.
  destruct (hexec fuel h o) as [[[t o1] out]| |]; cbn; auto.
  destruct out; cbn; rewrite ?app_nil_r; reflexivity.
Qed.
