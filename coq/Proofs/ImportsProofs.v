(* C28 — proofs about the import model: resolution relative to the importing
   file's directory, exact characterisation of every outcome of #import / #mod,
   and correctness of the work list (every reachable file exactly once, with
   cycles and self-imports, for any number of files; the fuel is justified by
   the number of files not yet compiled). *)
From Capy Require Import Common.Util Model.Mangle Model.Imports Proofs.MangleProofs.

(* ---------- path equality -------------------------------------------------------- *)
Lemma path_eqb_refl : forall a, path_eqb a a = true.
Proof. induction a; cbn [path_eqb]; auto. rewrite str_eqb_refl. exact IHa. Qed.

Lemma path_eqb_eq : forall a b, path_eqb a b = true -> a = b.
Proof.
  induction a; destruct b; cbn [path_eqb]; intros H; try discriminate; auto.
  apply andb_true_iff in H. destruct H as [H1 H2]. apply str_eqb_eq in H1. subst. f_equal. auto.
Qed.

Lemma mem_In : forall f l, mem f l = true <-> In f l.
Proof.
  intros f l. unfold mem. rewrite existsb_exists. split.
  - intros (x & Hx & E). apply path_eqb_eq in E. subst. exact Hx.
  - intros H. exists f. split; [exact H | apply path_eqb_refl].
Qed.

Lemma NoDup_app_one : forall (A : Type) (l : list A) (x : A), NoDup l -> ~ In x l -> NoDup (l ++ [x]).
Proof.
  induction l as [|y l IH]; intros x Hnd Hx; cbn [Datatypes.app].
  - constructor; [intros [] | constructor].
  - inversion Hnd; subst. constructor.
    + rewrite in_app_iff. cbn [In]. intros [H|[H|[]]]; [auto | subst; apply Hx; left; reflexivity].
    + apply IH; auto. intros H. apply Hx. right. exact H.
Qed.

(* ---------- resolution relative to the importer ---------------------------------- *)
(* navigation semantics of one path piece from a directory: "" and "." stay,
   ".." goes to the parent (the root is its own parent), a name goes down *)
Definition cd (dir : path) (c : str) : path :=
  if str_eqb c [] then dir
  else if str_eqb c s_dot then dir
  else if str_eqb c s_dotdot then removelast dir
  else dir ++ [c].

Definition normal (c : str) : bool :=
  negb (str_eqb c []) && negb (str_eqb c s_dot) && negb (str_eqb c s_dotdot).

Lemma clean_step_cd : forall acc c, clean_step acc c = cd acc c.
Proof. intros. unfold clean_step, cd. destruct (str_eqb c []); cbn [orb]; reflexivity. Qed.

Lemma fold_clean_cd : forall ps acc, fold_left clean_step ps acc = fold_left cd ps acc.
Proof. induction ps; intros; cbn [fold_left]; auto. rewrite clean_step_cd. apply IHps. Qed.

Lemma fold_normal : forall l acc, forallb normal l = true -> fold_left clean_step l acc = acc ++ l.
Proof.
  induction l as [|x l IH]; intros acc H; cbn [fold_left].
  - rewrite List.app_nil_r. reflexivity.
  - cbn [forallb] in H. apply andb_true_iff in H. destruct H as [Hx Hl].
    unfold normal in Hx. apply andb_true_iff in Hx. destruct Hx as [Hx H3].
    apply andb_true_iff in Hx. destruct Hx as [H1 H2].
    apply negb_true_iff in H1, H2, H3.
    unfold clean_step. rewrite H1, H2, H3. cbn [orb]. rewrite IH by exact Hl.
    rewrite <- List.app_assoc. reflexivity.
Qed.

(* `#import("p")`: p is resolved from the directory of the importing file *)
Theorem resolve_relative_to_importer : forall importer p,
  forallb normal importer = true ->
  resolve importer p =
    fold_left cd (pieces p) (if is_absolute p then [] else removelast importer).
Proof.
  intros importer p Hn. unfold resolve, clean.
  destruct (is_absolute p).
  - apply fold_clean_cd.
  - rewrite List.fold_left_app. rewrite (fold_normal importer [] Hn). cbn [Datatypes.app fold_left].
    rewrite fold_clean_cd. f_equal.
Qed.

(* plain relative names: directory of the importer followed by the names *)
Corollary resolve_plain : forall importer p,
  forallb normal importer = true -> is_absolute p = false -> forallb normal (pieces p) = true ->
  resolve importer p = removelast importer ++ pieces p.
Proof.
  intros importer p Hn Ha Hp. rewrite resolve_relative_to_importer by exact Hn. rewrite Ha.
  rewrite <- fold_clean_cd. apply fold_normal. exact Hp.
Qed.

(* ---------- exact characterisation of the outcomes -------------------------------- *)
Definition imp (s : str) : directive := {| dir_is_mod := false; dir_arg := AStr s |}.
Definition modd (s : str) : directive := {| dir_is_mod := true; dir_arg := AStr s |}.

Definition inside (c : cfg) (p : path) : bool :=
  is_sub_dir_of p (c_mod_dir c) || is_sub_dir_of p (c_cwd c).

Ltac solve_iff :=
  repeat split; intros;
  repeat match goal with
         | H : _ /\ _ |- _ => destruct H
         | H : Accept _ = Accept _ |- _ => inversion H; clear H; subst
         | H : Reject _ = Reject _ |- _ => inversion H; clear H; subst
         | H : Accept _ = Reject _ |- _ => discriminate H
         | H : Reject _ = Accept _ |- _ => discriminate H
         end;
  subst; try discriminate; try congruence; auto.

Theorem import_accept_iff : forall c f s p,
  lower_import c f (imp s) = Accept p <->
  ends_capy s = true /\ p = resolve f s /\ is_file (c_fs c) p = true /\ inside c p = true.
Proof.
  intros c f s p. unfold lower_import, imp, inside. cbn [dir_arg dir_is_mod].
  destruct (ends_capy s) eqn:E1; cbn [negb]; [|solve_iff].
  destruct (is_file (c_fs c) (resolve f s)) eqn:E2; cbn [negb]; [|solve_iff].
  destruct (is_sub_dir_of (resolve f s) (c_mod_dir c)) eqn:E3;
    destruct (is_sub_dir_of (resolve f s) (c_cwd c)) eqn:E4; cbn [negb andb orb]; solve_iff;
    try (rewrite E3, E4; reflexivity);
    match goal with H : _ || _ = true |- _ => rewrite E3, E4 in H; discriminate H end.
Qed.

Theorem import_reject_iff : forall c f s,
  (lower_import c f (imp s) = Reject RNotCapy <-> ends_capy s = false)
  /\ (forall p, lower_import c f (imp s) = Reject (RNotFound p) <->
                ends_capy s = true /\ p = resolve f s /\ is_file (c_fs c) p = false)
  /\ (forall p, lower_import c f (imp s) = Reject (ROutside p) <->
                ends_capy s = true /\ p = resolve f s /\ is_file (c_fs c) p = true /\ inside c p = false).
Proof.
  intros c f s. unfold lower_import, imp, inside. cbn [dir_arg dir_is_mod].
  destruct (ends_capy s) eqn:E1; cbn [negb]; [|solve_iff].
  destruct (is_file (c_fs c) (resolve f s)) eqn:E2; cbn [negb]; [|solve_iff].
  destruct (is_sub_dir_of (resolve f s) (c_mod_dir c)) eqn:E3;
    destruct (is_sub_dir_of (resolve f s) (c_cwd c)) eqn:E4; cbn [negb andb orb]; solve_iff;
    try (rewrite E3, E4; reflexivity);
    match goal with H : _ || _ = false |- _ => rewrite E3, E4 in H; discriminate H end.
Qed.

(* an import is rejected exactly when one of the three stated conditions holds *)
Corollary import_rejected_iff : forall c f s,
  (exists r, lower_import c f (imp s) = Reject r) <->
  ends_capy s = false \/ is_file (c_fs c) (resolve f s) = false \/ inside c (resolve f s) = false.
Proof.
  intros c f s. unfold lower_import, imp, inside. cbn [dir_arg dir_is_mod].
  destruct (ends_capy s); cbn [negb]; [|split; eauto].
  destruct (is_file (c_fs c) (resolve f s)); cbn [negb]; [|split; eauto].
  destruct (is_sub_dir_of (resolve f s) (c_mod_dir c)); destruct (is_sub_dir_of (resolve f s) (c_cwd c));
    cbn [negb andb orb]; split; eauto;
    try (intros [r H]; discriminate); intros [H|[H|H]]; discriminate.
Qed.

Definition mod_folder (c : cfg) (s : str) : path :=
  c_mod_dir c ++ (match s with [] => [] | _ => [s] end) ++ [s_src].

Theorem mod_outcome_iff : forall c f s,
  (forall p, lower_import c f (modd s) = Accept p <->
     mod_name_ok c s = true /\ is_dir (c_fs c) (mod_folder c s) = true
     /\ p = clean (mod_folder c s ++ [s_mod_capy]) /\ is_file (c_fs c) p = true)
  /\ (lower_import c f (modd s) = Reject RModNotAlnum <-> mod_name_ok c s = false)
  /\ (lower_import c f (modd s) = Reject RModMissing <->
        mod_name_ok c s = true /\ is_dir (c_fs c) (mod_folder c s) = false)
  /\ (lower_import c f (modd s) = Reject RModNoFile <->
        mod_name_ok c s = true /\ is_dir (c_fs c) (mod_folder c s) = true
        /\ is_file (c_fs c) (clean (mod_folder c s ++ [s_mod_capy])) = false).
Proof.
  intros c f s. unfold lower_import, modd, mod_folder. cbn [dir_arg dir_is_mod].
  destruct (mod_name_ok c s) eqn:E1; cbn [negb]; [|solve_iff].
  destruct (is_dir (c_fs c) (c_mod_dir c ++ match s with [] => [] | _ :: _ => [s] end ++ [s_src])) eqn:E2;
    cbn [negb]; [|solve_iff].
  destruct (is_file (c_fs c) (clean ((c_mod_dir c ++ match s with [] => [] | _ :: _ => [s] end ++ [s_src]) ++ [s_mod_capy]))) eqn:E3;
    cbn [negb]; solve_iff.
Qed.

Lemma mod_name_ok_alnum : forall c s, mod_name_ok c s = true -> forallb is_alnum s = true.
Proof. intros c s H. unfold mod_name_ok in H. apply andb_true_iff in H. tauto. Qed.

(* the alphanumeric module name is directly below the module directory *)
Lemma mod_target_plain : forall c s, s <> [] -> forallb normal (c_mod_dir c) = true -> normal s = true ->
  clean (mod_folder c s ++ [s_mod_capy]) = c_mod_dir c ++ [s; s_src; s_mod_capy].
Proof.
  intros c s Hs Hm Hn. unfold clean, mod_folder. destruct s as [|x s']; [congruence|].
  rewrite fold_normal.
  - cbn [Datatypes.app]. rewrite <- !List.app_assoc. reflexivity.
  - rewrite !List.forallb_app, Hm. cbn [forallb]. rewrite Hn. reflexivity.
Qed.

(* full-strength reading of the statement: only NON-EMPTY alphanumeric names are accepted.
   Stated per code variant. *)
Definition C28_mod_full (fixed : bool) : Prop := forall c f s p,
  c_fixed c = fixed ->
  lower_import c f (modd s) = Accept p -> s <> [] /\ forallb is_alnum s = true.

(* HISTORY (pinned commit, before the repair of C28-1): the statement is false,
   `#mod("")` finds <mod-dir>/src/mod.capy *)
Lemma C28_mod_full_refuted_unfixed : ~ C28_mod_full false.
Proof.
  intros H.
  destruct (H {| c_mod_dir := [[109]%N]; c_cwd := [[119]%N];
                 c_fs := [([[109]%N; s_src], Dir); ([[109]%N; s_src; s_mod_capy], File)];
                 c_fixed := false |}
              [[119]%N; [120]%N] [] [[109]%N; s_src; s_mod_capy]) as [Hne _].
  - reflexivity.
  - vm_compute. reflexivity.
  - apply Hne. reflexivity.
Qed.

(* the repaired code (`file.is_empty() || !all alphanumeric` -> ModMustBeAlphanumeric) *)
Theorem C28_mod_full_fixed : C28_mod_full true.
Proof.
  intros c f s p Hfix H. apply (proj1 (mod_outcome_iff c f s)) in H. destruct H as (H1 & _).
  split; [|eapply mod_name_ok_alnum; eauto].
  unfold mod_name_ok in H1. rewrite Hfix in H1. apply andb_true_iff in H1. destruct H1 as [_ H1].
  intros ->. discriminate.
Qed.

(* ...and what holds for both variants *)
Theorem mod_accept_only_alnum : forall c f s p,
  lower_import c f (modd s) = Accept p ->
  forallb is_alnum s = true /\ is_file (c_fs c) p = true
  /\ (s <> [] -> forallb normal (c_mod_dir c) = true -> p = c_mod_dir c ++ [s; s_src; s_mod_capy]).
Proof.
  intros c f s p H. apply (proj1 (mod_outcome_iff c f s)) in H. destruct H as (H1 & H2 & H3 & H4).
  apply mod_name_ok_alnum in H1.
  repeat split; auto. intros Hs Hm. subst p. apply mod_target_plain; auto.
  (* an alphanumeric non-empty name is a normal component *)
  destruct s as [|x s']; [congruence|]. cbn [forallb] in H1. apply andb_true_iff in H1. destruct H1 as [Hx _].
  unfold normal, s_dot, s_dotdot. cbn [str_eqb negb andb].
  assert (Hd : (x =? 46)%N = false).
  { apply N.eqb_neq. intros ->. vm_compute in Hx. discriminate. }
  rewrite Hd. reflexivity.
Qed.

(* ---------- the work list ---------------------------------------------------------- *)
Lemma accept_is_file : forall c f d p, lower_import c f d = Accept p -> is_file (c_fs c) p = true.
Proof.
  intros c f [m a] p H. destruct a as [| n | | s]; try (cbn in H; discriminate).
  destruct m.
  - apply (proj1 (mod_outcome_iff c f s)) in H. tauto.
  - apply import_accept_iff in H. tauto.
Qed.

Lemma accepted_In : forall os p, In p (accepted os) <-> In (Accept p) os.
Proof.
  induction os as [|o os IH]; intros p; cbn [accepted In]; [tauto|].
  destruct o as [q|r]; cbn [In]; rewrite IH; split; intros H.
  - destruct H as [->|H]; auto.
  - destruct H as [H|H]; [inversion H; auto | auto].
  - auto.
  - destruct H as [H|H]; [discriminate | auto].
Qed.

Lemma is_file_in_files : forall fs p, is_file fs p = true -> In p (fs_files fs).
Proof.
  unfold is_file. induction fs as [|[q k] fs IH]; intros p H; cbn [fs_lookup] in H; [discriminate|].
  destruct (path_eqb q p) eqn:E.
  - apply path_eqb_eq in E. subst q. destruct k; [|discriminate]. cbn [fs_files]. left. reflexivity.
  - destruct k; cbn [fs_files]; [right|]; apply IH; exact H.
Qed.

Section WorkList.
  Variable c : cfg.
  Variable pr : program.
  Variable main : path.
  (* every file of the file system can be read (the program text is known) *)
  Hypothesis readable : forall p, is_file (c_fs c) p = true -> exists ds, prog_lookup pr p = Some ds.

  Definition edge (f g : path) : Prop := exists is, imports_of c pr f = Ok is /\ In g is.

  Inductive reach : path -> Prop :=
  | reach_main : reach main
  | reach_step : forall f g, reach f -> edge f g -> reach g.

  Lemma imports_ok : forall f, is_file (c_fs c) f = true ->
    exists is, imports_of c pr f = Ok is /\ forall g, In g is -> is_file (c_fs c) g = true.
  Proof.
    intros f Hf. destruct (readable f Hf) as [ds Hds]. unfold imports_of. rewrite Hds.
    eexists. split; [reflexivity|]. intros g Hg. apply accepted_In in Hg.
    apply in_map_iff in Hg. destruct Hg as (d & Hd & _). eapply accept_is_file; eauto.
  Qed.

  (* invariant of the inner loop *)
  Definition Binv (todo visited next : list path) : Prop :=
    NoDup visited /\ In main visited
    /\ (forall x, In x visited \/ In x todo \/ In x next -> reach x /\ is_file (c_fs c) x = true)
    /\ (forall v g, In v visited -> edge v g -> In g visited \/ In g todo \/ In g next).

  Lemma batch_ok : forall todo visited next, Binv todo visited next ->
    exists v' n', batch c pr todo visited next = Ok (v', n') /\ Binv [] v' n'
      /\ ((length v' = length visited /\ n' = next) \/ (length visited < length v')%nat).
  Proof.
    induction todo as [|f r IH]; intros visited next (Hnd & Hm & Hr & Hc).
    - exists visited, next. cbn [batch]. split; [reflexivity|]. split; [unfold Binv; auto|]. left. split; reflexivity.
    - cbn [batch]. destruct (mem f visited) eqn:Em.
      + apply mem_In in Em. apply IH. unfold Binv. refine (conj Hnd (conj Hm (conj _ _))).
        * intros y Hy. apply Hr. cbn [In]. tauto.
        * intros v g Hv He. destruct (Hc v g Hv He) as [H|[H|H]]; auto.
          destruct H as [<-|H]; auto.
      + assert (Hnin : ~ In f visited).
        { intros H. apply mem_In in H. congruence. }
        destruct (Hr f) as [Hrf Hff]; [cbn [In]; tauto|].
        destruct (imports_ok f Hff) as (is & His & Hfiles). rewrite His. cbn [bind].
        destruct (IH (visited ++ [f]) (next ++ is)) as (v' & n' & Hb & Hinv & Hlen).
        { unfold Binv. refine (conj _ (conj _ (conj _ _))).
          - apply NoDup_app_one; auto.
          - apply in_or_app. auto.
          - intros y Hy. rewrite !in_app_iff in Hy. cbn [In] in Hy.
            destruct Hy as [[Hy|[<-|[]]]|[Hy|[Hy|Hy]]].
            + apply Hr. tauto.
            + tauto.
            + apply Hr. cbn [In]. tauto.
            + apply Hr. tauto.
            + split; [eapply reach_step; [exact Hrf | exists is; auto] | apply Hfiles; exact Hy].
          - intros v g Hv He. rewrite in_app_iff in Hv. cbn [In] in Hv.
            rewrite !in_app_iff. cbn [In].
            destruct Hv as [Hv|[<-|[]]].
            + destruct (Hc v g Hv He) as [H|[H|H]]; auto. destruct H as [<-|H]; auto.
            + destruct He as (is' & His' & Hg). rewrite His in His'. inversion His'. subst is'. auto. }
        exists v', n'. split; [exact Hb|]. split; [exact Hinv|].
        right. rewrite List.app_length in Hlen. cbn [length] in Hlen. lia.
  Qed.

  (* the outer loop; k counts the files not yet compiled *)
  Lemma work_ok : forall fuel visited current,
    Binv [] visited current ->
    (length (fs_files (c_fs c)) - length visited + 2 <= fuel)%nat ->
    exists evs, work fuel c pr visited current = Ok evs /\ Binv [] evs [].
  Proof.
    induction fuel as [|n IH]; intros visited current Hinv Hfuel; [lia|].
    cbn [work]. destruct current as [|x cur].
    - exists visited. auto.
    - destruct Hinv as (Hnd & Hm & Hr & Hc).
      destruct (batch_ok (x :: cur) visited []) as (v' & n' & Hb & Hinv' & Hlen).
      { unfold Binv. refine (conj Hnd (conj Hm (conj _ _))).
        - intros y Hy. apply Hr. tauto.
        - intros v g Hv He. destruct (Hc v g Hv He) as [H|[[]|H]]; auto. }
      rewrite Hb. cbn [bind fst snd].
      assert (Hbound : (length v' <= length (fs_files (c_fs c)))%nat).
      { destruct Hinv' as (Hnd' & _ & Hr' & _). apply NoDup_incl_length; auto.
        intros y Hy. apply is_file_in_files. apply Hr'. auto. }
      destruct Hlen as [[Hl ->]|Hl].
      + (* nothing new: the next round sees an empty list *)
        destruct n as [|n']; [lia|]. cbn [work]. exists v'. auto.
      + apply IH; auto. lia.
  Qed.

  Theorem worklist_visits_reachable_once :
    is_file (c_fs c) main = true ->
    exists evs, compile_all c pr main = Ok evs /\ NoDup evs /\ (forall f, In f evs <-> reach f).
  Proof.
    intros Hmain. unfold compile_all.
    destruct (imports_ok main Hmain) as (is & His & Hfiles). rewrite His. cbn [bind].
    destruct (work_ok (S (S (length (fs_files (c_fs c))))) [main] is) as (evs & Hw & Hinv).
    - unfold Binv. refine (conj _ (conj _ (conj _ _))).
      + constructor; [intros [] | constructor].
      + left. reflexivity.
      + intros y [[<-|[]]|[[]|Hy]]; [split; [constructor | exact Hmain]|].
        split; [eapply reach_step; [constructor | exists is; auto] | apply Hfiles; exact Hy].
      + intros v g [<-|[]] (is' & His' & Hg). rewrite His in His'. inversion His'. subst. auto.
    - cbn [length]. lia.
    - exists evs. split; [exact Hw|]. destruct Hinv as (Hnd & Hm & Hr & Hc). split; [exact Hnd|].
      intros f. split.
      + intros Hf. apply Hr. auto.
      + intros Hf. induction Hf as [|f g _ IHf He]; [exact Hm|].
        destruct (Hc f g IHf He) as [H|[[]|[]]]. exact H.
  Qed.
End WorkList.
