(* C11 — proofs about the code generated for an accepted switch
   (Model/Switch.v compile_switch / run_table) against Spec/SwitchSpec.v. *)
From Capy Require Import Common.Util Model.Switch Spec.SwitchSpec Proofs.SwitchDiscr Proofs.SwitchCheck.

(* the j-th member of the sum type is t *)
Definition member (sh : shape) (t : vty) (j : nat) : Prop := nth_error (variants_of sh) j = Some t.

(* ------------------------------------------------------ names, decidably *)
Lemma namesb_iff : forall sh a j, namesb sh a j = true <-> names sh a j.
Proof.
  intros sh a j. unfold namesb, names. destruct (nth_error (variants_of sh) j) as [vt|] eqn:Hn.
  - destruct a as [n|t|].
    + destruct vt as [x|v].
      * split; [discriminate|]. intros (vt' & E & [H|(_ & v & Hv & _)]); inversion E; subst; discriminate.
      * rewrite andb_true_iff, N.eqb_eq. split.
        -- intros [He Hname]. exists (TV v). split; auto. right. split; auto. exists v. subst n. auto.
        -- intros (vt' & E & [H|(He & v' & Hv & Ha)]); [inversion E; subst; discriminate|].
           inversion E as [E']. rewrite Hv in E'. inversion E'; subst v'. inversion Ha. split; auto.
    + rewrite vty_eqb_eq. split.
      * intros ->. exists t. auto.
      * intros (vt' & E & [H|(_ & v & _ & Ha)]); inversion E; subst; [inversion H; auto | discriminate].
    + split; [discriminate|]. intros (vt' & _ & [H|(_ & v & _ & Ha)]); discriminate.
  - split; [discriminate|]. intros (vt' & E & _). discriminate.
Qed.

Lemma names_unique : forall sh a j j', wf_shape sh -> names sh a j -> names sh a j' -> j = j'.
Proof.
  intros sh a j j' Hwf H1 H2.
  destruct (names_finds _ _ _ Hwf H1) as [_ F1]. destruct (names_finds _ _ _ Hwf H2) as [_ F2].
  unfold finds in *. rewrite F1 in F2. inversion F2. reflexivity.
Qed.

Lemma names_member : forall sh a j, names sh a j -> exists t, member sh t j.
Proof. intros sh a j (vt & Hn & _). exists vt. exact Hn. Qed.

Lemma arm_for_index : forall sh arms js j,
  wf_shape sh -> Forall2 (names sh) arms js ->
  forall k, arm_for sh arms j k = find_index (Nat.eqb j) js k.
Proof.
  intros sh arms js j Hwf HF. induction HF as [|a ja arms js Hn HF IH]; intros k; cbn [arm_for find_index]; auto.
  destruct (Nat.eqb_spec j ja) as [->|Hne].
  - replace (namesb sh a ja) with true by (symmetry; apply namesb_iff; exact Hn). reflexivity.
  - destruct (namesb sh a j) eqn:E.
    + apply namesb_iff in E. exfalso. apply Hne. eapply names_unique; eauto.
    + apply IH.
Qed.

(* ------------------------------------------------------------- arm types *)
Lemma find_name_unique : forall vs j v,
  NoDup (map v_name vs) -> nth_error vs j = Some v ->
  find (fun w => N.eqb (v_name w) (v_name v)) vs = Some v.
Proof.
  induction vs as [|w r IH]; intros j v Hnd Hn; [destruct j; discriminate|].
  cbn [find]. destruct j as [|j]; cbn in Hn.
  - inversion Hn; subst. rewrite N.eqb_refl. reflexivity.
  - cbn [map] in Hnd. inversion Hnd as [|? ? Hnotin Hnd']; subst.
    destruct (N.eqb_spec (v_name w) (v_name v)) as [E|E].
    + exfalso. apply Hnotin. rewrite E. apply in_map. eapply nth_error_In; eauto.
    + eapply IH; eauto.
Qed.

Lemma names_arm_vty : forall sh a j,
  wf_shape sh -> names sh a j -> exists t, arm_vty sh a = Ok t /\ member sh t j.
Proof.
  intros sh a j (Hns & Hnd & Hen) (vt & Hn & [Ha|(He & v & Hv & Ha)]); subst a.
  - exists vt. split; [reflexivity | exact Hn].
  - destruct sh as [uid vs|sub|e p|]; try discriminate. destruct Hen as [Hnames _]. subst vt.
    exists (TV v). split; [|exact Hn]. cbn [arm_vty].
    assert (Hv : nth_error vs j = Some v).
    { cbn [variants_of] in Hn. rewrite nth_error_map in Hn. destruct (nth_error vs j); inversion Hn; subst; reflexivity. }
    rewrite (find_name_unique vs j v Hnames Hv). reflexivity.
Qed.

Lemma arm_vtys_ok : forall sh arms js,
  wf_shape sh -> Forall2 (names sh) arms js ->
  exists ts, arm_vtys sh arms = Ok ts /\ Forall2 (member sh) ts js.
Proof.
  intros sh arms js Hwf HF. induction HF as [|a j arms js Hn HF IH]; cbn [arm_vtys].
  - exists []. split; [reflexivity | constructor].
  - destruct IH as (ts & Hts & Hm). destruct (names_arm_vty _ _ _ Hwf Hn) as (t & Ht & Htm).
    rewrite Ht. cbn [bind]. rewrite Hts. cbn [bind]. exists (t :: ts). split; [reflexivity | constructor; auto].
Qed.

(* ---------------------------------------------------------- discriminants *)
Definition Dj (sh : shape) (j : nat) : N :=
  match nth_error (variants_of sh) j with
  | Some t => match get_discrim sh t with Ok (Some d) => d | _ => 0%N end
  | None => 0%N
  end.

Lemma vty_eqb_false : forall a b, a <> b -> vty_eqb a b = false.
Proof. intros a b H. destruct (vty_eqb a b) eqn:E; auto. apply vty_eqb_eq in E. contradiction. Qed.

Lemma get_discrim_member : forall sh t j,
  wf_shape sh -> wf_tags sh -> is_tagged sh = true -> member sh t j ->
  get_discrim sh t = Ok (Some (Dj sh j)) /\ (Dj sh j < 256)%N.
Proof.
  intros sh t j (Hns & Hnd & Hen) Htags Htag Hm. unfold member in Hm. unfold Dj. rewrite Hm.
  destruct sh as [uid vs|sub|e p|]; cbn [variants_of] in *.
  - destruct Hen as [_ Heuid]. destruct Htags as [_ Hlt].
    rewrite nth_error_map in Hm. destruct (nth_error vs j) as [v|] eqn:Hv; inversion Hm; try subst t.
    cbn [get_discrim]. rewrite Forall_forall in Heuid, Hlt.
    assert (Hin : In v vs) by (eapply nth_error_In; eauto).
    rewrite (Heuid v Hin), N.eqb_refl. split; [reflexivity | apply Hlt; exact Hin].
  - cbn [is_tagged] in Htag. apply negb_true_iff in Htag. cbn [get_discrim]. rewrite Htag.
    inversion Hnd as [|? ? Hnotin _]; subst.
    destruct j as [|[|j]]; cbn in Hm; inversion Hm; try subst t.
    + destruct sub as [[|u|i r]|v]; try (rewrite vty_eqb_refl; split; [reflexivity | lia]).
      exfalso. apply Hnotin. left. reflexivity.
    + split; [reflexivity | lia].
    + destruct j; discriminate.
  - cbn [get_discrim]. inversion Hnd as [|? ? Hnotin _]; subst.
    destruct j as [|[|j]]; cbn in Hm; inversion Hm; try subst t.
    + rewrite vty_eqb_refl. split; [reflexivity | lia].
    + rewrite vty_eqb_false by (intros ->; apply Hnotin; left; reflexivity).
      rewrite vty_eqb_refl. split; [reflexivity | lia].
    + destruct j; discriminate.
  - discriminate.
Qed.

Lemma Dj_opt : forall sub, is_non_zero sub = false -> sub <> TA ANil ->
  Dj (SOpt sub) 0 = 1%N /\ Dj (SOpt sub) 1 = 0%N.
Proof.
  intros sub Hnz Hsub. unfold Dj. cbn [variants_of nth_error get_discrim]. rewrite Hnz. split; [|reflexivity].
  destruct sub as [[|u|i r]|v]; try (rewrite vty_eqb_refl; reflexivity). contradiction.
Qed.

Lemma Dj_err : forall e p, e <> p -> Dj (SErr e p) 0 = 0%N /\ Dj (SErr e p) 1 = 1%N.
Proof.
  intros e p Hne. unfold Dj. cbn [variants_of nth_error get_discrim]. rewrite !vty_eqb_refl.
  rewrite (vty_eqb_false p e) by (intros E; apply Hne; symmetry; exact E). split; reflexivity.
Qed.

Lemma Dj_injective : forall sh j j' t t',
  wf_shape sh -> wf_tags sh -> is_tagged sh = true ->
  member sh t j -> member sh t' j' -> Dj sh j = Dj sh j' -> j = j'.
Proof.
  intros sh j j' t t' Hwf Htags Htag Hm Hm' HD.
  pose proof (get_discrim_member _ _ _ Hwf Htags Htag Hm) as [G _].
  pose proof (get_discrim_member _ _ _ Hwf Htags Htag Hm') as [G' _].
  destruct Hwf as (Hns & Hnd & Hen). unfold member in *.
  destruct sh as [uid vs|sub|e p|]; cbn [variants_of] in *.
  - destruct Htags as [Hdn _].
    rewrite nth_error_map in Hm, Hm'.
    destruct (nth_error vs j) as [v|] eqn:Hv; inversion Hm; try subst t.
    destruct (nth_error vs j') as [v'|] eqn:Hv'; inversion Hm'; try subst t'.
    cbn [get_discrim] in G, G'.
    destruct (N.eqb uid (v_euid v)); [|discriminate]. destruct (N.eqb uid (v_euid v')); [|discriminate].
    inversion G as [Gd]. inversion G' as [Gd']. rewrite <- Gd, <- Gd' in HD.
    eapply (NoDup_map_nth _ _ v_discr vs j j' v v'); eauto.
  - cbn [is_tagged] in Htag. apply negb_true_iff in Htag.
    inversion Hnd as [|? ? Hnotin _]; subst.
    assert (Hsub : sub <> TA ANil) by (intros ->; apply Hnotin; left; reflexivity).
    destruct (Dj_opt sub Htag Hsub) as [D0 D1].
    destruct j as [|[|j]]; destruct j' as [|[|j']]; auto;
      try (cbn in Hm; destruct j; discriminate); try (cbn in Hm'; destruct j'; discriminate);
      rewrite ?D0, ?D1 in HD; discriminate.
  - inversion Hnd as [|? ? Hnotin _]; subst.
    assert (Hne : e <> p) by (intros ->; apply Hnotin; left; reflexivity).
    destruct (Dj_err e p Hne) as [D0 D1].
    destruct j as [|[|j]]; destruct j' as [|[|j']]; auto;
      try (cbn in Hm; destruct j; discriminate); try (cbn in Hm'; destruct j'; discriminate);
      rewrite ?D0, ?D1 in HD; discriminate.
  - discriminate.
Qed.

(* ------------------------------------------------------------ set_entries *)
Lemma set_entries_ok : forall sh ts js,
  wf_shape sh -> wf_tags sh -> is_tagged sh = true ->
  Forall2 (member sh) ts js -> NoDup js ->
  forall i acc,
    (forall j, In j js -> ~ In (Dj sh j) (map fst acc)) ->
    set_entries sh i ts acc = Ok (rev acc ++ combine (map (Dj sh) js) (seq i (length js))).
Proof.
  intros sh ts js Hwf Htags Htag HF. induction HF as [|t j ts js Hm HF IH]; intros Hnd i acc Hacc.
  - cbn. rewrite app_nil_r. reflexivity.
  - cbn [set_entries]. destruct (get_discrim_member _ _ _ Hwf Htags Htag Hm) as [G _].
    rewrite G. cbn [bind].
    assert (Hmem : memN (Dj sh j) (map fst acc) = false).
    { apply memN_false. apply Hacc. left. reflexivity. }
    rewrite Hmem. inversion Hnd as [|? ? Hnotin Hnd']; subst.
    rewrite IH; auto.
    + cbn [rev length seq map combine]. rewrite <- app_assoc. reflexivity.
    + intros j' Hj' Hin. cbn [map fst In] in Hin. destruct Hin as [E|Hin].
      * assert (Hm' : exists t', member sh t' j').
        { clear - HF Hj'. induction HF as [|t0 j0 ts js H0 HF IH]; [destruct Hj'|].
          destruct Hj' as [->|Hj']; eauto. }
        destruct Hm' as [t' Hm'].
        assert (j = j') by (eapply Dj_injective; eauto). subst j'. contradiction.
      * apply (Hacc j'); [right; exact Hj' | exact Hin].
Qed.

Lemma max_entry_le : forall es, Forall (fun e => (fst e < 256)%N) es -> (max_entry es <= 255)%N.
Proof.
  induction es as [|e r IH]; intros H; cbn [max_entry fold_right]; [lia|].
  inversion H; subst. specialize (IH H3). fold (max_entry r). lia.
Qed.

Lemma lookup_entry_combine : forall sh js j t,
  wf_shape sh -> wf_tags sh -> is_tagged sh = true ->
  member sh t j -> (forall j', In j' js -> exists t', member sh t' j') ->
  forall i, lookup_entry (combine (map (Dj sh) js) (seq i (length js))) (Dj sh j)
            = find_index (Nat.eqb j) js i.
Proof.
  intros sh js j t Hwf Htags Htag Hm. induction js as [|j0 js IH]; intros Hall i; cbn; auto.
  destruct (Nat.eqb_spec j j0) as [->|Hne].
  - rewrite N.eqb_refl. reflexivity.
  - destruct (N.eqb_spec (Dj sh j0) (Dj sh j)) as [E|E].
    + exfalso. destruct (Hall j0 (or_introl eq_refl)) as [t0 Hm0].
      apply Hne. symmetry. eapply Dj_injective; eauto.
    + apply IH. intros j' Hj'. apply Hall. right. exact Hj'.
Qed.

(* ------------------------------------------------------------------ binds *)
Lemma member_has_sum_variant : forall sh t j, member sh t j -> has_sum_variant sh t = true.
Proof. intros sh t j Hm. apply in_variants_has_sum_variant. eapply nth_error_In; eauto. Qed.

Lemma binds_ok : forall sh with_arg ts js,
  Forall2 (member sh) ts js ->
  (with_arg = true -> is_tagged sh = true -> Forall (fun t => repr_of t <> RPtr) ts) ->
  (is_tagged sh = false -> exists sub, sh = SOpt sub /\ is_non_zero sub = true /\ sub <> TA ANil) ->
  exists bs, binds_of sh with_arg ts = Ok bs /\
    forall i j, nth_error js i = Some j -> nth_error bs i = expected_bind sh with_arg j.
Proof.
  intros sh with_arg ts js HF. induction HF as [|t j ts js Hm HF IH]; intros Hptr Hnull; cbn [binds_of].
  - exists []. split; [reflexivity|]. intros [|i] j H; discriminate.
  - destruct IH as (bs & Hbs & Hnth).
    { intros Hw Ht. specialize (Hptr Hw Ht). inversion Hptr; auto. }
    { exact Hnull. }
    assert (Hb : exists b, (if with_arg then unwrap_sum_ty sh t else Ok BNoArg) = Ok b /\
                           Some b = expected_bind sh with_arg j).
    { unfold expected_bind. unfold member in Hm. rewrite Hm.
      destruct with_arg; cbn [negb]; [|eexists; split; reflexivity].
      unfold unwrap_sum_ty. rewrite (member_has_sum_variant _ _ _ Hm). cbn [negb].
      destruct (is_tagged sh) eqn:Htag; cbn [negb].
      - specialize (Hptr eq_refl eq_refl). inversion Hptr as [|? ? Hnp _]; subst.
        destruct (repr_of t); try (eexists; split; reflexivity). contradiction.
      - destruct (Hnull eq_refl) as (sub & -> & Hnz & Hsub).
        cbn [variants_of] in Hm. destruct j as [|[|j]]; cbn in Hm; inversion Hm; try subst t.
        + rewrite vty_eqb_false by exact Hsub. rewrite Hnz.
          destruct sub as [[|u|i r]|v]; try (eexists; split; reflexivity). contradiction.
        + cbn. eexists; split; reflexivity.
        + destruct j; discriminate. }
    destruct Hb as (b & Hb & Hexp). rewrite Hb. cbn [bind]. rewrite Hbs. cbn [bind].
    exists (b :: bs). split; [reflexivity|].
    intros [|i] j' Hj'; cbn in Hj' |- *.
    + inversion Hj'; subst. exact Hexp.
    + apply Hnth. exact Hj'.
Qed.

(* ------------------------------------------------------------ find_index *)
Lemma find_index_none_notin : forall j js k, find_index (Nat.eqb j) js k = None -> ~ In j js.
Proof.
  induction js as [|x r IH]; intros k H; [intros []|]. cbn [find_index] in H.
  destruct (Nat.eqb_spec j x); [discriminate|]. intros [E|Hin]; [congruence|]. eapply IH; eauto.
Qed.

Lemma find_index_nth : forall j js k i, find_index (Nat.eqb j) js k = Some i ->
  k <= i /\ nth_error js (i - k) = Some j.
Proof.
  intros j js k i H. apply find_index_some in H. destruct H as (Hle & x & Hn & Hp & _).
  apply Nat.eqb_eq in Hp. subst x. auto.
Qed.

(* --------------------------------------------------------- ptr payload arms *)
Lemma no_ptr_arm : forall sh a j t,
  wf_shape sh -> names sh a j -> member sh t j -> ptr_payload_arm sh a = false -> repr_of t <> RPtr.
Proof.
  intros sh a j t Hwf (vt & Hn & Hcase) Hm Hp. unfold member in Hm. rewrite Hn in Hm. inversion Hm; subst vt.
  destruct Hcase as [->|(He & v & -> & ->)].
  - cbn [ptr_payload_arm] in Hp. unfold is_non_zero in Hp. intros E. rewrite E in Hp. discriminate.
  - destruct sh as [uid vs|sub|e p|]; try discriminate. cbn [ptr_payload_arm] in Hp.
    intros E. assert (Hin : In v vs).
    { cbn [variants_of] in Hn. apply nth_error_In in Hn. apply in_map_iff in Hn. destruct Hn as (w & Hw & Hin).
      inversion Hw; subst. exact Hin. }
    assert (Hex : existsb (fun v0 => N.eqb (v_name v0) (v_name v) && is_non_zero (TV v0)) vs = true).
    { apply existsb_exists. exists v. split; auto. rewrite N.eqb_refl. unfold is_non_zero. rewrite E. reflexivity. }
    rewrite Hex in Hp. discriminate.
Qed.

(* ------------------------------------------------------------ the theorem *)
Theorem dispatch_exact : forall sh arms dflt with_arg,
  wf_shape sh -> wf_tags sh ->
  check_switch (mkScrut [] sh) arms dflt = Ok [] ->
  known_codegen_class sh arms dflt with_arg = None ->
  forall j, j < length (variants_of sh) ->
    dispatch sh arms dflt with_arg j = Ok (spec_outcome sh arms with_arg j).
Proof.
  intros sh arms dflt with_arg Hwf Htags Hchk Hk j Hj.
  apply (check_accepts_iff sh arms dflt Hwf) in Hchk. destruct Hchk as (js & HF & Hnd & Hcov).
  destruct (arm_vtys_ok sh arms js Hwf HF) as (ts & Hts & Hmem).
  destruct (nth_error (variants_of sh) j) as [tj|] eqn:Htj;
    [|apply nth_error_None in Htj; lia].
  assert (Hjs_mem : forall j', In j' js -> exists t', member sh t' j').
  { clear - HF. induction HF as [|a j0 arms js Hn HF IH]; intros j' Hj'; [destruct Hj'|].
    destruct Hj' as [->|Hj']; [eapply names_member; eauto | auto]. }
  unfold known_codegen_class in Hk.
  unfold dispatch, compile_switch, spec_outcome. rewrite Hts. cbn [bind].
  rewrite (arm_for_index sh arms js j Hwf HF 0).
  destruct (is_tagged sh) eqn:Htag.
  - (* tagged union: Cranelift Switch on the tag *)
    cbn [negb andb] in Hk. rewrite andb_true_r in Hk.
    assert (Hptr : with_arg = true -> is_tagged sh = true -> Forall (fun t => repr_of t <> RPtr) ts).
    { intros -> _. cbn [andb] in Hk.
      destruct (existsb (ptr_payload_arm sh) arms) eqn:Hex; [discriminate|].
      clear - HF Hmem Hex Hwf. revert ts Hmem.
      induction HF as [|a j0 arms js Hn HF IH]; intros ts Hmem; inversion Hmem; subst; constructor.
      - cbn [existsb] in Hex. apply orb_false_iff in Hex. destruct Hex as [Ha _].
        eapply no_ptr_arm; eauto.
      - cbn [existsb] in Hex. apply orb_false_iff in Hex. destruct Hex as [_ Hr]. apply IH; auto. }
    rewrite (set_entries_ok sh ts js Hwf Htags Htag Hmem Hnd 0 []) by (intros ? ? []).
    cbn [rev app].
    assert (Hlt : Forall (fun e => (fst e < 256)%N) (combine (map (Dj sh) js) (seq 0 (length js)))).
    { apply Forall_forall. intros [d k] Hin. apply in_combine_l in Hin. apply in_map_iff in Hin.
      destruct Hin as (j' & <- & Hj'). destruct (Hjs_mem j' Hj') as [t' Hm'].
      apply (get_discrim_member _ _ _ Hwf Htags Htag Hm'). }
    pose proof (max_entry_le _ Hlt) as Hmax.
    assert (Hlt255 : (255 <? max_entry (combine (map (Dj sh) js) (seq 0 (length js))))%N = false)
      by (apply N.ltb_ge; exact Hmax).
    destruct (binds_ok sh with_arg ts js Hmem Hptr) as (bs & Hbs & Hnth); [rewrite Htag; discriminate|].
    rewrite Hbs. cbn [bind].
    unfold encode. rewrite Htj, Htag.
    destruct (get_discrim_member sh tj j Hwf Htags Htag Htj) as [G Hd]. rewrite G. cbn [bind].
    rewrite N.mod_small by exact Hd. rewrite Hlt255. cbn [bind run_table].
    rewrite (lookup_entry_combine sh js j tj Hwf Htags Htag Htj Hjs_mem 0).
    destruct (find_index (Nat.eqb j) js 0) as [i|] eqn:Hfi.
    + apply find_index_nth in Hfi. destruct Hfi as [_ Hi]. rewrite Nat.sub_0_r in Hi.
      rewrite (Hnth i j Hi). reflexivity.
    + apply find_index_none_notin in Hfi.
      destruct Hcov as [->|Hcov]; [reflexivity | exfalso; apply Hfi, Hcov, Hj].
  - (* nullable pointer *)
    cbn [negb andb] in Hk. destruct dflt; [discriminate|]. clear Hk.
    destruct Hcov as [Hc|Hcov]; [discriminate|].
    pose proof Hwf as (Hns & Hndv & _).
    destruct sh as [uid vs|sub|e p|]; try discriminate; [|exfalso; apply Hns; reflexivity].
    cbn [is_tagged] in Htag. apply negb_false_iff in Htag.
    cbn [variants_of length] in Hcov, Hj, Hjs_mem.
    assert (Hsub : sub <> TA ANil).
    { cbn [variants_of] in Hndv. inversion Hndv as [|? ? Hnotin _]; subst. intros ->. apply Hnotin. left. reflexivity. }
    (* js is a permutation of [0; 1] *)
    assert (Hjs : js = [0; 1] \/ js = [1; 0]).
    { assert (H0 : In 0 js) by (apply Hcov; lia). assert (H1 : In 1 js) by (apply Hcov; lia).
      assert (Hb : forall x, In x js -> x = 0 \/ x = 1).
      { intros x Hx. destruct (Hjs_mem x Hx) as [t' Hm']. unfold member in Hm'. cbn [variants_of] in Hm'.
        destruct x as [|[|x]]; auto. destruct x; discriminate. }
      destruct js as [|a [|b [|c r]]].
      - destruct H0.
      - destruct H0 as [->|[]]. destruct H1 as [E|[]]. discriminate.
      - inversion Hnd as [|? ? Hn1 _]; subst.
        destruct (Hb a (or_introl eq_refl)) as [->| ->];
        destruct (Hb b (or_intror (or_introl eq_refl))) as [->| ->]; auto;
          exfalso; apply Hn1; left; reflexivity.
      - exfalso. inversion Hnd as [|? ? Hn1 Hnd1]; subst. inversion Hnd1 as [|? ? Hn2 Hnd2]; subst.
        inversion Hnd2 as [|? ? Hn3 _]; subst.
        destruct (Hb a (or_introl eq_refl)) as [->| ->];
        destruct (Hb b (or_intror (or_introl eq_refl))) as [->| ->];
        destruct (Hb c (or_intror (or_intror (or_introl eq_refl)))) as [->| ->];
          try (apply Hn1; cbn; tauto); try (apply Hn2; cbn; tauto). }
    assert (Hnull : is_tagged (SOpt sub) = false -> exists s0, SOpt sub = SOpt s0 /\ is_non_zero s0 = true /\ s0 <> TA ANil).
    { intros _. exists sub. auto. }
    destruct (binds_ok (SOpt sub) with_arg ts js Hmem) as (bs & Hbs & Hnth); [cbn [is_tagged]; rewrite Htag; discriminate | exact Hnull |].
    unfold encode. rewrite Htj. cbn [is_tagged]. rewrite Htag. cbn [negb bind].
    unfold member in Hmem. cbn [variants_of] in Hmem, Htj.
    assert (Hts2 : forall a b, js = [a; b] -> exists ta tb, ts = [ta; tb] /\
              nth_error [sub; TA ANil] a = Some ta /\ nth_error [sub; TA ANil] b = Some tb).
    { intros a b E. rewrite E in Hmem. inversion Hmem as [|x1 y1 l1 l1' Hx1 Hr1]; subst.
      inversion Hr1 as [|x2 y2 l2 l2' Hx2 Hr2]; subst. inversion Hr2; subst. eauto. }
    destruct Hjs as [E | E]; destruct (Hts2 _ _ E) as (ta & tb & Ets & Ha & Hb);
      cbn in Ha, Hb; inversion Ha; inversion Hb; subst ta tb js ts; cbn [length Nat.eqb negb].
    + (* arms: payload, nil *)
      assert (Hin : index_of_nil [sub; TA ANil] 0 = Some 1).
      { cbn [index_of_nil]. destruct sub as [[|u|i r]|v]; try reflexivity. contradiction. }
      rewrite Hin, Hbs. cbn [bind Nat.eqb].
      destruct j as [|[|j]]; cbn in Htj; inversion Htj; try subst tj; [| |destruct j; discriminate].
      * rewrite vty_eqb_false by exact Hsub. cbn [run_table find_index Nat.eqb].
        rewrite (Hnth 0 0 eq_refl). reflexivity.
      * cbn [vty_eqb aty_eqb run_table find_index Nat.eqb]. rewrite (Hnth 1 1 eq_refl). reflexivity.
    + (* arms: nil, payload *)
      assert (Hin : index_of_nil [TA ANil; sub] 0 = Some 0) by reflexivity.
      rewrite Hin, Hbs. cbn [bind Nat.eqb].
      destruct j as [|[|j]]; cbn in Htj; inversion Htj; try subst tj; [| |destruct j; discriminate].
      * rewrite vty_eqb_false by exact Hsub. cbn [run_table find_index Nat.eqb].
        rewrite (Hnth 1 0 eq_refl). reflexivity.
      * cbn [vty_eqb aty_eqb run_table find_index Nat.eqb]. rewrite (Hnth 0 1 eq_refl). reflexivity.
Qed.

(* the discriminants computed by the enum declaration give well-formed tags
   whenever the bound of [discriminants_bound] is at most 256 *)
Theorem enum_wf_tags : forall uid vs ms ds,
  assign_discriminants ms = Ok ds -> map v_discr vs = ds ->
  (manual_max_plus1 ms + count_none (fst (pass1 [] ms)) <= 256)%N ->
  wf_tags (SEnum uid vs).
Proof.
  intros uid vs ms ds Ha Hmap Hb. cbn [wf_tags]. split.
  - rewrite Hmap. apply (discriminants_distinct ms ds Ha).
  - pose proof (discriminants_bound ms ds Ha) as Hf. rewrite <- Hmap in Hf.
    rewrite Forall_map in Hf. eapply Forall_impl; [|exact Hf]. cbn beta. intros v Hv. lia.
Qed.
