(* C12: the common type chosen by Ty::max accepts both operands, for ALL types outside the
   exact classes of [known_max] (Spec/TyLaws.v). *)
From Capy Require Import Common.Util Common.Ty.
From Capy Require Import Model.TyRel Model.ExpectMatch Spec.TyLaws Proofs.TyRelBasics.
Local Arguments ty_eqb : simpl never.
Local Arguments N.eqb : simpl never.
Local Arguments N.leb : simpl never.
Local Arguments N.ltb : simpl never.
Local Arguments N.max : simpl never.
Local Arguments N.mul : simpl never.

Section WithFixes.
Variable fx : fixes.
Notation fit := (TyRel.fit fx).
Notation weak := (TyRel.weak fx).
Notation feq := (TyRel.feq fx).
Notation cast := (TyRel.cast fx).
Notation has_semantics_of := (TyRel.has_semantics_of fx).
Notation tmax := (TyRel.tmax fx).
Notation accepts := (TyLaws.accepts fx).
Notation known_weak_fit := (TyLaws.known_weak_fit fx).
Notation known_max := (TyLaws.known_max fx).
Notation max_accepts := (TyLaws.max_accepts fx).
Notation ntarget := (TyLaws.ntarget fx).

Lemma tmax_eq m a b : ty_eqb a b = true -> tmax m a b = Ok (Some a).
Proof. intros E. destruct a; cbn [TyRel.tmax]; rewrite E; reflexivity. Qed.

Lemma fit_into_optional x s :
  (match x with Optional _ => false | _ => true end) = true ->
  fit x s = true -> fit x (Optional s) = true.
Proof.
  intros Hx Hs. destruct x; try discriminate Hx; cbn [TyRel.fit];
    (destruct (ty_eqb _ _); [reflexivity|]); first [ reflexivity | exact Hs ].
Qed.

Lemma fit_into_eu x e p :
  (match x with ErrorUnion _ _ => false | _ => true end) = true ->
  fit x e || fit x p = true -> fit x (ErrorUnion e p) = true.
Proof.
  intros Hx Hs. destruct x; try discriminate Hx; cbn [TyRel.fit];
    (destruct (ty_eqb _ _); [reflexivity|]); first [ reflexivity | exact Hs ].
Qed.

Lemma fit_optional_optional l t : fit l t = true -> fit (Optional l) (Optional t) = true.
Proof. intros H. cbn [TyRel.fit]. destruct (ty_eqb _ _); [reflexivity|exact H]. Qed.

Lemma fit_eu_eu a b c d : fit a c = true -> fit b d = true -> fit (ErrorUnion a b) (ErrorUnion c d) = true.
Proof. intros H1 H2. cbn [TyRel.fit]. destruct (ty_eqb _ _); [reflexivity|]. rewrite H1, H2. reflexivity. Qed.

Lemma fit_unknown_l x : fit Unknown x = true.
Proof. destruct x; cbn [TyRel.fit]; destruct (ty_eqb _ _); reflexivity. Qed.
Lemma fit_aj_l x : fit AlwaysJumps x = true.
Proof. destruct x; cbn [TyRel.fit]; destruct (ty_eqb _ _); reflexivity. Qed.
Lemma fit_nil_optional s : fit Nil (Optional s) = true.
Proof. reflexivity. Qed.


Lemma fit_ii w1 w2 : (N.eqb w2 0 || N.leb w1 w2) = true -> fit (IInt w1) (IInt w2) = true.
Proof. intros H. cbn [TyRel.fit]. destruct (ty_eqb _ _); [reflexivity|exact H]. Qed.
Lemma fit_uu w1 w2 : (N.eqb w2 0 || N.leb w1 w2) = true -> fit (UInt w1) (UInt w2) = true.
Proof. intros H. cbn [TyRel.fit]. destruct (ty_eqb _ _); [reflexivity|exact H]. Qed.
Lemma fit_ff w1 w2 : (N.eqb w2 0 || N.leb w1 w2) = true -> fit (TFloat w1) (TFloat w2) = true.
Proof. intros H. cbn [TyRel.fit]. destruct (ty_eqb _ _); [reflexivity|exact H]. Qed.
Lemma fit_ui f x : (N.eqb x 0 || N.ltb f x) = true -> fit (UInt f) (IInt x) = true.
Proof. intros H. cbn [TyRel.fit]. destruct (ty_eqb _ _); [reflexivity|exact H]. Qed.
Lemma fit_if f x : (N.eqb f 0 || N.ltb f x) = true -> fit (IInt f) (TFloat x) = true.
Proof. intros H. cbn [TyRel.fit]. destruct (ty_eqb _ _); [reflexivity|exact H]. Qed.
Lemma fit_uf f x : (N.eqb f 0 || N.ltb f x) = true -> fit (UInt f) (TFloat x) = true.
Proof. intros H. cbn [TyRel.fit]. destruct (ty_eqb _ _); [reflexivity|exact H]. Qed.
Lemma fit_variant_enum eu n u s d eu' vs : N.eqb eu eu' = true ->
  fit (Variant eu n u s d) (Enum eu' vs) = true.
Proof. intros H. cbn [TyRel.fit]. destruct (ty_eqb _ _); [reflexivity|exact H]. Qed.

Local Arguments TyRel.fit : simpl never.
Local Arguments TyRel.has_semantics_of : simpl never.
Local Arguments is_zero_sized : simpl never.

Lemma max_accepts_of_fit depth a b c : fit a c = true -> fit b c = true -> max_accepts depth a b c = true.
Proof. intros H1 H2. unfold TyLaws.max_accepts, TyLaws.accepts. rewrite H1, H2. destruct depth; reflexivity. Qed.

Ltac arith :=
  repeat match goal with
         | H : (_ && _) = true |- _ => apply andb_true_iff in H; destruct H
         | H : N.ltb _ _ = true |- _ => apply N.ltb_lt in H
         | H : N.ltb _ _ = false |- _ => apply N.ltb_ge in H
         | H : N.eqb _ _ = true |- _ => apply N.eqb_eq in H
         | H : N.eqb _ _ = false |- _ => apply N.eqb_neq in H
         end;
  apply orb_true_iff; rewrite N.eqb_eq, ?N.leb_le, ?N.ltb_lt; lia.

Ltac num := first [apply fit_ii | apply fit_uu | apply fit_ff | apply fit_ui | apply fit_if | apply fit_uf]; arith.

Ltac fits :=
  rewrite ?fit_refl;
  first [ reflexivity | assumption | apply fit_refl | apply fit_unknown_l | apply fit_aj_l
        | apply fit_nil_optional
        | apply fit_into_optional; [reflexivity | first [assumption | apply fit_refl]]
        | apply fit_into_eu; [reflexivity | assumption]
        | apply fit_variant_enum; first [assumption | apply N.eqb_refl]
        | num ].

Lemma max_accepts_lem : forall m, wf_enum_map m -> forall a depth b c,
  known_max depth a b = 0%N -> tmax m a b = Ok (Some c) -> max_accepts depth a b c = true.
Proof.
  intros m Hwf. induction a using ty_ind'; intros depth b c Hk Hm;
    (match type of Hm with tmax _ ?A _ = _ => destruct (ty_eqb A b) eqn:E end;
     [ rewrite (tmax_eq _ _ _ E) in Hm; injection Hm as <-; apply ty_eqb_eq in E; subst b;
       apply max_accepts_of_fit; apply fit_refl | ]);
    destruct b; cbn [TyRel.tmax] in Hm; rewrite E in Hm; cbn -[TyRel.tmax] in Hm; try discriminate Hm.
  all: repeat (try discriminate Hm;
     match type of Hm with
     | context [if ?c then _ else _] => destruct c eqn:?
     | context [match ?w with N0 => _ | Npos _ => _ end] => destruct w
     | context [match ?w with xH => _ | xO _ => _ | xI _ => _ end] => destruct w
     | context [match get_enum ?m ?e with Some _ => _ | None => _ end] => destruct (get_enum m e) eqn:?
     | context [match tmax ?m ?x ?y with Ok _ => _ | Crash _ => _ | OutOfFuel => _ end] =>
         destruct (tmax m x y) as [[?|]| |] eqn:?
     end; cbn -[TyRel.tmax] in Hm).
  all: try discriminate Hm.
  all: injection Hm as <-.
  all: cbn [TyLaws.known_max] in Hk; rewrite E in Hk; unfold known_max_distinct in Hk;
       repeat match goal with H : fx_max_distinct fx = _ |- _ => rewrite H in Hk end;
       cbn -[TyLaws.known_max] in Hk.
  all: repeat match goal with H : (fit _ _ && _) = true |- _ => apply andb_true_iff in H; destruct H
                               | H : (has_semantics_of _ _ && _) = true |- _ => apply andb_true_iff in H; destruct H end.
  all: try solve [apply max_accepts_of_fit; fits].
  (* distinct arms: the class hypothesis gives the missing direction *)
  all: try solve [
    repeat match goal with H : fx_max_distinct fx = _ |- _ => rewrite H in Hk end;
    repeat match goal with H : has_semantics_of _ _ = true |- _ => rewrite H in Hk end;
    cbn [negb andb] in Hk;
    match type of Hk with context [fit ?x ?d] => destruct (fit x d) eqn:?F end;
    [ apply max_accepts_of_fit; fits | discriminate Hk ] ].
  (* zero-sized and `type` *)
  all: try solve [
    match goal with H : is_zero_sized _ = true |- _ =>
      rewrite H in Hk; destruct depth; [discriminate Hk|];
      unfold TyLaws.max_accepts, TyLaws.accepts; rewrite H, ?fit_refl, ?orb_true_r; reflexivity end ].
  - (* two variants of the same enum: the registered enum *)
    match goal with H : get_enum m _ = Some _ |- _ => destruct (Hwf _ _ H) as [vs ->] end.
    apply max_accepts_of_fit; apply fit_variant_enum;
      first [apply N.eqb_refl | assumption | (rewrite N.eqb_sym; assumption)].
  - (* zero-sized variants of different enums *)
    match goal with H : (_ && _) = true |- _ => apply andb_true_iff in H; destruct H as [Hz1 Hz2] end.
    match goal with H : N.eqb _ _ = false |- _ => rewrite H in Hk end.
    rewrite Hz1, Hz2 in Hk. destruct depth; [discriminate Hk|].
    unfold TyLaws.max_accepts, TyLaws.accepts. rewrite Hz1, Hz2, !orb_true_r. reflexivity.
  - (* Optional / Optional *)
    match goal with H : tmax m a b = Ok (Some _) |- _ => pose proof (IHa true _ _ Hk H) as IH end.
    unfold TyLaws.max_accepts in IH. apply andb_true_iff in IH as [I1 I2].
    apply max_accepts_of_fit; apply fit_optional_optional; assumption.
  - (* ErrorUnion / ErrorUnion *)
    destruct (known_max true a1 b1) eqn:K1; [|discriminate Hk].
    match goal with H1 : tmax m a1 b1 = Ok (Some _), H2 : tmax m a2 b2 = Ok (Some _) |- _ =>
      pose proof (IHa1 true _ _ K1 H1) as IH1; pose proof (IHa2 true _ _ Hk H2) as IH2 end.
    unfold TyLaws.max_accepts in IH1, IH2.
    apply andb_true_iff in IH1 as [I1 I2]. apply andb_true_iff in IH2 as [J1 J2].
    apply max_accepts_of_fit; apply fit_eu_eu; assumption.
Qed.
(* with the C12-2 fix in force class 1 of [known_max] is empty *)
Lemma known_max_distinct_fixed : fx_max_distinct fx = true -> forall a b, known_max_distinct fx a b = false.
Proof. intros Fx a b. unfold known_max_distinct. rewrite Fx. destruct a; destruct b; reflexivity. Qed.

End WithFixes.
