(* C23 proofs, part 4: consequences of the mutual induction of GrammarProofs.v for the
   two entry points, and the repaired bump. *)
From Coq Require Import List Arith Bool Lia.
Import ListNotations.
From Capy Require Import Common.Util Model.ParserCore Model.Sink Spec.ParseSpec
  Proofs.ParserCoreProofs Model.Grammar Proofs.GrammarProofs.

(* ---- entry points -------------------------------------------------------------- *)
Lemma M0_source_loop : forall c tx fuel big s0 s, R s0 s -> M0 s0 (source_loop c tx fuel big s).
Proof.
  induction fuel as [|f IH]; intros big s0 s H; cbn [source_loop]; [exact I|].
  pose proof (R_at_eof _ _ H) as H1. destruct (at_eof s) as [s1 eof]. cbn [fst] in H1.
  destruct eof; [exact H1|].
  pose proof (R_at _ _ T_SEMI H1) as H2. destruct (p_at s1 T_SEMI) as [s2 semi]. cbn [fst] in H2.
  destruct semi; [apply IH; apply R_bump; exact H2|].
  pose proof (R_at_set _ _ DEFAULT_RS H2) as H3. destruct (p_at_set s2 DEFAULT_RS) as [s3 d]. cbn [fst] in H3.
  destruct d.
  - apply M0_bind0; [apply M0_drop; apply M_err_nd; exact H3|]. intros. apply IH. assumption.
  - apply M0_bind0; [apply M0_drop; apply (proj1 (all_mono c tx big)); exact H3|]. intros. apply IH. assumption.
Qed.

Lemma M0_repl_loop : forall c tx fuel big s0 s, R s0 s -> M0 s0 (repl_loop c tx fuel big s).
Proof.
  induction fuel as [|f IH]; intros big s0 s H; cbn [repl_loop]; [exact I|].
  pose proof (R_at_eof _ _ H) as H1. destruct (at_eof s) as [s1 eof]. cbn [fst] in H1.
  destruct eof; [exact H1|].
  pose proof (R_at _ _ T_SEMI H1) as H2. destruct (p_at s1 T_SEMI) as [s2 semi]. cbn [fst] in H2.
  destruct semi; [apply IH; apply R_bump; exact H2|].
  apply M0_bind; [apply (proj1 (proj2 (all_mono c tx big))); exact H2|]. intros s3 o H3.
  destruct o; [apply IH; exact H3|].
  pose proof (R_at_eof _ _ H3) as H4. destruct (at_eof s3) as [s4 eof2]. cbn [fst] in H4.
  destruct eof2; [exact H4|].
  apply M0_bind0; [apply M0_drop; apply M_err_skip; exact H4|]. intros. apply IH. assumption.
Qed.

Lemma parse_top_R : forall c tx repl fuel ts s, parse_top c tx repl fuel ts = Ok s -> R (mkP ts 0 [] []) s.
Proof.
  intros c tx repl fuel ts s H. unfold parse_top in H.
  set (s0 := mkP ts 0 [] []) in *.
  pose proof (R_start _ _ (R_refl s0)) as H1. destruct (p_start s0) as [s1 m]. cbn [fst] in H1.
  assert (L : M0 s0 (if repl then repl_loop c tx fuel fuel s1 else source_loop c tx fuel fuel s1)).
  { destruct repl; [apply M0_repl_loop | apply M0_source_loop]; exact H1. }
  destruct (if repl then repl_loop c tx fuel fuel s1 else source_loop c tx fuel fuel s1) as [s2| |];
    cbn [bind] in H; try discriminate. cbn [M0] in L.
  pose proof (M_complete _ _ m N_ROOT L) as H3. unfold drop in H.
  destruct (p_complete s2 m N_ROOT) as [[s3 x]| |]; cbn [bind] in H; try discriminate.
  inversion H; subst. exact H3.
Qed.

(* Whole grammar, both variants, every input: the token list is untouched, every
   recorded syntax error lies within the input, and once every marker has been
   completed (Parser::parse's assert) the event list is well bracketed. *)
Theorem grammar_errors_in_range : forall c tx repl fuel ts s,
  parse_top c tx repl fuel ts = Ok s -> toks s = ts /\ errs_ok (total ts) (errs s) = true.
Proof.
  intros. destruct (parse_top_R _ _ _ _ _ _ H) as (T & _ & E & _). split; [exact T|].
  unfold errs_in in E. rewrite T in E. apply E. reflexivity.
Qed.

Theorem grammar_well_bracketed : forall c tx repl fuel ts s l,
  parse_top c tx repl fuel ts = Ok s -> all_some (evs s) = Some l -> balanced l = true.
Proof.
  intros c tx repl fuel ts s l H A. destruct (parse_top_R _ _ _ _ _ _ H) as (_ & _ & _ & V).
  specialize (V eq_refl). apply all_some_map in A. unfold Inv in V. rewrite A in V.
  rewrite map_map, pend_map_some in V. unfold balanced. change (fun x => ocls (Some x)) with ecls in V.
  rewrite V. reflexivity.
Qed.

(* no grammar function ever moves the cursor backwards or changes the tokens
   (the first half of every progress argument) *)
Theorem grammar_cursor_monotone : forall c tx f, AllM c tx f.
Proof. exact all_mono. Qed.

Lemma my_skipn_skipn : forall {A} y x (l : list A), skipn x (skipn y l) = skipn (x + y) l.
Proof.
  induction y as [|y IH]; intros x l.
  - rewrite Nat.add_0_r. reflexivity.
  - destruct l as [|a l].
    + rewrite !skipn_nil. reflexivity.
    + rewrite Nat.add_succ_r. cbn [skipn]. apply IH.
Qed.

Lemma skip_list_fix : forall l i, skip_list (skipn (skip_list l i - i) l) (skip_list l i) = skip_list l i.
Proof.
  induction l as [|t r IH]; intros i; cbn [skip_list].
  - rewrite Nat.sub_diag. reflexivity.
  - destruct (trivia (fst t)) eqn:T.
    + pose proof (skip_list_ge r (S i)) as G.
      replace (skip_list r (S i) - i) with (S (skip_list r (S i) - S i)) by lia.
      cbn [skipn]. apply IH.
    + rewrite Nat.sub_diag. cbn [skipn skip_list]. rewrite T. reflexivity.
Qed.

Lemma skip_idem : forall s, skip_trivia (skip_trivia s) = skip_trivia s.
Proof.
  intros. unfold skip_trivia. cbn [toks idx evs errs]. f_equal.
  set (j := skip_list (skipn (idx s) (toks s)) (idx s)).
  pose proof (skip_list_ge (skipn (idx s) (toks s)) (idx s)) as G. fold j in G.
  replace (skipn j (toks s)) with (skipn (j - idx s) (skipn (idx s) (toks s))).
  - unfold j. apply skip_list_fix.
  - rewrite my_skipn_skipn. f_equal. lia.
Qed.

(* with the repaired bump, "look ahead, then bump" lands on the token that was seen ahead *)
Lemma bump_fixed_lands : forall s k2,
  at_ahead s 1 (tk_eqb k2) = true -> snd (at_kind (bump_fixed s) k2) = true.
Proof.
  intros s k2 H. unfold at_ahead in H. cbn [ahead] in H.
  match type of H with (match (if ?c then _ else _) with _ => _ end) = _ => destruct c; [discriminate|] end.
  unfold at_set, peek, at_eof in H. cbn [snd fst] in H. rewrite skip_idem in H.
  unfold at_kind, peek, bump_fixed, bump. cbn [snd fst].
  unfold skip_trivia in *. cbn [toks idx evs errs] in *.
  match goal with |- match ?g with _ => _ end = true => destruct g as [k'|]; [|discriminate H] end.
  destruct k', k2; cbn [tk_eqb] in *; try discriminate; auto. rewrite N.eqb_sym. exact H.
Qed.
