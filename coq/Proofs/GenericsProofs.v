(* GenericsProofs — C16: evaluating generic code under its comptime arguments is
   evaluating the hand-substituted code under no comptime arguments; calls with
   equal resolved comptime arguments behave the same; instances of distinct
   keys never share an index / symbol. *)
From Coq Require Import List ZArith Lia Bool Arith.
From Capy Require Import Common.CapyCore Model.Generics.
Import ListNotations.

(* ------------------------------------------- induction over nested inductives *)
Section TyInd.
  Variable P : ty -> Prop.
  Hypothesis HInt : forall i, P (TInt i).
  Hypothesis HBool : P TBool.
  Hypothesis HVoid : P TVoid.
  Hypothesis HArr : forall n t, P t -> P (TArr n t).
  Hypothesis HStruct : forall id fs, Forall P fs -> P (TStruct id fs).
  Hypothesis HVar : forall n, P (TVar n).
  Hypothesis HEnum : forall id vs, Forall P vs -> P (TEnum id vs).
  Hypothesis HOpt : forall t, P t -> P (TOpt t).
  Hypothesis HErr : forall e t, P e -> P t -> P (TErr e t).

  Fixpoint ty_ind' (t : ty) : P t :=
    let go := fix go (l : list ty) : Forall P l :=
                match l with
                | [] => Forall_nil P
                | x :: r => Forall_cons x (ty_ind' x) (go r)
                end in
    match t with
    | TInt i => HInt i
    | TBool => HBool
    | TVoid => HVoid
    | TArr n u => HArr n u (ty_ind' u)
    | TStruct id fs => HStruct id fs (go fs)
    | TVar n => HVar n
    | TEnum id vs => HEnum id vs (go vs)
    | TOpt u => HOpt u (ty_ind' u)
    | TErr e u => HErr e u (ty_ind' e) (ty_ind' u)
    end.
End TyInd.

Section ValueInd.
  Variable P : value -> Prop.
  Hypothesis HInt : forall i z, P (VInt i z).
  Hypothesis HBool : forall b, P (VBool b).
  Hypothesis HUnit : P VUnit.
  Hypothesis HArr : forall vs, Forall P vs -> P (VArr vs).
  Hypothesis HStruct : forall vs, Forall P vs -> P (VStruct vs).
  Hypothesis HSum : forall k v, P v -> P (VSum k v).

  Fixpoint value_ind' (v : value) : P v :=
    let go := fix go (l : list value) : Forall P l :=
                match l with
                | [] => Forall_nil P
                | x :: r => Forall_cons x (value_ind' x) (go r)
                end in
    match v with
    | VInt i z => HInt i z
    | VBool b => HBool b
    | VUnit => HUnit
    | VArr vs => HArr vs (go vs)
    | VStruct vs => HStruct vs (go vs)
    | VSum k u => HSum k u (value_ind' u)
    end.
End ValueInd.

(* --------------------------------------------------------- type substitution *)
Lemma map_id_Forall : forall (A : Type) (f : A -> A) (l : list A),
    Forall (fun x => f x = x) l -> map f l = l.
Proof.
  intros A f l H. induction H as [|x l Hx _ IH]; cbn [map].
  - reflexivity.
  - rewrite Hx, IH. reflexivity.
Qed.

Lemma nth_error_nil : forall (A : Type) (n : nat), nth_error (@nil A) n = None.
Proof. intros A n. destruct n; reflexivity. Qed.

Theorem tsubst_nil : forall t, tsubst [] t = t.
Proof.
  induction t using ty_ind'; cbn [tsubst]; try reflexivity;
    rewrite ?nth_error_nil;
    repeat match goal with
           | H : tsubst [] _ = _ |- _ => rewrite H; clear H
           | H : Forall _ _ |- _ => rewrite (map_id_Forall _ _ _ H); clear H
           end;
    reflexivity.
Qed.

Theorem tsubst_closed : forall ts t, tsubst [] (tsubst ts t) = tsubst ts t.
Proof. intros ts t. apply tsubst_nil. Qed.

Lemma map_tsubst_nil : forall l, map (tsubst []) l = l.
Proof.
  intros l. apply map_id_Forall. apply Forall_forall. intros t _. apply tsubst_nil.
Qed.

(* ------------------------------------------------------ comptime environment *)
Lemma int_senvb_spec : forall s, int_senvb s = true <-> int_senv s.
Proof.
  intros s. unfold int_senvb, int_senv. rewrite forallb_forall. split.
  - intros H v Hin. specialize (H v Hin). destruct v; try discriminate. eauto.
  - intros H v Hin. destruct (H v Hin) as (i & z & ->). reflexivity.
Qed.

Lemma int_senv_nth : forall s n v,
    int_senv s -> nth_error (snd s) n = Some v -> exists i z, v = VInt i z.
Proof. intros s n v Hs E. apply Hs. eapply nth_error_In. exact E. Qed.

Lemma int_senv_empty : int_senv ([], []).
Proof. intros v []. Qed.

Theorem cresolve_csubst : forall s c,
    int_senv s -> cresolve ([], []) (csubst s c) = cresolve s c.
Proof.
  intros s c Hs. destruct c as [t z|n]; cbn [csubst cresolve fst snd].
  - rewrite tsubst_nil. reflexivity.
  - destruct (nth_error (snd s) n) as [v|] eqn:E.
    + destruct (int_senv_nth s n v Hs E) as (i & z & ->).
      cbn [cresolve fst tsubst]. reflexivity.
    + cbn [cresolve snd]. apply nth_error_nil.
Qed.

Lemma cresolve_csubst_map : forall s cargs,
    int_senv s ->
    map (cresolve ([], [])) (map (csubst s) cargs) = map (cresolve s) cargs.
Proof.
  intros s cargs Hs. rewrite map_map. apply map_ext. intros c. apply cresolve_csubst. exact Hs.
Qed.

(* without the integer hypothesis the substitution is not faithful: a
   non-integer comptime value is kept as a reference, which the empty comptime
   environment cannot resolve *)
Lemma cresolve_csubst_needs_int :
  exists s c, cresolve ([], []) (csubst s c) <> cresolve s c.
Proof. exists ([], [VBool true]), (CRef 0). cbn. discriminate. Qed.

(* ---------------------------------------------------------- list helpers *)
Lemma nonlet_subst : forall s e, nonlet e -> nonlet (subst s e).
Proof.
  intros s e H. destruct e; cbn [subst nonlet] in *; try exact I; try contradiction.
  destruct (nth_error (snd s) n) as [[]|]; exact I.
Qed.

Lemma eval_stmts_nonlet : forall ev en out s0 ss tail,
    nonlet s0 ->
    eval_stmts ev en out (s0 :: ss) tail =
    match ev en out s0 with
    | Res en1 out1 (CVal _) => eval_stmts ev en1 out1 ss tail
    | r => r
    end.
Proof. intros ev en out s0 ss tail H. destruct s0; try reflexivity; contradiction. Qed.

(* one move on a goal [match x with .. end = match x' with .. end] *)
Ltac sub_destruct_head :=
  match goal with
  | |- (match ?y with _ => _ end) = _ => destruct y
  end.

(* inside a block: a sub-evaluation by [ev] is turned into the sub-evaluation of
   the substituted code by [ev'] (hypothesis [Hev]), the rest of the block is
   handled by the induction hypothesis [IH], then both sides are destructed *)
Ltac stmts_sub_go ev Hev IH :=
  cbv beta iota;
  first
    [ reflexivity
    | apply Hev
    | apply IH
    | match goal with
      | |- (match ?x with _ => _ end) = _ =>
          lazymatch x with
          | ev ?en ?out ?a => rewrite (Hev en out a)
          | eval_stmts ev ?en ?out ?ss ?tl => rewrite (IH tl en out)
          | _ => idtac
          end;
          sub_destruct_head; stmts_sub_go ev Hev IH
      end ].

Section EvSubst.
  Variable s : senv.
  Variables ev ev' : env -> list event -> expr -> res.
  Hypothesis Hev : forall en out e, ev en out e = ev' en out (subst s e).

  Lemma eval_list_subst : forall es en out,
      eval_list ev en out es = eval_list ev' en out (map (subst s) es).
  Proof.
    induction es as [|e es IH]; intros en out; cbn [eval_list map].
    - reflexivity.
    - rewrite (Hev en out e).
      destruct (ev' en out (subst s e)) as [en1 out1 c| | | |]; try reflexivity.
      destruct c; try reflexivity.
      rewrite IH. reflexivity.
  Qed.

  Lemma eval_stmts_subst : forall ss tail en out,
      eval_stmts ev en out ss tail =
      eval_stmts ev' en out (map (subst s) ss) (subst s tail).
  Proof.
    induction ss as [|s0 ss IH]; intros tail en out; cbn [map].
    - cbn [eval_stmts]. apply Hev.
    - assert (Hoth : nonlet s0 ->
                     eval_stmts ev en out (s0 :: ss) tail =
                     eval_stmts ev' en out (subst s s0 :: map (subst s) ss) (subst s tail)).
      { intros Hn.
        rewrite (eval_stmts_nonlet ev en out s0 ss tail Hn).
        rewrite (eval_stmts_nonlet ev' en out (subst s s0) _ _ (nonlet_subst s s0 Hn)).
        rewrite (Hev en out s0).
        destruct (ev' en out (subst s s0)) as [en1 out1 c| | | |]; try reflexivity.
        destruct c; try reflexivity.
        apply IH. }
      (* [let] (binding popped afterwards) and [defer] (the rest of the block
         first, then the deferred expression) *)
      destruct s0; try (apply Hoth; exact I);
        cbn [subst eval_stmts]; stmts_sub_go ev Hev IH.
  Qed.

  Lemma eval_place_subst : forall e en out,
      eval_place ev en out e = eval_place ev' en out (subst s e).
  Proof.
    induction e; intros en out; cbn [subst eval_place]; try reflexivity.
    - (* ECParam *)
      destruct (nth_error (snd s) n) as [[]|]; reflexivity.
    - (* EIndex *)
      rewrite IHe1.
      destruct (eval_place ev' en out (subst s e1)) as [en1 out1 x p|r]; try reflexivity.
      rewrite (Hev en1 out1 e2). reflexivity.
    - (* EField *)
      rewrite IHe. reflexivity.
  Qed.
End EvSubst.

(* ---------------------------------------------- substitution and evaluation *)
(* one move on a goal [match x with .. end = match x' with .. end]: a
   sub-evaluation under [s] is turned into the sub-evaluation of the substituted
   code under the empty comptime environment, then both sides are destructed *)
Ltac sub_go rec s Hrec :=
  cbv beta iota delta [option_map];
  first
    [ reflexivity
    | apply Hrec
    | match goal with
      | |- (match ?x with _ => _ end) = _ =>
          lazymatch x with
          | rec s ?en ?out ?a => rewrite (Hrec en out a)
          | eval_list (rec s) ?en ?out ?es =>
              rewrite (eval_list_subst s (rec s) (rec ([], [])) Hrec es en out)
          | eval_stmts (rec s) ?en ?out ?ss ?tl =>
              rewrite (eval_stmts_subst s (rec s) (rec ([], [])) Hrec ss tl en out)
          | eval_place (rec s) ?en ?out ?a =>
              rewrite (eval_place_subst s (rec s) (rec ([], [])) Hrec a en out)
          | nth_error _ _ => rewrite ?nth_error_map
          | _ => idtac
          end;
          sub_destruct_head; sub_go rec s Hrec
      end ].

Theorem subst_equiv_step : forall fs (rec : evaluator) s,
    int_senv s ->
    (forall en out e, rec s en out e = rec ([], []) en out (subst s e)) ->
    forall en out e,
      step fs rec s en out e = step fs rec ([], []) en out (subst s e).
Proof.
  intros fs rec s Hs Hrec en out e.
  destruct e.
  4: { (* ECParam *)
    cbn [subst step].
    destruct (nth_error (snd s) n) as [v|] eqn:E.
    - destruct (int_senv_nth s n v Hs E) as (i & z & ->).
      cbn [step fst tsubst]. reflexivity.
    - cbn [step snd]. rewrite nth_error_nil. reflexivity. }
  all: cbn [subst step fst snd];
    rewrite ?tsubst_nil, ?map_tsubst_nil, ?(cresolve_csubst_map s _ Hs);
    sub_go rec s Hrec.
Qed.

Theorem subst_equiv : forall fs n s en out e,
    int_senv s ->
    eval fs n s en out e = eval fs n ([], []) en out (subst s e).
Proof.
  intros fs n s en out e Hs. revert en out e.
  induction n as [|n IH]; intros en out e.
  - reflexivity.
  - cbn [eval]. apply subst_equiv_step; assumption.
Qed.

(* the body of the generic function under its comptime arguments runs exactly
   like the body of the hand-substituted copy *)
Theorem generic_call_equiv : forall fs n fd s cenv out,
    int_senv s ->
    eval fs n s cenv out (f_body fd) =
    eval fs n ([], []) cenv out (f_body (subst_fun s fd)).
Proof.
  intros fs n fd s cenv out Hs. cbn [subst_fun f_body]. apply subst_equiv. exact Hs.
Qed.

(* ------------------------------------------------------------- whole calls *)
Lemma eval_list_ext_in : forall (ev ev' : env -> list event -> expr -> res) es,
    (forall a, In a es -> forall en out, ev en out a = ev' en out a) ->
    forall en out, eval_list ev en out es = eval_list ev' en out es.
Proof.
  intros ev ev'. induction es as [|e es IH]; intros H en out; cbn [eval_list].
  - reflexivity.
  - rewrite (H e (or_introl eq_refl) en out).
    destruct (ev' en out e) as [en1 out1 c| | | |]; try reflexivity.
    destruct c; try reflexivity.
    rewrite IH; [reflexivity|]. intros a Ha. apply H. right. exact Ha.
Qed.

(* a call depends on its comptime arguments only through their resolved values:
   calls whose resolved comptime arguments are equal run the same body under the
   same comptime environment *)
Theorem equal_args_same_behaviour :
  forall fs (rec : evaluator) s1 s2 en out f ta1 ca1 ta2 ca2 args,
    map (tsubst (fst s1)) ta1 = map (tsubst (fst s2)) ta2 ->
    opt_all (map (cresolve s1) ca1) = opt_all (map (cresolve s2) ca2) ->
    (forall a, In a args -> forall en out, rec s1 en out a = rec s2 en out a) ->
    step fs rec s1 en out (ECall f ta1 ca1 args) =
    step fs rec s2 en out (ECall f ta2 ca2 args).
Proof.
  intros fs rec s1 s2 en out f ta1 ca1 ta2 ca2 args Ht Hc Ha.
  cbn [step].
  rewrite (eval_list_ext_in (rec s1) (rec s2) args Ha en out), Ht, Hc.
  reflexivity.
Qed.

Corollary equal_args_same_behaviour_eval :
  forall fs n s en out f ta1 ca1 ta2 ca2 args,
    map (tsubst (fst s)) ta1 = map (tsubst (fst s)) ta2 ->
    opt_all (map (cresolve s) ca1) = opt_all (map (cresolve s) ca2) ->
    eval fs n s en out (ECall f ta1 ca1 args) =
    eval fs n s en out (ECall f ta2 ca2 args).
Proof.
  intros fs n s en out f ta1 ca1 ta2 ca2 args Ht Hc.
  destruct n as [|n]; [reflexivity|]. cbn [eval].
  apply equal_args_same_behaviour; auto.
Qed.

Lemma bind_params_subst : forall ts ps vs,
    bind_params (map (fun p => (fst p, tsubst ts (snd p))) ps) vs = bind_params ps vs.
Proof.
  intros ts. induction ps as [|[x t] ps IH]; intros [|v vs]; cbn [map bind_params fst snd];
    try reflexivity.
  rewrite IH. reflexivity.
Qed.

Lemma res_eq_upto_fn_refl : forall r, res_eq_upto_fn r r.
Proof. intros r. destruct r; cbn; auto. Qed.

(* the whole call: a generic call [f<targs; cargs>(args)] and the plain call
   [g(args)] of the hand-substituted copy [g] agree (up to the function index a
   fault is attributed to), whenever the argument evaluations agree and the
   evaluator satisfies [subst_equiv] on the body (which [eval] does) *)
Theorem generic_call_whole :
  forall fs fs' (rec rec' : evaluator) f g fd s0 targs cargs cvs args en out,
    nth_error fs f = Some fd ->
    opt_all (map (cresolve s0) cargs) = Some cvs ->
    nth_error fs' g = Some (subst_fun (map (tsubst (fst s0)) targs, cvs) fd) ->
    (forall a, In a args -> forall en out, rec s0 en out a = rec' s0 en out a) ->
    (forall cenv out,
        rec (map (tsubst (fst s0)) targs, cvs) cenv out (f_body fd) =
        rec' ([], []) cenv out (subst (map (tsubst (fst s0)) targs, cvs) (f_body fd))) ->
    res_eq_upto_fn (step fs rec s0 en out (ECall f targs cargs args))
                   (step fs' rec' s0 en out (ECall g [] [] args)).
Proof.
  intros fs fs' rec rec' f g fd s0 targs cargs cvs args en out Hf Hc Hg Ha Hb.
  cbn [step]. rewrite Hf, Hg, Hc.
  rewrite (eval_list_ext_in (rec s0) (rec' s0) args Ha en out).
  destruct (eval_list (rec' s0) en out args) as [en1 out1 vs|r];
    [|apply res_eq_upto_fn_refl].
  cbn [subst_fun f_params f_body map opt_all fst].
  rewrite bind_params_subst.
  destruct (bind_params (f_params fd) vs) as [cenv|]; [|reflexivity].
  rewrite (Hb cenv out1).
  destruct (rec' ([], []) cenv out1
                 (subst (map (tsubst (fst s0)) targs, cvs) (f_body fd)))
    as [en2 out2 c|out2 k fn| | |]; try reflexivity.
  - destruct c; reflexivity.
  - destruct fn; cbn; auto.
Qed.

Corollary generic_call_whole_eval :
  forall fs fs' n f g fd s0 targs cargs cvs args en out,
    nth_error fs f = Some fd ->
    opt_all (map (cresolve s0) cargs) = Some cvs ->
    int_senv (map (tsubst (fst s0)) targs, cvs) ->
    nth_error fs' g = Some (subst_fun (map (tsubst (fst s0)) targs, cvs) fd) ->
    (forall s en out e, eval fs' n s en out e = eval fs n s en out e) ->
    res_eq_upto_fn (eval fs (S n) s0 en out (ECall f targs cargs args))
                   (eval fs' (S n) s0 en out (ECall g [] [] args)).
Proof.
  intros fs fs' n f g fd s0 targs cargs cvs args en out Hf Hc Hs Hg Hext.
  cbn [eval].
  apply (generic_call_whole fs fs' (eval fs n) (eval fs' n) f g fd s0 targs cargs cvs
                            args en out Hf Hc Hg).
  - intros a _ en0 out0. symmetry. apply Hext.
  - intros cenv out0. rewrite Hext. apply subst_equiv. exact Hs.
Qed.

(* ----------------------------------------------------- decidable equalities *)
Lemma iwidth_eqb_eq : forall a b, iwidth_eqb a b = true <-> a = b.
Proof. intros a b. destruct a, b; cbn; split; congruence. Qed.

Lemma ity_eqb_eq : forall a b, ity_eqb a b = true <-> a = b.
Proof.
  intros [sa wa] [sb wb]. unfold ity_eqb. cbn [isg iw].
  rewrite andb_true_iff, Bool.eqb_true_iff, iwidth_eqb_eq.
  split; [intros [-> ->]; reflexivity | intros E; inversion E; auto].
Qed.

Lemma list_eqb_eq : forall (A : Type) (eqb : A -> A -> bool) l1,
    Forall (fun a => forall b, eqb a b = true <-> a = b) l1 ->
    forall l2, list_eqb eqb l1 l2 = true <-> l1 = l2.
Proof.
  intros A eqb l1 H. induction H as [|a l1 Ha _ IH]; intros [|b l2]; cbn [list_eqb].
  - split; reflexivity.
  - split; discriminate.
  - split; discriminate.
  - rewrite andb_true_iff, Ha, IH.
    split; [intros [-> ->]; reflexivity | intros E; inversion E; auto].
Qed.

Lemma ty_eqb_eq : forall a b, ty_eqb a b = true <-> a = b.
Proof.
  intros a. induction a using ty_ind'; intros b; destruct b; cbn [ty_eqb];
    try (split; discriminate); try (split; reflexivity);
    rewrite ?andb_true_iff, ?Nat.eqb_eq, ?ity_eqb_eq;
    repeat match goal with
           | H : forall b, ty_eqb _ b = true <-> _ |- _ => rewrite H; clear H
           | H : Forall _ _ |- _ => rewrite (list_eqb_eq _ _ _ H); clear H
           end;
    (split; [intuition congruence | intros E; inversion E; auto]).
Qed.

Lemma value_eqb_eq : forall a b, value_eqb a b = true <-> a = b.
Proof.
  intros a. induction a using value_ind'; intros w; destruct w; cbn [value_eqb];
    try (split; discriminate); try (split; reflexivity);
    rewrite ?andb_true_iff, ?Nat.eqb_eq, ?ity_eqb_eq, ?Z.eqb_eq, ?Bool.eqb_true_iff;
    repeat match goal with
           | H : forall b, value_eqb _ b = true <-> _ |- _ => rewrite H; clear H
           | H : Forall _ _ |- _ => rewrite (list_eqb_eq _ _ _ H); clear H
           end;
    (split; [intuition congruence | intros E; inversion E; auto]).
Qed.

Lemma key_eqb_eq : forall a b : inst_key, key_eqb a b = true <-> a = b.
Proof.
  intros [[f ts] vs] [[g us] ws]. cbn [key_eqb].
  rewrite !andb_true_iff, Nat.eqb_eq.
  rewrite (list_eqb_eq _ ty_eqb ts), (list_eqb_eq _ value_eqb vs).
  - split; [intros [[-> ->] ->]; reflexivity | intros E; inversion E; auto].
  - apply Forall_forall. intros v _. apply value_eqb_eq.
  - apply Forall_forall. intros t _. apply ty_eqb_eq.
Qed.

Lemma key_eqb_refl : forall k, key_eqb k k = true.
Proof. intros k. apply key_eqb_eq. reflexivity. Qed.

(* ----------------------------------------------------- instantiation table *)
Lemma find_key_some : forall tbl k i,
    find_key tbl k = Some i -> nth_error tbl i = Some k.
Proof.
  induction tbl as [|k0 tbl IH]; intros k i H; cbn [find_key] in H.
  - discriminate.
  - destruct (key_eqb k0 k) eqn:E.
    + inversion H; subst. apply key_eqb_eq in E. subst. reflexivity.
    + destruct (find_key tbl k) as [j|] eqn:F; [|discriminate].
      inversion H; subst. cbn [nth_error]. apply IH. exact F.
Qed.

Lemma find_key_first : forall tbl k i,
    find_key tbl k = Some i -> forall j, (j < i)%nat -> nth_error tbl j <> Some k.
Proof.
  induction tbl as [|k0 tbl IH]; intros k i H j Hj; cbn [find_key] in H.
  - discriminate.
  - destruct (key_eqb k0 k) eqn:E.
    + inversion H; subst. lia.
    + destruct (find_key tbl k) as [i'|] eqn:F; [|discriminate].
      inversion H; subst. destruct j as [|j]; cbn [nth_error].
      * intros X. inversion X; subst. rewrite key_eqb_refl in E. discriminate.
      * apply (IH k i' F). lia.
Qed.

Lemma find_key_none : forall tbl k, find_key tbl k = None -> ~ In k tbl.
Proof.
  induction tbl as [|k0 tbl IH]; intros k H; cbn [find_key] in H.
  - intros [].
  - destruct (key_eqb k0 k) eqn:E; [discriminate|].
    destruct (find_key tbl k) eqn:F; [discriminate|].
    intros [X|X].
    + subst. rewrite key_eqb_refl in E. discriminate.
    + exact (IH k F X).
Qed.

Lemma find_key_in : forall tbl k, In k tbl -> exists i, find_key tbl k = Some i.
Proof.
  intros tbl k Hin. destruct (find_key tbl k) as [i|] eqn:F.
  - exists i. reflexivity.
  - exfalso. exact (find_key_none tbl k F Hin).
Qed.

Lemma find_key_app_l : forall tbl l k i,
    find_key tbl k = Some i -> find_key (tbl ++ l) k = Some i.
Proof.
  induction tbl as [|k0 tbl IH]; intros l k i H; cbn [find_key app] in *.
  - discriminate.
  - destruct (key_eqb k0 k); [exact H|].
    destruct (find_key tbl k) as [j|] eqn:F; [|discriminate].
    rewrite (IH l k j F). exact H.
Qed.

Lemma find_key_app_new : forall tbl k,
    find_key tbl k = None -> find_key (tbl ++ [k]) k = Some (length tbl).
Proof.
  induction tbl as [|k0 tbl IH]; intros k H; cbn [find_key app length] in *.
  - rewrite key_eqb_refl. reflexivity.
  - destruct (key_eqb k0 k); [discriminate|].
    destruct (find_key tbl k) eqn:F; [discriminate|].
    rewrite (IH k F). reflexivity.
Qed.

(* the returned index designates the key; the table only grows at the end *)
Theorem find_or_add_spec : forall tbl k i tbl',
    find_or_add tbl k = (i, tbl') ->
    nth_error tbl' i = Some k /\
    find_key tbl' k = Some i /\
    (exists l, tbl' = tbl ++ l) /\
    (forall j k', nth_error tbl j = Some k' -> nth_error tbl' j = Some k').
Proof.
  intros tbl k i tbl' H. unfold find_or_add in H.
  destruct (find_key tbl k) as [j|] eqn:F; inversion H; subst; clear H.
  - repeat split.
    + apply find_key_some. exact F.
    + exact F.
    + exists []. rewrite app_nil_r. reflexivity.
    + auto.
  - repeat split.
    + rewrite nth_error_app2 by lia. rewrite Nat.sub_diag. reflexivity.
    + apply find_key_app_new. exact F.
    + exists [k]. reflexivity.
    + intros j k' Hj. rewrite nth_error_app1; [exact Hj|].
      apply nth_error_Some. rewrite Hj. discriminate.
Qed.

(* looking up a key that is already in the table: same index, table unchanged *)
Theorem find_or_add_present : forall tbl k,
    In k tbl ->
    exists i, find_or_add tbl k = (i, tbl) /\ nth_error tbl i = Some k.
Proof.
  intros tbl k Hin. destruct (find_key_in tbl k Hin) as [i F].
  exists i. unfold find_or_add. rewrite F. split; [reflexivity|].
  apply find_key_some. exact F.
Qed.

Theorem find_or_add_again : forall tbl k i tbl',
    find_or_add tbl k = (i, tbl') -> find_or_add tbl' k = (i, tbl').
Proof.
  intros tbl k i tbl' H.
  destruct (find_or_add_spec tbl k i tbl' H) as (_ & F & _).
  unfold find_or_add. rewrite F. reflexivity.
Qed.

(* an instance is not disturbed by any later instantiations *)
Theorem find_or_add_stable : forall tbl k i tbl' l,
    find_or_add tbl k = (i, tbl') ->
    find_or_add (tbl' ++ l) k = (i, tbl' ++ l).
Proof.
  intros tbl k i tbl' l H.
  destruct (find_or_add_spec tbl k i tbl' H) as (_ & F & _).
  unfold find_or_add. rewrite (find_key_app_l tbl' l k i F). reflexivity.
Qed.

(* two requests (with any instantiations in between) get the same index iff
   their keys are equal *)
Theorem same_index_iff_equal_keys : forall tbl k1 i1 tbl1 l k2 i2 tbl2,
    find_or_add tbl k1 = (i1, tbl1) ->
    find_or_add (tbl1 ++ l) k2 = (i2, tbl2) ->
    (i1 = i2 <-> k1 = k2).
Proof.
  intros tbl k1 i1 tbl1 l k2 i2 tbl2 H1 H2.
  destruct (find_or_add_spec _ _ _ _ H1) as (N1 & _ & _ & _).
  destruct (find_or_add_spec _ _ _ _ H2) as (N2 & _ & _ & P2).
  split.
  - intros ->.
    assert (X : nth_error tbl2 i2 = Some k1).
    { apply P2. rewrite nth_error_app1; [exact N1|].
      apply nth_error_Some. rewrite N1. discriminate. }
    rewrite N2 in X. inversion X. reflexivity.
  - intros <-.
    rewrite (find_or_add_stable _ _ _ _ l H1) in H2. inversion H2. reflexivity.
Qed.

Theorem distinct_keys_distinct_symbols : forall base tbl k1 i1 tbl1 l k2 i2 tbl2,
    find_or_add tbl k1 = (i1, tbl1) ->
    find_or_add (tbl1 ++ l) k2 = (i2, tbl2) ->
    k1 <> k2 ->
    inst_symbol base i1 <> inst_symbol base i2.
Proof.
  intros base tbl k1 i1 tbl1 l k2 i2 tbl2 H1 H2 Hne E.
  unfold inst_symbol in E. inversion E as [Ei].
  apply Hne. exact (proj1 (same_index_iff_equal_keys _ _ _ _ _ _ _ _ H1 H2) Ei).
Qed.

Theorem instances_do_not_interfere :
  forall base tbl k1 i1 tbl1 l k2 i2 tbl2,
    find_or_add tbl k1 = (i1, tbl1) ->
    find_or_add (tbl1 ++ l) k2 = (i2, tbl2) ->
    (* the first instance is still found, at the same index, table unchanged *)
    find_or_add tbl2 k1 = (i1, tbl2) /\
    (* its entry is untouched *)
    nth_error tbl2 i1 = Some k1 /\
    (* same index / symbol exactly for equal keys *)
    (i1 = i2 <-> k1 = k2) /\
    (inst_symbol base i1 = inst_symbol base i2 <-> k1 = k2).
Proof.
  intros base tbl k1 i1 tbl1 l k2 i2 tbl2 H1 H2.
  destruct (find_or_add_spec _ _ _ _ H1) as (N1 & F1 & _ & _).
  destruct (find_or_add_spec _ _ _ _ H2) as (_ & _ & [l2 E2] & P2).
  pose proof (same_index_iff_equal_keys _ _ _ _ _ _ _ _ H1 H2) as Hiff.
  assert (X : nth_error tbl2 i1 = Some k1).
  { apply P2. rewrite nth_error_app1; [exact N1|].
    apply nth_error_Some. rewrite N1. discriminate. }
  repeat split.
  - subst tbl2. rewrite <- app_assoc. apply (find_or_add_stable _ _ _ _ _ H1).
  - exact X.
  - apply Hiff.
  - apply Hiff.
  - intros E. unfold inst_symbol in E. inversion E as [Ei]. apply Hiff. exact Ei.
  - intros E. unfold inst_symbol. f_equal. apply Hiff. exact E.
Qed.

(* -------------------------------------------- adding instances to the table *)
(* [RStuck] is propagated unchanged by every construct (like [RFuel]); a
   computation that is not stuck never looked at a missing table entry, so it
   is unchanged when functions are appended to the program table. *)
Ltac ext_call Hne call bad lem :=
  let N := fresh "N" in
  assert (N : call <> bad)
    by (let X := fresh "X" in intro X; rewrite X in Hne; apply Hne; reflexivity);
  rewrite (lem N); clear N; revert Hne; destruct call; intros Hne.

Ltac stmts_ext_go ev Hev IH Hne :=
  cbv beta iota in Hne |- *;
  first
    [ reflexivity
    | exfalso; apply Hne; reflexivity
    | apply Hev; exact Hne
    | apply IH; exact Hne
    | match type of Hne with
      | (match ?x with _ => _ end) <> _ =>
          lazymatch x with
          | ev ?en ?out ?a =>
              ext_call Hne x RStuck (Hev en out a)
          | eval_stmts ev ?en ?out ?ss ?tl =>
              ext_call Hne x RStuck (IH tl en out)
          | _ => revert Hne; destruct x; intros Hne
          end;
          stmts_ext_go ev Hev IH Hne
      end ].

Section EvExt.
  Variables ev ev' : env -> list event -> expr -> res.
  Hypothesis Hev : forall en out e, ev en out e <> RStuck -> ev' en out e = ev en out e.

  Lemma eval_list_ext_stuck : forall es en out,
      eval_list ev en out es <> LAbort RStuck ->
      eval_list ev' en out es = eval_list ev en out es.
  Proof.
    induction es as [|e es IH]; intros en out Hne; cbn [eval_list] in *.
    - reflexivity.
    - assert (N : ev en out e <> RStuck).
      { intro X. rewrite X in Hne. apply Hne. reflexivity. }
      rewrite (Hev en out e N). clear N. revert Hne.
      destruct (ev en out e) as [en1 out1 c| | | |]; intros Hne; try reflexivity.
      destruct c as [v| | |]; try reflexivity.
      assert (N : eval_list ev en1 out1 es <> LAbort RStuck).
      { intro X. rewrite X in Hne. apply Hne. reflexivity. }
      rewrite (IH en1 out1 N). reflexivity.
  Qed.

  Lemma eval_stmts_ext_stuck : forall ss tail en out,
      eval_stmts ev en out ss tail <> RStuck ->
      eval_stmts ev' en out ss tail = eval_stmts ev en out ss tail.
  Proof.
    induction ss as [|s0 ss IH]; intros tail en out Hne; cbn [eval_stmts] in *.
    - apply Hev. exact Hne.
    - (* [let], [defer] (the rest of the block first, then the deferred
         expression) and plain statements *)
      destruct s0; stmts_ext_go ev Hev IH Hne.
  Qed.

  Lemma eval_place_ext_stuck : forall e en out,
      eval_place ev en out e <> PAbort RStuck ->
      eval_place ev' en out e = eval_place ev en out e.
  Proof.
    induction e; intros en out Hne; cbn [eval_place] in *; try reflexivity.
    - assert (N : eval_place ev en out e1 <> PAbort RStuck).
      { intro X. rewrite X in Hne. apply Hne. reflexivity. }
      rewrite (IHe1 en out N). clear N. revert Hne.
      destruct (eval_place ev en out e1) as [en1 out1 x p|r]; intros Hne; try reflexivity.
      assert (N : ev en1 out1 e2 <> RStuck).
      { intro X. rewrite X in Hne. apply Hne. reflexivity. }
      rewrite (Hev en1 out1 e2 N). reflexivity.
    - assert (N : eval_place ev en out e <> PAbort RStuck).
      { intro X. rewrite X in Hne. apply Hne. reflexivity. }
      rewrite (IHe en out N). reflexivity.
  Qed.
End EvExt.

Ltac ext_go rec Hord Hne :=
  cbv beta iota in Hne |- *;
  first
    [ reflexivity
    | exfalso; apply Hne; reflexivity
    | apply Hord; exact Hne
    | match type of Hne with
      | (match ?x with _ => _ end) <> _ =>
          lazymatch x with
          | rec ?s ?en ?out ?a =>
              ext_call Hne x RStuck (Hord s en out a)
          | eval_list (rec ?s) ?en ?out ?es =>
              ext_call Hne x (LAbort RStuck) (eval_list_ext_stuck _ _ (Hord s) es en out)
          | eval_stmts (rec ?s) ?en ?out ?ss ?tl =>
              ext_call Hne x RStuck (eval_stmts_ext_stuck _ _ (Hord s) ss tl en out)
          | eval_place (rec ?s) ?en ?out ?a =>
              ext_call Hne x (PAbort RStuck) (eval_place_ext_stuck _ _ (Hord s) a en out)
          | _ => revert Hne; destruct x; intros Hne
          end;
          ext_go rec Hord Hne
      end ].

Theorem step_table_ext : forall fs extra (rec rec' : evaluator),
    (forall s en out e, rec s en out e <> RStuck -> rec' s en out e = rec s en out e) ->
    forall s en out e,
      step fs rec s en out e <> RStuck ->
      step (fs ++ extra) rec' s en out e = step fs rec s en out e.
Proof.
  intros fs extra rec rec' Hord s en out e Hne.
  destruct e; cbn [step] in Hne |- *.
  all: try match goal with
           | |- context [nth_error (_ ++ _) ?f] =>
               let E := fresh "E" in
               revert Hne; destruct (nth_error fs f) as [fd|] eqn:E; intros Hne;
               [ rewrite (nth_error_app1 fs extra)
                   by (apply nth_error_Some; rewrite E; discriminate);
                 rewrite E
               | exfalso; apply Hne; reflexivity ]
           end.
  all: ext_go rec Hord Hne.
Qed.

Theorem eval_table_ext : forall fs extra n s en out e,
    eval fs n s en out e <> RStuck ->
    eval (fs ++ extra) n s en out e = eval fs n s en out e.
Proof.
  intros fs extra n. induction n as [|n IH]; intros s en out e Hne.
  - reflexivity.
  - cbn [eval] in Hne |- *. apply step_table_ext; [exact IH | exact Hne].
Qed.

(* whole-call version: in the program table extended with the hand-substituted
   copy of [fd] for the comptime arguments of the call, the plain call of the
   copy behaves like the generic call (up to the function index a run-time
   fault is attributed to), for every generic call that is not stuck *)
Theorem generic_call_like_copy :
  forall fs n f fd s0 targs cargs cvs args en out,
    nth_error fs f = Some fd ->
    opt_all (map (cresolve s0) cargs) = Some cvs ->
    int_senv (map (tsubst (fst s0)) targs, cvs) ->
    eval fs (S n) s0 en out (ECall f targs cargs args) <> RStuck ->
    res_eq_upto_fn
      (eval fs (S n) s0 en out (ECall f targs cargs args))
      (eval (fs ++ [subst_fun (map (tsubst (fst s0)) targs, cvs) fd]) (S n) s0 en out
            (ECall (length fs) [] [] args)).
Proof.
  intros fs n f fd s0 targs cargs cvs args en out Hf Hc Hs Hne.
  set (s := (map (tsubst (fst s0)) targs, cvs)) in *.
  set (fs' := fs ++ [subst_fun s fd]).
  assert (Hord : forall s en out e,
             eval fs n s en out e <> RStuck -> eval fs' n s en out e = eval fs n s en out e).
  { intros. apply eval_table_ext. assumption. }
  assert (Hg : nth_error fs' (length fs) = Some (subst_fun s fd)).
  { unfold fs'. rewrite nth_error_app2 by lia. rewrite Nat.sub_diag. reflexivity. }
  cbn [eval step] in Hne |- *.
  rewrite Hf, Hc in Hne. rewrite Hf, Hc, Hg.
  assert (N : eval_list (eval fs n s0) en out args <> LAbort RStuck).
  { intro X. rewrite X in Hne. apply Hne. reflexivity. }
  rewrite (eval_list_ext_stuck _ _ (Hord s0) args en out N). clear N. revert Hne.
  destruct (eval_list (eval fs n s0) en out args) as [en1 out1 vs|r]; intros Hne;
    [|apply res_eq_upto_fn_refl].
  cbn [subst_fun f_params f_body map opt_all fst].
  rewrite bind_params_subst. revert Hne.
  destruct (bind_params (f_params fd) vs) as [cenv|]; intros Hne; [|reflexivity].
  fold s in Hne |- *.
  rewrite <- (subst_equiv fs' n s cenv out1 (f_body fd) Hs).
  assert (N : eval fs n s cenv out1 (f_body fd) <> RStuck).
  { intro X. rewrite X in Hne. apply Hne. reflexivity. }
  rewrite (Hord _ _ _ _ N).
  destruct (eval fs n s cenv out1 (f_body fd)) as [en2 out2 c|out2 k fn| | |];
    try reflexivity.
  - destruct c; reflexivity.
  - destruct fn; cbn; auto.
Qed.
