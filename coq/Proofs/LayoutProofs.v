(* layout.rs's model (Common/Layout.v, u32 arithmetic with crash sites and the
   `as u32` truncation of array lengths) computes exactly the specification
   Spec/CLayout.v whenever it returns at all and no array length is truncated;
   it returns whenever every size fits in u32. *)
From Capy Require Import Common.Util Common.LTy Common.Layout Spec.CLayout Proofs.LayoutSpecProofs.
Local Open Scope N_scope.

Lemma bind_ok {A B} (x : result A) (f : A -> result B) b :
  bind x f = Ok b -> exists a, x = Ok a /\ f a = Ok b.
Proof. destruct x; cbn; intros; try discriminate; eauto. Qed.

Ltac binds H :=
  repeat match type of H with
  | bind _ _ = Ok _ =>
      let a := fresh "v" in let E := fresh "E" in
      apply bind_ok in H; destruct H as (a & E & H)
  end.

Lemma add32_ok s a b c : add32 s a b = Ok c -> c = a + b /\ a + b <= U32MAX.
Proof. unfold add32. destruct (N.leb_spec (a + b) U32MAX); intros X; inversion X; auto. Qed.
Lemma mul32_ok s a b c : mul32 s a b = Ok c -> c = a * b /\ a * b <= U32MAX.
Proof. unfold mul32. destruct (N.leb_spec (a * b) U32MAX); intros X; inversion X; auto. Qed.
Lemma add32_fits s a b : a + b <= U32MAX -> add32 s a b = Ok (a + b).
Proof. unfold add32. intros H. apply N.leb_le in H. rewrite H. reflexivity. Qed.
Lemma mul32_fits s a b : a * b <= U32MAX -> mul32 s a b = Ok (a * b).
Proof. unfold mul32. intros H. apply N.leb_le in H. rewrite H. reflexivity. Qed.
Lemma assert_align_ok r r' : assert_align r = Ok r' -> r' = r /\ snd r <= 8.
Proof. unfold assert_align. destruct (N.leb_spec (snd r) 8); intros X; inversion X; subst; auto. Qed.
Lemma assert_align_fits r : pow2_8 (snd r) -> assert_align r = Ok r.
Proof.
  unfold assert_align, pow2_8. intros H.
  assert (snd r <= 8) as L by lia. apply N.leb_le in L. rewrite L. reflexivity.
Qed.

(* ---- padding_needed_for and stride ---------------------------------------- *)
Lemma padding_ok cur a : a <> 0 ->
  exists p, padding_needed_for cur a = Ok p /\ cur + p = round_up cur a.
Proof.
  intros Ha. unfold padding_needed_for.
  apply N.eqb_neq in Ha. rewrite Ha. apply N.eqb_neq in Ha.
  eexists; split; [reflexivity|].
  pose proof (N.div_mod cur a Ha) as D. pose proof (N.mod_lt cur a Ha) as M.
  set (q := cur / a) in *. set (m := cur mod a) in *.
  destruct (N.ltb_spec 0 m) as [Hm|Hm].
  - unfold round_up.
    replace ((cur + (a - 1)) / a) with (q + 1).
    + rewrite N.mul_add_distr_r, (N.mul_comm q a). lia.
    + apply N.div_unique with (r := m - 1); [lia|].
      rewrite N.mul_add_distr_l. lia.
  - rewrite round_up_aligned; auto. lia. exists q. rewrite N.mul_comm. lia.
Qed.

Lemma ldiff_mask x a : pow2_8 a -> N.ldiff x (a - 1) = (x / a) * a.
Proof.
  intros [->|[->|[->| ->]]].
  - cbn. rewrite N.ldiff_0_r, N.div_1_r. lia.
  - change (2 - 1) with (N.ones 1).
    rewrite N.ldiff_ones_r, N.shiftr_div_pow2, N.shiftl_mul_pow2. reflexivity.
  - change (4 - 1) with (N.ones 2).
    rewrite N.ldiff_ones_r, N.shiftr_div_pow2, N.shiftl_mul_pow2. reflexivity.
  - change (8 - 1) with (N.ones 3).
    rewrite N.ldiff_ones_r, N.shiftr_div_pow2, N.shiftl_mul_pow2. reflexivity.
Qed.

Lemma stride_ok s a st : pow2_8 a -> stride_of s a = Ok st ->
  st = round_up s a /\ s + (a - 1) <= U32MAX.
Proof.
  intros Ha. unfold stride_of. pose proof (pow2_8_pos a Ha) as Hz.
  apply N.eqb_neq in Hz. rewrite Hz. intros H. binds H. apply add32_ok in E. destruct E as [-> L].
  inversion H. split; auto. apply ldiff_mask; auto.
Qed.

Lemma stride_fits s a : pow2_8 a -> round_up s a <= U32MAX ->
  stride_of s a = Ok (round_up s a).
Proof.
  intros Ha L. unfold stride_of. pose proof (pow2_8_pos a Ha) as Hz.
  pose proof Hz as Hz'. apply N.eqb_neq in Hz'. rewrite Hz'.
  assert (s + (a - 1) <= U32MAX) as L2.
  { (* round_up s a is a multiple of a that is > s - 1 ... bound via U32MAX+1 = 2^32 being a multiple of a *)
    destruct (round_up_spec s a Hz) as (A & B & (k & K)).
    unfold U32MAX in *.
    assert (exists j, 4294967296 = j * a) as (j & J).
    { destruct Ha as [->|[->|[->| ->]]];
        [exists 4294967296 | exists 2147483648 | exists 1073741824 | exists 536870912]; reflexivity. }
    assert (k < j) by nia. assert (k + 1 <= j) as KJ by lia.
    assert ((k + 1) * a <= j * a) by (apply N.mul_le_mono_r; exact KJ).
    lia. }
  rewrite add32_fits by exact L2. cbn [bind]. f_equal. apply ldiff_mask; auto.
Qed.

(* ---- StructLayout::new ------------------------------------------------------- *)
Definition foldmax0 (fl : list (N * N)) : N := fold_right (fun f m => N.max (snd f) m) 0 fl.

Lemma foldmax0_max_align fl : N.max 1 (foldmax0 fl) = max_align fl.
Proof.
  induction fl; cbn [foldmax0 max_align fold_right]; [reflexivity|].
  fold (foldmax0 fl). fold (max_align fl). lia.
Qed.

Lemma struct_go_ok fl : Forall (fun f => snd f <> 0) fl -> forall cur maxa sz al offs,
  struct_go fl cur maxa = Ok (sz, al, offs) ->
  offs = fst (c_offsets fl cur) /\ sz = snd (c_offsets fl cur) /\ al = N.max maxa (foldmax0 fl).
Proof.
  induction 1 as [|[fs fa] r Hf Hr IH]; intros cur maxa sz al offs H; cbn [struct_go] in H.
  - inversion H; subst. cbn. repeat split. lia.
  - cbn [snd] in Hf. binds H. inversion H; subst; clear H.
    destruct (padding_ok cur fa Hf) as (p & Hp & Hr').
    rewrite Hp in E. inversion E; subst v; clear E.
    apply add32_ok in E0. destruct E0 as [-> _]. apply add32_ok in E1. destruct E1 as [-> _].
    destruct v2 as [[sz' al'] offs']. apply IH in E2. destruct E2 as (-> & -> & ->).
    cbn [c_offsets fst snd foldmax0 fold_right]. fold (foldmax0 r). rewrite <- Hr'.
    repeat split.
    destruct (N.ltb_spec maxa fa); lia.
Qed.

Lemma struct_go_fits fl : Forall (fun f => pow2_8 (snd f)) fl -> forall cur maxa,
  snd (c_offsets fl cur) <= U32MAX ->
  struct_go fl cur maxa =
    Ok (snd (c_offsets fl cur), N.max maxa (foldmax0 fl), fst (c_offsets fl cur)).
Proof.
  induction 1 as [|[fs fa] r Hf Hr IH]; intros cur maxa L; cbn [struct_go c_offsets fst snd] in *.
  - cbn. f_equal. f_equal. f_equal. lia.
  - cbn [snd] in Hf. pose proof (pow2_8_pos fa Hf) as Hz.
    destruct (padding_ok cur fa Hz) as (p & Hp & Hr').
    assert (Forall (fun f => snd f <> 0) r) as Hpos
      by (eapply Forall_impl; [|exact Hr]; intros; apply pow2_8_pos; auto).
    pose proof (chain_le _ _ _ _ (c_offsets_chain r Hpos (round_up cur fa + fs))) as CL.
    rewrite Hp. cbn [bind]. rewrite add32_fits by lia. cbn [bind].
    rewrite add32_fits by lia. cbn [bind]. rewrite Hr'.
    rewrite IH by exact L. cbn [bind fst snd foldmax0 fold_right]. fold (foldmax0 r).
    f_equal. f_equal. f_equal. destruct (N.ltb_spec maxa fa); lia.
Qed.

(* ---- unfolding lemmas for the nested loops of [lay] ---------------------------- *)
Lemma lay_struct pw u ms : lay pw (LStruct u ms) =
  do r <- (do fl <- fields pw ms; do sl <- struct_new fl; Ok (fst sl)); assert_align r.
Proof.
  cbn [lay].
  match goal with |- bind (bind (?F ms) _) _ = _ =>
    assert (E: forall l, F l = fields pw l) by
      (induction l as [|m l IH]; [reflexivity| cbn [fields]; rewrite <- IH; reflexivity]);
    rewrite E end.
  reflexivity.
Qed.
Lemma lay_astruct pw ms : lay pw (LAnonStruct ms) =
  do r <- (do fl <- fields pw ms; do sl <- struct_new fl; Ok (fst sl)); assert_align r.
Proof.
  cbn [lay].
  match goal with |- bind (bind (?F ms) _) _ = _ =>
    assert (E: forall l, F l = fields pw l) by
      (induction l as [|m l IH]; [reflexivity| cbn [fields]; rewrite <- IH; reflexivity]);
    rewrite E end.
  reflexivity.
Qed.
Lemma lay_enum pw u vs : lay pw (LEnum u vs) =
  do r <- (do m <- variants pw vs 0 1; do s <- add32 7 (fst m) 1; Ok (s, snd m)); assert_align r.
Proof.
  cbn [lay].
  match goal with |- bind (bind (?F vs 0 1) _) _ = _ =>
    assert (E: forall l a b, F l a b = variants pw l a b) by
      (induction l as [|m l IH]; intros;
       [reflexivity| cbn [variants]; destruct (lay pw m); try reflexivity; cbn [bind]; rewrite <- IH; reflexivity]);
    rewrite E end.
  reflexivity.
Qed.

Lemma fields_ok pw ms :
  Forall (fun m => forall r, lay pw (snd m) = Ok r -> r = ideal pw (snd m)) ms ->
  forall fl, fields pw ms = Ok fl -> fl = ideal_fields pw ms.
Proof.
  induction 1 as [|m r Hm Hr IH]; intros fl H; cbn [fields] in H.
  - inversion H. reflexivity.
  - binds H. inversion H. cbn [ideal_fields map]. f_equal; auto.
Qed.

Lemma fields_fits pw ms :
  Forall (fun m => lay pw (snd m) = Ok (ideal pw (snd m))) ms ->
  fields pw ms = Ok (ideal_fields pw ms).
Proof.
  induction 1 as [|m r Hm Hr IH]; cbn [fields ideal_fields map]; [reflexivity|].
  rewrite Hm. cbn [bind]. rewrite IH. reflexivity.
Qed.

Lemma variants_ok pw vs :
  Forall (fun v => forall r, lay pw v = Ok r -> r = ideal pw v) vs ->
  forall ms ma r, variants pw vs ms ma = Ok r ->
    fst r = N.max ms (max_size (map (ideal pw) vs)) /\
    snd r = N.max ma (foldmax0 (map (ideal pw) vs)).
Proof.
  induction 1 as [|v r Hv Hr IH]; intros ms ma res H; cbn [variants] in H.
  - inversion H. cbn. lia.
  - binds H. apply Hv in E. subst v0. apply IH in H. destruct H as [-> ->].
    cbn [map max_size foldmax0 fold_right]. fold (max_size (map (ideal pw) r)).
    fold (foldmax0 (map (ideal pw) r)).
    destruct (N.ltb_spec ms (fst (ideal pw v))); destruct (N.ltb_spec ma (snd (ideal pw v))); lia.
Qed.

Lemma variants_fits pw vs :
  Forall (fun v => lay pw v = Ok (ideal pw v)) vs ->
  forall ms ma, variants pw vs ms ma =
    Ok (N.max ms (max_size (map (ideal pw) vs)), N.max ma (foldmax0 (map (ideal pw) vs))).
Proof.
  induction 1 as [|v r Hv Hr IH]; intros ms ma; cbn [variants map max_size foldmax0 fold_right].
  - f_equal. f_equal; lia.
  - rewrite Hv. cbn [bind]. rewrite IH. fold (max_size (map (ideal pw) r)).
    fold (foldmax0 (map (ideal pw) r)). f_equal.
    destruct (N.ltb_spec ms (fst (ideal pw v))); destruct (N.ltb_spec ma (snd (ideal pw v))); f_equal; lia.
Qed.

Lemma int_size_prim pw w : int_size pw w = prim_int pw w.
Proof. reflexivity. Qed.
Lemma float_size_prim pw w : wf_float w = true -> float_size w = prim_int pw w.
Proof.
  unfold wf_float. intros H.
  repeat (apply orb_true_iff in H; destruct H as [H|H]); apply N.eqb_eq in H; subst w; reflexivity.
Qed.

Lemma trunc32_small n : n <? 4294967296 = true -> trunc32 n = n.
Proof. intros H. apply N.ltb_lt in H. unfold trunc32. apply N.mod_small. exact H. Qed.

Lemma ideal_fields_pow2 pw ms : ptr_width pw ->
  forallb (fun m => wfb (snd m)) ms = true ->
  Forall (fun f => pow2_8 (snd f)) (ideal_fields pw ms).
Proof.
  intros Hpw H. unfold ideal_fields. rewrite Forall_map. apply forallb_Forall_snd in H.
  eapply Forall_impl; [|exact H]. intros m Hm. apply (ialign_pow2_le8 pw Hpw). exact Hm.
Qed.

(* ---- main refinement theorem ----------------------------------------------------- *)
Theorem lay_refines pw : ptr_width pw -> forall t, wf t -> lens32 t = true ->
  forall r, lay pw t = Ok r -> r = ideal pw t.
Proof.
  intros Hpw. unfold wf.
  induction t using lty_ind'; intros Hwf Hl r HL;
    try rewrite lay_struct in HL; try rewrite lay_astruct in HL; try rewrite lay_enum in HL;
    cbn [lay] in HL; apply bind_ok in HL; destruct HL as (r0 & HL & Ha);
    apply assert_align_ok in Ha; destruct Ha as [-> Ha];
    cbn [wfb lens32] in Hwf, Hl; cbn [ideal];
    try (inversion HL; reflexivity).
  - (* float *) inversion HL. rewrite (float_size_prim pw) by exact Hwf. reflexivity.
  - (* anon array *)
    apply andb_true_iff in Hl. destruct Hl as [Hn Hl]. binds HL. inversion HL; subst; clear HL.
    apply IHt in E; auto. subst v.
    apply stride_ok in E0; [|apply (ialign_pow2_le8 pw Hpw); exact Hwf]. destruct E0 as [-> _].
    apply mul32_ok in E1. destruct E1 as [-> _]. rewrite trunc32_small by exact Hn.
    rewrite N.mul_comm. reflexivity.
  - (* array *)
    apply andb_true_iff in Hl. destruct Hl as [Hn Hl]. binds HL. inversion HL; subst; clear HL.
    apply IHt in E; auto. subst v.
    apply stride_ok in E0; [|apply (ialign_pow2_le8 pw Hpw); exact Hwf]. destruct E0 as [-> _].
    apply mul32_ok in E1. destruct E1 as [-> _]. rewrite trunc32_small by exact Hn.
    rewrite N.mul_comm. reflexivity.
  - (* slice *)
    binds HL. apply mul32_ok in E. destruct E as [-> _]. inversion HL.
    rewrite N.div_mul by lia. rewrite N.mul_comm. reflexivity.
  - (* distinct *) apply IHt; auto.
  - (* any *)
    binds HL. inversion HL; subst; clear HL.
    destruct Hpw as [-> | ->]; vm_compute in E; inversion E; reflexivity.
  - (* raw slice *)
    binds HL. apply mul32_ok in E. destruct E as [-> _]. inversion HL.
    rewrite N.div_mul by lia. rewrite N.mul_comm. reflexivity.
  - (* anon struct *)
    binds HL. inversion HL; subst; clear HL.
    apply fields_ok in E.
    2:{ apply forallb_Forall_snd in Hwf. apply forallb_Forall_snd in Hl.
        rewrite Forall_forall in *. intros m Hm. apply H; auto. }
    subst v. destruct v0 as [[sz al] offs]. unfold struct_new in E0.
    apply struct_go_ok in E0; [|apply ideal_fields_align_pos; auto].
    destruct E0 as (_ & -> & ->). cbn [fst]. rewrite foldmax0_max_align. reflexivity.
  - (* struct *)
    binds HL. inversion HL; subst; clear HL.
    apply fields_ok in E.
    2:{ apply forallb_Forall_snd in Hwf. apply forallb_Forall_snd in Hl.
        rewrite Forall_forall in *. intros m Hm. apply H; auto. }
    subst v. destruct v0 as [[sz al] offs]. unfold struct_new in E0.
    apply struct_go_ok in E0; [|apply ideal_fields_align_pos; auto].
    destruct E0 as (_ & -> & ->). cbn [fst]. rewrite foldmax0_max_align. reflexivity.
  - (* enum *)
    binds HL. inversion HL; subst; clear HL.
    apply variants_ok in E.
    2:{ rewrite forallb_forall in Hwf, Hl. rewrite Forall_forall in *. intros v' Hv. apply H; auto. }
    destruct E as [E1 E2]. apply add32_ok in E0. destruct E0 as [-> _].
    rewrite E1, E2, foldmax0_max_align. f_equal. lia.
  - (* variant *) apply IHt; auto.
  - (* optional *)
    binds HL. apply IHt in E; auto. subst v.
    destruct (is_non_zero t).
    + inversion HL. reflexivity.
    + binds HL. apply add32_ok in E. destruct E as [-> _]. inversion HL. reflexivity.
  - (* error union *)
    apply andb_true_iff in Hwf. destruct Hwf. apply andb_true_iff in Hl. destruct Hl.
    binds HL. apply IHt1 in E; auto. apply IHt2 in E0; auto. subst.
    apply add32_ok in E1. destruct E1 as [-> _]. inversion HL. reflexivity.
Qed.

(* ---- no crash when everything fits --------------------------------------------------- *)
Lemma fits_fits1 pw t : fits pw t = true -> istride pw t <= U32MAX.
Proof.
  intros H. assert (fits1 pw t = true) as F.
  { destruct t; cbn [fits] in H; apply andb_true_iff in H; tauto. }
  unfold fits1 in F. apply N.leb_le in F. exact F.
Qed.

Lemma fits_inner pw t : fits pw t = true ->
  match t with
  | LAnonArray n sub | LArray n sub => (n <? 4294967296) && fits pw sub
  | LDistinct _ sub | LVariant _ _ _ _ sub | LOptional sub => fits pw sub
  | LAnonStruct ms | LStruct _ ms => forallb (fun m => fits pw (snd m)) ms
  | LEnum _ vs => forallb (fits pw) vs
  | LErrorUnion e p => fits pw e && fits pw p
  | _ => true
  end = true.
Proof. intros H. destruct t; cbn [fits] in H; apply andb_true_iff in H; try tauto; reflexivity. Qed.

Lemma size_le_stride pw t : ptr_width pw -> wf t -> isize pw t <= istride pw t.
Proof. intros. apply istride_spec; auto. Qed.

Theorem lay_total_when_fits pw : ptr_width pw -> forall t, wf t -> fits pw t = true ->
  lay pw t = Ok (ideal pw t).
Proof.
  intros Hpw. unfold wf.
  induction t using lty_ind'; intros Hwf Hf;
    pose proof (fits_fits1 _ _ Hf) as F1; pose proof (fits_inner _ _ Hf) as FI; cbv beta iota in FI;
    try rewrite lay_struct; try rewrite lay_astruct; try rewrite lay_enum;
    cbn [lay wfb] in *;
    try (destruct Hpw as [-> | ->]; reflexivity).
  - (* iint *)
    rewrite int_size_prim. cbn [bind ideal]. apply assert_align_fits. cbn [snd].
    apply min8_pow2, prim_int_cases; auto.
  - rewrite int_size_prim. cbn [bind ideal]. apply assert_align_fits. cbn [snd].
    apply min8_pow2, prim_int_cases; auto.
  - rewrite (float_size_prim pw) by exact Hwf. cbn [bind ideal]. apply assert_align_fits. cbn [snd].
    apply min8_pow2. destruct (prim_float_cases pw w Hpw Hwf) as [-> | ->]; tauto.
  - (* anon array *)
    apply andb_true_iff in FI. destruct FI as [Hn Hs].
    pose proof (ialign_pow2_le8 pw Hpw t Hwf) as P.
    rewrite IHt by auto. cbn [bind].
    rewrite stride_fits; auto; [|apply fits_fits1; auto]. cbn [bind].
    rewrite trunc32_small by exact Hn.
    unfold istride, isize, ialign in F1. cbn [ideal fst snd] in F1.
    assert (round_up (fst (ideal pw t)) (snd (ideal pw t)) * n <= U32MAX) as L.
    { destruct (round_up_spec (n * round_up (fst (ideal pw t)) (snd (ideal pw t))) (snd (ideal pw t)))
        as (A & _); [apply pow2_8_pos; exact P|]. rewrite N.mul_comm. lia. }
    rewrite mul32_fits by exact L. cbn [bind ideal]. rewrite N.mul_comm.
    apply assert_align_fits. exact P.
  - (* array *)
    apply andb_true_iff in FI. destruct FI as [Hn Hs].
    pose proof (ialign_pow2_le8 pw Hpw t Hwf) as P.
    rewrite IHt by auto. cbn [bind].
    rewrite stride_fits; auto; [|apply fits_fits1; auto]. cbn [bind].
    rewrite trunc32_small by exact Hn.
    unfold istride, isize, ialign in F1. cbn [ideal fst snd] in F1.
    assert (round_up (fst (ideal pw t)) (snd (ideal pw t)) * n <= U32MAX) as L.
    { destruct (round_up_spec (n * round_up (fst (ideal pw t)) (snd (ideal pw t))) (snd (ideal pw t)))
        as (A & _); [apply pow2_8_pos; exact P|]. rewrite N.mul_comm. lia. }
    rewrite mul32_fits by exact L. cbn [bind ideal]. rewrite N.mul_comm.
    apply assert_align_fits. exact P.
  - (* distinct *)
    rewrite IHt by auto. cbn [bind ideal]. apply assert_align_fits.
    apply (ialign_pow2_le8 pw Hpw); auto.
  - (* anon struct *)
    pose proof (ideal_fields_pow2 pw ms Hpw Hwf) as P.
    rewrite fields_fits.
    2:{ apply forallb_Forall_snd in Hwf. apply forallb_Forall_snd in FI.
        rewrite Forall_forall in *. intros m Hm. apply H; auto. }
    cbn [bind]. unfold struct_new.
    unfold istride, isize, ialign in F1. cbn [ideal fst snd] in F1. fold (ideal_fields pw ms) in F1.
    rewrite struct_go_fits; auto.
    2:{ destruct (round_up_spec (snd (c_offsets (ideal_fields pw ms) 0)) (max_align (ideal_fields pw ms)))
          as (A & _); [apply pow2_8_pos, max_align_pow2; exact P | lia]. }
    cbn [bind fst ideal]. fold (ideal_fields pw ms). rewrite foldmax0_max_align.
    apply assert_align_fits. cbn [snd]. apply max_align_pow2; exact P.
  - (* struct *)
    pose proof (ideal_fields_pow2 pw ms Hpw Hwf) as P.
    rewrite fields_fits.
    2:{ apply forallb_Forall_snd in Hwf. apply forallb_Forall_snd in FI.
        rewrite Forall_forall in *. intros m Hm. apply H; auto. }
    cbn [bind]. unfold struct_new.
    unfold istride, isize, ialign in F1. cbn [ideal fst snd] in F1. fold (ideal_fields pw ms) in F1.
    rewrite struct_go_fits; auto.
    2:{ destruct (round_up_spec (snd (c_offsets (ideal_fields pw ms) 0)) (max_align (ideal_fields pw ms)))
          as (A & _); [apply pow2_8_pos, max_align_pow2; exact P | lia]. }
    cbn [bind fst ideal]. fold (ideal_fields pw ms). rewrite foldmax0_max_align.
    apply assert_align_fits. cbn [snd]. apply max_align_pow2; exact P.
  - (* enum *)
    assert (Forall (fun f => pow2_8 (snd f)) (map (ideal pw) vs)) as P.
    { rewrite Forall_map. rewrite forallb_forall in Hwf. rewrite Forall_forall. intros v Hv.
      apply (ialign_pow2_le8 pw Hpw). apply Hwf; auto. }
    rewrite variants_fits.
    2:{ rewrite forallb_forall in Hwf, FI. rewrite Forall_forall in *. intros v Hv. apply H; auto. }
    cbn [bind fst snd].
    unfold istride, isize, ialign in F1. cbn [ideal fst snd] in F1.
    assert (max_size (map (ideal pw) vs) + 1 <= U32MAX) as L.
    { destruct (round_up_spec (max_size (map (ideal pw) vs) + 1) (max_align (map (ideal pw) vs)))
        as (A & _); [apply pow2_8_pos, max_align_pow2; exact P | lia]. }
    rewrite N.max_r by lia. rewrite add32_fits by exact L. cbn [bind ideal].
    rewrite foldmax0_max_align. apply assert_align_fits. cbn [snd]. apply max_align_pow2; exact P.
  - (* variant *)
    rewrite IHt by auto. cbn [bind ideal]. apply assert_align_fits.
    apply (ialign_pow2_le8 pw Hpw); auto.
  - (* optional *)
    pose proof (ialign_pow2_le8 pw Hpw t Hwf) as P.
    rewrite IHt by auto. cbn [bind ideal].
    unfold istride, isize, ialign in F1. cbn [ideal fst snd] in F1.
    destruct (is_non_zero t); cbn [bind].
    + apply assert_align_fits. exact P.
    + cbn [fst snd] in F1.
      assert (fst (ideal pw t) + 1 <= U32MAX) as L.
      { destruct (round_up_spec (fst (ideal pw t) + 1) (snd (ideal pw t)))
          as (A & _); [apply pow2_8_pos; exact P | lia]. }
      rewrite add32_fits by exact L. cbn [bind]. apply assert_align_fits. exact P.
  - (* error union *)
    apply andb_true_iff in Hwf. destruct Hwf as [W1 W2]. apply andb_true_iff in FI. destruct FI as [G1 G2].
    pose proof (ialign_pow2_le8 pw Hpw t1 W1) as P1. pose proof (ialign_pow2_le8 pw Hpw t2 W2) as P2.
    rewrite IHt1, IHt2 by auto. cbn [bind ideal].
    unfold istride, isize, ialign in F1. cbn [ideal fst snd] in F1.
    assert (N.max (fst (ideal pw t1)) (fst (ideal pw t2)) + 1 <= U32MAX) as L.
    { destruct (round_up_spec (N.max (fst (ideal pw t1)) (fst (ideal pw t2)) + 1)
                  (N.max (snd (ideal pw t1)) (snd (ideal pw t2))))
        as (A & _); [apply pow2_8_pos, pow2_8_max; auto | lia]. }
    rewrite add32_fits by exact L. cbn [bind]. apply assert_align_fits. cbn [snd]. apply pow2_8_max; auto.
Qed.
