(* C12: Ty::max never panics when every enum whose variants are compared is
   registered in ENUM_MAP. *)
From Capy Require Import Common.Util Common.Ty.
From Capy Require Import Model.TyRel Model.ExpectMatch Spec.TyLaws Proofs.TyRelBasics.
Local Arguments ty_eqb : simpl never.
Local Arguments N.eqb : simpl never.
Local Arguments N.leb : simpl never.
Local Arguments N.ltb : simpl never.
Local Arguments N.max : simpl never.
Local Arguments N.mul : simpl never.
Local Arguments TyRel.fit : simpl never.
Local Arguments TyRel.has_semantics_of : simpl never.
Local Arguments is_zero_sized : simpl never.

Definition no_crash {A} (r : result A) : Prop :=
  match r with Ok _ => True | _ => False end.

Section WithFixes.
Variable fx : fixes.
Notation fit := (TyRel.fit fx).
Notation weak := (TyRel.weak fx).
Notation feq := (TyRel.feq fx).
Notation cast := (TyRel.cast fx).
Notation has_semantics_of := (TyRel.has_semantics_of fx).
Notation tmax := (TyRel.tmax fx).
Notation accepts := (TyLaws.accepts fx).
Notation known_weak_fit := (TyLaws.known_weak_fit fx).
Notation known_max := (TyLaws.known_max fx).
Notation max_accepts := (TyLaws.max_accepts fx).
Notation ntarget := (TyLaws.ntarget fx).

Fixpoint registered (m : enum_map) (t : ty) : bool :=
  match t with
  | Variant eu _ _ _ _ => match get_enum m eu with Some _ => true | None => false end
  | Optional s => registered m s
  | ErrorUnion e p => registered m e && registered m p
  | _ => true
  end.



Lemma max_no_crash_lem : forall m a, registered m a = true -> forall b, no_crash (tmax m a b).
Proof.
  induction a using ty_ind'; intros Hr b; destruct b; cbn [TyRel.tmax];
    (destruct (ty_eqb _ _) eqn:E; [exact I|]);
    cbn -[TyRel.tmax];
    repeat (first [ exact I
                  | match goal with
                    | |- context [if ?c then _ else _] => destruct c
                    | |- context [match ?w with N0 => _ | Npos _ => _ end] => destruct w
                    | |- context [match ?w with xH => _ | xO _ => _ | xI _ => _ end] => destruct w
                    | |- context [match get_enum ?m ?e with Some _ => _ | None => _ end] => destruct (get_enum m e) eqn:?
                    | |- context [match tmax ?m ?x ?y with Ok _ => _ | Crash _ => _ | OutOfFuel => _ end] =>
                        let H := fresh "Hm" in
                        assert (H : no_crash (tmax m x y)) by (first [apply IHa | apply IHa1 | apply IHa2]; cbn [registered] in Hr; try apply andb_true_iff in Hr; tauto);
                        destruct (tmax m x y) as [[?|]| |]; try contradiction
                    end ]; cbn -[TyRel.tmax]).
  all: cbn [registered] in Hr; match goal with H : get_enum _ _ = None |- _ => rewrite H in Hr end; discriminate.
Qed.

End WithFixes.
