(* C27 — proofs about the mangling model: the decoder inverts mangling on Safe
   descriptors (any path length, any name length, any index), hence
   injectivity; mangled names are never compiler-internal names; witnesses of
   the three collision mechanisms of the unchanged code. *)
From Capy Require Import Common.Util Model.Mangle Spec.MangleSpec.
From Coq Require Import Decimal DecimalN DecimalPos.

(* ---------- strings ------------------------------------------------------------- *)
Lemma str_eqb_refl : forall a, str_eqb a a = true.
Proof. induction a; cbn [str_eqb]; auto. rewrite N.eqb_refl. exact IHa. Qed.

Lemma str_eqb_eq : forall a b, str_eqb a b = true -> a = b.
Proof.
  induction a; destruct b; cbn [str_eqb]; intros H; try discriminate; auto.
  apply andb_true_iff in H. destruct H as [H1 H2].
  apply N.eqb_eq in H1. subst. f_equal. auto.
Qed.

(* ---------- decimal ------------------------------------------------------------- *)
Definition nondigit_head (s : str) : Prop :=
  match s with [] => True | c :: _ => is_digit c = false end.

Lemma read_uint_chars : forall u rest, nondigit_head rest ->
  read_uint (uint_chars u ++ rest) = (u, rest).
Proof.
  induction u; intros rest H;
    try (cbn [uint_chars]; rewrite <- List.app_comm_cons; cbn [read_uint];
         match goal with |- context [is_digit ?c] => change (is_digit c) with true end;
         rewrite IHu by exact H; reflexivity).
  cbn [uint_chars Datatypes.app]. destruct rest; cbn [read_uint]; auto.
  unfold nondigit_head in H. rewrite H. reflexivity.
Qed.

Lemma to_uint_nonnil : forall n, N.to_uint n <> Nil.
Proof.
  destruct n; cbn [N.to_uint]; [discriminate | apply DecimalPos.Unsigned.to_uint_nonnil].
Qed.

Lemma uint_chars_hd : forall u, u <> Nil ->
  exists c r, uint_chars u = c :: r /\ is_digit c = true.
Proof. destruct u; intros H; try congruence; cbn [uint_chars]; eexists; eexists; split; reflexivity. Qed.

Lemma dec_hd : forall n, exists c r, dec n = c :: r /\ is_digit c = true.
Proof. intros. apply uint_chars_hd, to_uint_nonnil. Qed.

Lemma parse_dec_dec : forall n, parse_dec (dec n) = Some n.
Proof.
  intros n. unfold parse_dec, dec.
  rewrite <- (List.app_nil_r (uint_chars (N.to_uint n))).
  rewrite read_uint_chars by exact I.
  pose proof (to_uint_nonnil n) as Hn.
  destruct (N.to_uint n) eqn:E; try congruence; rewrite <- E; rewrite DecimalN.Unsigned.of_to; reflexivity.
Qed.

(* ---------- kinds ---------------------------------------------------------------- *)
Lemma kind_of_code_code : forall k, kind_of_code (code k) = Some k.
Proof. destruct k; reflexivity. Qed.

Lemma lower_code_nondigit : forall k, is_digit (to_ascii_lowercase (code k)) = false.
Proof. destruct k; reflexivity. Qed.

Lemma digit_not_kind : forall c, is_digit c = true -> kind_of_code c = None.
Proof.
  intros c H. unfold is_digit in H. apply andb_true_iff in H. destruct H as [_ H].
  apply N.leb_le in H. unfold kind_of_code.
  repeat match goal with
         | |- context [(c =? ?k)%N] => destruct (N.eqb_spec c k); [lia|]
         end.
  reflexivity.
Qed.

(* ---------- one part -------------------------------------------------------------- *)
Lemma firstn_app_exact : forall (A : Type) (a b : list A), firstn (length a) (a ++ b) = a.
Proof. intros. rewrite List.firstn_app, Nat.sub_diag, List.firstn_all, List.firstn_O, List.app_nil_r. reflexivity. Qed.
Lemma skipn_app_exact : forall (A : Type) (a b : list A), skipn (length a) (a ++ b) = b.
Proof. intros. rewrite List.skipn_app, Nat.sub_diag, List.skipn_all. reflexivity. Qed.

Lemma read_part_body : forall k n body rest,
  n = N.of_nat (length body) ->
  nondigit_head (body ++ rest) ->
  read_part k (dec n ++ body ++ rest) =
    match body with
    | c :: (c2 :: _) as t =>
        if (c =? to_ascii_lowercase (code k))%N && is_digit c2 then Some (t, rest) else Some (body, rest)
    | _ => Some (body, rest)
    end.
Proof.
  intros k n body rest Hn Hnd. unfold read_part, dec.
  rewrite read_uint_chars by exact Hnd.
  pose proof (to_uint_nonnil n) as Hnn.
  assert (Hl : N.to_nat (N.of_uint (N.to_uint n)) = length body).
  { rewrite DecimalN.Unsigned.of_to, Hn, Nat2N.id. reflexivity. }
  destruct (N.to_uint n) eqn:E; try congruence; cbv beta iota zeta; rewrite Hl;
    (replace (length (body ++ rest) <? length body)%nat with false
      by (symmetry; apply Nat.ltb_ge; rewrite List.app_length; lia));
    rewrite firstn_app_exact, skipn_app_exact; reflexivity.
Qed.

Lemma read_part_add_part : forall k t rest, part_safe (k, t) = true ->
  read_part k (add_part (k, t) ++ rest) = Some (t, rest).
Proof.
  intros k t rest Hs. unfold part_safe in Hs. cbn [fst snd] in Hs.
  destruct t as [|c t']; [discriminate|].
  unfold add_part. destruct (is_digit c) eqn:Hc.
  - rewrite <- !List.app_assoc.
    change ([to_ascii_lowercase (code k)] ++ (c :: t') ++ rest)
      with ((to_ascii_lowercase (code k) :: c :: t') ++ rest).
    rewrite read_part_body.
    + rewrite N.eqb_refl, Hc. reflexivity.
    + cbn [length]. lia.
    + cbn. apply lower_code_nondigit.
  - rewrite <- List.app_assoc. rewrite read_part_body; [| reflexivity | cbn; exact Hc].
    destruct t' as [|c2 t'']; [reflexivity|].
    apply negb_true_iff in Hs. rewrite Hs. reflexivity.
Qed.

Lemma read_parts_ok : forall ps rest, forallb part_safe ps = true ->
  read_parts (map fst ps) (concat (map add_part ps) ++ rest) = Some (ps, rest).
Proof.
  induction ps as [|[k t] ps IH]; intros rest H; cbn [map concat read_parts fst Datatypes.app]; [reflexivity|].
  cbn [forallb] in H. apply andb_true_iff in H. destruct H as [H1 H2].
  rewrite <- List.app_assoc, read_part_add_part by exact H1.
  rewrite IH by exact H2. reflexivity.
Qed.

Lemma read_toc_codes : forall (ps : list part) rest,
  match rest with [] => True | c :: _ => kind_of_code c = None end ->
  read_toc (map (fun p => code (fst p)) ps ++ rest) = (map fst ps, rest).
Proof.
  induction ps as [|[k t] ps IH]; intros rest H; cbn [map Datatypes.app fst].
  - destruct rest; cbn [read_toc]; auto. rewrite H. reflexivity.
  - cbn [read_toc]. rewrite kind_of_code_code, IH by exact H. reflexivity.
Qed.

Lemma dec_app_hd : forall n x, exists c r, dec n ++ x = c :: r /\ is_digit c = true.
Proof. intros n x. destruct (dec_hd n) as (c & r & E & D). rewrite E. exists c, (r ++ x). auto. Qed.

Lemma add_part_hd : forall p, exists c r, add_part p = c :: r /\ is_digit c = true.
Proof.
  intros [k t]. unfold add_part.
  destruct t as [|c t']; [apply dec_app_hd|].
  destruct (is_digit c); apply dec_app_hd.
Qed.

(* decoding the string of a list of safe parts gives the parts back *)
Lemma decode_mangle_parts : forall e ps, forallb part_safe ps = true ->
  decode e (mangle_parts ps) = decode_parts e ps.
Proof.
  intros e ps H. unfold decode, mangle_parts.
  rewrite read_toc_codes.
  - rewrite read_parts_ok by exact H. cbn. reflexivity.
  - destruct ps as [|p ps']; [reflexivity|]. cbn [map concat].
    destruct (add_part_hd p) as (c & r & E & D). rewrite E. cbn [Datatypes.app].
    apply digit_not_kind; exact D.
Qed.

(* ---------- paths ------------------------------------------------------------------ *)
Lemma strip_prefix_sub : forall b f r, strip_prefix f b = Some r ->
  is_sub_dir_of f b = true /\ f = b ++ r.
Proof.
  induction b as [|x b IH]; intros f r H; cbn [strip_prefix is_sub_dir_of] in *.
  - inversion H; subst; split; reflexivity.
  - destruct f as [|y f]; [discriminate|].
    destruct (str_eqb y x) eqn:E; [|discriminate].
    apply str_eqb_eq in E. subst y. destruct (IH _ _ H) as [H1 H2]. subst f.
    split; [exact H1 | reflexivity].
Qed.

Lemma strip_prefix_none : forall b f, strip_prefix f b = None -> is_sub_dir_of f b = false.
Proof.
  induction b as [|x b IH]; intros f H; cbn [strip_prefix is_sub_dir_of] in *; [discriminate|].
  destruct f as [|y f]; [reflexivity|].
  destruct (str_eqb y x); [cbn; auto | reflexivity].
Qed.

Lemma strip_capy_some : forall x st, strip_capy x = Some st -> x = st ++ s_capy.
Proof.
  intros x st H. unfold strip_capy in H.
  destruct (List.rev x) as [|c1 [|c2 [|c3 [|c4 [|c5 r]]]]] eqn:E; try discriminate;
    repeat match type of H with
           | match ?c with _ => _ end = _ => destruct c; try discriminate
           end.
  inversion H. subst st.
  apply (f_equal (@List.rev N)) in E. rewrite List.rev_involutive in E. subst x.
  cbn [List.rev]. rewrite <- !List.app_assoc. reflexivity.
Qed.

Lemma contains_dot_app_capy : forall st, contains_dot (st ++ s_capy) = true.
Proof. intros. unfold contains_dot. rewrite List.existsb_app. apply orb_true_iff. right. reflexivity. Qed.

Lemma dashify_no_dot : forall s, no_dot s = true -> dashify s = s.
Proof.
  unfold no_dot, contains_dot, dashify. induction s as [|c s IH]; cbn [existsb map]; intros H; auto.
  apply negb_true_iff, orb_false_iff in H. destruct H as [H1 H2].
  rewrite H1. f_equal. apply IH. rewrite H2. reflexivity.
Qed.

Lemma norm_no_dot : forall s, no_dot s = true -> norm_component s = s.
Proof.
  intros s H. unfold norm_component. unfold no_dot in H. apply negb_true_iff in H. rewrite H. reflexivity.
Qed.

Lemma norm_capy : forall x st, strip_capy x = Some st -> no_dot st = true -> norm_component x = st.
Proof.
  intros x st H Hd. unfold norm_component. rewrite H.
  apply strip_capy_some in H. subst x. rewrite contains_dot_app_capy. apply dashify_no_dot; exact Hd.
Qed.

Lemma files_ok_spec : forall rel, files_ok rel = true ->
  exists subs, map norm_component rel = subs /\ add_capy subs = Some rel
               /\ forallb part_safe (map file_part subs) = true /\ subs <> [].
Proof.
  induction rel as [|x rel IH]; intros H; [discriminate|].
  destruct rel as [|y rel'].
  - cbn [files_ok] in H. destruct (strip_capy x) as [st|] eqn:E; [|discriminate].
    apply andb_true_iff in H. destruct H as [H1 H2].
    exists [st]. cbn [map]. rewrite (norm_capy _ _ E H1).
    repeat split; try discriminate.
    + cbn [add_capy]. apply strip_capy_some in E. subst x. reflexivity.
    + cbn [forallb map]. change (file_part st) with (KFile, st). rewrite H2. reflexivity.
  - change (files_ok (x :: y :: rel')) with (no_dot x && part_safe (KFile, x) && files_ok (y :: rel')) in H.
    apply andb_true_iff in H. destruct H as [H H3]. apply andb_true_iff in H. destruct H as [H1 H2].
    destruct (IH H3) as (subs & Hm & Ha & Hp & Hn).
    exists (x :: subs). cbn [map]. rewrite (norm_no_dot _ H1).
    cbn [map] in Hm. rewrite Hm.
    repeat split; try discriminate.
    + destruct subs as [|s0 subs']; [congruence|].
      change (add_capy (x :: s0 :: subs')) with
        (match add_capy (s0 :: subs') with Some r' => Some (x :: r') | None => None end).
      rewrite Ha. reflexivity.
    + cbn [forallb map]. change (file_part x) with (KFile, x). rewrite H2. exact Hp.
Qed.

Lemma split_files_app : forall subs finals,
  match finals with (KFile, _) :: _ => False | _ => True end ->
  split_files (map file_part subs ++ finals) = (subs, finals).
Proof.
  induction subs as [|s subs IH]; intros finals H; cbn [map Datatypes.app split_files file_part].
  - destruct finals as [|[k t] r]; [reflexivity|]. destruct k; try reflexivity. contradiction.
  - rewrite IH by exact H. reflexivity.
Qed.

(* get_components on a Safe file *)
Lemma safe_file_components : forall e f, safe_file e f = true ->
  exists mn subs files',
    get_components e f = Ok (mn, subs)
    /\ add_capy subs = Some files'
    /\ f = match mn with Some m => mod_dir e ++ m :: s_src :: files' | None => cur_dir e ++ files' end
    /\ forallb part_safe (all_parts mn subs []) = true
    /\ subs <> [].
Proof.
  intros e f H. unfold safe_file in H. unfold get_components.
  destruct (strip_prefix f (mod_dir e)) as [rel|] eqn:Em.
  - destruct (strip_prefix_sub _ _ _ Em) as [Hs Hf]. rewrite Hs.
    destruct rel as [|m [|s rest]]; try discriminate.
    repeat (apply andb_true_iff in H; destruct H as [H ?]).
    apply str_eqb_eq in H. subst s.
    destruct (files_ok_spec _ H0) as (subs & Hm & Ha & Hp & Hn).
    exists (Some m), subs, rest. cbn [bind].
    rewrite str_eqb_refl. cbn [map]. rewrite (norm_no_dot _ H2), Hm.
    repeat split; auto.
    unfold all_parts. rewrite List.app_nil_r. cbn [Datatypes.app forallb]. rewrite H1. exact Hp.
  - rewrite (strip_prefix_none _ _ Em).
    destruct (strip_prefix f (cur_dir e)) as [rel|] eqn:Ec; [|discriminate].
    destruct (strip_prefix_sub _ _ _ Ec) as [Hs Hf]. rewrite Hs.
    apply andb_true_iff in H. destruct H as [H1 H2]. apply negb_true_iff in H1.
    destruct (files_ok_spec _ H2) as (subs & Hm & Ha & Hp & Hn).
    exists None, subs, rel. cbn [bind]. rewrite H1, Hm.
    repeat split; auto.
    unfold all_parts. rewrite List.app_nil_r. cbn [Datatypes.app]. exact Hp.
Qed.

Lemma dec_part_safe : forall k n, part_safe (k, dec n) = true.
Proof.
  intros k n. destruct (dec_hd n) as (c & r & E & D). unfold part_safe. cbn [fst snd]. rewrite E.
  destruct r; [reflexivity|].
  apply negb_true_iff, andb_false_iff. left.
  apply N.eqb_neq. intros ->. rewrite lower_code_nondigit in D. discriminate.
Qed.

(* ---------- the main theorem --------------------------------------------------------- *)
Theorem decode_mangle : forall e d, Safe e d = true ->
  exists s, mangle e d = Ok s /\ decode e s = Some d.
Proof.
  intros e [b g t] H. unfold Safe in H. cbn [d_base d_tail] in H.
  apply andb_true_iff in H. destruct H as [Hb Ht].
  unfold mangle, parts_of. cbn [d_base].
  assert (Hfile : exists f p, base_file_part b = (f, p) /\ safe_file e f = true
                            /\ part_safe p = true
                            /\ match p with
                               | (KName, n) => b = BGlobal f n
                               | (KLambda, tx) => exists i, tx = dec i /\ b = BLambda f i None
                               | _ => False
                               end).
  { destruct b as [f n | f i [o|]]; try discriminate.
    - apply andb_true_iff in Hb. destruct Hb. exists f, (KName, n). cbn. auto.
    - exists f, (KLambda, dec i). cbn. repeat split; auto. apply dec_part_safe. eauto. }
  destruct Hfile as (f & p & Ebf & Hsf & Hps & Hshape).
  rewrite Ebf. cbn [fst].
  destruct (safe_file_components _ _ Hsf) as (mn & subs & files' & Hc & Ha & Hf & Hp & Hn).
  rewrite Hc. cbn [bind fst snd].
  eexists. split; [reflexivity|].
  set (finals := final_parts {| d_base := b; d_generic := g; d_tail := t |}).
  assert (Hfin : forallb part_safe finals = true).
  { unfold finals, final_parts. cbn [d_base d_generic d_tail]. rewrite Ebf. cbn [snd forallb].
    rewrite Hps. cbn [andb]. rewrite List.forallb_app. apply andb_true_iff. split.
    - destruct g; cbn [generic_parts forallb]; auto. rewrite dec_part_safe. reflexivity.
    - destruct t; cbn [tail_parts forallb]; auto; rewrite dec_part_safe; auto.
      cbn [andb]. rewrite Ht. reflexivity. }
  rewrite decode_mangle_parts.
  2:{ unfold all_parts in *. rewrite List.app_nil_r in Hp. rewrite List.app_assoc, List.forallb_app. apply andb_true_iff. split; assumption. }
  unfold decode_parts, all_parts.
  assert (Hsplit : split_files (map file_part subs ++ finals) = (subs, finals)).
  { apply split_files_app. unfold finals, final_parts. cbn [d_base]. rewrite Ebf. cbn [snd].
    destruct p as [[] tx]; auto. }
  assert (Hrest : forall file,
     file = f ->
     match finals with
      | (k, t0) :: ps3 =>
          match (match k with
                 | KName => Some (BGlobal file t0)
                 | KLambda => match parse_dec t0 with Some i => Some (BLambda file i None) | None => None end
                 | _ => None
                 end) with
          | None => None
          | Some b0 =>
              let '(g0, ps4) := match ps3 with
                               | (KGeneric, t1) :: r =>
                                   (match parse_dec t1 with Some n => Some (Some n) | None => None end, r)
                               | _ => (Some None, ps3)
                               end in
              match g0, decode_tail ps4 with
              | Some g', Some tl => Some {| d_base := b0; d_generic := g'; d_tail := tl |}
              | _, _ => None
              end
          end
      | [] => None
      end = Some {| d_base := b; d_generic := g; d_tail := t |}).
  { intros file ->. unfold finals, final_parts. cbn [d_base d_generic d_tail]. rewrite Ebf. cbn [snd].
    assert (Hb0 : (let (k, t0) := p in
                   match k with
                   | KName => Some (BGlobal f t0)
                   | KLambda => match parse_dec t0 with Some i => Some (BLambda f i None) | None => None end
                   | _ => None
                   end) = Some b).
    { destruct p as [[] tx]; try contradiction.
      - subst b. reflexivity.
      - destruct Hshape as (i & -> & ->). rewrite parse_dec_dec. reflexivity. }
    destruct p as [k0 t0]. cbn [Datatypes.app]. rewrite Hb0.
    destruct g as [n|]; cbn [generic_parts Datatypes.app].
    - rewrite parse_dec_dec.
      destruct t; cbn [tail_parts decode_tail]; try rewrite parse_dec_dec; reflexivity.
    - destruct t; cbn [tail_parts decode_tail]; try rewrite parse_dec_dec; reflexivity. }
  destruct mn as [m|].
  - cbn [Datatypes.app]. rewrite Hsplit, Ha. apply Hrest. symmetry. exact Hf.
  - cbn [Datatypes.app].
    replace (match map file_part subs ++ finals with
             | (KModule, m) :: r => (Some m, r)
             | _ => (None, map file_part subs ++ finals)
             end) with (@None str, map file_part subs ++ finals).
    2:{ destruct subs; [congruence | reflexivity]. }
    rewrite Hsplit, Ha. apply Hrest. symmetry. exact Hf.
Qed.

Corollary mangle_injective_on_safe : forall e d1 d2,
  Safe e d1 = true -> Safe e d2 = true -> mangle e d1 = mangle e d2 -> d1 = d2.
Proof.
  intros e d1 d2 H1 H2 E.
  destruct (decode_mangle _ _ H1) as (s1 & M1 & D1).
  destruct (decode_mangle _ _ H2) as (s2 & M2 & D2).
  rewrite M1, M2 in E. inversion E. subst s2. rewrite D1 in D2. inversion D2. reflexivity.
Qed.

(* a Safe descriptor is mangled without a crash *)
Corollary mangle_safe_ok : forall e d, Safe e d = true -> exists s, mangle e d = Ok s.
Proof. intros e d H. destruct (decode_mangle _ _ H) as (s & M & _). eauto. Qed.

(* a lambda owned by a global gets, by design, the global's symbol *)
Lemma mangle_entity : forall e d, mangle e (entity d) = mangle e d.
Proof. intros e [[f n|f i [[gf gn]|]] g t]; reflexivity. Qed.

(* ---------- never a compiler-internal name --------------------------------------------- *)
Lemma mangle_head : forall e d s, mangle e d = Ok s ->
  exists c r, s = c :: r /\ (c = 77 \/ c = 70 \/ c = 78 \/ c = 76)%N.
Proof.
  intros e d s H. unfold mangle in H.
  destruct (parts_of e d) as [ps| |] eqn:P; cbn [bind] in H; try discriminate.
  inversion H. subst s. clear H.
  unfold parts_of in P.
  destruct (get_components e (fst (base_file_part (d_base d)))) as [[mn subs]| |]; cbn [bind] in P; try discriminate.
  inversion P. subst ps. clear P. cbn [fst snd].
  unfold mangle_parts, all_parts.
  destruct mn as [m|]; cbn [Datatypes.app map fst code]; [eauto 6|].
  destruct subs as [|s0 subs]; cbn [Datatypes.app map fst code]; [|eauto 7].
  unfold final_parts. cbn [map fst Datatypes.app].
  destruct (d_base d) as [f n|f i [[gf gn]|]]; cbn [base_file_part snd fst code]; eauto 8.
Qed.

Theorem mangle_not_internal : forall e d s, mangle e d = Ok s -> ~ Internal s.
Proof.
  intros e d s H. destruct (mangle_head _ _ _ H) as (c & r & -> & Hc).
  unfold Internal, mangle_internal, s_main, s_str_, s_i128_, s_member_str. cbn [Datatypes.app].
  intros [I|[[nm I]|[[n I]|[[n I]|[n I]]]]]; inversion I; subst c;
    destruct Hc as [Hc|[Hc|[Hc|Hc]]]; discriminate.
Qed.

(* ---------- the unchanged code does collide --------------------------------------------- *)
Definition C27_full : Prop := forall e d1 d2 s,
  WF e d1 = true -> WF e d2 = true -> entity d1 <> entity d2 ->
  mangle e d1 = Ok s -> mangle e d2 <> Ok s.

Definition w_env : env := {| mod_dir := [[109]]; cur_dir := [[119]] |}%N.   (* /m , /w *)
Definition x_capy : str := [120; 46; 99; 97; 112; 121]%N.                    (* x.capy *)
Definition foo : str := [102; 111; 111]%N.
Definition g_in (dirs : list str) : desc :=
  {| d_base := BGlobal ([119]%N :: dirs ++ [x_capy]) foo; d_generic := None; d_tail := TNone |}.

(* "1/x.capy" vs "f1/x.capy" *)
Lemma collide_digit_escape :
  WF w_env (g_in [[49]%N]) = true /\ WF w_env (g_in [[102; 49]%N]) = true
  /\ entity (g_in [[49]%N]) <> entity (g_in [[102; 49]%N])
  /\ mangle w_env (g_in [[49]%N]) = mangle w_env (g_in [[102; 49]%N])
  /\ mangle w_env (g_in [[49]%N]) = Ok [70;70;78;50;102;49;49;120;51;102;111;111;69]%N.
Proof. repeat split; try (vm_compute; reflexivity). vm_compute. discriminate. Qed.

(* "a.b/x.capy" vs "a-b/x.capy" *)
Lemma collide_dot_dash :
  WF w_env (g_in [[97;46;98]%N]) = true /\ WF w_env (g_in [[97;45;98]%N]) = true
  /\ entity (g_in [[97;46;98]%N]) <> entity (g_in [[97;45;98]%N])
  /\ mangle w_env (g_in [[97;46;98]%N]) = mangle w_env (g_in [[97;45;98]%N])
  /\ is_ok (mangle w_env (g_in [[97;46;98]%N])) = true.
Proof. repeat split; try (vm_compute; reflexivity). vm_compute. discriminate. Qed.

(* "a/src/x.capy" vs "b/src/x.capy" *)
Lemma collide_src_drop :
  WF w_env (g_in [[97]%N; s_src]) = true /\ WF w_env (g_in [[98]%N; s_src]) = true
  /\ entity (g_in [[97]%N; s_src]) <> entity (g_in [[98]%N; s_src])
  /\ mangle w_env (g_in [[97]%N; s_src]) = mangle w_env (g_in [[98]%N; s_src])
  /\ is_ok (mangle w_env (g_in [[97]%N; s_src])) = true.
Proof. repeat split; try (vm_compute; reflexivity). vm_compute. discriminate. Qed.

Theorem C27_full_refuted : ~ C27_full.
Proof.
  intros H. destruct collide_digit_escape as (W1 & W2 & Hne & Heq & Hok).
  apply (H w_env _ _ _ W1 W2 Hne Hok). rewrite <- Heq. exact Hok.
Qed.

(* the classifier names exactly one mechanism on each witness *)
Lemma classifier_on_witnesses :
  explain_collision w_env (g_in [[49]%N]) (g_in [[102; 49]%N]) = [1%N]
  /\ explain_collision w_env (g_in [[97;46;98]%N]) (g_in [[97;45;98]%N]) = [2%N]
  /\ explain_collision w_env (g_in [[97]%N; s_src]) (g_in [[98]%N; s_src]) = [3%N].
Proof. repeat split; vm_compute; reflexivity. Qed.
