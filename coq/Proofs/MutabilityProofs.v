(* Proofs for C14: get_mutability against type-directed place mutability. *)
From Capy Require Import Common.Util Model.Mutability Spec.MutSpec.

(* induction principle that also covers the initialiser nested in [PLocal] *)
Section PathInd.
Variable P : path -> Prop.
Hypothesis HLocalS : forall id mu v, P v -> P (PLocal id mu (Some v)).
Hypothesis HLocalN : forall id mu, P (PLocal id mu None).
Hypothesis HParam : forall i, P (PParam i).
Hypothesis HGlobal : forall g, P (PGlobal g).
Hypothesis HField : forall p, P p -> forall f, P (PField p f).
Hypothesis HIndex : forall p, P p -> P (PIndex p).
Hypothesis HDeref : forall p, P p -> P (PDeref p).
Hypothesis HParen : forall p, P p -> P (PParen p).
Hypothesis HUnwrap : forall p, P p -> P (PUnwrap p).
Hypothesis HBlock : forall p, P p -> P (PBlock p).
Hypothesis HRef : forall m p, P p -> P (PRef m p).
Hypothesis HCall : forall id, P (PCall id).
Hypothesis HCast : forall id, P (PCast id).
Hypothesis HLit : P PLit.
Hypothesis HOther : forall id, P (POther id).
Fixpoint path_ind2 (e : path) : P e :=
  match e with
  | PLocal id mu (Some v) => HLocalS id mu v (path_ind2 v)
  | PLocal id mu None => HLocalN id mu
  | PParam i => HParam i
  | PGlobal g => HGlobal g
  | PField p f => HField p (path_ind2 p) f
  | PIndex p => HIndex p (path_ind2 p)
  | PDeref p => HDeref p (path_ind2 p)
  | PParen p => HParen p (path_ind2 p)
  | PUnwrap p => HUnwrap p (path_ind2 p)
  | PBlock p => HBlock p (path_ind2 p)
  | PRef m p => HRef m p (path_ind2 p)
  | PCall id => HCall id
  | PCast id => HCast id
  | PLit => HLit
  | POther id => HOther id
  end.
End PathInd.

Section Proofs.
Variable pk : path -> option bool.
Variable deep : path -> list bool.

Notation gm := (get_mutability false false pk deep).
Notation susp := (suspect pk deep).

Lemma same_pk_eq a b : same_pk a b = true -> a = b.
Proof.
  destruct a as [[|]|], b as [[|]|]; cbn; intros; congruence.
Qed.

(* Under the deref flag the answer is exactly "the pointer type of e is ^mut";
   without it, it agrees with the place classification. *)
Lemma gm_characterised : forall e a d,
  susp e d = false ->
  if d then is_mutable (gm e a true) = true <-> pk e = Some true
  else (place pk deep e = Mut -> is_mutable (gm e a false) = true)
       /\ (is_mutable (gm e a false) = true -> place pk deep e <> Immut).
Proof.
  induction e as [id mu v IH|id mu|i|g|p IH f|p IH|p IH|p IH|p IH|p IH|m p IH|id|id| |id] using path_ind2;
    intros a d Hs.
  - (* PLocal with initialiser *)
    destruct d.
    + cbn [suspect] in Hs.
      apply orb_false_iff in Hs. destruct Hs as [Hpk Hv].
      apply negb_false_iff in Hpk. apply same_pk_eq in Hpk.
      cbn [get_mutability]. rewrite Hpk.
      exact (IH false true Hv).
    + cbn [get_mutability place]. destruct mu; cbn; split; intros; congruence.
  - (* PLocal without initialiser *)
    destruct d; [cbn [suspect] in Hs; discriminate|].
    cbn [get_mutability place]. destruct mu; cbn; split; intros; congruence.
  - (* PParam *)
    destruct d; cbn [get_mutability place].
    + destruct (pk (PParam i)) as [[|]|]; cbn; split; intros; congruence.
    + split; [discriminate|].
      destruct (pk (PParam i)) as [[|]|]; destruct a; cbn; discriminate.
  - (* PGlobal *)
    destruct d; cbn [get_mutability place suspect] in *.
    + split; [discriminate|]. intros E. rewrite E in Hs. discriminate.
    + split; discriminate.
  - (* PField *)
    destruct d; cbn [suspect] in Hs.
    + cbn [get_mutability]. destruct (pk (PField p f)) as [[|]|]; cbn; split; intros; congruence.
    + apply orb_false_iff in Hs. destruct Hs as [Hdi Hs].
      cbn [get_mutability place orb]. unfold is_pointer, through_auto. rewrite Hdi.
      destruct (pk p) as [[|]|] eqn:Ep.
      * specialize (IH a true Hs). cbn beta iota in IH.
        split; [intros _; apply IH; reflexivity|destruct (via_immut pk deep p); discriminate].
      * specialize (IH a true Hs). cbn beta iota in IH. split; [discriminate|].
        intros E. apply IH in E. congruence.
      * exact (IH a false Hs).
  - (* PIndex *)
    destruct d; cbn [suspect] in Hs; [discriminate|].
    apply orb_false_iff in Hs. destruct Hs as [Hdi Hs].
    cbn [get_mutability place orb]. unfold is_pointer, through_auto. rewrite Hdi.
    destruct (pk p) as [[|]|] eqn:Ep.
    + specialize (IH a true Hs). cbn beta iota in IH.
      split; [intros _; apply IH; reflexivity|destruct (via_immut pk deep p); discriminate].
    + specialize (IH a true Hs). cbn beta iota in IH. split; [discriminate|].
      intros E. apply IH in E. congruence.
    + exact (IH a false Hs).
  - (* PDeref *)
    destruct d; cbn [suspect] in Hs; [discriminate|].
    cbn [get_mutability place]. unfold through.
    specialize (IH a true Hs). cbn beta iota in IH.
    destruct (pk p) as [[|]|] eqn:Ep.
    + split; [intros _; apply IH; reflexivity|destruct (via_immut pk deep p); discriminate].
    + split; [discriminate|]. intros E. apply IH in E. congruence.
    + split; discriminate.
  - (* PParen *)
    destruct d; cbn [suspect] in Hs.
    + apply orb_false_iff in Hs. destruct Hs as [Hpk Hp].
      apply negb_false_iff in Hpk. apply same_pk_eq in Hpk.
      cbn [get_mutability]. rewrite Hpk. exact (IH a true Hp).
    + cbn [get_mutability place]. exact (IH a false Hs).
  - (* PUnwrap *)
    destruct d; cbn [suspect] in Hs; [discriminate|].
    cbn [get_mutability place]. exact (IH a false Hs).
  - (* PBlock *)
    destruct d; cbn [suspect] in Hs.
    + apply orb_false_iff in Hs. destruct Hs as [Hpk Hp].
      apply negb_false_iff in Hpk. apply same_pk_eq in Hpk.
      cbn [get_mutability]. rewrite Hpk. exact (IH a true Hp).
    + cbn [get_mutability place]. exact (IH a false Hs).
  - (* PRef *)
    destruct d; cbn [suspect] in Hs.
    + apply negb_false_iff in Hs. apply same_pk_eq in Hs.
      cbn [get_mutability]. rewrite Hs. destruct m; cbn; split; intros; congruence.
    + cbn [get_mutability place]. split; [discriminate|intros _; discriminate].
  - (* PCall *)
    destruct d; cbn [suspect] in Hs.
    + apply negb_false_iff in Hs. apply same_pk_eq in Hs.
      cbn [get_mutability]. rewrite Hs. cbn. split; reflexivity.
    + cbn [get_mutability place]. split; discriminate.
  - (* PCast *)
    destruct d; cbn [get_mutability place].
    + destruct (pk (PCast id)) as [[|]|]; cbn; split; intros; congruence.
    + split; discriminate.
  - (* PLit *)
    destruct d; cbn [get_mutability place suspect] in *.
    + apply negb_false_iff in Hs. apply same_pk_eq in Hs. split; [intros _; exact Hs|reflexivity].
    + split; [discriminate|intros _; discriminate].
  - (* POther *)
    destruct d; cbn [get_mutability place suspect] in *.
    + split; [discriminate|]. intros E. rewrite E in Hs. discriminate.
    + split; discriminate.
Qed.

Theorem assign_sound e :
  susp e false = false -> assign_accepted false false pk deep e = true -> place pk deep e <> Immut.
Proof. intros Hs. exact (proj2 (gm_characterised e true false Hs)). Qed.

Theorem assign_complete e :
  susp e false = false -> place pk deep e = Mut -> assign_accepted false false pk deep e = true.
Proof. intros Hs. exact (proj1 (gm_characterised e true false Hs)). Qed.

Theorem ref_mut_sound e :
  susp e false = false -> ref_mut_accepted false false pk deep e = true -> place pk deep e <> Immut.
Proof. intros Hs. exact (proj2 (gm_characterised e false false Hs)). Qed.

Theorem ref_mut_complete e :
  susp e false = false -> place pk deep e = Mut -> ref_mut_accepted false false pk deep e = true.
Proof. intros Hs. exact (proj1 (gm_characterised e false false Hs)). Qed.

Theorem deref_type_directed e a :
  susp e true = false -> (is_mutable (gm e a true) = true <-> pk e = Some true).
Proof. intros H. exact (gm_characterised e a true H). Qed.

(* ---- the repaired variants ------------------------------------------------------------
   gm1 = /repo 1af504c (through_pointer, outermost level), gm2 = proposed (every auto-deref level) *)
Notation gm1 := (get_mutability true false pk deep).
Notation gm2 := (get_mutability true true pk deep).

Lemma tp_mut f2 au p r :
  is_mutable (through_pointer true f2 pk deep au p r) = true ->
  pk p <> Some false /\ is_mutable r = true /\ (f2 && au = true -> deep_immut pk deep p = false).
Proof.
  unfold through_pointer. destruct r; cbn [is_mutable]; try discriminate.
  destruct (pk p) as [[|]|] eqn:Ep; cbn [is_mutable]; try discriminate.
  - destruct (f2 && au && deep_immut pk deep p) eqn:E; cbn [is_mutable]; [discriminate|].
    intros _. split; [discriminate|]. split; [reflexivity|]. intros H. rewrite H in E. exact E.
  - intros _. split; [discriminate|]. split; [reflexivity|]. intros _. unfold deep_immut. rewrite Ep. reflexivity.
Qed.

(* Soundness of the repaired variants.  With every auto-deref level checked (f2 = true) it holds
   for EVERY path and oracle; with the outermost level only, outside the class [multilevel]. *)
Lemma fixed_sound_gen f2 : forall e a,
  f2 = true \/ multilevel pk deep e = false ->
  is_mutable (get_mutability true f2 pk deep e a false) = true -> place pk deep e <> Immut.
Proof.
  induction e as [id mu v IH|id mu|i|g|p IH f|p IH|p IH|p IH|p IH|p IH|m p IH|id|id| |id] using path_ind2;
    intros a Hc H; cbn [get_mutability place] in *; try discriminate.
  - destruct mu; [discriminate|cbn in H; discriminate].
  - destruct mu; [discriminate|cbn in H; discriminate].
  - destruct (pk (PParam i)) as [[|]|]; destruct a; cbn in H; discriminate.
  - (* PField *) cbn [orb] in H. apply tp_mut in H. destruct H as [Hp [Hr Hd]].
    unfold through_auto, is_pointer in *. cbn [multilevel] in Hc. destruct (pk p) as [[|]|] eqn:Ep.
    + assert (Hdi : deep_immut pk deep p = false).
      { destruct Hc as [Hf|Hm]; [apply Hd; subst; reflexivity|].
        apply orb_false_iff in Hm. tauto. }
      rewrite Hdi. destruct (via_immut pk deep p); discriminate.
    + congruence.
    + apply (IH a); [|exact Hr]. destruct Hc as [Hf|Hm]; [left; exact Hf|right].
      apply orb_false_iff in Hm. tauto.
  - (* PIndex *) cbn [orb] in H. apply tp_mut in H. destruct H as [Hp [Hr Hd]].
    unfold through_auto, is_pointer in *. cbn [multilevel] in Hc. destruct (pk p) as [[|]|] eqn:Ep.
    + assert (Hdi : deep_immut pk deep p = false).
      { destruct Hc as [Hf|Hm]; [apply Hd; subst; reflexivity|].
        apply orb_false_iff in Hm. tauto. }
      rewrite Hdi. destruct (via_immut pk deep p); discriminate.
    + congruence.
    + apply (IH a); [|exact Hr]. destruct Hc as [Hf|Hm]; [left; exact Hf|right].
      apply orb_false_iff in Hm. tauto.
  - (* PDeref *) apply tp_mut in H. destruct H as [Hp _].
    unfold through. destruct (pk p) as [[|]|]; [destruct (via_immut pk deep p); discriminate|congruence|discriminate].
  - cbn [multilevel] in Hc. exact (IH a Hc H).
  - cbn [multilevel] in Hc. exact (IH a Hc H).
  - cbn [multilevel] in Hc. exact (IH a Hc H).
Qed.

Theorem fix2_assign_sound e : assign_accepted true true pk deep e = true -> place pk deep e <> Immut.
Proof. apply fixed_sound_gen. left; reflexivity. Qed.
Theorem fix2_ref_mut_sound e : ref_mut_accepted true true pk deep e = true -> place pk deep e <> Immut.
Proof. apply fixed_sound_gen. left; reflexivity. Qed.
Theorem fix1_assign_sound e :
  multilevel pk deep e = false -> assign_accepted true false pk deep e = true -> place pk deep e <> Immut.
Proof. intros H. apply fixed_sound_gen. right; exact H. Qed.
Theorem fix1_ref_mut_sound e :
  multilevel pk deep e = false -> ref_mut_accepted true false pk deep e = true -> place pk deep e <> Immut.
Proof. intros H. apply fixed_sound_gen. right; exact H. Qed.

(* outside the suspect class the repairs change nothing (so completeness carries over) *)
Lemma through_pointer_id f2 au p r :
  (is_mutable r = true -> pk p <> Some false /\ (au = true -> deep_immut pk deep p = false)) ->
  through_pointer true f2 pk deep au p r = r.
Proof.
  unfold through_pointer. destruct r; auto. intros H. destruct (H eq_refl) as [H1 H2].
  destruct (pk p) as [[|]|] eqn:Ep; [|congruence|].
  - destruct au; [rewrite (H2 eq_refl)|]; rewrite ?andb_false_r; reflexivity.
  - unfold deep_immut. rewrite Ep. rewrite andb_false_r. reflexivity.
Qed.

Lemma fixed_eq_nonsuspect f2 : forall e a d,
  susp e d = false -> get_mutability true f2 pk deep e a d = gm e a d.
Proof.
  induction e as [id mu v IH|id mu|i|g|p IH f|p IH|p IH|p IH|p IH|p IH|m p IH|id|id| |id] using path_ind2;
    intros a d Hs; try reflexivity.
  - destruct d; [|reflexivity]. cbn [suspect] in Hs. apply orb_false_iff in Hs. destruct Hs as [_ Hv].
    cbn [get_mutability]. exact (IH false true Hv).
  - (* PField *) destruct d; [reflexivity|]. cbn [suspect] in Hs. apply orb_false_iff in Hs. destruct Hs as [Hdi Hs].
    cbn [get_mutability orb]. unfold is_pointer in *. rewrite (IH a _ Hs).
    unfold through_pointer at 2. cbn iota. apply through_pointer_id. intros Hm. split; [|intros _; exact Hdi].
    destruct (pk p) as [[|]|] eqn:Ep; try discriminate.
    pose proof (gm_characterised p a true Hs) as Hc. cbn beta iota in Hc. apply Hc in Hm. congruence.
  - (* PIndex *) destruct d; [cbn [suspect] in Hs; discriminate|]. cbn [suspect] in Hs.
    apply orb_false_iff in Hs. destruct Hs as [Hdi Hs].
    cbn [get_mutability orb]. unfold is_pointer in *. rewrite (IH a _ Hs).
    unfold through_pointer at 2. cbn iota. apply through_pointer_id. intros Hm. split; [|intros _; exact Hdi].
    destruct (pk p) as [[|]|] eqn:Ep; try discriminate.
    pose proof (gm_characterised p a true Hs) as Hc. cbn beta iota in Hc. apply Hc in Hm. congruence.
  - (* PDeref *) destruct d; [cbn [suspect] in Hs; discriminate|]. cbn [suspect] in Hs. cbn [get_mutability].
    rewrite (IH a true Hs). unfold through_pointer at 2. cbn iota. apply through_pointer_id. intros Hm.
    split; [|discriminate].
    pose proof (gm_characterised p a true Hs) as Hc. cbn beta iota in Hc. apply Hc in Hm. congruence.
  - (* PParen *) cbn [get_mutability]. destruct d; cbn [suspect] in Hs.
    + apply orb_false_iff in Hs. destruct Hs as [_ Hp]. exact (IH a true Hp).
    + exact (IH a false Hs).
  - (* PUnwrap *) cbn [get_mutability]. destruct d; cbn [suspect] in Hs; [discriminate|]. exact (IH a false Hs).
  - (* PBlock *) cbn [get_mutability]. destruct d; cbn [suspect] in Hs.
    + apply orb_false_iff in Hs. destruct Hs as [_ Hp]. exact (IH a true Hp).
    + exact (IH a false Hs).
Qed.

Theorem fixed_assign_complete f2 e :
  susp e false = false -> place pk deep e = Mut -> assign_accepted true f2 pk deep e = true.
Proof.
  intros Hs Hp. unfold assign_accepted. rewrite (fixed_eq_nonsuspect f2 e true false Hs).
  exact (assign_complete e Hs Hp).
Qed.

Theorem fixed_ref_mut_complete f2 e :
  susp e false = false -> place pk deep e = Mut -> ref_mut_accepted true f2 pk deep e = true.
Proof.
  intros Hs Hp. unfold ref_mut_accepted. rewrite (fixed_eq_nonsuspect f2 e false false Hs).
  exact (ref_mut_complete e Hs Hp).
Qed.

End Proofs.

Lemma fixed_assign_complete_all : forall f2 pk deep e,
  suspect pk deep e false = false -> place pk deep e = Mut -> assign_accepted true f2 pk deep e = true.
Proof. intros f2 pk deep e. apply fixed_assign_complete. Qed.
Lemma fixed_ref_mut_complete_all : forall f2 pk deep e,
  suspect pk deep e false = false -> place pk deep e = Mut -> ref_mut_accepted true f2 pk deep e = true.
Proof. intros f2 pk deep e. apply fixed_ref_mut_complete. Qed.

(* ---- witnesses: the full statement is false of the code as it is ------------------- *)

Definition full_sound : Prop := forall pk deep e,
  typed pk e = true -> assign_accepted false false pk deep e = true -> place pk deep e <> Immut.
Definition full_complete : Prop := forall pk deep e,
  typed pk e = true -> place pk deep e = Mut -> assign_accepted false false pk deep e = true.

(* x :: 5; p := get(^x); p^ = 10     (get returns ^i32) *)
Definition call_path : path := PDeref (PLocal 1 true (Some (PCall 7))).
Definition imm_pk (_ : path) : option bool := Some false.   (* every pointer is `^` *)
Definition no_deep (_ : path) : list bool := [].            (* single-level pointers only *)

Lemma call_witness :
  typed imm_pk call_path = true /\ assign_accepted false false imm_pk no_deep call_path = true
  /\ place imm_pk no_deep call_path = Immut /\ suspect imm_pk no_deep call_path false = true.
Proof. repeat split; vm_compute; reflexivity. Qed.

Lemma full_sound_refuted : ~ full_sound.
Proof.
  intros H. destruct call_witness as [Ht [Ha [Hp _]]].
  exact (H imm_pk no_deep call_path Ht Ha Hp).
Qed.

(* x :: 5; arr := .[^x]; arr[0]^ = 10 : the array is not a pointer, its elements are `^i32` *)
Definition index_path : path := PDeref (PIndex (PLocal 1 true (Some PLit))).
Definition index_pk (p : path) : option bool :=
  match p with PIndex _ => Some false | _ => None end.
Lemma index_witness :
  typed index_pk index_path = true /\ assign_accepted false false index_pk no_deep index_path = true
  /\ place index_pk no_deep index_path = Immut /\ suspect index_pk no_deep index_path false = true.
Proof. repeat split; vm_compute; reflexivity. Qed.

(* x :: 5; q := ^x; p := ^mut q; p^^ = 10 : p is `^mut ^i32`, p^ is `^i32` *)
Definition x_local : path := PLocal 0 false (Some (POther 0)).
Definition q_local : path := PLocal 1 true (Some (PRef false x_local)).
Definition p_local : path := PLocal 2 true (Some (PRef true q_local)).
Definition deref2_path : path := PDeref (PDeref p_local).
Definition deref2_pk (p : path) : option bool :=
  match p with
  | PDeref _ => Some false
  | PLocal 2 _ _ => Some true
  | PRef m _ => Some m
  | PLocal 1 _ _ => Some false
  | _ => None
  end.
Lemma deref2_witness :
  typed deref2_pk deref2_path = true /\ assign_accepted false false deref2_pk no_deep deref2_path = true
  /\ place deref2_pk no_deep deref2_path = Immut /\ suspect deref2_pk no_deep deref2_path false = true.
Proof. repeat split; vm_compute; reflexivity. Qed.

(* (arr: [2]^mut i32) { arr[0]^ = 1 } : rejected although the element is a `^mut` pointer *)
Definition param_index_path : path := PDeref (PIndex (PParam 0)).
Definition param_index_pk (p : path) : option bool :=
  match p with PIndex _ => Some true | _ => None end.
Lemma full_complete_refuted : ~ full_complete.
Proof.
  intros H.
  assert (E : assign_accepted false false param_index_pk no_deep param_index_path = true)
    by (apply H; vm_compute; reflexivity).
  vm_compute in E. discriminate.
Qed.

(* Non-vacuity: s.r.v = 1 with s := S.{..}, r : ^mut T is accepted; with r : ^T rejected. *)
Definition field_path : path := PField (PField (PLocal 1 false (Some PLit)) 1) 2.
Definition field_pk (m : bool) (p : path) : option bool :=
  match p with PField (PLocal _ _ _) _ => Some m | _ => None end.
Lemma example_ok :
  suspect (field_pk true) no_deep field_path false = false
  /\ assign_accepted false false (field_pk true) no_deep field_path = true /\ place (field_pk true) no_deep field_path = Mut
  /\ suspect (field_pk false) no_deep field_path false = false
  /\ assign_accepted false false (field_pk false) no_deep field_path = false /\ place (field_pk false) no_deep field_path = Immut.
Proof. repeat split; vm_compute; reflexivity. Qed.

(* the three soundness witnesses are rejected by the repaired variant *)
Lemma fixed_rejects_witnesses :
  assign_accepted true false imm_pk no_deep call_path = false
  /\ assign_accepted true false index_pk no_deep index_path = false
  /\ assign_accepted true false deref2_pk no_deep deref2_path = false.
Proof. repeat split; vm_compute; reflexivity. Qed.

(* ---- multi-level auto-deref: /repo 1af504c is still unsound ------------------------------
   arr :: i32.[1,2,3]; q := ^arr; ptr := ^mut q; ptr[1] = 50      ptr : ^mut ^[3]i32
   pp := ^mut qs (qs := ^s, s :: S.{..}); pp.v = 60                pp  : ^mut ^S          *)
Definition ml_local : path := PLocal 2 true (Some (PRef true q_local)).
Definition ml_index_path : path := PIndex ml_local.
Definition ml_field_path : path := PField ml_local 1.
Definition ml_pk (p : path) : option bool :=
  match p with
  | PLocal 2 _ _ => Some true
  | PRef m _ => Some m
  | PLocal 1 _ _ => Some false
  | _ => None
  end.
Definition ml_deep (p : path) : list bool :=
  match p with PLocal 2 _ _ => [false] | PRef true _ => [false] | _ => [] end.

Definition fix1_full_sound : Prop := forall pk deep e,
  typed pk e = true -> assign_accepted true false pk deep e = true -> place pk deep e <> Immut.

Lemma multilevel_witness :
  typed ml_pk ml_index_path = true
  /\ assign_accepted true false ml_pk ml_deep ml_index_path = true
  /\ place ml_pk ml_deep ml_index_path = Immut
  /\ multilevel ml_pk ml_deep ml_index_path = true
  /\ assign_accepted true false ml_pk ml_deep ml_field_path = true
  /\ place ml_pk ml_deep ml_field_path = Immut
  /\ assign_accepted true true ml_pk ml_deep ml_index_path = false
  /\ assign_accepted true true ml_pk ml_deep ml_field_path = false.
Proof. repeat split; vm_compute; reflexivity. Qed.

Lemma fix1_full_sound_refuted : ~ fix1_full_sound.
Proof.
  intros H. destruct multilevel_witness as [Ht [Ha [Hp _]]].
  exact (H ml_pk ml_deep ml_index_path Ht Ha Hp).
Qed.
