From Capy Require Import Common.Util Model.LineIndex Spec.LineSpec.
From Coq Require Import Sorted.

Lemma NL_eq : LineIndex.NL = LineSpec.NL. Proof. reflexivity. Qed.

Lemma line_starts_from_gt pos txt x :
  In x (line_starts_from pos txt) -> pos < x.
Proof.
  revert pos; induction txt as [|b r IH]; intros pos Hin; cbn in Hin; [contradiction|].
  destruct (N.eqb b LineIndex.NL).
  - destruct Hin as [<-|Hin]; [lia|]. apply IH in Hin; lia.
  - apply IH in Hin; lia.
Qed.

Lemma line_starts_from_sorted pos txt :
  StronglySorted lt (line_starts_from pos txt).
Proof.
  revert pos; induction txt as [|b r IH]; intros pos; cbn; [constructor|].
  destruct (N.eqb b LineIndex.NL); [|apply IH].
  constructor; [apply IH|].
  apply Forall_forall; intros x Hx; apply line_starts_from_gt in Hx; exact Hx.
Qed.

(* Precondition of std's partition_point: the table is strictly increasing,
   hence partitioned by (<= off) for every off. *)
Lemma line_starts_sorted txt : StronglySorted lt (line_starts txt).
Proof.
  unfold line_starts. constructor; [apply line_starts_from_sorted|].
  apply Forall_forall; intros x Hx; apply line_starts_from_gt in Hx; exact Hx.
Qed.

Lemma sorted_partitioned (l : list nat) off :
  StronglySorted lt l ->
  exists l1 l2, l = l1 ++ l2 /\ Forall (fun x => x <= off) l1 /\ Forall (fun x => off < x) l2
                /\ l1 = takeWhile (fun it => Nat.leb it off) l.
Proof.
  induction 1 as [|a l Hs IH Hall].
  - exists [], []; cbn; repeat split; constructor.
  - destruct IH as (l1 & l2 & -> & H1 & H2 & Htw). cbn.
    destruct (Nat.leb_spec a off) as [Hle|Hgt].
    + exists (a :: l1), l2; cbn; repeat split; auto. f_equal; exact Htw.
    + exists [], (a :: l1 ++ l2); cbn; repeat split; auto.
      constructor; [lia|]. rewrite Forall_forall in Hall |- *. intros x Hx.
      specialize (Hall x Hx); lia.
Qed.

Lemma takeWhile_count pos off txt :
  length (takeWhile (fun it => Nat.leb it off) (line_starts_from pos txt))
  = count_nl (firstn (off - pos) txt).
Proof.
  revert pos; induction txt as [|b r IH]; intros pos; cbn [line_starts_from].
  - destruct (off - pos); reflexivity.
  - rewrite NL_eq. destruct (N.eqb b LineSpec.NL) eqn:Hb.
    + cbn [takeWhile]. destruct (Nat.leb_spec (S pos) off) as [Hle|Hgt].
      * replace (off - pos) with (S (off - S pos)) by lia. cbn [firstn count_nl length].
        rewrite Hb, IH. reflexivity.
      * replace (off - pos) with 0 by lia. reflexivity.
    + rewrite IH. destruct (off - pos) as [|k] eqn:Hk.
      * replace (off - S pos) with 0 by lia. reflexivity.
      * replace (off - S pos) with k by lia. cbn [firstn count_nl]. rewrite Hb. reflexivity.
Qed.

Lemma last_cons {A} (x : A) l d : last (x :: l) d = last l x.
Proof. revert x d; induction l as [|y l IH]; intros x d; [reflexivity|]. 
  change (last (x :: y :: l) d) with (last (y :: l) d). rewrite !IH. reflexivity. Qed.

Lemma takeWhile_last pos cur off txt :
  last (takeWhile (fun it => Nat.leb it off) (line_starts_from pos txt)) cur
  = last_start pos cur (firstn (off - pos) txt).
Proof.
  revert pos cur; induction txt as [|b r IH]; intros pos cur; cbn [line_starts_from].
  - destruct (off - pos); reflexivity.
  - rewrite NL_eq. destruct (N.eqb b LineSpec.NL) eqn:Hb.
    + cbn [takeWhile]. destruct (Nat.leb_spec (S pos) off) as [Hle|Hgt].
      * replace (off - pos) with (S (off - S pos)) by lia. cbn [firstn last_start].
        rewrite Hb, last_cons, IH. reflexivity.
      * replace (off - pos) with 0 by lia. reflexivity.
    + rewrite IH. destruct (off - pos) as [|k] eqn:Hk.
      * replace (off - S pos) with 0 by lia. reflexivity.
      * replace (off - S pos) with k by lia. cbn [firstn last_start]. rewrite Hb. reflexivity.
Qed.

Lemma nth_error_takeWhile_last (p : nat -> bool) l c :
  nth_error (c :: l) (length (takeWhile p l)) = Some (last (takeWhile p l) c).
Proof.
  revert c; induction l as [|x r IH]; intros c; cbn [takeWhile]; [reflexivity|].
  destruct (p x); [|reflexivity].
  rewrite last_cons. cbn [length nth_error]. apply IH.
Qed.

Lemma last_start_le pos cur pre :
  cur <= pos -> last_start pos cur pre <= pos + length pre.
Proof.
  revert pos cur; induction pre as [|b r IH]; intros pos cur Hc; cbn; [lia|].
  destruct (N.eqb b LineSpec.NL); (etransitivity; [apply IH; lia|lia]).
Qed.

(* Main theorem: the implementation's algorithm (table + partition point)
   computes exactly (newlines before off, off - start of that line), and none
   of its three panic sites can fire. *)
Theorem line_col_correct txt off :
  position txt off = Ok (line_spec txt off, col_spec txt off).
Proof.
  unfold position, line_col, partition_point, line_starts, line_spec, col_spec, line_start_spec.
  cbn [takeWhile Nat.leb]. cbn [length].
  rewrite nth_error_takeWhile_last, takeWhile_last, takeWhile_count, Nat.sub_0_r.
  pose proof (last_start_le 0 0 (firstn off txt) (le_n 0)) as Hle.
  rewrite firstn_length in Hle.
  destruct (Nat.ltb_spec off (last_start 0 0 (firstn off txt))) as [Hlt|Hge]; [lia|reflexivity].
Qed.

Corollary line_col_no_crash txt off : is_ok (position txt off) = true.
Proof. rewrite line_col_correct; reflexivity. Qed.

Theorem header_one_based l c : header (l, c) = (l + 1, c + 1).
Proof. reflexivity. Qed.

Theorem rendered_position_correct txt off :
  rendered_position txt off = Ok (line_spec txt off + 1, col_spec txt off + 1).
Proof. unfold rendered_position. rewrite line_col_correct. reflexivity. Qed.

(* The functional spec agrees with its declarative reading. *)
Lemma last_start_spec_gen pos cur pre :
  cur <= pos ->
  let s := last_start pos cur pre in
  (s = cur /\ (forall k, k < length pre -> nth_error pre k <> Some LineSpec.NL)) \/
  (exists k, k < length pre /\ s = S (pos + k) /\ nth_error pre k = Some LineSpec.NL /\
             forall j, k < j -> j < length pre -> nth_error pre j <> Some LineSpec.NL).
Proof.
  revert pos cur; induction pre as [|b r IH]; intros pos cur Hc; cbn [last_start].
  - left; split; [reflexivity|]. cbn; intros; lia.
  - destruct (N.eqb_spec b LineSpec.NL) as [->|Hne].
    + destruct (IH (S pos) (S pos) (le_n _)) as [[Hs Hno]|(k & Hk & Hs & Hnth & Hno)].
      * right. exists 0. cbn [length nth_error]. repeat split; [lia|rewrite Hs; lia|].
        intros j Hj Hj2. destruct j as [|j]; [lia|]. cbn. apply Hno; lia.
      * right. exists (S k). cbn [length nth_error]. repeat split; [lia|rewrite Hs; lia|exact Hnth|].
        intros j Hj Hj2. destruct j as [|j]; [lia|]. cbn. apply Hno; lia.
    + destruct (IH (S pos) cur ltac:(lia)) as [[Hs Hno]|(k & Hk & Hs & Hnth & Hno)].
      * left. split; [exact Hs|]. intros k Hk. destruct k as [|k]; cbn.
        -- intros [= E]; contradiction.
        -- apply Hno. cbn in Hk; lia.
      * right. exists (S k). cbn [length nth_error]. repeat split; [lia|rewrite Hs; lia|exact Hnth|].
        intros j Hj Hj2. destruct j as [|j]; [lia|]. cbn. apply Hno; lia.
Qed.

Lemma nth_error_firstn {A} (l : list A) n k : k < n -> nth_error (firstn n l) k = nth_error l k.
Proof.
  revert n k; induction l as [|x l IH]; intros n k Hk.
  - destruct n; destruct k; reflexivity.
  - destruct n; [lia|]. destruct k; [reflexivity|]. cbn. apply IH; lia.
Qed.

Theorem line_start_spec_declarative txt off :
  off <= length txt -> IsLineStart txt off (line_start_spec txt off).
Proof.
  intros Hoff. unfold IsLineStart, line_start_spec.
  assert (Hlen : length (firstn off txt) = off) by (rewrite firstn_length; lia).
  destruct (last_start_spec_gen 0 0 (firstn off txt) (le_n 0)) as [[Hs Hno]|(k & Hk & Hs & Hnth & Hno)].
  - rewrite Hs. split; [lia|]. split; [left; reflexivity|].
    intros k _ Hk. rewrite <- (nth_error_firstn txt off k Hk). apply Hno; lia.
  - rewrite Hs. rewrite Hlen in *. split; [lia|]. split.
    + right. exists k. split; [reflexivity|]. rewrite <- (nth_error_firstn txt off k Hk). exact Hnth.
    + intros j Hj Hj2. rewrite <- (nth_error_firstn txt off j Hj2). apply Hno; lia.
Qed.
