(* C27 — what a collision of two mangled names looks like, for ARBITRARY part
   lists with non-empty texts (Safe or not): same kinds, and position by
   position the texts are equal or related by the digit escape
   ("<digit>.." against "<lower-case kind letter><digit>..").  Hence at the
   string level the digit escape is the ONLY collision mechanism; every other
   collision of the unchanged code is created earlier, by get_components. *)
From Capy Require Import Common.Util Model.Mangle Spec.MangleSpec Proofs.MangleProofs.
From Coq Require Import Decimal DecimalN.

(* the text as written after the length *)
Definition body (p : part) : str :=
  match snd p with
  | c :: _ => if is_digit c then to_ascii_lowercase (code (fst p)) :: snd p else snd p
  | [] => []
  end.

Definition nonempty (p : part) : Prop := snd p <> [].

Lemma add_part_body : forall p, add_part p = dec (N.of_nat (length (body p))) ++ body p.
Proof.
  intros [k t]. unfold add_part, body. cbn [fst snd].
  destruct t as [|c t']; [reflexivity|].
  destruct (is_digit c); [|reflexivity].
  cbn [length Datatypes.app]. rewrite !Nat2N.inj_succ, N.add_1_r. reflexivity.
Qed.

Lemma body_nondigit : forall p, nonempty p -> exists c r, body p = c :: r /\ is_digit c = false.
Proof.
  intros [k t] H. unfold nonempty in H. cbn [snd] in H. unfold body. cbn [fst snd].
  destruct t as [|c t']; [congruence|].
  destruct (is_digit c) eqn:E.
  - eexists; eexists; split; [reflexivity | apply lower_code_nondigit].
  - eexists; eexists; split; [reflexivity | exact E].
Qed.

Lemma app_eq_len : forall (A : Type) (a b x y : list A),
  length a = length b -> a ++ x = b ++ y -> a = b /\ x = y.
Proof.
  induction a as [|u a IH]; destruct b as [|w b]; cbn [length Datatypes.app]; intros x y Hl H;
    try discriminate; auto.
  inversion H. subst. destruct (IH b x y) as [-> ->]; auto.
Qed.

Lemma enc_inj : forall p q r1 r2, nonempty p -> nonempty q ->
  add_part p ++ r1 = add_part q ++ r2 -> body p = body q /\ r1 = r2.
Proof.
  intros p q r1 r2 Hp Hq H. rewrite !add_part_body, <- !List.app_assoc in H.
  destruct (body_nondigit p Hp) as (c1 & t1 & B1 & D1).
  destruct (body_nondigit q Hq) as (c2 & t2 & B2 & D2).
  assert (R := f_equal read_uint H). unfold dec in R.
  rewrite !read_uint_chars in R by (rewrite ?B1, ?B2; cbn; assumption).
  inversion R as [[Hu Hr]].
  apply DecimalN.Unsigned.to_uint_inj in Hu. apply Nat2N.inj in Hu.
  apply app_eq_len; assumption.
Qed.

Lemma concat_inj : forall ps qs r1 r2, Forall nonempty ps -> Forall nonempty qs ->
  length ps = length qs ->
  concat (map add_part ps) ++ r1 = concat (map add_part qs) ++ r2 ->
  map body ps = map body qs /\ r1 = r2.
Proof.
  induction ps as [|p ps IH]; destruct qs as [|q qs]; cbn [length map concat Datatypes.app];
    intros r1 r2 Hp Hq Hl H; try discriminate; auto.
  inversion Hp; inversion Hq; subst.
  rewrite <- !List.app_assoc in H. apply enc_inj in H; auto. destruct H as [Hb H].
  destruct (IH qs r1 r2) as [Hm Hr]; auto. rewrite Hb, Hm. auto.
Qed.

Lemma rest_head : forall ps,
  match concat (map add_part ps) ++ [c_E] with [] => True | c :: _ => kind_of_code c = None end.
Proof.
  destruct ps as [|p ps]; [reflexivity|]. cbn [map concat].
  destruct (add_part_hd p) as (c & r & E & D). rewrite E. cbn [Datatypes.app].
  apply digit_not_kind. exact D.
Qed.

Theorem mangle_parts_collision : forall ps qs, Forall nonempty ps -> Forall nonempty qs ->
  mangle_parts ps = mangle_parts qs -> map fst ps = map fst qs /\ map body ps = map body qs.
Proof.
  intros ps qs Hp Hq H. unfold mangle_parts in H.
  assert (R := f_equal read_toc H).
  rewrite !read_toc_codes in R by apply rest_head.
  injection R as Hk Hr. split; [exact Hk|].
  apply (concat_inj ps qs [c_E] [c_E] Hp Hq); [|exact Hr].
  apply (f_equal (@length kind)) in Hk. rewrite !map_length in Hk. exact Hk.
Qed.

Lemma body_rel : forall k a b, body (k, a) = body (k, b) ->
  a = b \/ esc_rel k a b = true \/ esc_rel k b a = true.
Proof.
  intros k a b. unfold body, esc_rel. cbn [fst snd].
  destruct a as [|c a']; destruct b as [|d b'].
  - auto.
  - destruct (is_digit d); discriminate.
  - destruct (is_digit c); discriminate.
  - destruct (is_digit c) eqn:Ec; destruct (is_digit d) eqn:Ed; intros H.
    + inversion H. auto.
    + right. left. rewrite <- H. cbn [andb]. apply str_eqb_refl.
    + right. right. rewrite H. cbn [andb]. apply str_eqb_refl.
    + auto.
Qed.

Definition part_rel (p q : part) : Prop :=
  fst p = fst q /\ (snd p = snd q \/ esc_rel (fst p) (snd p) (snd q) = true
                                  \/ esc_rel (fst p) (snd q) (snd p) = true).

Theorem collision_only_by_escape : forall ps qs, Forall nonempty ps -> Forall nonempty qs ->
  mangle_parts ps = mangle_parts qs -> Forall2 part_rel ps qs.
Proof.
  intros ps qs Hp Hq H. destruct (mangle_parts_collision ps qs Hp Hq H) as [Hk Hb].
  clear H Hp Hq. revert qs Hk Hb.
  induction ps as [|[k a] ps IH]; destruct qs as [|[k' b] qs]; cbn [map fst]; intros Hk Hb;
    try discriminate; constructor.
  - injection Hk as Ek _. subst k'. cbn [map] in Hb. injection Hb as Eb _.
    split; [reflexivity|]. cbn [fst snd]. apply body_rel. exact Eb.
  - injection Hk as _ Ek. cbn [map] in Hb. injection Hb as _ Eb. apply IH; assumption.
Qed.

(* at descriptor level: two descriptors with the same symbol have, position by
   position, equal or escape-related parts (module name, file parts, name /
   lambda index, generic id, comptime index, data name) *)
Corollary collision_parts : forall e d1 d2 p1 p2 s,
  parts_of e d1 = Ok p1 -> parts_of e d2 = Ok p2 ->
  Forall nonempty p1 -> Forall nonempty p2 ->
  mangle e d1 = Ok s -> mangle e d2 = Ok s -> Forall2 part_rel p1 p2.
Proof.
  intros e d1 d2 p1 p2 s P1 P2 N1 N2 M1 M2. unfold mangle in M1, M2. rewrite P1 in M1. rewrite P2 in M2.
  cbn [bind] in M1, M2. apply collision_only_by_escape; auto. congruence.
Qed.
