(* C20 (scheduler part): the result of the `finish` loop does not depend on the order in
   which the globals were seeded, for acyclic dependency graphs, under explicit hypotheses
   on the abstract inference step.  Proof: the loop maintains the C26 representation
   invariant (so every round processes pending items only and the protocol of C26 holds by
   construction) plus a well-formedness invariant on the list of finished results. *)
From Capy Require Import Common.Util Model.Topo Spec.Sched Model.SchedLoop
  Proofs.TopoMap Proofs.TopoProofs Proofs.TopoRefine.
From Coq Require Import Permutation.

Section Confluence.
  Variable R : Type.
  Variable infer : item -> list (item * R) -> step R.
  Variable cyc_order : list item -> list item.
  (* the real dependencies of an item, and a witness that they are acyclic *)
  Variable deps : item -> list item.
  Variable rank : item -> nat.
  Hypothesis H_rank : forall x d, In d (deps x) -> rank d < rank x.
  (* the step is a function of the results of the item's dependencies *)
  Hypothesis H_det : forall x f1 f2,
    (forall d, In d (deps x) -> lookup R d f1 = lookup R d f2) -> infer x f1 = infer x f2.
  (* it completes only when all its dependencies are finished *)
  Hypothesis H_done : forall x f r, infer x f = Done r ->
    forall d, In d (deps x) -> lookup R d f <> None.
  (* what it asks for are unfinished real dependencies *)
  Hypothesis H_needs : forall x f ds, infer x f = Needs ds ->
    forall d, In d ds -> In d (deps x) /\ lookup R d f = None.
  (* the client's sort of the cyclic list is a permutation *)
  Hypothesis H_cyc : forall l, Permutation (cyc_order l) l.

  Notation lookup := (lookup R).

  Lemma stuck_round_diverges_sec : forall t f l, round_items cyc_order t = Ok l ->
    process_all R infer (t, f) l = Ok (t, f) -> is_empty t = false ->
    forall n, finish_loop R infer cyc_order n (t, f) = OutOfFuel.
  Proof.
    intros t f l Hl Hp Hem. induction n as [|n IH]; [reflexivity|].
    cbn [finish_loop fst]. rewrite Hl. cbn [bind]. rewrite Hp. cbn [bind fst snd]. rewrite Hem. exact IH.
  Qed.
  Notation fins := (fins R).

  Lemma lookup_none (x : item) (f : fins) : lookup x f = None <-> ~ In x (map fst f).
  Proof.
    induction f as [|e r IH]; cbn [SchedLoop.lookup map In]; [tauto|].
    destruct (N.eqb_spec (fst e) x) as [E|E].
    - split; [discriminate|tauto].
    - rewrite IH. tauto.
  Qed.

  Lemma lookup_cons_stable (y : item) ry (f : fins) d v :
    lookup y f = None -> lookup d f = Some v -> lookup d ((y, ry) :: f) = Some v.
  Proof.
    intros Hn Hd. cbn [SchedLoop.lookup fst snd].
    destruct (N.eqb_spec y d) as [E|E]; [subst; congruence|exact Hd].
  Qed.

  Inductive WF : fins -> Prop :=
  | WF_nil : WF []
  | WF_cons x r f : WF f -> lookup x f = None -> infer x f = Done r -> WF ((x, r) :: f).

  Lemma wf_origin : forall f, WF f -> forall x r, lookup x f = Some r ->
    exists pre, WF pre /\ infer x pre = Done r /\
      (forall d v, lookup d pre = Some v -> lookup d f = Some v).
  Proof.
    induction 1 as [|y ry f Hwf IH Hn Hi]; intros x r Hl; [discriminate|].
    cbn [SchedLoop.lookup fst snd] in Hl. destruct (N.eqb_spec y x) as [E|E].
    - inversion Hl; subst. exists f. split; [exact Hwf|]. split; [exact Hi|].
      intros d v Hd. apply lookup_cons_stable; assumption.
    - destruct (IH _ _ Hl) as [pre [H1 [H2 H3]]]. exists pre. split; [exact H1|]. split; [exact H2|].
      intros d v Hd. apply lookup_cons_stable; [exact Hn|apply H3; exact Hd].
  Qed.

  (* two well-formed result lists agree wherever both are defined *)
  Lemma wf_agree : forall n x, rank x < n -> forall f1 f2 r1 r2,
    WF f1 -> WF f2 -> lookup x f1 = Some r1 -> lookup x f2 = Some r2 -> r1 = r2.
  Proof.
    induction n as [|n IH]; intros x Hr f1 f2 r1 r2 W1 W2 L1 L2; [lia|].
    destruct (wf_origin _ W1 _ _ L1) as [p1 [Wp1 [I1 S1]]].
    destruct (wf_origin _ W2 _ _ L2) as [p2 [Wp2 [I2 S2]]].
    assert (E : infer x p1 = infer x p2).
    { apply H_det. intros d Hd.
      pose proof (H_done _ _ _ I1 _ Hd) as N1. pose proof (H_done _ _ _ I2 _ Hd) as N2.
      destruct (lookup d p1) as [v1|] eqn:E1; [|congruence].
      destruct (lookup d p2) as [v2|] eqn:E2; [|congruence].
      f_equal. assert (Hrk : rank d < n) by (pose proof (H_rank _ _ Hd); lia).
      exact (IH d Hrk f1 f2 v1 v2 W1 W2 (S1 _ _ E1) (S2 _ _ E2)). }
    rewrite I1, I2 in E. inversion E. reflexivity.
  Qed.

  (* ---------- the loop invariant --------------------------------------------------------- *)
  Inductive Reach (seed : list item) : item -> Prop :=
  | Reach_seed x : In x seed -> Reach seed x
  | Reach_dep x d : Reach seed x -> In d (deps x) -> Reach seed d.

  Definition LI (seed : list item) (t : topo) (f : fins) (s : sched) : Prop :=
    Rep t s /\ map fst f = done s /\ WF f /\
    (forall x, In x (pending s) \/ In x (done s) -> Reach seed x) /\
    (forall x, In x seed -> In x (pending s) \/ In x (done s)).

  Lemma in_pending_register : forall ds s p y,
    In y (pending s) -> In y (pending (a_register s p ds)).
  Proof.
    induction ds as [|c r IH]; intros s p y H; cbn [a_register fold_left]; [exact H|].
    fold (a_register (a_reg1 s p c) p r). apply IH. cbn [a_reg1 pending].
    rewrite !in_add_pending. tauto.
  Qed.

  (* the abstract state after x's turn *)
  Definition next_s (s : sched) (x : item) (f : fins) : sched :=
    match infer x f with
    | Done _ => a_complete s x
    | Needs ds => a_register s x ds
    end.

  Lemma process_LI seed t f s x :
    LI seed t f s -> In x (pending s) ->
    exists t' f', process R infer (t, f) x = Ok (t', f') /\ LI seed t' f' (next_s s x f) /\
      (forall y, In y (pending s) -> y <> x -> In y (pending (next_s s x f))).
  Proof.
    intros [Rp [Hd [Hwf [Hre Hse]]]] Hx. unfold process, next_s. cbn [fst snd].
    assert (Hl : lookup x f = None).
    { apply lookup_none. rewrite Hd. exact (R_disj _ _ Rp _ Hx). }
    rewrite Hl. destruct (infer x f) as [r|ds] eqn:Hi.
    - destruct (rep_remove _ _ _ Rp Hx) as [t' [Hr R']]. rewrite Hr. cbn [bind fst].
      exists t', ((x, r) :: f). split; [reflexivity|]. split.
      + split; [exact R'|]. split; [cbn [map fst a_complete done]; rewrite Hd; reflexivity|].
        split; [constructor; assumption|]. split.
        * intros y Hy. apply Hre. cbn [a_complete pending done In] in Hy.
          destruct Hy as [Hy|[Hy|Hy]]; [apply filter_In in Hy; tauto|subst; tauto|tauto].
        * intros y Hy. cbn [a_complete pending done In].
          destruct (Hse _ Hy) as [H|H]; [|tauto].
          destruct (N.eqb_spec y x) as [E|E]; [subst; tauto|].
          left. apply filter_In. split; [exact H|]. apply negb_true_iff, N.eqb_neq. exact E.
      + intros y Hy Hne. cbn [a_complete pending]. apply filter_In. split; [exact Hy|].
        apply negb_true_iff, N.eqb_neq. exact Hne.
    - exists (insert_deps t x ds), f. split; [reflexivity|]. split.
      + split.
        * apply rep_insert_deps; [exact Rp|exact Hx|].
          intros c Hc. destruct (H_needs _ _ _ Hi _ Hc) as [_ Hn].
          apply lookup_none in Hn. rewrite Hd in Hn. exact Hn.
        * rewrite done_register. split; [exact Hd|]. split; [exact Hwf|]. split.
          -- intros y [Hy|Hy]; [|apply Hre; tauto].
             apply pending_register in Hy. destruct Hy as [Hy|[Hy|Hy]].
             ++ apply Hre; tauto.
             ++ apply (Reach_dep _ x); [apply Hre; tauto|].
                destruct (H_needs _ _ _ Hi _ Hy) as [Hdep _]. exact Hdep.
             ++ subst. apply Hre; tauto.
          -- intros y Hy. destruct (Hse _ Hy) as [H|H]; [left; apply in_pending_register; exact H|tauto].
      + intros y Hy _. apply in_pending_register. exact Hy.
  Qed.

  Lemma process_all_LI seed : forall l t f s,
    LI seed t f s -> NoDup l -> (forall x, In x l -> In x (pending s)) ->
    exists t' f' s', process_all R infer (t, f) l = Ok (t', f') /\ LI seed t' f' s'.
  Proof.
    induction l as [|x l IH]; intros t f s Hli ND Hin; cbn [process_all].
    - exists t, f, s. split; [reflexivity|exact Hli].
    - inversion ND as [|? ? Hnx ND']; subst.
      destruct (process_LI seed t f s x Hli (Hin _ (or_introl eq_refl))) as [t1 [f1 [E [L1 Hp]]]].
      rewrite E. cbn [bind]. apply (IH t1 f1 (next_s s x f) L1 ND').
      intros y Hy. apply Hp; [apply Hin; right; exact Hy|]. intros Eq. subst. tauto.
  Qed.

  Lemma round_items_ok t s l : Rep t s -> round_items cyc_order t = Ok l ->
    NoDup l /\ forall x, In x l -> In x (pending s).
  Proof.
    intros Rp H. unfold round_items in H.
    rewrite (peek_all_exact _ _ Rp), (peek_all_cyclic_exact _ _ Rp) in H.
    destruct (negb (is_nil (pending s)) && is_nil (ready s)).
    - destruct (is_nil (pending s)); [discriminate|]. inversion H; subst. split.
      + eapply Permutation_NoDup; [apply Permutation_sym; apply H_cyc|exact (R_nodup _ _ Rp)].
      + intros x Hx. eapply Permutation_in; [apply H_cyc|exact Hx].
    - destruct (is_nil (ready s)); [discriminate|]. inversion H; subst. split.
      + apply NoDup_filter. exact (R_nodup _ _ Rp).
      + intros x Hx. apply filter_In in Hx. tauto.
  Qed.

  Definition Final (seed : list item) (f : fins) : Prop :=
    WF f /\ forall x, In x (map fst f) <-> Reach seed x.

  Lemma wf_deps_closed : forall f, WF f -> forall x d, In x (map fst f) -> In d (deps x) ->
    In d (map fst f).
  Proof.
    induction 1 as [|y ry f Hwf IH Hn Hi]; intros x d Hx Hd; [destruct Hx|].
    cbn [map fst In] in *. destruct Hx as [Hx|Hx].
    - subst y. right. pose proof (H_done _ _ _ Hi _ Hd) as Hne.
      destruct (in_dec N.eq_dec d (map fst f)) as [Hin|Hnin]; [exact Hin|].
      apply lookup_none in Hnin. congruence.
    - right. eapply IH; eauto.
  Qed.

  Lemma finish_loop_final seed : forall n t f s fo,
    LI seed t f s -> finish_loop R infer cyc_order n (t, f) = Ok fo -> Final seed fo.
  Proof.
    induction n as [|n IH]; intros t f s fo Hli H; [discriminate|].
    cbn [finish_loop fst] in H.
    destruct (round_items cyc_order t) as [l| |] eqn:El; cbn [bind] in H; try discriminate.
    destruct Hli as [Rp Hrest].
    destruct (round_items_ok _ _ _ Rp El) as [ND Hin].
    destruct (process_all_LI seed l t f s (conj Rp Hrest) ND Hin) as [t1 [f1 [s1 [E L1]]]].
    rewrite E in H. cbn [bind fst snd] in H.
    destruct (is_empty t1) eqn:Em; [|eapply IH; eauto].
    inversion H; subst fo. destruct L1 as [R1 [Hd [Hwf [Hre Hse]]]].
    assert (Pe : pending s1 = []).
    { rewrite is_empty_keys, (R_keys _ _ R1) in Em. destruct (pending s1); [reflexivity|discriminate]. }
    split; [exact Hwf|]. intros x. split.
    - intros Hx. apply Hre. right. rewrite <- Hd. exact Hx.
    - induction 1 as [x Hx|x d Hx IHx Hdx].
      + rewrite Hd. destruct (Hse _ Hx) as [H1|H1]; [rewrite Pe in H1; destruct H1|exact H1].
      + eapply wf_deps_closed; eauto.
  Qed.

  Lemma in_pending_seed seed x : In x seed -> In x (pending (a_seed seed)).
  Proof.
    intros Hx. cbn [a_seed pending].
    assert (G : forall xs acc, In x acc \/ In x xs -> In x (fold_left add_pending xs acc)).
    { induction xs as [|a r IHr]; intros acc [H1|H1]; cbn [fold_left]; try exact H1; try destruct H1.
      - apply IHr. left. apply in_add_pending. tauto.
      - apply IHr. left. apply in_add_pending. right. symmetry. exact H.
      - apply IHr. right. exact H. }
    apply G. right. exact Hx.
  Qed.

  Lemma finish_final seed n fo : finish R infer cyc_order seed n = Ok fo -> Final seed fo.
  Proof.
    unfold finish. destruct (is_empty (extend empty seed)) eqn:Em.
    - intros H. inversion H; subst. split; [constructor|]. intros x. split; [intros []|].
      pose proof (rep_seed seed) as Rp.
      rewrite is_empty_keys, (R_keys _ _ Rp) in Em.
      induction 1 as [x Hx|x d Hx IHx Hd]; [|destruct IHx].
      assert (H0 : In x (pending (a_seed seed))) by (apply in_pending_seed; exact Hx).
      destruct (pending (a_seed seed)); [destruct H0|discriminate].
    - intros H. eapply finish_loop_final; [|exact H].
      split; [apply rep_seed|]. split; [reflexivity|]. split; [constructor|]. split.
      + intros x [Hx|[]]. apply Reach_seed. apply pending_seed. exact Hx.
      + intros x Hx. left. apply in_pending_seed. exact Hx.
  Qed.

  Lemma reach_perm seed1 seed2 x : Permutation seed1 seed2 -> Reach seed1 x -> Reach seed2 x.
  Proof.
    intros P. induction 1 as [x Hx|x d Hx IH Hd].
    - apply Reach_seed. eapply Permutation_in; eauto.
    - eapply Reach_dep; eauto.
  Qed.

  (* The results of type-checking are independent of the order of the seed. *)
  Theorem schedule_confluent : forall seed1 seed2 n1 n2 f1 f2,
    Permutation seed1 seed2 ->
    finish R infer cyc_order seed1 n1 = Ok f1 ->
    finish R infer cyc_order seed2 n2 = Ok f2 ->
    forall x, lookup x f1 = lookup x f2.
  Proof.
    intros seed1 seed2 n1 n2 f1 f2 P F1 F2 x.
    destruct (finish_final _ _ _ F1) as [W1 D1]. destruct (finish_final _ _ _ F2) as [W2 D2].
    destruct (lookup x f1) as [r1|] eqn:L1; destruct (lookup x f2) as [r2|] eqn:L2.
    - f_equal. exact (wf_agree (S (rank x)) x (Nat.lt_succ_diag_r _) f1 f2 r1 r2 W1 W2 L1 L2).
    - exfalso. apply lookup_none in L2. apply L2. apply D2. apply (reach_perm seed1); [exact P|].
      apply D1. destruct (in_dec N.eq_dec x (map fst f1)) as [H|H]; [exact H|].
      apply lookup_none in H. congruence.
    - exfalso. apply lookup_none in L1. apply L1. apply D1.
      apply (reach_perm seed2); [apply Permutation_sym; exact P|].
      apply D2. destruct (in_dec N.eq_dec x (map fst f2)) as [H|H]; [exact H|].
      apply lookup_none in H. congruence.
    - reflexivity.
  Qed.

  (* what is finished at the end is exactly what is reachable from the seed, and the run
     never reaches a panic site of TopoSort or of the loop *)
  Theorem finish_domain : forall seed n f, finish R infer cyc_order seed n = Ok f ->
    forall x, lookup x f <> None <-> Reach seed x.
  Proof.
    intros seed n f F x. destruct (finish_final _ _ _ F) as [_ D]. rewrite <- D.
    split.
    - intros H. destruct (in_dec N.eq_dec x (map fst f)) as [Hi|Hi]; [exact Hi|].
      apply lookup_none in Hi. congruence.
    - intros H Hn. apply lookup_none in Hn. tauto.
  Qed.

  Lemma round_items_total t s : Rep t s -> pending s <> [] ->
    exists l, round_items cyc_order t = Ok l.
  Proof.
    intros Rp Hne. unfold round_items.
    rewrite (peek_all_exact _ _ Rp), (peek_all_cyclic_exact _ _ Rp).
    destruct (pending s) as [|a p]; [congruence|]. cbn [is_nil negb andb].
    destruct (ready s) as [|b r]; cbn [is_nil]; eauto.
  Qed.

  (* the loop never reaches a panic site: TopoSort underflow, unwrap, assert *)
  Theorem finish_no_crash : forall seed n site, finish R infer cyc_order seed n <> Crash site.
  Proof.
    intros seed n site. unfold finish. destruct (is_empty (extend empty seed)) eqn:Em0; [discriminate|].
    assert (G : forall m t f s, LI seed t f s -> is_empty t = false ->
                finish_loop R infer cyc_order m (t, f) <> Crash site).
    { induction m as [|m IH]; intros t f s Hli Em; cbn [finish_loop fst]; [discriminate|].
      destruct Hli as [Rp Hrest].
      assert (Hne : pending s <> []).
      { rewrite is_empty_keys, (R_keys _ _ Rp) in Em. destruct (pending s); [discriminate|discriminate]. }
      destruct (round_items_total _ _ Rp Hne) as [l El]. rewrite El. cbn [bind].
      destruct (round_items_ok _ _ _ Rp El) as [ND Hin].
      destruct (process_all_LI seed l t f s (conj Rp Hrest) ND Hin) as [t1 [f1 [s1 [E L1]]]].
      rewrite E. cbn [bind fst snd]. destruct (is_empty t1) eqn:Em1; [discriminate|].
      eapply IH; eauto. }
    eapply G; [|exact Em0].
    split; [apply rep_seed|]. split; [reflexivity|]. split; [constructor|]. split.
    - intros x [Hx|[]]. apply Reach_seed. apply pending_seed. exact Hx.
    - intros x Hx. left. apply in_pending_seed. exact Hx.
  Qed.

  (* more fuel never changes a result *)
  Theorem finish_fuel_mono : forall seed n m f,
    finish R infer cyc_order seed n = Ok f -> n <= m -> finish R infer cyc_order seed m = Ok f.
  Proof.
    intros seed n m f. unfold finish. destruct (is_empty (extend empty seed)); [auto|].
    generalize (extend empty seed, @nil (item * R)). revert m.
    induction n as [|n IH]; intros m st H Hle; [discriminate|].
    destruct m as [|m]; [lia|]. cbn [finish_loop] in *. revert H.
    match goal with |- context [round_items ?c ?t] => destruct (round_items c t) as [l| |] end;
      cbn [bind]; try discriminate.
    match goal with |- context [process_all ?a ?b ?c ?d] => destruct (process_all a b c d) as [st'| |] end;
      cbn [bind]; try discriminate.
    match goal with |- context [is_empty ?t] => destruct (is_empty t) end; [auto|].
    intros H. apply IH; [exact H|lia].
  Qed.

  (* ---------- termination with an explicit bound ---------------------------------------------- *)
  (* a step that cannot finish asks for at least one dependency *)
  Hypothesis H_nonempty : forall x f, infer x f <> Needs [].

  Definition msize (s : sched) : nat := length (done s) + length (waits s).
  (* every registered edge is a real dependency *)
  Definition Wdeps (s : sched) : Prop := forall p c, In (p, c) (waits s) -> In c (deps p).

  Lemma add_wait_len l w : length l <= length (add_wait l w) /\
    (~ In w l -> length l < length (add_wait l w)) /\
    (forall w', In w' (add_wait l w) <-> In w' l \/ w' = w).
  Proof.
    unfold add_wait. destruct (memp w l) eqn:E.
    - apply memp_In in E. split; [lia|]. split; [tauto|].
      intros w'. split; [tauto|]. intros [H|H]; [exact H|subst; exact E].
    - rewrite app_length. cbn [length]. split; [lia|]. split; [lia|].
      intros w'. rewrite in_app_iff. cbn [In]. intuition.
  Qed.

  Lemma register_waits : forall ds s x,
    length (waits s) <= length (waits (a_register s x ds)) /\
    (forall d r, ds = d :: r -> ~ In (x, d) (waits s) ->
       length (waits s) < length (waits (a_register s x ds))) /\
    (forall p c, In (p, c) (waits (a_register s x ds)) -> In (p, c) (waits s) \/ (p = x /\ In c ds)).
  Proof.
    induction ds as [|c r IH]; intros s x; cbn [a_register fold_left].
    - split; [lia|]. split; [intros d r H; discriminate|tauto].
    - fold (a_register (a_reg1 s x c) x r).
      destruct (IH (a_reg1 s x c) x) as [H1 [_ H3]].
      destruct (add_wait_len (waits s) (x, c)) as [A1 [A2 A3]].
      cbn [a_reg1 waits] in *. split; [lia|]. split.
      + intros d r' E Hn. inversion E; subst. specialize (A2 Hn). lia.
      + intros p c' H. apply H3 in H. destruct H as [H|[H H']]; [|right; split; [exact H|right; exact H']].
        apply A3 in H. destruct H as [H|H]; [tauto|]. inversion H; subst. right. split; [reflexivity|left; reflexivity].
  Qed.

  Lemma ready_not_waiting s x d : readyb s x = true -> In (x, d) (waits s) -> In d (done s).
  Proof.
    intros H Hw. unfold readyb in H. rewrite forallb_forall in H. specialize (H _ Hw).
    cbn [fst snd] in H. rewrite N.eqb_refl in H. cbn [implb] in H. apply memb_In. exact H.
  Qed.

  Lemma next_s_facts seed t f s x :
    LI seed t f s -> Wdeps s ->
    Wdeps (next_s s x f) /\ msize s <= msize (next_s s x f) /\
    (readyb s x = true -> msize s < msize (next_s s x f)).
  Proof.
    intros [Rp [Hd _]] Hw. unfold next_s, msize. destruct (infer x f) as [r|ds] eqn:Hi.
    - cbn [a_complete done waits length]. split; [exact Hw|]. split; lia.
    - rewrite done_register. destruct (register_waits ds s x) as [H1 [H2 H3]]. split.
      + intros p c H. apply H3 in H. destruct H as [H|[H H']]; [auto|].
        subst p. destruct (H_needs _ _ _ Hi _ H') as [Hdep _]. exact Hdep.
      + split; [lia|]. intros Hr. destruct ds as [|d r]; [exfalso; exact (H_nonempty _ _ Hi)|].
        assert (Hn : ~ In (x, d) (waits s)).
        { intros Hin. apply (ready_not_waiting _ _ _ Hr) in Hin.
          destruct (H_needs _ _ _ Hi d (or_introl eq_refl)) as [_ Hl].
          apply lookup_none in Hl. rewrite Hd in Hl. tauto. }
        specialize (H2 d r eq_refl Hn). lia.
  Qed.

  Lemma process_all_LI2 seed : forall l t f s,
    LI seed t f s -> Wdeps s -> NoDup l -> (forall x, In x l -> In x (pending s)) ->
    exists t' f' s', process_all R infer (t, f) l = Ok (t', f') /\ LI seed t' f' s' /\ Wdeps s' /\
      msize s <= msize s' /\
      (forall x r, l = x :: r -> readyb s x = true -> msize s < msize s').
  Proof.
    induction l as [|x l IH]; intros t f s Hli Hw ND Hin; cbn [process_all].
    - exists t, f, s. split; [reflexivity|]. split; [exact Hli|]. split; [exact Hw|]. split; [lia|].
      intros x r E; discriminate.
    - inversion ND as [|? ? Hnx ND']; subst.
      destruct (process_LI seed t f s x Hli (Hin _ (or_introl eq_refl))) as [t1 [f1 [E [L1 Hp]]]].
      destruct (next_s_facts seed t f s x Hli Hw) as [W1 [M1 M2]].
      rewrite E. cbn [bind].
      destruct (IH t1 f1 (next_s s x f) L1 W1 ND') as [t2 [f2 [s2 [E2 [L2 [W2 [M3 _]]]]]]].
      { intros y Hy. apply Hp; [apply Hin; right; exact Hy|]. intros Eq. subst. tauto. }
      exists t2, f2, s2. split; [exact E2|]. split; [exact L2|]. split; [exact W2|]. split; [lia|].
      intros x' r E' Hr. inversion E'; subst. specialize (M2 Hr). lia.
  Qed.

  Lemma wf_nodup : forall f, WF f -> NoDup (map fst f).
  Proof.
    induction 1 as [|x r f Hwf IH Hn Hi]; cbn [map fst]; constructor; [|exact IH].
    apply lookup_none. exact Hn.
  Qed.

  Definition bound (U : list item) : nat := length U + length U * length U.

  Lemma msize_bound seed U t f s :
    LI seed t f s -> (forall x, Reach seed x -> In x U) -> msize s <= bound U.
  Proof.
    intros [Rp [Hd [Hwf [Hre _]]]] HU. unfold msize, bound.
    assert (H1 : length (done s) <= length U).
    { apply NoDup_incl_length; [rewrite <- Hd; apply wf_nodup; exact Hwf|].
      intros x Hx. apply HU, Hre. right. exact Hx. }
    assert (H2 : length (waits s) <= length (list_prod U U)).
    { apply NoDup_incl_length; [exact (R_wnodup _ _ Rp)|].
      intros [p c] Hw. destruct (R_wdom _ _ Rp _ _ Hw) as [Hp Hc].
      apply in_prod; apply HU, Hre; assumption. }
    rewrite prod_length in H2. lia.
  Qed.

  Lemma min_rank : forall l : list item, l <> [] ->
    exists x, In x l /\ forall y, In y l -> rank x <= rank y.
  Proof.
    induction l as [|a l IH]; intros H; [congruence|].
    destruct l as [|b l'].
    - exists a. split; [left; reflexivity|]. intros y [Hy|[]]. subst. lia.
    - destruct IH as [x [Hx Hmin]]; [discriminate|].
      destruct (le_lt_dec (rank a) (rank x)) as [Hle|Hlt].
      + exists a. split; [left; reflexivity|]. intros y [Hy|Hy]; [subst; lia|].
        specialize (Hmin _ Hy). lia.
      + exists x. split; [right; exact Hx|]. intros y [Hy|Hy]; [subst; lia|auto].
  Qed.

  (* with acyclic real dependencies a cycle-breaking round never happens *)
  Lemma ready_exists t s : Rep t s -> Wdeps s -> pending s <> [] -> ready s <> [].
  Proof.
    intros Rp Hw Hne. destruct (min_rank _ Hne) as [x [Hx Hmin]].
    assert (Hr : readyb s x = true).
    { unfold readyb. apply forallb_forall. intros [p c] Hin. cbn [fst snd].
      destruct (N.eqb_spec p x) as [E|E]; [|reflexivity]. subst p. cbn [implb].
      apply memb_In. pose proof (H_rank _ _ (Hw _ _ Hin)) as Hlt.
      destruct (R_wdom _ _ Rp _ _ Hin) as [_ [Hc|Hc]]; [|exact Hc].
      specialize (Hmin _ Hc). lia. }
    intros E. assert (Hin : In x (ready s)) by (apply filter_In; split; assumption).
    rewrite E in Hin. destruct Hin.
  Qed.

  Lemma round_items_ready t s : Rep t s -> ready s <> [] -> round_items cyc_order t = Ok (ready s).
  Proof.
    intros Rp Hne. unfold round_items. rewrite (peek_all_exact _ _ Rp).
    destruct (ready s) as [|a l]; [congruence|]. cbn [is_nil]. rewrite andb_false_r. reflexivity.
  Qed.

  Lemma finish_loop_terminates seed U :
    (forall x, Reach seed x -> In x U) ->
    forall n t f s, LI seed t f s -> Wdeps s -> is_empty t = false ->
      bound U - msize s < n ->
      exists fo, finish_loop R infer cyc_order n (t, f) = Ok fo.
  Proof.
    intros HU. induction n as [|n IH]; intros t f s Hli Hw Hem Hlt; [lia|].
    cbn [finish_loop fst]. destruct Hli as [Rp Hrest].
    assert (Hne : pending s <> []).
    { rewrite is_empty_keys, (R_keys _ _ Rp) in Hem. destruct (pending s); discriminate. }
    pose proof (ready_exists _ _ Rp Hw Hne) as Hrd.
    rewrite (round_items_ready _ _ Rp Hrd). cbn [bind].
    destruct (process_all_LI2 seed (ready s) t f s (conj Rp Hrest) Hw) as [t1 [f1 [s1 [E [L1 [W1 [M1 M2]]]]]]].
    { apply NoDup_filter. exact (R_nodup _ _ Rp). }
    { intros x Hx. apply filter_In in Hx. tauto. }
    rewrite E. cbn [bind fst snd]. destruct (is_empty t1) eqn:Em1; [eauto|].
    apply (IH t1 f1 s1 L1 W1 Em1).
    pose proof (msize_bound seed U t1 f1 s1 L1 HU) as Hb.
    destruct (ready s) as [|x r] eqn:Er; [congruence|].
    assert (Hrx : readyb s x = true).
    { assert (Hin : In x (ready s)) by (rewrite Er; left; reflexivity).
      unfold ready in Hin. apply filter_In in Hin. tauto. }
    specialize (M2 x r eq_refl Hrx). lia.
  Qed.

  (* Termination: if everything reachable from the seed lies in the finite list U, the loop
     returns within |U| + |U|^2 + 1 rounds (each round completes an item or registers a new
     dependency edge). *)
  Theorem finish_terminates : forall seed U,
    (forall x, Reach seed x -> In x U) ->
    exists f, finish R infer cyc_order seed (S (bound U)) = Ok f.
  Proof.
    intros seed U HU. unfold finish. destruct (is_empty (extend empty seed)) eqn:Em; [eauto|].
    apply (finish_loop_terminates seed U HU (S (bound U)) _ _ (a_seed seed)); [| |exact Em|lia].
    - split; [apply rep_seed|]. split; [reflexivity|]. split; [constructor|]. split.
      + intros x [Hx|[]]. apply Reach_seed. apply pending_seed. exact Hx.
      + intros x Hx. left. apply in_pending_seed. exact Hx.
    - intros p c [].
  Qed.

  (* confluence with the fuel replaced by the explicit bound *)
  Theorem schedule_confluent_bounded : forall seed1 seed2 U,
    Permutation seed1 seed2 ->
    (forall x, Reach seed1 x -> In x U) ->
    exists f1 f2,
      finish R infer cyc_order seed1 (S (bound U)) = Ok f1 /\
      finish R infer cyc_order seed2 (S (bound U)) = Ok f2 /\
      forall x, lookup x f1 = lookup x f2.
  Proof.
    intros seed1 seed2 U P HU.
    destruct (finish_terminates seed1 U HU) as [f1 F1].
    destruct (finish_terminates seed2 U) as [f2 F2].
    { intros x Hx. apply HU. apply (reach_perm seed2); [apply Permutation_sym; exact P|exact Hx]. }
    exists f1, f2. split; [exact F1|]. split; [exact F2|].
    eapply schedule_confluent; eauto.
  Qed.

  (* ---------- the loop hangs iff it reaches a round that changes nothing ---------------------- *)
  (* (no acyclicity / progress hypothesis is used from here on) *)
  Lemma register_no_progress : forall ds t s x,
    Rep t s -> In x (pending s) -> (forall c, In c ds -> ~ In c (done s)) ->
    length (waits (a_register s x ds)) = length (waits s) ->
    insert_deps t x ds = t.
  Proof.
    induction ds as [|c r IH]; intros t s x Rp Hx Hd Hlen; [reflexivity|].
    cbn [insert_deps a_register fold_left] in *.
    fold (insert_deps (insert_dep t x c) x r). fold (a_register (a_reg1 s x c) x r) in Hlen.
    destruct (register_waits r (a_reg1 s x c) x) as [H1 _].
    destruct (add_wait_len (waits s) (x, c)) as [A1 [A2 _]]. cbn [a_reg1 waits] in *.
    assert (Hin : In (x, c) (waits s)).
    { destruct (in_dec (fun a b : item * item => ltac:(decide equality; apply N.eq_dec)) (x, c) (waits s)) as [H|H];
        [exact H|]. specialize (A2 H). lia. }
    assert (Hnd : ~ In c (done s)) by (apply Hd; left; reflexivity).
    assert (Hc : In c (pending s)) by (destruct (R_wdom _ _ Rp _ _ Hin) as [_ [H|H]]; tauto).
    assert (Hk : In c (keys t)) by (rewrite (R_keys _ _ Rp); exact Hc).
    destruct (keys_get _ _ Hk) as [d G].
    assert (Hp : In x (parents d)) by (eapply (R_par2 _ _ Rp); eauto).
    assert (E : insert_dep t x c = t).
    { unfold insert_dep. rewrite G, (proj2 (memb_In _ _) Hp). reflexivity. }
    pose proof (rep_insert_dep t s x c Rp Hx Hnd) as Rp'. rewrite E in *.
    apply (IH t (a_reg1 s x c) x Rp').
    - cbn [a_reg1 pending]. rewrite !in_add_pending. tauto.
    - intros c' Hc'. cbn [a_reg1 done]. apply Hd. right. exact Hc'.
    - cbn [a_reg1 waits]. lia.
  Qed.

  Lemma step_msize seed t f s x :
    LI seed t f s -> In x (pending s) ->
    msize s <= msize (next_s s x f) /\
    (msize (next_s s x f) = msize s -> process R infer (t, f) x = Ok (t, f)).
  Proof.
    intros [Rp [Hd _]] Hx. unfold next_s, msize, process. cbn [fst snd].
    assert (Hl : lookup x f = None).
    { apply lookup_none. rewrite Hd. exact (R_disj _ _ Rp _ Hx). }
    rewrite Hl. destruct (infer x f) as [r|ds] eqn:Hi.
    - cbn [a_complete done waits length]. split; [lia|]. intros H. lia.
    - rewrite done_register. destruct (register_waits ds s x) as [H1 _]. split; [lia|].
      intros H. rewrite (register_no_progress ds t s x Rp Hx); [reflexivity| |lia].
      intros c Hc. destruct (H_needs _ _ _ Hi _ Hc) as [_ Hn]. apply lookup_none in Hn.
      rewrite Hd in Hn. exact Hn.
  Qed.

  Lemma process_all_LI3 seed : forall l t f s,
    LI seed t f s -> NoDup l -> (forall x, In x l -> In x (pending s)) ->
    exists t' f' s', process_all R infer (t, f) l = Ok (t', f') /\ LI seed t' f' s' /\
      msize s <= msize s' /\ (msize s' = msize s -> t' = t /\ f' = f).
  Proof.
    induction l as [|x l IH]; intros t f s Hli ND Hin; cbn [process_all].
    - exists t, f, s. split; [reflexivity|]. split; [exact Hli|]. split; [lia|]. tauto.
    - inversion ND as [|? ? Hnx ND']; subst.
      pose proof (Hin _ (or_introl eq_refl)) as Hx.
      destruct (process_LI seed t f s x Hli Hx) as [t1 [f1 [E [L1 Hp]]]].
      destruct (step_msize seed t f s x Hli Hx) as [M1 M2].
      rewrite E. cbn [bind].
      destruct (IH t1 f1 (next_s s x f) L1 ND') as [t2 [f2 [s2 [E2 [L2 [M3 M4]]]]]].
      { intros y Hy. apply Hp; [apply Hin; right; exact Hy|]. intros Eq. subst. tauto. }
      exists t2, f2, s2. split; [exact E2|]. split; [exact L2|]. split; [lia|].
      intros Heq. assert (Ha : msize (next_s s x f) = msize s) by lia.
      specialize (M2 Ha). rewrite M2 in E. inversion E; subst t1 f1.
      apply M4. lia.
  Qed.

  Inductive RoundStep : topo * fins -> topo * fins -> Prop :=
  | RS_intro t f l st' : round_items cyc_order t = Ok l -> process_all R infer (t, f) l = Ok st' ->
      is_empty (fst st') = false -> RoundStep (t, f) st'.
  Inductive Reaches : topo * fins -> topo * fins -> Prop :=
  | Reaches_refl st : Reaches st st
  | Reaches_step st st1 st2 : RoundStep st st1 -> Reaches st1 st2 -> Reaches st st2.

  Definition StuckRound (st : topo * fins) : Prop :=
    exists l, round_items cyc_order (fst st) = Ok l /\ process_all R infer st l = Ok st /\
              is_empty (fst st) = false.

  Lemma diverges_back st st' : RoundStep st st' ->
    (forall n, finish_loop R infer cyc_order n st' = OutOfFuel) ->
    forall n, finish_loop R infer cyc_order n st = OutOfFuel.
  Proof.
    intros H Hd n. destruct H as [t f l st' Hl Hp Hem]. destruct n as [|n]; [reflexivity|].
    cbn [finish_loop fst]. rewrite Hl. cbn [bind]. rewrite Hp. cbn [bind]. rewrite Hem. apply Hd.
  Qed.

  Lemma stuck_reachable_diverges st st' : Reaches st st' -> StuckRound st' ->
    forall n, finish_loop R infer cyc_order n st = OutOfFuel.
  Proof.
    induction 1 as [st|st st1 st2 Hs Hr IH]; intros Hst.
    - destruct st as [t f]. destruct Hst as [l [Hl [Hp Hem]]]. cbn [fst] in *.
      apply (stuck_round_diverges_sec t f l); assumption.
    - apply (diverges_back _ _ Hs). apply IH. exact Hst.
  Qed.

  Lemma out_of_fuel_stuck seed U :
    (forall x, Reach seed x -> In x U) ->
    forall n t f s, LI seed t f s -> is_empty t = false -> bound U - msize s < n ->
      finish_loop R infer cyc_order n (t, f) = OutOfFuel ->
      exists st', Reaches (t, f) st' /\ StuckRound st'.
  Proof.
    intros HU. induction n as [|n IH]; intros t f s Hli Hem Hlt Hout; [lia|].
    cbn [finish_loop fst] in Hout. destruct Hli as [Rp Hrest].
    assert (Hne : pending s <> []).
    { rewrite is_empty_keys, (R_keys _ _ Rp) in Hem. destruct (pending s); discriminate. }
    destruct (round_items_total _ _ Rp Hne) as [l El]. rewrite El in Hout. cbn [bind] in Hout.
    destruct (round_items_ok _ _ _ Rp El) as [ND Hin].
    destruct (process_all_LI3 seed l t f s (conj Rp Hrest) ND Hin) as [t1 [f1 [s1 [E [L1 [M1 M2]]]]]].
    rewrite E in Hout. cbn [bind fst snd] in Hout.
    destruct (is_empty t1) eqn:Em1; [discriminate|].
    destruct (Nat.eq_dec (msize s1) (msize s)) as [Heq|Hneq].
    - destruct (M2 Heq) as [Et Ef]. subst t1 f1.
      exists (t, f). split; [constructor|]. exists l. cbn [fst]. auto.
    - pose proof (msize_bound seed U t1 f1 s1 L1 HU) as Hb.
      destruct (IH t1 f1 s1 L1 Em1) as [st' [Hr Hs]]; [lia|exact Hout|].
      exists st'. split; [|exact Hs]. apply (Reaches_step _ (t1, f1)); [|exact Hr].
      apply (RS_intro t f l (t1, f1)); assumption.
  Qed.

  (* Started from the seed, the loop runs out of every fuel iff it reaches a round that leaves
     its whole state (worklist and finished results) unchanged. *)
  Theorem finish_hangs_iff_stuck_round : forall seed U,
    (forall x, Reach seed x -> In x U) ->
    is_empty (extend empty seed) = false ->
    ((forall n, finish R infer cyc_order seed n = OutOfFuel) <->
     exists st', Reaches (extend empty seed, []) st' /\ StuckRound st').
  Proof.
    intros seed U HU Hem. unfold finish. rewrite Hem. split.
    - intros Hall.
      apply (out_of_fuel_stuck seed U HU (S (bound U)) _ _ (a_seed seed)); [|exact Hem|lia|apply Hall].
      split; [apply rep_seed|]. split; [reflexivity|]. split; [constructor|]. split.
      + intros x [Hx|[]]. apply Reach_seed. apply pending_seed. exact Hx.
      + intros x Hx. left. apply in_pending_seed. exact Hx.
    - intros [st' [Hr Hs]]. apply (stuck_reachable_diverges _ _ Hr Hs).
  Qed.
End Confluence.

(* ---------- the hypotheses are satisfiable: a canonical inference step ----------------------- *)
(* For any dependency function and any way [comb] of computing a result from the results of
   the dependencies, the step "ask for all unfinished dependencies, else combine" satisfies
   H_det, H_done and H_needs. *)
Section Canonical.
  Variable R : Type.
  Variable deps : item -> list item.
  Variable comb : item -> list (option R) -> R.

  Definition unfinished (f : fins R) (d : item) : bool :=
    match lookup R d f with None => true | Some _ => false end.

  Definition canon_infer (x : item) (f : fins R) : step R :=
    match filter (unfinished f) (deps x) with
    | [] => Done (comb x (map (fun d => lookup R d f) (deps x)))
    | ds => Needs ds
    end.

  Lemma canon_det : forall x f1 f2,
    (forall d, In d (deps x) -> lookup R d f1 = lookup R d f2) -> canon_infer x f1 = canon_infer x f2.
  Proof.
    intros x f1 f2 H. unfold canon_infer.
    assert (E1 : filter (unfinished f1) (deps x) = filter (unfinished f2) (deps x)).
    { apply filter_ext_in. intros d Hd. unfold unfinished. rewrite (H d Hd). reflexivity. }
    assert (E2 : map (fun d => lookup R d f1) (deps x) = map (fun d => lookup R d f2) (deps x)).
    { apply map_ext_in. exact H. }
    rewrite E1, E2. reflexivity.
  Qed.

  Lemma canon_done : forall x f r, canon_infer x f = Done r ->
    forall d, In d (deps x) -> lookup R d f <> None.
  Proof.
    intros x f r H d Hd Hn. unfold canon_infer in H.
    destruct (filter (unfinished f) (deps x)) as [|a l] eqn:E; [|discriminate].
    assert (Hin : In d (filter (unfinished f) (deps x))).
    { apply filter_In. split; [exact Hd|]. unfold unfinished. rewrite Hn. reflexivity. }
    rewrite E in Hin. destruct Hin.
  Qed.

  Lemma canon_needs : forall x f ds, canon_infer x f = Needs ds ->
    forall d, In d ds -> In d (deps x) /\ lookup R d f = None.
  Proof.
    intros x f ds H d Hd. unfold canon_infer in H.
    destruct (filter (unfinished f) (deps x)) as [|a l] eqn:E; [discriminate|].
    inversion H; subst ds. rewrite <- E in Hd. apply filter_In in Hd. destruct Hd as [H1 H2].
    split; [exact H1|]. unfold unfinished in H2. destruct (lookup R d f); [discriminate|reflexivity].
  Qed.
End Canonical.

Lemma canon_ok : forall (R : Type) (deps : item -> list item) (comb : item -> list (option R) -> R),
  (forall x f1 f2, (forall d, In d (deps x) -> lookup R d f1 = lookup R d f2) ->
     canon_infer R deps comb x f1 = canon_infer R deps comb x f2) /\
  (forall x f r, canon_infer R deps comb x f = Done r -> forall d, In d (deps x) -> lookup R d f <> None) /\
  (forall x f ds, canon_infer R deps comb x f = Needs ds ->
     forall d, In d ds -> In d (deps x) /\ lookup R d f = None).
Proof.
  intros R deps comb. split; [apply canon_det|]. split; [apply canon_done|apply canon_needs].
Qed.

(* ---------- a round that changes nothing makes the loop spin forever ------------------------- *)
Lemma stuck_round_diverges (R : Type) (infer : item -> list (item * R) -> step R) cyc_order :
  forall t f l, round_items cyc_order t = Ok l ->
    process_all R infer (t, f) l = Ok (t, f) -> is_empty t = false ->
    forall n, finish_loop R infer cyc_order n (t, f) = OutOfFuel.
Proof.
  intros t f l Hl Hp Hem. induction n as [|n IH]; [reflexivity|].
  cbn [finish_loop fst]. rewrite Hl. cbn [bind]. rewrite Hp. cbn [bind fst snd]. rewrite Hem. exact IH.
Qed.

Lemma canon_nonempty (R : Type) deps comb : forall x f, canon_infer R deps comb x f <> Needs [].
Proof.
  intros x f. unfold canon_infer. destruct (filter (unfinished R f) (deps x)); discriminate.
Qed.
