(* C20 (scheduler part): the result of the `finish` loop does not depend on the order in
   which the globals were seeded, for acyclic dependency graphs, under explicit hypotheses
   on the abstract inference step.  Proof: the loop maintains the C26 representation
   invariant (so every round processes pending items only and the protocol of C26 holds by
   construction) plus a well-formedness invariant on the list of finished results. *)
From Capy Require Import Common.Util Model.Topo Spec.Sched Model.SchedLoop
  Proofs.TopoMap Proofs.TopoProofs Proofs.TopoRefine.
From Coq Require Import Permutation.

Section Confluence.
  Variable R : Type.
  Variable infer : item -> list (item * R) -> step R.
  Variable cyc_order : list item -> list item.
  (* the real dependencies of an item, and a witness that they are acyclic *)
  Variable deps : item -> list item.
  Variable rank : item -> nat.
  Hypothesis H_rank : forall x d, In d (deps x) -> rank d < rank x.
  (* the step is a function of the results of the item's dependencies *)
  Hypothesis H_det : forall x f1 f2,
    (forall d, In d (deps x) -> lookup R d f1 = lookup R d f2) -> infer x f1 = infer x f2.
  (* it completes only when all its dependencies are finished *)
  Hypothesis H_done : forall x f r, infer x f = Done r ->
    forall d, In d (deps x) -> lookup R d f <> None.
  (* what it asks for are unfinished real dependencies *)
  Hypothesis H_needs : forall x f ds, infer x f = Needs ds ->
    forall d, In d ds -> In d (deps x) /\ lookup R d f = None.
  (* the client's sort of the cyclic list is a permutation *)
  Hypothesis H_cyc : forall l, Permutation (cyc_order l) l.

  Notation lookup := (lookup R).
  Notation fins := (fins R).

  Lemma lookup_none (x : item) (f : fins) : lookup x f = None <-> ~ In x (map fst f).
  Proof.
    induction f as [|e r IH]; cbn [SchedLoop.lookup map In]; [tauto|].
    destruct (N.eqb_spec (fst e) x) as [E|E].
    - split; [discriminate|tauto].
    - rewrite IH. tauto.
  Qed.

  Lemma lookup_cons_stable (y : item) ry (f : fins) d v :
    lookup y f = None -> lookup d f = Some v -> lookup d ((y, ry) :: f) = Some v.
  Proof.
    intros Hn Hd. cbn [SchedLoop.lookup fst snd].
    destruct (N.eqb_spec y d) as [E|E]; [subst; congruence|exact Hd].
  Qed.

  Inductive WF : fins -> Prop :=
  | WF_nil : WF []
  | WF_cons x r f : WF f -> lookup x f = None -> infer x f = Done r -> WF ((x, r) :: f).

  Lemma wf_origin : forall f, WF f -> forall x r, lookup x f = Some r ->
    exists pre, WF pre /\ infer x pre = Done r /\
      (forall d v, lookup d pre = Some v -> lookup d f = Some v).
  Proof.
    induction 1 as [|y ry f Hwf IH Hn Hi]; intros x r Hl; [discriminate|].
    cbn [SchedLoop.lookup fst snd] in Hl. destruct (N.eqb_spec y x) as [E|E].
    - inversion Hl; subst. exists f. split; [exact Hwf|]. split; [exact Hi|].
      intros d v Hd. apply lookup_cons_stable; assumption.
    - destruct (IH _ _ Hl) as [pre [H1 [H2 H3]]]. exists pre. split; [exact H1|]. split; [exact H2|].
      intros d v Hd. apply lookup_cons_stable; [exact Hn|apply H3; exact Hd].
  Qed.

  (* two well-formed result lists agree wherever both are defined *)
  Lemma wf_agree : forall n x, rank x < n -> forall f1 f2 r1 r2,
    WF f1 -> WF f2 -> lookup x f1 = Some r1 -> lookup x f2 = Some r2 -> r1 = r2.
  Proof.
    induction n as [|n IH]; intros x Hr f1 f2 r1 r2 W1 W2 L1 L2; [lia|].
    destruct (wf_origin _ W1 _ _ L1) as [p1 [Wp1 [I1 S1]]].
    destruct (wf_origin _ W2 _ _ L2) as [p2 [Wp2 [I2 S2]]].
    assert (E : infer x p1 = infer x p2).
    { apply H_det. intros d Hd.
      pose proof (H_done _ _ _ I1 _ Hd) as N1. pose proof (H_done _ _ _ I2 _ Hd) as N2.
      destruct (lookup d p1) as [v1|] eqn:E1; [|congruence].
      destruct (lookup d p2) as [v2|] eqn:E2; [|congruence].
      f_equal. assert (Hrk : rank d < n) by (pose proof (H_rank _ _ Hd); lia).
      exact (IH d Hrk f1 f2 v1 v2 W1 W2 (S1 _ _ E1) (S2 _ _ E2)). }
    rewrite I1, I2 in E. inversion E. reflexivity.
  Qed.

  (* ---------- the loop invariant --------------------------------------------------------- *)
  Inductive Reach (seed : list item) : item -> Prop :=
  | Reach_seed x : In x seed -> Reach seed x
  | Reach_dep x d : Reach seed x -> In d (deps x) -> Reach seed d.

  Definition LI (seed : list item) (t : topo) (f : fins) (s : sched) : Prop :=
    Rep t s /\ map fst f = done s /\ WF f /\
    (forall x, In x (pending s) \/ In x (done s) -> Reach seed x) /\
    (forall x, In x seed -> In x (pending s) \/ In x (done s)).

  Lemma in_pending_register : forall ds s p y,
    In y (pending s) -> In y (pending (a_register s p ds)).
  Proof.
    induction ds as [|c r IH]; intros s p y H; cbn [a_register fold_left]; [exact H|].
    fold (a_register (a_reg1 s p c) p r). apply IH. cbn [a_reg1 pending].
    rewrite !in_add_pending. tauto.
  Qed.

  Lemma process_LI seed t f s x :
    LI seed t f s -> In x (pending s) ->
    exists t' f' s', process R infer (t, f) x = Ok (t', f') /\ LI seed t' f' s' /\
      (forall y, In y (pending s) -> y <> x -> In y (pending s')).
  Proof.
    intros [Rp [Hd [Hwf [Hre Hse]]]] Hx. unfold process. cbn [fst snd].
    assert (Hl : lookup x f = None).
    { apply lookup_none. rewrite Hd. exact (R_disj _ _ Rp _ Hx). }
    rewrite Hl. destruct (infer x f) as [r|ds] eqn:Hi.
    - destruct (rep_remove _ _ _ Rp Hx) as [t' [Hr R']]. rewrite Hr. cbn [bind fst].
      exists t', ((x, r) :: f), (a_complete s x). split; [reflexivity|]. split.
      + split; [exact R'|]. split; [cbn [map fst a_complete done]; rewrite Hd; reflexivity|].
        split; [constructor; assumption|]. split.
        * intros y Hy. apply Hre. cbn [a_complete pending done In] in Hy.
          destruct Hy as [Hy|[Hy|Hy]]; [apply filter_In in Hy; tauto|subst; tauto|tauto].
        * intros y Hy. cbn [a_complete pending done In].
          destruct (Hse _ Hy) as [H|H]; [|tauto].
          destruct (N.eqb_spec y x) as [E|E]; [subst; tauto|].
          left. apply filter_In. split; [exact H|]. apply negb_true_iff, N.eqb_neq. exact E.
      + intros y Hy Hne. cbn [a_complete pending]. apply filter_In. split; [exact Hy|].
        apply negb_true_iff, N.eqb_neq. exact Hne.
    - exists (insert_deps t x ds), f, (a_register s x ds). split; [reflexivity|]. split.
      + split.
        * apply rep_insert_deps; [exact Rp|exact Hx|].
          intros c Hc. destruct (H_needs _ _ _ Hi _ Hc) as [_ Hn].
          apply lookup_none in Hn. rewrite Hd in Hn. exact Hn.
        * rewrite done_register. split; [exact Hd|]. split; [exact Hwf|]. split.
          -- intros y [Hy|Hy]; [|apply Hre; tauto].
             apply pending_register in Hy. destruct Hy as [Hy|[Hy|Hy]].
             ++ apply Hre; tauto.
             ++ apply (Reach_dep _ x); [apply Hre; tauto|].
                destruct (H_needs _ _ _ Hi _ Hy) as [Hdep _]. exact Hdep.
             ++ subst. apply Hre; tauto.
          -- intros y Hy. destruct (Hse _ Hy) as [H|H]; [left; apply in_pending_register; exact H|tauto].
      + intros y Hy _. apply in_pending_register. exact Hy.
  Qed.

  Lemma process_all_LI seed : forall l t f s,
    LI seed t f s -> NoDup l -> (forall x, In x l -> In x (pending s)) ->
    exists t' f' s', process_all R infer (t, f) l = Ok (t', f') /\ LI seed t' f' s'.
  Proof.
    induction l as [|x l IH]; intros t f s Hli ND Hin; cbn [process_all].
    - exists t, f, s. split; [reflexivity|exact Hli].
    - inversion ND as [|? ? Hnx ND']; subst.
      destruct (process_LI seed t f s x Hli (Hin _ (or_introl eq_refl))) as [t1 [f1 [s1 [E [L1 Hp]]]]].
      rewrite E. cbn [bind]. apply (IH t1 f1 s1 L1 ND').
      intros y Hy. apply Hp; [apply Hin; right; exact Hy|]. intros Eq. subst. tauto.
  Qed.

  Lemma round_items_ok t s l : Rep t s -> round_items cyc_order t = Ok l ->
    NoDup l /\ forall x, In x l -> In x (pending s).
  Proof.
    intros Rp H. unfold round_items in H.
    rewrite (peek_all_exact _ _ Rp), (peek_all_cyclic_exact _ _ Rp) in H.
    destruct (negb (is_nil (pending s)) && is_nil (ready s)).
    - destruct (is_nil (pending s)); [discriminate|]. inversion H; subst. split.
      + eapply Permutation_NoDup; [apply Permutation_sym; apply H_cyc|exact (R_nodup _ _ Rp)].
      + intros x Hx. eapply Permutation_in; [apply H_cyc|exact Hx].
    - destruct (is_nil (ready s)); [discriminate|]. inversion H; subst. split.
      + apply NoDup_filter. exact (R_nodup _ _ Rp).
      + intros x Hx. apply filter_In in Hx. tauto.
  Qed.

  Definition Final (seed : list item) (f : fins) : Prop :=
    WF f /\ forall x, In x (map fst f) <-> Reach seed x.

  Lemma wf_deps_closed : forall f, WF f -> forall x d, In x (map fst f) -> In d (deps x) ->
    In d (map fst f).
  Proof.
    induction 1 as [|y ry f Hwf IH Hn Hi]; intros x d Hx Hd; [destruct Hx|].
    cbn [map fst In] in *. destruct Hx as [Hx|Hx].
    - subst y. right. pose proof (H_done _ _ _ Hi _ Hd) as Hne.
      destruct (in_dec N.eq_dec d (map fst f)) as [Hin|Hnin]; [exact Hin|].
      apply lookup_none in Hnin. congruence.
    - right. eapply IH; eauto.
  Qed.

  Lemma finish_loop_final seed : forall n t f s fo,
    LI seed t f s -> finish_loop R infer cyc_order n (t, f) = Ok fo -> Final seed fo.
  Proof.
    induction n as [|n IH]; intros t f s fo Hli H; [discriminate|].
    cbn [finish_loop fst] in H.
    destruct (round_items cyc_order t) as [l| |] eqn:El; cbn [bind] in H; try discriminate.
    destruct Hli as [Rp Hrest].
    destruct (round_items_ok _ _ _ Rp El) as [ND Hin].
    destruct (process_all_LI seed l t f s (conj Rp Hrest) ND Hin) as [t1 [f1 [s1 [E L1]]]].
    rewrite E in H. cbn [bind fst snd] in H.
    destruct (is_empty t1) eqn:Em; [|eapply IH; eauto].
    inversion H; subst fo. destruct L1 as [R1 [Hd [Hwf [Hre Hse]]]].
    assert (Pe : pending s1 = []).
    { rewrite is_empty_keys, (R_keys _ _ R1) in Em. destruct (pending s1); [reflexivity|discriminate]. }
    split; [exact Hwf|]. intros x. split.
    - intros Hx. apply Hre. right. rewrite <- Hd. exact Hx.
    - induction 1 as [x Hx|x d Hx IHx Hdx].
      + rewrite Hd. destruct (Hse _ Hx) as [H1|H1]; [rewrite Pe in H1; destruct H1|exact H1].
      + eapply wf_deps_closed; eauto.
  Qed.

  Lemma in_pending_seed seed x : In x seed -> In x (pending (a_seed seed)).
  Proof.
    intros Hx. cbn [a_seed pending].
    assert (G : forall xs acc, In x acc \/ In x xs -> In x (fold_left add_pending xs acc)).
    { induction xs as [|a r IHr]; intros acc [H1|H1]; cbn [fold_left]; try exact H1; try destruct H1.
      - apply IHr. left. apply in_add_pending. tauto.
      - apply IHr. left. apply in_add_pending. right. symmetry. exact H.
      - apply IHr. right. exact H. }
    apply G. right. exact Hx.
  Qed.

  Lemma finish_final seed n fo : finish R infer cyc_order seed n = Ok fo -> Final seed fo.
  Proof.
    unfold finish. destruct (is_empty (extend empty seed)) eqn:Em.
    - intros H. inversion H; subst. split; [constructor|]. intros x. split; [intros []|].
      pose proof (rep_seed seed) as Rp.
      rewrite is_empty_keys, (R_keys _ _ Rp) in Em.
      induction 1 as [x Hx|x d Hx IHx Hd]; [|destruct IHx].
      assert (H0 : In x (pending (a_seed seed))) by (apply in_pending_seed; exact Hx).
      destruct (pending (a_seed seed)); [destruct H0|discriminate].
    - intros H. eapply finish_loop_final; [|exact H].
      split; [apply rep_seed|]. split; [reflexivity|]. split; [constructor|]. split.
      + intros x [Hx|[]]. apply Reach_seed. apply pending_seed. exact Hx.
      + intros x Hx. left. apply in_pending_seed. exact Hx.
  Qed.

  Lemma reach_perm seed1 seed2 x : Permutation seed1 seed2 -> Reach seed1 x -> Reach seed2 x.
  Proof.
    intros P. induction 1 as [x Hx|x d Hx IH Hd].
    - apply Reach_seed. eapply Permutation_in; eauto.
    - eapply Reach_dep; eauto.
  Qed.

  (* The results of type-checking are independent of the order of the seed. *)
  Theorem schedule_confluent : forall seed1 seed2 n1 n2 f1 f2,
    Permutation seed1 seed2 ->
    finish R infer cyc_order seed1 n1 = Ok f1 ->
    finish R infer cyc_order seed2 n2 = Ok f2 ->
    forall x, lookup x f1 = lookup x f2.
  Proof.
    intros seed1 seed2 n1 n2 f1 f2 P F1 F2 x.
    destruct (finish_final _ _ _ F1) as [W1 D1]. destruct (finish_final _ _ _ F2) as [W2 D2].
    destruct (lookup x f1) as [r1|] eqn:L1; destruct (lookup x f2) as [r2|] eqn:L2.
    - f_equal. exact (wf_agree (S (rank x)) x (Nat.lt_succ_diag_r _) f1 f2 r1 r2 W1 W2 L1 L2).
    - exfalso. apply lookup_none in L2. apply L2. apply D2. apply (reach_perm seed1); [exact P|].
      apply D1. destruct (in_dec N.eq_dec x (map fst f1)) as [H|H]; [exact H|].
      apply lookup_none in H. congruence.
    - exfalso. apply lookup_none in L1. apply L1. apply D1.
      apply (reach_perm seed2); [apply Permutation_sym; exact P|].
      apply D2. destruct (in_dec N.eq_dec x (map fst f2)) as [H|H]; [exact H|].
      apply lookup_none in H. congruence.
    - reflexivity.
  Qed.

  (* what is finished at the end is exactly what is reachable from the seed, and the run
     never reaches a panic site of TopoSort or of the loop *)
  Theorem finish_domain : forall seed n f, finish R infer cyc_order seed n = Ok f ->
    forall x, lookup x f <> None <-> Reach seed x.
  Proof.
    intros seed n f F x. destruct (finish_final _ _ _ F) as [_ D]. rewrite <- D.
    split.
    - intros H. destruct (in_dec N.eq_dec x (map fst f)) as [Hi|Hi]; [exact Hi|].
      apply lookup_none in Hi. congruence.
    - intros H Hn. apply lookup_none in Hn. tauto.
  Qed.

  Lemma round_items_total t s : Rep t s -> pending s <> [] ->
    exists l, round_items cyc_order t = Ok l.
  Proof.
    intros Rp Hne. unfold round_items.
    rewrite (peek_all_exact _ _ Rp), (peek_all_cyclic_exact _ _ Rp).
    destruct (pending s) as [|a p]; [congruence|]. cbn [is_nil negb andb].
    destruct (ready s) as [|b r]; cbn [is_nil]; eauto.
  Qed.

  (* the loop never reaches a panic site: TopoSort underflow, unwrap, assert *)
  Theorem finish_no_crash : forall seed n site, finish R infer cyc_order seed n <> Crash site.
  Proof.
    intros seed n site. unfold finish. destruct (is_empty (extend empty seed)) eqn:Em0; [discriminate|].
    assert (G : forall m t f s, LI seed t f s -> is_empty t = false ->
                finish_loop R infer cyc_order m (t, f) <> Crash site).
    { induction m as [|m IH]; intros t f s Hli Em; cbn [finish_loop fst]; [discriminate|].
      destruct Hli as [Rp Hrest].
      assert (Hne : pending s <> []).
      { rewrite is_empty_keys, (R_keys _ _ Rp) in Em. destruct (pending s); [discriminate|discriminate]. }
      destruct (round_items_total _ _ Rp Hne) as [l El]. rewrite El. cbn [bind].
      destruct (round_items_ok _ _ _ Rp El) as [ND Hin].
      destruct (process_all_LI seed l t f s (conj Rp Hrest) ND Hin) as [t1 [f1 [s1 [E L1]]]].
      rewrite E. cbn [bind fst snd]. destruct (is_empty t1) eqn:Em1; [discriminate|].
      eapply IH; eauto. }
    eapply G; [|exact Em0].
    split; [apply rep_seed|]. split; [reflexivity|]. split; [constructor|]. split.
    - intros x [Hx|[]]. apply Reach_seed. apply pending_seed. exact Hx.
    - intros x Hx. left. apply in_pending_seed. exact Hx.
  Qed.

  (* more fuel never changes a result *)
  Theorem finish_fuel_mono : forall seed n m f,
    finish R infer cyc_order seed n = Ok f -> n <= m -> finish R infer cyc_order seed m = Ok f.
  Proof.
    intros seed n m f. unfold finish. destruct (is_empty (extend empty seed)); [auto|].
    generalize (extend empty seed, @nil (item * R)). revert m.
    induction n as [|n IH]; intros m st H Hle; [discriminate|].
    destruct m as [|m]; [lia|]. cbn [finish_loop] in *. revert H.
    match goal with |- context [round_items ?c ?t] => destruct (round_items c t) as [l| |] end;
      cbn [bind]; try discriminate.
    match goal with |- context [process_all ?a ?b ?c ?d] => destruct (process_all a b c d) as [st'| |] end;
      cbn [bind]; try discriminate.
    match goal with |- context [is_empty ?t] => destruct (is_empty t) end; [auto|].
    intros H. apply IH; [exact H|lia].
  Qed.
End Confluence.

(* ---------- the hypotheses are satisfiable: a canonical inference step ----------------------- *)
(* For any dependency function and any way [comb] of computing a result from the results of
   the dependencies, the step "ask for all unfinished dependencies, else combine" satisfies
   H_det, H_done and H_needs. *)
Section Canonical.
  Variable R : Type.
  Variable deps : item -> list item.
  Variable comb : item -> list (option R) -> R.

  Definition unfinished (f : fins R) (d : item) : bool :=
    match lookup R d f with None => true | Some _ => false end.

  Definition canon_infer (x : item) (f : fins R) : step R :=
    match filter (unfinished f) (deps x) with
    | [] => Done (comb x (map (fun d => lookup R d f) (deps x)))
    | ds => Needs ds
    end.

  Lemma canon_det : forall x f1 f2,
    (forall d, In d (deps x) -> lookup R d f1 = lookup R d f2) -> canon_infer x f1 = canon_infer x f2.
  Proof.
    intros x f1 f2 H. unfold canon_infer.
    assert (E1 : filter (unfinished f1) (deps x) = filter (unfinished f2) (deps x)).
    { apply filter_ext_in. intros d Hd. unfold unfinished. rewrite (H d Hd). reflexivity. }
    assert (E2 : map (fun d => lookup R d f1) (deps x) = map (fun d => lookup R d f2) (deps x)).
    { apply map_ext_in. exact H. }
    rewrite E1, E2. reflexivity.
  Qed.

  Lemma canon_done : forall x f r, canon_infer x f = Done r ->
    forall d, In d (deps x) -> lookup R d f <> None.
  Proof.
    intros x f r H d Hd Hn. unfold canon_infer in H.
    destruct (filter (unfinished f) (deps x)) as [|a l] eqn:E; [|discriminate].
    assert (Hin : In d (filter (unfinished f) (deps x))).
    { apply filter_In. split; [exact Hd|]. unfold unfinished. rewrite Hn. reflexivity. }
    rewrite E in Hin. destruct Hin.
  Qed.

  Lemma canon_needs : forall x f ds, canon_infer x f = Needs ds ->
    forall d, In d ds -> In d (deps x) /\ lookup R d f = None.
  Proof.
    intros x f ds H d Hd. unfold canon_infer in H.
    destruct (filter (unfinished f) (deps x)) as [|a l] eqn:E; [discriminate|].
    inversion H; subst ds. rewrite <- E in Hd. apply filter_In in Hd. destruct Hd as [H1 H2].
    split; [exact H1|]. unfold unfinished in H2. destruct (lookup R d f); [discriminate|reflexivity].
  Qed.
End Canonical.

Lemma canon_ok : forall (R : Type) (deps : item -> list item) (comb : item -> list (option R) -> R),
  (forall x f1 f2, (forall d, In d (deps x) -> lookup R d f1 = lookup R d f2) ->
     canon_infer R deps comb x f1 = canon_infer R deps comb x f2) /\
  (forall x f r, canon_infer R deps comb x f = Done r -> forall d, In d (deps x) -> lookup R d f <> None) /\
  (forall x f ds, canon_infer R deps comb x f = Needs ds ->
     forall d, In d ds -> In d (deps x) /\ lookup R d f = None).
Proof.
  intros R deps comb. split; [apply canon_det|]. split; [apply canon_done|apply canon_needs].
Qed.
