(* C19, whole signatures: the model of fn_ty_to_abi places every argument and the
   return value where the System V specification (Spec/SysV.v) says — proof of
   [abi_ok] for every signature of the C-compatible fragment, by induction over
   the parameter list with the register counters and the stack offset as invariant. *)
From Capy Require Import Common.Util Common.CAbiTy Model.Abi Spec.SysV Proofs.AbiProofs.
Open Scope N_scope.

(* ------------------------------------------------------------ list helpers *)
Lemma flat_map_fst {A B C} (f : A -> list C) (l : list (A * B)) :
  flat_map (fun pa => f (fst pa)) l = flat_map f (map fst l).
Proof. induction l as [| x r IH]; cbn; [reflexivity | rewrite IH; reflexivity]. Qed.

(* --------------------------------------- Cranelift assignment, compositional *)
Fixpoint cl_state (ps : list abiparam) (ni ns so : N) : N * N * N :=
  match ps with
  | [] => (ni, ns, so)
  | PStructArg sz :: r => cl_state r ni ns (so + sz)
  | PSret :: r => if ni <? 6 then cl_state r (ni + 1) ns so else cl_state r ni ns (so + 8)
  | PNormal t :: r =>
      if clty_is_float t then
        if ns <? 8 then cl_state r ni (ns + 1) so else cl_state r ni ns (so + 8)
      else
        if ni <? 6 then cl_state r (ni + 1) ns so else cl_state r ni ns (so + 8)
  end.

Lemma cl_assign_app a : forall b ni ns so,
  cl_assign (a ++ b) ni ns so =
  cl_assign a ni ns so ++ (let '(ni', ns', so') := cl_state a ni ns so in cl_assign b ni' ns' so').
Proof.
  induction a as [| p r IH]; intros b ni ns so; cbn [app cl_assign cl_state]; [reflexivity |].
  destruct p as [t | sz |].
  - destruct (clty_is_float t).
    + destruct (ns <? 8); cbn [app]; rewrite IH; reflexivity.
    + destruct (ni <? 6); cbn [app]; rewrite IH; reflexivity.
  - cbn [app]. rewrite IH. reflexivity.
  - destruct (ni <? 6); cbn [app]; rewrite IH; reflexivity.
Qed.

Lemma cl_assign_length a : forall ni ns so, length (cl_assign a ni ns so) = length a.
Proof.
  induction a as [| p r IH]; intros ni ns so; cbn [cl_assign length]; [reflexivity |].
  destruct p as [t | sz |].
  - destruct (clty_is_float t); [destruct (ns <? 8) | destruct (ni <? 6)]; cbn [length]; rewrite IH; reflexivity.
  - cbn [length]. rewrite IH. reflexivity.
  - destruct (ni <? 6); cbn [length]; rewrite IH; reflexivity.
Qed.

(* the placement of the arguments, one argument at a time *)
Fixpoint place_list (pms : list passmode) (ni ns so : N) : list (list piece) :=
  match pms with
  | [] => []
  | p :: r =>
      pieces_of p (cl_assign (to_abiparam p) ni ns so)
      :: (let '(ni', ns', so') := cl_state (to_abiparam p) ni ns so in place_list r ni' ns' so')
  end.

Lemma split_locs_place pms : forall ni ns so,
  split_locs pms (cl_assign (flat_map to_abiparam pms) ni ns so) = place_list pms ni ns so.
Proof.
  induction pms as [| p r IH]; intros ni ns so; cbn [split_locs place_list flat_map]; [reflexivity |].
  rewrite cl_assign_app.
  rewrite <- (cl_assign_length (to_abiparam p) ni ns so).
  rewrite firstn_app, Nat.sub_diag, firstn_all. cbn [firstn]. rewrite app_nil_r.
  rewrite skipn_app, Nat.sub_diag, skipn_all. cbn [skipn app].
  destruct (cl_state (to_abiparam p) ni ns so) as [[ni' ns'] so'].
  rewrite IH. reflexivity.
Qed.

(* ------------------------------------------------ words of a Cast in registers *)
Fixpoint words_ok (leaves : list (N * scalar)) (j : N) (tys : list clty) : Prop :=
  match tys with
  | [] => True
  | w :: r => eightbyte_need leaves j <= clty_bytes w /\ (r <> [] -> clty_bytes w = 8)
              /\ words_ok leaves (j + 1) r
  end.

Definition word_piece (x : loc * (N * clty)) : piece :=
  let '(l, (o, t)) := x in (l, o, clty_bytes t).

Lemma count_sclass_cons c x r :
  count_sclass c (x :: r) = (if sclass_eqb c x then 1 else 0) + count_sclass c r.
Proof.
  unfold count_sclass. cbn [filter]. destruct (sclass_eqb c x); cbn [length]; lia.
Qed.

Lemma loc_eqb_refl l : loc_eqb l l = true.
Proof. destruct l; cbn; apply N.eqb_refl. Qed.

Lemma reg_sim : forall scls tys leaves j ni ns so,
  map clty_is_float tys = map (sclass_eqb SSE) scls ->
  Forall (fun c => c <> NO_CLASS) scls ->
  ni + count_sclass INTEGER scls <= 6 -> ns + count_sclass SSE scls <= 8 ->
  words_ok leaves j tys ->
  pieces_cover (map word_piece (combine (cl_assign (map PNormal tys) ni ns so) (word_offsets (8 * j) tys)))
               (reg_pieces leaves scls j ni ns) = true
  /\ cl_state (map PNormal tys) ni ns so
     = (ni + count_sclass INTEGER scls, ns + count_sclass SSE scls, so).
Proof.
  induction scls as [| c r IH]; intros tys leaves j ni ns so HM HN HI HS HW.
  - destruct tys; [| discriminate]. cbn. split; [reflexivity |].
    unfold count_sclass. cbn. rewrite !N.add_0_r. reflexivity.
  - destruct tys as [| w tr]; [discriminate |].
    cbn [map] in HM. inversion HM as [[Hw Hr]]. clear HM.
    inversion HN as [| ? ? Hc HNr]; subst.
    rewrite count_sclass_cons in HI, HS.
    cbn [words_ok] in HW. destruct HW as (Hneed & Hfull & HWr).
    assert (Hnext : tr <> [] -> 8 * j + clty_bytes w = 8 * (j + 1)) by (intros H; rewrite (Hfull H); lia).
    assert (Hrest : forall ni' ns',
               ni' + count_sclass INTEGER r <= 6 -> ns' + count_sclass SSE r <= 8 ->
               pieces_cover (map word_piece (combine (cl_assign (map PNormal tr) ni' ns' so)
                                                      (word_offsets (8 * j + clty_bytes w) tr)))
                            (reg_pieces leaves r (j + 1) ni' ns') = true
               /\ cl_state (map PNormal tr) ni' ns' so
                  = (ni' + count_sclass INTEGER r, ns' + count_sclass SSE r, so)).
    { intros ni' ns' H1 H2. destruct tr as [| w2 tr2].
      - destruct r; [| discriminate]. cbn. split; [reflexivity |].
        unfold count_sclass. cbn. rewrite !N.add_0_r. reflexivity.
      - rewrite Hnext by discriminate. apply IH; auto. }
    cbn [map cl_assign cl_state word_offsets reg_pieces]. rewrite Hw.
    destruct c; cbn [sclass_eqb] in *; try congruence.
    + (* INTEGER *)
      assert (ni <? 6 = true) as -> by (apply N.ltb_lt; clear - HI; generalize dependent (count_sclass INTEGER r); intros; lia).
      destruct (Hrest (ni + 1) ns ltac:(lia) ltac:(lia)) as [P S].
      cbn [combine map word_piece pieces_cover piece_covers]. rewrite P, S.
      rewrite loc_eqb_refl, N.eqb_refl. cbn [andb].
      split; [rewrite Bool.andb_true_r; apply N.leb_le; exact Hneed |].
      rewrite !count_sclass_cons. cbn [sclass_eqb]. rewrite N.add_assoc, N.add_0_l. reflexivity.
    + (* SSE *)
      assert (ns <? 8 = true) as -> by (apply N.ltb_lt; clear - HS; generalize dependent (count_sclass SSE r); intros; lia).
      destruct (Hrest ni (ns + 1) ltac:(lia) ltac:(lia)) as [P S].
      cbn [combine map word_piece pieces_cover piece_covers]. rewrite P, S.
      rewrite loc_eqb_refl, N.eqb_refl. cbn [andb].
      split; [rewrite Bool.andb_true_r; apply N.leb_le; exact Hneed |].
      rewrite !count_sclass_cons. cbn [sclass_eqb]. rewrite N.add_0_l, N.add_assoc. reflexivity.
Qed.

(* the same for return registers (rax, rdx / xmm0, xmm1: no budget) *)
Lemma ret_sim : forall scls tys leaves j ni ns,
  map clty_is_float tys = map (sclass_eqb SSE) scls ->
  Forall (fun c => c <> NO_CLASS) scls ->
  words_ok leaves j tys ->
  pieces_cover (map word_piece (combine (cl_ret_assign tys ni ns) (word_offsets (8 * j) tys)))
               (reg_pieces leaves scls j ni ns) = true.
Proof.
  induction scls as [| c r IH]; intros tys leaves j ni ns HM HN HW.
  - destruct tys; [| discriminate]. reflexivity.
  - destruct tys as [| w tr]; [discriminate |].
    cbn [map] in HM. inversion HM as [[Hw Hr]]. clear HM.
    inversion HN as [| ? ? Hc HNr]; subst.
    cbn [words_ok] in HW. destruct HW as (Hneed & Hfull & HWr).
    assert (Hrest : forall ni' ns',
               pieces_cover (map word_piece (combine (cl_ret_assign tr ni' ns')
                                                      (word_offsets (8 * j + clty_bytes w) tr)))
                            (reg_pieces leaves r (j + 1) ni' ns') = true).
    { intros ni' ns'. destruct tr as [| w2 tr2].
      - destruct r; [| discriminate]. reflexivity.
      - replace (8 * j + clty_bytes w) with (8 * (j + 1)) by (rewrite Hfull by discriminate; lia).
        apply IH; auto. }
    cbn [cl_ret_assign word_offsets reg_pieces]. rewrite Hw.
    destruct c; cbn [sclass_eqb] in *; try congruence;
      cbn [combine map word_piece pieces_cover piece_covers];
      rewrite Hrest, loc_eqb_refl, N.eqb_refl; cbn [andb];
      rewrite Bool.andb_true_r; apply N.leb_le; exact Hneed.
Qed.

(* ----------------------------------------------------- bounds on the data *)
Lemma need_bound leaves j e :
  (forall o s, In (o, s) leaves -> o + c_size_s s <= e) ->
  eightbyte_need leaves j <= N.min 8 (e - 8 * j).
Proof.
  intros B. unfold eightbyte_need.
  enough (forall acc, acc <= N.min 8 (e - 8 * j) ->
    fold_left (fun acc '(o, s) => if overlaps o (c_size_s s) j
                                  then N.max acc (N.min 8 (o + c_size_s s - 8 * j)) else acc) leaves acc
    <= N.min 8 (e - 8 * j)) as H by (apply H; lia).
  induction leaves as [| [o s] r IH]; intros acc Ha; cbn [fold_left]; auto.
  apply IH; [intros; apply B; right; auto |].
  destruct (overlaps o (c_size_s s) j); auto.
  specialize (B o s (or_introl eq_refl)). lia.
Qed.

Lemma data_end_bound leaves e :
  (forall o s, In (o, s) leaves -> o + c_size_s s <= e) -> data_end leaves <= e.
Proof.
  intros B. unfold data_end.
  enough (forall acc, acc <= e ->
    fold_left (fun acc '(o, s) => N.max acc (o + c_size_s s)) leaves acc <= e) as H by (apply H; lia).
  induction leaves as [| [o s] r IH]; intros acc Ha; cbn [fold_left]; auto.
  apply IH; [intros; apply B; right; auto |].
  specialize (B o s (or_introl eq_refl)). lia.
Qed.

Lemma nm8_align_up x : next_multiple_of_8 x = align_up x 8.
Proof.
  rewrite <- (pad_align_up x 8) by lia. unfold next_multiple_of_8, padding_needed_for.
  set (m := x mod 8). destruct (m =? 0) eqn:E.
  - apply N.eqb_eq in E. rewrite E. cbn. lia.
  - apply N.eqb_neq in E. assert (0 <? m = true) as -> by (apply N.ltb_lt; lia). reflexivity.
Qed.

Lemma struct_align_from_max fs : forall m, 1 <= m -> struct_align_from m fs = N.max m (c_align_struct fs).
Proof.
  induction fs as [| f r IH]; intros m Hm; cbn [struct_align_from c_align_struct fold_right].
  - lia.
  - fold (c_align_struct r). rewrite falign_c.
    destruct (N.ltb_spec m (c_align_f f)); rewrite IH by lia; lia.
Qed.

Lemma astride_c fs : astride (AStruct fs) = c_sizeof (AStruct fs).
Proof.
  unfold astride. cbn [asize aalign c_sizeof].
  unfold struct_align. rewrite struct_align_from_max by lia.
  pose proof (c_align_struct_pow2 fs) as P. pose proof (pow2a_pos _ P).
  replace (N.max 1 (c_align_struct fs)) with (c_align_struct fs) by lia.
  rewrite stride_of_div by auto. rewrite align_up_alt by auto.
  destruct (struct_layout_matches_c fs) as [-> _]. reflexivity.
Qed.

Lemma struct_leaves_bound fs o s :
  In (o, s) (c_leaves (AStruct fs)) -> o + c_size_s s <= asize (AStruct fs).
Proof.
  cbn [c_leaves asize]. destruct (struct_layout_matches_c fs) as [-> _].
  intros Hin. destruct (struct_leaves_props fs 0 o s Hin) as (_ & _ & H). exact H.
Qed.

Lemma asize_le_sizeof fs : asize (AStruct fs) <= c_sizeof (AStruct fs).
Proof.
  cbn [asize c_sizeof]. destruct (struct_layout_matches_c fs) as [-> _].
  pose proof (pow2a_pos _ (c_align_struct_pow2 fs)) as HA.
  rewrite align_up_alt by auto.
  destruct (round_up_props (c_align_struct fs) (snd (c_struct_leaves fs 0)) HA) as (? & _). auto.
Qed.

Lemma align_up_ge x a : 0 < a -> x <= align_up x a.
Proof. intros. rewrite align_up_alt by auto. destruct (round_up_props a x H) as (? & _). auto. Qed.

(* ------------------------------------------------- the shape of an argument *)
Definition NoC7 : list class := [NoClass; NoClass; NoClass; NoClass; NoClass; NoClass; NoClass].

Lemma azero_wf t : wf_aty t -> azero t = false.
Proof.
  destruct t as [s | fs]; [reflexivity |]. intros [NE WF]. cbn [azero].
  destruct fs as [| f r]; [congruence |].
  assert (forall g, wf_fty g -> fzero g = false) as Z.
  { induction g as [s | n e IH]; cbn [fzero wf_fty]; auto. intros [Hn We].
    rewrite (IH We). destruct (N.eqb_spec n 0); [lia | reflexivity]. }
  cbn [forallb]. cbn [wf_fields] in WF. destruct WF as [Wf _]. rewrite (Z f Wf). reflexivity.
Qed.

Lemma arg_shape t : wf_aty t ->
  (exists s, t = AS s /\ classify_arg t = Ok (Some (mclass s :: NoC7))
             /\ sysv_classify t = Some [class_of_scalar s])
  \/ (exists fs, t = AStruct fs /\ classify_arg t = Ok None /\ sysv_classify t = None)
  \/ (exists fs scls cls tys, t = AStruct fs /\ classify_arg t = Ok (Some cls)
        /\ sysv_classify t = Some scls
        /\ Forall (fun c => c <> NO_CLASS) scls
        /\ count_class Int cls = count_sclass INTEGER scls
        /\ count_class Sse cls = count_sclass SSE scls
        /\ split_aggregate (asize t) cls = Ok tys
        /\ map clty_is_float tys = map (sclass_eqb SSE) scls
        /\ words_ok (c_leaves t) 0 tys).
Proof.
  intros WF. destruct t as [s | fs].
  - left. exists s. split; [reflexivity |]. destruct s; split; vm_compute; reflexivity.
  - right. destruct (sysv_classify (AStruct fs)) as [scls |] eqn:HS.
    + right.
      destruct (cast_words_cover fs scls WF HS) as (cls & tys & Hc & CM & Hsplit & (Hfl & Hoff & Hcov)).
      exists fs, scls, cls, tys.
      destruct (classes_match_inv cls scls CM) as [I1 I2].
      pose proof (need_bound (c_leaves (AStruct fs)) 0 _ (struct_leaves_bound fs)) as N0.
      pose proof (need_bound (c_leaves (AStruct fs)) 1 _ (struct_leaves_bound fs)) as N1.
      set (size := asize (AStruct fs)) in *.
      destruct (sysv_small_struct_classes fs scls WF HS)
        as [(c0 & -> & NC0 & Hs & Hp) | (c0 & c1 & -> & NC0 & NC1 & Hs)]; fold size in Hs.
      * destruct (I1 c0 eq_refl NC0) as (m0 & -> & T0).
        repeat split; auto.
        -- destruct m0, c0; cbn in T0; try congruence; reflexivity.
        -- destruct m0, c0; cbn in T0; try congruence; reflexivity.
        -- destruct tys as [| w0 [| w1 tr]]; cbn in Hoff; try discriminate.
           cbn [covered fold_right length last Nat.sub N.of_nat] in Hcov.
           cbn [words_ok]. split; [| split; [congruence | exact I]]. lia.
      * destruct (I2 c0 c1 eq_refl) as (m0 & m1 & -> & T0 & T1).
        repeat split; auto.
        -- destruct m0, c0; cbn in T0; try congruence; destruct m1, c1; cbn in T1; try congruence; reflexivity.
        -- destruct m0, c0; cbn in T0; try congruence; destruct m1, c1; cbn in T1; try congruence; reflexivity.
        -- destruct tys as [| w0 [| w1 [| w2 tr]]]; cbn in Hoff; try discriminate.
           inversion Hoff as [Hb]. 
           cbn [covered fold_right length last Nat.sub] in Hcov.
           cbn [words_ok]. change (0 + 1) with 1.
           split; [lia |]. split; [intros _; lia |]. split; [lia |]. split; [congruence | exact I].
    + left. exists fs. split; [reflexivity |].
      pose proof (classify_agrees (AStruct fs) WF) as CA. rewrite HS in CA. auto.
Qed.

(* ------------------------------------------------ one step of fn_ty_to_abi *)
Lemma abi_args_reg t r idx i s cls pm :
  azero t = false -> idx < 65536 -> classify_arg t = Ok (Some cls) ->
  count_class Int cls <= i -> count_class Sse cls <= s -> push_direct t cls = Ok pm ->
  abi_args (t :: r) idx i s =
  (do rest <- abi_args r (idx + 1) (i - count_class Int cls) (s - count_class Sse cls);
   Ok ((pm, idx) :: rest)).
Proof.
  intros Z Hi Hc H1 H2 Hp. cbn [abi_args]. rewrite Z.
  assert (65536 <=? idx = false) as -> by (apply N.leb_gt; exact Hi).
  rewrite Hc. cbn [bind].
  assert (count_class Int cls <=? i = true) as -> by (apply N.leb_le; exact H1).
  assert (count_class Sse cls <=? s = true) as -> by (apply N.leb_le; exact H2).
  cbn [andb]. rewrite Hp. cbn [bind]. reflexivity.
Qed.

Lemma abi_args_spill t r idx i s cls :
  azero t = false -> idx < 65536 -> classify_arg t = Ok (Some cls) ->
  (i < count_class Int cls \/ s < count_class Sse cls) ->
  abi_args (t :: r) idx i s =
  (do rest <- abi_args r (idx + 1) i s;
   Ok ((if is_aggregate t then Indirect (Some (next_multiple_of_8 (astride t))) else direct_of t, idx) :: rest)).
Proof.
  intros Z Hi Hc H. cbn [abi_args]. rewrite Z.
  assert (65536 <=? idx = false) as -> by (apply N.leb_gt; exact Hi).
  rewrite Hc. cbn [bind].
  assert ((count_class Int cls <=? i) && (count_class Sse cls <=? s) = false) as ->.
  { apply Bool.andb_false_iff. destruct H; [left | right]; apply N.leb_gt; auto. }
  reflexivity.
Qed.

Lemma abi_args_mem t r idx i s :
  azero t = false -> idx < 65536 -> classify_arg t = Ok None ->
  abi_args (t :: r) idx i s =
  (do rest <- abi_args r (idx + 1) i s;
   Ok ((Indirect (Some (next_multiple_of_8 (astride t))), idx) :: rest)).
Proof.
  intros Z Hi Hc. cbn [abi_args]. rewrite Z.
  assert (65536 <=? idx = false) as -> by (apply N.leb_gt; exact Hi).
  rewrite Hc. reflexivity.
Qed.

Definition step_ok (t : aty) (ni ns so : N) (pm : passmode) (ni' ns' so' : N) (sp : list piece) : Prop :=
  (forall r idx, idx < 65536 ->
     abi_args (t :: r) idx (6 - ni) (8 - ns) =
     (do rest <- abi_args r (idx + 1) (6 - ni') (8 - ns'); Ok ((pm, idx) :: rest))) /\
  (forall r idx, sysv_args (t :: r) idx ni ns so = (idx, sp) :: sysv_args r (idx + 1) ni' ns' so') /\
  cl_state (to_abiparam pm) ni ns so = (ni', ns', so') /\ ni' <= 6 /\ ns' <= 8 /\
  pieces_cover (pieces_of pm (cl_assign (to_abiparam pm) ni ns so)) sp = true /\
  match pm with Indirect (Some sz) => sz = align_up (c_sizeof t) 8 | _ => True end.

(* a struct that goes to the stack (MEMORY class or registers exhausted) *)
Lemma step_stack_struct fs ni ns so :
  wf_aty (AStruct fs) -> ni <= 6 -> ns <= 8 ->
  sysv_arg_regs (AStruct fs) ni ns = None ->
  (forall r idx, idx < 65536 ->
     abi_args (AStruct fs :: r) idx (6 - ni) (8 - ns) =
     (do rest <- abi_args r (idx + 1) (6 - ni) (8 - ns);
      Ok ((Indirect (Some (next_multiple_of_8 (astride (AStruct fs)))), idx) :: rest))) ->
  step_ok (AStruct fs) ni ns so (Indirect (Some (next_multiple_of_8 (astride (AStruct fs)))))
          ni ns (so + align_up (c_sizeof (AStruct fs)) 8)
          [(Stack so, 0, data_end (c_leaves (AStruct fs)))].
Proof.
  intros WF Hi Hs HR HA.
  assert (next_multiple_of_8 (astride (AStruct fs)) = align_up (c_sizeof (AStruct fs)) 8) as E
    by (rewrite nm8_align_up, astride_c; reflexivity).
  unfold step_ok. repeat split; auto.
  - intros r idx. cbn [sysv_args]. rewrite HR. reflexivity.
  - cbn [to_abiparam cl_state]. rewrite E. reflexivity.
  - cbn [to_abiparam cl_assign pieces_of map pieces_cover piece_covers].
    rewrite loc_eqb_refl, N.eqb_refl. cbn [andb]. rewrite Bool.andb_true_r. apply N.leb_le.
    rewrite E.
    pose proof (data_end_bound _ _ (struct_leaves_bound fs)).
    pose proof (asize_le_sizeof fs).
    pose proof (align_up_ge (c_sizeof (AStruct fs)) 8 ltac:(lia)). lia.
Qed.

(* ------------------------------------------------------------ scalars *)
Lemma sc_counts s :
  count_class Int (mclass s :: NoC7) = (if is_float_scalar s then 0 else 1) /\
  count_class Sse (mclass s :: NoC7) = (if is_float_scalar s then 1 else 0).
Proof. destruct s; split; reflexivity. Qed.

Lemma sc_final s : clty_is_float (final_ty s) = is_float_scalar s /\ clty_bytes (final_ty s) = c_size_s s.
Proof. destruct s; split; reflexivity. Qed.

Lemma sc_spec s :
  class_of_scalar s = (if is_float_scalar s then SSE else INTEGER) /\
  eightbyte_need (c_leaves (AS s)) 0 = c_size_s s /\ data_end (c_leaves (AS s)) = c_size_s s /\
  align_up (c_sizeof (AS s)) 8 = 8.
Proof. destruct s; repeat split; vm_compute; reflexivity. Qed.

Lemma step_scalar s ni ns so : ni <= 6 -> ns <= 8 ->
  exists pm ni' ns' so' sp, step_ok (AS s) ni ns so pm ni' ns' so' sp.
Proof.
  intros Hi Hs.
  destruct (arg_shape (AS s) I) as [(s0 & E & Hc & HS) | [(fs & E & _) | (fs & ? & ? & ? & E & _)]];
    try discriminate.
  inversion E; subst s0. clear E.
  destruct (sc_counts s) as [CI CS]. destruct (sc_final s) as [FF FB].
  destruct (sc_spec s) as (SC & SN & SD & SA).
  rewrite SC in HS.
  assert (Hpush : push_direct (AS s) (mclass s :: NoC7) = Ok (Direct (final_ty s))) by reflexivity.
  destruct (is_float_scalar s) eqn:FL.
  - (* SSE scalar *)
    destruct (N.ltb_spec ns 8) as [Lt | Ge].
    + exists (Direct (final_ty s)), ni, (ns + 1), so, [(RSse ns, 0, c_size_s s)].
      unfold step_ok. repeat split; try lia.
      * intros r idx Hidx.
        rewrite (abi_args_reg (AS s) r idx _ _ _ _ eq_refl Hidx Hc) by (rewrite ?CI, ?CS; try lia; exact Hpush).
        rewrite CI, CS. rewrite N.sub_0_r. replace (8 - ns - 1) with (8 - (ns + 1)) by lia. reflexivity.
      * intros r idx. cbn [sysv_args]. unfold sysv_arg_regs. rewrite HS.
        change (count_sclass INTEGER [SSE]) with 0. change (count_sclass SSE [SSE]) with 1.
        assert (ni + 0 <=? 6 = true) as -> by (apply N.leb_le; lia).
        assert (ns + 1 <=? 8 = true) as -> by (apply N.leb_le; lia).
        cbn [andb reg_pieces]. rewrite SN, N.add_0_r. reflexivity.
      * cbn [to_abiparam cl_state]. rewrite FF.
        assert (ns <? 8 = true) as -> by (apply N.ltb_lt; lia). reflexivity.
      * cbn [to_abiparam cl_assign pieces_of]. rewrite FF.
        assert (ns <? 8 = true) as -> by (apply N.ltb_lt; lia).
        cbn [map pieces_cover piece_covers]. rewrite loc_eqb_refl, N.eqb_refl, FB, N.leb_refl. reflexivity.
    + assert (ns = 8) by lia. subst ns.
      exists (Direct (final_ty s)), ni, 8, (so + 8), [(Stack so, 0, c_size_s s)].
      unfold step_ok. repeat split; try lia.
      * intros r idx Hidx.
        rewrite (abi_args_spill (AS s) r idx _ _ _ eq_refl Hidx Hc) by (right; rewrite CS; lia).
        reflexivity.
      * intros r idx. cbn [sysv_args]. unfold sysv_arg_regs. rewrite HS.
        change (count_sclass INTEGER [SSE]) with 0. change (count_sclass SSE [SSE]) with 1.
        change (8 + 1 <=? 8) with false. rewrite Bool.andb_false_r. rewrite SD, SA. reflexivity.
      * cbn [to_abiparam cl_state]. rewrite FF. reflexivity.
      * cbn [to_abiparam cl_assign pieces_of]. rewrite FF. change (8 <? 8) with false.
        cbn [map pieces_cover piece_covers]. rewrite loc_eqb_refl, N.eqb_refl, FB, N.leb_refl. reflexivity.
  - (* INTEGER scalar *)
    destruct (N.ltb_spec ni 6) as [Lt | Ge].
    + exists (Direct (final_ty s)), (ni + 1), ns, so, [(RInt ni, 0, c_size_s s)].
      unfold step_ok. repeat split; try lia.
      * intros r idx Hidx.
        rewrite (abi_args_reg (AS s) r idx _ _ _ _ eq_refl Hidx Hc) by (rewrite ?CI, ?CS; try lia; exact Hpush).
        rewrite CI, CS. rewrite N.sub_0_r. replace (6 - ni - 1) with (6 - (ni + 1)) by lia. reflexivity.
      * intros r idx. cbn [sysv_args]. unfold sysv_arg_regs. rewrite HS.
        change (count_sclass INTEGER [INTEGER]) with 1. change (count_sclass SSE [INTEGER]) with 0.
        assert (ni + 1 <=? 6 = true) as -> by (apply N.leb_le; lia).
        assert (ns + 0 <=? 8 = true) as -> by (apply N.leb_le; lia).
        cbn [andb reg_pieces]. rewrite SN, N.add_0_r. reflexivity.
      * cbn [to_abiparam cl_state]. rewrite FF.
        assert (ni <? 6 = true) as -> by (apply N.ltb_lt; lia). reflexivity.
      * cbn [to_abiparam cl_assign pieces_of]. rewrite FF.
        assert (ni <? 6 = true) as -> by (apply N.ltb_lt; lia).
        cbn [map pieces_cover piece_covers]. rewrite loc_eqb_refl, N.eqb_refl, FB, N.leb_refl. reflexivity.
    + assert (ni = 6) by lia. subst ni.
      exists (Direct (final_ty s)), 6, ns, (so + 8), [(Stack so, 0, c_size_s s)].
      unfold step_ok. repeat split; try lia.
      * intros r idx Hidx.
        rewrite (abi_args_spill (AS s) r idx _ _ _ eq_refl Hidx Hc) by (left; rewrite CI; lia).
        reflexivity.
      * intros r idx. cbn [sysv_args]. unfold sysv_arg_regs. rewrite HS.
        change (count_sclass INTEGER [INTEGER]) with 1. change (count_sclass SSE [INTEGER]) with 0.
        change (6 + 1 <=? 6) with false. cbn [andb]. rewrite SD, SA. reflexivity.
      * cbn [to_abiparam cl_state]. rewrite FF. reflexivity.
      * cbn [to_abiparam cl_assign pieces_of]. rewrite FF. change (6 <? 6) with false.
        cbn [map pieces_cover piece_covers]. rewrite loc_eqb_refl, N.eqb_refl, FB, N.leb_refl. reflexivity.
Qed.

(* ------------------------------------------------------------ structs *)
Lemma step_struct fs ni ns so : wf_aty (AStruct fs) -> ni <= 6 -> ns <= 8 ->
  exists pm ni' ns' so' sp, step_ok (AStruct fs) ni ns so pm ni' ns' so' sp.
Proof.
  intros WF Hi Hs.
  pose proof (azero_wf _ WF) as Z.
  destruct (arg_shape (AStruct fs) WF)
    as [(s0 & E & _) | [(fs0 & E & Hc & HS) | (fs0 & scls & cls & tys & E & Hc & HS & NC & CI & CS & Hsplit & Hfl & HW)]];
    try discriminate.
  - (* MEMORY *)
    do 5 eexists. apply step_stack_struct; auto.
    + unfold sysv_arg_regs. rewrite HS. reflexivity.
    + intros r idx Hidx. apply abi_args_mem; auto.
  - destruct ((ni + count_sclass INTEGER scls <=? 6) && (ns + count_sclass SSE scls <=? 8)) eqn:Fit.
    + (* all eightbytes fit into registers *)
      apply Bool.andb_true_iff in Fit. destruct Fit as [F1 F2]. apply N.leb_le in F1, F2.
      destruct (reg_sim scls tys (c_leaves (AStruct fs)) 0 ni ns so Hfl NC F1 F2 HW) as [P S].
      change (8 * 0) with 0 in P.
      exists (Cast tys), (ni + count_sclass INTEGER scls), (ns + count_sclass SSE scls), so,
             (reg_pieces (c_leaves (AStruct fs)) scls 0 ni ns).
      unfold step_ok. repeat split; auto.
      * intros r idx Hidx.
        assert (Hpush : push_direct (AStruct fs) cls = Ok (Cast tys)).
        { unfold push_direct. cbn [is_aggregate]. rewrite Hsplit. reflexivity. }
        rewrite (abi_args_reg (AStruct fs) r idx _ _ cls _ Z Hidx Hc) by (rewrite ?CI, ?CS; try lia; exact Hpush).
        rewrite CI, CS.
        replace (6 - ni - count_sclass INTEGER scls) with (6 - (ni + count_sclass INTEGER scls)) by lia.
        replace (8 - ns - count_sclass SSE scls) with (8 - (ns + count_sclass SSE scls)) by lia.
        reflexivity.
      * intros r idx. cbn [sysv_args]. unfold sysv_arg_regs. rewrite HS.
        assert (ni + count_sclass INTEGER scls <=? 6 = true) as -> by (apply N.leb_le; auto).
        assert (ns + count_sclass SSE scls <=? 8 = true) as -> by (apply N.leb_le; auto).
        reflexivity.
    + (* not enough registers: the whole struct goes to the stack *)
      assert (HR : sysv_arg_regs (AStruct fs) ni ns = None).
      { unfold sysv_arg_regs. rewrite HS, Fit. reflexivity. }
      do 5 eexists. apply step_stack_struct; auto.
      intros r idx Hidx.
      rewrite (abi_args_spill (AStruct fs) r idx _ _ cls Z Hidx Hc); [reflexivity |].
      rewrite CI, CS. apply Bool.andb_false_iff in Fit.
      destruct Fit as [F | F]; apply N.leb_gt in F; [left | right]; lia.
Qed.

Lemma step_any t ni ns so : wf_aty t -> ni <= 6 -> ns <= 8 ->
  exists pm ni' ns' so' sp, step_ok t ni ns so pm ni' ns' so' sp.
Proof.
  destruct t as [s | fs]; intros WF Hi Hs; [apply step_scalar | apply step_struct]; auto.
Qed.

(* ----------------------------------------- induction over the parameter list *)
Lemma args_sim : forall ts idx ni ns so,
  Forall wf_aty ts -> ni <= 6 -> ns <= 8 -> idx + N.of_nat (length ts) <= 65536 ->
  exists args, abi_args ts idx (6 - ni) (8 - ns) = Ok args /\
    args_cover (combine (map snd args) (place_list (map fst args) ni ns so))
               (sysv_args ts idx ni ns so) = true /\
    byval_sizes_ok ts args = true.
Proof.
  induction ts as [| t r IH]; intros idx ni ns so WF Hi Hs Hidx.
  - exists []. repeat split; reflexivity.
  - inversion WF as [| ? ? Wt Wr]; subst.
    destruct (step_any t ni ns so Wt Hi Hs) as (pm & ni' & ns' & so' & sp & HA & HSp & HSt & Hi' & Hs' & HP & HB).
    cbn [length] in Hidx.
    destruct (IH (idx + 1) ni' ns' so' Wr Hi' Hs' ltac:(lia)) as (rest & HR & HC & HBV).
    exists ((pm, idx) :: rest). split; [| split].
    + rewrite HA by lia. rewrite HR. reflexivity.
    + cbn [map fst snd combine place_list]. rewrite HSt, HSp.
      cbn [args_cover]. rewrite N.eqb_refl, HP, HC. reflexivity.
    + destruct pm as [tys | ty | [sz |]]; cbn [byval_sizes_ok]; auto.
      rewrite HB, N.eqb_refl, HBV. reflexivity.
Qed.

Definition wf_rty (r : rty) : Prop := match r with RVoid => True | RT t => wf_aty t end.

Definition is_sret (rm : option passmode) : bool :=
  match rm with Some (Indirect _) => true | _ => false end.

Lemma place_args rm args :
  pl_args (place {| fa_args := args; fa_ret := rm |}) =
  combine (map snd args) (place_list (map fst args) (if is_sret rm then 1 else 0) 0 0)
  /\ pl_sret (place {| fa_args := args; fa_ret := rm |}) = is_sret rm.
Proof.
  unfold place, to_cl. cbn [fa_args fa_ret].
  destruct rm as [[tys | ty | sz] |]; cbn [is_sret pl_args pl_sret app];
    rewrite ?flat_map_fst; try (rewrite split_locs_place; split; reflexivity).
  cbn [cl_assign]. change (0 <? 6) with true. cbn [tl]. change (0 + 1) with 1.
  rewrite split_locs_place. split; reflexivity.
Qed.

Lemma place_ret rm args :
  pl_ret (place {| fa_args := args; fa_ret := rm |}) =
  match rm with
  | Some (Cast tys) => map word_piece (combine (cl_ret_assign tys 0 0) (word_offsets 0 tys))
  | Some (Direct t) => map (fun l => (l, 0, clty_bytes t)) (cl_ret_assign [t] 0 0)
  | _ => []
  end.
Proof. unfold place, to_cl. cbn [fa_args fa_ret]. destruct rm as [[tys | ty | sz] |]; reflexivity. Qed.

(* ------------------------------------------------------------ the theorem *)
Lemma finish ts ret rm args spec_ret :
  sysv_place ts ret = {| pl_sret := is_sret rm; pl_ret := spec_ret;
                         pl_args := sysv_args ts 0 (if is_sret rm then 1 else 0) 0 0 |} ->
  args_cover (combine (map snd args) (place_list (map fst args) (if is_sret rm then 1 else 0) 0 0))
             (sysv_args ts 0 (if is_sret rm then 1 else 0) 0 0) = true ->
  byval_sizes_ok ts args = true ->
  pieces_cover (pl_ret (place {| fa_args := args; fa_ret := rm |})) spec_ret = true ->
  abi_ok ts ret {| fa_args := args; fa_ret := rm |} = true.
Proof.
  intros HS HA HB HR. unfold abi_ok, placement_covers. rewrite HS. cbn [pl_sret pl_ret pl_args fa_args].
  destruct (place_args rm args) as [-> ->]. rewrite HR, HA, HB.
  destruct (is_sret rm); reflexivity.
Qed.

Theorem passmode_agrees ts ret :
  Forall wf_aty ts -> wf_rty ret -> N.of_nat (length ts) <= 65536 ->
  exists a, fn_ty_to_abi ts ret = Ok a /\ abi_ok ts ret a = true.
Proof.
  intros WF WR Hlen. unfold fn_ty_to_abi.
  destruct ret as [| t].
  - (* void *)
    destruct (args_sim ts 0 0 0 0 WF ltac:(lia) ltac:(lia) ltac:(lia)) as (args & HA & HC & HB).
    change (6 - 0) with 6 in HA. change (8 - 0) with 8 in HA.
    cbn [bind]. rewrite HA. cbn [bind]. eexists; split; [reflexivity |].
    apply (finish ts RVoid None args []); auto.
  - cbn [wf_rty] in WR. rewrite (azero_wf t WR).
    destruct (arg_shape t WR)
      as [(s & -> & Hc & HS) | [(fs & -> & Hc & HS) | (fs & scls & cls & tys & -> & Hc & HS & NC & CI & CS & Hsplit & Hfl & HW)]].
    + (* scalar in rax / xmm0 *)
      destruct (args_sim ts 0 0 0 0 WF ltac:(lia) ltac:(lia) ltac:(lia)) as (args & HA & HC & HB).
      change (6 - 0) with 6 in HA. change (8 - 0) with 8 in HA.
      rewrite Hc. cbn [bind is_aggregate direct_of]. rewrite HA. cbn [bind]. eexists; split; [reflexivity |].
      apply (finish ts (RT (AS s)) (Some (Direct (final_ty s))) args
                    (reg_pieces (c_leaves (AS s)) [class_of_scalar s] 0 0 0)); auto.
      * unfold sysv_place. rewrite HS. reflexivity.
      * rewrite place_ret. destruct s; vm_compute; reflexivity.
    + (* MEMORY: hidden pointer in rdi *)
      destruct (args_sim ts 0 1 0 0 WF ltac:(lia) ltac:(lia) ltac:(lia)) as (args & HA & HC & HB).
      change (6 - 1) with 5 in HA. change (8 - 0) with 8 in HA.
      rewrite Hc. cbn [bind]. rewrite HA. cbn [bind]. eexists; split; [reflexivity |].
      apply (finish ts (RT (AStruct fs)) (Some (Indirect (Some (asize (AStruct fs))))) args []); auto.
      unfold sysv_place. rewrite HS. reflexivity.
    + (* struct in registers *)
      destruct (args_sim ts 0 0 0 0 WF ltac:(lia) ltac:(lia) ltac:(lia)) as (args & HA & HC & HB).
      change (6 - 0) with 6 in HA. change (8 - 0) with 8 in HA.
      rewrite Hc. cbn [bind is_aggregate]. rewrite Hsplit. cbn [bind]. rewrite HA. cbn [bind].
      eexists; split; [reflexivity |].
      apply (finish ts (RT (AStruct fs)) (Some (Cast tys)) args
                    (reg_pieces (c_leaves (AStruct fs)) scls 0 0 0)); auto.
      * unfold sysv_place. rewrite HS. reflexivity.
      * rewrite place_ret.
        pose proof (ret_sim scls tys (c_leaves (AStruct fs)) 0 0 0 Hfl NC HW) as R.
        change (8 * 0) with 0 in R. exact R.
Qed.

(* --------------------------------------------- reads of the source object *)
Lemma sum_bytes_covered tys : sum_bytes tys = covered tys.
Proof. reflexivity. Qed.

(* as the code is: a register-passed struct is over-read exactly by rem_over *)
Lemma caller_read_cast fs scls :
  wf_aty (AStruct fs) -> sysv_classify (AStruct fs) = Some scls ->
  exists cls tys, classify_arg (AStruct fs) = Ok (Some cls) /\
    split_aggregate (asize (AStruct fs)) cls = Ok tys /\
    caller_read (Cast tys) = asize (AStruct fs)
      + rem_over (asize (AStruct fs) - 8 * N.of_nat (length scls - 1)) (last scls NO_CLASS).
Proof.
  intros WF HS. destruct (cast_words_cover fs scls WF HS) as (cls & tys & H1 & _ & H2 & (_ & _ & H3)).
  exists cls, tys. repeat split; auto.
Qed.

Definition reads_within_full : Prop :=
  forall fs scls cls tys, wf_aty (AStruct fs) -> sysv_classify (AStruct fs) = Some scls ->
    classify_arg (AStruct fs) = Ok (Some cls) -> split_aggregate (asize (AStruct fs)) cls = Ok tys ->
    caller_read (Cast tys) <= asize (AStruct fs).

Lemma reads_within_full_refuted : ~ reads_within_full.
Proof.
  intros H.
  assert (wf_aty (AStruct [FA 3 (FS I8)])) as W.
  { split; [discriminate |]. cbn. split; [split; [lia | exact I] | exact I]. }
  assert (sysv_classify (AStruct [FA 3 (FS I8)]) = Some [INTEGER]) as E1 by (vm_compute; reflexivity).
  assert (classify_arg (AStruct [FA 3 (FS I8)])
          = Ok (Some [Int; NoClass; NoClass; NoClass; NoClass; NoClass; NoClass; NoClass])) as E2
    by (vm_compute; reflexivity).
  assert (split_aggregate (asize (AStruct [FA 3 (FS I8)]))
            [Int; NoClass; NoClass; NoClass; NoClass; NoClass; NoClass; NoClass] = Ok [CI32]) as E3
    by (vm_compute; reflexivity).
  pose proof (H _ _ _ _ W E1 E2 E3) as K. vm_compute in K. apply K. reflexivity.
Qed.

(* the by-value stack copy reads the 8-rounded C size: beyond the object whenever the
   data size is not a multiple of 8 *)
Lemma caller_read_byval fs :
  caller_read (Indirect (Some (next_multiple_of_8 (astride (AStruct fs)))))
  = align_up (c_sizeof (AStruct fs)) 8
  /\ asize (AStruct fs) <= align_up (c_sizeof (AStruct fs)) 8.
Proof.
  cbn [caller_read]. rewrite nm8_align_up, astride_c. split; [reflexivity |].
  pose proof (asize_le_sizeof fs). pose proof (align_up_ge (c_sizeof (AStruct fs)) 8 ltac:(lia)). lia.
Qed.

(* with the fix candidate no pass mode reads past the object, for every signature *)
Lemma caller_read_fixed_within pm size : caller_read_fixed pm size <= size.
Proof. unfold caller_read_fixed. destruct (N.ltb_spec size (caller_read pm)); lia. Qed.
