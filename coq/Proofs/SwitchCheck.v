(* C11 — proofs about the switch checker (Model/Switch.v check_switch) against
   the specification (Spec/SwitchSpec.v accepted_spec). *)
From Capy Require Import Common.Util Model.Switch Spec.SwitchSpec.

(* ------------------------------------------------------------- equalities *)
Lemma repr_eqb_eq : forall a b, repr_eqb a b = true <-> a = b.
Proof. intros [] []; cbn; split; intros; try discriminate; auto. Qed.

Lemma aty_eqb_eq : forall a b, aty_eqb a b = true <-> a = b.
Proof.
  intros [|u|i r] [|u'|i' r']; cbn; split; intros H; try discriminate; auto.
  - apply N.eqb_eq in H. subst. reflexivity.
  - inversion H. apply N.eqb_refl.
  - apply andb_true_iff in H. destruct H as [H1 H2]. apply N.eqb_eq in H1. apply repr_eqb_eq in H2. subst. reflexivity.
  - inversion H; subst. rewrite N.eqb_refl.
    replace (repr_eqb r' r') with true by (symmetry; apply repr_eqb_eq; reflexivity). reflexivity.
Qed.

Lemma variant_eqb_eq : forall a b, variant_eqb a b = true <-> a = b.
Proof.
  intros [e n u s sn r d] [e' n' u' s' sn' r' d']. unfold variant_eqb. cbn [v_euid v_name v_uid v_sub v_sub_nil v_repr v_discr].
  split.
  - intros H. repeat (apply andb_true_iff in H; destruct H as [H ?]).
    apply N.eqb_eq in H. apply N.eqb_eq in H0. apply repr_eqb_eq in H1. apply Bool.eqb_prop in H2.
    apply N.eqb_eq in H3. apply N.eqb_eq in H4. apply N.eqb_eq in H5. subst. reflexivity.
  - intros H. inversion H; subst. rewrite !N.eqb_refl, Bool.eqb_reflx.
    replace (repr_eqb r' r') with true by (symmetry; apply repr_eqb_eq; reflexivity). reflexivity.
Qed.

Lemma vty_eqb_eq : forall a b, vty_eqb a b = true <-> a = b.
Proof.
  intros [x|x] [y|y]; cbn; split; intros H; try discriminate.
  - apply aty_eqb_eq in H. subst. reflexivity.
  - inversion H. apply aty_eqb_eq. reflexivity.
  - apply variant_eqb_eq in H. subst. reflexivity.
  - inversion H. apply variant_eqb_eq. reflexivity.
Qed.

Lemma vty_eqb_refl : forall a, vty_eqb a a = true.
Proof. intros. apply vty_eqb_eq. reflexivity. Qed.

Lemma mem_nat_In : forall x l, mem_nat x l = true <-> In x l.
Proof.
  intros x l. unfold mem_nat. rewrite existsb_exists. split.
  - intros [y [Hy He]]. apply Nat.eqb_eq in He. subst. exact Hy.
  - intros H. exists x. split; [exact H | apply Nat.eqb_refl].
Qed.

Lemma mem_nat_false : forall x l, mem_nat x l = false <-> ~ In x l.
Proof.
  intros x l. rewrite <- mem_nat_In. destruct (mem_nat x l); split; intros; try discriminate; auto.
  exfalso. apply H. reflexivity.
Qed.

(* ---------------------------------------------------------- find_variant *)
Definition matchb (vt : vty) (a : arm) : bool :=
  match a with
  | AFull t => vty_eqb vt t
  | AShort n => match vt with TV v => N.eqb (v_name v) n | TA _ => false end
  | ANotType => false
  end.

(* matches_arm cannot panic on these members *)
Definition arm_ok (vts : list vty) (a : arm) : Prop :=
  match a with
  | AFull _ => True
  | AShort _ => Forall (fun vt => exists v, vt = TV v) vts
  | ANotType => False
  end.

Fixpoint find_index {A} (p : A -> bool) (l : list A) (k : nat) : option nat :=
  match l with
  | [] => None
  | x :: r => if p x then Some k else find_index p r (S k)
  end.

Lemma find_variant_pure : forall vts k a,
  arm_ok vts a -> find_variant vts k a = Ok (find_index (fun vt => matchb vt a) vts k).
Proof.
  induction vts as [|vt r IH]; intros k a Hok; cbn [find_variant find_index]; auto.
  destruct a as [n|t|]; cbn [arm_ok] in Hok.
  - inversion Hok as [|? ? [v Hv] Hr]; subst. cbn [matches_arm matchb]. unfold bind.
    destruct (N.eqb (v_name v) n); auto. apply IH. exact Hr.
  - cbn [matches_arm matchb]. unfold bind. destruct (vty_eqb vt t); auto. apply IH. exact I.
  - destruct Hok.
Qed.

Lemma find_index_some : forall A (p : A -> bool) l k j,
  find_index p l k = Some j ->
  k <= j /\ exists x, nth_error l (j - k) = Some x /\ p x = true /\
    forall i y, i < j - k -> nth_error l i = Some y -> p y = false.
Proof.
  induction l as [|x r IH]; intros k j H; cbn [find_index] in H; [discriminate|].
  destruct (p x) eqn:Hp.
  - inversion H; subst. split; [lia|]. exists x. rewrite Nat.sub_diag. cbn. repeat split; auto. intros; lia.
  - apply IH in H. destruct H as (Hle & y & Hn & Hy & Hall). split; [lia|].
    exists y. replace (j - k) with (S (j - S k)) by lia. cbn [nth_error]. repeat split; auto.
    intros i z Hi Hz. destruct i as [|i]; cbn in Hz.
    + inversion Hz; subst. exact Hp.
    + apply (Hall i z); [lia | exact Hz].
Qed.

Lemma find_index_intro : forall A (p : A -> bool) l k i x,
  nth_error l i = Some x -> p x = true ->
  (forall i' y, i' < i -> nth_error l i' = Some y -> p y = false) ->
  find_index p l k = Some (k + i).
Proof.
  induction l as [|a r IH]; intros k i x Hn Hp Hall; [destruct i; discriminate|].
  cbn [find_index]. destruct i as [|i]; cbn in Hn.
  - inversion Hn; subst. rewrite Hp. f_equal. lia.
  - rewrite (Hall 0 a) by (cbn; auto; lia).
    rewrite (IH (S k) i x Hn Hp).
    + f_equal. lia.
    + intros i' y Hi Hy. apply (Hall (S i') y); [lia | exact Hy].
Qed.

(* ---------------------------------------------------------------- resolve *)
Definition resolvable (sh : shape) (a : arm) : bool :=
  match a with
  | AFull t => has_sum_variant sh t
  | AShort n => match sh with
                | SEnum _ vs => existsb (fun v => N.eqb (v_name v) n) vs
                | _ => false
                end
  | ANotType => false
  end.

Lemma resolve_unwrapped : forall sh arms i,
  exists ds, resolve (mkScrut [] sh) i arms = Ok ds /\
             (ds = [] <-> forallb (resolvable sh) arms = true).
Proof.
  induction arms as [|a r IH]; intros i; cbn [resolve forallb].
  - exists []. split; [reflexivity | tauto].
  - destruct (IH (S i)) as (ds & Hds & Hiff).
    assert (Ha : exists d, resolve_arm (mkScrut [] sh) i a = Ok d /\ (d = [] <-> resolvable sh a = true)).
    { destruct a as [n|t|]; cbn [resolve_arm resolvable s_shape].
      - destruct sh as [uid vs|sub|e p|]; cbn [wrapped s_wraps];
          try (eexists; split; [reflexivity | split; intros; discriminate]).
        destruct (existsb (fun v => N.eqb (v_name v) n) vs);
          eexists; (split; [reflexivity|]); split; intros; auto; discriminate.
      - destruct (has_sum_variant sh t); eexists; (split; [reflexivity|]); split; intros; auto; discriminate.
      - eexists; split; [reflexivity | split; intros; discriminate]. }
    destruct Ha as (d & Hd & Hdiff). rewrite Hd. unfold bind at 1. rewrite Hds. unfold bind.
    exists (d ++ ds). split; [reflexivity|]. rewrite andb_true_iff, <- Hdiff, <- Hiff.
    split.
    + intros H. apply app_eq_nil in H. exact H.
    + intros [-> ->]. reflexivity.
Qed.

(* ------------------------------------------------------------------ cover *)
Definition finds (vts : list vty) (a : arm) (j : nat) : Prop :=
  find_variant vts 0 a = Ok (Some j).

Lemma cover_spec : forall vts arms js,
  Forall2 (finds vts) arms js ->
  forall seen i, exists ds seen', cover vts seen i arms = Ok (ds, seen') /\
    (forall x, In x seen' <-> In x js \/ In x seen) /\
    (ds = [] <-> NoDup js /\ forall j, In j js -> ~ In j seen).
Proof.
  induction 1 as [|a j arms js Hf HF IH]; intros seen i; cbn [cover].
  - exists [], seen. split; [reflexivity|]. split; [intros; cbn; tauto|].
    split; [intros _; split; [constructor | intros j []] | reflexivity].
  - unfold finds in Hf. rewrite Hf. unfold bind at 1.
    destruct (mem_nat j seen) eqn:Hm.
    + destruct (IH seen (S i)) as (ds & seen' & Hc & Hs & Hd). rewrite Hc. unfold bind. cbn [fst snd].
      exists (DAlready i :: ds), seen'. split; [reflexivity|]. split.
      * intros x. rewrite Hs. cbn [In]. apply mem_nat_In in Hm. split; [tauto|].
        intros [[->|H]|H]; auto.
      * split; [discriminate|]. intros [_ Hn]. exfalso. apply (Hn j); [left; reflexivity|].
        apply mem_nat_In. exact Hm.
    + destruct (IH (j :: seen) (S i)) as (ds & seen' & Hc & Hs & Hd).
      exists ds, seen'. split; [exact Hc|]. apply mem_nat_false in Hm. split.
      * intros x. rewrite Hs. cbn [In]. split; intros; intuition (subst; auto).
      * rewrite Hd. split.
        -- intros [Hn Hdis]. split.
           ++ constructor; auto. intros Hin. apply (Hdis j Hin). left. reflexivity.
           ++ intros x [->|Hx]; auto. intros Hc'. apply (Hdis x Hx). right. exact Hc'.
        -- intros [Hn Hdis]. inversion Hn; subst. split; auto.
           intros x Hx [->|Hc']; auto. apply (Hdis x); [right; exact Hx | exact Hc'].
Qed.

Lemma cover_inv : forall vts arms seen i x,
  cover vts seen i arms = Ok x -> exists js, Forall2 (finds vts) arms js.
Proof.
  induction arms as [|a r IH]; intros seen i x H; cbn [cover] in H.
  - exists []. constructor.
  - destruct (find_variant vts 0 a) as [[j|]| |] eqn:Hf; cbn [bind] in H; try discriminate.
    destruct (mem_nat j seen).
    + destruct (cover vts seen (S i) r) as [y| |] eqn:Hc; cbn [bind] in H; try discriminate.
      destruct (IH _ _ _ Hc) as [js Hjs]. exists (j :: js). constructor; auto.
    + destruct (IH _ _ _ H) as [js Hjs]. exists (j :: js). constructor; auto.
Qed.

Lemma missing_nil : forall n seen,
  missing n seen = [] <-> forall j, j < n -> In j seen.
Proof.
  intros n seen. unfold missing. split.
  - intros H j Hj. apply map_eq_nil in H.
    destruct (mem_nat j seen) eqn:Hm; [apply mem_nat_In; exact Hm|].
    assert (Hin : In j (filter (fun j0 => negb (mem_nat j0 seen)) (seq 0 n))).
    { apply filter_In. split; [apply in_seq; lia | rewrite Hm; reflexivity]. }
    rewrite H in Hin. destruct Hin.
  - intros H.
    assert (Hf : filter (fun j0 => negb (mem_nat j0 seen)) (seq 0 n) = []).
    { destruct (filter (fun j0 => negb (mem_nat j0 seen)) (seq 0 n)) as [|y l] eqn:E; auto.
      assert (Hin : In y (y :: l)) by (left; reflexivity). rewrite <- E in Hin.
      apply filter_In in Hin. destruct Hin as [Hs Hm]. apply in_seq in Hs.
      assert (In y seen) by (apply H; lia). apply mem_nat_In in H0. rewrite H0 in Hm. discriminate. }
    rewrite Hf. reflexivity.
Qed.

(* ----------------------------------------------- names <-> find_variant *)
Lemma enum_variants_TV : forall uid vs, Forall (fun vt => exists v, vt = TV v) (variants_of (SEnum uid vs)).
Proof. intros. cbn. apply Forall_forall. intros x Hx. apply in_map_iff in Hx. destruct Hx as [v [<- _]]. eauto. Qed.

Lemma in_variants_has_sum_variant : forall sh vt,
  In vt (variants_of sh) -> has_sum_variant sh vt = true.
Proof.
  intros [uid vs|sub|e p|] vt Hin; cbn in *.
  - apply existsb_exists. apply in_map_iff in Hin. destruct Hin as [v [<- Hv]].
    exists v. split; auto. apply (vty_eqb_refl (TV v)).
  - destruct Hin as [<-|[<-|[]]]; [rewrite vty_eqb_refl; reflexivity | cbn; apply orb_true_r].
  - destruct Hin as [<-|[<-|[]]]; rewrite vty_eqb_refl; auto. apply orb_true_r.
  - destruct Hin.
Qed.

(* from the checker to the specification *)
Lemma finds_names : forall sh a j,
  resolvable sh a = true -> finds (variants_of sh) a j -> names sh a j.
Proof.
  intros sh a j Hr Hf. unfold finds in Hf.
  destruct a as [n|t|]; cbn [resolvable] in Hr; try discriminate.
  - destruct sh as [uid vs|sub|e p|]; try discriminate.
    rewrite find_variant_pure in Hf by (cbn [arm_ok]; apply enum_variants_TV).
    inversion Hf as [Hf']. apply find_index_some in Hf'. destruct Hf' as (_ & x & Hn & Hp & _).
    rewrite Nat.sub_0_r in Hn. exists x. split; auto. right. split; [reflexivity|].
    cbn [matchb] in Hp. destruct x as [a|v]; [discriminate|]. apply N.eqb_eq in Hp. subst n. eauto.
  - rewrite find_variant_pure in Hf by exact I.
    inversion Hf as [Hf']. apply find_index_some in Hf'. destruct Hf' as (_ & x & Hn & Hp & _).
    rewrite Nat.sub_0_r in Hn. cbn [matchb] in Hp. apply vty_eqb_eq in Hp. subst t.
    exists x. split; auto.
Qed.

Lemma NoDup_map_nth : forall A B (f : A -> B) l i j x y,
  NoDup (map f l) -> nth_error l i = Some x -> nth_error l j = Some y -> f x = f y -> i = j.
Proof.
  intros A B f l i j x y Hn Hi Hj Hf.
  assert (Hi' : nth_error (map f l) i = Some (f x)) by (apply map_nth_error; exact Hi).
  assert (Hj' : nth_error (map f l) j = Some (f y)) by (apply map_nth_error; exact Hj).
  rewrite Hf in Hi'. rewrite NoDup_nth_error in Hn. apply Hn.
  - apply nth_error_Some. rewrite Hi'. discriminate.
  - rewrite Hi', Hj'. reflexivity.
Qed.

(* from the specification to the checker *)
Lemma names_finds : forall sh a j,
  wf_shape sh -> names sh a j -> resolvable sh a = true /\ finds (variants_of sh) a j.
Proof.
  intros sh a j (Hns & Hnd & Hen) (vt & Hn & [Ha|(He & v & Hv & Ha)]); subst a.
  - split.
    + cbn [resolvable]. apply in_variants_has_sum_variant. eapply nth_error_In; eauto.
    + unfold finds. rewrite find_variant_pure by exact I.
      rewrite (find_index_intro _ _ _ 0 j vt Hn); [reflexivity | apply vty_eqb_refl |].
      intros i' y Hi Hy. cbn [matchb]. destruct (vty_eqb y vt) eqn:E; auto.
      apply vty_eqb_eq in E. subst y.
      rewrite NoDup_nth_error in Hnd. assert (i' = j); [|lia].
      apply Hnd; [apply nth_error_Some; rewrite Hy; discriminate | rewrite Hy, Hn; reflexivity].
  - destruct sh as [uid vs|sub|e p|]; try discriminate. destruct Hen as [Hnames _]. subst vt.
    cbn [variants_of] in Hn.
    assert (Hv : nth_error vs j = Some v).
    { rewrite nth_error_map in Hn. destruct (nth_error vs j); inversion Hn; subst; reflexivity. }
    split.
    + cbn [resolvable]. apply existsb_exists. exists v. split; [eapply nth_error_In; eauto | apply N.eqb_refl].
    + unfold finds. rewrite find_variant_pure by (cbn [arm_ok]; apply enum_variants_TV).
      cbn [variants_of].
      rewrite (find_index_intro _ _ _ 0 j (TV v) Hn); [reflexivity | cbn; apply N.eqb_refl |].
      intros i' y Hi Hy. rewrite nth_error_map in Hy.
      destruct (nth_error vs i') as [w|] eqn:Hw; inversion Hy; subst y. cbn [matchb].
      destruct (N.eqb (v_name w) (v_name v)) eqn:E; auto. apply N.eqb_eq in E.
      assert (i' = j); [|lia]. eapply (NoDup_map_nth _ _ v_name vs i' j w v); eauto.
Qed.

(* ------------------------------------------------------- the main theorem *)
Theorem check_accepts_iff : forall sh arms dflt,
  wf_shape sh ->
  (check_switch (mkScrut [] sh) arms dflt = Ok [] <-> accepted_spec sh arms dflt).
Proof.
  intros sh arms dflt Hwf. pose proof Hwf as (Hns & _ & _).
  unfold check_switch. cbn [s_shape].
  assert (Hbody :
    (do ds <- resolve (mkScrut [] sh) 0 arms;
     match ds with
     | _ :: _ => Ok ds
     | [] => if wrapped (mkScrut [] sh) then Crash 2053
             else do x <- cover (variants_of sh) [] 0 arms;
                  Ok (fst x ++ (if dflt then [] else missing (length (variants_of sh)) (snd x)))
     end) = Ok [] <-> accepted_spec sh arms dflt).
  { destruct (resolve_unwrapped sh arms 0) as (ds & Hres & Hiff). rewrite Hres. unfold bind at 1.
    cbn [wrapped s_wraps]. split.
    - (* checker accepts -> specification accepts *)
      intros H. destruct ds as [|d0 ds0]; [|inversion H].
      assert (Hall : forallb (resolvable sh) arms = true) by (apply Hiff; reflexivity).
      destruct (cover (variants_of sh) [] 0 arms) as [x| |] eqn:Hc; cbn [bind] in H; try discriminate.
      destruct (cover_inv _ _ _ _ _ Hc) as [js Hjs].
      destruct (cover_spec _ _ _ Hjs [] 0) as (dd & seen' & Hc' & Hs & Hd).
      rewrite Hc in Hc'. inversion Hc'; subst x. cbn [fst snd] in H.
      inversion H as [H']. apply app_eq_nil in H'. destruct H' as [Hdd Hmiss].
      exists js. split; [|split].
      + rewrite forallb_forall in Hall. clear - Hjs Hall.
        induction Hjs as [|a j arms js Hf HF IH]; constructor.
        * apply finds_names; [apply Hall; left; reflexivity | exact Hf].
        * apply IH. intros x Hx. apply Hall. right. exact Hx.
      + apply Hd. exact Hdd.
      + destruct dflt; [left; reflexivity | right].
        intros j Hj. apply missing_nil with (j := j) in Hmiss; [|exact Hj].
        apply Hs in Hmiss. destruct Hmiss as [Hin|[]]. exact Hin.
    - (* specification accepts -> checker accepts *)
      intros (js & HF & Hnd & Hcov).
      assert (Hall : forallb (resolvable sh) arms = true /\ Forall2 (finds (variants_of sh)) arms js).
      { clear - HF Hwf. induction HF as [|a j arms js Hn HF IH]; [split; [reflexivity | constructor]|].
        destruct IH as [IH1 IH2]. destruct (names_finds sh a j Hwf Hn) as [Hr Hf].
        split; [cbn [forallb]; rewrite Hr, IH1; reflexivity | constructor; auto]. }
      destruct Hall as [Hall Hfinds].
      apply Hiff in Hall. subst ds.
      destruct (cover_spec _ _ _ Hfinds [] 0) as (dd & seen' & Hc & Hs & Hd).
      rewrite Hc. cbn [bind fst snd].
      assert (Hdd : dd = []) by (apply Hd; split; [exact Hnd | intros j _ []]).
      subst dd. cbn [app]. destruct Hcov as [->|Hcov]; [reflexivity|].
      destruct dflt; [reflexivity|]. f_equal. apply missing_nil. intros j Hj. apply Hs. left. apply Hcov. exact Hj. }
  destruct sh; try exact Hbody. exfalso. apply Hns. reflexivity.
Qed.

(* ------------------------------------------------ no panic outside the known classes *)
Lemma resolve_no_crash_unwrapped_or_nonsum : forall s arms i,
  (wrapped s = false \/ is_sum_shape (s_shape s) = false) ->
  exists ds, resolve s i arms = Ok ds /\
             (ds = [] <-> forallb (resolvable (s_shape s)) arms = true).
Proof.
  intros [ws sh] arms i H. cbn [s_shape] in *.
  destruct ws as [|w ws].
  - apply resolve_unwrapped.
  - destruct H as [H|H]; [discriminate|]. destruct sh; try discriminate. cbn in H.
    (* non-sum shape: no arm can crash *)
    revert i. induction arms as [|a r IH]; intros i; cbn [resolve forallb].
    + exists []. split; [reflexivity | tauto].
    + destruct (IH (S i)) as (ds & Hds & Hiff).
      destruct a as [n|t|]; cbn [resolve_arm s_shape has_sum_variant]; unfold bind at 1; rewrite Hds; unfold bind;
        eexists; (split; [reflexivity|]); cbn [resolvable has_sum_variant andb]; split; intros; discriminate.
Qed.

(* all arms resolvable, no nil-like arm: every arm finds its variant *)
Lemma resolvable_finds : forall sh a,
  resolvable sh a = true -> nil_like_arm sh a = false ->
  exists j, finds (variants_of sh) a j.
Proof.
  intros sh a Hr Hnl. unfold finds.
  destruct a as [n|t|]; cbn [resolvable] in Hr; try discriminate.
  - destruct sh as [uid vs|sub|e p|]; try discriminate.
    rewrite find_variant_pure by (cbn [arm_ok]; apply enum_variants_TV).
    apply existsb_exists in Hr. destruct Hr as (v & Hin & Hname).
    destruct (In_nth_error _ _ Hin) as [i Hi].
    assert (Hi' : nth_error (variants_of (SEnum uid vs)) i = Some (TV v)) by (cbn; apply map_nth_error; exact Hi).
    destruct (find_index (fun vt => matchb vt (AShort n)) (variants_of (SEnum uid vs)) 0) as [j|] eqn:E; [eauto|].
    exfalso. clear - E Hi' Hname. revert E Hi'. generalize 0. generalize (variants_of (SEnum uid vs)).
    intros l. revert i. induction l as [|x r IH]; intros i k E Hi; [destruct i; discriminate|].
    cbn [find_index] in E. destruct i as [|i]; cbn in Hi.
    + inversion Hi; subst x. cbn [matchb] in E. rewrite Hname in E. discriminate.
    + destruct (matchb x (AShort n)); [discriminate|]. eapply IH; eauto.
  - rewrite find_variant_pure by exact I.
    assert (Hex : exists i vt, nth_error (variants_of sh) i = Some vt /\ vty_eqb vt t = true).
    { destruct sh as [uid vs|sub|e p|]; cbn [has_sum_variant] in Hr; cbn [variants_of].
      - apply existsb_exists in Hr. destruct Hr as (v & Hin & He).
        destruct (In_nth_error _ _ Hin) as [i Hi]. exists i, (TV v). split; [apply map_nth_error; exact Hi | exact He].
      - cbn [nil_like_arm] in Hnl.
        destruct (vty_eqb t sub) eqn:E1.
        + exists 0, sub. split; [reflexivity|]. apply vty_eqb_eq in E1. subst. apply vty_eqb_refl.
        + cbn [orb] in Hr. rewrite Hr in Hnl. cbn [andb negb] in Hnl.
          destruct (vty_eqb t (TA ANil)) eqn:E2; [|discriminate].
          exists 1, (TA ANil). split; [reflexivity|]. apply vty_eqb_eq in E2. subst. reflexivity.
      - apply orb_true_iff in Hr. destruct Hr as [E|E]; apply vty_eqb_eq in E; subst t.
        + exists 0, e. split; [reflexivity | apply vty_eqb_refl].
        + exists 1, p. split; [reflexivity | apply vty_eqb_refl].
      - discriminate. }
    destruct Hex as (i & vt & Hi & He).
    destruct (find_index (fun vt0 => matchb vt0 (AFull t)) (variants_of sh) 0) as [j|] eqn:E; [eauto|].
    exfalso. clear - E Hi He. revert E Hi. generalize 0. generalize (variants_of sh).
    intros l. revert i. induction l as [|x r IH]; intros i k E Hi; [destruct i; discriminate|].
    cbn [find_index] in E. destruct i as [|i]; cbn in Hi.
    + inversion Hi; subst x. cbn [matchb] in E. rewrite He in E. discriminate.
    + destruct (matchb x (AFull t)); [discriminate|]. eapply IH; eauto.
Qed.

Lemma all_find : forall sh arms,
  forallb (resolvable sh) arms = true -> existsb (nil_like_arm sh) arms = false ->
  exists js, Forall2 (finds (variants_of sh)) arms js.
Proof.
  intros sh. induction arms as [|a r IH]; intros Hall Hnl.
  - exists []. constructor.
  - cbn [forallb existsb] in Hall, Hnl. apply andb_true_iff in Hall. destruct Hall as [Ha Hr].
    apply orb_false_iff in Hnl. destruct Hnl as [Hna Hnr].
    destruct (IH Hr Hnr) as [js Hjs]. destruct (resolvable_finds _ a Ha Hna) as [j Hj].
    exists (j :: js). constructor; auto.
Qed.

Theorem check_total_except_known : forall s arms dflt,
  known_check_class s arms = None ->
  exists ds, check_switch s arms dflt = Ok ds.
Proof.
  intros [ws sh] arms dflt Hk. unfold known_check_class in Hk. cbn [s_shape] in Hk.
  destruct (wrapped (mkScrut ws sh) && is_sum_shape sh) eqn:Hw; [discriminate|].
  destruct (existsb (nil_like_arm sh) arms) eqn:Hnl; [discriminate|]. clear Hk.
  destruct (is_sum_shape sh) eqn:Hsum.
  - rewrite andb_true_r in Hw. destruct ws as [|w ws]; [|discriminate]. clear Hw.
    unfold check_switch. cbn [s_shape].
    assert (Hbody : exists r,
      (do ds <- resolve (mkScrut [] sh) 0 arms;
       match ds with
       | _ :: _ => Ok ds
       | [] => if wrapped (mkScrut [] sh) then Crash 2053
               else do x <- cover (variants_of sh) [] 0 arms;
                    Ok (fst x ++ (if dflt then [] else missing (length (variants_of sh)) (snd x)))
       end) = Ok r).
    { destruct (resolve_unwrapped sh arms 0) as (ds & Hres & Hiff). rewrite Hres. unfold bind at 1.
      destruct ds as [|d0 ds0]; [|eexists; reflexivity]. cbn [wrapped s_wraps].
      assert (Hall : forallb (resolvable sh) arms = true) by (apply Hiff; reflexivity).
      destruct (all_find sh arms Hall Hnl) as [js Hjs].
      destruct (cover_spec _ _ _ Hjs [] 0) as (dd & seen' & Hc & _ & _).
      rewrite Hc. cbn [bind]. eexists; reflexivity. }
    destruct sh; try exact Hbody. discriminate.
  - destruct sh; try discriminate. unfold check_switch. cbn [s_shape]. eexists; reflexivity.
Qed.
