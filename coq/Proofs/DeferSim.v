(* C03 — simulation lemmas shared by the proofs about both compilers:
   induction principle for the nested HIR syntax, algebra of [trun_list],
   unfolding lemmas for the block-level loops. *)
From Capy Require Import Common.Util Model.Defer Model.DeferFixed Spec.DeferSpec.

(* ---------------------------------------------------------------- induction *)
Section HInd.
  Variable P : hstmt -> Prop.
  Hypothesis Hprint : forall c, P (HPrint c).
  Hypothesis Hdefer : forall c, P (HDefer c).
  Hypothesis Hbreak : forall l, P (HBreak l).
  Hypothesis Hcont : forall l, P (HContinue l).
  Hypothesis Htry : forall k l, P (HTry k l).
  Hypothesis Hblock : forall sid b, Forall P b -> P (HBlock sid b).
  Hypothesis Hloop : forall sid c b, Forall P b -> P (HLoop sid c b).
  Hypothesis Hif : forall a b, Forall P a -> Forall P b -> P (HIf a b).

  Fixpoint hstmt_ind2 (h : hstmt) : P h :=
    let fix go (l : list hstmt) : Forall P l :=
      match l with
      | [] => Forall_nil P
      | x :: r => Forall_cons x (hstmt_ind2 x) (go r)
      end in
    match h with
    | HPrint c => Hprint c
    | HDefer c => Hdefer c
    | HBreak l => Hbreak l
    | HContinue l => Hcont l
    | HTry k l => Htry k l
    | HBlock sid b => Hblock sid b (go b)
    | HLoop sid c b => Hloop sid c b (go b)
    | HIf a b => Hif a b (go a) (go b)
    end.
End HInd.

(* ------------------------------------------------------------ trun_list *)
Definition rmap {A B} (g : A -> B) (r : result A) : result B :=
  match r with Ok a => Ok (g a) | Crash s => Crash s | OutOfFuel => OutOfFuel end.

Definition pre (l : trace) (x : trace * oracle * tout) : trace * oracle * tout :=
  let '(t, o, out) := x in (l ++ t, o, out).

Lemma trun_list_nil f o : trun_list f [] o = Ok ([], o, TNormal).
Proof. reflexivity. Qed.

Lemma trun_list_cons f c r o :
  trun_list f (c :: r) o =
  match f c o with
  | Ok (t1, o1, TNormal) => rmap (pre t1) (trun_list f r o1)
  | Ok (t1, o1, out) => Ok (t1, o1, out)
  | Crash s => Crash s
  | OutOfFuel => OutOfFuel
  end.
Proof.
  cbn [trun_list bind]. destruct (f c o) as [[[t1 o1] out]| |]; cbn [bind]; auto.
  destruct out; auto.
  destruct (trun_list f r o1) as [[[t2 o2] out2]| |]; reflexivity.
Qed.

Lemma rmap_pre_nil r : rmap (pre []) r = r.
Proof. destruct r as [[[t o] out]| |]; reflexivity. Qed.

Lemma rmap_pre_pre a b r : rmap (pre a) (rmap (pre b) r) = rmap (pre (a ++ b)) r.
Proof. destruct r as [[[t o] out]| |]; cbn; auto. rewrite app_assoc. reflexivity. Qed.

Lemma trun_list_single f c o : trun_list f [c] o = f c o.
Proof.
  rewrite trun_list_cons. destruct (f c o) as [[[t1 o1] out]| |]; auto.
  destruct out; auto. cbn. rewrite app_nil_r. reflexivity.
Qed.

Lemma trun_list_app f a b o :
  trun_list f (a ++ b) o =
  match trun_list f a o with
  | Ok (t1, o1, TNormal) => rmap (pre t1) (trun_list f b o1)
  | r => r
  end.
Proof.
  revert o. induction a as [|c a IH]; intros o.
  - cbn [app]. rewrite trun_list_nil. rewrite rmap_pre_nil. reflexivity.
  - cbn [app]. rewrite !trun_list_cons.
    destruct (f c o) as [[[t1 o1] out]| |]; auto.
    destruct out; auto.
    rewrite IH. destruct (trun_list f a o1) as [[[t2 o2] out2]| |]; cbn; auto.
    destruct out2; cbn; auto. apply rmap_pre_pre.
Qed.

Lemma trun_emits fuel l rest o :
  trun_list (trun fuel) (map TEmit l ++ rest) o = rmap (pre l) (trun_list (trun fuel) rest o).
Proof.
  induction l as [|c l IH]; cbn [map app].
  - rewrite rmap_pre_nil. reflexivity.
  - rewrite trun_list_cons. cbn [trun]. rewrite IH.
    rewrite rmap_pre_pre. reflexivity.
Qed.

Lemma trun_emits_only fuel l o :
  trun_list (trun fuel) (map TEmit l) o = Ok (l, o, TNormal).
Proof.
  rewrite <- (app_nil_r (map TEmit l)). rewrite trun_emits. cbn. rewrite app_nil_r. reflexivity.
Qed.

(* ------------------------------------------- unfolding the block-level loops *)
Definition not_defer (h : hstmt) : Prop := forall c, h <> HDefer c.

Lemma compile_list_defer f sid st pend c r :
  compile_list f sid st pend (HDefer c :: r) = compile_list f sid st (pend ++ rev c) r.
Proof. reflexivity. Qed.

Lemma compile_list_cons f sid st pend h r : not_defer h ->
  compile_list f sid st pend (h :: r) =
  (do c <- f (mkFrame sid pend :: st) h;
   if is_jump_stmt h then Ok (c, pend, true)
   else do x <- compile_list f sid st pend r;
        let '(cr, p, ne) := x in Ok (c ++ cr, p, ne)).
Proof. intros H. destruct h; try reflexivity. exfalso. eapply H. reflexivity. Qed.

Lemma hexec_list_defer f pend c r o :
  hexec_list f pend (HDefer c :: r) o = hexec_list f (c ++ pend) r o.
Proof. reflexivity. Qed.

Lemma hexec_list_cons f pend h r o : not_defer h ->
  hexec_list f pend (h :: r) o =
  match f h o with
  | Ok (t1, o1, TNormal) => rmap (pre t1) (hexec_list f pend r o1)
  | Ok (t1, o1, out) => Ok (t1 ++ pend, o1, out)
  | Crash s => Crash s
  | OutOfFuel => OutOfFuel
  end.
Proof.
  intros H. destruct h;
  match goal with
  | H : not_defer (HDefer _) |- _ => exfalso; eapply H; reflexivity
  | _ => idtac
  end;
  cbn [hexec_list bind];
  (destruct (f _ o) as [[[t1 o1] out]| |]; cbn [bind]; auto; destruct out; auto;
   destruct (hexec_list f pend r o1) as [[[t2 o2] out2]| |]; reflexivity).
Qed.

Lemma not_defer_dec h : (exists c, h = HDefer c) \/ not_defer h.
Proof. destruct h; try (right; intros ? E; discriminate). left. eexists. reflexivity. Qed.

(* ------------------------------------------------- loops as named fixpoints *)
Fixpoint titer (fuel : nat) (sid : option N) (cond : bool) (body : list tstmt) (n : nat) (o : oracle)
  : result (trace * oracle * tout) :=
  match n with
  | O => OutOfFuel
  | S n' =>
      let '(go, o0) := if cond then next o else (true, o) in
      if negb go then Ok ([], o0, TNormal)
      else
        match trun_list (trun fuel) body o0 with
        | Ok (t1, o1, TNormal) => rmap (pre t1) (titer fuel sid cond body n' o1)
        | Ok (t1, o1, TExit id) => if opt_is id sid then Ok (t1, o1, TNormal) else Ok (t1, o1, TExit id)
        | Ok (t1, o1, THeader id) =>
            if opt_is id sid then rmap (pre t1) (titer fuel sid cond body n' o1) else Ok (t1, o1, THeader id)
        | Crash s => Crash s
        | OutOfFuel => OutOfFuel
        end
  end.

Lemma trun_loop fuel sid c body o :
  trun fuel (TLoop sid c body) o = titer fuel sid c body fuel o.
Proof.
  cbn [trun].
  match goal with |- ?F fuel o = _ => assert (HH : forall n o, F n o = titer fuel sid c body n o) end.
  { induction n as [|n IH]; intros o'; [reflexivity|].
    cbn [titer]. destruct (if c then next o' else (true, o')) as [go o0].
    destruct (negb go); auto.
    destruct (trun_list (trun fuel) body o0) as [[[t1 o1] out]| |]; cbn [bind]; auto.
    destruct out; try destruct (opt_is id sid); auto; rewrite IH;
    destruct (titer fuel sid c body n o1) as [[[t2 o2] out2]| |]; reflexivity. }
  apply HH.
Qed.

Fixpoint hiter (fuel : nat) (sid : option N) (cond : bool) (body : list hstmt) (n : nat) (o : oracle)
  : result (trace * oracle * tout) :=
  match n with
  | O => OutOfFuel
  | S n' =>
      let '(go, o0) := if cond then next o else (true, o) in
      if negb go then Ok ([], o0, TNormal)
      else
        match hexec_list (hexec fuel) [] body o0 with
        | Ok (t1, o1, TNormal) => rmap (pre t1) (hiter fuel sid cond body n' o1)
        | Ok (t1, o1, TExit id) => if opt_is id sid then Ok (t1, o1, TNormal) else Ok (t1, o1, TExit id)
        | Ok (t1, o1, THeader id) =>
            if opt_is id sid then rmap (pre t1) (hiter fuel sid cond body n' o1) else Ok (t1, o1, THeader id)
        | Crash s => Crash s
        | OutOfFuel => OutOfFuel
        end
  end.

Lemma hexec_loop fuel sid c body o :
  hexec fuel (HLoop sid c body) o = hiter fuel sid c body fuel o.
Proof.
  cbn [hexec].
  match goal with |- ?F fuel o = _ => assert (HH : forall n o, F n o = hiter fuel sid c body n o) end.
  { induction n as [|n IH]; intros o'; [reflexivity|].
    cbn [hiter]. destruct (if c then next o' else (true, o')) as [go o0].
    destruct (negb go); auto.
    destruct (hexec_list (hexec fuel) [] body o0) as [[[t1 o1] out]| |]; cbn [bind]; auto.
    destruct out; try destruct (opt_is id sid); auto; rewrite IH;
    destruct (hiter fuel sid c body n o1) as [[[t2 o2] out2]| |]; reflexivity. }
  apply HH.
Qed.
