(* C11 — proofs about the discriminant assignment of enum declarations. *)
From Capy Require Import Common.Util Model.Switch Spec.SwitchSpec.

Local Open Scope N_scope.

Lemma memN_In : forall x l, memN x l = true <-> In x l.
Proof.
  intros x l. unfold memN. rewrite existsb_exists. split.
  - intros [y [Hy He]]. apply N.eqb_eq in He. subst. exact Hy.
  - intros H. exists x. split; [exact H | apply N.eqb_refl].
Qed.

Lemma memN_false : forall x l, memN x l = false <-> ~ In x l.
Proof.
  intros x l. rewrite <- memN_In. destruct (memN x l); split; intros; try discriminate; auto.
  exfalso. apply H. reflexivity.
Qed.

Definition somes (ks : list (option N)) : list N :=
  flat_map (fun k => match k with Some d => [d] | None => [] end) ks.

(* ------------------------------------------------------------------ pass1 *)
Lemma pass1_spec : forall ms used ks u,
  pass1 used ms = (ks, u) ->
  length ks = length ms /\
  (forall x, In x u <-> In x used \/ In x (somes ks)) /\
  NoDup (somes ks) /\
  (forall x, In x (somes ks) -> ~ In x used).
Proof.
  induction ms as [|m r IH]; intros used ks u H; cbn [pass1] in H.
  - inversion H; subst. cbn. repeat split; try tauto. constructor.
  - destruct m as [d|].
    + destruct (memN d used) eqn:Hm.
      * destruct (pass1 used r) as [k' u'] eqn:Hp. inversion H; subst.
        destruct (IH _ _ _ Hp) as (Hl & Hu & Hn & Hd).
        cbn [somes flat_map app length]. fold (somes k'). repeat split; auto; apply Hu.
      * destruct (pass1 (d :: used) r) as [k' u'] eqn:Hp. inversion H; subst.
        destruct (IH _ _ _ Hp) as (Hl & Hu & Hn & Hd). apply memN_false in Hm.
        cbn [somes flat_map app length]. fold (somes k'). repeat split.
        -- cbn. lia.
        -- intros Hx. apply Hu in Hx. cbn in *. tauto.
        -- intros Hx. apply Hu. cbn in *. tauto.
        -- constructor; auto. intros Hc. apply (Hd _ Hc). left. reflexivity.
        -- intros x [Hx|Hx] Hc; subst; auto. apply (Hd _ Hx). right. exact Hc.
    + destruct (pass1 used r) as [k' u'] eqn:Hp. inversion H; subst.
      destruct (IH _ _ _ Hp) as (Hl & Hu & Hn & Hd).
      cbn [somes flat_map app length]. fold (somes k'). repeat split; auto; apply Hu.
Qed.

(* when the manual discriminants are pairwise distinct, the first pass keeps them all *)
Lemma pass1_nodup_id : forall ms used,
  NoDup (somes ms) -> (forall x, In x (somes ms) -> ~ In x used) ->
  fst (pass1 used ms) = ms.
Proof.
  induction ms as [|m r IH]; intros used Hn Hd; cbn [pass1]; auto.
  destruct m as [d|].
  - cbn [somes flat_map app] in Hn, Hd. fold (somes r) in Hn, Hd.
    assert (Hm : memN d used = false).
    { apply memN_false. apply Hd. left. reflexivity. }
    rewrite Hm. inversion Hn; subst.
    specialize (IH (d :: used) H2).
    destruct (pass1 (d :: used) r) as [k u]. cbn [fst] in *. rewrite IH; auto.
    intros x Hx [Hc|Hc]; subst; auto. apply (Hd x); auto. right. exact Hx.
  - cbn [somes flat_map app] in Hn, Hd. fold (somes r) in Hn, Hd.
    specialize (IH used Hn Hd). destruct (pass1 used r) as [k u]. cbn [fst] in *. rewrite IH. reflexivity.
Qed.

(* -------------------------------------------------------------- first_free *)
Lemma first_free_ok : forall fuel used d r,
  first_free fuel used d = Ok r ->
  d <= r /\ ~ In r used /\ (forall x, d <= x < r -> In x used).
Proof.
  induction fuel as [|f IH]; intros used d r H; cbn [first_free] in H; [discriminate|].
  destruct (memN d used) eqn:Hm.
  - destruct (N.eqb d u64_max); [discriminate|].
    apply IH in H. destruct H as (H1 & H2 & H3). repeat split; [lia | exact H2 |].
    intros x Hx. destruct (N.eq_dec x d) as [->|Hne]; [apply memN_In; exact Hm|].
    apply H3. lia.
  - inversion H; subst. apply memN_false in Hm. repeat split; [lia | exact Hm | intros; lia].
Qed.

Lemma filter_ge_shrinks : forall (used : list N) d,
  In d used ->
  (length (filter (fun x => N.leb (d + 1)%N x) used) < length (filter (fun x => N.leb d x) used))%nat.
Proof.
  induction used as [|a r IH]; intros d Hin; [destruct Hin|].
  assert (Hle : (length (filter (fun x => N.leb (d + 1)%N x) r) <= length (filter (fun x => N.leb d x) r))%nat).
  { clear. induction r as [|b r IH]; cbn; [lia|].
    destruct (N.leb_spec (d + 1) b), (N.leb_spec d b); cbn; lia. }
  cbn [filter]. destruct Hin as [->|Hin].
  - replace (d + 1 <=? d) with false by (symmetry; apply N.leb_gt; lia).
    rewrite N.leb_refl. cbn. lia.
  - specialize (IH d Hin).
    destruct (N.leb_spec (d + 1) a), (N.leb_spec d a); cbn; lia.
Qed.

Lemma first_free_fuel : forall fuel used d,
  (length (filter (fun x => N.leb d x) used) < fuel)%nat ->
  first_free fuel used d <> OutOfFuel.
Proof.
  induction fuel as [|f IH]; intros used d Hl; [lia|].
  cbn [first_free]. destruct (memN d used) eqn:Hm; [|discriminate].
  destruct (N.eqb d u64_max); [discriminate|].
  apply IH. apply memN_In in Hm. pose proof (filter_ge_shrinks used d Hm). lia.
Qed.

Lemma filter_length_le : forall {A} (p : A -> bool) l, (length (filter p l) <= length l)%nat.
Proof. induction l; cbn; [lia|]. destruct (p a); cbn; lia. Qed.

Lemma first_free_never_out_of_fuel : forall used d,
  first_free (S (length used)) used d <> OutOfFuel.
Proof.
  intros. apply first_free_fuel. pose proof (filter_length_le (fun x => N.leb d x) used). lia.
Qed.

(* ------------------------------------------------------------------ pass2 *)
Lemma pass2_inv : forall ks used latest ds,
  NoDup (somes ks) -> (forall x, In x (somes ks) -> In x used) ->
  pass2 used latest ks = Ok ds ->
  length ds = length ks /\
  NoDup ds /\
  (forall d, In d ds -> (In d (somes ks) /\ In d used) \/ (~ In d used /\ latest <= d)).
Proof.
  induction ks as [|k r IH]; intros used latest ds Hn Hu H; cbn [pass2] in H.
  - inversion H; subst. repeat split; [constructor | intros d []].
  - unfold bind in H.
    destruct (match k with Some d => Ok d | None => first_free (S (length used)) used latest end)
      as [d| |] eqn:Hd; try discriminate.
    destruct (if latest <=? d then if N.eqb d u64_max then Crash 4845 else Ok (d + 1) else Ok latest)
      as [l'| |] eqn:Hl; try discriminate.
    destruct (pass2 used l' r) as [ds'| |] eqn:Hp; try discriminate.
    inversion H; subst ds. clear H.
    assert (Hl' : latest <= l' /\ (latest <= d -> d < l')).
    { destruct (N.leb_spec latest d).
      - destruct (N.eqb d u64_max); [discriminate|]. inversion Hl; subst. lia.
      - inversion Hl; subst. lia. }
    destruct Hl' as [Hmono Hgt].
    assert (Hnr : NoDup (somes r)).
    { destruct k; cbn [somes flat_map app] in Hn; fold (somes r) in Hn; [inversion Hn; auto | auto]. }
    assert (Hur : forall x, In x (somes r) -> In x used).
    { intros x Hx. apply Hu. destruct k; cbn [somes flat_map app]; fold (somes r); [right|]; auto. }
    destruct (IH used l' ds' Hnr Hur Hp) as (Hlen & Hnd & Hcl).
    split; [cbn; lia|]. split.
    + constructor; auto. intros Hin. destruct (Hcl d Hin) as [[Hs Hdu]|[Hnu Hge]].
      * destruct k as [d0|].
        -- inversion Hd; subst d0. cbn [somes flat_map app] in Hn. fold (somes r) in Hn.
           inversion Hn; subst. auto.
        -- apply first_free_ok in Hd. destruct Hd as (_ & Hnot & _). auto.
      * destruct k as [d0|].
        -- inversion Hd; subst d0. apply Hnu. apply Hu. cbn. left. reflexivity.
        -- apply first_free_ok in Hd. destruct Hd as (Hge' & _ & _). specialize (Hgt Hge'). lia.
    + intros x [Hx|Hx].
      * subst x. destruct k as [d0|].
        -- inversion Hd; subst d0. left. split; [cbn; left; reflexivity | apply Hu; cbn; left; reflexivity].
        -- apply first_free_ok in Hd. destruct Hd as (Hge' & Hnot & _). right. split; auto.
      * destruct (Hcl x Hx) as [[Hs Hxu]|[Hnu Hge]].
        -- left. split; auto. destruct k; cbn [somes flat_map app]; fold (somes r); [right|]; auto.
        -- right. split; auto. lia.
Qed.

Theorem discriminants_distinct : forall ms ds,
  assign_discriminants ms = Ok ds -> NoDup ds /\ length ds = length ms.
Proof.
  intros ms ds H. unfold assign_discriminants in H.
  destruct (pass1 [] ms) as [ks used] eqn:Hp.
  destruct (pass1_spec _ _ _ _ Hp) as (Hl & Hu & Hn & _).
  assert (Hin : forall x, In x (somes ks) -> In x used) by (intros x Hx; apply Hu; right; exact Hx).
  destruct (pass2_inv _ _ _ _ Hn Hin H) as (Hlen & Hnd & _).
  split; [exact Hnd | lia].
Qed.

(* manual discriminants are kept (position by position) when they are pairwise distinct *)
Lemma pass2_keeps_manual : forall ks used latest ds,
  pass2 used latest ks = Ok ds ->
  Forall2 (fun k d => forall x, k = Some x -> d = x) ks ds.
Proof.
  induction ks as [|k r IH]; intros used latest ds H; cbn [pass2] in H.
  - inversion H; subst. constructor.
  - unfold bind in H.
    destruct (match k with Some d => Ok d | None => first_free (S (length used)) used latest end)
      as [d| |] eqn:Hd; try discriminate.
    destruct (if latest <=? d then if N.eqb d u64_max then Crash 4845 else Ok (d + 1) else Ok latest)
      as [l'| |] eqn:Hl; try discriminate.
    destruct (pass2 used l' r) as [ds'| |] eqn:Hp; try discriminate.
    inversion H; subst ds. constructor; [|eapply IH; eauto].
    intros x Hx. subst k. inversion Hd. reflexivity.
Qed.

Theorem manual_discriminants_kept : forall ms ds,
  NoDup (somes ms) ->
  assign_discriminants ms = Ok ds ->
  Forall2 (fun m d => forall x, m = Some x -> d = x) ms ds.
Proof.
  intros ms ds Hn H. unfold assign_discriminants in H.
  pose proof (pass1_nodup_id ms [] Hn (fun _ _ F => F)) as Hid.
  destruct (pass1 [] ms) as [ks used]. cbn [fst] in Hid. subst ks.
  eapply pass2_keeps_manual; eauto.
Qed.

(* --------------------------------------------------------------- the bound *)
Lemma somes_lt_max : forall ms x, In x (somes ms) -> x < manual_max_plus1 ms.
Proof.
  induction ms as [|m r IH]; intros x Hx; [destruct Hx|].
  destruct m as [d|]; cbn [somes flat_map app manual_max_plus1] in *; fold (somes r) in Hx.
  - destruct Hx as [->|Hx]; [lia|]. specialize (IH x Hx). lia.
  - auto.
Qed.

Lemma pass2_bound : forall ks used latest ds M a,
  (forall x, In x used -> x < M) ->
  (forall x, In x (somes ks) -> In x used) ->
  latest <= M + a ->
  pass2 used latest ks = Ok ds ->
  Forall (fun d => d < M + a + count_none ks) ds.
Proof.
  induction ks as [|k r IH]; intros used latest ds M a HM Hs Hlat H; cbn [pass2] in H.
  - inversion H; subst. constructor.
  - unfold bind in H.
    destruct (match k with Some d => Ok d | None => first_free (S (length used)) used latest end)
      as [d| |] eqn:Hd; try discriminate.
    destruct (if latest <=? d then if N.eqb d u64_max then Crash 4845 else Ok (d + 1) else Ok latest)
      as [l'| |] eqn:Hl; try discriminate.
    destruct (pass2 used l' r) as [ds'| |] eqn:Hp; try discriminate.
    inversion H; subst ds. clear H.
    assert (Hl' : l' = N.max latest (d + 1)).
    { destruct (N.leb_spec latest d).
      - destruct (N.eqb d u64_max); [discriminate|]. inversion Hl; subst. lia.
      - inversion Hl; subst. lia. }
    assert (Hsr : forall x, In x (somes r) -> In x used).
    { intros x Hx. apply Hs. destruct k; cbn [somes flat_map app]; fold (somes r); [right|]; auto. }
    destruct k as [d0|].
    + inversion Hd; subst d0. cbn [count_none].
      assert (HdM : d < M) by (apply HM, Hs; cbn; left; reflexivity).
      constructor; [lia|].
      apply (IH used l' ds' M a HM Hsr); [lia | exact Hp].
    + cbn [count_none]. apply first_free_ok in Hd. destruct Hd as (Hge & Hnot & Hall).
      assert (HdM : d <= N.max latest M).
      { destruct (N.eq_dec d latest) as [->|Hne]; [lia|].
        assert (Hin : In (d - 1) used) by (apply Hall; lia).
        apply HM in Hin. lia. }
      constructor; [lia|].
      assert (Hf : Forall (fun d0 => d0 < M + (a + 1) + count_none r) ds').
      { apply (IH used l' ds' M (a + 1) HM Hsr); [lia | exact Hp]. }
      eapply Forall_impl; [|exact Hf]. cbn beta. intros; lia.
Qed.

(* every discriminant is below (largest manual + 1) + (number of auto-numbered variants) *)
Theorem discriminants_bound : forall ms ds,
  assign_discriminants ms = Ok ds ->
  Forall (fun d => d < manual_max_plus1 ms + count_none (fst (pass1 [] ms))) ds.
Proof.
  intros ms ds H. unfold assign_discriminants in H.
  destruct (pass1 [] ms) as [ks used] eqn:Hp. cbn [fst].
  destruct (pass1_spec _ _ _ _ Hp) as (Hl & Hu & Hn & _).
  assert (Hsub : forall x, In x (somes ks) -> In x (somes ms)).
  { clear - Hp. revert ks used Hp. generalize (@nil N) as u0.
    induction ms as [|m r IH]; intros u0 ks used Hp x Hx; cbn [pass1] in Hp.
    - inversion Hp; subst. exact Hx.
    - destruct m as [d|].
      + destruct (memN d u0).
        * destruct (pass1 u0 r) as [k' u'] eqn:E. inversion Hp; subst.
          cbn [somes flat_map app] in *. fold (somes r). fold (somes k') in Hx. right. eapply IH; eauto.
        * destruct (pass1 (d :: u0) r) as [k' u'] eqn:E. inversion Hp; subst.
          cbn [somes flat_map app] in *. fold (somes r). fold (somes k') in Hx.
          destruct Hx as [->|Hx]; [left; reflexivity | right; eapply IH; eauto].
      + destruct (pass1 u0 r) as [k' u'] eqn:E. inversion Hp; subst.
        cbn [somes flat_map app] in *. fold (somes r). fold (somes k') in Hx. eapply IH; eauto. }
  assert (HM : forall x, In x used -> x < manual_max_plus1 ms).
  { intros x Hx. apply Hu in Hx. destruct Hx as [[]|Hx]. apply somes_lt_max, Hsub, Hx. }
  assert (Hin : forall x, In x (somes ks) -> In x used) by (intros x Hx; apply Hu; right; exact Hx).
  pose proof (pass2_bound ks used 0 ds (manual_max_plus1 ms) 0 HM Hin ltac:(lia) H) as Hb.
  eapply Forall_impl; [|exact Hb]. cbn beta. intros; lia.
Qed.

(* no manual discriminants: variant i gets discriminant i *)
Lemma pass2_auto_seq : forall (n : nat) latest,
  (latest + N.of_nat n <= u64_max) ->
  pass2 [] latest (repeat None n) = Ok (map N.of_nat (seq (N.to_nat latest) n)).
Proof.
  induction n as [|n IH]; intros latest Hb; cbn [repeat pass2 seq map]; auto.
  cbn [length first_free memN existsb]. unfold bind at 1. cbn iota beta.
  rewrite N.leb_refl.
  replace (N.eqb latest u64_max) with false by (symmetry; apply N.eqb_neq; lia).
  unfold bind at 1. rewrite IH by lia. unfold bind.
  rewrite N2Nat.id. replace (N.to_nat (latest + 1)) with (S (N.to_nat latest)) by lia. reflexivity.
Qed.

Theorem discriminants_auto : forall n : nat,
  (N.of_nat n <= u64_max) ->
  assign_discriminants (repeat None n) = Ok (map N.of_nat (seq 0 n)).
Proof.
  intros n Hn. unfold assign_discriminants.
  assert (Hp : pass1 [] (repeat None n) = (repeat None n, [])).
  { induction n as [|n IH]; cbn [repeat pass1]; auto. rewrite IH by lia. reflexivity. }
  rewrite Hp. apply (pass2_auto_seq n 0). lia.
Qed.

(* ---------------------------------------------------- no crash, no fuel *)
Lemma pass2_total : forall ks used latest M a,
  (forall x, In x used -> x < M) ->
  (forall x, In x (somes ks) -> In x used) ->
  latest <= M + a ->
  M + a + count_none ks <= u64_max ->
  exists ds, pass2 used latest ks = Ok ds.
Proof.
  induction ks as [|k r IH]; intros used latest M a HM Hs Hlat Hb; cbn [pass2].
  - eexists; reflexivity.
  - assert (Hsr : forall x, In x (somes r) -> In x used).
    { intros x Hx. apply Hs. destruct k; cbn [somes flat_map app]; fold (somes r); [right|]; auto. }
    destruct k as [d|]; cbn [count_none] in Hb.
    + assert (HdM : d < M) by (apply HM, Hs; cbn; left; reflexivity).
      unfold bind at 1. cbn iota beta.
      assert (Hne : N.eqb d u64_max = false) by (apply N.eqb_neq; lia).
      rewrite Hne.
      destruct (N.leb_spec latest d); unfold bind at 1; cbn iota beta.
      * destruct (IH used (d + 1) M a HM Hsr ltac:(lia) Hb) as [ds' E]. rewrite E. eexists; reflexivity.
      * destruct (IH used latest M a HM Hsr Hlat Hb) as [ds' E]. rewrite E. eexists; reflexivity.
    + destruct (first_free (S (length used)) used latest) as [d| |] eqn:Hd.
      * pose proof (first_free_ok _ _ _ _ Hd) as (Hge & Hnot & Hall).
        assert (HdM : d <= N.max latest M).
        { destruct (N.eq_dec d latest) as [->|Hne]; [lia|].
          assert (Hin : In (d - 1) used) by (apply Hall; lia).
          apply HM in Hin. lia. }
        unfold bind at 1. cbn iota beta.
        replace (latest <=? d) with true by (symmetry; apply N.leb_le; lia).
        assert (Hne : N.eqb d u64_max = false) by (apply N.eqb_neq; lia).
        rewrite Hne. unfold bind at 1. cbn iota beta.
        destruct (IH used (d + 1) M (a + 1) HM Hsr ltac:(lia) ltac:(lia)) as [ds' E]. rewrite E.
        eexists; reflexivity.
      * exfalso.
        (* a crash of first_free means some probed value equals u64_max and is used *)
        assert (Hc : forall fuel u d0 s, first_free fuel u d0 = Crash s -> In u64_max u).
        { induction fuel as [|f IHf]; intros u d0 s E; cbn [first_free] in E; [discriminate|].
          destruct (memN d0 u) eqn:Hm; [|discriminate].
          destruct (N.eqb_spec d0 u64_max) as [->|Hne]; [apply memN_In; exact Hm|].
          eapply IHf; eauto. }
        apply Hc in Hd. apply HM in Hd. lia.
      * exfalso. exact (first_free_never_out_of_fuel used latest Hd).
Qed.

Lemma pass1_used_sub : forall ms u0 ks used, pass1 u0 ms = (ks, used) ->
  forall x, In x used -> In x u0 \/ In x (somes ms).
Proof.
  induction ms as [|m r IH]; intros u0 ks used Hp x Hx; cbn [pass1] in Hp.
  - inversion Hp; subst. left. exact Hx.
  - destruct m as [d|].
    + destruct (memN d u0).
      * destruct (pass1 u0 r) as [k' u'] eqn:E. inversion Hp; subst.
        destruct (IH _ _ _ E x Hx); [left; auto | right; cbn; right; auto].
      * destruct (pass1 (d :: u0) r) as [k' u'] eqn:E. inversion Hp; subst.
        destruct (IH _ _ _ E x Hx) as [[->|H]|H]; [right; cbn; left; reflexivity | left; auto | right; cbn; right; auto].
    + destruct (pass1 u0 r) as [k' u'] eqn:E. inversion Hp; subst.
      destruct (IH _ _ _ E x Hx); [left; auto | right; cbn; auto].
Qed.

Theorem assign_discriminants_total : forall ms,
  manual_max_plus1 ms + N.of_nat (length ms) <= u64_max ->
  exists ds, assign_discriminants ms = Ok ds.
Proof.
  intros ms Hb. unfold assign_discriminants.
  destruct (pass1 [] ms) as [ks used] eqn:Hp.
  destruct (pass1_spec _ _ _ _ Hp) as (Hl & Hu & Hn & _).
  assert (Hsub : forall x, In x used -> x < manual_max_plus1 ms).
  { intros x Hx. destruct (pass1_used_sub _ _ _ _ Hp x Hx) as [[]|H]. apply somes_lt_max, H. }
  assert (Hin : forall x, In x (somes ks) -> In x used) by (intros x Hx; apply Hu; right; exact Hx).
  assert (Hc : count_none ks <= N.of_nat (length ks)).
  { clear. induction ks as [|[d|] r IH]; cbn [count_none length]; lia. }
  apply (pass2_total ks used 0 (manual_max_plus1 ms) 0 Hsub Hin); lia.
Qed.
