(* C23 proofs, part 3: the whole-grammar model (Model/Grammar.v).
   One mutual induction over all grammar functions shows that every function
     - leaves the token list unchanged and never moves the cursor backwards,
     - keeps every recorded error position within the input,
     - keeps the marker invariant of ParserCoreProofs (so that the final event
       list is well bracketed once every placeholder is completed),
   for both variants of the model (before / after the proposed fixes). *)
From Coq Require Import List Arith Bool Lia.
Import ListNotations.
From Capy Require Import Common.Util Model.ParserCore Model.Sink Spec.ParseSpec
  Proofs.ParserCoreProofs Model.Grammar.

Definition R (s0 s' : pstate) : Prop :=
  toks s' = toks s0 /\ idx s0 <= idx s' /\ (errs_in s0 -> errs_in s') /\ (Inv (evs s0) -> Inv (evs s')).

Lemma R_refl : forall s, R s s.
Proof. intro. unfold R. auto. Qed.
Lemma R_trans : forall a b c, R a b -> R b c -> R a c.
Proof. unfold R. intros a b c (A1 & A2 & A3 & A4) (B1 & B2 & B3 & B4). repeat split; try congruence; try lia; auto. Qed.

Definition M {A} (s0 : pstate) (r : result (pstate * A)) : Prop :=
  match r with Ok (s', _) => R s0 s' | _ => True end.
Definition M0 (s0 : pstate) (r : result pstate) : Prop :=
  match r with Ok s' => R s0 s' | _ => True end.

Lemma M_bind : forall {A B} s0 (r : result (pstate * A)) (k : pstate * A -> result (pstate * B)),
  M s0 r -> (forall s1 x, R s0 s1 -> M s0 (k (s1, x))) -> M s0 (bind r k).
Proof. intros. destruct r as [[s1 x]| |]; simpl in *; auto. Qed.
Lemma M_bind0 : forall {B} s0 (r : result pstate) (k : pstate -> result (pstate * B)),
  M0 s0 r -> (forall s1, R s0 s1 -> M s0 (k s1)) -> M s0 (bind r k).
Proof. intros. destruct r as [s1| |]; simpl in *; auto. Qed.
Lemma M0_bind0 : forall s0 (r : result pstate) (k : pstate -> result pstate),
  M0 s0 r -> (forall s1, R s0 s1 -> M0 s0 (k s1)) -> M0 s0 (bind r k).
Proof. intros. destruct r as [s1| |]; simpl in *; auto. Qed.
Lemma M0_bind : forall {A} s0 (r : result (pstate * A)) (k : pstate * A -> result pstate),
  M s0 r -> (forall s1 x, R s0 s1 -> M0 s0 (k (s1, x))) -> M0 s0 (bind r k).
Proof. intros. destruct r as [[s1 x]| |]; simpl in *; auto. Qed.
(* binds whose first component carries no state *)
Lemma M_bindv : forall {A B} s0 (r : result A) (k : A -> result (pstate * B)),
  (forall x, M s0 (k x)) -> M s0 (bind r k).
Proof. intros. destruct r; simpl; auto. Qed.
Lemma M0_bindv : forall {A} s0 (r : result A) (k : A -> result pstate),
  (forall x, M0 s0 (k x)) -> M0 s0 (bind r k).
Proof. intros. destruct r; simpl; auto. Qed.

Lemma M_weak : forall {A} s0 s (r : result (pstate * A)), R s0 s -> M s r -> M s0 r.
Proof. intros. destruct r as [[s1 x]| |]; simpl in *; auto. eapply R_trans; eauto. Qed.
Lemma M0_weak : forall s0 s (r : result pstate), R s0 s -> M0 s r -> M0 s0 r.
Proof. intros. destruct r as [s1| |]; simpl in *; auto. eapply R_trans; eauto. Qed.
Lemma M0_drop : forall {A} s0 (r : result (pstate * A)), M s0 r -> M0 s0 (drop r).
Proof. intros. destruct r as [[s1 x]| |]; simpl in *; auto. Qed.

(* ---- primitive operations ---------------------------------------------------- *)
Lemma skip_list_ge : forall l i, i <= skip_list l i.
Proof. induction l; simpl; intros; auto. destruct (trivia (fst a)); auto. specialize (IHl (S i)). lia. Qed.

Lemma R_skip : forall s0 s, R s0 s -> R s0 (skip_trivia s).
Proof.
  intros s0 s H. eapply R_trans; [eassumption|]. unfold R, skip_trivia, errs_in. simpl.
  repeat split; auto. apply skip_list_ge.
Qed.
Lemma R_at : forall s0 s k, R s0 s -> R s0 (fst (p_at s k)).
Proof. intros. unfold p_at, at_kind, peek. simpl. apply R_skip. assumption. Qed.
Lemma R_at_set : forall s0 s f, R s0 s -> R s0 (fst (p_at_set s f)).
Proof. intros. unfold p_at_set, at_set, peek. simpl. apply R_skip. assumption. Qed.
Lemma R_at_set' : forall s0 s f, R s0 s -> R s0 (fst (at_set s f)).
Proof. intros. unfold at_set, peek. simpl. apply R_skip. assumption. Qed.
Lemma R_at_eof : forall s0 s, R s0 s -> R s0 (fst (at_eof s)).
Proof. intros. unfold at_eof. simpl. apply R_skip. assumption. Qed.
Lemma R_kind : forall s0 s, R s0 s -> R s0 (fst (p_kind s)).
Proof. intros. unfold p_kind, peek. simpl. apply R_skip. assumption. Qed.

Lemma R_step : forall s o s', step s o = Ok s' ->
  toks s' = toks s -> errs s' = errs s -> idx s <= idx s' -> R s s'.
Proof.
  intros s o s' H T E I. unfold R, errs_in. rewrite T, E. repeat split; auto.
  intro V. eapply step_inv; eauto.
Qed.

Lemma R_bump_raw : forall s0 s, R s0 s -> R s0 (bump s).
Proof.
  intros. eapply R_trans; [eassumption|]. apply (R_step s OBump); try reflexivity; auto. simpl. lia.
Qed.
Lemma R_bump : forall c s0 s, R s0 s -> R s0 (p_bump c s).
Proof.
  intros. unfold p_bump, bump_fixed. destruct (fix_bump c); apply R_bump_raw; auto. apply R_skip. assumption.
Qed.
Lemma R_start : forall s0 s, R s0 s -> R s0 (fst (p_start s)).
Proof.
  intros. eapply R_trans; [eassumption|]. unfold p_start. simpl.
  apply (R_step s OStart); try reflexivity; auto.
Qed.

Lemma M_complete : forall s0 s m k, R s0 s -> M s0 (p_complete s m k).
Proof.
  intros. unfold p_complete. destruct (complete s (m_pos m) k) as [s'| |] eqn:E; simpl; auto.
  eapply R_trans; [eassumption|]. destruct (complete_keeps _ _ _ _ E) as [T Er].
  assert (I : idx s' = idx s).
  { unfold complete in E. destruct (nth_error (evs s) (m_pos m)) as [[e|]|]; try discriminate. inversion E; reflexivity. }
  apply (R_step s (OComplete (m_pos m) k)); auto. lia.
Qed.
Lemma M_precede : forall s0 s x, R s0 s -> M s0 (p_precede s x).
Proof.
  intros. unfold p_precede. destruct (precede s (c_pos x)) as [[s' p]| |] eqn:E; simpl; auto.
  eapply R_trans; [eassumption|]. unfold precede in E. destruct (c_pos x <=? length (evs s)) eqn:L; [|discriminate].
  inversion E; subst. apply (R_step s (OPrecede (c_pos x))); try reflexivity; auto.
  simpl. unfold precede. rewrite L. reflexivity.
Qed.
Lemma M_wrap : forall s0 s x k, R s0 s -> M s0 (wrap s x k).
Proof.
  intros. unfold wrap. apply M_bind; [apply M_precede; assumption|]. intros. apply M_complete. assumption.
Qed.

Lemma R_errs : forall s0 s e, R s0 s -> err_ok (total (toks s)) e = true ->
  R s0 (mkP (toks s) (idx s) (evs s) (errs s ++ [e])).
Proof.
  intros s0 s e H E. eapply R_trans; [eassumption|]. unfold R, errs_in. simpl. repeat split; auto.
  intro V. rewrite errs_ok_app, V. simpl. rewrite E. reflexivity.
Qed.

Lemma M_err_nd : forall c s0 s rs, R s0 s -> M s0 (err_nd c s rs).
Proof.
  intros c s0 s rs H. unfold err_nd.
  pose proof (R_at_eof _ _ H) as H1. destruct (at_eof s) as [s1 eof]. cbn [fst] in H1.
  pose proof (R_at_set' _ _ (lift rs) H1) as H2. destruct (at_set s1 (lift rs)) as [s2 inrs]. cbn [fst] in H2.
  destruct (eof || inrs).
  - destruct (previous_token_range s2) as [[a b]| |] eqn:P; simpl; auto.
    apply R_errs; auto. cbn [err_ok snd]. destruct (previous_token_range_ok _ _ _ P). apply Nat.leb_le. assumption.
  - destruct (range (toks s2) (idx s2)) as [[a b]| |] eqn:P; simpl; auto.
    destruct (range_ok _ _ _ _ P) as [Pa Pb].
    assert (H3 : R s0 (mkP (toks s2) (idx s2) (evs s2) (errs s2 ++ [UnexpectedTok a b]))).
    { apply R_errs; auto. cbn [err_ok]. apply andb_true_iff. split; apply Nat.leb_le; assumption. }
    pose proof (R_start _ _ H3) as H4. unfold p_start, start in H4. cbn [fst toks idx evs errs] in H4.
    pose proof (R_bump c _ _ H4) as H5.
    apply M_bind; [apply M_complete; exact H5|]. intros s6 e H6. exact H6.
Qed.
Lemma M_err_rs : forall c s0 s rs, R s0 s -> M s0 (err_rs c s rs).
Proof. intros. apply M_err_nd. assumption. Qed.
Lemma M_err_noskip : forall c s0 s, R s0 s -> M s0 (err_noskip c s).
Proof. intros. apply M_err_nd. assumption. Qed.
Lemma M_err_skip : forall c s0 s, R s0 s -> M s0 (err_skip c s).
Proof. intros. apply M_err_nd. assumption. Qed.

Lemma M0_exp_nd : forall c s0 s k rs, R s0 s -> M0 s0 (exp_nd c s k rs).
Proof.
  intros. unfold exp_nd. pose proof (R_at _ _ k H) as H1. destruct (p_at s k) as [s1 b]. cbn [fst] in H1.
  destruct b; [simpl; apply R_bump; assumption | apply M0_drop; apply M_err_nd; assumption].
Qed.
Lemma M0_exp_rs : forall c s0 s k rs, R s0 s -> M0 s0 (exp_rs c s k rs).
Proof.
  intros. unfold exp_rs. pose proof (R_at _ _ k H) as H1. destruct (p_at s k) as [s1 b]. cbn [fst] in H1.
  destruct b; [simpl; apply R_bump; assumption | apply M0_drop; apply M_err_rs; assumption].
Qed.
Lemma M0_exp : forall c s0 s k, R s0 s -> M0 s0 (exp c s k).
Proof. intros. apply M0_exp_rs. assumption. Qed.
Lemma M0_exp_noskip : forall c s0 s k, R s0 s -> M0 s0 (exp_noskip c s k).
Proof.
  intros. unfold exp_noskip. pose proof (R_at _ _ k H) as H1. destruct (p_at s k) as [s1 b]. cbn [fst] in H1.
  destruct b; [simpl; apply R_bump; assumption | apply M0_drop; apply M_err_noskip; assumption].
Qed.

Lemma M0_mark_missing : forall s0 s a, R s0 s -> M0 s0 (mark_old_missing s a).
Proof.
  intros. unfold mark_old_missing. destruct (range (toks s) a) as [[x y]| |] eqn:P; simpl; auto.
  apply R_errs; auto. cbn [err_ok fst]. destruct (range_ok _ _ _ _ P). apply Nat.leb_le. lia.
Qed.
Lemma M0_mark_unexpected : forall s0 s a b, R s0 s -> M0 s0 (mark_old_unexpected s a b).
Proof.
  intros. unfold mark_old_unexpected. destruct (range (toks s) a) as [[x y]| |] eqn:P; simpl; auto.
  destruct (range (toks s) b) as [[x2 y2]| |] eqn:P2; simpl; auto.
  apply R_errs; auto. cbn [err_ok fst snd]. destruct (range_ok _ _ _ _ P). destruct (range_ok _ _ _ _ P2).
  apply andb_true_iff. split; apply Nat.leb_le; lia.
Qed.

Lemma M0_eat_semis : forall c fuel s0 s, R s0 s -> M0 s0 (eat_semis c fuel s).
Proof.
  induction fuel; intros; cbn [eat_semis]; [exact I|].
  pose proof (R_at _ _ T_SEMI H) as H1. destruct (p_at s T_SEMI) as [s1 b]. cbn [fst] in H1.
  destruct b; [apply IHfuel; apply R_bump; assumption | simpl; assumption].
Qed.
Lemma M0_eat_string : forall c fuel s0 s, R s0 s -> M0 s0 (eat_string c fuel s).
Proof.
  induction fuel; intros; cbn [eat_string]; [exact I|].
  pose proof (R_at _ _ T_STRC H) as H1. destruct (p_at s T_STRC) as [s1 b1]. cbn [fst] in H1.
  destruct b1.
  - apply IHfuel. apply R_bump. assumption.
  - pose proof (R_at _ _ T_ESCAPE H1) as H2. destruct (p_at s1 T_ESCAPE) as [s2 b2]. cbn [fst] in H2.
    destruct b2; [apply IHfuel; apply R_bump; assumption | simpl; assumption].
Qed.

Lemma M_quoted : forall c fuel s0 s q k, R s0 s -> M s0 (parse_quoted c fuel s q k).
Proof.
  intros. unfold parse_quoted. pose proof (R_at _ _ q H) as H1. destruct (p_at s q) as [s1 b]. cbn [fst] in H1.
  destruct b; cbn [negb]; [|exact I].
  pose proof (R_start _ _ H1) as H2. destruct (p_start s1) as [s2 m]. cbn [fst] in H2.
  pose proof (R_bump c _ _ H2) as H3. cbv zeta.
  apply M_bind0; [apply M0_eat_string; exact H3|]. intros s3 H4.
  apply M_bind0; [apply M0_exp; exact H4|]. intros s4 H5. apply M_complete. exact H5.
Qed.
Lemma M_simple_lit : forall c s0 s k, R s0 s -> M s0 (simple_lit c s k).
Proof.
  intros. unfold simple_lit. pose proof (R_start _ _ H) as H2. destruct (p_start s) as [s2 m]. cbn [fst] in H2.
  apply M_complete. apply R_bump. assumption.
Qed.

Lemma M_ok_start : forall s0 s, R s0 s -> M s0 (Ok (p_start s)).
Proof.
  intros. pose proof (R_start _ _ H) as H1. unfold M. destruct (p_start s) as [s1 m]. exact H1.
Qed.

(* ---- the mutual induction ------------------------------------------------------ *)
Global Hint Resolve R_refl R_at R_at_set R_at_set' R_at_eof R_kind R_start R_bump R_bump_raw R_skip : rdb.
Global Hint Resolve M_complete M_precede M_wrap M_err_nd M_err_rs M_err_noskip M_err_skip M0_exp_nd M0_exp_rs M0_exp
  M0_exp_noskip M0_mark_missing M0_mark_unexpected M0_eat_semis M0_eat_string M_quoted M_simple_lit M0_drop M_ok_start : rdb.

Section Mono.
Variable c : cfg.
Variable tx : list N.

Definition AllM (f : nat) : Prop :=
  (forall s0 s top, R s0 s -> M s0 (parse_decl c tx f s top)) /\
  (forall s0 s repl, R s0 s -> M s0 (parse_stmt c tx f s repl)) /\
  (forall s0 s rs, R s0 s -> M s0 (parse_ty c tx f s rs)) /\
  (forall s0 s rs ddi, R s0 s -> M s0 (parse_for_prefix c tx f s rs ddi)) /\
  (forall s0 s min rs, R s0 s -> M s0 (parse_expr_bp c tx f s min rs)) /\
  (forall s0 s min rs lhs, R s0 s -> M s0 (bp_loop c tx f s min rs lhs)) /\
  (forall s0 s rs, R s0 s -> M s0 (parse_lhs c tx f s rs)) /\
  (forall s0 s rs x dd ddi, R s0 s -> M s0 (parse_post c tx f s rs x dd ddi)) /\
  (forall s0 s rs x dd ddi, R s0 s -> M s0 (post_loop c tx f s rs x dd ddi)) /\
  (forall s0 s, R s0 s -> M0 s0 (args_loop c tx f s)) /\
  (forall s0 s, R s0 s -> M s0 (parse_var_ref c tx f s)) /\
  (forall s0 s rs, R s0 s -> M s0 (parse_lambda c tx f s rs)) /\
  (forall s0 s, R s0 s -> M0 s0 (params_loop c tx f s)) /\
  (forall s0 s rs, R s0 s -> M s0 (parse_paren c tx f s rs)) /\
  (forall s0 s prev rs, R s0 s -> M s0 (parse_cast c tx f s prev rs)) /\
  (forall s0 s rs, R s0 s -> M s0 (parse_struct_decl c tx f s rs)) /\
  (forall s0 s rs, R s0 s -> M0 s0 (struct_decl_loop c tx f s rs)) /\
  (forall s0 s prev rs, R s0 s -> M s0 (parse_struct_literal c tx f s prev rs)) /\
  (forall s0 s rs, R s0 s -> M0 s0 (struct_lit_loop c tx f s rs)) /\
  (forall s0 s rs, R s0 s -> M s0 (parse_enum_decl c tx f s rs)) /\
  (forall s0 s rs, R s0 s -> M0 s0 (enum_loop c tx f s rs)) /\
  (forall s0 s prev rs decl, R s0 s -> M s0 (parse_array_literal c tx f s prev rs decl)) /\
  (forall s0 s rs, R s0 s -> M0 s0 (array_lit_loop c tx f s rs)) /\
  (forall s0 s rs, R s0 s -> M s0 (parse_array_decl c tx f s rs)) /\
  (forall s0 s rs, R s0 s -> M s0 (parse_if c tx f s rs)) /\
  (forall s0 s label rs, R s0 s -> M s0 (parse_loop c tx f s label rs)) /\
  (forall s0 s rs, R s0 s -> M s0 (parse_switch c tx f s rs)) /\
  (forall s0 s rs, R s0 s -> M0 s0 (switch_loop c tx f s rs)) /\
  (forall s0 s label rs, R s0 s -> M s0 (parse_block c tx f s label rs)) /\
  (forall s0 s, R s0 s -> M0 s0 (block_loop c tx f s)) /\
  (forall s0 s, R s0 s -> M s0 (parse_directive c tx f s)).

Ltac solveR := solve [eauto 10 with rdb].

Ltac pairlet :=
  lazymatch goal with
  | |- ?P ?s0 (let (_, _) := ?E in _) =>
      lazymatch E with
      | (if ?b then _ else _) => destruct b
      | (match ?x with _ => _ end) => destruct x
      | (_, _) => cbn beta iota
      | _ =>
          let Hn := fresh "HR" in
          assert (Hn : R s0 (fst E)) by solveR;
          let a := fresh "s" in let b := fresh "b" in
          destruct E as [a b]; cbn [fst] in Hn
      end
  end.

Ltac bindstep :=
  lazymatch goal with
  | |- M _ (bind _ _) =>
      first [ apply M_bind; [| let s1 := fresh "s" in let x := fresh "x" in let H := fresh "HR" in intros s1 x H; cbn beta iota ]
            | apply M_bind0; [| let s1 := fresh "s" in let H := fresh "HR" in intros s1 H; cbn beta iota ]
            | apply M_bindv; let x := fresh "x" in intro x; cbn beta iota ]
  | |- M0 _ (bind _ _) =>
      first [ apply M0_bind; [| let s1 := fresh "s" in let x := fresh "x" in let H := fresh "HR" in intros s1 x H; cbn beta iota ]
            | apply M0_bind0; [| let s1 := fresh "s" in let H := fresh "HR" in intros s1 H; cbn beta iota ]
            | apply M0_bindv; let x := fresh "x" in intro x; cbn beta iota ]
  end.

Ltac leaf :=
  lazymatch goal with
  | |- M _ (Ok (_, _)) => cbn [M]; solveR
  | |- M0 _ (Ok _) => cbn [M0]; solveR
  | |- M _ (Crash _) => exact I
  | |- M0 _ (Crash _) => exact I
  | |- M _ OutOfFuel => exact I
  | |- M0 _ OutOfFuel => exact I
  end.

Ltac headcase :=
  lazymatch goal with
  | |- _ _ (if ?b then _ else _) => destruct b
  | |- _ _ (match ?x with _ => _ end) => destruct x
  end.

Ltac ctxif :=
  match goal with
  | |- context[if ?b then _ else _] => destruct b
  end.

Ltac mono := repeat first [ leaf | solveR | bindstep | pairlet | headcase | ctxif ].

Lemma all_mono : forall f, AllM f.
Proof.
  induction f as [|f IH].
  - unfold AllM. repeat split; intros; exact I.
  - destruct IH as (I1 & I2 & I3 & I4 & I5 & I6 & I7 & I8 & I9 & I10 & I11 & I12 & I13 & I14 & I15 & I16 & I17 & I18
                    & I19 & I20 & I21 & I22 & I23 & I24 & I25 & I26 & I27 & I28 & I29 & I30 & I31).
    unfold AllM. repeat split; intros.
    all: cbn [parse_decl parse_stmt parse_ty parse_for_prefix parse_expr_bp bp_loop parse_lhs parse_post post_loop
              args_loop parse_var_ref parse_lambda params_loop parse_paren parse_cast parse_struct_decl
              struct_decl_loop parse_struct_literal struct_lit_loop parse_enum_decl enum_loop parse_array_literal
              array_lit_loop parse_array_decl parse_if parse_loop parse_switch switch_loop parse_block block_loop
              parse_directive]; cbv zeta; cbn beta.
    all: mono.
Qed.
End Mono.

