(* Proofs for C05: the scope-stack model of body.rs against the stack-free
   environment-passing specification. *)
From Capy Require Import Common.Util Model.Scope Spec.ScopeSpec.

Scheme expr_mind := Induction for expr Sort Prop
with exprs_mind := Induction for exprs Sort Prop
with stmts_mind := Induction for stmts Sort Prop
with arms_mind := Induction for arms Sort Prop
with params_mind := Induction for params Sort Prop.
Combined Scheme syntax_mutind from expr_mind, exprs_mind, stmts_mind, arms_mind, params_mind.

(* Abstraction: the environment a stack state denotes. *)
Definition env_of (s : state) : env := mkenv (inline s) (concat (scopes s)) (sparams s).

Definition nonemptyb {A} (l : list A) : bool := match l with [] => false | _ => true end.

Lemma assoc_app {A} x (a b : list (N * A)) :
  assoc x (a ++ b) = match assoc x a with Some d => Some d | None => assoc x b end.
Proof.
  induction a as [|[y d] a IH]; cbn [assoc app]; auto.
  destruct (N.eqb x y); auto.
Qed.

Lemma look_up_concat x sc : look_up_scopes x sc = assoc x (concat sc).
Proof.
  induction sc as [|s r IH]; cbn [look_up_scopes concat assoc]; auto.
  rewrite assoc_app, IH. reflexivity.
Qed.

Lemma resolve_env_of w s x : lower_var_ref w s x = resolve w (env_of s) x.
Proof.
  unfold lower_var_ref, resolve, env_of; cbn [e_inline e_locals e_params].
  rewrite look_up_concat. reflexivity.
Qed.

Lemma bind_params_nonempty ps acc :
  nonemptyb (bind_params ps acc)
  = match ps with PNil => nonemptyb acc | _ => true end.
Proof.
  revert acc; induction ps as [|l x ct ty rest IH]; intros acc; cbn [bind_params]; auto.
  rewrite IH. destruct rest; reflexivity.
Qed.

Section Main.
Variable fx : bool.
Variable w : world.

Definition P_expr (e : expr) : Prop := forall s,
  wf_expr fx (nonemptyb (inline s)) e = true ->
  lower_expr fx w e s = Ok (s, spec_expr w e (env_of s)).
Definition P_exprs (es : exprs) : Prop := forall s,
  wf_exprs fx (nonemptyb (inline s)) es = true ->
  lower_exprs fx w es s = Ok (s, spec_exprs w es (env_of s)).
Definition P_stmts (ss : stmts) : Prop := forall top rest pa inl,
  wf_stmts fx (nonemptyb inl) ss = true ->
  exists top', lower_stmts fx w ss (mkst (top :: rest) pa inl)
    = Ok (mkst (top' :: rest) pa inl, spec_stmts w ss (env_of (mkst (top :: rest) pa inl))).
Definition P_arms (ars : arms) : Prop := forall arg s,
  (fx = true \/ arg = None) ->
  wf_arms fx (nonemptyb (inline s)) ars = true ->
  lower_arms fx w arg ars s = Ok (s, spec_arms w arg ars (env_of s)).
Definition P_params (ps : params) : Prop := forall keys s,
  wf_params fx (nonemptyb (inline s)) ps = true ->
  lower_params fx w ps keys s
  = Ok (mkst (scopes s) (sparams s) (bind_params ps (inline s)), bind_params ps keys,
        spec_params w ps (env_of s)).


(* Unfolding equations (mutual fixpoints do not refold under cbn). *)
Lemma lower_Block ss s : lower_expr fx w (Block ss) s
  = (do r <- lower_stmts fx w ss (push s); Ok (pop (fst r), snd r)).
Proof. reflexivity. Qed.
Lemma lower_Node es s : lower_expr fx w (Node es) s = lower_exprs fx w es s.
Proof. reflexivity. Qed.
Lemma lower_Switch arg scrut ars s : lower_expr fx w (Switch arg scrut ars) s
  = (do r1 <- lower_expr fx w scrut s;
     do r2 <- lower_arms fx w arg ars (fst r1);
     Ok (fst r2, snd r1 ++ snd r2)).
Proof. reflexivity. Qed.
Lemma lower_Lambda ps ret hasbody ss s : lower_expr fx w (Lambda ps ret hasbody ss) s
  = match inline s with
    | _ :: _ => Crash SITE_ASSERT
    | [] =>
      do r1 <- lower_params fx w ps [] s;
      do r2 <- lower_expr fx w ret (fst (fst r1));
      do r4 <- (if hasbody
                then do r <- lower_stmts fx w ss (push (mkst [] (snd (fst r1)) [])); Ok (pop (fst r), snd r)
                else Ok (mkst [] (snd (fst r1)) [], []));
      Ok (mkst (scopes (fst r2)) (sparams (fst r2)) (inline (fst r4)), snd r1 ++ snd r2 ++ snd r4)
    end.
Proof. reflexivity. Qed.
Lemma lower_Comptime b s : lower_expr fx w (Comptime b) s
  = (do r <- lower_expr fx w b (mkst [] [] (inline s));
     Ok (mkst (scopes s) (sparams s) (inline (fst r)), snd r)).
Proof. reflexivity. Qed.
Lemma lower_ECons e r s : lower_exprs fx w (ECons e r) s
  = (do r1 <- lower_expr fx w e s;
     do r2 <- lower_exprs fx w r (fst r1);
     Ok (fst r2, snd r1 ++ snd r2)).
Proof. reflexivity. Qed.
Lemma lower_STail e s : lower_stmts fx w (STail e) s = lower_expr fx w e s.
Proof. reflexivity. Qed.
Lemma lower_SDef l x ty v rest s : lower_stmts fx w (SDef l x ty v rest) s
  = (do r1 <- lower_expr fx w ty s;
     do r2 <- lower_expr fx w v (fst r1);
     do s3 <- insert_cur x (LDef l) (fst r2);
     do r4 <- lower_stmts fx w rest s3;
     Ok (fst r4, snd r1 ++ snd r2 ++ snd r4)).
Proof. reflexivity. Qed.
Lemma lower_SExpr e rest s : lower_stmts fx w (SExpr e rest) s
  = (do r1 <- lower_expr fx w e s;
     do r2 <- lower_stmts fx w rest (fst r1);
     Ok (fst r2, snd r1 ++ snd r2)).
Proof. reflexivity. Qed.
Lemma lower_ACons arg l variant body rest s : lower_arms fx w arg (ACons l variant body rest) s
  = (do r1 <- lower_expr fx w variant s;
     do s2 <- match arg with
              | None => Ok (if fx then push (fst r1) else fst r1)
              | Some x => insert_cur x (LArm l) (if fx then push (fst r1) else fst r1)
              end;
     do r3 <- lower_expr fx w body s2;
     do r5 <- lower_arms fx w arg rest (if fx then pop (fst r3) else fst r3);
     Ok (fst r5, snd r1 ++ snd r3 ++ snd r5)).
Proof. reflexivity. Qed.
Lemma lower_PCons l x ct ty rest keys s : lower_params fx w (PCons l x ct ty rest) keys s
  = (do r1 <- lower_expr fx w ty s;
     do r <- lower_params fx w rest ((x, mkp l ct) :: keys)
               (mkst (scopes (fst r1)) (sparams (fst r1)) ((x, mkp l ct) :: inline (fst r1)));
     Ok (fst (fst r), snd (fst r), snd r1 ++ snd r)).
Proof. reflexivity. Qed.

Ltac bools :=
  repeat match goal with
  | H : _ && _ = true |- _ => apply andb_prop in H; destruct H
  end.

Lemma model_refines_spec :
  (forall e, P_expr e) /\ (forall es, P_exprs es) /\ (forall ss, P_stmts ss)
  /\ (forall ars, P_arms ars) /\ (forall ps, P_params ps).
Proof.
  apply syntax_mutind; unfold P_expr, P_exprs, P_stmts, P_arms, P_params.
  - (* Var *) intros x s _. cbn [lower_expr]. rewrite resolve_env_of. reflexivity.
  - (* Node *) intros es IH s H. rewrite lower_Node. apply IH. exact H.
  - (* Block *) intros ss IH [sc pa inl] H.
    rewrite lower_Block. unfold push. cbn [scopes sparams inline].
    destruct (IH [] sc pa inl H) as [top' E]. rewrite E. reflexivity.
  - (* Switch *) intros arg scrut IHs ars IHa s H.
    change (((fx || match arg with None => true | Some _ => false end)
             && wf_expr fx (nonemptyb (inline s)) scrut
             && wf_arms fx (nonemptyb (inline s)) ars) = true) in H. bools.
    rewrite lower_Switch. rewrite (IHs s) by assumption. cbn [bind fst snd].
    rewrite (IHa arg s); [reflexivity| |assumption].
    destruct fx; [left; reflexivity|]. cbn [orb] in H. destruct arg; [discriminate|right; reflexivity].
  - (* Lambda *) intros ps IHp ret IHr hasbody ss IHs [sc pa inl] H.
    change ((negb (nonemptyb inl) && wf_params fx false ps
             && wf_expr fx (match ps with PNil => false | _ => true end) ret
             && (if hasbody then wf_stmts fx false ss else true)) = true) in H. bools.
    destruct inl as [|i0 inl]; [|discriminate]. clear H.
    rewrite lower_Lambda. cbn [inline].
    rewrite (IHp [] (mkst sc pa [])) by assumption.
    cbn [bind fst snd scopes sparams inline].
    rewrite (IHr (mkst sc pa (bind_params ps []))).
    2:{ cbn [inline]. rewrite bind_params_nonempty. cbn [nonemptyb]. destruct ps; assumption. }
    cbn [bind fst snd scopes sparams inline].
    destruct hasbody.
    + destruct (IHs [] [] (bind_params ps []) [] H0) as [top' E].
      unfold push. cbn [scopes sparams inline]. rewrite E. reflexivity.
    + cbn [bind fst snd inline]. change (spec_expr w (Lambda ps ret false ss) (env_of (mkst sc pa [])))
        with (spec_params w ps (env_of (mkst sc pa []))
              ++ spec_expr w ret (env_of (mkst sc pa (bind_params ps []))) ++ []).
      reflexivity.
  - (* Comptime *) intros b IH [sc pa inl] H.
    rewrite lower_Comptime. cbn [scopes sparams inline].
    rewrite (IH (mkst [] [] inl)) by exact H. reflexivity.
  - (* ENil *) intros s _. reflexivity.
  - (* ECons *) intros e IHe es IHes s H.
    change ((wf_expr fx (nonemptyb (inline s)) e && wf_exprs fx (nonemptyb (inline s)) es) = true) in H. bools.
    rewrite lower_ECons. rewrite IHe by assumption. cbn [bind fst snd].
    rewrite IHes by assumption. reflexivity.
  - (* STail *) intros e IH top rest pa inl H.
    exists top. rewrite lower_STail. apply IH. exact H.
  - (* SDef *) intros l x ty IHt v IHv rest0 IHr top rest pa inl H.
    change ((wf_expr fx (nonemptyb inl) ty && wf_expr fx (nonemptyb inl) v
             && wf_stmts fx (nonemptyb inl) rest0) = true) in H. bools.
    rewrite lower_SDef.
    rewrite (IHt (mkst (top :: rest) pa inl)) by assumption. cbn [bind fst snd].
    rewrite (IHv (mkst (top :: rest) pa inl)) by assumption. cbn [bind fst snd].
    unfold insert_cur. cbn [scopes sparams inline bind].
    destruct (IHr ((x, LDef l) :: top) rest pa inl H0) as [top' E]. rewrite E.
    exists top'. reflexivity.
  - (* SExpr *) intros e IHe rest0 IHr top rest pa inl H.
    change ((wf_expr fx (nonemptyb inl) e && wf_stmts fx (nonemptyb inl) rest0) = true) in H. bools.
    rewrite lower_SExpr.
    rewrite (IHe (mkst (top :: rest) pa inl)) by assumption. cbn [bind fst snd].
    destruct (IHr top rest pa inl H0) as [top' E]. rewrite E.
    exists top'. reflexivity.
  - (* ANil *) intros arg s _ _. reflexivity.
  - (* ACons *) intros l variant IHv body IHb rest IHr arg [sc pa inl] Hfa H.
    change ((wf_expr fx (nonemptyb inl) variant && wf_expr fx (nonemptyb inl) body
             && wf_arms fx (nonemptyb inl) rest) = true) in H. bools.
    rewrite lower_ACons.
    rewrite (IHv (mkst sc pa inl)) by assumption. cbn [bind fst snd].
    destruct Hfa as [Hf | Ha].
    + subst fx. destruct arg as [x|].
      * unfold insert_cur, push. cbn [scopes sparams inline bind].
        rewrite (IHb (mkst ([(x, LArm l)] :: sc) pa inl)) by assumption.
        unfold pop; cbn [bind fst snd scopes sparams inline tl].
        rewrite (IHr (Some x) (mkst sc pa inl)); auto.
      * unfold push. cbn [scopes sparams inline bind].
        rewrite (IHb (mkst ([] :: sc) pa inl)) by assumption.
        unfold pop; cbn [bind fst snd scopes sparams inline tl].
        rewrite (IHr None (mkst sc pa inl)); auto.
    + subst arg. destruct fx.
      * unfold push. cbn [scopes sparams inline bind].
        rewrite (IHb (mkst ([] :: sc) pa inl)) by assumption.
        unfold pop; cbn [bind fst snd scopes sparams inline tl].
        rewrite (IHr None (mkst sc pa inl)); auto.
      * cbn [bind]. rewrite (IHb (mkst sc pa inl)) by assumption.
        cbn [bind fst snd]. rewrite (IHr None (mkst sc pa inl)); auto.
  - (* PNil *) intros keys [sc pa inl] _. reflexivity.
  - (* PCons *) intros l x ct ty IHt rest IHr keys [sc pa inl] H.
    change ((wf_expr fx (nonemptyb inl) ty && wf_params fx true rest) = true) in H. bools.
    rewrite lower_PCons.
    rewrite (IHt (mkst sc pa inl)) by assumption.
    cbn [bind fst snd scopes sparams inline].
    rewrite (IHr ((x, mkp l ct) :: keys) (mkst sc pa ((x, mkp l ct) :: inl))) by assumption.
    reflexivity.
Qed.

Lemma lower_expr_refines e s :
  wf_expr fx (nonemptyb (inline s)) e = true ->
  lower_expr fx w e s = Ok (s, spec_expr w e (env_of s)).
Proof. apply model_refines_spec. Qed.

(* ---- programs --------------------------------------------------------------- *)

Lemma memN_In x l : memN x l = true <-> In x l.
Proof.
  induction l as [|y r IH]; cbn [memN In]; [split; [discriminate|tauto]|].
  destruct (N.eqb_spec x y); [subst; tauto|].
  rewrite IH. split; [auto|intros [E|E]; [congruence|exact E]].
Qed.

Lemma lower_globals_refines gs : forall seen,
  wf_program fx gs = true ->
  NoDup (map g_name gs) ->
  (forall g, In g gs -> ~ In (g_name g) seen) ->
  lower_globals fx w gs seen init_state = Ok (spec_program w gs).
Proof.
  induction gs as [|g r IH]; intros seen Hwf Hnd Hseen; [reflexivity|].
  cbn [wf_program forallb] in Hwf. apply andb_prop in Hwf. destruct Hwf as [Hg Hr].
  unfold wf_global in Hg. apply andb_prop in Hg. destruct Hg as [Hty Hbody].
  cbn [lower_globals]. unfold lower_global.
  destruct (memN (g_name g) seen) eqn:Em.
  { exfalso. apply (Hseen g (or_introl eq_refl)). apply memN_In. exact Em. }
  rewrite lower_expr_refines by exact Hty. cbn [bind fst snd].
  inversion Hnd as [|? ? Hnotin Hnd']; subst.
  unfold spec_program. cbn [map concat]. unfold spec_global at 1.
  destruct (g_extern g) eqn:Ex.
  - cbn [bind fst snd].
    assert (E : lower_globals fx w r seen init_state = Ok (spec_program w r)).
    { apply IH; auto. intros g' Hin. apply Hseen. right. exact Hin. }
    rewrite E. cbn [bind]. unfold spec_program, env_of, init_state, empty_env.
    cbn [scopes sparams inline concat app]. rewrite app_nil_r. reflexivity.
  - cbn [orb] in Hbody. rewrite lower_expr_refines by exact Hbody. cbn [bind fst snd].
    assert (E : lower_globals fx w r (g_name g :: seen) init_state = Ok (spec_program w r)).
    { apply IH; auto.
      intros g' Hin [E|Hin']; [|exact (Hseen g' (or_intror Hin) Hin')].
      apply Hnotin. rewrite E. apply in_map. exact Hin. }
    rewrite E. cbn [bind]. unfold spec_program, env_of, init_state, empty_env.
    cbn [scopes sparams inline concat app]. reflexivity.
Qed.

Theorem lower_program_refines gs :
  wf_program fx gs = true -> NoDup (map g_name gs) ->
  lower_program fx w gs = Ok (spec_program w gs).
Proof.
  intros Hwf Hnd. unfold lower_program. apply lower_globals_refines; auto.
Qed.

End Main.

(* ---- the scope stack is never empty when something is inserted (code as it is) ---- *)

Definition goodr {A} (Q : A -> Prop) (r : result A) : Prop :=
  match r with Ok a => Q a | Crash c => c <> SITE_SCOPE | OutOfFuel => True end.

Lemma goodr_bind {A B} (Q : A -> Prop) (Q' : B -> Prop) (r : result A) (f : A -> result B) :
  goodr Q r -> (forall a, Q a -> goodr Q' (f a)) -> goodr Q' (bind r f).
Proof. destruct r; cbn [goodr bind]; auto. Qed.

Section NeverEmpty.
Variable w : world.

Definition samelen (s : state) (r : state * list res) : Prop :=
  length (scopes (fst r)) = length (scopes s).

Definition Q_expr (e : expr) : Prop := forall s b,
  guarded b e = true -> (b = true -> scopes s <> []) ->
  goodr (samelen s) (lower_expr false w e s).
Definition Q_exprs (es : exprs) : Prop := forall s b,
  guarded_es b es = true -> (b = true -> scopes s <> []) ->
  goodr (samelen s) (lower_exprs false w es s).
Definition Q_stmts (ss : stmts) : Prop := forall s b,
  guarded_ss b ss = true -> scopes s <> [] ->
  goodr (samelen s) (lower_stmts false w ss s).
Definition Q_arms (ars : arms) : Prop := forall arg s b,
  guarded_as b ars = true -> (b = true -> scopes s <> []) ->
  (b = true \/ arg = None) ->
  goodr (samelen s) (lower_arms false w arg ars s).
Definition Q_params (ps : params) : Prop := forall keys s b,
  guarded_ps b ps = true -> (b = true -> scopes s <> []) ->
  goodr (fun r => length (scopes (fst (fst r))) = length (scopes s)) (lower_params false w ps keys s).

Lemma len_nonempty {A} (l1 l2 : list A) : length l1 = length l2 -> l2 <> [] -> l1 <> [].
Proof. destruct l1, l2; cbn; congruence. Qed.

Ltac bools :=
  repeat match goal with
  | H : _ && _ = true |- _ => apply andb_prop in H; destruct H
  end.

Lemma never_empty_all :
  (forall e, Q_expr e) /\ (forall es, Q_exprs es) /\ (forall ss, Q_stmts ss)
  /\ (forall ars, Q_arms ars) /\ (forall ps, Q_params ps).
Proof.
  apply syntax_mutind; unfold Q_expr, Q_exprs, Q_stmts, Q_arms, Q_params, samelen.
  - (* Var *) intros x s b _ _. cbn [lower_expr goodr fst]. reflexivity.
  - (* Node *) intros es IH s b H Hb. rewrite lower_Node. exact (IH s b H Hb).
  - (* Block *) intros ss IH s b H Hb. rewrite lower_Block.
    change (guarded_ss true ss = true) in H.
    eapply goodr_bind.
    + apply (IH (push s) true H). unfold push. cbn [scopes]. discriminate.
    + intros [s1 o1] E. unfold pop, push in *. cbn [goodr fst snd scopes] in *.
      destruct (scopes s1); cbn [length tl] in *; [discriminate|congruence].
  - (* Switch *) intros arg scrut IHs ars IHa s b H Hb. rewrite lower_Switch.
    change (((b || match arg, ars with Some _, ACons _ _ _ _ => false | _, _ => true end)
             && guarded b scrut && guarded_as b ars) = true) in H.
    apply andb_prop in H as [H H0]. apply andb_prop in H as [H H1].
    eapply goodr_bind; [exact (IHs s b H1 Hb)|].
    intros [s1 o1] E1. cbn [fst snd] in *.
    destruct ars as [|l variant body rest].
    + cbn [lower_arms bind goodr fst]. exact E1.
    + eapply goodr_bind.
      * apply (IHa arg s1 b H0).
        -- intros Hb1. eapply len_nonempty; [exact E1|auto].
        -- destruct b; [left; reflexivity|]. right. cbn [orb] in H. destruct arg; [discriminate|reflexivity].
      * intros [s2 o2] E2. cbn [goodr fst snd] in *. congruence.
  - (* Lambda *) intros ps IHp ret IHr hasbody ss IHs s b H Hb. rewrite lower_Lambda.
    change ((guarded_ps b ps && guarded b ret && guarded_ss true ss) = true) in H.
    apply andb_prop in H as [H H0]. apply andb_prop in H as [H1 H2].
    destruct (inline s); [|cbn [goodr]; discriminate].
    eapply goodr_bind; [exact (IHp [] s b H1 Hb)|].
    intros [[s1 keys] o1] E1. cbn [fst snd] in *.
    eapply goodr_bind.
    + apply (IHr s1 b H2). intros Hb1. eapply len_nonempty; [exact E1|auto].
    + intros [s2 o2] E2. cbn [fst snd] in *.
      eapply goodr_bind with (Q := fun _ => True).
      * destruct hasbody; [|exact I].
        eapply goodr_bind with (Q := fun _ => True); [|intros; exact I].
        assert (G := IHs (push (mkst [] keys [])) true H0).
        unfold push in *. cbn [scopes] in G.
        destruct (lower_stmts false w ss _); cbn [goodr] in *; auto.
        apply G. discriminate.
      * intros r4 _. cbn [goodr fst scopes]. congruence.
  - (* Comptime *) intros c IH s b H Hb. rewrite lower_Comptime.
    change (guarded false c = true) in H.
    eapply goodr_bind with (Q := fun _ => True).
    + assert (G := IH (mkst [] [] (inline s)) false H).
      destruct (lower_expr false w c _); cbn [goodr] in *; auto.
      apply G. discriminate.
    + intros r _. cbn [goodr fst scopes]. reflexivity.
  - (* ENil *) intros s b _ _. reflexivity.
  - (* ECons *) intros e IHe es IHes s b H Hb. rewrite lower_ECons.
    change ((guarded b e && guarded_es b es) = true) in H. apply andb_prop in H as [H H0].
    eapply goodr_bind; [exact (IHe s b H Hb)|].
    intros [s1 o1] E1. cbn [fst snd] in *.
    eapply goodr_bind.
    + apply (IHes s1 b H0). intros Hb1. eapply len_nonempty; [exact E1|auto].
    + intros [s2 o2] E2. cbn [goodr fst snd] in *. congruence.
  - (* STail *) intros e IH s b H Hne. rewrite lower_STail. apply (IH s b H). auto.
  - (* SDef *) intros l x ty IHt v IHv rest IHr s b H Hne. rewrite lower_SDef.
    change ((guarded b ty && guarded b v && guarded_ss b rest) = true) in H.
    apply andb_prop in H as [H H0]. apply andb_prop in H as [H1 H2].
    eapply goodr_bind; [apply (IHt s b H1); auto|].
    intros [s1 o1] E1. cbn [fst snd] in *.
    assert (N1 : scopes s1 <> []) by (eapply len_nonempty; eauto).
    eapply goodr_bind; [apply (IHv s1 b H2); auto|].
    intros [s2 o2] E2. cbn [fst snd] in *.
    assert (N2 : scopes s2 <> []) by (eapply len_nonempty; eauto).
    unfold insert_cur. destruct (scopes s2) as [|top r2] eqn:Es2; [congruence|].
    cbn [bind].
    eapply goodr_bind.
    + apply (IHr _ b H0). cbn [scopes]. discriminate.
    + intros [s4 o4] E4. cbn [goodr fst snd scopes length] in *. congruence.
  - (* SExpr *) intros e IHe rest IHr s b H Hne. rewrite lower_SExpr.
    change ((guarded b e && guarded_ss b rest) = true) in H. apply andb_prop in H as [H H0].
    eapply goodr_bind; [apply (IHe s b H); auto|].
    intros [s1 o1] E1. cbn [fst snd] in *.
    eapply goodr_bind.
    + apply (IHr s1 b H0). eapply len_nonempty; eauto.
    + intros [s2 o2] E2. cbn [goodr fst snd] in *. congruence.
  - (* ANil *) intros arg s b _ _ _. reflexivity.
  - (* ACons *) intros l variant IHv body IHb rest IHr arg s b H Hb Hba. rewrite lower_ACons.
    change ((guarded b variant && guarded b body && guarded_as b rest) = true) in H.
    apply andb_prop in H as [H H0]. apply andb_prop in H as [H1 H2].
    eapply goodr_bind; [exact (IHv s b H1 Hb)|].
    intros [s1 o1] E1. cbn [fst snd] in *.
    assert (N1 : b = true -> scopes s1 <> []) by (intros; eapply len_nonempty; eauto).
    assert (G : goodr (fun s2 => length (scopes s2) = length (scopes s))
                  (match arg with None => Ok s1 | Some x => insert_cur x (LArm l) s1 end)).
    { destruct arg as [x|]; [|exact E1].
      destruct Hba as [Hb1|]; [|discriminate].
      unfold insert_cur. specialize (N1 Hb1).
      destruct (scopes s1) as [|top r1] eqn:Es1; [congruence|].
      cbn [goodr scopes length] in *. exact E1. }
    eapply goodr_bind; [exact G|].
    intros s2 E2. cbv beta in E2.
    eapply goodr_bind.
    + apply (IHb s2 b H2). intros Hb2. eapply len_nonempty; [exact E2|exact (Hb Hb2)].
    + intros [s3 o3] E3. cbn [fst snd] in *.
      eapply goodr_bind.
      * apply (IHr arg s3 b H0); [|exact Hba]. intros Hb2. eapply len_nonempty; [|exact (Hb Hb2)]. congruence.
      * intros [s5 o5] E5. cbn [goodr fst snd] in *. congruence.
  - (* PNil *) intros keys s b _ _. reflexivity.
  - (* PCons *) intros l x ct ty IHt rest IHr keys s b H Hb. rewrite lower_PCons.
    change ((guarded b ty && guarded_ps b rest) = true) in H. apply andb_prop in H as [H H0].
    eapply goodr_bind; [exact (IHt s b H Hb)|].
    intros [s1 o1] E1. cbn [fst snd] in *.
    eapply goodr_bind.
    + apply (IHr _ _ b H0). cbn [scopes]. intros; eapply len_nonempty; eauto.
    + intros [[s3 k3] o3] E3. cbn [goodr fst snd scopes] in *. congruence.
Qed.

Lemma never_empty_globals gs : forall seen s,
  guarded_program gs = true -> scopes s <> [] ->
  lower_globals false w gs seen s <> Crash SITE_SCOPE.
Proof.
  induction gs as [|g r IH]; intros seen s Hg Hne; [discriminate|].
  cbn [guarded_program forallb] in Hg. apply andb_prop in Hg. destruct Hg as [Hg Hr].
  apply andb_prop in Hg. destruct Hg as [Hty Hbody].
  cbn [lower_globals]. unfold lower_global.
  destruct (memN (g_name g) seen).
  { cbn [bind fst snd]. specialize (IH seen s Hr Hne).
    destruct (lower_globals false w r seen s); cbn [bind]; congruence. }
  destruct never_empty_all as [HE _].
  assert (G1 := HE (g_ty g) s true Hty (fun _ => Hne)). unfold samelen in G1.
  destruct (lower_expr false w (g_ty g) s) as [[s1 o1]| |]; cbn [bind goodr fst snd] in *;
    [|congruence|discriminate].
  assert (N1 : scopes s1 <> []) by (eapply len_nonempty; eauto).
  destruct (g_extern g).
  { cbn [bind fst snd]. specialize (IH seen s1 Hr N1).
    destruct (lower_globals false w r seen s1); cbn [bind]; congruence. }
  assert (G2 := HE (g_body g) s1 true Hbody (fun _ => N1)). unfold samelen in G2.
  destruct (lower_expr false w (g_body g) s1) as [[s2 o2]| |]; cbn [bind goodr fst snd] in *;
    [|congruence|discriminate].
  assert (N2 : scopes s2 <> []) by (eapply len_nonempty; eauto).
  specialize (IH (g_name g :: seen) s2 Hr N2).
  destruct (lower_globals false w r (g_name g :: seen) s2); cbn [bind]; congruence.
Qed.

Theorem scope_stack_never_empty gs :
  guarded_program gs = true -> lower_program false w gs <> Crash SITE_SCOPE.
Proof.
  intros H. unfold lower_program. apply never_empty_globals; [exact H|]. discriminate.
Qed.

End NeverEmpty.

(* ---- witnesses: the full statement is false of the code as it is ------------------ *)

Definition full_statement : Prop := forall w gs,
  NoDup (map g_name gs) -> lower_program false w gs = Ok (spec_program w gs).

Definition w0 : world := mkworld [0%N] [4%N] 5%N.
Definition nothing : expr := Node ENil.

(* main :: () { b := ..; switch b in .. { .X => b }  b }   -- names: main = 0, b = 1 *)
Definition leak_prog : list gdef :=
  [mkg 0 nothing false
     (Lambda PNil nothing true
        (SDef 1 1 nothing nothing
           (SExpr (Switch (Some 1%N) nothing (ACons 2 nothing (Var 1) ANil))
              (STail (Var 1)))))].

Lemma leak_witness :
  NoDup (map g_name leak_prog)
  /\ lower_program false w0 leak_prog = Ok [RSwitchArg 2; RSwitchArg 2]
  /\ spec_program w0 leak_prog = [RSwitchArg 2; RLocal 1]
  /\ lower_program true w0 leak_prog = Ok [RSwitchArg 2; RLocal 1].
Proof.
  split; [repeat constructor; intros []|].
  split; [vm_compute; reflexivity|]. split; vm_compute; reflexivity.
Qed.

Lemma full_refuted : ~ full_statement.
Proof.
  intros H. destruct leak_witness as [Hnd [Hm [Hs _]]].
  specialize (H w0 leak_prog Hnd). rewrite Hm, Hs in H. discriminate.
Qed.

(* g :: switch b in .. { .X => .. };  h :: b;     -- the argument leaks into later globals *)
Definition global_leak_prog : list gdef :=
  [mkg 0 nothing false (Switch (Some 1%N) nothing (ACons 7 nothing nothing ANil));
   mkg 2 nothing false (Var 1)].
Lemma global_leak_witness :
  lower_program false w0 global_leak_prog = Ok [RSwitchArg 7]
  /\ spec_program w0 global_leak_prog = [RUndef].
Proof. split; vm_compute; reflexivity. Qed.

(* g :: comptime switch b in .. { .X => .. };   -- empty scope stack, unwrap panics *)
Definition comptime_switch_prog : list gdef :=
  [mkg 0 nothing false (Comptime (Switch (Some 1%N) nothing (ACons 1 nothing nothing ANil)))].
Lemma comptime_switch_witness :
  NoDup (map g_name comptime_switch_prog)
  /\ lower_program false w0 comptime_switch_prog = Crash SITE_SCOPE
  /\ guarded_program comptime_switch_prog = false
  /\ lower_program true w0 comptime_switch_prog = Ok (spec_program w0 comptime_switch_prog).
Proof.
  split; [repeat constructor; intros []|]. split; [vm_compute; reflexivity|].
  split; vm_compute; reflexivity.
Qed.

(* g :: (b: i32, c: (d: i32) -> i32) {};   -- lambda in a header after a named parameter *)
Definition header_lambda_prog : list gdef :=
  [mkg 0 nothing false
     (Lambda (PCons 1 1 false (Var 4)
               (PCons 2 2 false (Lambda (PCons 3 3 false (Var 4) PNil) (Var 4) false (STail nothing)) PNil))
        nothing true (STail nothing))].
Lemma header_lambda_witness :
  NoDup (map g_name header_lambda_prog)
  /\ lower_program false w0 header_lambda_prog = Crash SITE_ASSERT
  /\ lower_program true w0 header_lambda_prog = Crash SITE_ASSERT
  /\ wf_program true header_lambda_prog = false.
Proof.
  split; [repeat constructor; intros []|]. split; [vm_compute; reflexivity|].
  split; vm_compute; reflexivity.
Qed.

(* Non-vacuity: shadowing through every kind of binder, accepted by [wf_program false]. *)
Definition example_prog : list gdef :=
  [mkg 0 nothing false nothing;                                   (* a :: 1 *)
   mkg 9 nothing false                                            (* f :: (comptime a: type, b: a) -> a { *)
     (Lambda (PCons 1 0 true (Var 4) (PCons 2 1 false (Var 0) PNil)) (Var 0) true
        (SExpr (Var 0)                                            (*   a;            comptime param *)
        (SDef 3 0 nothing (Var 0)                                 (*   a := a;       rhs: param, then local *)
        (SExpr (Block (SDef 4 0 nothing (Var 0) (STail (Var 0)))) (*   { a := a; a } *)
        (SExpr (Var 0)
        (SExpr (Lambda (PCons 5 1 false (Var 0) PNil) nothing true (STail (Node (ECons (Var 0) (ECons (Var 1) ENil)))))
        (SExpr (Comptime (Var 0))                                 (*   comptime a    global *)
        (STail (Var 6))))))))) ].                                 (*   zz            undefined *)

Lemma example_ok :
  wf_program false example_prog = true
  /\ lower_program false (mkworld [0%N; 9%N] [4%N] 5%N) example_prog
     = Ok [RPrim; RInline 1; RInline 1; RCtParam 1; RCtParam 1; RLocal 3; RLocal 4; RLocal 3;
           RLocal 3; RGlobal 0; RParam 5; RGlobal 0; RUndef].
Proof. split; vm_compute; reflexivity. Qed.
