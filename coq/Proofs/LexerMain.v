(* C22 main theorems: maximal-munch step, the lexing loop, totality and lex_ok. *)
From Capy Require Import Common.Util Model.UnicodeNd Model.Lexer Spec.LexSpec Proofs.LexerProofs.
Open Scope N_scope.

(* ---- pick: maximal munch ------------------------------------------------------------- *)
Lemma pick_spec cs :
  (fst (pick cs) = 0%nat /\ forall c, In c cs -> fst c = 0%nat) \/
  (fst (pick cs) <> 0%nat /\ In (pick cs) cs).
Proof.
  unfold pick.
  assert (G : forall (cs : list (nat * raw)) (best : nat * raw),
     (fst best = 0%nat \/ True) ->
     let r := fold_left (fun best c => if Nat.ltb (fst best) (fst c) then c else best) cs best in
     (r = best \/ In r cs) /\ (fst best <= fst r)%nat /\ (forall c, In c cs -> (fst c <= fst r)%nat)).
  { clear cs. induction cs as [|c cs IH]; intros best _; cbn [fold_left].
    - repeat split; [left; reflexivity|lia|intros c []].
    - destruct (Nat.ltb_spec (fst best) (fst c)) as [Hlt|Hge].
      + destruct (IH c (or_intror I)) as (Hr & Hle & Hall). repeat split.
        * destruct Hr as [->|Hr]; [right; left; reflexivity|right; right; exact Hr].
        * lia.
        * intros c' [<-|Hc']; [exact Hle|apply Hall; exact Hc'].
      + destruct (IH best (or_intror I)) as (Hr & Hle & Hall). repeat split.
        * destruct Hr as [Hr|Hr]; [left; exact Hr|right; right; exact Hr].
        * exact Hle.
        * intros c' [<-|Hc']; [lia|apply Hall; exact Hc']. }
  destruct (G cs (0%nat, RPlain KError) (or_introl eq_refl)) as (Hr & _ & Hall).
  set (r := fold_left _ cs _) in *.
  destruct (Nat.eq_dec (fst r) 0) as [E|E].
  - left. split; [exact E|]. intros c Hc. specialize (Hall c Hc). lia.
  - right. split; [exact E|]. destruct Hr as [Hr|Hr]; [rewrite Hr in E; cbn in E; contradiction|exact Hr].
Qed.

Lemma puncts_closed : forallb (fun c => mem_list [c] puncts) (first_chars puncts) = true.
Proof. vm_compute. reflexivity. Qed.

Lemma m_punct_ge p l : In p puncts -> is_prefix p l = true -> (length p <= m_punct l)%nat.
Proof.
  unfold m_punct. intros Hin Hp.
  assert (G : forall tbl best,
     let f := fun best p => if andb (is_prefix p l) (Nat.ltb best (length p)) then length p else best in
     (best <= fold_left f tbl best)%nat /\ (In p tbl -> (length p <= fold_left f tbl best)%nat)).
  { induction tbl as [|x tbl IH]; intros best f; cbn [fold_left]; [split; [lia|intros []]|].
    destruct (IH (f best x)) as (H1 & H2). fold f in H1, H2.
    assert (Hb : (best <= f best x)%nat).
    { unfold f. destruct (is_prefix x l); cbn [andb]; [|lia]. destruct (Nat.ltb_spec best (length x)); lia. }
    split; [lia|]. intros [->|Hx]; [|apply H2; exact Hx].
    assert (Hp' : (length p <= f best p)%nat).
    { unfold f. rewrite Hp. cbn [andb]. destruct (Nat.ltb_spec best (length p)); lia. }
    lia. }
  apply G. exact Hin.
Qed.

Lemma m_word_zero c r : m_word (c :: r) = 0%nat -> is_alpha_ c = false.
Proof. unfold m_word. destruct (is_alpha_ c); [discriminate|reflexivity]. Qed.
Lemma m_ws_zero c r : m_ws (c :: r) = 0%nat -> is_ws c = false.
Proof. unfold m_ws. cbn [span]. destruct (is_ws c); [discriminate|reflexivity]. Qed.
Lemma m_nbsp_zero c r : m_nbsp (c :: r) = 0%nat -> N.eqb c 160 = false.
Proof. unfold m_nbsp. destruct (N.eqb c 160); [discriminate|reflexivity]. Qed.
Lemma m_quoted_zero q c r : m_quoted q (c :: r) = 0%nat -> N.eqb c q = false.
Proof. unfold m_quoted. destruct (N.eqb c q); [discriminate|reflexivity]. Qed.
Lemma m_int_zero c r : m_int (c :: r) = 0%nat -> is_digit c = false.
Proof. unfold m_int, m_digits. destruct (is_digit c); [discriminate|reflexivity]. Qed.
Lemma m_punct_zero c r : m_punct (c :: r) = 0%nat -> existsb (N.eqb c) (first_chars puncts) = false.
Proof.
  intros Hp. destruct (existsb (N.eqb c) (first_chars puncts)) eqn:He; [|reflexivity].
  exfalso. apply existsb_exists in He as (x & Hx & Hcx). apply N.eqb_eq in Hcx. subst x.
  pose proof (forallb_lift _ _ puncts_closed c Hx) as Hm. cbn beta in Hm.
  unfold mem_list in Hm. apply existsb_exists in Hm as (p & Hp1 & Hp2). apply list_eqb_eq in Hp2. subst p.
  pose proof (m_punct_ge [c] (c :: r) Hp1) as Hge. cbn [is_prefix] in Hge. rewrite N.eqb_refl in Hge.
  specialize (Hge eq_refl). cbn [length] in Hge. lia.
Qed.

Lemma candidates_fsts l : map fst (candidates l) =
  [m_word l; m_punct l; m_float l; m_int l; m_hex l; m_bin l; m_quoted 34 l; m_quoted 39 l; m_comment l; m_ws l; m_nbsp l].
Proof. reflexivity. Qed.

Lemma all_zero_cannot_start c r :
  (forall x, In x (candidates (c :: r)) -> fst x = 0%nat) -> can_start c = false.
Proof.
  intros H.
  assert (H' : forall n, In n (map fst (candidates (c :: r))) -> n = 0%nat).
  { intros n Hn. apply in_map_iff in Hn as (x & <- & Hx). apply H. exact Hx. }
  rewrite candidates_fsts in H'. clear H.
  unfold can_start.
  rewrite (m_ws_zero c r), (m_nbsp_zero c r), (m_word_zero c r), (m_int_zero c r), (m_punct_zero c r),
          (m_quoted_zero 34 c r), (m_quoted_zero 39 c r); [reflexivity| | | | | | |];
    apply H'; cbn [In]; tauto.
Qed.

Local Opaque m_word m_punct m_float m_int m_hex m_bin m_quoted m_comment m_ws m_nbsp word_kind.

Lemma lex_step_cover l pos : l <> [] ->
  fst (lex_step l) <> 0%nat /\
  Cover pos (firstn (fst (lex_step l)) l) (emit (snd (lex_step l)) pos (firstn (fst (lex_step l)) l))
        (pos + byte_len (firstn (fst (lex_step l)) l)).
Proof.
  intros Hne. unfold lex_step.
  destruct (pick_spec (candidates l)) as [[Hz Hall]|[Hnz Hin]].
  - destruct (pick (candidates l)) as [n r]. cbn [fst] in Hz. subst n. cbn [fst snd].
    split; [discriminate|]. destruct l as [|c rest]; [contradiction|]. cbn [firstn].
    apply plain_cover. cbn [kind_ok]. rewrite (all_zero_cannot_start c rest Hall). reflexivity.
  - destruct (pick (candidates l)) as [n r] eqn:Hpk. cbn [fst] in Hnz.
    destruct n as [|n']; [contradiction|]. cbn [fst snd]. split; [discriminate|].
    unfold candidates in Hin. cbn [In] in Hin.
    repeat (destruct Hin as [Hin|Hin]; [apply pair_equal_spec in Hin as [Hn Hr]; subst r|]); try contradiction.
    + rewrite <- Hn. apply plain_cover. apply word_sound. rewrite Hn. discriminate.
    + rewrite <- Hn. apply plain_cover. apply punct_sound. rewrite Hn. discriminate.
    + rewrite <- Hn. apply plain_cover. apply float_sound. rewrite Hn. discriminate.
    + rewrite <- Hn. apply plain_cover. apply int_sound. rewrite Hn. discriminate.
    + rewrite <- Hn. apply plain_cover. apply hex_sound. rewrite Hn. discriminate.
    + rewrite <- Hn. apply plain_cover. apply bin_sound. rewrite Hn. discriminate.
    + rewrite <- Hn. cbn [emit]. apply quoted_cover; [reflexivity|discriminate|discriminate|rewrite Hn; discriminate].
    + rewrite <- Hn. cbn [emit]. apply quoted_cover; [reflexivity|discriminate|discriminate|rewrite Hn; discriminate].
    + rewrite <- Hn. cbn [emit]. apply comment_cover. rewrite Hn. discriminate.
    + rewrite <- Hn. apply plain_cover. apply ws_sound. rewrite Hn. discriminate.
    + rewrite <- Hn. apply plain_cover. apply nbsp_sound. rewrite Hn. discriminate.
Qed.

(* ---- the loop: total, and its output covers the input ----------------------------------- *)
Lemma skipn_shorter {A} n (l : list A) : n <> 0%nat -> l <> [] -> (length (skipn n l) < length l)%nat.
Proof.
  intros Hn Hl. destruct l as [|x l]; [contradiction|]. destruct n as [|n]; [contradiction|].
  cbn [skipn length]. pose proof (skipn_length n l). lia.
Qed.

Lemma lex_loop_S fuel pos l : l <> [] ->
  lex_loop (S fuel) pos l =
  let '(n, r) := lex_step l in
  match lex_loop fuel (pos + byte_len (firstn n l)) (skipn n l) with
  | Ok toks => Ok (emit r pos (firstn n l) ++ toks)
  | Crash s => Crash s
  | OutOfFuel => OutOfFuel
  end.
Proof. destruct l; [contradiction|reflexivity]. Qed.

Lemma lex_loop_cover fuel : forall l pos, (length l <= fuel)%nat ->
  exists toks, lex_loop fuel pos l = Ok toks /\ Cover pos l toks (pos + byte_len l).
Proof.
  induction fuel as [|fuel IH]; intros l pos Hl.
  - destruct l; [|cbn in Hl; lia]. exists []. split; [reflexivity|]. cbn. rewrite N.add_0_r. constructor.
  - destruct (list_eq_dec N.eq_dec l []) as [->|Hne].
    + exists []. split; [reflexivity|]. cbn. rewrite N.add_0_r. constructor.
    + destruct (lex_step_cover l pos Hne) as (Hn & Hc).
      rewrite (lex_loop_S fuel pos l Hne).
      destruct (lex_step l) as [n rw] eqn:Hst. cbn [fst snd] in *.
      pose proof (skipn_shorter n l Hn Hne) as Hsh.
      destruct (IH (skipn n l) (pos + byte_len (firstn n l)) ltac:(lia)) as (toks & Ht & Hcov).
      rewrite Ht. eexists. split; [reflexivity|].
      assert (Hb : byte_len l = byte_len (firstn n l) + byte_len (skipn n l))
        by (rewrite <- byte_len_app, firstn_skipn; reflexivity).
      rewrite Hb, N.add_assoc.
      rewrite <- (firstn_skipn n l) at 1.
      eapply cover_app; eassumption.
Qed.

(* Main theorem: lexing never runs out of fuel or crashes, and the token sequence
   satisfies the specification (contiguous cover from 0 to the byte length, every
   boundary a character boundary, every kind agreeing with its text). *)
Theorem lex_total_and_ok txt :
  exists toks, lex txt = Ok (toks, byte_len txt) /\ lex_ok txt toks (byte_len txt) = true.
Proof.
  unfold lex, lex_ok. destruct (lex_loop_cover (length txt) txt 0 (le_n _)) as (toks & Ht & Hc).
  rewrite Ht. exists toks. split; [reflexivity|]. rewrite N.eqb_refl. cbn [andb].
  rewrite N.add_0_l in Hc. apply cover_toks_ok. exact Hc.
Qed.

(* Losslessness stated directly: the texts the tokens cut out of the input
   concatenate to the input. *)
Fixpoint token_texts (pos : N) (l : list cp) (toks : list (kind * N)) (endp : N) : option (list (list cp)) :=
  match toks with
  | [] => match l with [] => Some [] | _ => None end
  | (k, s) :: rest =>
      let stop := match rest with (_, s') :: _ => s' | [] => endp end in
      match cut pos stop l with
      | Some (text, l') => match token_texts stop l' rest endp with
                           | Some ts => Some (text :: ts)
                           | None => None
                           end
      | None => None
      end
  end.

Lemma cut_concat pos stop l a b : cut pos stop l = Some (a, b) -> a ++ b = l.
Proof.
  revert pos a b; induction l as [|c r IH]; intros pos a b H; cbn [cut] in H.
  - destruct (N.eqb pos stop); inversion H; reflexivity.
  - destruct (N.eqb pos stop); [inversion H; reflexivity|].
    destruct (N.ltb stop pos); [discriminate|].
    destruct (cut (pos + utf8_len c) stop r) as [[a' b']|] eqn:E; [|discriminate].
    inversion H; subst. cbn. f_equal. eapply IH. exact E.
Qed.

Theorem toks_ok_lossless toks : forall pos l endp,
  toks_ok pos l toks endp = true ->
  exists ts, token_texts pos l toks endp = Some ts /\ concat ts = l /\ length ts = length toks.
Proof.
  induction toks as [|[k s] rest IH]; intros pos l endp H; cbn [toks_ok token_texts] in *.
  - apply andb_true_iff in H as [_ H]. destruct l; [|discriminate]. exists []. repeat split.
  - apply andb_true_iff in H as [_ H].
    destruct (cut pos _ l) as [[text l']|] eqn:E; [|discriminate].
    apply andb_true_iff in H as [_ H]. destruct (IH _ _ _ H) as (ts & Hts & Hc & Hl).
    rewrite Hts. exists (text :: ts). repeat split; [|cbn; lia].
    cbn [concat]. rewrite Hc. eapply cut_concat. exact E.
Qed.
