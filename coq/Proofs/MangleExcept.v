(* C27 — every collision of the MODEL between two well-formed descriptors of
   different entities is explained by the known mechanisms: the classifier
   [explain_collision] returns a non-empty list that does not contain 0
   ("unexplained").  No bound on paths, names or indices.

   String level: Proofs/MangleCollide.v (only the digit escape).  Here: the
   get_components level — equal (or escape-related) component lists come only
   from '.'/'-' replacement, `.capy` stripping and the `src` dropping rule. *)
From Capy Require Import Common.Util Model.Mangle Spec.MangleSpec Proofs.MangleProofs Proofs.MangleCollide.
From Coq Require Import Decimal DecimalN.

(* ---------- small facts ------------------------------------------------------------- *)
Lemma str_eqb_false : forall a b, str_eqb a b = false -> a <> b.
Proof. intros a b H ->. rewrite str_eqb_refl in H. discriminate. Qed.

Lemma dec_inj : forall i j, dec i = dec j -> i = j.
Proof. intros i j H. apply (f_equal parse_dec) in H. rewrite !parse_dec_dec in H. congruence. Qed.

Lemma code_inj : forall k k', (code k =? code k')%N = true -> k = k'.
Proof. destruct k, k'; intros H; try reflexivity; vm_compute in H; discriminate. Qed.

Lemma code_refl : forall k, (code k =? code k)%N = true.
Proof. intros. apply N.eqb_refl. Qed.

Lemma esc_rel_len : forall k x y, esc_rel k x y = true -> length y = S (length x).
Proof.
  intros k x y H. unfold esc_rel in H. destruct x as [|c x']; [discriminate|].
  apply andb_true_iff in H. destruct H as [_ H]. apply str_eqb_eq in H. subst y. reflexivity.
Qed.

Lemma esc_any_len : forall x y, esc_any x y = true -> length x <> length y.
Proof.
  intros x y H. unfold esc_any in H.
  repeat (apply orb_true_iff in H; destruct H as [H|H]); apply esc_rel_len in H; lia.
Qed.

(* ---------- norm_component = dashify after stripping ---------------------------------- *)
Lemma norm_dashify : forall c, norm_component c = dashify (strip_of c).
Proof.
  intros c. unfold norm_component, strip_of. destruct (contains_dot c) eqn:E; [reflexivity|].
  symmetry. apply dashify_no_dot. unfold no_dot. rewrite E. reflexivity.
Qed.

Lemma norm_len : forall c, length (norm_component c) = length (strip_of c).
Proof. intros. rewrite norm_dashify. unfold dashify. apply map_length. Qed.

Lemma strip_inj : forall a b, strip_of a = strip_of b -> was_stripped a = was_stripped b -> a = b.
Proof.
  intros a b Hs Hw. unfold strip_of, was_stripped in *.
  destruct (contains_dot a); destruct (strip_capy a) as [sa|] eqn:Ea;
    destruct (contains_dot b); destruct (strip_capy b) as [sb|] eqn:Eb;
    cbn [andb] in Hw; try discriminate; subst; try reflexivity.
  apply strip_capy_some in Ea. apply strip_capy_some in Eb. congruence.
Qed.

(* a raw component pair that the classifier does not flag and that normalises to the same
   text is the same component *)
Lemma explain_comp_nil : forall a b, explain_comp a b = [] -> norm_component a = norm_component b -> a = b.
Proof.
  intros a b H Hn. unfold explain_comp in H.
  destruct (str_eqb a b) eqn:E; [apply str_eqb_eq; exact E|].
  apply app_eq_nil in H. destruct H as [H5 HX].
  destruct (Bool.eqb (was_stripped a) (was_stripped b)) eqn:Ew; [|discriminate].
  apply eqb_prop in Ew.
  destruct (str_eqb (strip_of a) (strip_of b)) eqn:Es.
  - apply str_eqb_eq in Es. apply strip_inj; assumption.
  - cbn [orb] in HX. destruct (esc_any (strip_of a) (strip_of b)) eqn:Ee.
    + exfalso. apply esc_any_len in Ee. apply Ee. rewrite <- !norm_len, Hn. reflexivity.
    + destruct (str_eqb (dashify (strip_of a)) (dashify (strip_of b)) || esc_any (dashify (strip_of a)) (dashify (strip_of b)));
        discriminate.
Qed.

Lemma explain_comps_nil : forall r1 r2, explain_comps r1 r2 = [] ->
  map norm_component r1 = map norm_component r2 -> r1 = r2.
Proof.
  induction r1 as [|a r1 IH]; destruct r2 as [|b r2]; cbn [explain_comps map]; intros H Hm;
    try discriminate; auto.
  apply app_eq_nil in H. destruct H as [H1 H2]. injection Hm as Ha Hr.
  f_equal; [apply explain_comp_nil; assumption | apply IH; assumption].
Qed.

(* related normalised texts are never "unexplained" *)
Definition Rn (x y : str) : Prop := x = y \/ esc_any x y = true.

Lemma explain_comp_no0 : forall a b, Rn (norm_component a) (norm_component b) -> ~ In 0%N (explain_comp a b).
Proof.
  intros a b HR. unfold explain_comp.
  destruct (str_eqb a b); [intros []|].
  rewrite in_app_iff. intros [H|H].
  - destruct (Bool.eqb (was_stripped a) (was_stripped b)); cbn in H; [tauto|]. destruct H as [H|[]]; discriminate.
  - destruct (str_eqb (strip_of a) (strip_of b) || esc_any (strip_of a) (strip_of b)); [destruct H|].
    rewrite <- !norm_dashify in H.
    destruct (str_eqb (norm_component a) (norm_component b) || esc_any (norm_component a) (norm_component b)) eqn:E.
    + destruct H as [H|[]]; discriminate.
    + apply orb_false_iff in E. destruct E as [E1 E2]. destruct HR as [HR|HR].
      * rewrite HR, str_eqb_refl in E1. discriminate.
      * congruence.
Qed.

Lemma explain_comps_no0 : forall r1 r2,
  Forall2 Rn (map norm_component r1) (map norm_component r2) -> ~ In 0%N (explain_comps r1 r2).
Proof.
  induction r1 as [|a r1 IH]; destruct r2 as [|b r2]; cbn [map explain_comps]; intros H; inversion H; subst.
  - intros [].
  - rewrite in_app_iff. intros [H0|H0]; [eapply explain_comp_no0; eauto | eapply IH; eauto].
Qed.

(* ---------- parts level ----------------------------------------------------------------- *)
Lemma explain_parts_nil : forall p q, explain_parts p q = [] -> p = q.
Proof.
  induction p as [|[k a] p IH]; destruct q as [|[k' b] q]; cbn [explain_parts]; intros H; try discriminate; auto.
  apply app_eq_nil in H. destruct H as [H1 H2].
  destruct (code k =? code k')%N eqn:Ek; [|discriminate].
  apply code_inj in Ek. subst k'. unfold explain_text in H1.
  destruct (str_eqb a b) eqn:E.
  - apply str_eqb_eq in E. subst b. f_equal. apply IH. exact H2.
  - destruct (esc_rel k a b || esc_rel k b a); discriminate.
Qed.

Lemma explain_parts_no0 : forall p q, Forall2 part_rel p q -> ~ In 0%N (explain_parts p q).
Proof.
  induction 1 as [|[k a] [k' b] p q [Hk Hr] _ IH]; cbn [explain_parts]; [intros []|].
  cbn [fst snd] in Hk, Hr. subst k'. rewrite code_refl, in_app_iff. intros [H0|H0]; [|exact (IH H0)].
  unfold explain_text in H0. destruct (str_eqb a b) eqn:E; [destruct H0|].
  destruct Hr as [Hr|[Hr|Hr]].
  - subst b. rewrite str_eqb_refl in E. discriminate.
  - rewrite Hr in H0. cbn [orb] in H0. destruct H0 as [H0|[]]; discriminate.
  - rewrite Hr, orb_true_r in H0. destruct H0 as [H0|[]]; discriminate.
Qed.

(* ---------- decomposition of all_parts ---------------------------------------------------- *)
Definition optl (m : option str) : list part := match m with Some x => [(KModule, x)] | None => [] end.

Definition fin_head_ok (fin : list part) : Prop :=
  match fin with (KName, _) :: _ => True | (KLambda, _) :: _ => True | _ => False end.

Lemma files_F2 : forall (R : part -> part -> Prop), (forall p q, R p q -> fst p = fst q) ->
  forall s1 s2 fin1 fin2, fin_head_ok fin1 -> fin_head_ok fin2 ->
  Forall2 R (map file_part s1 ++ fin1) (map file_part s2 ++ fin2) ->
  Forall2 R (map file_part s1) (map file_part s2) /\ Forall2 R fin1 fin2.
Proof.
  intros R HR. induction s1 as [|x s1 IH]; destruct s2 as [|y s2]; cbn [map Datatypes.app]; intros fin1 fin2 H1 H2 H.
  - split; [constructor | exact H].
  - exfalso. destruct fin1 as [|[k t] r]; [contradiction|]. inversion H; subst.
    match goal with Hh : R _ _ |- _ => apply HR in Hh; cbn [fst file_part] in Hh end.
    subst k. contradiction.
  - exfalso. destruct fin2 as [|[k t] r]; [contradiction|]. inversion H; subst.
    match goal with Hh : R _ _ |- _ => apply HR in Hh; cbn [fst file_part] in Hh end.
    subst k. contradiction.
  - inversion H; subst. destruct (IH s2 fin1 fin2 H1 H2) as [Ha Hb]; [assumption|].
    split; [constructor; assumption | exact Hb].
Qed.

Lemma all_parts_F2 : forall (R : part -> part -> Prop), (forall p q, R p q -> fst p = fst q) ->
  forall mn1 s1 fin1 mn2 s2 fin2, fin_head_ok fin1 -> fin_head_ok fin2 ->
  Forall2 R (all_parts mn1 s1 fin1) (all_parts mn2 s2 fin2) ->
  Forall2 R (optl mn1) (optl mn2) /\ Forall2 R (map file_part s1) (map file_part s2) /\ Forall2 R fin1 fin2.
Proof.
  intros R HR mn1 s1 fin1 mn2 s2 fin2 H1 H2 H. unfold all_parts in H.
  destruct mn1 as [m1|]; destruct mn2 as [m2|]; cbn [Datatypes.app optl] in *.
  - inversion H; subst. destruct (files_F2 R HR s1 s2 fin1 fin2 H1 H2) as [Ha Hb]; [assumption|].
    split; [constructor; [assumption | constructor] | split; assumption].
  - exfalso. inversion H as [|p q l l' Hpq Hl Ep Eq]; subst.
    destruct s2 as [|y s2]; cbn [map Datatypes.app] in Eq.
    + destruct fin2 as [|[k t] r]; [contradiction|]. injection Eq as Eq _. subst q.
      apply HR in Hpq. cbn [fst] in Hpq. subst k. contradiction.
    + injection Eq as Eq _. subst q. apply HR in Hpq. cbn [fst file_part] in Hpq. discriminate.
  - exfalso. inversion H as [|p q l l' Hpq Hl Ep Eq]; subst.
    destruct s1 as [|y s1]; cbn [map Datatypes.app] in Ep.
    + destruct fin1 as [|[k t] r]; [contradiction|]. injection Ep as Ep _. subst p.
      apply HR in Hpq. cbn [fst] in Hpq. subst k. contradiction.
    + injection Ep as Ep _. subst p. apply HR in Hpq. cbn [fst file_part] in Hpq. discriminate.
  - destruct (files_F2 R HR s1 s2 fin1 fin2 H1 H2 H) as [Ha Hb]. split; [constructor | split; assumption].
Qed.

Lemma final_head_ok : forall d, fin_head_ok (final_parts d).
Proof. intros [[f n|f i [[gf gn]|]] g t]; exact I. Qed.

(* ---------- get_components against rel_split ----------------------------------------------- *)
Lemma components_rel_split : forall e f mn subs, get_components e f = Ok (mn, subs) ->
  exists m d rest, rel_split e f = Some (m, d, rest)
    /\ map snd (optl mn) ++ subs = map norm_component rest
    /\ (m = false -> mn = None) /\ (m = true -> rest <> [] -> mn <> None).
Proof.
  intros e f mn subs H. unfold get_components in H. unfold rel_split.
  destruct (strip_prefix f (mod_dir e)) as [rel|] eqn:Em.
  - destruct (strip_prefix_sub _ _ _ Em) as [Hs _]. rewrite Hs in *. cbn [bind] in H.
    destruct rel as [|a [|b r]].
    + cbn in H. inversion H; subst. exists true, None, []. repeat split; auto; congruence.
    + cbn in H. inversion H; subst. exists true, None, [a]. repeat split; auto; congruence.
    + cbn [map] in H. destruct (str_eqb b s_src) eqn:Eb.
      * inversion H; subst. exists true, (Some b), (a :: r). repeat split; auto; congruence.
      * inversion H; subst. exists true, None, (a :: b :: r). repeat split; auto; congruence.
  - rewrite (strip_prefix_none _ _ Em) in *.
    destruct (strip_prefix f (cur_dir e)) as [rel|] eqn:Ec.
    + destruct (strip_prefix_sub _ _ _ Ec) as [Hs _]. rewrite Hs in H. cbn [bind] in H.
      destruct rel as [|a [|b r]].
      * cbn in H. inversion H; subst. exists false, None, []. repeat split; auto; congruence.
      * cbn in H. inversion H; subst. exists false, None, [a]. repeat split; auto; congruence.
      * cbn [map] in H. destruct (str_eqb b s_src) eqn:Eb.
        -- inversion H; subst. exists false, (Some a), (b :: r). repeat split; auto; congruence.
        -- inversion H; subst. exists false, None, (a :: b :: r). repeat split; auto; congruence.
    + rewrite (strip_prefix_none _ _ Ec) in H. discriminate.
Qed.

Definition unsplit (m : bool) (d : option str) (rest : list str) : list str :=
  match d with
  | None => rest
  | Some x => if m then match rest with a :: r => a :: x :: r | [] => [x] end else x :: rest
  end.

Lemma rel_split_file : forall e f m d rest, rel_split e f = Some (m, d, rest) ->
  f = (if m then mod_dir e else cur_dir e) ++ unsplit m d rest.
Proof.
  intros e f m d rest H. unfold rel_split in H.
  destruct (is_sub_dir_of f (mod_dir e)) eqn:Es.
  - destruct (strip_prefix f (mod_dir e)) as [rel|] eqn:Em; [|discriminate].
    destruct (strip_prefix_sub _ _ _ Em) as [_ Hf].
    destruct rel as [|a [|b r]]; cbn in H.
    + inversion H; subst; reflexivity.
    + inversion H; subst; reflexivity.
    + destruct (str_eqb b s_src); inversion H; subst; reflexivity.
  - destruct (strip_prefix f (cur_dir e)) as [rel|] eqn:Ec; [|discriminate].
    destruct (strip_prefix_sub _ _ _ Ec) as [_ Hf].
    destruct rel as [|a [|b r]]; cbn in H.
    + inversion H; subst; reflexivity.
    + inversion H; subst; reflexivity.
    + destruct (str_eqb b s_src); inversion H; subst; reflexivity.
Qed.

Lemma rel_split_inj : forall e f g t, rel_split e f = Some t -> rel_split e g = Some t -> f = g.
Proof.
  intros e f g [[m d] rest] Hf Hg.
  rewrite (rel_split_file _ _ _ _ _ Hf), (rel_split_file _ _ _ _ _ Hg). reflexivity.
Qed.

Lemma opt_str_eqb_eq : forall a b, opt_str_eqb a b = true -> a = b.
Proof. intros [x|] [y|] H; cbn in H; try discriminate; auto. apply str_eqb_eq in H. congruence. Qed.

(* ---------- final parts ---------------------------------------------------------------------- *)
Ltac dec_inj_all :=
  repeat match goal with H : dec _ = dec _ |- _ => apply dec_inj in H; subst end.

Lemma finals_inj : forall d1 d2, final_parts d1 = final_parts d2 ->
  snd (base_file_part (d_base d1)) = snd (base_file_part (d_base d2))
  /\ d_generic d1 = d_generic d2 /\ d_tail d1 = d_tail d2.
Proof.
  intros [b1 g1 t1] [b2 g2 t2]. unfold final_parts. cbn [d_base d_generic d_tail]. intros H.
  injection H as Hh Ht. split; [exact Hh|].
  destruct g1, g2, t1, t2; cbn [generic_parts tail_parts Datatypes.app] in Ht; try discriminate;
    inversion Ht; dec_inj_all; auto.
Qed.

Definition ebase (b : base) : base :=
  match b with BLambda _ _ (Some (gf, gn)) => BGlobal gf gn | _ => b end.

Lemma entity_ebase : forall d,
  entity d = {| d_base := ebase (d_base d); d_generic := d_generic d; d_tail := d_tail d |}.
Proof. intros [[f n|f i [[gf gn]|]] g t]; reflexivity. Qed.

Lemma ebase_inj : forall b1 b2, base_file_part b1 = base_file_part b2 -> ebase b1 = ebase b2.
Proof.
  intros [f n|f i [[gf gn]|]] [f' n'|f' i' [[gf' gn']|]]; cbn [base_file_part ebase]; intros H;
    inversion H; dec_inj_all; reflexivity.
Qed.

(* ---------- well-formedness gives non-empty parts ------------------------------------------------- *)
Lemma WF_file : forall e d, WF e d = true -> wf_file e (fst (base_file_part (d_base d))) = true.
Proof.
  intros e d H. unfold WF in H. apply andb_true_iff in H. destruct H as [H _].
  destruct d as [[f n|f i [[gf gn]|]] g t]; cbn [d_base base_file_part fst] in *.
  - apply andb_true_iff in H. tauto.
  - apply andb_true_iff in H. destruct H as [H _]. apply andb_true_iff in H. tauto.
  - exact H.
Qed.

Lemma WF_first : forall e d, WF e d = true -> nonempty (snd (base_file_part (d_base d))).
Proof.
  intros e d H. unfold WF in H. apply andb_true_iff in H. destruct H as [H _].
  destruct d as [[f n|f i [[gf gn]|]] g t]; cbn [d_base base_file_part snd] in *; unfold nonempty; cbn [snd].
  - apply andb_true_iff in H. destruct H as [_ H]. destruct n; [discriminate | congruence].
  - apply andb_true_iff in H. destruct H as [_ H]. destruct gn; [discriminate | congruence].
  - destruct (dec_hd i) as (c & r & E & _). rewrite E. discriminate.
Qed.

Lemma WF_tail : forall e d, WF e d = true -> Forall nonempty (generic_parts (d_generic d) ++ tail_parts (d_tail d)).
Proof.
  intros e [b g t] H. unfold WF in H. apply andb_true_iff in H. destruct H as [_ H]. cbn [d_generic d_tail] in *.
  assert (Hd : forall k n, nonempty (k, dec n)).
  { intros k n. unfold nonempty. cbn [snd]. destruct (dec_hd n) as (c & r & E & _). rewrite E. discriminate. }
  apply Forall_app. split.
  - destruct g; cbn [generic_parts]; repeat constructor. apply Hd.
  - destruct t; cbn [tail_parts]; repeat constructor; try apply Hd.
    unfold nonempty. cbn [snd]. destruct name; [discriminate | congruence].
Qed.

Lemma wf_file_rest : forall e f, wf_file e f = true ->
  exists m d rest, rel_split e f = Some (m, d, rest) /\ rest <> []
                   /\ Forall (fun c => norm_component c <> []) rest.
Proof.
  intros e f H. unfold wf_file in H. apply andb_true_iff in H. destruct H as [H _].
  apply andb_true_iff in H. destruct H as [_ H].
  destruct (rel_split e f) as [[[m d] rest]|]; [|discriminate].
  apply andb_true_iff in H. destruct H as [H1 H2].
  exists m, d, rest. split; [reflexivity|]. split.
  - destruct rest; [discriminate | congruence].
  - apply Forall_forall. intros c Hc. rewrite forallb_forall in H2. specialize (H2 c Hc).
    destruct (norm_component c); [discriminate | congruence].
Qed.

Lemma Forall_nonempty_files : forall mn subs,
  Forall (fun t => t <> []) (map snd (optl mn) ++ subs) ->
  Forall nonempty (optl mn ++ map file_part subs).
Proof.
  intros mn subs H. apply Forall_app in H. destruct H as [H1 H2]. apply Forall_app. split.
  - destruct mn; cbn [optl map] in *; [|constructor]. inversion H1; subst. repeat constructor. assumption.
  - induction subs as [|x subs IH]; cbn [map]; [constructor|]. inversion H2; subst.
    constructor; [assumption | apply IH; assumption].
Qed.

(* ---------- per descriptor: everything the main proof needs -------------------------------------------- *)
Lemma descriptor_facts : forall e d s, WF e d = true -> mangle e d = Ok s ->
  exists mn subs m dr rest,
    parts_of e d = Ok (all_parts mn subs (final_parts d))
    /\ s = mangle_parts (all_parts mn subs (final_parts d))
    /\ rel_split e (fst (base_file_part (d_base d))) = Some (m, dr, rest)
    /\ map snd (optl mn) ++ subs = map norm_component rest
    /\ (m = true <-> mn <> None)
    /\ Forall nonempty (all_parts mn subs (final_parts d)).
Proof.
  intros e d s HW HM. unfold mangle in HM. unfold parts_of in *.
  destruct (get_components e (fst (base_file_part (d_base d)))) as [[mn subs]| |] eqn:HC; cbn [bind] in HM; try discriminate.
  inversion HM; subst s; clear HM. cbn [fst snd bind].
  destruct (components_rel_split _ _ _ _ HC) as (m & dr & rest & HR & Hmap & Hm0 & Hm1).
  destruct (wf_file_rest _ _ (WF_file _ _ HW)) as (m' & d' & rest' & HR' & Hne & Hnn).
  rewrite HR in HR'. inversion HR'; subst m' d' rest'.
  exists mn, subs, m, dr, rest.
  split; [reflexivity|]. split; [reflexivity|]. split; [exact HR|]. split; [exact Hmap|]. split.
  - split.
    + intros ->. apply Hm1; auto.
    + intros Hx. destruct m; [reflexivity|]. exfalso. apply Hx. apply Hm0. reflexivity.
  - unfold all_parts. change (match mn with Some m0 => [(KModule, m0)] | None => [] end) with (optl mn).
    rewrite List.app_assoc. apply Forall_app. split.
    + apply Forall_nonempty_files. rewrite Hmap. apply Forall_forall. intros t Ht.
      apply in_map_iff in Ht. destruct Ht as (c & <- & Hc). rewrite Forall_forall in Hnn. apply Hnn. exact Hc.
    + unfold final_parts. constructor; [eapply WF_first; eauto | eapply WF_tail; eauto].
Qed.

(* file parts related  ->  normalised retained components related *)
Lemma part_rel_Rn : forall k a k' b, (k = KModule \/ k = KFile) -> part_rel (k, a) (k', b) -> Rn a b.
Proof.
  intros k a k' b Hk [_ H]. cbn [fst snd] in H. unfold Rn, esc_any.
  destruct H as [H|[H|H]]; [left; exact H | right | right]; destruct Hk; subst k; rewrite H;
    repeat rewrite orb_true_r; reflexivity.
Qed.

Lemma files_Rn : forall mn1 s1 mn2 s2,
  Forall2 part_rel (optl mn1) (optl mn2) -> Forall2 part_rel (map file_part s1) (map file_part s2) ->
  Forall2 Rn (map snd (optl mn1) ++ s1) (map snd (optl mn2) ++ s2).
Proof.
  intros mn1 s1 mn2 s2 H1 H2. apply Forall2_app.
  - destruct mn1, mn2; cbn [optl map] in *; inversion H1; subst; constructor; [|constructor].
    eapply part_rel_Rn; [left; reflexivity | eassumption].
  - revert s2 H2. induction s1 as [|x s1 IH]; destruct s2 as [|y s2]; cbn [map]; intros H; inversion H; subst;
      constructor; [|apply IH; assumption].
    eapply part_rel_Rn; [right; reflexivity | unfold file_part in *; eassumption].
Qed.

Lemma F2_eq : forall (A : Type) (l1 l2 : list A), l1 = l2 -> Forall2 eq l1 l2.
Proof. intros A l1 l2 ->. induction l2; constructor; auto. Qed.

Lemma F2_eq_inv : forall (A : Type) (l1 l2 : list A), Forall2 eq l1 l2 -> l1 = l2.
Proof. induction 1; congruence. Qed.

Lemma map_snd_file_part : forall s, map snd (map file_part s) = s.
Proof. induction s; cbn [map file_part snd]; congruence. Qed.

(* ---------- the theorem -------------------------------------------------------------------------------- *)
Theorem collision_explained : forall e d1 d2 s,
  WF e d1 = true -> WF e d2 = true ->
  mangle e d1 = Ok s -> mangle e d2 = Ok s ->
  entity d1 <> entity d2 ->
  explain_collision e d1 d2 <> [] /\ ~ In 0%N (explain_collision e d1 d2).
Proof.
  intros e d1 d2 s W1 W2 M1 M2 Hent.
  destruct (descriptor_facts _ _ _ W1 M1) as (mn1 & s1 & m1 & dr1 & r1 & P1 & E1 & R1 & Mp1 & Hm1 & N1).
  destruct (descriptor_facts _ _ _ W2 M2) as (mn2 & s2 & m2 & dr2 & r2 & P2 & E2 & R2 & Mp2 & Hm2 & N2).
  unfold explain_collision. rewrite P1, P2.
  assert (Hcol : mangle_parts (all_parts mn1 s1 (final_parts d1)) = mangle_parts (all_parts mn2 s2 (final_parts d2)))
    by congruence.
  pose proof (collision_only_by_escape _ _ N1 N2 Hcol) as HF2.
  destruct (all_parts_F2 part_rel (fun p q H => proj1 H) _ _ _ _ _ _ (final_head_ok d1) (final_head_ok d2) HF2)
    as (Fm & Ff & Ffin).
  assert (Hmm : m1 = m2).
  { destruct mn1, mn2; cbn [optl] in Fm; inversion Fm; subst.
    - assert (m1 = true) by (apply Hm1; discriminate). assert (m2 = true) by (apply Hm2; discriminate). congruence.
    - destruct m1, m2; auto; exfalso;
        first [apply (proj1 Hm1 eq_refl); reflexivity | apply (proj1 Hm2 eq_refl); reflexivity]. }
  subst m2. split.
  - (* something is flagged *)
    intros Hnil. apply app_eq_nil in Hnil. destruct Hnil as [Hp Hf].
    apply explain_parts_nil in Hp.
    destruct (all_parts_F2 eq (fun p q H => f_equal fst H) _ _ _ _ _ _ (final_head_ok d1) (final_head_ok d2)
                (F2_eq _ _ _ Hp)) as (Em & Ef & Efin).
    apply F2_eq_inv in Em. apply F2_eq_inv in Ef. apply F2_eq_inv in Efin.
    assert (Hmap : map norm_component r1 = map norm_component r2).
    { rewrite <- Mp1, <- Mp2, Em. f_equal.
      apply (f_equal (map snd)) in Ef. rewrite !map_snd_file_part in Ef. exact Ef. }
    unfold explain_files in Hf. rewrite R1, R2, eqb_reflx in Hf. cbn [negb] in Hf.
    apply app_eq_nil in Hf. destruct Hf as [Hd Hc].
    destruct (opt_str_eqb dr1 dr2) eqn:Ed; [|destruct m1; discriminate].
    apply opt_str_eqb_eq in Ed. subst dr2.
    apply explain_comps_nil in Hc; [|exact Hmap]. subst r2.
    assert (Hfile : fst (base_file_part (d_base d1)) = fst (base_file_part (d_base d2)))
      by (eapply rel_split_inj; eauto).
    destruct (finals_inj _ _ Efin) as (Hs & Hg & Ht).
    apply Hent. rewrite !entity_ebase. f_equal; auto. apply ebase_inj.
    destruct (base_file_part (d_base d1)), (base_file_part (d_base d2)). cbn [fst snd] in *. congruence.
  - (* nothing is unexplained *)
    rewrite in_app_iff. intros [H0|H0].
    + exact (explain_parts_no0 _ _ HF2 H0).
    + unfold explain_files in H0. rewrite R1, R2, eqb_reflx in H0. cbn [negb] in H0.
      rewrite in_app_iff in H0. destruct H0 as [H0|H0].
      * destruct (opt_str_eqb dr1 dr2); [destruct H0|]. destruct m1; destruct H0 as [H0|[]]; discriminate.
      * eapply explain_comps_no0; [|exact H0]. rewrite <- Mp1, <- Mp2. apply files_Rn; assumption.
Qed.

Corollary no_known_class_no_collision : forall e d1 d2 s,
  WF e d1 = true -> WF e d2 = true -> entity d1 <> entity d2 ->
  explain_collision e d1 d2 = [] -> mangle e d1 = Ok s -> mangle e d2 <> Ok s.
Proof.
  intros e d1 d2 s W1 W2 Hent Hnil M1 M2.
  destruct (collision_explained e d1 d2 s W1 W2 M1 M2 Hent) as [H _]. contradiction.
Qed.
