(* CapyCoreMono — fuel monotonicity of the definitional interpreter of
   Common/CapyCore.v: a result different from [RFuel] is stable under any larger
   fuel, hence any two sufficient fuels give the same finished outcome. *)
From Coq Require Import List ZArith Lia Bool Arith.
From Capy Require Import Common.CapyCore.
Import ListNotations.

(* One deterministic move on a goal [_ = M] with [Hne : M <> RFuel]: look at the
   head scrutinee of [M]; a sub-evaluation is first shown not to be [RFuel]
   (otherwise [M] would reduce to [RFuel]), the ordering hypothesis rewrites the
   left-hand side, then both sides are destructed together. *)
Ltac mono_call Hne call bad lem :=
  let N := fresh "N" in
  assert (N : call <> bad)
    by (let X := fresh "X" in intro X; rewrite X in Hne; apply Hne; reflexivity);
  rewrite (lem N); clear N; revert Hne; destruct call; intros Hne.

(* the same inside a block: sub-evaluations are those of the statement evaluator
   [ev] (ordering hypothesis [Hev]) and of the rest of the block (induction
   hypothesis [IH]) *)
Ltac stmts_mono_go ev Hev IH Hne :=
  cbv beta iota in Hne |- *;
  first
    [ reflexivity
    | exfalso; apply Hne; reflexivity
    | apply Hev; exact Hne
    | apply IH; exact Hne
    | match type of Hne with
      | (match ?x with _ => _ end) <> _ =>
          lazymatch x with
          | ev ?en ?out ?a =>
              mono_call Hne x RFuel (Hev en out a)
          | eval_stmts ev ?en ?out ?ss ?tl =>
              mono_call Hne x RFuel (IH tl en out)
          | _ => revert Hne; destruct x; intros Hne
          end;
          stmts_mono_go ev Hev IH Hne
      end ].

(* ------------------------------------------------------------ list helpers *)
Section EvMono.
  Variables ev ev' : env -> list event -> expr -> res.
  Hypothesis Hev : forall en out e, ev en out e <> RFuel -> ev' en out e = ev en out e.

  Lemma eval_list_mono : forall es en out,
      eval_list ev en out es <> LAbort RFuel ->
      eval_list ev' en out es = eval_list ev en out es.
  Proof.
    induction es as [|e es IH]; intros en out Hne; cbn [eval_list] in *.
    - reflexivity.
    - assert (N : ev en out e <> RFuel).
      { intro X. rewrite X in Hne. apply Hne. reflexivity. }
      rewrite (Hev en out e N). clear N. revert Hne.
      destruct (ev en out e) as [en1 out1 c| | | |]; intros Hne; try reflexivity.
      destruct c as [v| | |]; try reflexivity.
      assert (N : eval_list ev en1 out1 es <> LAbort RFuel).
      { intro X. rewrite X in Hne. apply Hne. reflexivity. }
      rewrite (IH en1 out1 N). reflexivity.
  Qed.

  Lemma eval_stmts_mono : forall ss tail en out,
      eval_stmts ev en out ss tail <> RFuel ->
      eval_stmts ev' en out ss tail = eval_stmts ev en out ss tail.
  Proof.
    induction ss as [|s ss IH]; intros tail en out Hne; cbn [eval_stmts] in *.
    - apply Hev. exact Hne.
    - (* every kind of statement ([let]: binding popped afterwards; [defer]: the
         rest of the block first, then the deferred expression; plain statement) *)
      destruct s; stmts_mono_go ev Hev IH Hne.
  Qed.

  Lemma eval_place_mono : forall e en out,
      eval_place ev en out e <> PAbort RFuel ->
      eval_place ev' en out e = eval_place ev en out e.
  Proof.
    induction e; intros en out Hne; cbn [eval_place] in *; try reflexivity.
    - (* EIndex a i *)
      assert (N : eval_place ev en out e1 <> PAbort RFuel).
      { intro X. rewrite X in Hne. apply Hne. reflexivity. }
      rewrite (IHe1 en out N). clear N. revert Hne.
      destruct (eval_place ev en out e1) as [en1 out1 x p|r]; intros Hne; try reflexivity.
      assert (N : ev en1 out1 e2 <> RFuel).
      { intro X. rewrite X in Hne. apply Hne. reflexivity. }
      rewrite (Hev en1 out1 e2 N). reflexivity.
    - (* EField a k *)
      assert (N : eval_place ev en out e <> PAbort RFuel).
      { intro X. rewrite X in Hne. apply Hne. reflexivity. }
      rewrite (IHe en out N). reflexivity.
  Qed.
End EvMono.

(* ------------------------------------------------------------------- step *)
Ltac mono_go rec Hord Hne :=
  cbv beta iota in Hne |- *;
  first
    [ reflexivity
    | exfalso; apply Hne; reflexivity
    | apply Hord; exact Hne
    | match type of Hne with
      | (match ?x with _ => _ end) <> _ =>
          lazymatch x with
          | rec ?s ?en ?out ?a =>
              mono_call Hne x RFuel (Hord s en out a)
          | eval_list (rec ?s) ?en ?out ?es =>
              mono_call Hne x (LAbort RFuel) (eval_list_mono _ _ (Hord s) es en out)
          | eval_stmts (rec ?s) ?en ?out ?ss ?tl =>
              mono_call Hne x RFuel (eval_stmts_mono _ _ (Hord s) ss tl en out)
          | eval_place (rec ?s) ?en ?out ?a =>
              mono_call Hne x (PAbort RFuel) (eval_place_mono _ _ (Hord s) a en out)
          | _ => revert Hne; destruct x; intros Hne
          end;
          mono_go rec Hord Hne
      end ].

Theorem step_mono : forall fs (rec rec' : evaluator),
    (forall s en out e, rec s en out e <> RFuel -> rec' s en out e = rec s en out e) ->
    forall s en out e,
      step fs rec s en out e <> RFuel ->
      step fs rec' s en out e = step fs rec s en out e.
Proof.
  intros fs rec rec' Hord s en out e Hne.
  destruct e; cbn [step] in Hne |- *; mono_go rec Hord Hne.
Qed.

(* ------------------------------------------------------------------- eval *)
Theorem eval_step_mono : forall fs n s en out e,
    eval fs n s en out e <> RFuel ->
    eval fs (S n) s en out e = eval fs n s en out e.
Proof.
  intros fs n. induction n as [|n IH]; intros s en out e Hne.
  - exfalso. apply Hne. reflexivity.
  - change (eval fs (S (S n))) with (step fs (eval fs (S n))).
    change (eval fs (S n) s en out e) with (step fs (eval fs n) s en out e) in Hne |- *.
    apply step_mono; [exact IH | exact Hne].
Qed.

Theorem eval_fuel_monotone : forall fs n m s en out e,
    (n <= m)%nat ->
    eval fs n s en out e <> RFuel ->
    eval fs m s en out e = eval fs n s en out e.
Proof.
  intros fs n m s en out e Hle Hne.
  induction Hle as [|m Hle IH].
  - reflexivity.
  - rewrite eval_step_mono; [exact IH|]. rewrite IH. exact Hne.
Qed.

(* ---------------------------------------------------------------- programs *)
Theorem eval_prog_fuel_monotone : forall p n m,
    (n <= m)%nat ->
    eval_prog n p <> OutOfFuel ->
    eval_prog m p = eval_prog n p.
Proof.
  intros p n m Hle Hne. unfold eval_prog in *.
  destruct (nth_error (funs p) (main p)) as [fd|]; [|reflexivity].
  assert (N : eval (funs p) n ([], []) [] [] (f_body fd) <> RFuel).
  { intro X. rewrite X in Hne. apply Hne. reflexivity. }
  rewrite (eval_fuel_monotone _ _ _ _ _ _ _ Hle N). reflexivity.
Qed.

Theorem eval_prog_deterministic : forall p n m,
    eval_prog n p <> OutOfFuel ->
    eval_prog m p <> OutOfFuel ->
    eval_prog n p = eval_prog m p.
Proof.
  intros p n m Hn Hm.
  destruct (Nat.le_ge_cases n m) as [Hle|Hle].
  - symmetry. apply eval_prog_fuel_monotone; assumption.
  - apply eval_prog_fuel_monotone; assumption.
Qed.
