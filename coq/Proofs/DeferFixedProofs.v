(* C03 — the compiler WITH the proposed fix implements the HIR-level defer
   semantics for every program (structural induction, no bound). *)
From Capy Require Import Common.Util Model.Defer Model.DeferFixed Spec.DeferSpec Proofs.DeferSim.

(* trace emitted by run_defers_to_label *)
Fixpoint unwind_tr (st : dstack) (id : N) : trace :=
  match st with
  | [] => []
  | f :: r => rev (fdefers f) ++ (if opt_is id (fid f) then [] else unwind_tr r id)
  end.

Lemma unwind_incl_tr st id : unwind_incl st id = map TEmit (unwind_tr st id).
Proof.
  induction st as [|f r IH]; cbn [unwind_incl unwind_tr]; auto.
  rewrite map_app. unfold run_defers. destruct (opt_is id (fid f)); cbn [map]; rewrite ?IH; reflexivity.
Qed.

Definition extra (st : dstack) (out : tout) : trace :=
  match out with TNormal => [] | TExit id | THeader id => unwind_tr st id end.

Definition post (l : tout -> trace) (x : trace * oracle * tout) : trace * oracle * tout :=
  let '(t, o, out) := x in (t ++ l out, o, out).

(* what the compiled code does, in terms of the reference semantics *)
Definition lift (st : dstack) := rmap (post (extra st)).

Definition extrab (sid : option N) (st : dstack) (out : tout) : trace :=
  match out with
  | TNormal => []
  | TExit id | THeader id => if opt_is id sid then [] else unwind_tr st id
  end.
Definition liftb (sid : option N) (st : dstack) := rmap (post (extrab sid st)).

Definition P_fx (h : hstmt) : Prop :=
  forall fuel st code o, compile_stmt_fx st h = Ok code ->
    trun_list (trun fuel) code o = lift st (hexec fuel h o).

Definition tail_defers (ne : bool) (defers : list N) : list tstmt :=
  if ne then [] else run_defers defers.

Lemma jump_stmt_out fuel h o st code : is_jump_stmt h = true -> compile_stmt_fx st h = Ok code ->
  exists l, hexec fuel h o = Ok ([], o, TExit l) \/ hexec fuel h o = Ok ([], o, THeader l).
Proof.
  destruct h; cbn; try discriminate; intros _; destruct l; try discriminate; intros _; eauto.
Qed.

Lemma list_fx hs : Forall P_fx hs ->
  forall fuel sid st pend code defers ne o,
    compile_list (fun s x => compile_stmt_fx s x) sid st pend hs = Ok (code, defers, ne) ->
    trun_list (trun fuel) (code ++ tail_defers ne defers) o
    = liftb sid st (hexec_list (hexec fuel) (rev pend) hs o).
Proof.
  induction 1 as [|h r Hh Hr IH]; intros fuel sid st pend code defers ne o Hc.
  - cbn in Hc. inversion Hc; subst. cbn [app tail_defers hexec_list].
    unfold run_defers. rewrite trun_emits_only. cbn. rewrite app_nil_r. reflexivity.
  - destruct (not_defer_dec h) as [[c ->]|Hnd].
    + rewrite compile_list_defer in Hc. rewrite hexec_list_defer.
      specialize (IH fuel sid st (pend ++ rev c) code defers ne o Hc).
      rewrite rev_app_distr, rev_involutive in IH. exact IH.
    + rewrite compile_list_cons in Hc by assumption.
      rewrite hexec_list_cons by assumption.
      destruct (compile_stmt_fx (mkFrame sid pend :: st) h) as [c| |] eqn:Ec; cbn [bind] in Hc; try discriminate.
      pose proof (Hh fuel _ _ o Ec) as Hs.
      destruct (is_jump_stmt h) eqn:Ej.
      * inversion Hc; subst. cbn [tail_defers]. rewrite app_nil_r. rewrite Hs.
        destruct (jump_stmt_out fuel h o _ _ Ej Ec) as [l [E|E]]; rewrite E; cbn;
        destruct (opt_is l sid); cbn; rewrite ?app_nil_r; reflexivity.
      * destruct (compile_list _ sid st pend r) as [[[cr p] ne']| |] eqn:Er; cbn [bind] in Hc; try discriminate.
        inversion Hc; subst. rewrite <- app_assoc. rewrite trun_list_app. rewrite Hs.
        destruct (hexec fuel h o) as [[[t1 o1] out]| |]; cbn; auto.
        destruct out; cbn.
        -- rewrite app_nil_r. rewrite (IH fuel sid st pend cr defers ne o1 Er).
           destruct (hexec_list (hexec fuel) (rev pend) r o1) as [[[t2 o2] out2]| |]; cbn; auto.
           rewrite app_assoc. reflexivity.
        -- destruct (opt_is id sid); rewrite <- ?app_assoc; rewrite ?app_nil_r; reflexivity.
        -- destruct (opt_is id sid); rewrite <- ?app_assoc; rewrite ?app_nil_r; reflexivity.
Qed.

(* a block body compiled under [st], wrapped into its TBlock *)
Lemma block_fx fuel sid st body ex code defers ne o :
  (forall o, trun_list (trun fuel) (code ++ tail_defers ne defers) o
             = liftb sid st (hexec_list (hexec fuel) [] body o)) ->
  ex = code ++ tail_defers ne defers ->
  trun fuel (TBlock sid ex []) o = lift st (hexec fuel (HBlock sid body) o).
Proof.
  intros H ->. cbn [trun hexec]. rewrite H.
  destruct (hexec_list (hexec fuel) [] body o) as [[[t o1] out]| |]; cbn; auto.
  destruct out; cbn.
  - rewrite !app_nil_r. reflexivity.
  - destruct (opt_is id sid); cbn; rewrite ?app_nil_r; reflexivity.
  - destruct (opt_is id sid); cbn; reflexivity.
Qed.

Theorem compile_fx_sim : forall h, P_fx h.
Proof.
  induction h using hstmt_ind2; unfold P_fx; intros fuel st code o Hc.
  - cbn in Hc. inversion Hc; subst. reflexivity.
  - cbn in Hc. discriminate.
  - destruct l; cbn in Hc; inversion Hc; subst.
    rewrite unwind_incl_tr, trun_emits. cbn. rewrite app_nil_r. reflexivity.
  - destruct l; cbn in Hc; inversion Hc; subst.
    rewrite unwind_incl_tr, trun_emits. cbn. rewrite app_nil_r. reflexivity.
  - destruct l; [|cbn in Hc; discriminate].
    destruct k; cbn in Hc; inversion Hc; subst;
    (rewrite trun_list_single; cbn [trun hexec]; destruct (next o) as [c0 o0];
     destruct c0; cbn; auto;
     rewrite unwind_incl_tr, trun_emits; cbn; rewrite app_nil_r; reflexivity).
  - (* block *)
    cbn [compile_stmt_fx] in Hc.
    destruct (compile_list _ sid st [] b) as [[[cd df] ne]| |] eqn:Ec; cbn [bind] in Hc; try discriminate.
    inversion Hc; subst. rewrite trun_list_single.
    eapply block_fx; [|reflexivity].
    intros o'. apply (list_fx b H fuel sid st [] cd df ne o' Ec).
  - (* loop *)
    cbn [compile_stmt_fx] in Hc.
    destruct (compile_list _ None (mkFrame sid [] :: st) [] b) as [[[cd df] ne]| |] eqn:Ec; cbn [bind] in Hc; try discriminate.
    inversion Hc; subst. rewrite trun_list_single.
    rewrite trun_loop, hexec_loop.
    generalize fuel at 2 4 as n. intros n. revert o.
    induction n as [|n IHn]; intros o; [reflexivity|].
    cbn [titer hiter].
    destruct (if c then next o else (true, o)) as [go o0].
    destruct go; cbn [negb]; [|reflexivity].
    rewrite trun_list_single.
    pose proof (block_fx fuel None (mkFrame sid [] :: st) b _ cd df ne o0
                  (fun o' => list_fx b H fuel None _ [] cd df ne o' Ec) eq_refl) as Hb.
    unfold tail_defers in Hb. rewrite Hb. cbn [hexec].
    destruct (hexec_list (hexec fuel) [] b o0) as [[[t1 o1] out]| |]; cbn; auto.
    destruct out; cbn.
    + rewrite app_nil_r. rewrite IHn.
      destruct (hiter fuel sid c b n o1) as [[[t2 o2] out2]| |]; cbn; auto.
      rewrite app_assoc. reflexivity.
    + destruct (opt_is id sid); cbn; rewrite ?app_nil_r; reflexivity.
    + destruct (opt_is id sid); cbn; rewrite ?app_nil_r; auto.
      rewrite IHn.
      destruct (hiter fuel sid c b n o1) as [[[t2 o2] out2]| |]; cbn; auto.
      rewrite app_assoc. reflexivity.
  - (* if *)
    cbn [compile_stmt_fx] in Hc.
    destruct (compile_list _ None st [] a) as [[[ca da] na]| |] eqn:Ea; cbn [bind] in Hc; try discriminate.
    destruct (compile_list _ None st [] b) as [[[cb db] nb]| |] eqn:Eb; cbn [bind] in Hc; try discriminate.
    inversion Hc; subst. rewrite trun_list_single. cbn [trun hexec].
    destruct (next o) as [c0 o0]. destruct c0; rewrite trun_list_single.
    + pose proof (block_fx fuel None st a _ ca da na o0
                  (fun o' => list_fx a H fuel None _ [] ca da na o' Ea) eq_refl) as Hb.
      unfold tail_defers in Hb. rewrite Hb. cbn [hexec].
      destruct (hexec_list (hexec fuel) [] a o0) as [[[t1 o1] out]| |]; cbn; auto.
      destruct out; reflexivity.
    + pose proof (block_fx fuel None st b _ cb db nb o0
                  (fun o' => list_fx b H0 fuel None _ [] cb db nb o' Eb) eq_refl) as Hb.
      unfold tail_defers in Hb. rewrite Hb. cbn [hexec].
      destruct (hexec_list (hexec fuel) [] b o0) as [[[t1 o1] out]| |]; cbn; auto.
      destruct out; reflexivity.
Qed.

(* whole functions *)
Theorem compile_fn_fx_correct : forall h code fuel o,
  compile_fn_fx h = Ok code -> trun_fn fuel code o = hexec_fn fuel h o.
Proof.
  intros h code fuel o Hc. unfold trun_fn, hexec_fn.
  rewrite (compile_fx_sim h fuel [] code o Hc).
  destruct (hexec fuel h o) as [[[t o1] out]| |]; cbn; auto.
  destruct out; cbn; rewrite ?app_nil_r; reflexivity.
Qed.
