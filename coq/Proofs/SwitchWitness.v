(* C11 — concrete witnesses: statements that are FALSE of the faithful model
   (the unchanged compiler violates them) and non-vacuity examples.
   vm_compute is used here only on closed terms. *)
From Capy Require Import Common.Util Model.Switch Spec.SwitchSpec.

Local Open Scope N_scope.

(* ---- discriminants do not always fit the i8 tag ---------------------------- *)
(* full-strength statement: an enum of at most 256 variants whose manual
   discriminants are u8 values gets discriminants that fit the i8 tag *)
Definition discr_fit_full : Prop :=
  forall ms ds,
    (length ms <= 256)%nat ->
    Forall (fun m => forall d, m = Some d -> d < 256) ms ->
    assign_discriminants ms = Ok ds ->
    Forall (fun d => d < 256) ds.

(* enum { A | 255, B, C } : B = 256, C = 257 *)
Lemma discr_witness : assign_discriminants [Some 255; None; None] = Ok [255; 256; 257].
Proof. vm_compute. reflexivity. Qed.

Lemma discr_fit_refuted : ~ discr_fit_full.
Proof.
  intros H. specialize (H [Some 255; None; None] [255; 256; 257]).
  assert (Hf : Forall (fun d => d < 256) [255; 256; 257]).
  { apply H.
    - cbn. lia.
    - repeat constructor; intros d E; inversion E; subst; lia.
    - exact discr_witness. }
  inversion Hf as [|? ? _ Hf1]; subst. inversion Hf1 as [|? ? H256 _]; subst. lia.
Qed.

(* ---- the checker panics ----------------------------------------------------- *)
Definition check_no_crash_full : Prop :=
  forall s arms dflt, exists ds, check_switch s arms dflt = Ok ds.

Definition t_i32 : vty := TA (AOther 1 RScalar).
Definition t_str : vty := TA (AOther 2 RAggr).
Definition t_pi32 : vty := TA (AOther 3 RPtr).

(* D :: distinct ?i32;  switch v in D-value { i32 => .., nil => .. }   (globals.rs:2053) *)
Definition w_distinct_opt : scrut := mkScrut [WDistinct 9] (SOpt t_i32).
Lemma witness_distinct_optional :
  check_switch w_distinct_opt [AFull t_i32; AFull (TA ANil)] false = Crash 2053.
Proof. vm_compute. reflexivity. Qed.

(* D :: distinct enum {A, B}; switch on a D with shorthand arms  (globals.rs:1981) *)
Definition vA : variant := mkVariant 5 10 6 0 false RZero 0.
Definition vB : variant := mkVariant 5 11 7 1 false RScalar 1.
Definition vC : variant := mkVariant 5 12 8 2 false RAggr 7.
Lemma witness_distinct_enum_shorthand :
  check_switch (mkScrut [WDistinct 9] (SEnum 5 [vA; vB])) [AShort 10; AShort 11] false = Crash 1981.
Proof. vm_compute. reflexivity. Qed.

(* DN :: distinct nil;  switch v in ?i32-value { i32 => .., DN => .. }  (globals.rs:2068) *)
Lemma witness_nil_like_arm :
  check_switch (mkScrut [] (SOpt t_i32)) [AFull t_i32; AFull (TA (ADistinctNil 4))] false = Crash 2068.
Proof. vm_compute. reflexivity. Qed.

Lemma check_no_crash_refuted : ~ check_no_crash_full.
Proof.
  intros H. destruct (H w_distinct_opt [AFull t_i32; AFull (TA ANil)] false) as [ds E].
  rewrite witness_distinct_optional in E. discriminate.
Qed.

(* ---- the code generator panics ------------------------------------------------ *)
Definition dispatch_full : Prop :=
  forall sh arms dflt with_arg,
    wf_shape sh -> wf_tags sh ->
    check_switch (mkScrut [] sh) arms dflt = Ok [] ->
    forall j, (j < length (variants_of sh))%nat ->
      dispatch sh arms dflt with_arg j = Ok (spec_outcome sh arms with_arg j).

(* switch p: ?^i32 { nil => .., _ => .. }  : assert!(default.is_none()), functions.rs:1729 *)
Lemma witness_nullable_default :
  check_switch (mkScrut [] (SOpt t_pi32)) [AFull (TA ANil)] true = Ok [] /\
  compile_switch (SOpt t_pi32) [AFull (TA ANil)] true false = Crash 1729.
Proof. split; vm_compute; reflexivity. Qed.

(* E :: enum { A, G: ^i32 };  switch v in e { .A => .., .G => .. } :
   assert!(!payload_ty.is_non_zero()), mod.rs:1679 *)
Definition vG : variant := mkVariant 5 13 9 3 false RPtr 1.
Lemma witness_pointer_payload_arg :
  check_switch (mkScrut [] (SEnum 5 [vA; vG])) [AShort 10; AShort 13] false = Ok [] /\
  compile_switch (SEnum 5 [vA; vG]) [AShort 10; AShort 13] false true = Crash 1679.
Proof. split; vm_compute; reflexivity. Qed.

(* enum { A | 255, B, C } with an arm for C: Cranelift Switch::emit panics (switch.rs:273) *)
Definition vA255 : variant := mkVariant 5 10 6 0 false RZero 255.
Definition vB256 : variant := mkVariant 5 11 7 0 false RZero 256.
Definition vC257 : variant := mkVariant 5 12 8 0 false RZero 257.
Lemma witness_discriminant_too_big :
  check_switch (mkScrut [] (SEnum 5 [vA255; vB256; vC257])) [AShort 10; AShort 11; AShort 12] false = Ok [] /\
  compile_switch (SEnum 5 [vA255; vB256; vC257]) [AShort 10; AShort 11; AShort 12] false false = Crash 273.
Proof. split; vm_compute; reflexivity. Qed.

Lemma wf_shape_opt_ptr : wf_shape (SOpt t_pi32).
Proof.
  split; [discriminate|]. split; [|exact I]. cbn.
  constructor; [intros [E|[]]; discriminate|]. constructor; [intros []|constructor].
Qed.

Lemma dispatch_full_refuted : ~ dispatch_full.
Proof.
  intros H.
  specialize (H (SOpt t_pi32) [AFull (TA ANil)] true false wf_shape_opt_ptr I
                (proj1 witness_nullable_default) 0%nat ltac:(cbn; lia)).
  vm_compute in H. discriminate.
Qed.

(* ---- non-vacuity ------------------------------------------------------------- *)
(* enum { A, B: i32, C: str | 7 } (uid 5); switch v in e { .B => .., E.A => .., _ => .. } *)
Definition ex_enum : shape := SEnum 5 [vA; vB; vC].
Lemma example_check :
  check_switch (mkScrut [] ex_enum) [AShort 11; AFull (TV vA)] true = Ok [] /\
  check_switch (mkScrut [] ex_enum) [AShort 11; AFull (TV vA)] false = Ok [DMissing 2] /\
  check_switch (mkScrut [] ex_enum) [AShort 11; AFull (TV vB); AShort 99] true = Ok [DNotShorthand 2] /\
  check_switch (mkScrut [] ex_enum) [AShort 11; AFull (TV vB)] true = Ok [DAlready 1].
Proof. repeat split; vm_compute; reflexivity. Qed.

Lemma example_dispatch :
  dispatch ex_enum [AShort 11; AFull (TV vA)] true true 0 = Ok (OArm 1 (Some BNone)) /\
  dispatch ex_enum [AShort 11; AFull (TV vA)] true true 1 = Ok (OArm 0 (Some BLoad)) /\
  dispatch ex_enum [AShort 11; AFull (TV vA)] true true 2 = Ok ODefault /\
  dispatch (SOpt t_pi32) [AFull (TA ANil); AFull t_pi32] false true 0 = Ok (OArm 1 (Some BPointer)) /\
  dispatch (SOpt t_pi32) [AFull (TA ANil); AFull t_pi32] false true 1 = Ok (OArm 0 (Some BNone)).
Proof. repeat split; vm_compute; reflexivity. Qed.

Lemma example_discriminants :
  assign_discriminants [None; None; Some 7; None; Some 1; Some 7; None] = Ok [0; 2; 7; 8; 1; 9; 10].
Proof. vm_compute. reflexivity. Qed.
