(* Proofs about Model/Footprint.v against Spec/FootprintSpec.v (C02). *)
From Capy Require Import Common.Util Model.Footprint Spec.FootprintSpec.
Open Scope N_scope.

Lemma within_hi size fp : within size fp = (hi fp <=? size).
Proof.
  induction fp as [| [o w] r IH]; cbn [within forallb hi fold_right]; [symmetry; apply N.leb_le; lia |].
  fold (within size r). fold (hi r). rewrite IH.
  apply Bool.eq_iff_eq_true. rewrite Bool.andb_true_iff, !N.leb_le. lia.
Qed.

Lemma hi_app a b : hi (a ++ b) = N.max (hi a) (hi b).
Proof.
  induction a as [| [o w] r IH]; [change (hi []) with 0; rewrite N.max_0_l; reflexivity |].
  cbn [app hi fold_right].
  fold (hi (r ++ b)). fold (hi r). rewrite IH. lia.
Qed.

Lemma within_app size a b : within size (a ++ b) = within size a && within size b.
Proof. unfold within. apply forallb_app. Qed.

(* ---- the mem_cpy_loop! family, for every limit up to 4096 bytes (finite sweep) ---- *)
Fixpoint nseq (start : N) (len : nat) : list N :=
  match len with O => [] | S k => start :: nseq (start + 1) k end.

Lemma in_nseq len : forall start x, start <= x < start + N.of_nat len -> In x (nseq start len).
Proof.
  induction len; intros start x H; cbn [nseq]; [lia |].
  destruct (N.eq_dec x start); [left; auto | right; apply IHlen; lia].
Qed.

Definition LIMIT : N := 4096.

Lemma narrow_loops_hi_sweep :
  forallb (fun l => hi (cpy_loops l false) =? l) (nseq 0 4097) = true.
Proof. vm_compute. reflexivity. Qed.

Lemma narrow_loops_hi l : l <= LIMIT -> hi (cpy_loops l false) = l.
Proof.
  intros H. apply N.eqb_eq.
  apply (forallb_lift _ _ narrow_loops_hi_sweep). apply in_nseq. unfold LIMIT in H. lia.
Qed.

(* the stack memset: every store is 8 bytes wide *)
Definition wide_hi_expected (l : N) : N :=
  if l =? 0 then 0 else if l mod 8 =? 0 then l
  else l - (if N.odd l then 1 else if (l / 2) mod 2 =? 1 then 2 else 4) + 8.

Lemma wide_loops_hi_sweep :
  forallb (fun l => hi (cpy_loops l true) =? wide_hi_expected l) (nseq 0 4097) = true.
Proof. vm_compute. reflexivity. Qed.

Lemma wide_loops_hi l : l <= LIMIT -> hi (cpy_loops l true) = wide_hi_expected l.
Proof.
  intros H. apply N.eqb_eq.
  apply (forallb_lift _ _ wide_loops_hi_sweep). apply in_nseq. unfold LIMIT in H. lia.
Qed.

(* ------------------------------------------------------------ operations *)
Inductive op : Type :=
| OpCopy (size : N) (t : vlay) (on_stack : bool)
    (* write_all of a value of type t into an object of `size` bytes (size = v_size t) *)
| OpVariantToEnum (size discr_off : N) (payload : option vlay) (on_stack : bool)
| OpPayloadToUnion (size discr_off : N) (payload : option vlay) (on_stack : bool)
| OpNil (size discr_off : N) (non_zero : bool)
| OpMemset (t : vlay) (on_stack : bool)
| OpCastStore (size : N) (words : list N)
| OpByvalCopy (sz : N).

Definition footprint (tag_width : N) (o : op) : list range :=
  match o with
  | OpCopy _ t s => write_all t s
  | OpVariantToEnum _ d p s => variant_to_enum tag_width p d s
  | OpPayloadToUnion _ d p s => payload_to_union p d s
  | OpNil _ d nz => nil_value nz d
  | OpMemset t s => memset t s
  | OpCastStore _ ws => cast_stores 0 ws
  | OpByvalCopy sz => byval_copy sz
  end.

Definition dest_size (o : op) : N :=
  match o with
  | OpCopy size _ _ | OpVariantToEnum size _ _ _ | OpPayloadToUnion size _ _ _
  | OpNil size _ _ | OpCastStore size _ => size
  | OpMemset t _ => v_size t
  | OpByvalCopy sz => sz
  end.

(* layout invariants (C17: size <= stride, tag is the last byte of a sum type, payload
   fits before the tag, a non-aggregate occupies exactly its value's bytes) *)
Definition wf_vlay (t : vlay) : Prop :=
  v_size t <= v_stride t /\ v_stride t <= LIMIT /\ (v_agg t = false -> v_bytes t = v_size t).

Definition wf_payload (p : option vlay) (discr_off : N) : Prop :=
  match p with None => True | Some t => wf_vlay t /\ v_size t <= discr_off end.

Definition wf_op (o : op) : Prop :=
  match o with
  | OpCopy size t _ => wf_vlay t /\ size = v_size t
  | OpVariantToEnum size d p _ | OpPayloadToUnion size d p _ => d + 1 = size /\ wf_payload p d
  | OpNil size d nz => if nz then size = ptr_bytes else d + 1 = size
  | OpMemset t _ => wf_vlay t
  | OpCastStore size ws => True
  | OpByvalCopy sz => sz <= LIMIT
  end.

Definition sum_list (l : list N) : N := fold_right N.add 0 l.

Definition payload_over (p : option vlay) (size : N) : bool :=
  match p with Some t => v_agg t && (size <? v_stride t) | None => false end.

(* narrow classes of the operations whose footprint leaves the destination *)
Definition known_class (tag_width : N) (o : op) : option N :=
  match o with
  | OpVariantToEnum size d p _ =>
      if 1 <? tag_width then Some 1            (* tag stored with pointer width *)
      else if payload_over p size then Some 3 else None
  | OpCopy size t _ => if v_agg t && (size <? v_stride t) then Some 2 else None   (* stride > size *)
  | OpPayloadToUnion size d p _ => if payload_over p size then Some 3 else None
  | OpMemset t true =>
      if negb (v_stride t =? v_size t) || negb (v_stride t mod 8 =? 0) then Some 4 else None
  | OpCastStore size ws => if existsb (N.eqb 0) ws || (size <? sum_list ws) then Some 5 else None
  | _ => None
  end.

Lemma hi_write_all t s : wf_vlay t -> hi (write_all t s) = if v_agg t then v_stride t else v_bytes t.
Proof.
  intros (H1 & H2 & H3). unfold write_all.
  destruct (v_agg t); [| cbn; lia].
  destruct s; [apply narrow_loops_hi; auto |].
  destruct (v_stride t =? 0) eqn:E; [apply N.eqb_eq in E; rewrite E; reflexivity | cbn; lia].
Qed.

Lemma hi_cast_stores ws : forall off, ~ In 0 ws -> ws <> [] -> hi (cast_stores off ws) = off + sum_list ws.
Proof.
  induction ws as [| w r IH]; intros off NZ NE; [congruence |].
  cbn [cast_stores hi fold_right sum_list]. fold (hi (cast_stores (off + w) r)). fold (sum_list r).
  destruct r as [| w2 r2]; [cbn; lia |].
  rewrite IH; [lia | intros H; apply NZ; right; auto | discriminate].
Qed.

Lemma hi_payload p s d : wf_payload p d ->
  hi (match p with Some t => write_all t s | None => [] end)
  = match p with Some t => if v_agg t then v_stride t else v_size t | None => 0 end.
Proof.
  destruct p as [t |]; [| reflexivity]. intros [W L]. rewrite hi_write_all by auto.
  destruct W as (_ & _ & B). destruct (v_agg t); auto.
Qed.

(* every operation outside the known classes stays inside its destination *)
Theorem except_known tag_width o :
  wf_op o -> known_class tag_width o = None -> within (dest_size o) (footprint tag_width o) = true.
Proof.
  destruct o as [size t s | size d p s | size d p s | size d nz | t s | size ws | sz];
    cbn [wf_op known_class footprint dest_size]; intros W K; rewrite within_hi; apply N.leb_le.
  - destruct W as [W ->]. rewrite hi_write_all by auto. destruct W as (H1 & H2 & H3).
    destruct (v_agg t) eqn:A; cbn [andb] in K.
    + destruct (v_size t <? v_stride t) eqn:E; [discriminate |]. apply N.ltb_ge in E. lia.
    + rewrite H3 by auto. lia.
  - destruct W as [D WP]. destruct (1 <? tag_width) eqn:T; [discriminate |]. apply N.ltb_ge in T.
    unfold variant_to_enum, write_val. rewrite hi_app, (hi_payload p s d WP). cbn [hi fold_right].
    destruct p as [t |]; cbn [payload_over] in K; [| lia].
    destruct WP as [(H1 & H2 & H3) L].
    destruct (v_agg t); cbn [andb] in K.
    + destruct (size <? v_stride t) eqn:E; [discriminate |]. apply N.ltb_ge in E. lia.
    + lia.
  - destruct W as [D WP].
    unfold payload_to_union, write_val. rewrite hi_app, (hi_payload p s d WP). cbn [hi fold_right].
    destruct p as [t |]; cbn [payload_over] in K; [| lia].
    destruct WP as [(H1 & H2 & H3) L].
    destruct (v_agg t); cbn [andb] in K.
    + destruct (size <? v_stride t) eqn:E; [discriminate |]. apply N.ltb_ge in E. lia.
    + lia.
  - unfold nil_value, write_val. destruct nz; cbn [hi fold_right]; lia.
  - destruct W as (H1 & H2 & H3). unfold memset. destruct s.
    + destruct (negb (v_stride t =? v_size t) || negb (v_stride t mod 8 =? 0)) eqn:E; [discriminate |].
      apply Bool.orb_false_iff in E. destruct E as [E1 E2].
      apply Bool.negb_false_iff in E1, E2. apply N.eqb_eq in E1.
      rewrite wide_loops_hi by auto. unfold wide_hi_expected. rewrite E2.
      destruct (v_stride t =? 0); lia.
    + destruct (v_size t =? 0) eqn:E; [cbn; lia | cbn; lia].
  - destruct (existsb (N.eqb 0) ws) eqn:Z; cbn [orb] in K; [discriminate |].
    destruct (size <? sum_list ws) eqn:E; [discriminate |]. apply N.ltb_ge in E.
    destruct ws as [| w r]; [cbn; lia |].
    rewrite hi_cast_stores; [lia | | discriminate].
    intros Hin. assert (existsb (N.eqb 0) (w :: r) = true); [| congruence].
    apply existsb_exists. exists 0. split; auto.
  - unfold byval_copy. rewrite narrow_loops_hi by auto. lia.
Qed.

(* the classes are exact: inside a known class the footprint does leave the destination *)
Theorem known_are_violations tag_width o c :
  wf_op o -> known_class tag_width o = Some c -> c <> 5 -> tag_width <= 8 ->
  within (dest_size o) (footprint tag_width o) = false.
Proof.
  destruct o as [size t s | size d p s | size d p s | size d nz | t s | size ws | sz];
    cbn [wf_op known_class footprint dest_size]; intros W K N5 TW; rewrite within_hi; apply N.leb_gt;
    try discriminate.
  - destruct W as [W ->]. rewrite hi_write_all by auto.
    destruct (v_agg t); cbn [andb] in K; [| discriminate].
    destruct (v_size t <? v_stride t) eqn:E; [| discriminate]. apply N.ltb_lt in E. lia.
  - destruct W as [D WP].
    unfold variant_to_enum, write_val. rewrite hi_app, (hi_payload p s d WP). cbn [hi fold_right].
    destruct (1 <? tag_width) eqn:T; [apply N.ltb_lt in T; lia |].
    destruct p as [t |]; cbn [payload_over] in K; [| discriminate].
    destruct (v_agg t); cbn [andb] in K; [| discriminate].
    destruct (size <? v_stride t) eqn:E; [| discriminate]. apply N.ltb_lt in E. lia.
  - destruct W as [D WP].
    unfold payload_to_union, write_val. rewrite hi_app, (hi_payload p s d WP). cbn [hi fold_right].
    destruct p as [t |]; cbn [payload_over] in K; [| discriminate].
    destruct (v_agg t); cbn [andb] in K; [| discriminate].
    destruct (size <? v_stride t) eqn:E; [| discriminate]. apply N.ltb_lt in E. lia.
  - destruct s; [| discriminate]. destruct W as (H1 & H2 & H3).
    unfold memset. rewrite wide_loops_hi by auto. unfold wide_hi_expected.
    destruct (negb (v_stride t =? v_size t) || negb (v_stride t mod 8 =? 0)) eqn:E; [| discriminate].
    apply Bool.orb_true_iff in E.
    destruct (v_stride t =? 0) eqn:Z.
    + apply N.eqb_eq in Z. destruct E as [E | E]; apply Bool.negb_true_iff in E.
      * apply N.eqb_neq in E. lia.
      * rewrite Z in E. cbn in E. discriminate.
    + apply N.eqb_neq in Z. destruct (v_stride t mod 8 =? 0) eqn:M.
      * destruct E as [E | E]; [| discriminate]. apply Bool.negb_true_iff, N.eqb_neq in E. lia.
      * destruct (N.odd (v_stride t)); [lia |]. destruct ((v_stride t / 2) mod 2 =? 1); [lia |].
        apply N.eqb_neq in M.
        pose proof (N.div_mod (v_stride t) 8 ltac:(lia)). pose proof (N.mod_lt (v_stride t) 8 ltac:(lia)).
        set (q := v_stride t / 8) in *. set (r := v_stride t mod 8) in *. lia.
  - destruct (existsb (N.eqb 0) ws || (size <? sum_list ws)); inversion K; congruence.
Qed.

(* the full property is false of the code as it is *)
Definition full (tag_width : N) : Prop :=
  forall o, wf_op o -> within (dest_size o) (footprint tag_width o) = true.

Definition i8_payload : vlay := {| v_size := 1; v_stride := 1; v_agg := false; v_bytes := 1 |}.
Definition s9_16 : vlay := {| v_size := 9; v_stride := 16; v_agg := true; v_bytes := 8 |}.

Lemma full_refuted : ~ full ptr_bytes.
Proof.
  intros H.
  (* enum { A, C: u8 } (size 2, tag at 1): the 8-byte tag store covers [1, 9) *)
  specialize (H (OpVariantToEnum 2 1 (Some i8_payload) false)).
  assert (wf_op (OpVariantToEnum 2 1 (Some i8_payload) false)) as W.
  { cbn. unfold wf_vlay, LIMIT. cbn. repeat split; lia. }
  specialize (H W). vm_compute in H. discriminate.
Qed.

(* ... and stays false after the tag-width fix, because of the stride-sized copies *)
Lemma full_refuted_after_tag_fix : ~ full 1.
Proof.
  intros H. specialize (H (OpCopy 9 s9_16 false)).
  assert (wf_op (OpCopy 9 s9_16 false)) as W.
  { cbn. unfold wf_vlay, LIMIT. cbn. repeat split; lia. }
  specialize (H W). vm_compute in H. discriminate.
Qed.

(* with the tag stored as one byte the variant->enum conversion writes exactly
   payload ++ tag: inside the enum unless the payload copy itself is over-wide *)
Lemma fixed_tag_variant_to_enum size d p s :
  wf_op (OpVariantToEnum size d p s) -> payload_over p size = false ->
  within size (footprint 1 (OpVariantToEnum size d p s)) = true.
Proof.
  intros W K. apply (except_known 1 (OpVariantToEnum size d p s) W).
  cbn [known_class]. change (1 <? 1) with false. cbn iota. rewrite K. reflexivity.
Qed.

(* ------------------- fix candidate C02-2 / C02-3: size-byte aggregate copies *)
Definition footprint_sz (tag_width : N) (o : op) : list range :=
  match o with
  | OpCopy _ t s => write_all_sz t s
  | OpVariantToEnum _ d p s => variant_to_enum_sz tag_width p d s
  | OpPayloadToUnion _ d p s => payload_to_union_sz p d s
  | _ => footprint tag_width o
  end.

(* what remains over-wide with both fixes: the stack memset and the ABI cast words *)
Definition known_class_sz (o : op) : option N :=
  match o with
  | OpMemset _ true | OpCastStore _ _ => known_class 1 o
  | _ => None
  end.

Lemma hi_write_all_sz t s : wf_vlay t -> hi (write_all_sz t s) = if v_agg t then v_size t else v_bytes t.
Proof.
  intros (H1 & H2 & H3). unfold write_all_sz.
  destruct (v_agg t); [| cbn; lia].
  destruct s; [apply narrow_loops_hi; lia |].
  destruct (v_size t =? 0) eqn:E; [apply N.eqb_eq in E; rewrite E; reflexivity | cbn; lia].
Qed.

Lemma hi_payload_sz p s d : wf_payload p d ->
  hi (match p with Some t => write_all_sz t s | None => [] end)
  = match p with Some t => v_size t | None => 0 end.
Proof.
  destruct p as [t |]; [| reflexivity]. intros [W L]. rewrite hi_write_all_sz by auto.
  destruct W as (_ & _ & B). destruct (v_agg t); auto.
Qed.

(* with the tag stored as one byte and aggregates copied by size, every copy, every
   variant->enum, payload->optional / error-union conversion and every nil store stays
   inside its destination, for all layouts *)
Theorem except_known_sz o :
  wf_op o -> known_class_sz o = None -> within (dest_size o) (footprint_sz 1 o) = true.
Proof.
  destruct o as [size t s | size d p s | size d p s | size d nz | t s | size ws | sz];
    cbn [wf_op known_class_sz footprint_sz dest_size]; intros W K.
  - rewrite within_hi. apply N.leb_le. destruct W as [W ->]. rewrite hi_write_all_sz by auto.
    destruct W as (H1 & H2 & H3). destruct (v_agg t); [lia | rewrite H3 by auto; lia].
  - rewrite within_hi. apply N.leb_le. destruct W as [D WP].
    unfold variant_to_enum_sz, write_val. rewrite hi_app, (hi_payload_sz p s d WP). cbn [hi fold_right].
    destruct p as [t |]; [destruct WP as [_ L]; lia | lia].
  - rewrite within_hi. apply N.leb_le. destruct W as [D WP].
    unfold payload_to_union_sz, write_val. rewrite hi_app, (hi_payload_sz p s d WP). cbn [hi fold_right].
    destruct p as [t |]; [destruct WP as [_ L]; lia | lia].
  - apply (except_known 1 (OpNil size d nz)); auto.
  - apply (except_known 1 (OpMemset t s)); auto. destruct s; auto.
  - apply (except_known 1 (OpCastStore size ws)); auto.
  - apply (except_known 1 (OpByvalCopy sz)); auto.
Qed.

(* in particular the three recorded classes 1-3 are gone *)
Corollary copies_within_sz :
  (forall size t s, wf_op (OpCopy size t s) -> within size (footprint_sz 1 (OpCopy size t s)) = true) /\
  (forall size d p s, wf_op (OpVariantToEnum size d p s) ->
     within size (footprint_sz 1 (OpVariantToEnum size d p s)) = true) /\
  (forall size d p s, wf_op (OpPayloadToUnion size d p s) ->
     within size (footprint_sz 1 (OpPayloadToUnion size d p s)) = true).
Proof.
  repeat split; intros; apply (except_known_sz _ H); reflexivity.
Qed.
